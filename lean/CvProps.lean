import CvProps.C01
