import CvProps.C01
import CvProps.C02
import CvProps.C03
import CvProps.C09
import CvProps.C17
import CvProps.C04
