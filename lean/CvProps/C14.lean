/-
  C14 — history independence.  Property theorems only (filled in as proofs land).
-/
import CvModel.Paths
