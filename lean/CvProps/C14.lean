/-
  C14 — history independence of a graph object and of the copies derived from it (model `CvModel/Session.lean`).
  Property theorems only; proofs in `CvProofs/Session.lean`.

  The semantic functions (`Compute`: what a BFS, a path query, … return for given immutable parameters) are universally
  quantified: the theorems are about the bookkeeping — object allocation, the cached inverted copy, the cached ball of
  `find_path`, copies — and hold for all of them.

  An output that is a graph object is observed through its immutable part (`view`): the raw reference depends on the
  allocation order, its content does not.

  Findings recorded here by `example`:
  * with a ball cache that is NOT keyed by the BFS limits (`stepWith false`, the code before the repair of `find_path`)
    history independence fails: after `find_path(max_diameter=1)` a later `find_path()` answers from the radius-1 ball.
  * `modified_copy` does not pass `batch_size` on: the copy has the constructor default (`Compute.defaultBatch`), only
    encoder and hasher are shared.  (Batching does not change results, so this is an observation, not a defect.)
-/
import CvProofs.Session
namespace Cv.Session

section
variable {Def Enc Hasher Arg Res : Type}

/-- for every history `ops` and every operation `op` on an object `o` that exists after `ops`: the output of `op` equals
its output on the fresh session whose only object has the immutable part of `o` (same definition, same encoder, same
hasher and seed) -/
theorem history_independent (c : Compute Def Enc Hasher Arg Res) (root : Imm Def Enc Hasher)
    (ops : List (Op Def Arg Res)) (op : Op Def Arg Res) (o : Obj Def Enc Hasher Res)
    (ho : (run c (fresh root) ops).objs[op.target]? = some o) :
    view (step c (run c (fresh root) ops) op) = view (step c (fresh o.imm) (op.retarget 0)) := by
  exact history_independent' c root ops op o ho

/-- … in particular for the root object: whatever came before, it answers as the freshly constructed graph does -/
theorem history_independent_root (c : Compute Def Enc Hasher Arg Res) (root : Imm Def Enc Hasher)
    (ops : List (Op Def Arg Res)) (op : Op Def Arg Res) (ht : op.target = 0) :
    view (step c (run c (fresh root) ops) op) = view (step c (fresh root) op) := by
  exact history_independent_root' c root ops op ht

/-- the invariant form: "every cache entry equals what a fresh computation with its key produces" (`Inv`) is all that is
needed of the session -/
theorem history_independent_inv (c : Compute Def Enc Hasher Arg Res) (s : Session Def Enc Hasher Res)
    (op : Op Def Arg Res) (o : Obj Def Enc Hasher Res) (hinv : Inv c s) (ho : s.objs[op.target]? = some o) :
    view (step c s op) = view (step c (fresh o.imm) (op.retarget 0)) := by
  exact history_independent_of_inv c s op o hinv ho

/-- the invariant holds initially and is kept by every operation; no operation changes an immutable part -/
theorem invariant_kept (c : Compute Def Enc Hasher Arg Res) (root : Imm Def Enc Hasher)
    (ops : List (Op Def Arg Res)) :
    Inv c (run c (fresh root) ops) ∧ Ext (fresh root) (run c (fresh root) ops) := by
  exact run_inv c (fresh root) ops (inv_fresh c root)

/-- immutable parts never change: definition, encoder, hasher, batch size of object `k` are the same after any further
operations -/
theorem imm_stable (c : Compute Def Enc Hasher Arg Res) (root : Imm Def Enc Hasher)
    (ops ops' : List (Op Def Arg Res)) (k : ObjId) (o : Obj Def Enc Hasher Res)
    (ho : (run c (fresh root) ops).objs[k]? = some o) :
    ∃ o' : Obj Def Enc Hasher Res, (run c (fresh root) (ops ++ ops')).objs[k]? = some o' ∧ o'.imm = o.imm := by
  exact imm_stable' c root ops ops' k o ho

/-- every object created by `takeInverted` / `modifiedCopy` has the same `enc` and `hasher` as its origin -/
theorem copies_share_hashing (c : Compute Def Enc Hasher Arg Res) (s : Session Def Enc Hasher Res) (k : ObjId)
    (o : Obj Def Enc Hasher Res) (hinv : Inv c s) (ho : s.objs[k]? = some o) :
    (∃ (id : ObjId) (o' : Obj Def Enc Hasher Res), (step c s (.takeInverted k)).2 = .obj id ∧
      (step c s (.takeInverted k)).1.objs[id]? = some o' ∧
      o'.defn = c.invert o.defn ∧ o'.enc = o.enc ∧ o'.hasher = o.hasher) ∧
    (∀ d : Def, ∃ (id : ObjId) (o' : Obj Def Enc Hasher Res), (step c s (.modifiedCopy k d)).2 = .obj id ∧
      (step c s (.modifiedCopy k d)).1.objs[id]? = some o' ∧
      o'.defn = d ∧ o'.enc = o.enc ∧ o'.hasher = o.hasher) := by
  exact ⟨takeInverted_shares c s k o hinv ho, fun d => modifiedCopy_shares c s k o d ho⟩

/-- hence every object of a session — copies of copies included — encodes and hashes like the root: results obtained
on any of them can be combined -/
theorem all_share_root (c : Compute Def Enc Hasher Arg Res) (root : Imm Def Enc Hasher)
    (ops : List (Op Def Arg Res)) :
    ∀ o ∈ (run c (fresh root : Session Def Enc Hasher Res) ops).objs, o.enc = root.enc ∧ o.hasher = root.hasher := by
  exact all_share_root' c root ops

/-- `with_inverted_generators` is cached: asking again returns the same reference and changes nothing -/
theorem inverted_copy_cached (c : Compute Def Enc Hasher Arg Res) (s : Session Def Enc Hasher Res) (k : ObjId)
    (o : Obj Def Enc Hasher Res) (ho : s.objs[k]? = some o) :
    step c (step c s (.takeInverted k)).1 (.takeInverted k) =
      ((step c s (.takeInverted k)).1, (step c s (.takeInverted k)).2) := by
  exact takeInverted_twice c s k o ho

end

/-! ### a concrete instance (non-vacuity) and the un-keyed cache -/

/-- a toy semantics over numbers: definitions are numbered, inverting adds 1, even definitions are inverse-closed; a BFS
"returns" `1000 * definition + options`, the ball options are the diameter of the key, a MITM query returns
`ball + start + 7 * (number of inverted copies it saw)` and always looks at the inverted copy -/
def toy : Compute Nat Nat Nat Nat Nat :=
  { invert := fun d => d + 1, invClosed := fun d => d % 2 == 0, hasModel := fun _ => false, defaultBatch := 1024,
    bfs := fun i a => 1000 * i.defn + a, ballOpts := fun key => key.2,
    pathFrom := fun _ ch start ball => ball + start + 7 * ch.length,
    revPathTo := fun _ ch start ball => ball + start + 7 * ch.length,
    mitmDepth := fun _ _ _ => 1,
    pathQuery := fun i ch q ball => i.defn + q + ball + 7 * ch.length, pathQueryDepth := fun _ _ _ => 2,
    beam := fun i ch a => i.defn + a + 7 * ch.length, beamDepth := fun _ _ => 0,
    modelBeamArgs := fun a _ => a, walks := fun i a d => i.defn + a + d, exportGraph := fun i a => i.defn + a }

def toyRoot : Imm Nat Nat Nat := ⟨2, 5, 42, 64⟩

/-- a history touching everything: a path search with limits (caches a ball and the inverted copy), a path query (goes
two copies deep), a modified copy, a search on the (not inverse-closed) inverted copy, … -/
def toyOps : List (Op Nat Nat Nat) :=
  [.findPath 0 3 { maxDiameter := some 1 }, .pathQuery 0 1 2, .modifiedCopy 0 9, .takeInverted 0,
   .findPath 1 4 { maxDiameter := some 3 }, .bfs 3 0, .findPath 1 4 {}]

/-- non-vacuity of `history_independent`: after `toyOps` object 1 is the inverted copy (definition 3, shared encoder 5
and hasher 42, default batch), and it carries a cached inverted copy of its own (object 2, which holds the ball that
`find_path` on object 1 computed: the ball of a graph that is not inverse-closed lives on its inverted copy) -/
example : ((run toy (fresh toyRoot) toyOps).objs[1]?).map (fun o => (o.imm.defn, o.imm.enc, o.imm.hasher,
    o.imm.batch, o.invertedCache)) = some (3, 5, 42, 1024, some 2) := by decide
example : (run toy (fresh toyRoot) toyOps).objs.length = 5 := by decide
/-- … `find_path` on it with new limits after the history = on a fresh object with the same immutable part -/
example : view (step toy (run toy (fresh toyRoot) toyOps) (.findPath 1 4 { maxDiameter := some 2 })) =
    view (step toy (fresh ⟨3, 5, 42, 1024⟩) (.findPath 0 4 { maxDiameter := some 2 })) :=
  history_independent toy toyRoot toyOps (.findPath 1 4 { maxDiameter := some 2 })
    ⟨3, 5, 42, 1024, some 2, none⟩ (by decide)
/-- non-vacuity of `history_independent_root` -/
example : view (step toy (run toy (fresh toyRoot) toyOps) (.findPath 0 3 {})) =
    view (step toy (fresh toyRoot) (.findPath 0 3 {})) :=
  history_independent_root toy toyRoot toyOps _ rfl
/-- the value in question: the radius-50 ball of definition 2, not the radius-1 ball cached by the first operation -/
example : view (step toy (run toy (fresh toyRoot) toyOps) (.findPath 0 3 {})) = .value (2050 + 3 + 7) := by decide

/-- THE DEFECT THAT WAS REPAIRED: with a cache that ignores the limits (`keyed = false`) history independence fails —
after `find_path(start, max_diameter=1)` the call `find_path(start)` answers from the radius-1 ball -/
example : view (stepWith false toy (runWith false toy (fresh toyRoot) [.findPath 0 3 { maxDiameter := some 1 }])
      (.findPath 0 3 {})) ≠
    view (stepWith false toy (fresh toyRoot) (.findPath 0 3 {})) := by decide
example : view (stepWith false toy (runWith false toy (fresh toyRoot) [.findPath 0 3 { maxDiameter := some 1 }])
      (.findPath 0 3 {})) = .value (2001 + 3 + 7) ∧
    view (stepWith false toy (fresh toyRoot) (.findPath 0 3 {})) = .value (2050 + 3 + 7) := by decide

/-- non-vacuity of `copies_share_hashing` / `inverted_copy_cached` on the session after `toyOps` -/
example : (step toy (run toy (fresh toyRoot) toyOps) (.takeInverted 0)).2 = .obj 1 := by decide
example : (step toy (run toy (fresh toyRoot) toyOps) (.modifiedCopy 1 77)).2 = .obj 5 := by decide

end Cv.Session
