/-
  C01e — end to end: BFS over ENCODED states = distance classes of the mathematical action (C01 ∘ C02 ∘ C03).
  Property theorems only; proofs are in `CvProofs/Transport.lean` (generic transport, orbit-restricted BFS theorem),
  `CvProofs/Instance.lean` (the library's graphs as instances), `CvProofs/InstanceExample.lean` (LRX(4)),
  `CvProofs/BfsKernel.lean` (`bfs = bfsK`, a kernel-evaluable copy of the model, used to EVALUATE the example runs).

  Notes on the statements (details in REPORT.md):
  * `distLayer_transport` needs injectivity of `f` on the orbit (`hinj`); a counterexample without it is given.
  * `encoded_bfs_layers_eq_dist` is proved exactly as stated, but its hypothesis `hic : ic = true → Symm (permGraphNb perms)`
    is unsatisfiable for `ic = true` as soon as there is a generator and `n > 0` (`Symm` quantifies over lists of every
    length; see the `example` below).  The useful forms are `encoded_bfs_layers_eq_dist_orbit` (symmetry on the orbit,
    hash injective on rows of the encoded length) and `encoded_bfs_layers_eq_dist_invClosed` (generator list closed
    under inverses, which is what `generators_inverse_closed` means).  The other theorems use the orbit form.
-/
import CvProofs.Instance
import CvProofs.InstanceExample
import CvProofs.BfsKernel
namespace Cv.C01e
open Cv Cv.Instance Cv.Instance.Example

/-! ## transport -/

/-- transport lemma (generic): an orbit-injective map `f` with `f ∘ nb₁ = nb₂ ∘ f` (as lists, on the orbit) carries
distance classes.  (`hinj` is the extra hypothesis; surjectivity onto the orbit of `S.map f` follows from `hcomm`,
see `distLayer_transport_lift`.) -/
theorem distLayer_transport {α β} (nb₁ : α → List α) (nb₂ : β → List β) (f : α → β) (S : List α)
    (hcomm : ∀ x, InOrbit nb₁ S x → (nb₁ x).map f = nb₂ (f x))
    (hinj : ∀ x y, InOrbit nb₁ S x → InOrbit nb₁ S y → f x = f y → x = y)
    (i : Nat) (x : α) (hx : InOrbit nb₁ S x) :
    DistLayer nb₁ S i x ↔ DistLayer nb₂ (S.map f) i (f x) := by
  exact Transport.distLayer_iff nb₁ nb₂ f S hcomm hinj i x hx

/-- non-vacuity: `decode` from the encoded LRX(4) graph (width 2) to the mathematical graph satisfies both hypotheses,
and the encoded start state lies in the orbit -/
example :
    (∀ x, InOrbit gI.nb ([id4].map (Codec.encode 2 4)) x →
      (gI.nb x).map (Codec.decode 2 4) = permGraphNb lrx4 (Codec.decode 2 4 x)) ∧
    (∀ x y, InOrbit gI.nb ([id4].map (Codec.encode 2 4)) x → InOrbit gI.nb ([id4].map (Codec.encode 2 4)) y →
      Codec.decode 2 4 x = Codec.decode 2 4 y → x = y) ∧
    InOrbit gI.nb ([id4].map (Codec.encode 2 4)) (Codec.encode 2 4 id4) := by
  have hval := valid_of_inOrbit 2 4 (by decide) (by decide) lrx4 lrx4_perm identityHash true 1 [id4] id4_encodable
  exact ⟨fun x hx => encoded_hcomm 2 4 (by decide) (by decide) lrx4 lrx4_perm identityHash true 1 x (hval x hx),
    fun x y hx hy => decode_inj_valid 2 4 (by decide) (by decide) x y (hval x hx) (hval y hy),
    Transport.inOrbit_of_mem (by simp)⟩

/-- WITHOUT `hinj` the statement is false: collapse the path `0 → 1 → 2 → …` to a point with a loop.  `hcomm` holds,
`1` is at distance 1 from `0`, but its image is a start state (distance 0). -/
example :
    let nb₁ : Nat → List Nat := fun x => [x + 1]
    let nb₂ : Unit → List Unit := fun _ => [()]
    let f : Nat → Unit := fun _ => ()
    (∀ x, InOrbit nb₁ [0] x → (nb₁ x).map f = nb₂ (f x)) ∧ InOrbit nb₁ [0] 1 ∧
      DistLayer nb₁ [0] 1 1 ∧ ¬ DistLayer nb₂ ([0].map f) 1 (f 1) := by
  intro nb₁ nb₂ f
  have hr : Reach nb₁ [0] 1 1 := ⟨0, by simp, .snoc (.nil 0) (by simp [nb₁])⟩
  refine ⟨fun _ _ => rfl, ⟨1, hr⟩, ⟨hr, ?_⟩, ?_⟩
  · intro j hj h
    have : j = 0 := by omega
    subst this
    simp [reach_zero] at h
  · intro h
    exact h.2 0 (by decide) ((reach_zero ..).2 (by simp [f]))

/-- companion: every state of a distance class of the target graph is the image of a state of the same class -/
theorem distLayer_transport_lift {α β} (nb₁ : α → List α) (nb₂ : β → List β) (f : α → β) (S : List α)
    (hcomm : ∀ x, InOrbit nb₁ S x → (nb₁ x).map f = nb₂ (f x))
    (hinj : ∀ x y, InOrbit nb₁ S x → InOrbit nb₁ S y → f x = f y → x = y)
    (i : Nat) (z : β) (hz : DistLayer nb₂ (S.map f) i z) : ∃ x, DistLayer nb₁ S i x ∧ f x = z := by
  exact Transport.distLayer_lift nb₁ nb₂ f S hcomm hinj i z hz

/-- the link used by all theorems below (C02 strengthened): the compiled routine maps the ENCODING of `s` to the
ENCODING of the permuted state (padding bits stay 0), so the orbit of encoded start states consists of encodings -/
theorem compiled_routine_encode (p : List Nat) (w n : Nat) (hw : 1 ≤ w) (hw' : w ≤ 64)
    (hp : Cv.Perm.IsPermOf n p) (s : List Nat) :
    Codec.evalProg (Codec.compile p w n) (Codec.encLen w n) (Codec.encode w n s) =
      Codec.encode w n (p.map fun i => s.getD i 0) := by
  exact evalProg_compile_encode p w n hw hw' hp s

example : Cv.Perm.IsPermOf 4 [1, 2, 3, 0] ∧
    Codec.evalProg (Codec.compile [1, 2, 3, 0] 2 4) (Codec.encLen 2 4) (Codec.encode 2 4 [3, 1, 0, 2]) =
      Codec.encode 2 4 [1, 0, 2, 3] := by decide +kernel

/-- the orbit of encoded start states consists of encodings of encodable states (entries are rearranged, so they
still fit the width) -/
theorem encoded_orbit_encodings (w n : Nat) (hw : 1 ≤ w) (hw' : w ≤ 64) (perms : List (List Nat))
    (hp : ∀ p ∈ perms, Cv.Perm.IsPermOf n p) (hash : List Cv.Codec.W → Int) (ic : Bool) (batch : Nat)
    (starts : List (List Nat)) (hs : ∀ s ∈ starts, Cv.Codec.encodable w n s = true) (x : List Cv.Codec.W)
    (hx : InOrbit (encodedPermGraph w n perms hash ic batch).nb (starts.map (Cv.Codec.encode w n)) x) :
    ∃ s, Cv.Codec.encodable w n s = true ∧ x = Cv.Codec.encode w n s := by
  exact valid_of_inOrbit w n hw hw' perms hp hash ic batch starts hs x hx

/-- non-vacuity: the encoded start state of LRX(4) is in the orbit (the other hypotheses: see the examples below) -/
example : InOrbit (encodedPermGraph 2 4 lrx4 identityHash true 1).nb ([id4].map (Cv.Codec.encode 2 4))
    (Cv.Codec.encode 2 4 id4) := Transport.inOrbit_of_mem (by simp)

/-- `encode` is injective on encodable states -/
theorem encode_injective (w n : Nat) (hw : 1 ≤ w) (hw' : w ≤ 64) (s t : List Nat)
    (hs : Cv.Codec.encodable w n s = true) (ht : Cv.Codec.encodable w n t = true)
    (h : Cv.Codec.encode w n s = Cv.Codec.encode w n t) : s = t := by
  exact Cv.Instance.encode_injective w n hw hw' s t hs ht h

/-- non-vacuity, and the hypothesis is needed: at width 1 the non-encodable `[0, 1, 2, 3]` and `[0, 1, 0, 1]` have the
same encoding -/
example : Cv.Codec.encodable 2 4 [0, 1, 2, 3] = true ∧ Cv.Codec.encodable 2 4 [3, 2, 1, 0] = true ∧
    Cv.Codec.encode 1 4 [0, 1, 2, 3] = Cv.Codec.encode 1 4 [0, 1, 0, 1] ∧
    Cv.Codec.encodable 1 4 [0, 1, 2, 3] = false := by decide +kernel

/-! ## encoded BFS -/

/-- encoded BFS, exhaustive run (statement exactly as in the task): the reported sizes are the growth function of the
MATHEMATICAL graph on decoded states, and every stored layer decodes to exactly the distance class, for every width
`1 ≤ w ≤ 64` that can hold the entries, every state length, any hash injective on encoded rows -/
theorem encoded_bfs_layers_eq_dist (w n : Nat) (hw : 1 ≤ w) (hw' : w ≤ 64) (perms : List (List Nat))
    (hp : ∀ p ∈ perms, Cv.Perm.IsPermOf n p)
    (hash) (hinj : Function.Injective hash) (ic : Bool) (hic : ic = true → Symm (permGraphNb perms))
    (batch : Nat) (hb : 0 < batch)
    (c : BfsCfg (List Cv.Codec.W)) (starts : List (List Nat))
    (hs : ∀ s ∈ starts, Cv.Codec.encodable w n s = true)
    (hcomp : (bfs (encodedPermGraph w n perms hash ic batch) c
      (starts.map (Cv.Codec.encode w n))).completed = true) :
    let r := bfs (encodedPermGraph w n perms hash ic batch) c (starts.map (Cv.Codec.encode w n))
    (∀ i, i < r.layerSizes.length → ∃ L : List (List Nat), L.Nodup ∧
      (∀ s, s ∈ L ↔ DistLayer (permGraphNb perms) starts i s) ∧ r.layerSizes[i]? = some L.length) ∧
    (∀ s, ¬ DistLayer (permGraphNb perms) starts r.layerSizes.length s) ∧
    (∀ i L, (i, L) ∈ r.layers → (L.map (Cv.Codec.decode w n)).Nodup ∧
      ∀ s, s ∈ L.map (Cv.Codec.decode w n) ↔ DistLayer (permGraphNb perms) starts i s) := by
  exact encoded_bfs_spec w n hw hw' perms hp hash ic batch starts hs (fun x y _ _ h => hinj h)
    (fun h => symmOnOrbit_of_symm perms starts (hic h)) hb c hcomp

/-- non-vacuity of the literal statement: LRX(4), width 2, collision-free hash, `ic = false`, batch size 3; the run is
exhaustive (derived, see `CvProofs/InstanceExample.lean`) -/
example : (1 ≤ 2 ∧ 2 ≤ 64) ∧ (∀ p ∈ lrx4, Cv.Perm.IsPermOf 4 p) ∧ Function.Injective posHash ∧
    (false = true → Symm (permGraphNb lrx4)) ∧ 0 < 3 ∧ (∀ s ∈ [id4], Cv.Codec.encodable 2 4 s = true) ∧
    (bfs (encodedPermGraph 2 4 lrx4 posHash false 3) {} ([id4].map (Cv.Codec.encode 2 4))).completed = true :=
  ⟨by decide, lrx4_perm, posHash_injective, (fun h => by cases h), by decide, id4_encodable, gL_completed⟩

/-- … but for `ic = true` the literal hypothesis `hic` cannot be met: `Symm` also quantifies over lists of the wrong
length (`[]` has the neighbour `[0, 0, 0, 0]`, whose neighbours all have length 4) -/
example : ¬ Symm (permGraphNb lrx4) := lrx4_not_symm

/-- the useful general form: hash injective on rows of the encoded length, mathematical graph symmetric ON THE ORBIT
of the start states (both hypotheses are implied by the ones of `encoded_bfs_layers_eq_dist`) -/
theorem encoded_bfs_layers_eq_dist_orbit (w n : Nat) (hw : 1 ≤ w) (hw' : w ≤ 64) (perms : List (List Nat))
    (hp : ∀ p ∈ perms, Cv.Perm.IsPermOf n p) (hash : List Cv.Codec.W → Int)
    (hinj : ∀ x y : List Cv.Codec.W, x.length = Cv.Codec.encLen w n → y.length = Cv.Codec.encLen w n →
      hash x = hash y → x = y)
    (ic : Bool) (starts : List (List Nat))
    (hic : ic = true → ∀ s t, InOrbit (permGraphNb perms) starts s → t ∈ permGraphNb perms s →
      s ∈ permGraphNb perms t)
    (batch : Nat) (hb : 0 < batch) (c : BfsCfg (List Cv.Codec.W))
    (hs : ∀ s ∈ starts, Cv.Codec.encodable w n s = true)
    (hcomp : (bfs (encodedPermGraph w n perms hash ic batch) c
      (starts.map (Cv.Codec.encode w n))).completed = true) :
    let r := bfs (encodedPermGraph w n perms hash ic batch) c (starts.map (Cv.Codec.encode w n))
    (∀ i, i < r.layerSizes.length → ∃ L : List (List Nat), L.Nodup ∧
      (∀ s, s ∈ L ↔ DistLayer (permGraphNb perms) starts i s) ∧ r.layerSizes[i]? = some L.length) ∧
    (∀ s, ¬ DistLayer (permGraphNb perms) starts r.layerSizes.length s) ∧
    (∀ i L, (i, L) ∈ r.layers → (L.map (Cv.Codec.decode w n)).Nodup ∧
      ∀ s, s ∈ L.map (Cv.Codec.decode w n) ↔ DistLayer (permGraphNb perms) starts i s) := by
  exact encoded_bfs_spec w n hw hw' perms hp hash ic batch starts hs
    (fun x y hx hy h => hinj x y (length_of_valid hx) (length_of_valid hy) h) hic hb c hcomp

/-- the natural form: the flag `generators_inverse_closed` is only set when the generator list is closed under
inverses -/
theorem encoded_bfs_layers_eq_dist_invClosed (w n : Nat) (hw : 1 ≤ w) (hw' : w ≤ 64) (perms : List (List Nat))
    (hp : ∀ p ∈ perms, Cv.Perm.IsPermOf n p) (hash : List Cv.Codec.W → Int)
    (hinj : ∀ x y : List Cv.Codec.W, x.length = Cv.Codec.encLen w n → y.length = Cv.Codec.encLen w n →
      hash x = hash y → x = y)
    (ic : Bool) (hic : ic = true → ∀ p ∈ perms, Cv.Perm.inverse p ∈ perms)
    (batch : Nat) (hb : 0 < batch) (c : BfsCfg (List Cv.Codec.W)) (starts : List (List Nat))
    (hs : ∀ s ∈ starts, Cv.Codec.encodable w n s = true)
    (hcomp : (bfs (encodedPermGraph w n perms hash ic batch) c
      (starts.map (Cv.Codec.encode w n))).completed = true) :
    let r := bfs (encodedPermGraph w n perms hash ic batch) c (starts.map (Cv.Codec.encode w n))
    (∀ i, i < r.layerSizes.length → ∃ L : List (List Nat), L.Nodup ∧
      (∀ s, s ∈ L ↔ DistLayer (permGraphNb perms) starts i s) ∧ r.layerSizes[i]? = some L.length) ∧
    (∀ s, ¬ DistLayer (permGraphNb perms) starts r.layerSizes.length s) ∧
    (∀ i L, (i, L) ∈ r.layers → (L.map (Cv.Codec.decode w n)).Nodup ∧
      ∀ s, s ∈ L.map (Cv.Codec.decode w n) ↔ DistLayer (permGraphNb perms) starts i s) := by
  exact encoded_bfs_spec w n hw hw' perms hp hash ic batch starts hs
    (fun x y hx hy h => hinj x y (length_of_valid hx) (length_of_valid hy) h)
    (fun h => symmOnOrbit_of_invClosed n perms hp (hic h) starts (fun s hsm => length_of_encodable (hs s hsm)))
    hb c hcomp

/-- non-vacuity: LRX(4), width 2 (one word), identity hasher, flagged inverse-closed (two-layer window), batch size 1
(batched branch): every hypothesis holds, the run is exhaustive and reports the growth function of LRX(4) -/
example : (1 ≤ 2 ∧ 2 ≤ 64) ∧ (∀ p ∈ lrx4, Cv.Perm.IsPermOf 4 p) ∧
    (∀ x y : List Cv.Codec.W, x.length = Cv.Codec.encLen 2 4 → y.length = Cv.Codec.encLen 2 4 →
      identityHash x = identityHash y → x = y) ∧
    (true = true → ∀ p ∈ lrx4, Cv.Perm.inverse p ∈ lrx4) ∧
    (true = true → ∀ s t, InOrbit (permGraphNb lrx4) [id4] s → t ∈ permGraphNb lrx4 s → s ∈ permGraphNb lrx4 t) ∧
    0 < 1 ∧ (∀ s ∈ [id4], Cv.Codec.encodable 2 4 s = true) ∧
    (bfs (encodedPermGraph 2 4 lrx4 identityHash true 1) {} ([id4].map (Cv.Codec.encode 2 4))).completed = true ∧
    (bfs (encodedPermGraph 2 4 lrx4 identityHash true 1) {} ([id4].map (Cv.Codec.encode 2 4))).layerSizes =
      [1, 3, 5, 6, 5, 3, 1] :=
  ⟨by decide, lrx4_perm, fun x y hx hy h => identityHash_inj_len1 x y (by rw [hx]; decide) (by rw [hy]; decide) h,
    fun _ => lrx4_invClosed, fun _ => lrx4_symm, by decide, id4_encodable, lrx4_completed, lrx4_sizes⟩

/-- the same run EVALUATED in the kernel (through `Cv.Kernel.bfs_eq_bfsK : bfs g c S = bfsK g c S`, a copy of the model
with structural sorting functions): flag, sizes and stored layers … -/
example :
    (bfs (encodedPermGraph 2 4 lrx4 identityHash true 1) {} ([id4].map (Cv.Codec.encode 2 4))).completed = true ∧
    (bfs (encodedPermGraph 2 4 lrx4 identityHash true 1) {} ([id4].map (Cv.Codec.encode 2 4))).layerSizes =
      [1, 3, 5, 6, 5, 3, 1] ∧
    (bfs (encodedPermGraph 2 4 lrx4 identityHash true 1) {} ([id4].map (Cv.Codec.encode 2 4))).layers =
      [(0, [[0xe4#64]]),
       (1, [[0x39#64], [0x93#64], [0xe1#64]]),
       (2, [[0x36#64], [0x4e#64], [0x9c#64], [0x78#64], [0x87#64]]),
       (3, [[0x8d#64], [0xd8#64], [0x4b#64], [0x27#64], [0x72#64], [0x1e#64]]),
       (4, [[0x63#64], [0xd2#64], [0x2d#64], [0xc9#64], [0x1b#64]]),
       (5, [[0x6c#64], [0xb4#64], [0xc6#64]]),
       (6, [[0xb1#64]])] := lrx4_run
/-- … and the stored layers decoded: 1 + 3 + 5 + 6 + 5 + 3 + 1 = 24 arrangements, every one exactly once -/
example :
    ((bfs (encodedPermGraph 2 4 lrx4 identityHash true 1) {} ([id4].map (Cv.Codec.encode 2 4))).layers.map
        fun p => (p.1, p.2.map (Cv.Codec.decode 2 4))) =
      [(0, [[0, 1, 2, 3]]),
       (1, [[1, 2, 3, 0], [3, 0, 1, 2], [1, 0, 2, 3]]),
       (2, [[2, 1, 3, 0], [2, 3, 0, 1], [0, 3, 1, 2], [0, 2, 3, 1], [3, 1, 0, 2]]),
       (3, [[1, 3, 0, 2], [0, 2, 1, 3], [3, 2, 0, 1], [3, 1, 2, 0], [2, 0, 3, 1], [2, 3, 1, 0]]),
       (4, [[3, 0, 2, 1], [2, 0, 1, 3], [1, 3, 2, 0], [1, 2, 0, 3], [3, 2, 1, 0]]),
       (5, [[0, 3, 2, 1], [0, 1, 3, 2], [2, 1, 0, 3]]),
       (6, [[1, 0, 3, 2]])] := lrx4_run_decoded

/-- `hs` is needed: width 1 cannot hold the entries of `[0, 1, 2, 3]`; the model's `encode` truncates them, the search
explores the 6-state orbit of `[0, 1, 0, 1]` and reports completion after 3 layers, but class 3 of LRX(4) is not empty -/
example :
    Cv.Codec.encodable 1 4 id4 = false ∧
    (bfs (encodedPermGraph 1 4 lrx4 identityHash true 1) {} ([id4].map (Cv.Codec.encode 1 4))).completed = true ∧
    (bfs (encodedPermGraph 1 4 lrx4 identityHash true 1) {} ([id4].map (Cv.Codec.encode 1 4))).layerSizes =
      [1, 2, 3] ∧
    DistLayer (permGraphNb lrx4) [id4] 3 [1, 3, 0, 2] := hs_needed

/-- `hinj` is needed: with a constant hash the search reports completion after layer 0, but class 1 is not empty -/
example :
    (bfs (encodedPermGraph 2 4 lrx4 (fun _ => 0) true 1) {} ([id4].map (Cv.Codec.encode 2 4))).completed = true ∧
    (bfs (encodedPermGraph 2 4 lrx4 (fun _ => 0) true 1) {} ([id4].map (Cv.Codec.encode 2 4))).layerSizes = [1] ∧
    DistLayer (permGraphNb lrx4) [id4] 1 [1, 2, 3, 0] := hinj_needed

/-- single word (`n*w ≤ 64`): the identity hasher is injective on the orbit, so NO collision hypothesis is left -/
theorem encoded_bfs_single_word (w n : Nat) (hw : 1 ≤ w) (hw' : w ≤ 64)
    (hlen : Cv.Codec.encLen w n = 1) (perms : List (List Nat))
    (hp : ∀ p ∈ perms, Cv.Perm.IsPermOf n p) (ic : Bool) (starts : List (List Nat))
    (hic : ic = true → ∀ s t, InOrbit (permGraphNb perms) starts s → t ∈ permGraphNb perms s →
      s ∈ permGraphNb perms t)
    (batch : Nat) (hb : 0 < batch) (c : BfsCfg (List Cv.Codec.W))
    (hs : ∀ s ∈ starts, Cv.Codec.encodable w n s = true)
    (hcomp : (bfs (encodedPermGraph w n perms identityHash ic batch) c
      (starts.map (Cv.Codec.encode w n))).completed = true) :
    let r := bfs (encodedPermGraph w n perms identityHash ic batch) c (starts.map (Cv.Codec.encode w n))
    (∀ i, i < r.layerSizes.length → ∃ L : List (List Nat), L.Nodup ∧
      (∀ s, s ∈ L ↔ DistLayer (permGraphNb perms) starts i s) ∧ r.layerSizes[i]? = some L.length) ∧
    (∀ s, ¬ DistLayer (permGraphNb perms) starts r.layerSizes.length s) ∧
    (∀ i L, (i, L) ∈ r.layers → (L.map (Cv.Codec.decode w n)).Nodup ∧
      ∀ s, s ∈ L.map (Cv.Codec.decode w n) ↔ DistLayer (permGraphNb perms) starts i s) := by
  exact encoded_bfs_spec w n hw hw' perms hp identityHash ic batch starts hs
    (identityHash_inj_valid w n hlen) hic hb c hcomp

/-- non-vacuity: the same LRX(4) instance -/
example : (1 ≤ 2 ∧ 2 ≤ 64) ∧ Cv.Codec.encLen 2 4 = 1 ∧ (∀ p ∈ lrx4, Cv.Perm.IsPermOf 4 p) ∧
    (true = true → ∀ s t, InOrbit (permGraphNb lrx4) [id4] s → t ∈ permGraphNb lrx4 s → s ∈ permGraphNb lrx4 t) ∧
    0 < 1 ∧ (∀ s ∈ [id4], Cv.Codec.encodable 2 4 s = true) ∧
    (bfs (encodedPermGraph 2 4 lrx4 identityHash true 1) {} ([id4].map (Cv.Codec.encode 2 4))).completed = true :=
  ⟨by decide, encLen_2_4, lrx4_perm, fun _ => lrx4_symm, by decide, id4_encodable, lrx4_completed⟩

/-- the identity hasher is NOT injective on all rows (so `encoded_bfs_layers_eq_dist` does not apply to it directly):
rows of different lengths collide -/
example : identityHash [] = identityHash [0#64] ∧ ([] : List Cv.Codec.W) ≠ [0#64] := by decide

/-- for single-word states the library generates the 1-D routines (`lambda x: t1 | t2 | …`); the graph built from them
gives exactly the same `bfs` output, so `encoded_bfs_single_word` covers it as well -/
theorem encoded1d_bfs_eq (w n : Nat) (hw : 1 ≤ w) (hw' : w ≤ 64) (hlen : Cv.Codec.encLen w n = 1)
    (perms : List (List Nat)) (hp : ∀ p ∈ perms, Cv.Perm.IsPermOf n p) (hash : List Cv.Codec.W → Int) (ic : Bool)
    (batch : Nat) (c : BfsCfg (List Cv.Codec.W)) (starts : List (List Nat)) :
    bfs (encodedPermGraph1d w n perms hash ic batch) c (starts.map (Cv.Codec.encode w n)) =
      bfs (encodedPermGraph w n perms hash ic batch) c (starts.map (Cv.Codec.encode w n)) := by
  apply bfs_encoded1d w n hw hw' hlen perms hp hash ic batch c
  intro x hx
  obtain ⟨s, -, rfl⟩ := List.mem_map.1 hx
  rw [Cv.Codec.length_encode, hlen]

example : (1 ≤ 2 ∧ 2 ≤ 64) ∧ Cv.Codec.encLen 2 4 = 1 ∧ (∀ p ∈ lrx4, Cv.Perm.IsPermOf 4 p) :=
  ⟨by decide, encLen_2_4, lrx4_perm⟩

/-- the encoded search reports completion whenever the MATHEMATICAL graph has an empty class `k ≤ max_diameter`, its
orbit is smaller than `max_layer_size_to_explore` and no callback stops the run (how `hcomp` is discharged) -/
theorem encoded_bfs_completes (w n : Nat) (hw : 1 ≤ w) (hw' : w ≤ 64) (perms : List (List Nat))
    (hp : ∀ p ∈ perms, Cv.Perm.IsPermOf n p) (hash : List Cv.Codec.W → Int)
    (hinj : ∀ x y : List Cv.Codec.W, x.length = Cv.Codec.encLen w n → y.length = Cv.Codec.encLen w n →
      hash x = hash y → x = y)
    (ic : Bool) (starts : List (List Nat))
    (hic : ic = true → ∀ s t, InOrbit (permGraphNb perms) starts s → t ∈ permGraphNb perms s →
      s ∈ permGraphNb perms t)
    (batch : Nat) (hb : 0 < batch) (c : BfsCfg (List Cv.Codec.W))
    (hs : ∀ s ∈ starts, Cv.Codec.encodable w n s = true)
    (k : Nat) (hk : 1 ≤ k) (hkd : k ≤ c.maxDiameter)
    (hempty : ∀ s, ¬ DistLayer (permGraphNb perms) starts k s)
    (all : List (List Nat)) (hall : ∀ s, InOrbit (permGraphNb perms) starts s → s ∈ all)
    (hsmall : all.length < c.maxExplore)
    (hstop : ∀ f, c.stop = some f → ∀ i l, f i l = false) :
    (bfs (encodedPermGraph w n perms hash ic batch) c (starts.map (Cv.Codec.encode w n))).completed = true := by
  exact Cv.Instance.encoded_bfs_completes w n hw hw' perms hp hash ic batch starts hs
    (fun x y hx hy h => hinj x y (length_of_valid hx) (length_of_valid hy) h) hic hb c k hk hkd hempty all hall
    hsmall hstop

/-- non-vacuity: for LRX(4) class 7 is empty and the orbit has 24 states (both checked in the kernel) -/
example : 1 ≤ 7 ∧ 7 ≤ ({} : BfsCfg (List Cv.Codec.W)).maxDiameter ∧
    (∀ s, ¬ DistLayer (permGraphNb lrx4) [id4] 7 s) ∧
    (∀ s, InOrbit (permGraphNb lrx4) [id4] s → s ∈ all24) ∧
    all24.length < ({} : BfsCfg (List Cv.Codec.W)).maxExplore ∧
    (∀ f, ({} : BfsCfg (List Cv.Codec.W)).stop = some f → ∀ i l, f i l = false) :=
  ⟨by decide, by decide, class7_empty, orbit_subset, by rw [all24_length]; decide, fun f hf => by cases hf⟩

/-! ## un-encoded BFS -/

/-- the same for the un-encoded graph (`bit_encoding_width=None`, `torch.gather`); no hypothesis on `perms` is
needed, the hash only has to be injective on the orbit -/
theorem plain_bfs_layers_eq_dist (perms : List (List Nat)) (hash : List Nat → Int) (starts : List (List Nat))
    (hinj : ∀ s t, InOrbit (permGraphNb perms) starts s → InOrbit (permGraphNb perms) starts t →
      hash s = hash t → s = t)
    (ic : Bool)
    (hic : ic = true → ∀ s t, InOrbit (permGraphNb perms) starts s → t ∈ permGraphNb perms s →
      s ∈ permGraphNb perms t)
    (batch : Nat) (hb : 0 < batch) (c : BfsCfg (List Nat))
    (hcomp : (bfs (plainPermGraph perms hash ic batch) c starts).completed = true) :
    let r := bfs (plainPermGraph perms hash ic batch) c starts
    (∀ i, i < r.layerSizes.length → ∃ L : List (List Nat), L.Nodup ∧
      (∀ s, s ∈ L ↔ DistLayer (permGraphNb perms) starts i s) ∧ r.layerSizes[i]? = some L.length) ∧
    (∀ s, ¬ DistLayer (permGraphNb perms) starts r.layerSizes.length s) ∧
    (∀ i L, (i, L) ∈ r.layers → L.Nodup ∧ ∀ s, s ∈ L ↔ DistLayer (permGraphNb perms) starts i s) := by
  exact plain_bfs_spec perms hash ic batch starts hinj hic hb c hcomp

/-- non-vacuity: LRX(4) un-encoded, hash = the state read in base 4, flagged inverse-closed, batch size 2 -/
example :
    (∀ s t, InOrbit (permGraphNb lrx4) [id4] s → InOrbit (permGraphNb lrx4) [id4] t → b4Hash s = b4Hash t → s = t) ∧
    (true = true → ∀ s t, InOrbit (permGraphNb lrx4) [id4] s → t ∈ permGraphNb lrx4 s → s ∈ permGraphNb lrx4 t) ∧
    0 < 2 ∧ (bfs (plainPermGraph lrx4 b4Hash true 2) {} [id4]).completed = true :=
  ⟨b4Hash_inj, fun _ => lrx4_symm, by decide, gP_completed⟩

/-- the un-encoded run evaluated in the kernel -/
example : (bfs (plainPermGraph lrx4 b4Hash true 2) {} [id4]).completed = true ∧
    (bfs (plainPermGraph lrx4 b4Hash true 2) {} [id4]).layerSizes = [1, 3, 5, 6, 5, 3, 1] ∧
    (bfs (plainPermGraph lrx4 b4Hash true 2) {} [id4]).layers =
      [(0, [[0, 1, 2, 3]]),
       (1, [[1, 0, 2, 3], [1, 2, 3, 0], [3, 0, 1, 2]]),
       (2, [[0, 2, 3, 1], [2, 1, 3, 0], [2, 3, 0, 1], [3, 1, 0, 2], [0, 3, 1, 2]]),
       (3, [[0, 2, 1, 3], [1, 3, 0, 2], [2, 0, 3, 1], [2, 3, 1, 0], [3, 2, 0, 1], [3, 1, 2, 0]]),
       (4, [[2, 0, 1, 3], [3, 0, 2, 1], [1, 2, 0, 3], [3, 2, 1, 0], [1, 3, 2, 0]]),
       (5, [[0, 1, 3, 2], [0, 3, 2, 1], [2, 1, 0, 3]]),
       (6, [[1, 0, 3, 2]])] := gP_run

/-- a WRONGLY set flag (`ic = true` for the single generator "rotate 3 elements", which is not inverse-closed): the
two-layer window forgets layer 0, the three states are reported again and again and the run never completes (stopped
here by `max_diameter = 5`); without the flag the run is exhaustive with sizes `[1, 1, 1]` -/
example :
    (bfs (plainPermGraph [[1, 2, 0]] b4Hash true 2) { maxDiameter := 5 } [[0, 1, 2]]).completed = false ∧
    (bfs (plainPermGraph [[1, 2, 0]] b4Hash true 2) { maxDiameter := 5 } [[0, 1, 2]]).layerSizes =
      [1, 1, 1, 1, 1, 1] ∧
    (bfs (plainPermGraph [[1, 2, 0]] b4Hash false 2) { maxDiameter := 5 } [[0, 1, 2]]).completed = true ∧
    (bfs (plainPermGraph [[1, 2, 0]] b4Hash false 2) { maxDiameter := 5 } [[0, 1, 2]]).layerSizes = [1, 1, 1] ∧
    ∀ s, ¬ DistLayer (permGraphNb [[1, 2, 0]]) [[0, 1, 2]] 3 s := hic_wrong_flag

/-! ## configuration independence, end to end -/

/-- two widths / hashes / batch sizes / flags / option sets give the same growth function -/
theorem encoded_bfs_width_independent (w₁ w₂ n : Nat) (hw₁ : 1 ≤ w₁) (hw₁' : w₁ ≤ 64) (hw₂ : 1 ≤ w₂)
    (hw₂' : w₂ ≤ 64) (perms : List (List Nat)) (hp : ∀ p ∈ perms, Cv.Perm.IsPermOf n p)
    (hash₁ hash₂ : List Cv.Codec.W → Int)
    (hinj₁ : ∀ x y : List Cv.Codec.W, x.length = Cv.Codec.encLen w₁ n → y.length = Cv.Codec.encLen w₁ n →
      hash₁ x = hash₁ y → x = y)
    (hinj₂ : ∀ x y : List Cv.Codec.W, x.length = Cv.Codec.encLen w₂ n → y.length = Cv.Codec.encLen w₂ n →
      hash₂ x = hash₂ y → x = y)
    (ic₁ ic₂ : Bool) (starts : List (List Nat))
    (hic₁ : ic₁ = true → ∀ s t, InOrbit (permGraphNb perms) starts s → t ∈ permGraphNb perms s →
      s ∈ permGraphNb perms t)
    (hic₂ : ic₂ = true → ∀ s t, InOrbit (permGraphNb perms) starts s → t ∈ permGraphNb perms s →
      s ∈ permGraphNb perms t)
    (batch₁ batch₂ : Nat) (hb₁ : 0 < batch₁) (hb₂ : 0 < batch₂) (c₁ c₂ : BfsCfg (List Cv.Codec.W))
    (hs₁ : ∀ s ∈ starts, Cv.Codec.encodable w₁ n s = true)
    (hs₂ : ∀ s ∈ starts, Cv.Codec.encodable w₂ n s = true)
    (hcomp₁ : (bfs (encodedPermGraph w₁ n perms hash₁ ic₁ batch₁) c₁
      (starts.map (Cv.Codec.encode w₁ n))).completed = true)
    (hcomp₂ : (bfs (encodedPermGraph w₂ n perms hash₂ ic₂ batch₂) c₂
      (starts.map (Cv.Codec.encode w₂ n))).completed = true) :
    (bfs (encodedPermGraph w₁ n perms hash₁ ic₁ batch₁) c₁ (starts.map (Cv.Codec.encode w₁ n))).layerSizes =
    (bfs (encodedPermGraph w₂ n perms hash₂ ic₂ batch₂) c₂ (starts.map (Cv.Codec.encode w₂ n))).layerSizes := by
  exact encoded_sizes_eq w₁ w₂ n hw₁ hw₁' hw₂ hw₂' perms hp hash₁ hash₂ ic₁ ic₂ batch₁ batch₂ starts hs₁ hs₂
    (fun x y hx hy h => hinj₁ x y (length_of_valid hx) (length_of_valid hy) h)
    (fun x y hx hy h => hinj₂ x y (length_of_valid hx) (length_of_valid hy) h) hic₁ hic₂ hb₁ hb₂ c₁ c₂ hcomp₁ hcomp₂

/-- non-vacuity: LRX(4) with width 2 (one word, identity hasher, inverse-closed flag, batch size 1, default options)
against width 32 (two words, collision-free hash, no flag, batch size 5, batching disabled, hashes requested, store
limit 1): both runs are exhaustive -/
example : (1 ≤ 2 ∧ 2 ≤ 64 ∧ 1 ≤ 32 ∧ 32 ≤ 64) ∧ (∀ p ∈ lrx4, Cv.Perm.IsPermOf 4 p) ∧
    (∀ x y : List Cv.Codec.W, x.length = Cv.Codec.encLen 2 4 → y.length = Cv.Codec.encLen 2 4 →
      identityHash x = identityHash y → x = y) ∧
    (∀ x y : List Cv.Codec.W, x.length = Cv.Codec.encLen 32 4 → y.length = Cv.Codec.encLen 32 4 →
      posHash x = posHash y → x = y) ∧
    (true = true → ∀ s t, InOrbit (permGraphNb lrx4) [id4] s → t ∈ permGraphNb lrx4 s → s ∈ permGraphNb lrx4 t) ∧
    (∀ s ∈ [id4], Cv.Codec.encodable 2 4 s = true) ∧ (∀ s ∈ [id4], Cv.Codec.encodable 32 4 s = true) ∧
    Cv.Codec.encLen 32 4 = 2 ∧
    (bfs (encodedPermGraph 2 4 lrx4 identityHash true 1) {} ([id4].map (Cv.Codec.encode 2 4))).completed = true ∧
    (bfs (encodedPermGraph 32 4 lrx4 posHash false 5) cW ([id4].map (Cv.Codec.encode 32 4))).completed = true :=
  ⟨by decide, lrx4_perm, fun x y hx hy h => identityHash_inj_len1 x y (by rw [hx]; decide) (by rw [hy]; decide) h,
    fun x y _ _ h => posHash_injective h, fun _ => lrx4_symm, id4_encodable, id4_encodable32, encLen_32_4,
    lrx4_completed, gW_completed⟩

/-- … hence the two-word run reports the same growth function (a consequence of the theorems, not evaluated) -/
example : (bfs (encodedPermGraph 32 4 lrx4 posHash false 5) cW ([id4].map (Cv.Codec.encode 32 4))).layerSizes =
    [1, 3, 5, 6, 5, 3, 1] := by
  rw [← lrx4_sizes]
  exact (encoded_bfs_width_independent 2 32 4 (by decide) (by decide) (by decide) (by decide) lrx4 lrx4_perm
    identityHash posHash
    (fun x y hx hy h => identityHash_inj_len1 x y (by rw [hx]; decide) (by rw [hy]; decide) h)
    (fun x y _ _ h => posHash_injective h) true false [id4] (fun _ => lrx4_symm) (fun h => by cases h) 1 5
    (by decide) (by decide) {} cW id4_encodable id4_encodable32 lrx4_completed gW_completed).symm

/-- the two-word run evaluated in the kernel: store limit 1 keeps only layers 0 and 6; the sizes agree -/
example :
    (bfs (encodedPermGraph 32 4 lrx4 posHash false 5) cW ([id4].map (Cv.Codec.encode 32 4))).completed = true ∧
    (bfs (encodedPermGraph 32 4 lrx4 posHash false 5) cW ([id4].map (Cv.Codec.encode 32 4))).layerSizes =
      [1, 3, 5, 6, 5, 3, 1] ∧
    (bfs (encodedPermGraph 32 4 lrx4 posHash false 5) cW ([id4].map (Cv.Codec.encode 32 4))).layers =
      [(0, [[0x0000000100000000#64, 0x0000000300000002#64]]),
       (6, [[0x0000000000000001#64, 0x0000000200000003#64]])] ∧
    (bfs (encodedPermGraph 32 4 lrx4 posHash false 5) cW ([id4].map (Cv.Codec.encode 32 4))).hashes.map (·.length) =
      [1, 3, 5, 6, 5, 3, 1] := gW_run

/-- encoded vs. un-encoded: the same growth function -/
theorem encoded_bfs_eq_plain (w n : Nat) (hw : 1 ≤ w) (hw' : w ≤ 64) (perms : List (List Nat))
    (hp : ∀ p ∈ perms, Cv.Perm.IsPermOf n p) (hash₁ : List Cv.Codec.W → Int) (hash₂ : List Nat → Int)
    (starts : List (List Nat))
    (hinj₁ : ∀ x y : List Cv.Codec.W, x.length = Cv.Codec.encLen w n → y.length = Cv.Codec.encLen w n →
      hash₁ x = hash₁ y → x = y)
    (hinj₂ : ∀ s t, InOrbit (permGraphNb perms) starts s → InOrbit (permGraphNb perms) starts t →
      hash₂ s = hash₂ t → s = t)
    (ic₁ ic₂ : Bool)
    (hic₁ : ic₁ = true → ∀ s t, InOrbit (permGraphNb perms) starts s → t ∈ permGraphNb perms s →
      s ∈ permGraphNb perms t)
    (hic₂ : ic₂ = true → ∀ s t, InOrbit (permGraphNb perms) starts s → t ∈ permGraphNb perms s →
      s ∈ permGraphNb perms t)
    (batch₁ batch₂ : Nat) (hb₁ : 0 < batch₁) (hb₂ : 0 < batch₂) (c₁ : BfsCfg (List Cv.Codec.W))
    (c₂ : BfsCfg (List Nat)) (hs : ∀ s ∈ starts, Cv.Codec.encodable w n s = true)
    (hcomp₁ : (bfs (encodedPermGraph w n perms hash₁ ic₁ batch₁) c₁
      (starts.map (Cv.Codec.encode w n))).completed = true)
    (hcomp₂ : (bfs (plainPermGraph perms hash₂ ic₂ batch₂) c₂ starts).completed = true) :
    (bfs (encodedPermGraph w n perms hash₁ ic₁ batch₁) c₁ (starts.map (Cv.Codec.encode w n))).layerSizes =
    (bfs (plainPermGraph perms hash₂ ic₂ batch₂) c₂ starts).layerSizes := by
  exact encoded_plain_sizes_eq w n hw hw' perms hp hash₁ hash₂ ic₁ ic₂ batch₁ batch₂ starts hs
    (fun x y hx hy h => hinj₁ x y (length_of_valid hx) (length_of_valid hy) h) hinj₂ hic₁ hic₂ hb₁ hb₂ c₁ c₂
    hcomp₁ hcomp₂

/-- non-vacuity: the hypotheses are those of the examples above; conclusion for LRX(4) -/
example : (bfs (plainPermGraph lrx4 b4Hash true 2) {} [id4]).layerSizes = [1, 3, 5, 6, 5, 3, 1] := by
  rw [← lrx4_sizes]
  exact (encoded_bfs_eq_plain 2 4 (by decide) (by decide) lrx4 lrx4_perm identityHash b4Hash [id4]
    (fun x y hx hy h => identityHash_inj_len1 x y (by rw [hx]; decide) (by rw [hy]; decide) h) b4Hash_inj
    true true (fun _ => lrx4_symm) (fun _ => lrx4_symm) 1 2 (by decide) (by decide) {} {} id4_encodable
    lrx4_completed gP_completed).symm

end Cv.C01e
