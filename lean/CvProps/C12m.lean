/-
  C12m — end to end: automatic path finding (`find_path`, `_precompute_bfs`; algo/find_path.py) on the library's MATRIX
  graph, in terms of the mathematical graph `matNb gens n k` and action `matGenAct gens n k`.
  Property theorems only; proofs in `CvProofs/Restrict.lean`, `CvProofs/InstanceMatPaths.lean`; evaluated instances in
  `CvProofs/InstanceMatPathsExample.lean`, `InstanceMatPathsExample2.lean`, `InstanceMatPathsExample3.lean`.  See `CvProps/C04m.lean` for the setting and the hypotheses.

  `find_path` caches a BFS ball around the central state — in `g` when the flag `generators_inverse_closed` is set, in the
  inverted graph otherwise (`matFindBall`) — and runs `MeetInTheMiddle.find_path_from` / `find_path_to` on it.
  `invMap` is the library's `generators_inverse_map`; `hmap`: when the flag is set, it is an inverse map of the generator
  list (`MatInvMap`; this makes the flag truthful).  `hexp`: the size hypothesis of the abstract theorem
  (`CvProps/C12.lean`), stated for the mathematical graph around the start state (inverse generators when the flag is
  set, generators otherwise).
-/
import CvProofs.InstanceMatPaths
import CvProofs.InstanceMatPathsExample
import CvProofs.InstanceMatPathsExample2
import CvProofs.InstanceMatPathsExample3
namespace Cv.C12m
open Cv Cv.InstanceMat Cv.InstanceMat.Example Cv.InstanceMat.PathsExample

/-- the cached ball is a ball of the matrix graph around the central state (and non-empty) -/
theorem mat_precomputeBfs_isBall (gens invs : List MatGen) (n k m : Nat) (hm : m ≠ 0)
    (hmod : ∀ G ∈ gens, G.modulo = m) (hmodI : ∀ G ∈ invs, G.modulo = m) (hlen : invs.length = gens.length)
    (hinv : ∀ i, i < gens.length → MatInvOf n m (invs.getD i ⟨[], 0⟩) (gens.getD i ⟨[], 0⟩) ∨
      MatInvOf n m (gens.getD i ⟨[], 0⟩) (invs.getD i ⟨[], 0⟩))
    (hash : List Int → Int)
    (hinj : ∀ S T, MatValid n k m S → MatValid n k m T → hash S = hash T → S = T)
    (ic : Bool) (hic : ic = true → MatInvClosed gens n m) (batch : Nat) (hb : 0 < batch)
    (central : List Int) (hc : MatValid n k m central) (me md : Option Nat) :
    IsBall (matGraph gens n k hash ic batch) central
      (precomputeBfs (matGraph gens n k hash ic batch) central me md).hashes ∧
    (precomputeBfs (matGraph gens n k hash ic batch) central me md).hashes ≠ [] := by
  exact Cv.InstanceMat.mat_precomputeBfs_isBall gens invs n k m ⟨hm, hmod, hmodI, hlen, hinv⟩ hash ic batch hinj hic hb
    central hc me md
-- non-vacuity: Heisenberg group modulo 3, base-3 hash
example : 3 ≠ 0 ∧ (∀ G ∈ heis3, G.modulo = 3) ∧ (∀ G ∈ heis3i, G.modulo = 3) ∧ heis3i.length = heis3.length ∧
    (∀ i, i < heis3.length → MatInvOf 3 3 (heis3i.getD i ⟨[], 0⟩) (heis3.getD i ⟨[], 0⟩) ∨
      MatInvOf 3 3 (heis3.getD i ⟨[], 0⟩) (heis3i.getD i ⟨[], 0⟩)) ∧
    (∀ S T, MatValid 3 3 3 S → MatValid 3 3 3 T → b3Hash S = b3Hash T → S = T) ∧
    (true = true → MatInvClosed heis3 3 3) ∧ 0 < 2 ∧ MatValid 3 3 3 eye3 :=
  ⟨heis3_pair.hm, heis3_pair.modG, heis3_pair.modI, heis3_pair.len, heis3_pair.inv, b3Hash_inj_valid,
    fun _ => heis3_closed, by decide, eye3_valid⟩

/-- whatever `find_path` returns replays, with the MATHEMATICAL action, from the start state to the central state and uses
generator indices; no assertion is reachable (both branches) -/
theorem mat_findPath_valid (gens invs : List MatGen) (n k m : Nat) (hm : m ≠ 0)
    (hmod : ∀ G ∈ gens, G.modulo = m) (hmodI : ∀ G ∈ invs, G.modulo = m) (hlen : invs.length = gens.length)
    (hinv : ∀ i, i < gens.length → MatInvOf n m (invs.getD i ⟨[], 0⟩) (gens.getD i ⟨[], 0⟩) ∨
      MatInvOf n m (gens.getD i ⟨[], 0⟩) (invs.getD i ⟨[], 0⟩))
    (hash : List Int → Int)
    (hinj : ∀ S T, MatValid n k m S → MatValid n k m T → hash S = hash T → S = T)
    (ic : Bool) (invMap : Option (List Nat))
    (hmap : ic = true → ∃ mp, invMap = some mp ∧ MatInvMap gens n m mp)
    (batch batch' : Nat) (hb : 0 < batch) (hb' : 0 < batch')
    (central start : List Int) (hc : MatValid n k m central) (hs : MatValid n k m start) (me md : Option Nat) :
    match findPath (matGraph gens n k hash ic batch) (matGraph invs n k hash ic batch') invMap central start me md with
    | .found p => applyPath (matGenAct gens n k) start p = central ∧ ∀ i ∈ p, i < gens.length
    | .notFound => True
    | .assertFail _ => False := by
  exact Cv.InstanceMat.mat_findPath_valid gens invs n k m ⟨hm, hmod, hmodI, hlen, hinv⟩ hash ic batch batch' hinj invMap
    hmap hb hb' central start hc hs me md
-- inverse-closed branch (all four Heisenberg generators, flag set) and the other branch (`x, y` only, flag not set)
example : (true = true → ∃ mp, some heis3Map = some mp ∧ MatInvMap heis3 3 3 mp) := fun _ => ⟨_, rfl, heis3_invMap⟩
example : findPath gH gHi (some heis3Map) eye3 [1, 0, 1, 0, 1, 0, 0, 0, 1] none (some 2) = .found [3, 0, 1, 2] ∧
    applyPath (matGenAct heis3 3 3) [1, 0, 1, 0, 1, 0, 0, 0, 1] [3, 0, 1, 2] = eye3 := ⟨find_found, by decide +kernel⟩
example : MatPair [hx, hy] [hx', hy'] 3 3 ∧ ¬ MatInvClosed [hx, hy] 3 3 ∧
    (false = true → ∃ mp, (none : Option (List Nat)) = some mp ∧ MatInvMap [hx, hy] 3 3 mp) :=
  ⟨xy_pair, xy_not_closed, fun h => by cases h⟩
example : findPath gD gDi none eye3 [1, 1, 0, 0, 1, 1, 0, 0, 1] none (some 2) = .found [1, 1, 0, 0] ∧
    applyPath (matGenAct [hx, hy] 3 3) [1, 1, 0, 0, 1, 1, 0, 0, 1] [1, 1, 0, 0] = eye3 :=
  ⟨findD_found, by decide +kernel⟩
/-- `hmap` is needed: `x, y` wrongly flagged inverse-closed have no inverse map, and `revert_path` trips its assertion -/
example : findPath (matGraph [hx, hy] 3 3 b3Hash true 2) (matGraph [hx', hy'] 3 3 b3Hash true 2) none eye3 eye3 none
    (some 1) = .assertFail "Cannot revert path" := by
  simp only [findPath, precomputeBfs, mitmFindPathFrom, mitmFindPathTo_eq, Cv.Kernel.bfs_eq_bfsK]; decide +kernel

/-- shortest within twice the depth of the cached ball; `None` only when no path of that length exists -/
theorem mat_findPath_shortest (gens invs : List MatGen) (n k m : Nat) (hm : m ≠ 0)
    (hmod : ∀ G ∈ gens, G.modulo = m) (hmodI : ∀ G ∈ invs, G.modulo = m) (hlen : invs.length = gens.length)
    (hinv : ∀ i, i < gens.length → MatInvOf n m (invs.getD i ⟨[], 0⟩) (gens.getD i ⟨[], 0⟩) ∨
      MatInvOf n m (gens.getD i ⟨[], 0⟩) (invs.getD i ⟨[], 0⟩))
    (hash : List Int → Int)
    (hinj : ∀ S T, MatValid n k m S → MatValid n k m T → hash S = hash T → S = T)
    (ic : Bool) (invMap : Option (List Nat))
    (hmap : ic = true → ∃ mp, invMap = some mp ∧ MatInvMap gens n m mp)
    (batch batch' : Nat) (hb : 0 < batch) (hb' : 0 < batch')
    (central start : List Int) (hc : MatValid n k m central) (hs : MatValid n k m start) (me md : Option Nat)
    (hexp : ∀ d (L : List (List Int)), 1 ≤ d →
      d ≤ (matFindBall gens invs n k hash ic batch batch' central me md).length - 1 → L.Nodup →
      (∀ s, s ∈ L ↔ DistLayer (matNb (if ic then invs else gens) n k) [start] d s) → L.length < 10^12) :
    match findPath (matGraph gens n k hash ic batch) (matGraph invs n k hash ic batch') invMap central start me md with
    | .found p => p.length ≤ 2 * ((matFindBall gens invs n k hash ic batch batch' central me md).length - 1) ∧
        ∀ d, Walk (matNb gens n k) d start central → p.length ≤ d
    | .notFound => ∀ d, d ≤ 2 * ((matFindBall gens invs n k hash ic batch batch' central me md).length - 1) →
        ¬ Walk (matNb gens n k) d start central
    | .assertFail _ => False := by
  exact Cv.InstanceMat.mat_findPath_shortest gens invs n k m ⟨hm, hmod, hmodI, hlen, hinv⟩ hash ic batch batch' hinj
    invMap hmap hb hb' central start hc hs me md hexp
-- non-vacuity: `hexp` for the full generator list (27 group elements, closed under the inverse generators) and for
-- `x, y` (closed under the generators); `max_diameter = 2`, so paths of length ≤ 4 are found
example : ∀ d (L : List (List Int)), 1 ≤ d →
    d ≤ (matFindBall heis3 heis3i 3 3 b3Hash true 2 2 eye3 none (some 2)).length - 1 → L.Nodup →
    (∀ s, s ∈ L ↔ DistLayer (matNb (if true then heis3i else heis3) 3 3) [[1, 0, 1, 0, 1, 0, 0, 0, 1]] d s) →
    L.length < 10^12 := hexp27 _ (mem_all27 _ (by decide +kernel)) _
example : ∀ d (L : List (List Int)), 1 ≤ d →
    d ≤ (matFindBall [hx, hy] [hx', hy'] 3 3 b3Hash false 2 2 eye3 none (some 2)).length - 1 → L.Nodup →
    (∀ s, s ∈ L ↔ DistLayer (matNb (if false then [hx', hy'] else [hx, hy]) 3 3) [[1, 1, 0, 0, 1, 1, 0, 0, 1]] d s) →
    L.length < 10^12 := by
  intro d L _ _ hnd hmem
  have := mat_layer_le_of_closed [hx, hy] 3 3 all27 all27_closedXY [[1, 1, 0, 0, 1, 1, 0, 0, 1]]
    (by simpa using mem_all27 [1, 1, 0, 0, 1, 1, 0, 0, 1] (by decide +kernel)) d L hnd hmem
  rw [all27_length] at this
  omega
example : findPath gH gHi (some heis3Map) eye3 [1, 0, 1, 0, 1, 0, 0, 0, 1] none (some 2) = .found [3, 0, 1, 2] ∧
    findPath gH gHi (some heis3Map) eye3 [1, 0, 1, 0, 1, 0, 0, 0, 1] none (some 1) = .notFound :=
  ⟨find_found, find_far⟩
example : findPath gD gDi none eye3 [1, 1, 0, 0, 1, 1, 0, 0, 1] none (some 2) = .found [1, 1, 0, 0] ∧
    findPath gD gDi none eye3 [1, 1, 0, 0, 1, 1, 0, 0, 1] none (some 1) = .notFound := ⟨findD_found, findD_far⟩
/-- `matFindBall` is, by definition, the ball `find_path` caches -/
example (gens invs : List MatGen) (n k : Nat) (hash : List Int → Int) (ic : Bool) (batch batch' : Nat)
    (central : List Int) (me md : Option Nat) :
    matFindBall gens invs n k hash ic batch batch' central me md =
      if (matGraph gens n k hash ic batch).invClosed
      then (precomputeBfs (matGraph gens n k hash ic batch) central me md).hashes
      else (precomputeBfs (matGraph invs n k hash ic batch') central me md).hashes := rfl

end Cv.C12m
