/-
  C17 — the reference BFS `refLayers` (the oracle of every check) returns exactly the distance classes;
  its layer lengths are the growth function.  Property theorems only; proofs in `CvProofs/RefBfs.lean`.

  No clause needs `S ≠ []`: for the empty start list the result is `[[]]` (see the examples at the end).
-/
import CvProofs.RefBfs
namespace Cv

/-- evaluation of the reference BFS on concrete inputs (merge sort is defined by well-founded recursion, so
`decide` does not reduce it; `simp` with the equation lemmas does) -/
local macro "ref_eval" : tactic =>
  `(tactic| simp [refLayers, refLoop, refStep, sortDedup, dedupSorted, sdiff, List.mergeSort,
      List.MergeSort.Internal.splitInTwo])

/-- The reference BFS returns exactly the distance classes, each as a strictly increasing list. -/
theorem refLayers_spec (nb : Nat → List Nat) (S : List Nat) (D : Nat) :
    (∀ i L, (refLayers nb S D)[i]? = some L → L.Pairwise (· < ·) ∧ ∀ x, x ∈ L ↔ DistLayer nb S i x) ∧
    1 ≤ (refLayers nb S D).length ∧ (refLayers nb S D).length ≤ D + 1 ∧
    (∀ i L, 0 < i → (refLayers nb S D)[i]? = some L → L ≠ []) ∧
    ((refLayers nb S D).length < D + 1 → ∀ x, ¬ DistLayer nb S (refLayers nb S D).length x) := by
  exact refLayers_spec' nb S D

/-- non-vacuity: the 5-cycle from `[0]`; the run stops after 3 layers although the limit is 10, so the
premise of the last clause holds and the layers with index `> 0` exist -/
example : refLayers (fun x => [(x+1) % 5, (x+4) % 5]) [0] 10 = [[0],[1,4],[2,3]] := by ref_eval
example : (refLayers (fun x => [(x+1) % 5, (x+4) % 5]) [0] 10)[2]? = some [2,3] ∧
    (refLayers (fun x => [(x+1) % 5, (x+4) % 5]) [0] 10).length < 10 + 1 := by
  have h : refLayers (fun x => [(x+1) % 5, (x+4) % 5]) [0] 10 = [[0],[1,4],[2,3]] := by ref_eval
  rw [h]; decide
/-- the specification is not trivially satisfiable: a concrete distance class is inhabited -/
example : DistLayer (fun x => [(x+1) % 5, (x+4) % 5]) [0] 2 3 := by
  have h : refLayers (fun x => [(x+1) % 5, (x+4) % 5]) [0] 10 = [[0],[1,4],[2,3]] := by ref_eval
  exact (((refLayers_spec _ [0] 10).1 2 [2,3] (by rw [h]; rfl)).2 3).1 (by decide)
/-- a directed (non-symmetric) graph, several start states given unsorted and with a repetition -/
example : refLayers (fun x => [(x+1) % 6]) [3, 0, 3] 10 = [[0,3],[1,4],[2,5]] := by ref_eval
/-- the depth limit cuts the run (length = D + 1) -/
example : refLayers (fun x => [(x+1) % 6]) [3, 0, 3] 1 = [[0,3],[1,4]] := by ref_eval

/-- growth function = layer lengths, for every depth; a deeper run extends a shallower one -/
theorem growth_prefix (nb : Nat → List Nat) (S : List Nat) (k D : Nat) (hk : k ≤ D) :
    (refLayers nb S D).take (k + 1) = refLayers nb S k := by
  exact growth_prefix' nb S k D hk

/-- non-vacuity: `k = 1 ≤ D = 10`, the shallow run is a proper prefix of the deep one -/
example : (1 : Nat) ≤ 10 ∧
    refLayers (fun x => [(x+1) % 5, (x+4) % 5]) [0] 1 = [[0],[1,4]] ∧
    refLayers (fun x => [(x+1) % 5, (x+4) % 5]) [0] 10 = [[0],[1,4],[2,3]] := by
  refine ⟨by decide, ?_, ?_⟩ <;> ref_eval

/-- when the run stopped before the depth limit, the layers enumerate the whole orbit -/
theorem refLayers_orbit (nb : Nat → List Nat) (S : List Nat) (D : Nat)
    (h : (refLayers nb S D).length < D + 1) (x : Nat) :
    InOrbit nb S x ↔ ∃ L ∈ refLayers nb S D, x ∈ L := by
  exact refLayers_orbit' nb S D h x

/-- non-vacuity: the hypothesis holds on the 5-cycle with limit 10 (3 layers), and then state 3 is in the orbit -/
example : (refLayers (fun x => [(x+1) % 5, (x+4) % 5]) [0] 10).length < 10 + 1 := by
  have h : refLayers (fun x => [(x+1) % 5, (x+4) % 5]) [0] 10 = [[0],[1,4],[2,3]] := by ref_eval
  rw [h]; decide
example : InOrbit (fun x => [(x+1) % 5, (x+4) % 5]) [0] 3 := by
  have h : refLayers (fun x => [(x+1) % 5, (x+4) % 5]) [0] 10 = [[0],[1,4],[2,3]] := by ref_eval
  exact (refLayers_orbit _ [0] 10 (by rw [h]; decide) 3).2 ⟨[2,3], by rw [h]; decide, by decide⟩
/-- the hypothesis of `refLayers_orbit` is needed: with the limit reached the layers miss part of the orbit
(state 2 is reachable on the 5-cycle, but is in no layer of the depth-1 run) -/
example : InOrbit (fun x => [(x+1) % 5, (x+4) % 5]) [0] 2 ∧
    ¬ ∃ L ∈ refLayers (fun x => [(x+1) % 5, (x+4) % 5]) [0] 1, 2 ∈ L := by
  have h10 : refLayers (fun x => [(x+1) % 5, (x+4) % 5]) [0] 10 = [[0],[1,4],[2,3]] := by ref_eval
  have h1 : refLayers (fun x => [(x+1) % 5, (x+4) % 5]) [0] 1 = [[0],[1,4]] := by ref_eval
  refine ⟨(refLayers_orbit _ [0] 10 (by rw [h10]; decide) 2).2 ⟨[2,3], by rw [h10]; decide, by decide⟩, ?_⟩
  rw [h1]; decide

/-- `S = []` needs no extra hypothesis anywhere: the result is the single empty layer, which is the (empty)
distance class 0, and all three theorems hold as stated. -/
example (nb : Nat → List Nat) (D : Nat) : refLayers nb [] D = [[]] := by
  cases D <;> simp [refLayers, refLoop, refStep, sortDedup, dedupSorted, sdiff]

end Cv
