/-
  C12e — end to end: automatic path finding (`find_path`, `_precompute_bfs`; algo/find_path.py) on the library's ENCODED
  permutation graph, in terms of the mathematical graph `permGraphNb perms` and action `genAct perms`.
  Property theorems only; proofs in `CvProofs/Sim.lean`, `CvProofs/Restrict.lean`, `CvProofs/InstancePaths.lean`; evaluated
  instances in `CvProofs/InstancePathsExample.lean`.  See `CvProps/C04e.lean` for the setting.

  `find_path` caches a BFS ball around the encoded central state — in `g` when the flag `generators_inverse_closed` is set,
  in the inverted graph otherwise (`encodedFindBall`) — and runs `MeetInTheMiddle.find_path_from` / `find_path_to` on it.
  `permInvMap perms` is the library's `generators_inverse_map`.  `hic`: the flag is truthful.
  `hexp`: the size hypothesis of the abstract theorem (`CvProps/C12.lean`), stated for the mathematical graph around the
  start state (inverse generators when the flag is set, generators otherwise).
-/
import CvProofs.InstancePaths
import CvProofs.InstancePathsExample
namespace Cv.C12e
open Cv Cv.Instance Cv.Instance.Example Cv.Instance.PathsExample Cv.Codec

/-- the cached ball is a ball of the encoded graph around the encoded central state (and non-empty) -/
theorem encoded_precomputeBfs_isBall (w n : Nat) (hw : 1 ≤ w) (hw' : w ≤ 64) (perms : List (List Nat))
    (hp : ∀ p ∈ perms, Cv.Perm.IsPermOf n p) (hash : List W → Int)
    (hinj : ∀ x y : List W, x.length = encLen w n → y.length = encLen w n → hash x = hash y → x = y)
    (ic : Bool) (hic : ic = true → ∀ p ∈ perms, Cv.Perm.inverse p ∈ perms) (batch : Nat) (hb : 0 < batch)
    (central : List Nat) (hc : encodable w n central = true) (me md : Option Nat) :
    IsBall (encodedPermGraph w n perms hash ic batch) (encode w n central)
      (precomputeBfs (encodedPermGraph w n perms hash ic batch) (encode w n central) me md).hashes ∧
    (precomputeBfs (encodedPermGraph w n perms hash ic batch) (encode w n central) me md).hashes ≠ [] := by
  exact precomputeBfs_isBall_on (encoded_closed w n hw hw' perms hp hash ic batch)
    (fun x y hx hy h => hinj x y (length_of_valid hx) (length_of_valid hy) h)
    (fun h => encoded_symmOn w n hw hw' perms hp hash ic batch (hic h)) hb (encode w n central) ⟨central, hc, rfl⟩ me md
-- non-vacuity: LRX(4), width 2, `posHash`
example : (1 ≤ 2 ∧ 2 ≤ 64) ∧ (∀ p ∈ lrx4, Cv.Perm.IsPermOf 4 p) ∧
    (∀ x y : List W, x.length = encLen 2 4 → y.length = encLen 2 4 → posHash x = posHash y → x = y) ∧
    (true = true → ∀ p ∈ lrx4, Cv.Perm.inverse p ∈ lrx4) ∧ 0 < 3 ∧ encodable 2 4 id4 = true :=
  ⟨by decide, lrx4_perm, fun _ _ _ _ h => posHash_injective h, fun _ => lrx4_invClosed, by decide, id4_enc⟩

/-- whatever `find_path` returns replays, with the MATHEMATICAL action, from the start state to the central state and uses
generator indices; no assertion is reachable (both branches) -/
theorem encoded_findPath_valid (w n : Nat) (hw : 1 ≤ w) (hw' : w ≤ 64) (perms : List (List Nat))
    (hp : ∀ p ∈ perms, Cv.Perm.IsPermOf n p) (hash : List W → Int)
    (hinj : ∀ x y : List W, x.length = encLen w n → y.length = encLen w n → hash x = hash y → x = y)
    (ic : Bool) (hic : ic = true → ∀ p ∈ perms, Cv.Perm.inverse p ∈ perms) (batch : Nat) (hb : 0 < batch)
    (central start : List Nat) (hc : encodable w n central = true) (hs : encodable w n start = true)
    (me md : Option Nat) :
    match findPath (encodedPermGraph w n perms hash ic batch) (encodedPermGraphInv w n perms hash ic batch)
        (permInvMap perms) (encode w n central) (encode w n start) me md with
    | .found p => applyPath (genAct perms) start p = central ∧ ∀ i ∈ p, i < perms.length
    | .notFound => True
    | .assertFail _ => False := by
  exact Cv.Instance.encoded_findPath_valid w n hw hw' perms hp hash ic batch
    (fun x y hx hy h => hinj x y (length_of_valid hx) (length_of_valid hy) h) hic hb central start hc hs me md
-- inverse-closed branch (LRX(4), flag set) and the other branch (LX(4): rotation and swap, flag not set)
example : findPath gE gEi (permInvMap lrx4) (encode 2 4 id4) (encode 2 4 [3, 2, 1, 0]) none (some 2) =
      .found [2, 1, 1, 2] ∧ applyPath (genAct lrx4) [3, 2, 1, 0] [2, 1, 1, 2] = id4 := ⟨find_found, by decide⟩
example : (∀ p ∈ lx4, Cv.Perm.IsPermOf 4 p) ∧ (false = true → ∀ p ∈ lx4, Cv.Perm.inverse p ∈ lx4) ∧
    permInvMap lx4 = none := ⟨lx4_perm, (fun h => by cases h), lx4_invMap⟩
example : findPath gD gDi (permInvMap lx4) (encode 2 4 id4) (encode 2 4 [3, 2, 1, 0]) none (some 2) =
      .found [1, 0, 0, 1] ∧ applyPath (genAct lx4) [3, 2, 1, 0] [1, 0, 0, 1] = id4 := ⟨findD_found, by decide⟩
/-- `hic` is needed: LX(4) wrongly flagged inverse-closed has no inverse map, and `revert_path` trips its assertion -/
example : findPath (encodedPermGraph 2 4 lx4 posHash true 3) (encodedPermGraphInv 2 4 lx4 posHash true 3)
    (permInvMap lx4) (encode 2 4 id4) (encode 2 4 id4) none (some 1) = .assertFail "Cannot revert path" := by
  simp only [findPath, precomputeBfs, mitmFindPathFrom, mitmFindPathTo_eq, Cv.Kernel.bfs_eq_bfsK]; decide +kernel

/-- shortest within twice the depth of the cached ball; `None` only when no path of that length exists -/
theorem encoded_findPath_shortest (w n : Nat) (hw : 1 ≤ w) (hw' : w ≤ 64) (perms : List (List Nat))
    (hp : ∀ p ∈ perms, Cv.Perm.IsPermOf n p) (hash : List W → Int)
    (hinj : ∀ x y : List W, x.length = encLen w n → y.length = encLen w n → hash x = hash y → x = y)
    (ic : Bool) (hic : ic = true → ∀ p ∈ perms, Cv.Perm.inverse p ∈ perms) (batch : Nat) (hb : 0 < batch)
    (central start : List Nat) (hc : encodable w n central = true) (hs : encodable w n start = true)
    (me md : Option Nat)
    (hexp : ∀ k (L : List (List Nat)), 1 ≤ k →
      k ≤ (encodedFindBall w n perms hash ic batch central me md).length - 1 → L.Nodup →
      (∀ s, s ∈ L ↔ DistLayer (permGraphNb (if ic then perms.map Cv.Perm.inverse else perms)) [start] k s) →
      L.length < 10^12) :
    match findPath (encodedPermGraph w n perms hash ic batch) (encodedPermGraphInv w n perms hash ic batch)
        (permInvMap perms) (encode w n central) (encode w n start) me md with
    | .found p => p.length ≤ 2 * ((encodedFindBall w n perms hash ic batch central me md).length - 1) ∧
        ∀ k, Walk (permGraphNb perms) k start central → p.length ≤ k
    | .notFound => ∀ k, k ≤ 2 * ((encodedFindBall w n perms hash ic batch central me md).length - 1) →
        ¬ Walk (permGraphNb perms) k start central
    | .assertFail _ => False := by
  exact Cv.Instance.encoded_findPath_shortest w n hw hw' perms hp hash ic batch
    (fun x y hx hy h => hinj x y (length_of_valid hx) (length_of_valid hy) h) hic hb central start hc hs me md hexp
-- non-vacuity: `hexp` on LRX(4) (24 arrangements, closed under the inverse generators) and on LX(4) (closed under the
-- generators); `max_diameter = 2`, so paths of length ≤ 4 are found
example : ∀ k (L : List (List Nat)), 1 ≤ k →
    k ≤ (encodedFindBall 2 4 lrx4 posHash true 3 id4 none (some 2)).length - 1 → L.Nodup →
    (∀ s, s ∈ L ↔ DistLayer (permGraphNb (if true then lrx4.map Cv.Perm.inverse else lrx4)) [[3, 2, 1, 0]] k s) →
    L.length < 10^12 := hexp24 _ (mem_all24 _ (by decide +kernel)) _
example : ∀ k (L : List (List Nat)), 1 ≤ k →
    k ≤ (encodedFindBall 2 4 lx4 posHash false 3 id4 none (some 2)).length - 1 → L.Nodup →
    (∀ s, s ∈ L ↔ DistLayer (permGraphNb (if false then lx4.map Cv.Perm.inverse else lx4)) [[3, 2, 1, 0]] k s) →
    L.length < 10^12 := by
  intro k L _ _ hnd hmem
  have := layer_le_of_closed lx4 all24 all24_closed' [[3, 2, 1, 0]]
    (by simpa using mem_all24 [3, 2, 1, 0] (by decide +kernel)) k L hnd hmem
  rw [all24_length] at this
  omega
example : findPath gE gEi (permInvMap lrx4) (encode 2 4 id4) (encode 2 4 [3, 2, 1, 0]) none (some 2) =
      .found [2, 1, 1, 2] ∧
    findPath gE gEi (permInvMap lrx4) (encode 2 4 id4) (encode 2 4 [1, 0, 3, 2]) none (some 2) = .notFound :=
  ⟨find_found, find_far⟩
example : findPath gD gDi (permInvMap lx4) (encode 2 4 id4) (encode 2 4 [3, 2, 1, 0]) none (some 2) =
      .found [1, 0, 0, 1] ∧
    findPath gD gDi (permInvMap lx4) (encode 2 4 id4) (encode 2 4 [3, 2, 1, 0]) none (some 1) = .notFound :=
  ⟨findD_found, findD_far⟩
/-- `encodedFindBall` is, by definition, the ball `find_path` caches -/
example (w n : Nat) (perms : List (List Nat)) (hash : List W → Int) (ic : Bool) (batch : Nat) (central : List Nat)
    (me md : Option Nat) :
    encodedFindBall w n perms hash ic batch central me md =
      if (encodedPermGraph w n perms hash ic batch).invClosed
      then (precomputeBfs (encodedPermGraph w n perms hash ic batch) (encode w n central) me md).hashes
      else (precomputeBfs (encodedPermGraphInv w n perms hash ic batch) (encode w n central) me md).hashes := rfl

/-! ## the un-encoded graph -/

theorem plain_findPath_valid (n : Nat) (Q : Nat → Prop) (perms : List (List Nat))
    (hp : ∀ p ∈ perms, Cv.Perm.IsPermOf n p) (hash : List Nat → Int)
    (hinj : ∀ s t, PlainValid n Q s → PlainValid n Q t → hash s = hash t → s = t)
    (ic : Bool) (hic : ic = true → ∀ p ∈ perms, Cv.Perm.inverse p ∈ perms) (batch : Nat) (hb : 0 < batch)
    (central start : List Nat) (hc : PlainValid n Q central) (hs : PlainValid n Q start) (me md : Option Nat) :
    match findPath (plainPermGraph perms hash ic batch) (plainPermGraphInv perms hash ic batch) (permInvMap perms)
        central start me md with
    | .found p => applyPath (genAct perms) start p = central ∧ ∀ i ∈ p, i < perms.length
    | .notFound => True
    | .assertFail _ => False := by
  exact Cv.Instance.plain_findPath_valid n Q perms hp hash ic batch hinj hic hb central start hc hs me md
example : (∀ s t, PlainValid 4 (· < 4) s → PlainValid 4 (· < 4) t → b4Hash s = b4Hash t → s = t) ∧
    PlainValid 4 (· < 4) id4 ∧ PlainValid 4 (· < 4) [3, 2, 1, 0] ∧
    findPath gP gPi (permInvMap lrx4) id4 [3, 2, 1, 0] none (some 2) = .found [2, 1, 1, 2] :=
  ⟨b4Hash_inj4, id4_plain, plainValid_of _ (by decide), plain_find_found⟩

theorem plain_findPath_shortest (n : Nat) (Q : Nat → Prop) (perms : List (List Nat))
    (hp : ∀ p ∈ perms, Cv.Perm.IsPermOf n p) (hash : List Nat → Int)
    (hinj : ∀ s t, PlainValid n Q s → PlainValid n Q t → hash s = hash t → s = t)
    (ic : Bool) (hic : ic = true → ∀ p ∈ perms, Cv.Perm.inverse p ∈ perms) (batch : Nat) (hb : 0 < batch)
    (central start : List Nat) (hc : PlainValid n Q central) (hs : PlainValid n Q start) (me md : Option Nat)
    (hexp : ∀ k (L : List (List Nat)), 1 ≤ k →
      k ≤ (plainFindBall perms hash ic batch central me md).length - 1 → L.Nodup →
      (∀ s, s ∈ L ↔ DistLayer (permGraphNb (if ic then perms.map Cv.Perm.inverse else perms)) [start] k s) →
      L.length < 10^12) :
    match findPath (plainPermGraph perms hash ic batch) (plainPermGraphInv perms hash ic batch) (permInvMap perms)
        central start me md with
    | .found p => p.length ≤ 2 * ((plainFindBall perms hash ic batch central me md).length - 1) ∧
        ∀ k, Walk (permGraphNb perms) k start central → p.length ≤ k
    | .notFound => ∀ k, k ≤ 2 * ((plainFindBall perms hash ic batch central me md).length - 1) →
        ¬ Walk (permGraphNb perms) k start central
    | .assertFail _ => False := by
  exact Cv.Instance.plain_findPath_shortest n Q perms hp hash ic batch hinj hic hb central start hc hs me md hexp
example : ∀ k (L : List (List Nat)), 1 ≤ k →
    k ≤ (plainFindBall lrx4 b4Hash true 2 id4 none (some 2)).length - 1 → L.Nodup →
    (∀ s, s ∈ L ↔ DistLayer (permGraphNb (if true then lrx4.map Cv.Perm.inverse else lrx4)) [[3, 2, 1, 0]] k s) →
    L.length < 10^12 := hexp24 _ (mem_all24 _ (by decide +kernel)) _

/-! ## single-word states, identity hasher: no hypothesis on the hash -/

theorem encoded_findPath_valid_single_word (w n : Nat) (hw : 1 ≤ w) (hw' : w ≤ 64) (hlen : encLen w n = 1)
    (perms : List (List Nat)) (hp : ∀ p ∈ perms, Cv.Perm.IsPermOf n p)
    (ic : Bool) (hic : ic = true → ∀ p ∈ perms, Cv.Perm.inverse p ∈ perms) (batch : Nat) (hb : 0 < batch)
    (central start : List Nat) (hc : encodable w n central = true) (hs : encodable w n start = true)
    (me md : Option Nat) :
    match findPath (encodedPermGraph w n perms identityHash ic batch)
        (encodedPermGraphInv w n perms identityHash ic batch) (permInvMap perms) (encode w n central)
        (encode w n start) me md with
    | .found p => applyPath (genAct perms) start p = central ∧ ∀ i ∈ p, i < perms.length
    | .notFound => True
    | .assertFail _ => False := by
  exact Cv.Instance.encoded_findPath_valid w n hw hw' perms hp identityHash ic batch
    (identityHash_inj_valid w n hlen) hic hb central start hc hs me md
example : encLen 2 4 = 1 ∧
    findPath gI gIi (permInvMap lrx4) (encode 2 4 id4) (encode 2 4 [3, 2, 1, 0]) none (some 2) = .found [2, 1, 1, 2] :=
  ⟨encLen_2_4, single_find_found⟩

theorem encoded_findPath_shortest_single_word (w n : Nat) (hw : 1 ≤ w) (hw' : w ≤ 64) (hlen : encLen w n = 1)
    (perms : List (List Nat)) (hp : ∀ p ∈ perms, Cv.Perm.IsPermOf n p)
    (ic : Bool) (hic : ic = true → ∀ p ∈ perms, Cv.Perm.inverse p ∈ perms) (batch : Nat) (hb : 0 < batch)
    (central start : List Nat) (hc : encodable w n central = true) (hs : encodable w n start = true)
    (me md : Option Nat)
    (hexp : ∀ k (L : List (List Nat)), 1 ≤ k →
      k ≤ (encodedFindBall w n perms identityHash ic batch central me md).length - 1 → L.Nodup →
      (∀ s, s ∈ L ↔ DistLayer (permGraphNb (if ic then perms.map Cv.Perm.inverse else perms)) [start] k s) →
      L.length < 10^12) :
    match findPath (encodedPermGraph w n perms identityHash ic batch)
        (encodedPermGraphInv w n perms identityHash ic batch) (permInvMap perms) (encode w n central)
        (encode w n start) me md with
    | .found p => p.length ≤ 2 * ((encodedFindBall w n perms identityHash ic batch central me md).length - 1) ∧
        ∀ k, Walk (permGraphNb perms) k start central → p.length ≤ k
    | .notFound => ∀ k, k ≤ 2 * ((encodedFindBall w n perms identityHash ic batch central me md).length - 1) →
        ¬ Walk (permGraphNb perms) k start central
    | .assertFail _ => False := by
  exact Cv.Instance.encoded_findPath_shortest w n hw hw' perms hp identityHash ic batch
    (identityHash_inj_valid w n hlen) hic hb central start hc hs me md hexp
example : ∀ k (L : List (List Nat)), 1 ≤ k →
    k ≤ (encodedFindBall 2 4 lrx4 identityHash true 1 id4 none (some 2)).length - 1 → L.Nodup →
    (∀ s, s ∈ L ↔ DistLayer (permGraphNb (if true then lrx4.map Cv.Perm.inverse else lrx4)) [[3, 2, 1, 0]] k s) →
    L.length < 10^12 := hexp24 _ (mem_all24 _ (by decide +kernel)) _

/-- the pair built from the 1-D routines gives the same answer -/
theorem encoded1d_findPath_eq (w n : Nat) (hw : 1 ≤ w) (hw' : w ≤ 64) (hlen : encLen w n = 1)
    (perms : List (List Nat)) (hp : ∀ p ∈ perms, Cv.Perm.IsPermOf n p) (hash : List W → Int) (ic : Bool)
    (batch : Nat) (m : Option (List Nat)) (central start : List Nat) (hc : encodable w n central = true)
    (hs : encodable w n start = true) (me md : Option Nat) :
    findPath (encodedPermGraph1d w n perms hash ic batch) (encodedPermGraph1dInv w n perms hash ic batch) m
        (encode w n central) (encode w n start) me md =
      findPath (encodedPermGraph w n perms hash ic batch) (encodedPermGraphInv w n perms hash ic batch) m
        (encode w n central) (encode w n start) me md := by
  exact findPath_agree (encoded1d_agree w n hw hw' hlen perms hp hash ic batch)
    (encoded1dInv_agree w n hw hw' hlen perms hp hash ic batch) (encoded_closed w n hw hw' perms hp hash ic batch)
    (encoded_closed w n hw hw' _ (inverse_perms n perms hp) hash ic batch) m _ _ ⟨central, hc, rfl⟩ ⟨start, hs, rfl⟩
    me md
example : encLen 2 4 = 1 ∧ encodable 2 4 id4 = true ∧ encodable 2 4 [3, 2, 1, 0] = true :=
  ⟨encLen_2_4, id4_enc, by decide⟩

end Cv.C12e
