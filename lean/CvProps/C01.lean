/-
  C01 — BFS layers are exactly the distance classes.  Property theorems only; proofs in
  `CvProofs/Bfs.lean`, the evaluated example graph in `CvProofs/BfsExample.lean`.
-/
import CvProofs.Spec
import CvProofs.Bfs
import CvProofs.BfsExample
namespace Cv

variable {α : Type} {g : Graph α} {S : List α}

/-- undirected graph: neighbours of distance class i lie in classes i-1, i, i+1 (why the two-layer window is sound) -/
theorem window2_sound (nb : α → List α) (S : List α) (hsym : Symm nb) (i : Nat) (x y : α)
    (hx : DistLayer nb S i x) (hy : y ∈ nb x) : ∃ j, DistLayer nb S j y ∧ i ≤ j + 1 ∧ j ≤ i + 1 := by
  exact BfsThm.window2_sound nb S hsym i x y hx hy

open BfsExample in
/-- non-vacuity: the 4-cycle is symmetric, `1` is in class 1 and has the neighbour `2` -/
example : Symm exG.nb ∧ DistLayer exG.nb [0] 1 1 ∧ 2 ∈ exG.nb 1 := by
  refine ⟨exG_symm, ?_, by decide⟩
  have hst := BfsThm.stored_sound (exG_hyp [0]) {} 1 [1, 3] (by rw [full_layers]; decide)
  exact (hst.2 1).1 (by decide)

open BfsExample in
/-- WITHOUT symmetry the window is wrong: in the directed 3-cycle `0 → 1 → 2 → 0` (`nb3 x = [(x+1) % 3]`)
the state `2` is in class 2 and its neighbour `0` is in class 0, which is outside the window `1 … 3`. -/
example : DistLayer nb3 [0] 2 2 ∧ 0 ∈ nb3 2 ∧
    ¬ ∃ j, DistLayer nb3 [0] j 0 ∧ 2 ≤ j + 1 ∧ j ≤ 2 + 1 :=
  window2_needs_symm

/-- exhaustive run: sizes, stored layers, diameter are those of the mathematically defined graph -/
theorem bfs_layers_eq_dist (h : BfsHyp g S) (c : BfsCfg α) (hc : (bfs g c S).completed = true) :
    (∀ i, i < (bfs g c S).layerSizes.length →
        ∃ L, IsLayer g S i L ∧ (bfs g c S).layerSizes[i]? = some L.length) ∧
    (∀ x, ¬ DistLayer g.nb S (bfs g c S).layerSizes.length x) ∧
    (∀ i L, (i, L) ∈ (bfs g c S).layers → IsLayer g S i L) ∧
    (∃ L, ((bfs g c S).layerSizes.length - 1, L) ∈ (bfs g c S).layers) := by
  exact BfsThm.layers_eq_dist h c hc

open BfsExample in
/-- non-vacuity: on the 4-cycle (identity hash, batch size 1: layer 1 goes through the batched branch,
inverse-closed: two-layer window) the default run is exhaustive and reports `[1, 2, 1]` -/
example : BfsHyp exG [0] ∧ (bfs exG {} [0]).completed = true ∧
    (bfs exG {} [0]).layerSizes = [1, 2, 1] ∧
    (bfs exG {} [0]).layers = [(0, [0]), (1, [1, 3]), (2, [2])] :=
  ⟨exG_hyp _, full_completed, full_sizes, full_layers⟩

/-- the search reports completion when nothing stops it -/
theorem bfs_completes (h : BfsHyp g S) (c : BfsCfg α) (k : Nat) (hk : 1 ≤ k) (hkd : k ≤ c.maxDiameter)
    (hempty : ∀ x, ¬ DistLayer g.nb S k x)
    (hexp : ∀ i L, IsLayer g S i L → L.length < c.maxExplore)
    (hstop : ∀ f, c.stop = some f → ∀ i l, f i l = false) : (bfs g c S).completed = true := by
  exact BfsThm.completes h c k hk hkd hempty hexp hstop

open BfsExample in
/-- non-vacuity: for the 4-cycle and the default configuration every hypothesis holds with `k = 3` -/
example : BfsHyp exG [0] ∧ 1 ≤ 3 ∧ 3 ≤ ({} : BfsCfg Nat).maxDiameter ∧
    (∀ x, ¬ DistLayer exG.nb [0] 3 x) ∧
    (∀ i L, IsLayer exG [0] i L → L.length < ({} : BfsCfg Nat).maxExplore) ∧
    (∀ f, ({} : BfsCfg Nat).stop = some f → ∀ i l, f i l = false) :=
  ⟨exG_hyp _, by decide, by decide, class3_empty, layer_small, fun f hf => by cases hf⟩

/-- the answer does not depend on hashing, batch size, batching, stored outputs -/
theorem bfs_config_independent (g1 g2 : Graph α) (S : List α) (hnb : g1.nb = g2.nb)
    (h1 : BfsHyp g1 S) (h2 : BfsHyp g2 S) (c1 c2 : BfsCfg α)
    (hc1 : (bfs g1 c1 S).completed = true) (hc2 : (bfs g2 c2 S).completed = true) :
    (bfs g1 c1 S).layerSizes = (bfs g2 c2 S).layerSizes := by
  exact BfsThm.config_independent g1 g2 S hnb h1 h2 c1 c2 hc1 hc2

open BfsExample in
/-- non-vacuity: the same 4-cycle with another hash (`x ↦ 10 - x`), batch size 7, no inverse-closed flag,
batching disabled, hashes requested, nothing stored beyond the mandatory layers -/
example : exG.nb = exG'.nb ∧ BfsHyp exG [0] ∧ BfsHyp exG' [0] ∧
    (bfs exG {} [0]).completed = true ∧ (bfs exG' cAlt [0]).completed = true ∧
    (bfs exG {} [0]).layerSizes = [1, 2, 1] ∧ (bfs exG' cAlt [0]).layerSizes = [1, 2, 1] :=
  ⟨rfl, exG_hyp _, exG'_hyp _, full_completed, alt_completed, full_sizes, alt_sizes⟩

end Cv
