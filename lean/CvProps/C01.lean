/-
  C01 — BFS layers are exactly the distance classes.  Property theorems only.
-/
import CvProofs.Spec
namespace Cv.C01
end Cv.C01
