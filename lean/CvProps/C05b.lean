/-
  C05, second half — bidirectional set-to-set search `MeetInTheMiddle.find_path_between` (algo/bfs_mitm.py).
  Property theorems only; proofs in `CvProofs/Paths.lean`.
-/
import CvProofs.Paths
import CvProofs.PathsExample
set_option linter.unusedSectionVars false
namespace Cv.C05b
open Cv Cv.PathsExample

variable {α : Type} [DecidableEq α] {g gi : Graph α}

/-- returns a globally shortest path between the sets iff the minimum distance is ≤ 2M; never trips an assertion -/
theorem between_spec (h : PathHyp g gi) (hsym : g.invClosed = true → Symm g.nb) (S T : List α) (M : Nat) :
    match findPathBetween g gi S T M with
    | none => False
    | some none => ∀ s ∈ S, ∀ t ∈ T, ∀ n, n ≤ 2 * M → ¬ Walk g.nb n s t
    | some (some r) =>
        r.start ∈ S ∧ applyPath g.act r.start r.edges ∈ T ∧ (∀ i ∈ r.edges, i < g.nGens) ∧ r.edges.length ≤ 2 * M ∧
        ∀ s ∈ S, ∀ t ∈ T, ∀ n, Walk g.nb n s t → r.edges.length ≤ n := by
  exact Cv.between_spec h hsym S T M
-- non-vacuity, non-inverse-closed case: the directed 5-cycle; distance 3 from 0 to 3 is found with M = 2
-- (odd distance: last layer of bfs1 against the second-to-last of bfs2) and not with M = 1
example : PathHyp ex5 ex5i := ex5_hyp
example : ex5.invClosed = true → Symm ex5.nb := fun e => by cases e
example : resData (findPathBetween ex5 ex5i [0] [3] 2) = some (some (0, [0, 0, 0])) := ex5_between_found
example : resData (findPathBetween ex5 ex5i [0] [3] 1) = some none := ex5_between_none
-- inverse-closed case: the 6-cycle with two-element sets; closest pair (1, 3), even distance 2
example : PathHyp ex6 ex6i ∧ (ex6.invClosed = true → Symm ex6.nb) := ⟨ex6_hyp, fun _ => ex6_symm⟩
example : resData (findPathBetween ex6 ex6i [0, 1] [3, 4] 3) = some (some (1, [0, 0])) := ex6_between_found
example : applyPath ex6.act 1 [0, 0] = 3 := by decide
-- intersecting sets: the empty path; an empty set: nothing found
example : resData (findPathBetween ex6 ex6i [0, 1] [5, 1] 3) = some (some (1, [])) := ex6_between_zero
example : resData (findPathBetween ex6 ex6i [] [3] 2) = some none := ex6_between_empty

/-- the same without any assumption relating `generators_inverse_closed` to the graph: the search never needs
its layers to be exact distance classes, so a wrong flag cannot make it return a wrong or non-shortest path -/
theorem between_spec_noflag (h : PathHyp g gi) (S T : List α) (M : Nat) :
    match findPathBetween g gi S T M with
    | none => False
    | some none => ∀ s ∈ S, ∀ t ∈ T, ∀ n, n ≤ 2 * M → ¬ Walk g.nb n s t
    | some (some r) =>
        r.start ∈ S ∧ applyPath g.act r.start r.edges ∈ T ∧ (∀ i ∈ r.edges, i < g.nGens) ∧ r.edges.length ≤ 2 * M ∧
        ∀ s ∈ S, ∀ t ∈ T, ∀ n, Walk g.nb n s t → r.edges.length ≤ n := by
  exact Cv.between_spec_noflag h S T M
-- non-vacuity: the directed 3-cycle wrongly flagged inverse-closed.  The engine's layers are then not the distance
-- classes (0 re-enters as "layer 3"), `hsym` of `between_spec` fails, and the answers are still right.
example : PathHyp ex3 ex3i := ex3_hyp
example : ex3.invClosed = true ∧ ¬ Symm ex3.nb := ⟨rfl, ex3_not_symm⟩
example : (IBfs.iter ex3 (IBfs.init ex3 [0]) 4).hashes = [[0], [1], [2], [0], [1]] := ex3_iter
example : resData (findPathBetween ex3 ex3i [0] [2] 5) = some (some (0, [0, 0])) := ex3_between_found
example : resData (findPathBetween ex3 ex3i [0] [7] 4) = some none := ex3_between_none

end Cv.C05b
