/-
  C07e — end to end: the random-walk generators run on the library's ENCODED permutation graph (and on the un-encoded
  one) return, after decoding, real walks of the MATHEMATICAL graph `permGraphNb perms` (`new[j] = old[p[j]]`), for ALL
  random draws.  Property theorems only; proofs in `CvProofs/InstanceBeam.lean`, which instantiates the abstract theorems
  of C07 through `CvProofs/Natural*.lean` (the models are natural in the state type) and `CvProofs/Restrict.lean` (global
  hypotheses such as hash injectivity are only needed on the rows that encode a state).  The evaluated examples are in
  `CvProofs/BeamKernel.lean` (`walksBfs = walksBfsK`, a kernel-evaluable copy of the model).

  In every theorem `start` is a DECODED state; the run starts from `encode w n start`, the output rows `x[i]` are
  decoded with `decode w n`, `y[i]` is the second component.
-/
import CvProofs.InstanceBeam
import CvProofs.InstanceBeamExample
namespace Cv.C07e
open Cv Cv.Instance Cv.Instance.Example Cv.Instance.BeamExample Cv.Kernel

/-! ## the encoded graph -/

/-- classic mode, for ALL draws satisfying the contract of `torch.randint`: block structure as in C07, each row decodes
to the image of the row one block earlier under a generator, and every returned row `x[i]`, decoded, is reachable from
the start state by a walk of exactly `y[i]` edges of the mathematical graph -/
theorem encoded_walksClassic_spec (w n : Nat) (hw : 1 ≤ w) (hw' : w ≤ 64) (perms : List (List Nat))
    (hp : ∀ p ∈ perms, Cv.Perm.IsPermOf n p) (hash : List Cv.Codec.W → Int) (ic : Bool) (batch : Nat)
    (width length : Nat) (hl : 1 ≤ length) (start : List Nat) (hs : Cv.Codec.encodable w n start = true)
    (draws : List (List Nat))
    (hd : DrawsOk (encodedPermGraph w n perms hash ic batch) width draws (length - 1)) :
    let out := walksClassic (encodedPermGraph w n perms hash ic batch) width length (Cv.Codec.encode w n start) draws
    out.length = width * length ∧
    (∀ k, k < width → out[k]? = some (Cv.Codec.encode w n start, 0)) ∧
    (∀ k p, out[k]? = some p → p.2 = k / width) ∧
    (∀ k p q, out[k]? = some p → out[k + width]? = some q →
      ∃ i, i < perms.length ∧
        Cv.Codec.decode w n q.1 = (perms.getD i []).map fun j => (Cv.Codec.decode w n p.1).getD j 0) ∧
    (∀ p ∈ out, Walk (permGraphNb perms) p.2 start (Cv.Codec.decode w n p.1)) := by
  exact encoded_walksClassic w n hw hw' perms hp hash ic batch width length hl start hs draws hd

/-- non-vacuity: LRX(4), width 2 (one word per state), two walks of three rows; the draws satisfy the contract; the run
evaluated in the kernel, encoded and decoded -/
example : (1 ≤ 2 ∧ 2 ≤ 64) ∧ (∀ p ∈ lrx4, Cv.Perm.IsPermOf 4 p) ∧ 1 ≤ 3 ∧ Cv.Codec.encodable 2 4 id4 = true ∧
    DrawsOk (encodedPermGraph 2 4 lrx4 identityHash true 1) 2 [[0, 2], [1, 1]] (3 - 1) ∧
    (walksClassic (encodedPermGraph 2 4 lrx4 identityHash true 1) 2 3 (Cv.Codec.encode 2 4 id4) [[0, 2], [1, 1]]).map
        (fun p => (Cv.Codec.decode 2 4 p.1, p.2)) =
      [([0, 1, 2, 3], 0), ([0, 1, 2, 3], 0), ([1, 2, 3, 0], 1), ([1, 0, 2, 3], 1), ([0, 1, 2, 3], 2),
       ([3, 1, 0, 2], 2)] :=
  ⟨by decide, lrx4_perm, by decide, by decide, gB_draws, lrx4_walksClassic.2⟩

/-- nbt mode: for every history depth and every `perms` (even ill-formed ones) -/
theorem encoded_walksNbt_spec (w n : Nat) (hw : 1 ≤ w) (hw' : w ≤ 64) (perms : List (List Nat))
    (hp : ∀ p ∈ perms, Cv.Perm.IsPermOf n p) (hash : List Cv.Codec.W → Int) (ic : Bool) (batch : Nat)
    (width length historyDepth : Nat) (hl : 1 ≤ length) (start : List Nat)
    (hs : Cv.Codec.encodable w n start = true) (rperms : List (List Nat)) :
    let out := walksNbt (encodedPermGraph w n perms hash ic batch) width length historyDepth
      (Cv.Codec.encode w n start) rperms
    (∀ k, k < width → out[k]? = some (Cv.Codec.encode w n start, 0)) ∧
    (∀ p ∈ out, Walk (permGraphNb perms) p.2 start (Cv.Codec.decode w n p.1)) := by
  exact encoded_walksNbt w n hw hw' perms hp hash ic batch width length historyDepth hl start hs rperms

/-- non-vacuity: history depth 1 on encoded LRX(4) -/
example : (1 ≤ 2 ∧ 2 ≤ 64) ∧ (∀ p ∈ lrx4, Cv.Perm.IsPermOf 4 p) ∧ 1 ≤ 3 ∧ Cv.Codec.encodable 2 4 id4 = true ∧
    (walksNbt (encodedPermGraph 2 4 lrx4 identityHash true 1) 2 3 1 (Cv.Codec.encode 2 4 id4)
        [[0, 1, 2, 3, 4, 5], [0, 1, 2, 3, 4, 5]]).map (fun p => (Cv.Codec.decode 2 4 p.1, p.2)) =
      [([0, 1, 2, 3], 0), ([0, 1, 2, 3], 0), ([1, 2, 3, 0], 1), ([1, 2, 3, 0], 1), ([2, 3, 0, 1], 2),
       ([2, 3, 0, 1], 2)] :=
  ⟨by decide, lrx4_perm, by decide, by decide, lrx4_walksNbt.2⟩

/-- BFS mode, for ALL duplicate-free perms: the first row is the start state, every row decodes to a state reachable by
a walk of exactly `y[i]` edges, and the output decodes to pairwise distinct states.  The hash has to be injective on rows
of the encoded length -/
theorem encoded_walksBfs_spec (w n : Nat) (hw : 1 ≤ w) (hw' : w ≤ 64) (perms : List (List Nat))
    (hp : ∀ p ∈ perms, Cv.Perm.IsPermOf n p) (hash : List Cv.Codec.W → Int)
    (hinj : ∀ x y : List Cv.Codec.W, x.length = Cv.Codec.encLen w n → y.length = Cv.Codec.encLen w n →
      hash x = hash y → x = y)
    (ic : Bool) (batch : Nat) (width length : Nat) (hwd : 1 ≤ width) (hl : 1 ≤ length) (start : List Nat)
    (hs : Cv.Codec.encodable w n start = true) (rperms : List (List Nat)) (hrp : ∀ p ∈ rperms, p.Nodup) :
    let out := walksBfs (encodedPermGraph w n perms hash ic batch) width length (Cv.Codec.encode w n start) rperms
    out.head? = some (Cv.Codec.encode w n start, 0) ∧
    (∀ p ∈ out, Walk (permGraphNb perms) p.2 start (Cv.Codec.decode w n p.1)) ∧
    (out.map fun p => Cv.Codec.decode w n p.1).Nodup := by
  exact encoded_walksBfs w n hw hw' perms hp hash ic batch
    (fun x y hx hy h => hinj x y (length_of_valid hx) (length_of_valid hy) h) width length hwd hl start hs rperms hrp

/-- non-vacuity: width 2, length 5 on encoded LRX(4) with the identity hasher; layers 1, 2, 3 (3, 4, 4 fresh states)
are thinned with the given duplicate-free perms -/
example : (1 ≤ 2 ∧ 2 ≤ 64) ∧ (∀ p ∈ lrx4, Cv.Perm.IsPermOf 4 p) ∧
    (∀ x y : List Cv.Codec.W, x.length = Cv.Codec.encLen 2 4 → y.length = Cv.Codec.encLen 2 4 →
      identityHash x = identityHash y → x = y) ∧
    1 ≤ 2 ∧ 1 ≤ 5 ∧ Cv.Codec.encodable 2 4 id4 = true ∧
    (∀ p ∈ [[1, 0, 2], [0, 1, 2, 3], [2, 0, 1]], p.Nodup) ∧
    (walksBfs (encodedPermGraph 2 4 lrx4 identityHash true 1) 2 5 (Cv.Codec.encode 2 4 id4)
        [[1, 0, 2], [0, 1, 2, 3], [2, 0, 1]]).map (fun p => (Cv.Codec.decode 2 4 p.1, p.2)) =
      [([0, 1, 2, 3], 0), ([3, 0, 1, 2], 1), ([1, 2, 3, 0], 1), ([2, 1, 3, 0], 2), ([2, 3, 0, 1], 2),
       ([0, 2, 1, 3], 3), ([3, 2, 0, 1], 3), ([1, 3, 2, 0], 4), ([3, 0, 2, 1], 4)] :=
  ⟨by decide, lrx4_perm, fun x y hx hy h => identityHash_inj_len1 x y (by rw [hx]; decide) (by rw [hy]; decide) h,
    by decide, by decide, by decide, by decide, lrx4_walksBfs_thin.2⟩

/-- BFS mode, wide and long enough (for ALL perms: none is used): the output, decoded, is exactly the set of all
vertices of the mathematical graph with their true distances -/
theorem encoded_walksBfs_exact (w n : Nat) (hw : 1 ≤ w) (hw' : w ≤ 64) (perms : List (List Nat))
    (hp : ∀ p ∈ perms, Cv.Perm.IsPermOf n p) (hash : List Cv.Codec.W → Int)
    (hinj : ∀ x y : List Cv.Codec.W, x.length = Cv.Codec.encLen w n → y.length = Cv.Codec.encLen w n →
      hash x = hash y → x = y)
    (ic : Bool) (batch : Nat) (width length : Nat) (start : List Nat)
    (hs : Cv.Codec.encodable w n start = true) (rperms : List (List Nat))
    (hwide : ∀ (k : Nat) (L : List (List Nat)), L.Nodup →
      (∀ s ∈ L, DistLayer (permGraphNb perms) [start] k s) → L.length ≤ width)
    (ecc : Nat) (hecc : ∀ s, ¬ DistLayer (permGraphNb perms) [start] (ecc + 1) s) (hlen : ecc < length)
    (s : List Nat) (k : Nat) :
    (s, k) ∈ (walksBfs (encodedPermGraph w n perms hash ic batch) width length (Cv.Codec.encode w n start)
        rperms).map (fun p => (Cv.Codec.decode w n p.1, p.2)) ↔ DistLayer (permGraphNb perms) [start] k s := by
  exact Cv.Instance.encoded_walksBfs_exact w n hw hw' perms hp hash ic batch
    (fun x y hx hy h => hinj x y (length_of_valid hx) (length_of_valid hy) h) width length start hs rperms hwide
    ecc hecc hlen s k

/-- non-vacuity: width 30, length 10 > eccentricity 6 on encoded LRX(4): for ANY perms the decoded output is the whole
group with true distances … -/
example (rperms : List (List Nat)) (s : List Nat) (k : Nat) :
    (s, k) ∈ (walksBfs (encodedPermGraph 2 4 lrx4 identityHash true 1) 30 10 (Cv.Codec.encode 2 4 id4)
        rperms).map (fun p => (Cv.Codec.decode 2 4 p.1, p.2)) ↔ DistLayer (permGraphNb lrx4) [id4] k s :=
  encoded_walksBfs_exact 2 4 (by decide) (by decide) lrx4 lrx4_perm identityHash
    (fun x y hx hy h => identityHash_inj_len1 x y (by rw [hx]; decide) (by rw [hy]; decide) h) true 1 30 10 id4
    (by decide) rperms lrx4_wide 6 class7_empty (by decide) s k

/-- … and the run evaluated in the kernel: 1 + 3 + 5 + 6 + 5 + 3 + 1 = 24 arrangements, each once, with its distance -/
example :
    (walksBfs (encodedPermGraph 2 4 lrx4 identityHash true 1) 30 10 (Cv.Codec.encode 2 4 id4) []).map
        (fun p => (Cv.Codec.decode 2 4 p.1, p.2)) =
      [([0, 1, 2, 3], 0),
       ([1, 2, 3, 0], 1), ([3, 0, 1, 2], 1), ([1, 0, 2, 3], 1),
       ([2, 1, 3, 0], 2), ([2, 3, 0, 1], 2), ([0, 2, 3, 1], 2), ([3, 1, 0, 2], 2), ([0, 3, 1, 2], 2),
       ([2, 3, 1, 0], 3), ([3, 1, 2, 0], 3), ([3, 2, 0, 1], 3), ([2, 0, 3, 1], 3), ([1, 3, 0, 2], 3),
       ([0, 2, 1, 3], 3),
       ([3, 2, 1, 0], 4), ([1, 3, 2, 0], 4), ([3, 0, 2, 1], 4), ([1, 2, 0, 3], 4), ([2, 0, 1, 3], 4),
       ([0, 3, 2, 1], 5), ([0, 1, 3, 2], 5), ([2, 1, 0, 3], 5),
       ([1, 0, 3, 2], 6)] := lrx4_walksBfs_all_decoded

/-- `hs` is needed: width 1 cannot hold the entries of `[0, 1, 2, 3]`; the run starts from the encoding of
`[0, 1, 0, 1]` and walks in ITS orbit: the first row does not decode to the start state -/
example : Cv.Codec.encodable 1 4 id4 = false ∧
    (walksBfs (encodedPermGraph 1 4 lrx4 identityHash true 1) 2 3 (Cv.Codec.encode 1 4 id4) []).map
        (fun p => (Cv.Codec.decode 1 4 p.1, p.2)) =
      [([0, 1, 0, 1], 0), ([1, 0, 1, 0], 1), ([1, 0, 0, 1], 1), ([1, 1, 0, 0], 2), ([0, 1, 1, 0], 2)] ∧
    ¬ Walk (permGraphNb lrx4) 0 id4 [0, 1, 0, 1] :=
  ⟨by decide, hs_needed_walks, not_walk0_id4⟩

/-- `hinj` is needed for exactness: with the hash `word mod 16` (collisions) only 12 of the 24 states are returned; the
state `[1, 0, 3, 2]` of class 6 is missing -/
example :
    ((walksBfs (encodedPermGraph 2 4 lrx4 (fun x => identityHash x % 16) true 1) 30 10 (Cv.Codec.encode 2 4 id4)
        []).map (fun p => (Cv.Codec.decode 2 4 p.1, p.2))).length = 12 ∧
    ([1, 0, 3, 2], 6) ∉ (walksBfs (encodedPermGraph 2 4 lrx4 (fun x => identityHash x % 16) true 1) 30 10
        (Cv.Codec.encode 2 4 id4) []).map (fun p => (Cv.Codec.decode 2 4 p.1, p.2)) ∧
    DistLayer (permGraphNb lrx4) [id4] 6 [1, 0, 3, 2] := hinj_needed_walks

/-! ## the un-encoded graph (`bit_encoding_width=None`) -/

/-- classic mode -/
theorem plain_walksClassic_spec (perms : List (List Nat)) (hash : List Nat → Int) (ic : Bool) (batch : Nat)
    (width length : Nat) (hl : 1 ≤ length) (start : List Nat) (draws : List (List Nat))
    (hd : DrawsOk (plainPermGraph perms hash ic batch) width draws (length - 1)) :
    let out := walksClassic (plainPermGraph perms hash ic batch) width length start draws
    out.length = width * length ∧
    (∀ k, k < width → out[k]? = some (start, 0)) ∧
    (∀ k p, out[k]? = some p → p.2 = k / width) ∧
    (∀ k p q, out[k]? = some p → out[k + width]? = some q →
      ∃ i, i < perms.length ∧ q.1 = (perms.getD i []).map fun j => p.1.getD j 0) ∧
    (∀ p ∈ out, Walk (permGraphNb perms) p.2 start p.1) := by
  exact plain_walksClassic perms hash ic batch width length hl start draws hd

example : 1 ≤ 3 ∧ DrawsOk (plainPermGraph lrx4 b4Hash true 2) 2 [[0, 2], [1, 1]] (3 - 1) ∧
    walksClassic (plainPermGraph lrx4 b4Hash true 2) 2 3 id4 [[0, 2], [1, 1]] =
      [([0, 1, 2, 3], 0), ([0, 1, 2, 3], 0), ([1, 2, 3, 0], 1), ([1, 0, 2, 3], 1), ([0, 1, 2, 3], 2),
       ([3, 1, 0, 2], 2)] := ⟨by decide, gP_draws, by decide +kernel⟩

/-- nbt mode -/
theorem plain_walksNbt_spec (perms : List (List Nat)) (hash : List Nat → Int) (ic : Bool) (batch : Nat)
    (width length historyDepth : Nat) (hl : 1 ≤ length) (start : List Nat) (rperms : List (List Nat)) :
    let out := walksNbt (plainPermGraph perms hash ic batch) width length historyDepth start rperms
    (∀ k, k < width → out[k]? = some (start, 0)) ∧ (∀ p ∈ out, Walk (permGraphNb perms) p.2 start p.1) := by
  exact plain_walksNbt perms hash ic batch width length historyDepth hl start rperms

example : 1 ≤ 3 ∧ walksNbt (plainPermGraph lrx4 b4Hash true 2) 2 3 1 id4 [[0, 1, 2, 3, 4, 5], [0, 1, 2, 3, 4, 5]] =
    [([0, 1, 2, 3], 0), ([0, 1, 2, 3], 0), ([1, 2, 3, 0], 1), ([1, 2, 3, 0], 1), ([2, 3, 0, 1], 2),
     ([2, 3, 0, 1], 2)] := ⟨by decide, by decide +kernel⟩

/-- BFS mode; the hash has to be injective on states of length `n` with entries below some bound `B` -/
theorem plain_walksBfs_spec (n B : Nat) (perms : List (List Nat)) (hp : ∀ p ∈ perms, Cv.Perm.IsPermOf n p)
    (hash : List Nat → Int)
    (hinj : ∀ s t : List Nat, (s.length = n ∧ ∀ a ∈ s, a < B) → (t.length = n ∧ ∀ a ∈ t, a < B) →
      hash s = hash t → s = t)
    (ic : Bool) (batch : Nat) (width length : Nat) (hwd : 1 ≤ width) (hl : 1 ≤ length) (start : List Nat)
    (hs : start.length = n ∧ ∀ a ∈ start, a < B) (rperms : List (List Nat)) (hrp : ∀ p ∈ rperms, p.Nodup) :
    let out := walksBfs (plainPermGraph perms hash ic batch) width length start rperms
    out.head? = some (start, 0) ∧ (∀ p ∈ out, Walk (permGraphNb perms) p.2 start p.1) ∧
      (out.map (·.1)).Nodup := by
  exact plain_walksBfs n B perms hp hash ic batch hinj width length hwd hl start hs rperms hrp

/-- non-vacuity: un-encoded LRX(4), hash = the state read in base 4 (injective on states with entries below 4) -/
example : (∀ p ∈ lrx4, Cv.Perm.IsPermOf 4 p) ∧
    (∀ s t : List Nat, (s.length = 4 ∧ ∀ a ∈ s, a < 4) → (t.length = 4 ∧ ∀ a ∈ t, a < 4) →
      b4Hash s = b4Hash t → s = t) ∧
    1 ≤ 2 ∧ 1 ≤ 5 ∧ (id4.length = 4 ∧ ∀ a ∈ id4, a < 4) ∧
    (∀ p ∈ [[1, 0, 2], [0, 1, 2, 3], [2, 0, 1]], p.Nodup) ∧
    walksBfs (plainPermGraph lrx4 b4Hash true 2) 2 5 id4 [[1, 0, 2], [0, 1, 2, 3], [2, 0, 1]] =
      [([0, 1, 2, 3], 0), ([1, 2, 3, 0], 1), ([1, 0, 2, 3], 1), ([0, 2, 3, 1], 2), ([2, 1, 3, 0], 2),
       ([2, 0, 3, 1], 3), ([0, 2, 1, 3], 3), ([0, 3, 1, 2], 4), ([1, 2, 0, 3], 4)] :=
  ⟨lrx4_perm, b4Hash_inj_plainOk, by decide, by decide, by decide, by decide, plain_walksBfs_thin⟩

/-- BFS mode, wide and long enough -/
theorem plain_walksBfs_exact (n B : Nat) (perms : List (List Nat)) (hp : ∀ p ∈ perms, Cv.Perm.IsPermOf n p)
    (hash : List Nat → Int)
    (hinj : ∀ s t : List Nat, (s.length = n ∧ ∀ a ∈ s, a < B) → (t.length = n ∧ ∀ a ∈ t, a < B) →
      hash s = hash t → s = t)
    (ic : Bool) (batch : Nat) (width length : Nat) (start : List Nat)
    (hs : start.length = n ∧ ∀ a ∈ start, a < B) (rperms : List (List Nat))
    (hwide : ∀ (k : Nat) (L : List (List Nat)), L.Nodup →
      (∀ s ∈ L, DistLayer (permGraphNb perms) [start] k s) → L.length ≤ width)
    (ecc : Nat) (hecc : ∀ s, ¬ DistLayer (permGraphNb perms) [start] (ecc + 1) s) (hlen : ecc < length)
    (s : List Nat) (k : Nat) :
    (s, k) ∈ walksBfs (plainPermGraph perms hash ic batch) width length start rperms ↔
      DistLayer (permGraphNb perms) [start] k s := by
  exact Cv.Instance.plain_walksBfs_exact n B perms hp hash ic batch hinj width length start hs rperms hwide ecc hecc
    hlen s k

/-- non-vacuity: for ANY perms the output is the whole group with true distances … -/
example (rperms : List (List Nat)) (s : List Nat) (k : Nat) :
    (s, k) ∈ walksBfs (plainPermGraph lrx4 b4Hash true 2) 30 10 id4 rperms ↔
      DistLayer (permGraphNb lrx4) [id4] k s :=
  plain_walksBfs_exact 4 4 lrx4 lrx4_perm b4Hash b4Hash_inj_plainOk true 2 30 10 id4 (by decide) rperms lrx4_wide 6
    class7_empty (by decide) s k

/-- … and the run evaluated in the kernel -/
example : walksBfs (plainPermGraph lrx4 b4Hash true 2) 30 10 id4 [] =
    [([0, 1, 2, 3], 0),
     ([1, 0, 2, 3], 1), ([1, 2, 3, 0], 1), ([3, 0, 1, 2], 1),
     ([0, 2, 3, 1], 2), ([0, 3, 1, 2], 2), ([2, 1, 3, 0], 2), ([2, 3, 0, 1], 2), ([3, 1, 0, 2], 2),
     ([0, 2, 1, 3], 3), ([1, 3, 0, 2], 3), ([2, 0, 3, 1], 3), ([2, 3, 1, 0], 3), ([3, 1, 2, 0], 3), ([3, 2, 0, 1], 3),
     ([1, 2, 0, 3], 4), ([1, 3, 2, 0], 4), ([2, 0, 1, 3], 4), ([3, 0, 2, 1], 4), ([3, 2, 1, 0], 4),
     ([0, 1, 3, 2], 5), ([0, 3, 2, 1], 5), ([2, 1, 0, 3], 5),
     ([1, 0, 3, 2], 6)] := plain_walksBfs_all

end Cv.C07e
