/-
  Property C16g — `cayleypy/puzzles/globe.py` as REGENERATED from the Python source (`CvGen/PyGlobe.lean`) equals the
  closed-form specification `Cv.Puzzles.globe` (`CvModel/Puzzles.lean`), for ALL parameters `a`, `b ≥ 1`.
  Proofs in `CvProofs/PyGlobeG7*.lean`.
-/
import CvProofs.PyGlobeG7Puzzle
import CvProofs.PyGlobeG7Create

namespace Cv.C16g
open Cv.Py Cv.PyGen Cv.Puzzles

/-- `help_cyclic(s, f, n)` is the one-line form of the cycle `s → s+1 → … → f → s` on `n` points -/
theorem help_cyclic_gen (s f n : Nat) (h : s ≤ f + 1) (hf : f < n) :
    Globe.help_cyclic s f n = some (toI (ofFn n fun i =>
      if s ≤ i ∧ i < f then i + 1 else if i = f ∧ s ≤ f then s else i)) := by
  exact Cv.PyG7.help_cyclic_gen s f n h hf

example : Globe.help_cyclic 2 4 6 = some [0, 1, 3, 4, 2, 5] := by decide
example : (2 : Nat) ≤ 4 + 1 ∧ 4 < 6 := by decide

/-- the dict built by `globe_gens(a, b)`: keys `r0..r<a>` then `f0..f<2b-1>`, values = specification -/
theorem globe_gens_gen (a b : Nat) (hb : 1 ≤ b) :
    Globe.globe_gens a b = some (((List.range (a+1)).map fun k => ("r" ++ toString k, toI (globeRow a b k))) ++
                                 ((List.range (2*b)).map fun c => ("f" ++ toString c, toI (globeFlip a b c)))) := by
  exact Cv.PyG7.globe_gens_gen a b hb

example : Globe.globe_gens 1 1 = some [("r0", [1, 0, 2, 3]), ("r1", [0, 1, 3, 2]), ("f0", [2, 1, 0, 3]),
    ("f1", [0, 3, 2, 1])] := by decide

/-- the arguments `globe_puzzle(a, b)` hands to `CayleyGraphDef.create` are those of the specification -/
theorem globe_puzzle_gen (a b : Nat) (hb : 1 ≤ b) :
    Globe.globe_puzzle a b = some { gens := (globe a b).gens.map toI, central := some (toI (globe a b).central),
                                    names := some (globe a b).names,
                                    name := some ("globe_puzzle-" ++ toString a ++ "-" ++ toString b) } := by
  exact Cv.PyG7.globe_puzzle_gen a b hb

example : Globe.globe_puzzle 1 1 = some
    { gens := [[1, 0, 2, 3], [1, 0, 2, 3], [0, 1, 3, 2], [0, 1, 3, 2], [2, 1, 0, 3], [0, 3, 2, 1]],
      central := some [0, 1, 2, 3], names := some ["r0", "r0_inv", "r1", "r1_inv", "f0", "f1"],
      name := some "globe_puzzle-1-1" } := by decide

/-! ### beyond the requested statements: no hypothesis on `b` is needed; composition with `create` -/

/-- `1 ≤ b` is not needed: for `b = 0` both sides are dicts / definitions with empty permutations -/
theorem globe_gens_gen_all (a b : Nat) :
    Globe.globe_gens a b = some (((List.range (a+1)).map fun k => ("r" ++ toString k, toI (globeRow a b k))) ++
                                 ((List.range (2*b)).map fun c => ("f" ++ toString c, toI (globeFlip a b c)))) := by
  exact Cv.PyG7.globe_gens_gen_all a b

theorem globe_puzzle_gen_all (a b : Nat) :
    Globe.globe_puzzle a b = some { gens := (globe a b).gens.map toI, central := some (toI (globe a b).central),
                                    names := some (globe a b).names,
                                    name := some ("globe_puzzle-" ++ toString a ++ "-" ++ toString b) } := by
  exact Cv.PyG7.globe_puzzle_gen_all a b

/-- what happens for `b = 0`: the translated `globe_puzzle` does not raise, it hands `a + 1` pairs of EMPTY permutations and
an empty central state to `create` … -/
example : Globe.globe_puzzle 2 0 = some
    { gens := [[], [], [], [], [], []], central := some [],
      names := some ["r0", "r0_inv", "r1", "r1_inv", "r2", "r2_inv"], name := some "globe_puzzle-2-0" } := by decide
example : Globe.globe_gens 2 0 = some [("r0", []), ("r1", []), ("r2", [])] := by decide

/-- … and (the model of) `CayleyGraphDef.create` rejects them -/
theorem globe_puzzle_create_zero (a : Nat) : (Globe.globe_puzzle a (0 : Nat)).bind rawToPermDef = none := by
  exact Cv.PyG7.globe_puzzle_create_zero a

example : (Globe.globe_puzzle 2 (0 : Nat)).bind rawToPermDef = none := globe_puzzle_create_zero 2

/-- for `b ≥ 1`: source-translated constructor ∘ model of `create` = the specified definition -/
theorem globe_puzzle_create (a b : Nat) (hb : 1 ≤ b) :
    (Globe.globe_puzzle a b).bind rawToPermDef = some
      { gens := (globe a b).gens, names := (globe a b).names, central := (globe a b).central,
        name := "globe_puzzle-" ++ toString a ++ "-" ++ toString b } := by
  exact Cv.PyG7.globe_puzzle_create a b hb

example : ((Globe.globe_puzzle (1 : Nat) (1 : Nat)).bind rawToPermDef).isSome = true := by
  rw [globe_puzzle_create 1 1 (by decide)]; rfl

/-- negative arguments do not raise either (no assertion in the source): empty permutations -/
example : Globe.globe_gens (-1) 1 = some [("f0", []), ("f1", [])] := by decide
example : Globe.globe_puzzle 1 (-1) = some
    { gens := [[], [], [], []], central := some [], names := some ["r0", "r0_inv", "r1", "r1_inv"],
      name := some "globe_puzzle-1--1" } := by decide

/-- `help_cyclic` outside the hypotheses: `f ≥ n` makes the list longer than `n` (no error) -/
example : Globe.help_cyclic 1 3 2 = some [0, 2, 3, 1] := by decide

end Cv.C16g
