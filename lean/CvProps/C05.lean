/-
  C05 — meet in the middle.  Property theorems only (filled in as proofs land).
-/
import CvModel.Paths
