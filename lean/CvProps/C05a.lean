/-
  C05 (first half) — meet in the middle from a precomputed ball (`MeetInTheMiddle.find_path_to`, `find_path_from`;
  algo/bfs_mitm.py:19-95).  Property theorems only; proofs in `CvProofs/Mitm.lean`, concrete graphs in
  `CvProofs/PathsExample.lean`, `CvProofs/MitmExample.lean`.

  `PathHyp g gi`  : `gi` is the inverted copy of `g` (same hasher, generator `i` of `gi` undoes generator `i` of `g`),
                    hash collisions excluded.
  `IsBall g c Hs` : `Hs[i]` is the sorted tensor of hashes of the distance class `i` around `c`; `D = Hs.length - 1`.

  DEVIATION FROM THE REQUESTED STATEMENTS (they are false as written, counterexample below): the backward BFS inside
  `find_path_to` is called with the DEFAULT `max_layer_size_to_explore = 10**12`; it stops silently on the first layer
  with at least `10**12` states and the search then answers `None` although a path of length `≤ 2D` exists.  The extra
  hypothesis `hexp` (the distance classes `1 … D` around the destination in the inverted graph have fewer than `10**12`
  states) excludes this; `mitmFindPathTo_core` needs no size hypothesis and lists the size limit as the only other
  reason for `None`.  The `found` and `assertFail` branches hold without `hexp`.
-/
import CvProofs.Mitm
import CvProofs.MitmExample
set_option linter.unusedSectionVars false
namespace Cv.C05a
open Cv Cv.PathsExample Cv.MitmExample

variable {α : Type} [DecidableEq α]

/-- MITM from a ball of depth D = Hs.length - 1: a valid SHORTEST path iff the distance is at most 2D, nothing otherwise;
    the assertion / "hash collision" branch is unreachable -/
theorem mitmFindPathTo_spec (g gi : Graph α) (h : PathHyp g gi) (hsi : gi.invClosed = true → Symm gi.nb) (hbs : 0 < gi.batchSize)
    (c : α) (Hs : List (List Int)) (hball : IsBall g c Hs) (hne : Hs ≠ []) (dest : α)
    (hexp : ∀ k L, 1 ≤ k → k ≤ Hs.length - 1 → IsLayer gi [dest] k L → L.length < 10^12) :
    match mitmFindPathTo g gi Hs dest with
    | .found p => applyPath g.act c p = dest ∧ DistLayer g.nb [c] p.length dest ∧ p.length ≤ 2 * (Hs.length - 1) ∧
                  ∀ i ∈ p, i < g.nGens
    | .notFound => ∀ n, n ≤ 2 * (Hs.length - 1) → ¬ Walk g.nb n c dest
    | .assertFail _ => False := by
  exact Cv.mitmFindPathTo_spec g gi h hsi hbs c Hs hball hne dest hexp
-- non-vacuity: the 6-cycle with the ball of depth 2 around 0; all hypotheses hold; both non-failing answers occur
example : PathHyp ex6 ex6i ∧ (ex6i.invClosed = true → Symm ex6i.nb) ∧ 0 < ex6i.batchSize ∧
    IsBall ex6 0 [[0], [1, 5], [2, 4]] ∧ ([[0], [1, 5], [2, 4]] : List (List Int)) ≠ [] ∧
    (∀ k L, 1 ≤ k → k ≤ ([[0], [1, 5], [2, 4]] : List (List Int)).length - 1 → IsLayer ex6i [3] k L → L.length < 10^12) :=
  ⟨ex6_hyp, fun _ => ex6i_symm, by decide, ex6_ball, by simp, fun k L _ _ hL => ex6i_small 3 (by decide) k L hL⟩
-- 3 is outside the ball (distance 3 ≤ 2·2): found by the backward search, the path replays to 3
example : mitmFindPathTo ex6 ex6i [[0], [1, 5], [2, 4]] 3 = .found [0, 0, 0] ∧ applyPath ex6.act 0 [0, 0, 0] = 3 :=
  ⟨ex6_mitmTo_found, by decide⟩
-- 4 is inside the ball: plain `find_path_to`
example : mitmFindPathTo ex6 ex6i [[0], [1, 5], [2, 4]] 4 = .found [1, 1] := ex6_mitmTo_inside
-- ball of depth 1: 3 is at distance 3 > 2·1
example : IsBall ex6 0 [[0], [1, 5]] ∧ mitmFindPathTo ex6 ex6i [[0], [1, 5]] 3 = .notFound :=
  ⟨ex6_ball', ex6_mitmTo_notFound⟩
-- not inverse-closed: the directed 5-cycle
example : PathHyp ex5 ex5i ∧ mitmFindPathTo ex5 ex5i [[0], [1]] 2 = .found [0, 0] ∧
    mitmFindPathTo ex5 ex5i [[0], [1]] 3 = .notFound := ⟨ex5_hyp, ex5_mitmTo_found, ex5_mitmTo_notFound⟩

/-- the same without any size hypothesis: the default size limit of the backward BFS is the only other reason for `None` -/
theorem mitmFindPathTo_core (g gi : Graph α) (h : PathHyp g gi) (hsi : gi.invClosed = true → Symm gi.nb) (hbs : 0 < gi.batchSize)
    (c : α) (Hs : List (List Int)) (hball : IsBall g c Hs) (hne : Hs ≠ []) (dest : α) :
    match mitmFindPathTo g gi Hs dest with
    | .found p => applyPath g.act c p = dest ∧ DistLayer g.nb [c] p.length dest ∧ p.length ≤ 2 * (Hs.length - 1) ∧
                  ∀ i ∈ p, i < g.nGens
    | .notFound => (∀ n, n ≤ 2 * (Hs.length - 1) → ¬ Walk g.nb n c dest) ∨
                   ∃ k L, 1 ≤ k ∧ k ≤ Hs.length - 1 ∧ IsLayer gi [dest] k L ∧ 10^12 ≤ L.length
    | .assertFail _ => False := by
  exact Cv.mitmFindPathTo_core g gi h hsi hbs c Hs hball hne dest
example : PathHyp ex6 ex6i ∧ IsBall ex6 0 [[0], [1, 5], [2, 4]] := ⟨ex6_hyp, ex6_ball⟩

/-- COUNTEREXAMPLE to the statement without `hexp`: the Cayley graph of ℤ with the `10^12` generators `+1 … +10^12`,
the (correct) ball of depth `D = 2` around `0`, destination `3·10^12 + 1` at distance `4 = 2·D`: every other hypothesis
holds, a walk of `4 ≤ 2·D` edges exists, and the answer is `None`. -/
example : PathHyp exZ exZi ∧ (exZi.invClosed = true → Symm exZi.nb) ∧ 0 < exZi.batchSize ∧
    IsBall exZ 0 ballZ ∧ ballZ ≠ [] ∧ mitmFindPathTo exZ exZi ballZ destZ = .notFound ∧
    4 ≤ 2 * (ballZ.length - 1) ∧ Walk exZ.nb 4 0 destZ :=
  ⟨exZ_hyp, (fun e => by cases e), by decide, exZ_ball, (by simp [ballZ]), exZ_notFound, (by decide), exZ_walk4⟩

/-- inverse-closed generators: path from the state to the central state -/
theorem mitmFindPathFrom_spec (g gi : Graph α) (h : PathHyp g gi) (hic : g.invClosed = true) (hsym : Symm g.nb)
    (hsi : gi.invClosed = true → Symm gi.nb) (hbs : 0 < gi.batchSize) (m : List Nat) (hm : IsInvMap g m)
    (c : α) (Hs : List (List Int)) (hball : IsBall g c Hs) (hne : Hs ≠ []) (start : α)
    (hexp : ∀ k L, 1 ≤ k → k ≤ Hs.length - 1 → IsLayer gi [start] k L → L.length < 10^12) :
    match mitmFindPathFrom g gi (some m) Hs start with
    | .found p => applyPath g.act start p = c ∧ p.length ≤ 2 * (Hs.length - 1) ∧ (∀ n, Walk g.nb n start c → p.length ≤ n)
    | .notFound => ∀ n, n ≤ 2 * (Hs.length - 1) → ¬ Walk g.nb n start c
    | .assertFail _ => False := by
  exact Cv.mitmFindPathFrom_spec g gi h hic hsym hsi hbs m hm c Hs hball hne start hexp
example : PathHyp ex6 ex6i ∧ ex6.invClosed = true ∧ Symm ex6.nb ∧ IsInvMap ex6 [1, 0] ∧ IsBall ex6 0 [[0], [1, 5], [2, 4]] ∧
    (∀ k L, 1 ≤ k → k ≤ ([[0], [1, 5], [2, 4]] : List (List Int)).length - 1 → IsLayer ex6i [3] k L → L.length < 10^12) :=
  ⟨ex6_hyp, rfl, ex6_symm, ex6_invMap, ex6_ball, fun k L _ _ hL => ex6i_small 3 (by decide) k L hL⟩
example : mitmFindPathFrom ex6 ex6i (some [1, 0]) [[0], [1, 5], [2, 4]] 3 = .found [1, 1, 1] ∧
    applyPath ex6.act 3 [1, 1, 1] = 0 := ⟨ex6_mitmFrom_found, by decide⟩
example : mitmFindPathFrom ex6 ex6i (some [1, 0]) [[0], [1, 5]] 3 = .notFound := ex6_mitmFrom_notFound
-- `hic` is needed: on a graph that is not inverse-closed the code trips its first assertion
example : mitmFindPathFrom ex5 ex5i (some [0]) [[0]] 0 = .assertFail "generators_inverse_closed" := by decide

/-- COUNTEREXAMPLE to the statement without `hexp`: ℤ with the `2·10^12` generators `±1 … ±10^12` (inverse-closed), the
(correct) ball of depth `D = 2` around `0`, start state `3·10^12 + 1` at distance `4 = 2·D`: every other hypothesis holds,
a walk of `4 ≤ 2·D` edges to the centre exists, and the answer is `None`. -/
example : PathHyp exS exSi ∧ exS.invClosed = true ∧ Symm exS.nb ∧ (exSi.invClosed = true → Symm exSi.nb) ∧
    0 < exSi.batchSize ∧ IsInvMap exS invS ∧ IsBall exS 0 ballS ∧ ballS ≠ [] ∧
    mitmFindPathFrom exS exSi (some invS) ballS destZ = .notFound ∧
    4 ≤ 2 * (ballS.length - 1) ∧ Walk exS.nb 4 destZ 0 :=
  ⟨exS_hyp, rfl, exS_symm, (fun _ => exSi_symm), (by decide), exS_invMap, exS_ball, (by simp [ballS]), exS_notFound,
    (by decide), exS_walk4⟩

/-- the same without any size hypothesis; additionally the returned path uses valid generator indices -/
theorem mitmFindPathFrom_core (g gi : Graph α) (h : PathHyp g gi) (hic : g.invClosed = true) (hsym : Symm g.nb)
    (hsi : gi.invClosed = true → Symm gi.nb) (hbs : 0 < gi.batchSize) (m : List Nat) (hm : IsInvMap g m)
    (c : α) (Hs : List (List Int)) (hball : IsBall g c Hs) (hne : Hs ≠ []) (start : α) :
    match mitmFindPathFrom g gi (some m) Hs start with
    | .found p => applyPath g.act start p = c ∧ p.length ≤ 2 * (Hs.length - 1) ∧
        (∀ n, Walk g.nb n start c → p.length ≤ n) ∧ ∀ i ∈ p, i < g.nGens
    | .notFound => (∀ n, n ≤ 2 * (Hs.length - 1) → ¬ Walk g.nb n start c) ∨
        ∃ k L, 1 ≤ k ∧ k ≤ Hs.length - 1 ∧ IsLayer gi [start] k L ∧ 10^12 ≤ L.length
    | .assertFail _ => False := by
  exact Cv.mitmFindPathFrom_core g gi h hic hsym hsi hbs m hm c Hs hball hne start
example : PathHyp ex6 ex6i ∧ ex6.invClosed = true ∧ Symm ex6.nb ∧ IsInvMap ex6 [1, 0] := ⟨ex6_hyp, rfl, ex6_symm, ex6_invMap⟩

end Cv.C05a
