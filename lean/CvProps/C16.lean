/-
  C16 — puzzle definitions.  Property theorems only (filled in as proofs land).
-/
import CvModel.Perm
