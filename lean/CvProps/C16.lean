/-
  Property C16 — puzzle definitions: GAP text reader/printer, cube, Hungarian rings, globe.
  Final statements only; proofs are in CvProofs/Gap.lean, CvProofs/Puzzles.lean, CvProofs/Cube.lean,
  CvProofs/CubeInstances.lean.
  (Agreement of the models `Cv.Gap.parseGap`, `Cv.Puzzles.*` with the real code on every shipped file and on
  parameter ranges is established by compare_gap.py / compare_puzzles.py.)
-/
import CvProofs.Gap
import CvProofs.Puzzles
import CvProofs.Cube
import CvProofs.CubeInstances
namespace Cv.C16
open Cv.Perm Cv.Gap Cv.Puzzles

/-! ### cycle notation -/

/-- cycle notation (`toCycles`, fixed points omitted) is a right inverse of `permutation_from_cycles` -/
theorem fromCycles_toCycles (n : Nat) (p : List Nat) (hp : Cv.Perm.IsPermOf n p) :
    Cv.Perm.fromCycles n ((toCycles p).map (·.map Int.ofNat)) 0 = some p :=
  Cv.Gap.fromCycles_toCycles n p hp

example : Cv.Perm.IsPermOf 6 [1, 2, 0, 3, 5, 4] ∧ toCycles [1, 2, 0, 3, 5, 4] = [[0, 1, 2], [4, 5]] := by decide

/-! ### GAP text: print, then read -/

/-- ROUND TRIP.  For generators `gens` (named one-line permutations of `n` points, names made of letters /
digits / underscores without an inner `M_`, pairwise distinct) and identical-piece classes `identical`
(pairwise disjoint lists of 1-based points not exceeding the largest moved point), reading the printed text
gives: the same names in the same order; every permutation restricted to the points up to the largest moved
one (`m = maxMoved`, all the reader can know); a central state of length `m` with colours `< m` in which two
points have the same colour EXACTLY when they are equal or declared identical.
The decimal lexing lemma is available in core (`Nat.ofDigitChars_ten_toDigits`); there is no extra hypothesis.
`0 < m` is necessary: see `parse_print_identity`. -/
theorem parse_print (gens : List (String × List Nat)) (n : Nat)
    (hperm : ∀ g ∈ gens, Cv.Perm.IsPermOf n g.2)
    (hnames : ∀ g ∈ gens, NameOk g.1.toList) (hdist : (gens.map (·.1)).Nodup)
    (identical : List (List Nat)) (hid : IpOkNat (maxMoved (gens.map (·.2))) identical)
    (hm : 0 < maxMoved (gens.map (·.2))) :
    ∃ cs, parseGap (printGap gens identical) =
        some (gens.map fun g => (g.1, g.2.take (maxMoved (gens.map (·.2)))), cs) ∧
      cs.length = maxMoved (gens.map (·.2)) ∧
      (∀ i, i < maxMoved (gens.map (·.2)) → cs.getD i 0 < maxMoved (gens.map (·.2))) ∧
      ∀ i j, i < maxMoved (gens.map (·.2)) → j < maxMoved (gens.map (·.2)) →
        (cs.getD i 0 = cs.getD j 0 ↔ SameClsNat identical i j) :=
  Cv.Gap.parse_print gens n hperm hnames hdist identical hid hm

/-- non-vacuity: a concrete instance of all hypotheses, its printed text and what the reader returns -/
example :
    (∀ g ∈ [("a_1", [1, 2, 0, 3, 5, 4]), ("b", [0, 1, 2, 3, 4, 5])], Cv.Perm.IsPermOf 6 g.2) ∧
    NameOk "a_1".toList ∧ NameOk "b".toList ∧
    maxMoved [[1, 2, 0, 3, 5, 4], [0, 1, 2, 3, 4, 5]] = 6 ∧
    printGap [("a_1", [1, 2, 0, 3, 5, 4]), ("b", [0, 1, 2, 3, 4, 5])] [[1, 2], [4]] =
      "M_a_1:=(1,2,3)(5,6);\nM_b:=;\nGen:=[\nM_a_1,M_b\n];\nip:=[[1,2],[4]];\n" ∧
    parseGap "M_a_1:=(1,2,3)(5,6);\nM_b:=;\nGen:=[\nM_a_1,M_b\n];\nip:=[[1,2],[4]];\n" =
      some ([("a_1", [1, 2, 0, 3, 5, 4]), ("b", [0, 1, 2, 3, 4, 5])], [0, 0, 1, 2, 3, 4]) := by
  refine ⟨by decide, ⟨by decide, by decide⟩, ⟨by decide, by decide⟩, by decide, by decide, by decide⟩
example : IpOkNat 6 [[1, 2], [4]] := ⟨by decide, by decide⟩

/-- the hypothesis `0 < maxMoved` is needed: if no generator moves a point the real reader raises
(`max()` of an empty sequence) -/
theorem parse_print_identity (gens : List (String × List Nat)) (n : Nat)
    (hperm : ∀ g ∈ gens, Cv.Perm.IsPermOf n g.2) (hnames : ∀ g ∈ gens, NameOk g.1.toList)
    (identical : List (List Nat)) (hm : maxMoved (gens.map (·.2)) = 0) :
    parseGap (printGap gens identical) = none :=
  Cv.Gap.parse_print_identity gens n hperm hnames identical hm

example : parseGap (printGap [("b", [0, 1, 2])] []) = none := by decide

/-- the name hypotheses are needed.  An inner `M_` is deleted by the reader (`key.replace("M_", "")`): -/
example : parseGap (printGap [("M_a", [1, 0])] []) = some ([("a", [1, 0])], [0, 1]) := by decide
/-- … and with a repeated name the LAST definition wins for both entries: -/
example : parseGap (printGap [("a", [1, 0, 2]), ("a", [0, 2, 1])] []) =
    some ([("a", [0, 2, 1]), ("a", [0, 2, 1])], [0, 1, 2]) := by decide
/-- … points beyond the largest moved one are lost (the reader cannot know them): -/
example : parseGap (printGap [("a", [1, 0, 2, 3])] []) = some ([("a", [1, 0])], [0, 1]) := by decide
/-- what the reader silently drops: a cycle containing a blank, the continuation line of a wrapped definition,
a definition whose key does not START with `M_`: -/
example : parseGap "M_a:=(1, 2)(3,4);\n" = some ([("a", [0, 1, 3, 2])], [0, 1, 2, 3]) := by decide
example : parseGap "M_a:=(1,2)\n(3,4);\n" = some ([("a", [1, 0])], [0, 1]) := by decide
example : parseGap " M_b:=(3,4);\nM_a:=(1,2);\n" = some ([("a", [1, 0])], [0, 1]) := by decide

/-! ### GAP text: any well-formed file (in particular every shipped file) -/

/-- MEANING of the reader's answer on a WELL-FORMED file (`Acc.wellFormed`, a decidable condition on what the line
loop found: distinct names, at least one cycle, pairwise disjoint cycles of points ≥ 1 in every definition, pairwise
disjoint `ip` classes of points in `1..n`; `compare_gap.py` evaluates it on all 92 shipped files: it holds for all).
The answer consists of the names found by the line loop, in order, each with the permutation of `n` points
(`n` = largest point written in a cycle) whose cycles are exactly the written ones (`DefMeans`: `p[c_i - 1] = c_{i+1} - 1`
along every written cycle, every other point fixed), and of a central state of length `n` which is the identity when
there is no `ip`, and otherwise colours two points equally iff they are equal or lie in a common class. -/
theorem parse_wellFormed (text : String) (acc : Acc) (hscan : scanChars text.toList = some acc)
    (hwf : acc.wellFormed = true) :
    ∃ ps cs, parseGap text = some ((acc.defs.map fun d => String.ofList d.1).zip ps, cs) ∧
      ps.length = acc.defs.length ∧
      (∀ k (hk : k < acc.defs.length) (hk' : k < ps.length),
        DefMeans (((acc.defs.map (·.2)).flatten.flatten).foldl max 0) (acc.defs[k]).2 ps[k]) ∧
      cs.length = ((acc.defs.map (·.2)).flatten.flatten).foldl max 0 ∧
      (acc.ip = none → cs = List.range (((acc.defs.map (·.2)).flatten.flatten).foldl max 0)) ∧
      (∀ ipv, acc.ip = some ipv → ∀ i j, i < cs.length → j < cs.length →
        (cs.getD i 0 = cs.getD j 0 ↔ SameCls ipv i j)) :=
  Cv.Gap.parse_wellFormed text acc hscan hwf

/-- non-vacuity: a text in the shipped layout (comments, `M_M_` names, `Gen` block, `ip`, trailing comments); what
the line loop finds, that it is well-formed, and the reader's answer -/
example :
    (scanChars "# PuzzleGeometry\nM_M_F:=(1,2,3)(4,5);\nM_M_B:=(2,6);\nGen:=[\nM_M_F,M_M_B\n];\nip:=[[1],[4,5]];\n# Size(Group(Gen));\n".toList).map
        (fun a => (a.defs, a.ip)) =
      some ([("F".toList, [[1, 2, 3], [4, 5]]), ("B".toList, [[2, 6]])], some [[1], [4, 5]]) ∧
    wellFormedText "# PuzzleGeometry\nM_M_F:=(1,2,3)(4,5);\nM_M_B:=(2,6);\nGen:=[\nM_M_F,M_M_B\n];\nip:=[[1],[4,5]];\n# Size(Group(Gen));\n" = true ∧
    parseGap "# PuzzleGeometry\nM_M_F:=(1,2,3)(4,5);\nM_M_B:=(2,6);\nGen:=[\nM_M_F,M_M_B\n];\nip:=[[1],[4,5]];\n# Size(Group(Gen));\n" =
      some ([("F", [1, 2, 0, 4, 3, 5]), ("B", [0, 5, 2, 3, 4, 1])], [0, 1, 2, 3, 3, 4]) := by
  refine ⟨by decide, by decide, by decide⟩

/-! ### central state from identical pieces -/

/-- for pairwise disjoint classes of points in `1..n`, the central state has length `n`, colours `< n`, and
two points get the same colour iff they are equal or in a common class -/
theorem centralFromIp_spec (n : Nat) (ip : List (List Int)) (hok : IpOk n ip) :
    ∃ cs, centralFromIp n ip = some cs ∧ cs.length = n ∧ (∀ i, i < n → cs.getD i 0 < n) ∧
      ∀ i j, i < n → j < n → (cs.getD i 0 = cs.getD j 0 ↔ SameCls ip i j) :=
  Cv.Gap.centralFromIp_spec n ip hok

example : IpOk 5 [[2, 5], [3]] ∧ centralFromIp 5 [[2, 5], [3]] = some [0, 1, 2, 3, 1] :=
  ⟨⟨by decide, by decide⟩, by decide⟩
/-- without disjointness the "iff" fails (a point in two classes): points 0 and 1 are in a common class but get
different colours -/
example : centralFromIp 3 [[1, 2], [2, 3]] = some [0, 1, 1] := by decide

/-! ### globe (all parameters) -/

theorem globe_inverse_closed (a b : Nat) (_ha : 1 ≤ a) (hb : 1 ≤ b) :
    isInverseClosedSet (globe a b).gens = true := globe_inverse_closed' a b hb

/-- every generator is a permutation of the `2 (a+1) b` cells; there are `2 (a+1) + 2 b` of them, as many as
names; the central state is the identity; `r<k>_inv` is the inverse of `r<k>`, which is a single cycle of length
`2 b` along row `k`; every flip is an involution -/
theorem globe_valid (a b : Nat) (hb : 1 ≤ b) :
    (∀ g ∈ (globe a b).gens, Cv.Perm.IsPermOf (globe a b).n g) ∧
    (globe a b).gens.length = 2 * (a + 1) + 2 * b ∧ (globe a b).names.length = (globe a b).gens.length ∧
    (globe a b).central = List.range (globe a b).n ∧
    (∀ k, k < a + 1 → Cv.Perm.inverse (globeRow a b k) = globeRowInv a b k ∧
      Cv.Perm.inverse (globeRowInv a b k) = globeRow a b k ∧
      isSingleCycle (globeRow a b k) (2 * b) = true ∧
      CycleOn (globeRow a b k) (List.range' (k * (2 * b)) (2 * b))) ∧
    (∀ c, c < 2 * b → Cv.Perm.inverse (globeFlip a b c) = globeFlip a b c ∧
      Cv.Perm.compose (globeFlip a b c) (globeFlip a b c) = Cv.Perm.identity (2 * (a + 1) * b)) :=
  ⟨globe_gens_perm a b hb, (globe_counts a b).1, (globe_counts a b).2.1, (globe_counts a b).2.2,
    fun k hk => ⟨(globeRow_perm a b k hk hb).2, (globeRowInv_perm a b k hk hb).2,
      (globeRow_cycle a b k hk hb).2.2, (globeRow_cycle a b k hk hb).1⟩,
    fun c hc => ⟨(globeFlip_perm a b c hc hb).2, globeFlip_involution a b c hc hb⟩⟩

example : (globe 1 2).gens =
    [[1, 2, 3, 0, 4, 5, 6, 7], [3, 0, 1, 2, 4, 5, 6, 7], [0, 1, 2, 3, 5, 6, 7, 4], [0, 1, 2, 3, 7, 4, 5, 6],
     [5, 4, 2, 3, 1, 0, 6, 7], [0, 6, 5, 3, 4, 2, 1, 7], [0, 1, 7, 6, 4, 5, 3, 2], [7, 1, 2, 4, 3, 5, 6, 0]] := by
  decide

/-! ### Hungarian rings (all admissible parameters) -/

/-- for all parameters accepted by `hungarian_rings_generators` (`RingsAdm`: sizes > 1, indices inside the
rings, both indices zero or both positive): the two rotations are permutations, single cycles of lengths `ls`
and `rs` (along the explicit rings), they share exactly the intersection points `0` (and `li`), the second
intersection is `li` steps from the first along the left ring and the first `ri` steps after the second along
the right ring; the generator set is inverse-closed and consists of permutations -/
theorem hungarianRings_cycles (ls li rs ri : Nat) (h : RingsAdm ls li rs ri) :
    (let n := ringsSize ls li rs ri
     let L := ringForth n (leftRing ls)
     let R := ringForth n (rightRing ls li rs ri)
     Cv.Perm.IsPermOf n L ∧ Cv.Perm.IsPermOf n R ∧
     CycleOn L (leftRing ls) ∧ CycleOn R (rightRing ls li rs ri) ∧
     (∀ k, k < n → k ∉ leftRing ls → L.getD k 0 = k) ∧
     (∀ k, k < n → k ∉ rightRing ls li rs ri → R.getD k 0 = k) ∧
     isSingleCycle L ls = true ∧ isSingleCycle R rs = true ∧
     sharesExactly L R (ringsCommon li ri) = true ∧
     iterate L 0 li = li ∧ (0 < li → iterate R li ri = 0)) ∧
    isInverseClosedSet (hungarianRings ls li rs ri).gens = true ∧
    (∀ g ∈ (hungarianRings ls li rs ri).gens, Cv.Perm.IsPermOf (hungarianRings ls li rs ri).n g) ∧
    (hungarianRings ls li rs ri).gens.take 2 =
      [ringForth (ringsSize ls li rs ri) (leftRing ls),
       ringForth (ringsSize ls li rs ri) (rightRing ls li rs ri)] :=
  ⟨hungarianRings_structure ls li rs ri h, (hungarianRings_inverse_closed ls li rs ri h).1,
    (hungarianRings_inverse_closed ls li rs ri h).2, rfl⟩

example : RingsAdm 5 2 5 2 ∧ ringsAdmissible 5 2 5 2 = true ∧
    (hungarianRings 5 2 5 2).gens = [[1, 2, 3, 4, 0, 5, 6, 7], [5, 1, 7, 3, 4, 6, 2, 0],
      [4, 0, 1, 2, 3, 5, 6, 7], [7, 1, 6, 3, 4, 0, 5, 2]] ∧
    rightRing 5 2 5 2 = [0, 5, 6, 2, 7] := by decide
/-- one intersection, and a ring of two beads (its rotation is an involution: no separate `-L`) -/
example : RingsAdm 2 0 3 0 ∧ (hungarianRings 2 0 3 0).names = ["L", "R", "-R"] := by decide

/-! ### cube (all sizes `n`, all layers) -/

/-- every layer turn `f<j> / r<j> / d<j>` (`j < n`) of the closed-form cube is a permutation of the `6 n²` sticker
positions, has order exactly 4, moves exactly the stickers of its layer — all of `cubeLayer n ax j` except, for an
outer layer of an odd cube, the centre sticker of the turning face, which rotates in place (`cubeLayerMoved`) — and
commutes with every turn of the same axis -/
theorem cube_structure (n : Nat) (ax : Axis) (j : Nat) (hj : j < n) :
    Cv.Perm.IsPermOf (6 * n * n) (cubeMove n ax j) ∧
    order4 (cubeMove n ax j) = true ∧
    supportOf (cubeMove n ax j) = cubeLayerMoved n ax j ∧
    (∀ i, i < 6 * n * n → ((cubeMove n ax j).getD i 0 ≠ i ↔
      (inLayer n ax j (stickerOf n i) = true ∧ isAxisCentre n ax (stickerOf n i) = false))) ∧
    (∀ j', commute (cubeMove n ax j) (cubeMove n ax j') = true) :=
  ⟨(cubeMove_perm n ax j).1, cubeMove_order4 n ax j hj, cubeMove_support n ax j,
    fun i hi => cubeMove_moved_iff n ax j i hi, fun j' => cubeMove_commute n ax j j'⟩

/-- the QSTM, QTM and HTM generator sets of the cube are inverse-closed, for every `n` -/
theorem cube_inverse_closed (n : Nat) :
    isInverseClosedSet (cubeQstm n).gens = true ∧ isInverseClosedSet (cubeQtm n).gens = true ∧
    isInverseClosedSet (cubeHtm n).gens = true :=
  ⟨cubeQstm_inverse_closed n, cubeQtm_inverse_closed n, cubeHtm_inverse_closed n⟩

/-- the combined decidable check holds for every `n` (it is also kernel-EVALUATED for n = 2, 3 in
CvProofs/CubeInstances.lean, an independent cross-check of the proof) -/
theorem cube_check (n : Nat) : cubeCheck n = true := cubeCheck_all n

/-- non-vacuity: the `f0` turn of the 2-cube, its layer, and the centre that stays in place on the 3-cube -/
example : cubeMove 2 Axis.f 0 =
      [0, 1, 19, 17, 6, 4, 7, 5, 2, 9, 3, 11, 12, 13, 14, 15, 16, 20, 18, 21, 10, 8, 22, 23] ∧
    cubeLayer 2 Axis.f 0 = [2, 3, 4, 5, 6, 7, 8, 10, 17, 19, 20, 21] ∧
    cubeLayerMoved 2 Axis.f 0 = cubeLayer 2 Axis.f 0 ∧
    (cubeLayer 3 Axis.f 0).length = 21 ∧ (cubeLayerMoved 3 Axis.f 0).length = 20 ∧
    (cubeLayer 3 Axis.f 0).filter (fun i => !(cubeLayerMoved 3 Axis.f 0).contains i) = [13] := by decide

/-! ### cube: the closed form is the real generator's output (n = 2, 3, 4, kernel-checked literal data) -/

/-- the closed-form layer turns ARE the lists produced by the real `generate_cube_permutations_oneline(n)`
(data pasted by script from the real library into CvProofs/CubeInstances.lean), names included -/
theorem cube_matches_library_2_3_4 :
    (cubeMoves 2).map (·.1) = pyCubeNames2 ∧ (cubeMoves 2).map (·.2) = pyCubePerms2 ∧
    (cubeMoves 3).map (·.1) = pyCubeNames3 ∧ (cubeMoves 3).map (·.2) = pyCubePerms3 ∧
    (cubeMoves 4).map (·.1) = pyCubeNames4 ∧ (cubeMoves 4).map (·.2) = pyCubePerms4 :=
  ⟨cubeMoves2_names, cubeMoves2_perms, cubeMoves3_names, cubeMoves3_perms, cubeMoves4_names, cubeMoves4_perms⟩

/-- kernel evaluation of the combined check (independent of the ∀-n proof) -/
theorem cube_check_evaluated_2_3 : cubeCheck 2 = true ∧ cubeCheck 3 = true := ⟨cubeCheck2, cubeCheck3⟩

end Cv.C16
