/-
  C06e — end to end: beam search run on the library's ENCODED permutation graph (and on the un-encoded one), for EVERY
  score function (the scores enter only through the oracle `select`), speaks about DECODED states and the mathematical
  action: a reported success is a walk of the reported length in `permGraphNb perms`; a returned path, replayed with
  `new[j] = old[p[j]]` from the start state, ends at the central state and has the reported length; the reported length
  is ≥ the true distance; an unreachable target is never reported as found; an unpruned beam finds the exact distance.
  Property theorems only; proofs in `CvProofs/InstanceBeam.lean` (via `CvProofs/Natural*.lean`, `CvProofs/Restrict.lean`),
  evaluated runs in `CvProofs/BeamKernel.lean` (`beamSimple = beamSimpleK`, a kernel-evaluable copy of the model).

  `central`, `start`, `dest` are DECODED states; the runs take their encodings.  `gi` is the graph the library builds
  for the inverted generator list (`perms.map inverse`), with the same hasher.
-/
import CvProofs.InstanceBeam
import CvProofs.InstanceBeamExample
namespace Cv.C06e
open Cv Cv.Instance Cv.Instance.Example Cv.Instance.BeamExample Cv.Kernel

/-! ## the encoded graph -/

/-! ### soundness -/

/-- simple mode without a ball: a reported success is a real walk of the reported length in the mathematical graph, and
a returned path is a valid generator word of that length which, replayed with `new[j] = old[p[j]]` from the (decoded)
start state, ends at the central state -/
theorem encoded_beamSimple_sound_noball (w n : Nat) (hw : 1 ≤ w) (hw' : w ≤ 64) (perms : List (List Nat))
    (hp : ∀ p ∈ perms, Cv.Perm.IsPermOf n p) (hash : List Cv.Codec.W → Int)
    (hinj : ∀ x y : List Cv.Codec.W, x.length = Cv.Codec.encLen w n → y.length = Cv.Codec.encLen w n →
      hash x = hash y → x = y)
    (ic ici : Bool) (batch batchi : Nat) (invMap : Option (List Nat)) (central start : List Nat)
    (hc : Cv.Codec.encodable w n central = true) (hs : Cv.Codec.encodable w n start = true)
    (c : SimpleCfg (List Cv.Codec.W)) (hb : c.ball = none) (r : BeamRes)
    (hr : beamSimple (encodedPermGraph w n perms hash ic batch)
      (encodedPermGraph w n (perms.map Cv.Perm.inverse) hash ici batchi) invMap
      (Cv.Codec.encode w n central) (Cv.Codec.encode w n start) c = some r) (hf : r.found = true) :
    Walk (permGraphNb perms) r.length start central ∧
    ∀ p, r.path = some p → p.length = r.length ∧ (∀ i ∈ p, i < perms.length) ∧
      applyPath (fun i s => (perms.getD i []).map fun j => s.getD j 0) start p = central := by
  exact Cv.Instance.encoded_beamSimple_sound_noball w n hw hw' perms hp hash ic batch ici batchi
    (fun x y hx hy h => hinj x y (length_of_valid hx) (length_of_valid hy) h) invMap central start hc hs c hb r hr hf

/-- non-vacuity: encoded LRX(4) (width 2, one word, identity hasher), beam of width 3 from the farthest state; the run
is evaluated in the kernel and succeeds with a path of length 6 -/
example : (1 ≤ 2 ∧ 2 ≤ 64) ∧ (∀ p ∈ lrx4, Cv.Perm.IsPermOf 4 p) ∧
    (∀ x y : List Cv.Codec.W, x.length = Cv.Codec.encLen 2 4 → y.length = Cv.Codec.encLen 2 4 →
      identityHash x = identityHash y → x = y) ∧
    Cv.Codec.encodable 2 4 id4 = true ∧ Cv.Codec.encodable 2 4 far4 = true ∧
    beamSimple (encodedPermGraph 2 4 lrx4 identityHash true 1)
      (encodedPermGraph 2 4 (lrx4.map Cv.Perm.inverse) identityHash true 1) none
      (Cv.Codec.encode 2 4 id4) (Cv.Codec.encode 2 4 far4)
      { beamWidth := 3, maxSteps := 10, returnPath := true, ball := none,
        select := fun _ l => List.range (min 3 l.length) } =
      some { found := true, length := 6, path := some [2, 0, 0, 2, 1, 1] } :=
  ⟨by decide, lrx4_perm, idHash_inj, by decide, by decide, lrx4_beam_noball⟩

/-- all hypotheses instantiated at once; the conclusion is a genuine fact about LRX(4): the word `X L L X R R` sorts
`[1, 0, 3, 2]` -/
example : Walk (permGraphNb lrx4) 6 far4 id4 ∧
    applyPath (fun i s => (lrx4.getD i []).map fun j => s.getD j 0) far4 [2, 0, 0, 2, 1, 1] = id4 := by
  have h := encoded_beamSimple_sound_noball 2 4 (by decide) (by decide) lrx4 lrx4_perm identityHash idHash_inj
    true true 1 1 none id4 far4 (by decide) (by decide) _ rfl _ lrx4_beam_noball rfl
  exact ⟨h.1, (h.2 _ rfl).2.2⟩

/-- `hs` is needed: width 1 cannot hold the entries of `[0, 1, 2, 3]` (the real `encode` asserts; the model's `encode`
keeps the low bits), its encoding coincides with that of `[0, 1, 0, 1]` and the search reports "found, length 0",
although `[0, 1, 2, 3] ≠ [0, 1, 0, 1]` -/
example : Cv.Codec.encodable 1 4 id4 = false ∧ Cv.Codec.encodable 1 4 [0, 1, 0, 1] = true ∧
    beamSimple (encodedPermGraph 1 4 lrx4 identityHash true 1)
      (encodedPermGraph 1 4 (lrx4.map Cv.Perm.inverse) identityHash true 1) none
      (Cv.Codec.encode 1 4 [0, 1, 0, 1]) (Cv.Codec.encode 1 4 id4)
      { beamWidth := 3, maxSteps := 10, returnPath := true, ball := none,
        select := fun _ l => List.range (min 3 l.length) } =
      some { found := true, length := 0, path := some [] } ∧
    ¬ Walk (permGraphNb lrx4) 0 id4 [0, 1, 0, 1] :=
  ⟨by decide, by decide, hs_needed_beam, not_walk0_id4⟩

/-- `hinj` is needed: with a constant hash the start state "is" the central state -/
example :
    beamSimple (encodedPermGraph 2 4 lrx4 (fun _ => 0) true 1)
      (encodedPermGraph 2 4 (lrx4.map Cv.Perm.inverse) (fun _ => 0) true 1) none
      (Cv.Codec.encode 2 4 id4) (Cv.Codec.encode 2 4 far4)
      { beamWidth := 3, maxSteps := 10, returnPath := true, ball := none,
        select := fun _ l => List.range (min 3 l.length) } =
      some { found := true, length := 0, path := some [] } ∧
    ¬ Walk (permGraphNb lrx4) 0 far4 id4 :=
  ⟨hinj_needed_beam, not_walk0_far4⟩

/-- simple mode with a ball (meet in the middle): `m` is the library's inverse map of the generator list (it exists
exactly for inverse-closed lists), `ball` is any ball of the encoded graph around the central state -/
theorem encoded_beamSimple_sound_ball (w n : Nat) (hw : 1 ≤ w) (hw' : w ≤ 64) (perms : List (List Nat))
    (hp : ∀ p ∈ perms, Cv.Perm.IsPermOf n p) (hash : List Cv.Codec.W → Int)
    (hinj : ∀ x y : List Cv.Codec.W, x.length = Cv.Codec.encLen w n → y.length = Cv.Codec.encLen w n →
      hash x = hash y → x = y)
    (ic ici : Bool) (batch batchi : Nat) (m : List Nat) (hm : Cv.GraphDef.inverseMapPerm perms = some m)
    (central start : List Nat)
    (hc : Cv.Codec.encodable w n central = true) (hs : Cv.Codec.encodable w n start = true)
    (c : SimpleCfg (List Cv.Codec.W)) (ball : List (List Int)) (hb : c.ball = some ball)
    (hball : IsBall (encodedPermGraph w n perms hash ic batch) (Cv.Codec.encode w n central) ball) (hne : ball ≠ [])
    (r : BeamRes)
    (hr : beamSimple (encodedPermGraph w n perms hash ic batch)
      (encodedPermGraph w n (perms.map Cv.Perm.inverse) hash ici batchi) (some m)
      (Cv.Codec.encode w n central) (Cv.Codec.encode w n start) c = some r) (hf : r.found = true) :
    Walk (permGraphNb perms) r.length start central ∧
    ∀ p, r.path = some p → p.length = r.length ∧ (∀ i ∈ p, i < perms.length) ∧
      applyPath (fun i s => (perms.getD i []).map fun j => s.getD j 0) start p = central := by
  exact Cv.Instance.encoded_beamSimple_sound_ball w n hw hw' perms hp hash ic batch ici batchi
    (fun x y hx hy h => hinj x y (length_of_valid hx) (length_of_valid hy) h) m hm central start hc hs c ball hb
    hball hne r hr hf

/-- the ball the library passes — `bfs_result_for_mitm.layers_hashes` of a BFS from the central state with
`return_all_hashes=True`, any other options — is a ball of the encoded graph -/
theorem encoded_bfs_hashes_isBall (w n : Nat) (hw : 1 ≤ w) (hw' : w ≤ 64) (perms : List (List Nat))
    (hp : ∀ p ∈ perms, Cv.Perm.IsPermOf n p) (hash : List Cv.Codec.W → Int)
    (hinj : ∀ x y : List Cv.Codec.W, x.length = Cv.Codec.encLen w n → y.length = Cv.Codec.encLen w n →
      hash x = hash y → x = y)
    (ic : Bool) (hic : ic = true → ∀ p ∈ perms, Cv.Perm.inverse p ∈ perms) (batch : Nat) (hb : 0 < batch)
    (central : List Nat) (hc : Cv.Codec.encodable w n central = true) (cb : BfsCfg (List Cv.Codec.W))
    (hr : cb.returnHashes = true) :
    IsBall (encodedPermGraph w n perms hash ic batch) (Cv.Codec.encode w n central)
      (bfs (encodedPermGraph w n perms hash ic batch) cb [Cv.Codec.encode w n central]).hashes ∧
    (bfs (encodedPermGraph w n perms hash ic batch) cb [Cv.Codec.encode w n central]).hashes ≠ [] := by
  exact Cv.Instance.encoded_bfs_hashes_isBall w n hw hw' perms hp hash ic batch
    (fun x y hx hy h => hinj x y (length_of_valid hx) (length_of_valid hy) h) central hc
    (fun h => symmOnOrbit_of_invClosed n perms hp (hic h) [central] (by simpa using length_of_encodable hc)) hb cb hr

/-- non-vacuity: the BFS of radius 2 around the identity of encoded LRX(4) (evaluated), hence the literal list of its
hashes (identity hasher: the words) is a ball -/
example :
    (bfs (encodedPermGraph 2 4 lrx4 identityHash true 1) { returnHashes := true, maxDiameter := 2 }
      [Cv.Codec.encode 2 4 id4]).hashes = [[228], [57, 147, 225], [54, 78, 120, 135, 156]] ∧
    IsBall (encodedPermGraph 2 4 lrx4 identityHash true 1) (Cv.Codec.encode 2 4 id4)
      [[228], [57, 147, 225], [54, 78, 120, 135, 156]] := by
  refine ⟨lrx4_ball2, ?_⟩
  have := (encoded_bfs_hashes_isBall 2 4 (by decide) (by decide) lrx4 lrx4_perm identityHash idHash_inj true
    (fun _ => lrx4_invClosed) 1 (by decide) id4 (by decide) { returnHashes := true, maxDiameter := 2 } rfl).1
  rwa [lrx4_ball2] at this

/-- non-vacuity: beam of width 3 with the ball of radius 2; every hypothesis holds and the evaluated run succeeds -/
example : Cv.GraphDef.inverseMapPerm lrx4 = some [1, 0, 2] ∧
    IsBall (encodedPermGraph 2 4 lrx4 identityHash true 1) (Cv.Codec.encode 2 4 id4)
      [[228], [57, 147, 225], [54, 78, 120, 135, 156]] ∧
    beamSimple (encodedPermGraph 2 4 lrx4 identityHash true 1)
      (encodedPermGraph 2 4 (lrx4.map Cv.Perm.inverse) identityHash true 1) (some [1, 0, 2])
      (Cv.Codec.encode 2 4 id4) (Cv.Codec.encode 2 4 far4)
      { beamWidth := 3, maxSteps := 10, returnPath := true,
        ball := some [[228], [57, 147, 225], [54, 78, 120, 135, 156]],
        select := fun _ l => List.range (min 3 l.length) } =
      some { found := true, length := 6, path := some [2, 0, 0, 2, 1, 1] } :=
  ⟨lrx4_invMapB, lrx4_isBall2, lrx4_beam_ball⟩

/-- all hypotheses instantiated at once -/
example : Walk (permGraphNb lrx4) 6 far4 id4 ∧
    applyPath (fun i s => (lrx4.getD i []).map fun j => s.getD j 0) far4 [2, 0, 0, 2, 1, 1] = id4 := by
  have h := encoded_beamSimple_sound_ball 2 4 (by decide) (by decide) lrx4 lrx4_perm identityHash idHash_inj
    true true 1 1 [1, 0, 2] lrx4_invMapB id4 far4 (by decide) (by decide) _ _ rfl lrx4_isBall2 (by simp) _
    lrx4_beam_ball rfl
  exact ⟨h.1, (h.2 _ rfl).2.2⟩

/-- advanced mode (history of banned states) -/
theorem encoded_beamAdvanced_sound (w n : Nat) (hw : 1 ≤ w) (hw' : w ≤ 64) (perms : List (List Nat))
    (hp : ∀ p ∈ perms, Cv.Perm.IsPermOf n p) (hash : List Cv.Codec.W → Int)
    (hinj : ∀ x y : List Cv.Codec.W, x.length = Cv.Codec.encLen w n → y.length = Cv.Codec.encLen w n →
      hash x = hash y → x = y)
    (ic : Bool) (batch : Nat) (start dest : List Nat)
    (hs : Cv.Codec.encodable w n start = true) (hd : Cv.Codec.encodable w n dest = true)
    (c : AdvCfg (List Cv.Codec.W)) (r : BeamRes)
    (hr : beamAdvanced (encodedPermGraph w n perms hash ic batch) (Cv.Codec.encode w n start)
      (Cv.Codec.encode w n dest) c = some r) (hf : r.found = true) :
    Walk (permGraphNb perms) r.length start dest := by
  exact Cv.Instance.encoded_beamAdvanced_sound w n hw hw' perms hp hash ic batch
    (fun x y hx hy h => hinj x y (length_of_valid hx) (length_of_valid hy) h) start dest hs hd c r hr hf

/-- non-vacuity: history depth 2, beam width 2: the evaluated run reports 8 steps (a detour: the distance is 6) -/
example : Walk (permGraphNb lrx4) 8 far4 id4 :=
  encoded_beamAdvanced_sound 2 4 (by decide) (by decide) lrx4 lrx4_perm identityHash idHash_inj true 1 far4 id4
    (by decide) (by decide) _ _ lrx4_beam_adv.2 rfl

/-! ### corollaries: reported length ≥ true distance; unreachable target ⇒ never "found" -/

/-- simple mode, no ball: the central state has a distance from the start state in the mathematical graph and the
reported length is at least that distance -/
theorem encoded_beam_length_ge_dist (w n : Nat) (hw : 1 ≤ w) (hw' : w ≤ 64) (perms : List (List Nat))
    (hp : ∀ p ∈ perms, Cv.Perm.IsPermOf n p) (hash : List Cv.Codec.W → Int)
    (hinj : ∀ x y : List Cv.Codec.W, x.length = Cv.Codec.encLen w n → y.length = Cv.Codec.encLen w n →
      hash x = hash y → x = y)
    (ic ici : Bool) (batch batchi : Nat) (invMap : Option (List Nat)) (central start : List Nat)
    (hc : Cv.Codec.encodable w n central = true) (hs : Cv.Codec.encodable w n start = true)
    (c : SimpleCfg (List Cv.Codec.W)) (hb : c.ball = none) (r : BeamRes)
    (hr : beamSimple (encodedPermGraph w n perms hash ic batch)
      (encodedPermGraph w n (perms.map Cv.Perm.inverse) hash ici batchi) invMap
      (Cv.Codec.encode w n central) (Cv.Codec.encode w n start) c = some r) (hf : r.found = true) :
    (∃ d, DistLayer (permGraphNb perms) [start] d central) ∧
      ∀ d, DistLayer (permGraphNb perms) [start] d central → d ≤ r.length := by
  exact BW.walk_dist_le (encoded_beamSimple_sound_noball w n hw hw' perms hp hash hinj ic ici batch batchi invMap
    central start hc hs c hb r hr hf).1

/-- non-vacuity: the evaluated run above reports 6, the true distance is 6 -/
example : ∀ d, DistLayer (permGraphNb lrx4) [far4] d id4 → d ≤ 6 :=
  (encoded_beam_length_ge_dist 2 4 (by decide) (by decide) lrx4 lrx4_perm identityHash idHash_inj
    true true 1 1 none id4 far4 (by decide) (by decide) _ rfl _ lrx4_beam_noball rfl).2

/-- simple mode with a ball -/
theorem encoded_beam_length_ge_dist_ball (w n : Nat) (hw : 1 ≤ w) (hw' : w ≤ 64) (perms : List (List Nat))
    (hp : ∀ p ∈ perms, Cv.Perm.IsPermOf n p) (hash : List Cv.Codec.W → Int)
    (hinj : ∀ x y : List Cv.Codec.W, x.length = Cv.Codec.encLen w n → y.length = Cv.Codec.encLen w n →
      hash x = hash y → x = y)
    (ic ici : Bool) (batch batchi : Nat) (m : List Nat) (hm : Cv.GraphDef.inverseMapPerm perms = some m)
    (central start : List Nat)
    (hc : Cv.Codec.encodable w n central = true) (hs : Cv.Codec.encodable w n start = true)
    (c : SimpleCfg (List Cv.Codec.W)) (ball : List (List Int)) (hb : c.ball = some ball)
    (hball : IsBall (encodedPermGraph w n perms hash ic batch) (Cv.Codec.encode w n central) ball) (hne : ball ≠ [])
    (r : BeamRes)
    (hr : beamSimple (encodedPermGraph w n perms hash ic batch)
      (encodedPermGraph w n (perms.map Cv.Perm.inverse) hash ici batchi) (some m)
      (Cv.Codec.encode w n central) (Cv.Codec.encode w n start) c = some r) (hf : r.found = true) :
    (∃ d, DistLayer (permGraphNb perms) [start] d central) ∧
      ∀ d, DistLayer (permGraphNb perms) [start] d central → d ≤ r.length := by
  exact BW.walk_dist_le (encoded_beamSimple_sound_ball w n hw hw' perms hp hash hinj ic ici batch batchi m hm
    central start hc hs c ball hb hball hne r hr hf).1

example : ∀ d, DistLayer (permGraphNb lrx4) [far4] d id4 → d ≤ 6 :=
  (encoded_beam_length_ge_dist_ball 2 4 (by decide) (by decide) lrx4 lrx4_perm identityHash idHash_inj
    true true 1 1 [1, 0, 2] lrx4_invMapB id4 far4 (by decide) (by decide) _ _ rfl lrx4_isBall2 (by simp) _
    lrx4_beam_ball rfl).2

/-- advanced mode -/
theorem encoded_beam_length_ge_dist_advanced (w n : Nat) (hw : 1 ≤ w) (hw' : w ≤ 64) (perms : List (List Nat))
    (hp : ∀ p ∈ perms, Cv.Perm.IsPermOf n p) (hash : List Cv.Codec.W → Int)
    (hinj : ∀ x y : List Cv.Codec.W, x.length = Cv.Codec.encLen w n → y.length = Cv.Codec.encLen w n →
      hash x = hash y → x = y)
    (ic : Bool) (batch : Nat) (start dest : List Nat)
    (hs : Cv.Codec.encodable w n start = true) (hd : Cv.Codec.encodable w n dest = true)
    (c : AdvCfg (List Cv.Codec.W)) (r : BeamRes)
    (hr : beamAdvanced (encodedPermGraph w n perms hash ic batch) (Cv.Codec.encode w n start)
      (Cv.Codec.encode w n dest) c = some r) (hf : r.found = true) :
    (∃ d, DistLayer (permGraphNb perms) [start] d dest) ∧
      ∀ d, DistLayer (permGraphNb perms) [start] d dest → d ≤ r.length := by
  exact BW.walk_dist_le (encoded_beamAdvanced_sound w n hw hw' perms hp hash hinj ic batch start dest hs hd c r hr hf)

/-- non-vacuity: the narrow advanced beam reports 8 ≥ 6 -/
example : ∀ d, DistLayer (permGraphNb lrx4) [far4] d id4 → d ≤ 8 :=
  (encoded_beam_length_ge_dist_advanced 2 4 (by decide) (by decide) lrx4 lrx4_perm identityHash idHash_inj true 1
    far4 id4 (by decide) (by decide) _ _ lrx4_beam_adv.2 rfl).2

/-- simple mode, no ball: a central state that is unreachable in the mathematical graph is never reported as found -/
theorem encoded_beam_unreachable_not_found (w n : Nat) (hw : 1 ≤ w) (hw' : w ≤ 64) (perms : List (List Nat))
    (hp : ∀ p ∈ perms, Cv.Perm.IsPermOf n p) (hash : List Cv.Codec.W → Int)
    (hinj : ∀ x y : List Cv.Codec.W, x.length = Cv.Codec.encLen w n → y.length = Cv.Codec.encLen w n →
      hash x = hash y → x = y)
    (ic ici : Bool) (batch batchi : Nat) (invMap : Option (List Nat)) (central start : List Nat)
    (hc : Cv.Codec.encodable w n central = true) (hs : Cv.Codec.encodable w n start = true)
    (c : SimpleCfg (List Cv.Codec.W)) (hb : c.ball = none)
    (hun : ∀ k, ¬ Walk (permGraphNb perms) k start central) (r : BeamRes)
    (hr : beamSimple (encodedPermGraph w n perms hash ic batch)
      (encodedPermGraph w n (perms.map Cv.Perm.inverse) hash ici batchi) invMap
      (Cv.Codec.encode w n central) (Cv.Codec.encode w n start) c = some r) : r.found = false := by
  cases hf : r.found with
  | false => rfl
  | true =>
    exact absurd (encoded_beamSimple_sound_noball w n hw hw' perms hp hash hinj ic ici batch batchi invMap
      central start hc hs c hb r hr hf).1 (hun _)

/-- non-vacuity: `[0, 0, 1, 1]` cannot be sorted to `[0, 1, 2, 3]`; the evaluated run gives up -/
example : Cv.Codec.encodable 2 4 [0, 0, 1, 1] = true ∧ (∀ k, ¬ Walk (permGraphNb lrx4) k [0, 0, 1, 1] id4) ∧
    beamSimple (encodedPermGraph 2 4 lrx4 identityHash true 1)
      (encodedPermGraph 2 4 (lrx4.map Cv.Perm.inverse) identityHash true 1) none
      (Cv.Codec.encode 2 4 id4) (Cv.Codec.encode 2 4 [0, 0, 1, 1])
      { beamWidth := 3, maxSteps := 10, returnPath := true, ball := none,
        select := fun _ l => List.range (min 3 l.length) } =
      some { found := false, length := 0, path := none } :=
  ⟨by decide, unreach4, unreach_runs.1⟩

/-- simple mode with a ball -/
theorem encoded_beam_unreachable_not_found_ball (w n : Nat) (hw : 1 ≤ w) (hw' : w ≤ 64) (perms : List (List Nat))
    (hp : ∀ p ∈ perms, Cv.Perm.IsPermOf n p) (hash : List Cv.Codec.W → Int)
    (hinj : ∀ x y : List Cv.Codec.W, x.length = Cv.Codec.encLen w n → y.length = Cv.Codec.encLen w n →
      hash x = hash y → x = y)
    (ic ici : Bool) (batch batchi : Nat) (m : List Nat) (hm : Cv.GraphDef.inverseMapPerm perms = some m)
    (central start : List Nat)
    (hc : Cv.Codec.encodable w n central = true) (hs : Cv.Codec.encodable w n start = true)
    (c : SimpleCfg (List Cv.Codec.W)) (ball : List (List Int)) (hb : c.ball = some ball)
    (hball : IsBall (encodedPermGraph w n perms hash ic batch) (Cv.Codec.encode w n central) ball) (hne : ball ≠ [])
    (hun : ∀ k, ¬ Walk (permGraphNb perms) k start central) (r : BeamRes)
    (hr : beamSimple (encodedPermGraph w n perms hash ic batch)
      (encodedPermGraph w n (perms.map Cv.Perm.inverse) hash ici batchi) (some m)
      (Cv.Codec.encode w n central) (Cv.Codec.encode w n start) c = some r) : r.found = false := by
  cases hf : r.found with
  | false => rfl
  | true =>
    exact absurd (encoded_beamSimple_sound_ball w n hw hw' perms hp hash hinj ic ici batch batchi m hm
      central start hc hs c ball hb hball hne r hr hf).1 (hun _)

example : beamSimple (encodedPermGraph 2 4 lrx4 identityHash true 1)
      (encodedPermGraph 2 4 (lrx4.map Cv.Perm.inverse) identityHash true 1) (some [1, 0, 2])
      (Cv.Codec.encode 2 4 id4) (Cv.Codec.encode 2 4 [0, 0, 1, 1])
      { beamWidth := 3, maxSteps := 10, returnPath := true,
        ball := some [[228], [57, 147, 225], [54, 78, 120, 135, 156]],
        select := fun _ l => List.range (min 3 l.length) } =
      some { found := false, length := 0, path := none } := unreach_runs.2.1

/-- advanced mode -/
theorem encoded_beam_unreachable_not_found_advanced (w n : Nat) (hw : 1 ≤ w) (hw' : w ≤ 64)
    (perms : List (List Nat)) (hp : ∀ p ∈ perms, Cv.Perm.IsPermOf n p) (hash : List Cv.Codec.W → Int)
    (hinj : ∀ x y : List Cv.Codec.W, x.length = Cv.Codec.encLen w n → y.length = Cv.Codec.encLen w n →
      hash x = hash y → x = y)
    (ic : Bool) (batch : Nat) (start dest : List Nat)
    (hs : Cv.Codec.encodable w n start = true) (hd : Cv.Codec.encodable w n dest = true)
    (c : AdvCfg (List Cv.Codec.W)) (hun : ∀ k, ¬ Walk (permGraphNb perms) k start dest) (r : BeamRes)
    (hr : beamAdvanced (encodedPermGraph w n perms hash ic batch) (Cv.Codec.encode w n start)
      (Cv.Codec.encode w n dest) c = some r) : r.found = false := by
  cases hf : r.found with
  | false => rfl
  | true =>
    exact absurd (encoded_beamAdvanced_sound w n hw hw' perms hp hash hinj ic batch start dest hs hd c r hr hf)
      (hun _)

example : beamAdvanced (encodedPermGraph 2 4 lrx4 identityHash true 1) (Cv.Codec.encode 2 4 [0, 0, 1, 1])
      (Cv.Codec.encode 2 4 id4)
      { beamWidth := 2, maxSteps := 10, historyDepth := 2, select := fun _ _ => List.range 2 } =
      some { found := false, length := 3, path := none } := unreach_runs.2.2

/-! ### exactness when the beam is never pruned -/

/-- beam wider than every set it would hold, step budget ≥ distance ⇒ success with exactly the distance of the
mathematical graph (simple mode, no ball), for EVERY oracle -/
theorem encoded_beamSimple_exact_unpruned (w n : Nat) (hw : 1 ≤ w) (hw' : w ≤ 64) (perms : List (List Nat))
    (hp : ∀ p ∈ perms, Cv.Perm.IsPermOf n p) (hash : List Cv.Codec.W → Int)
    (hinj : ∀ x y : List Cv.Codec.W, x.length = Cv.Codec.encLen w n → y.length = Cv.Codec.encLen w n →
      hash x = hash y → x = y)
    (ic ici : Bool) (batch batchi : Nat) (invMap : Option (List Nat)) (central start : List Nat)
    (hs : Cv.Codec.encodable w n start = true) (c : SimpleCfg (List Cv.Codec.W)) (hb : c.ball = none) (d : Nat)
    (hd : DistLayer (permGraphNb perms) [start] d central) (hsteps : d ≤ c.maxSteps)
    (hwide : ∀ (k : Nat) (L : List (List Nat)), L.Nodup → (∀ s ∈ L, Reach (permGraphNb perms) [start] k s) →
      L.length < c.beamWidth) :
    ∃ r, beamSimple (encodedPermGraph w n perms hash ic batch)
      (encodedPermGraph w n (perms.map Cv.Perm.inverse) hash ici batchi) invMap
      (Cv.Codec.encode w n central) (Cv.Codec.encode w n start) c = some r ∧ r.found = true ∧ r.length = d := by
  exact Cv.Instance.encoded_beamSimple_exact_unpruned w n hw hw' perms hp hash ic batch ici batchi
    (fun x y hx hy h => hinj x y (length_of_valid hx) (length_of_valid hy) h) invMap central start hs c hb d hd
    hsteps hwide

/-- non-vacuity: beam width 25 > 24 = |S₄|, 6 steps allowed, distance 6 — for ANY score oracle (derived from facts
about the mathematical graph, not evaluated) -/
example (sel : Nat → List (List Cv.Codec.W) → List Nat) :
    ∃ r, beamSimple (encodedPermGraph 2 4 lrx4 identityHash true 1)
      (encodedPermGraph 2 4 (lrx4.map Cv.Perm.inverse) identityHash true 1) none
      (Cv.Codec.encode 2 4 id4) (Cv.Codec.encode 2 4 far4)
      { beamWidth := 25, maxSteps := 6, returnPath := true, ball := none, select := sel } = some r ∧
      r.found = true ∧ r.length = 6 :=
  encoded_beamSimple_exact_unpruned 2 4 (by decide) (by decide) lrx4 lrx4_perm identityHash idHash_inj true true 1 1
    none id4 far4 (by decide) _ rfl 6 far4_dist (Nat.le_refl _)
    (fun k L hn hL => Nat.lt_succ_of_le (far4_wide k L hn hL))

/-- the evaluated wide run agrees: length 6 -/
example : beamSimple (encodedPermGraph 2 4 lrx4 identityHash true 1)
      (encodedPermGraph 2 4 (lrx4.map Cv.Perm.inverse) identityHash true 1) none
      (Cv.Codec.encode 2 4 id4) (Cv.Codec.encode 2 4 far4)
      { beamWidth := 30, maxSteps := 10, returnPath := true, ball := none,
        select := fun _ l => List.range (min 30 l.length) } =
      some { found := true, length := 6, path := some [2, 0, 0, 2, 0, 0] } := lrx4_beam_wide

/-- advanced mode, for EVERY history depth -/
theorem encoded_beamAdvanced_exact_unpruned (w n : Nat) (hw : 1 ≤ w) (hw' : w ≤ 64) (perms : List (List Nat))
    (hp : ∀ p ∈ perms, Cv.Perm.IsPermOf n p) (hash : List Cv.Codec.W → Int)
    (hinj : ∀ x y : List Cv.Codec.W, x.length = Cv.Codec.encLen w n → y.length = Cv.Codec.encLen w n →
      hash x = hash y → x = y)
    (ic : Bool) (batch : Nat) (start dest : List Nat) (hs : Cv.Codec.encodable w n start = true)
    (c : AdvCfg (List Cv.Codec.W)) (d : Nat) (hd : DistLayer (permGraphNb perms) [start] d dest)
    (hsteps : d ≤ c.maxSteps)
    (hwide : ∀ (k : Nat) (L : List (List Nat)), L.Nodup → (∀ s ∈ L, Reach (permGraphNb perms) [start] k s) →
      L.length ≤ c.beamWidth) :
    ∃ r, beamAdvanced (encodedPermGraph w n perms hash ic batch) (Cv.Codec.encode w n start)
      (Cv.Codec.encode w n dest) c = some r ∧ r.found = true ∧ r.length = d := by
  exact Cv.Instance.encoded_beamAdvanced_exact_unpruned w n hw hw' perms hp hash ic batch
    (fun x y hx hy h => hinj x y (length_of_valid hx) (length_of_valid hy) h) start dest hs c d hd hsteps hwide

/-- non-vacuity: beam width 24, any history depth, any oracle -/
example (hdepth : Nat) (sel : Nat → List (List Cv.Codec.W) → List Nat) :
    ∃ r, beamAdvanced (encodedPermGraph 2 4 lrx4 identityHash true 1) (Cv.Codec.encode 2 4 far4)
      (Cv.Codec.encode 2 4 id4) { beamWidth := 24, maxSteps := 6, historyDepth := hdepth, select := sel } = some r ∧
      r.found = true ∧ r.length = 6 :=
  encoded_beamAdvanced_exact_unpruned 2 4 (by decide) (by decide) lrx4 lrx4_perm identityHash idHash_inj true 1
    far4 id4 (by decide) _ 6 far4_dist (Nat.le_refl _) far4_wide

/-! ## the un-encoded graph (`bit_encoding_width=None`)

The hash has to be injective on the states of length `n` with entries below some bound `B` (the states that can
occur when the start and central states are of that kind). -/

/-- simple mode without a ball -/
theorem plain_beamSimple_sound_noball (n B : Nat) (perms : List (List Nat))
    (hp : ∀ p ∈ perms, Cv.Perm.IsPermOf n p) (hash : List Nat → Int)
    (hinj : ∀ s t : List Nat, (s.length = n ∧ ∀ a ∈ s, a < B) → (t.length = n ∧ ∀ a ∈ t, a < B) →
      hash s = hash t → s = t)
    (ic ici : Bool) (batch batchi : Nat) (invMap : Option (List Nat)) (central start : List Nat)
    (hc : central.length = n ∧ ∀ a ∈ central, a < B) (hs : start.length = n ∧ ∀ a ∈ start, a < B)
    (c : SimpleCfg (List Nat)) (hb : c.ball = none) (r : BeamRes)
    (hr : beamSimple (plainPermGraph perms hash ic batch) (plainPermGraph (perms.map Cv.Perm.inverse) hash ici batchi)
      invMap central start c = some r) (hf : r.found = true) :
    Walk (permGraphNb perms) r.length start central ∧
    ∀ p, r.path = some p → p.length = r.length ∧ (∀ i ∈ p, i < perms.length) ∧
      applyPath (fun i s => (perms.getD i []).map fun j => s.getD j 0) start p = central := by
  exact Cv.Instance.plain_beamSimple_sound_noball n B perms hp hash ic batch ici batchi hinj invMap central start
    hc hs c hb r hr hf

/-- non-vacuity: un-encoded LRX(4), base-4 hash; the evaluated run returns the word `R X L X R X` -/
example : Walk (permGraphNb lrx4) 6 far4 id4 ∧
    applyPath (fun i s => (lrx4.getD i []).map fun j => s.getD j 0) far4 [1, 2, 0, 2, 1, 2] = id4 := by
  have h := plain_beamSimple_sound_noball 4 4 lrx4 lrx4_perm b4Hash b4Hash_inj_plainOk true true 2 2 none id4 far4
    (by decide) (by decide) _ rfl _ plain_noball_run rfl
  exact ⟨h.1, (h.2 _ rfl).2.2⟩

/-- simple mode with a ball -/
theorem plain_beamSimple_sound_ball (n B : Nat) (perms : List (List Nat))
    (hp : ∀ p ∈ perms, Cv.Perm.IsPermOf n p) (hash : List Nat → Int)
    (hinj : ∀ s t : List Nat, (s.length = n ∧ ∀ a ∈ s, a < B) → (t.length = n ∧ ∀ a ∈ t, a < B) →
      hash s = hash t → s = t)
    (ic ici : Bool) (batch batchi : Nat) (m : List Nat) (hm : Cv.GraphDef.inverseMapPerm perms = some m)
    (central start : List Nat)
    (hc : central.length = n ∧ ∀ a ∈ central, a < B) (hs : start.length = n ∧ ∀ a ∈ start, a < B)
    (c : SimpleCfg (List Nat)) (ball : List (List Int)) (hb : c.ball = some ball)
    (hball : IsBall (plainPermGraph perms hash ic batch) central ball) (hne : ball ≠ []) (r : BeamRes)
    (hr : beamSimple (plainPermGraph perms hash ic batch) (plainPermGraph (perms.map Cv.Perm.inverse) hash ici batchi)
      (some m) central start c = some r) (hf : r.found = true) :
    Walk (permGraphNb perms) r.length start central ∧
    ∀ p, r.path = some p → p.length = r.length ∧ (∀ i ∈ p, i < perms.length) ∧
      applyPath (fun i s => (perms.getD i []).map fun j => s.getD j 0) start p = central := by
  exact Cv.Instance.plain_beamSimple_sound_ball n B perms hp hash ic batch ici batchi hinj m hm central start hc hs
    c ball hb hball hne r hr hf

/-- the ball computed by the BFS model is a ball of the un-encoded graph -/
theorem plain_bfs_hashes_isBall (n B : Nat) (perms : List (List Nat))
    (hp : ∀ p ∈ perms, Cv.Perm.IsPermOf n p) (hash : List Nat → Int)
    (hinj : ∀ s t : List Nat, (s.length = n ∧ ∀ a ∈ s, a < B) → (t.length = n ∧ ∀ a ∈ t, a < B) →
      hash s = hash t → s = t)
    (ic : Bool) (hic : ic = true → ∀ p ∈ perms, Cv.Perm.inverse p ∈ perms) (batch : Nat) (hb : 0 < batch)
    (central : List Nat) (hc : central.length = n ∧ ∀ a ∈ central, a < B) (cb : BfsCfg (List Nat))
    (hr : cb.returnHashes = true) :
    IsBall (plainPermGraph perms hash ic batch) central (bfs (plainPermGraph perms hash ic batch) cb [central]).hashes ∧
    (bfs (plainPermGraph perms hash ic batch) cb [central]).hashes ≠ [] := by
  exact Cv.Instance.plain_bfs_hashes_isBall n B perms hp hash ic batch hinj central hc
    (fun h => symmOnOrbit_of_invClosed n perms hp (hic h) [central] (by simpa using hc.1)) hb cb hr

/-- non-vacuity: the BFS of radius 2 around the identity of un-encoded LRX(4) (evaluated), hence the literal list of
its hashes (base-4 hash) is a ball -/
example :
    (bfs (plainPermGraph lrx4 b4Hash true 2) { returnHashes := true, maxDiameter := 2 } [id4]).hashes =
      [[27], [75, 108, 198], [45, 54, 156, 177, 210]] ∧
    IsBall (plainPermGraph lrx4 b4Hash true 2) id4 [[27], [75, 108, 198], [45, 54, 156, 177, 210]] := by
  refine ⟨plain_ball2, ?_⟩
  have := (plain_bfs_hashes_isBall 4 4 lrx4 lrx4_perm b4Hash b4Hash_inj_plainOk true (fun _ => lrx4_invClosed) 2
    (by decide) id4 (by decide) { returnHashes := true, maxDiameter := 2 } rfl).1
  rwa [plain_ball2] at this

/-- non-vacuity: that ball, beam of width 3; the evaluated run (`plain_ball_run`) returns `R X L X R X` -/
example : Walk (permGraphNb lrx4) 6 far4 id4 ∧
    applyPath (fun i s => (lrx4.getD i []).map fun j => s.getD j 0) far4 [1, 2, 0, 2, 1, 2] = id4 := by
  have h := plain_beamSimple_sound_ball 4 4 lrx4 lrx4_perm b4Hash b4Hash_inj_plainOk true true 2 2 [1, 0, 2]
    lrx4_invMapB id4 far4 (by decide) (by decide) _ _ rfl plain_isBall2 (by simp) _ plain_ball_run rfl
  exact ⟨h.1, (h.2 _ rfl).2.2⟩

/-- advanced mode -/
theorem plain_beamAdvanced_sound (n B : Nat) (perms : List (List Nat))
    (hp : ∀ p ∈ perms, Cv.Perm.IsPermOf n p) (hash : List Nat → Int)
    (hinj : ∀ s t : List Nat, (s.length = n ∧ ∀ a ∈ s, a < B) → (t.length = n ∧ ∀ a ∈ t, a < B) →
      hash s = hash t → s = t)
    (ic : Bool) (batch : Nat) (start dest : List Nat)
    (hs : start.length = n ∧ ∀ a ∈ start, a < B) (hd : dest.length = n ∧ ∀ a ∈ dest, a < B)
    (c : AdvCfg (List Nat)) (r : BeamRes)
    (hr : beamAdvanced (plainPermGraph perms hash ic batch) start dest c = some r) (hf : r.found = true) :
    Walk (permGraphNb perms) r.length start dest := by
  exact Cv.Instance.plain_beamAdvanced_sound n B perms hp hash ic batch hinj start dest hs hd c r hr hf

example : Walk (permGraphNb lrx4) 8 far4 id4 :=
  plain_beamAdvanced_sound 4 4 lrx4 lrx4_perm b4Hash b4Hash_inj_plainOk true 2 far4 id4 (by decide) (by decide) _ _
    plain_adv_run rfl

/-- reported length ≥ true distance (simple mode without a ball; the other two modes follow in the same way from
`plain_beamSimple_sound_ball`, `plain_beamAdvanced_sound` and `BW.walk_dist_le`) -/
theorem plain_beam_length_ge_dist (n B : Nat) (perms : List (List Nat))
    (hp : ∀ p ∈ perms, Cv.Perm.IsPermOf n p) (hash : List Nat → Int)
    (hinj : ∀ s t : List Nat, (s.length = n ∧ ∀ a ∈ s, a < B) → (t.length = n ∧ ∀ a ∈ t, a < B) →
      hash s = hash t → s = t)
    (ic ici : Bool) (batch batchi : Nat) (invMap : Option (List Nat)) (central start : List Nat)
    (hc : central.length = n ∧ ∀ a ∈ central, a < B) (hs : start.length = n ∧ ∀ a ∈ start, a < B)
    (c : SimpleCfg (List Nat)) (hb : c.ball = none) (r : BeamRes)
    (hr : beamSimple (plainPermGraph perms hash ic batch) (plainPermGraph (perms.map Cv.Perm.inverse) hash ici batchi)
      invMap central start c = some r) (hf : r.found = true) :
    (∃ d, DistLayer (permGraphNb perms) [start] d central) ∧
      ∀ d, DistLayer (permGraphNb perms) [start] d central → d ≤ r.length := by
  exact BW.walk_dist_le (plain_beamSimple_sound_noball n B perms hp hash hinj ic ici batch batchi invMap central
    start hc hs c hb r hr hf).1

example : ∀ d, DistLayer (permGraphNb lrx4) [far4] d id4 → d ≤ 6 :=
  (plain_beam_length_ge_dist 4 4 lrx4 lrx4_perm b4Hash b4Hash_inj_plainOk true true 2 2 none id4 far4
    (by decide) (by decide) _ rfl _ plain_noball_run rfl).2

/-- an unreachable central state is never reported as found (simple mode without a ball) -/
theorem plain_beam_unreachable_not_found (n B : Nat) (perms : List (List Nat))
    (hp : ∀ p ∈ perms, Cv.Perm.IsPermOf n p) (hash : List Nat → Int)
    (hinj : ∀ s t : List Nat, (s.length = n ∧ ∀ a ∈ s, a < B) → (t.length = n ∧ ∀ a ∈ t, a < B) →
      hash s = hash t → s = t)
    (ic ici : Bool) (batch batchi : Nat) (invMap : Option (List Nat)) (central start : List Nat)
    (hc : central.length = n ∧ ∀ a ∈ central, a < B) (hs : start.length = n ∧ ∀ a ∈ start, a < B)
    (c : SimpleCfg (List Nat)) (hb : c.ball = none)
    (hun : ∀ k, ¬ Walk (permGraphNb perms) k start central) (r : BeamRes)
    (hr : beamSimple (plainPermGraph perms hash ic batch) (plainPermGraph (perms.map Cv.Perm.inverse) hash ici batchi)
      invMap central start c = some r) : r.found = false := by
  cases hf : r.found with
  | false => rfl
  | true =>
    exact absurd (plain_beamSimple_sound_noball n B perms hp hash hinj ic ici batch batchi invMap central start hc hs
      c hb r hr hf).1 (hun _)

example : ([0, 0, 1, 1].length = 4 ∧ ∀ a ∈ [0, 0, 1, 1], a < 4) ∧ (∀ k, ¬ Walk (permGraphNb lrx4) k [0, 0, 1, 1] id4) ∧
    beamSimple (plainPermGraph lrx4 b4Hash true 2) (plainPermGraph (lrx4.map Cv.Perm.inverse) b4Hash true 2) none
      id4 [0, 0, 1, 1]
      { beamWidth := 3, maxSteps := 10, returnPath := true, ball := none,
        select := fun _ l => List.range (min 3 l.length) } =
      some { found := false, length := 0, path := none } :=
  ⟨by decide, unreach4, plain_unreach_run⟩

/-- exactness of the unpruned simple beam -/
theorem plain_beamSimple_exact_unpruned (n B : Nat) (perms : List (List Nat))
    (hp : ∀ p ∈ perms, Cv.Perm.IsPermOf n p) (hash : List Nat → Int)
    (hinj : ∀ s t : List Nat, (s.length = n ∧ ∀ a ∈ s, a < B) → (t.length = n ∧ ∀ a ∈ t, a < B) →
      hash s = hash t → s = t)
    (ic ici : Bool) (batch batchi : Nat) (invMap : Option (List Nat)) (central start : List Nat)
    (hs : start.length = n ∧ ∀ a ∈ start, a < B) (c : SimpleCfg (List Nat)) (hb : c.ball = none) (d : Nat)
    (hd : DistLayer (permGraphNb perms) [start] d central) (hsteps : d ≤ c.maxSteps)
    (hwide : ∀ (k : Nat) (L : List (List Nat)), L.Nodup → (∀ s ∈ L, Reach (permGraphNb perms) [start] k s) →
      L.length < c.beamWidth) :
    ∃ r, beamSimple (plainPermGraph perms hash ic batch) (plainPermGraph (perms.map Cv.Perm.inverse) hash ici batchi)
      invMap central start c = some r ∧ r.found = true ∧ r.length = d := by
  exact Cv.Instance.plain_beamSimple_exact_unpruned n B perms hp hash ic batch ici batchi hinj invMap central start
    hs c hb d hd hsteps hwide

example (sel : Nat → List (List Nat) → List Nat) :
    ∃ r, beamSimple (plainPermGraph lrx4 b4Hash true 2) (plainPermGraph (lrx4.map Cv.Perm.inverse) b4Hash true 2) none
      id4 far4 { beamWidth := 25, maxSteps := 6, returnPath := true, ball := none, select := sel } = some r ∧
      r.found = true ∧ r.length = 6 :=
  plain_beamSimple_exact_unpruned 4 4 lrx4 lrx4_perm b4Hash b4Hash_inj_plainOk true true 2 2 none id4 far4
    (by decide) _ rfl 6 far4_dist (Nat.le_refl _) (fun k L hn hL => Nat.lt_succ_of_le (far4_wide k L hn hL))

/-- exactness of the unpruned advanced beam, every history depth -/
theorem plain_beamAdvanced_exact_unpruned (n B : Nat) (perms : List (List Nat))
    (hp : ∀ p ∈ perms, Cv.Perm.IsPermOf n p) (hash : List Nat → Int)
    (hinj : ∀ s t : List Nat, (s.length = n ∧ ∀ a ∈ s, a < B) → (t.length = n ∧ ∀ a ∈ t, a < B) →
      hash s = hash t → s = t)
    (ic : Bool) (batch : Nat) (start dest : List Nat) (hs : start.length = n ∧ ∀ a ∈ start, a < B)
    (c : AdvCfg (List Nat)) (d : Nat) (hd : DistLayer (permGraphNb perms) [start] d dest) (hsteps : d ≤ c.maxSteps)
    (hwide : ∀ (k : Nat) (L : List (List Nat)), L.Nodup → (∀ s ∈ L, Reach (permGraphNb perms) [start] k s) →
      L.length ≤ c.beamWidth) :
    ∃ r, beamAdvanced (plainPermGraph perms hash ic batch) start dest c = some r ∧ r.found = true ∧
      r.length = d := by
  exact Cv.Instance.plain_beamAdvanced_exact_unpruned n B perms hp hash ic batch hinj start dest hs c d hd hsteps
    hwide

example (hdepth : Nat) (sel : Nat → List (List Nat) → List Nat) :
    ∃ r, beamAdvanced (plainPermGraph lrx4 b4Hash true 2) far4 id4
      { beamWidth := 24, maxSteps := 6, historyDepth := hdepth, select := sel } = some r ∧
      r.found = true ∧ r.length = 6 :=
  plain_beamAdvanced_exact_unpruned 4 4 lrx4 lrx4_perm b4Hash b4Hash_inj_plainOk true 2 far4 id4 (by decide) _ 6
    far4_dist (Nat.le_refl _) far4_wide

end Cv.C06e
