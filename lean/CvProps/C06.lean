/-
  C06 — beam search.  Property theorems only (filled in as proofs land).
-/
import CvModel.Beam
