/-
  C06 — beam search: soundness for EVERY score function (the scores enter only through the oracle
  `select`), and exactness when the beam is never pruned.  Property theorems only; proofs in
  `CvProofs/Beam.lean` (which builds on `CvProofs/Paths.lean` for `PathHyp`, `IsBall`, `IsInvMap`).
-/
import CvProofs.Beam
namespace Cv

/-! ### the concrete graph of the non-vacuity examples: the 6-cycle on `Nat` -/

/-- generator 0 is `+1`, generator 1 is `-1` (mod 6) on the states `0..5`; identity hash.  (States `≥ 6` are
isolated fixed points, so that the generators are bijections of `Nat` and `PathHyp` can hold.) -/
def c6b : Graph Nat :=
  { nGens := 2, act := fun i x => if x < 6 then (if i = 0 then (x + 1) % 6 else (x + 5) % 6) else x,
    hash := fun x => (x : Int), invClosed := true, batchSize := 100 }
/-- the inverted copy: the two generators swapped -/
def c6bi : Graph Nat :=
  { nGens := 2, act := fun i x => if x < 6 then (if i = 0 then (x + 5) % 6 else (x + 1) % 6) else x,
    hash := fun x => (x : Int), invClosed := true, batchSize := 100 }

theorem c6b_pathHyp : PathHyp c6b c6bi where
  hashEq := rfl
  nGens := rfl
  inv := by
    intro i hi x
    have hi : i < 2 := hi
    simp only [c6b, c6bi]
    rcases (by omega : i = 0 ∨ i = 1) with rfl | rfl <;> simp <;> constructor <;> (repeat' split) <;> omega
  inj := by intro a b hab; simp only [c6b] at hab; omega

/-- evaluation of the beam on concrete inputs (`uniqueStates` uses merge sort, which `decide` cannot
reduce; `simp` with the equation lemmas can) -/
local macro "beam_eval" : tactic =>
  `(tactic| simp [beamSimple, simpleLoop, beamAdvanced, advLoop, writeColumn, checkPathFound, Graph.unique,
      Graph.neighbors, uniqueStates, sortByKey, dedupAdj, List.mergeSort, List.MergeSort.Internal.splitInTwo,
      gather, restorePath, findPathFrom, findPathTo, revertPathM, isinSorted, searchsorted, c6b, c6bi,
      List.range, List.range.loop, List.findIdx?, List.findIdx?.go])

variable {α : Type}

/-! ### soundness -/

/-- simple mode without a ball: a reported success is a real walk of the reported length, and a returned
path is a valid generator word of that length leading from the start state to the central state -/
theorem beamSimple_sound_noball (g gi : Graph α) (h : PathHyp g gi) (invMap : Option (List Nat)) (central start : α)
    (c : SimpleCfg α) (hb : c.ball = none) (r : BeamRes)
    (hr : beamSimple g gi invMap central start c = some r) (hf : r.found = true) :
    Walk g.nb r.length start central ∧
    ∀ p, r.path = some p → p.length = r.length ∧ (∀ i ∈ p, i < g.nGens) ∧ applyPath g.act start p = central := by
  exact BW.beamSimple_sound_noball' g gi h invMap central start c hb r hr hf

/-- non-vacuity: beam width 1 on the 6-cycle from state 3, two different score oracles; both succeed and
return a path -/
example : beamSimple c6b c6bi none 0 3
    { beamWidth := 1, maxSteps := 5, returnPath := true, ball := none, select := fun _ _ => [0] } =
    some { found := true, length := 3, path := some [1, 1, 1] } := by beam_eval
example : beamSimple c6b c6bi none 0 3
    { beamWidth := 1, maxSteps := 5, returnPath := true, ball := none, select := fun _ _ => [1] } =
    some { found := true, length := 3, path := some [0, 0, 0] } := by beam_eval
/-- all hypotheses instantiated at once; the conclusion is a genuine fact about the 6-cycle -/
example : Walk c6b.nb 3 3 0 ∧ applyPath c6b.act 3 [1, 1, 1] = 0 := by
  have h := beamSimple_sound_noball c6b c6bi c6b_pathHyp none 0 3
    { beamWidth := 1, maxSteps := 5, returnPath := true, ball := none, select := fun _ _ => [0] } rfl
    { found := true, length := 3, path := some [1, 1, 1] } (by beam_eval) rfl
  exact ⟨h.1, (h.2 [1, 1, 1] rfl).2.2⟩


/-- simple mode with a ball (meet in the middle), inverse-closed generators -/
theorem beamSimple_sound_ball (g gi : Graph α) (h : PathHyp g gi) (hsym : Symm g.nb) (m : List Nat) (hm : IsInvMap g m)
    (central start : α) (c : SimpleCfg α) (ball : List (List Int)) (hb : c.ball = some ball) (hball : IsBall g central ball)
    (hne : ball ≠ []) (r : BeamRes)
    (hr : beamSimple g gi (some m) central start c = some r) (hf : r.found = true) :
    Walk g.nb r.length start central ∧
    ∀ p, r.path = some p → p.length = r.length ∧ applyPath g.act start p = central := by
  obtain ⟨h1, h2⟩ := BW.beamSimple_sound_ball' g gi h hsym m hm central start c ball hb hball hne r hr hf
  exact ⟨h1, fun p hp => ⟨(h2 p hp).1, (h2 p hp).2.2⟩⟩

/-- (slightly more than requested) the returned path also uses valid generator indices only -/
theorem beamSimple_sound_ball_valid (g gi : Graph α) (h : PathHyp g gi) (hsym : Symm g.nb) (m : List Nat)
    (hm : IsInvMap g m) (central start : α) (c : SimpleCfg α) (ball : List (List Int)) (hb : c.ball = some ball)
    (hball : IsBall g central ball) (hne : ball ≠ []) (r : BeamRes)
    (hr : beamSimple g gi (some m) central start c = some r) (hf : r.found = true) :
    ∀ p, r.path = some p → ∀ i ∈ p, i < g.nGens := by
  exact fun p hp =>
    ((BW.beamSimple_sound_ball' g gi h hsym m hm central start c ball hb hball hne r hr hf).2 p hp).2.1

theorem c6b_symm : Symm c6b.nb := by
  intro x y hy
  rw [BW.mem_nb] at *
  obtain ⟨i, hi, rfl⟩ := hy
  have hi : i < 2 := hi
  rcases (by omega : i = 0 ∨ i = 1) with rfl | rfl
  · exact ⟨1, by decide, ((c6b_pathHyp.symm.inv 1 (by decide) x).1).symm⟩
  · exact ⟨0, by decide, ((c6b_pathHyp.symm.inv 0 (by decide) x).1).symm⟩

theorem c6b_invMap : IsInvMap c6b [1, 0] := by
  refine ⟨rfl, ?_⟩
  intro i hi
  have hi : i < 2 := hi
  rcases (by omega : i = 0 ∨ i = 1) with rfl | rfl
  · exact ⟨1, rfl, by decide, fun x => (c6b_pathHyp.symm.inv 1 (by decide) x).1⟩
  · exact ⟨0, rfl, by decide, fun x => (c6b_pathHyp.symm.inv 0 (by decide) x).1⟩

/-- the ball of radius 1 around state 0 of the 6-cycle -/
theorem c6b_ball : IsBall c6b 0 [[0], [1, 5]] := by
  have hnb0 : c6b.nb 0 = [1, 5] := by decide
  intro i H hi
  match i, hi with
  | 0, hi =>
    cases hi
    refine ⟨by simp, [0], by simp, ?_, by simp [c6b]⟩
    intro x
    simp [DistLayer, reach_zero]
  | 1, hi =>
    cases hi
    refine ⟨by decide, [1, 5], by decide, ?_, by simp [c6b]⟩
    intro x
    have hr1 : Reach c6b.nb [0] 1 x ↔ x ∈ [1, 5] := by
      rw [reach_succ]
      constructor
      · rintro ⟨y, hy, hxy⟩
        rw [reach_zero, List.mem_singleton] at hy
        rw [hy, hnb0] at hxy; exact hxy
      · intro hx
        exact ⟨0, (reach_zero ..).2 (by simp), by rw [hnb0]; exact hx⟩
    constructor
    · intro hx
      refine ⟨hr1.2 hx, ?_⟩
      intro j hj hr
      have : j = 0 := by omega
      subst this
      rw [reach_zero] at hr
      simp only [List.mem_cons, List.not_mem_nil, or_false] at hx hr
      omega
    · intro hx; exact hr1.1 hx.1
  | i + 2, hi => simp at hi

/-- non-vacuity: beam width 1 from state 3 with the radius-1 ball around 0 (`c6b_pathHyp`, `c6b_symm`,
`c6b_invMap`, `c6b_ball` discharge the hypotheses): the second beam step (`i = 1`) hits ball layer `j = 1` in
the middle state 1, reported length `1 + 1 + 1 = 3`, path = beam part `[1, 1]` ++ ball part `[1]` -/
example : beamSimple c6b c6bi (some [1, 0]) 0 3
    { beamWidth := 1, maxSteps := 5, returnPath := true, ball := some [[0], [1, 5]], select := fun _ _ => [0] } =
    some { found := true, length := 3, path := some [1, 1, 1] } := by beam_eval

/-- all hypotheses instantiated at once -/
example : Walk c6b.nb 3 3 0 ∧ applyPath c6b.act 3 [1, 1, 1] = 0 := by
  have h := beamSimple_sound_ball c6b c6bi c6b_pathHyp c6b_symm [1, 0] c6b_invMap 0 3
    { beamWidth := 1, maxSteps := 5, returnPath := true, ball := some [[0], [1, 5]], select := fun _ _ => [0] }
    [[0], [1, 5]] rfl c6b_ball (by simp)
    { found := true, length := 3, path := some [1, 1, 1] } (by beam_eval) rfl
  exact ⟨h.1, (h.2 [1, 1, 1] rfl).2⟩

/-- advanced mode (history of banned states): a reported success is a real walk of the reported length -/
theorem beamAdvanced_sound [DecidableEq α] (g : Graph α) (hinj : Function.Injective g.hash) (start dest : α)
    (c : AdvCfg α) (r : BeamRes)
    (hr : beamAdvanced g start dest c = some r) (hf : r.found = true) : Walk g.nb r.length start dest := by
  exact BW.beamAdvanced_sound' g hinj start dest c r hr hf

/-- non-vacuity: history depth 3, beam width 2 on the 6-cycle -/
example : beamAdvanced c6b 3 0 { beamWidth := 2, maxSteps := 10, historyDepth := 3, select := fun i _ => [i % 2] } =
    some { found := true, length := 3, path := none } := by beam_eval
example : Walk c6b.nb 3 3 0 :=
  beamAdvanced_sound c6b c6b_pathHyp.inj 3 0
    { beamWidth := 2, maxSteps := 10, historyDepth := 3, select := fun i _ => [i % 2] }
    { found := true, length := 3, path := none } (by beam_eval) rfl

/-! ### corollaries: reported length ≥ true distance; unreachable target ⇒ never "found" -/

/-- simple mode, no ball: the central state has a distance class from the start state and the reported
length is at least that distance -/
theorem beam_length_ge_dist (g gi : Graph α) (h : PathHyp g gi) (invMap : Option (List Nat)) (central start : α)
    (c : SimpleCfg α) (hb : c.ball = none) (r : BeamRes)
    (hr : beamSimple g gi invMap central start c = some r) (hf : r.found = true) :
    (∃ d, DistLayer g.nb [start] d central) ∧ ∀ d, DistLayer g.nb [start] d central → d ≤ r.length := by
  exact BW.walk_dist_le (BW.beamSimple_sound_noball' g gi h invMap central start c hb r hr hf).1

/-- simple mode with a ball -/
theorem beam_length_ge_dist_ball (g gi : Graph α) (h : PathHyp g gi) (hsym : Symm g.nb) (m : List Nat)
    (hm : IsInvMap g m) (central start : α) (c : SimpleCfg α) (ball : List (List Int)) (hb : c.ball = some ball)
    (hball : IsBall g central ball) (hne : ball ≠ []) (r : BeamRes)
    (hr : beamSimple g gi (some m) central start c = some r) (hf : r.found = true) :
    (∃ d, DistLayer g.nb [start] d central) ∧ ∀ d, DistLayer g.nb [start] d central → d ≤ r.length := by
  exact BW.walk_dist_le (BW.beamSimple_sound_ball' g gi h hsym m hm central start c ball hb hball hne r hr hf).1

/-- advanced mode -/
theorem beam_length_ge_dist_advanced [DecidableEq α] (g : Graph α) (hinj : Function.Injective g.hash)
    (start dest : α) (c : AdvCfg α) (r : BeamRes)
    (hr : beamAdvanced g start dest c = some r) (hf : r.found = true) :
    (∃ d, DistLayer g.nb [start] d dest) ∧ ∀ d, DistLayer g.nb [start] d dest → d ≤ r.length := by
  exact BW.walk_dist_le (BW.beamAdvanced_sound' g hinj start dest c r hr hf)

/-- simple mode, no ball: an unreachable central state is never reported as found -/
theorem beam_unreachable_not_found (g gi : Graph α) (h : PathHyp g gi) (invMap : Option (List Nat)) (central start : α)
    (c : SimpleCfg α) (hb : c.ball = none) (hun : ∀ n, ¬ Walk g.nb n start central) (r : BeamRes)
    (hr : beamSimple g gi invMap central start c = some r) : r.found = false := by
  cases hf : r.found with
  | false => rfl
  | true => exact absurd (BW.beamSimple_sound_noball' g gi h invMap central start c hb r hr hf).1 (hun _)

/-- simple mode with a ball -/
theorem beam_unreachable_not_found_ball (g gi : Graph α) (h : PathHyp g gi) (hsym : Symm g.nb) (m : List Nat)
    (hm : IsInvMap g m) (central start : α) (c : SimpleCfg α) (ball : List (List Int)) (hb : c.ball = some ball)
    (hball : IsBall g central ball) (hne : ball ≠ []) (hun : ∀ n, ¬ Walk g.nb n start central) (r : BeamRes)
    (hr : beamSimple g gi (some m) central start c = some r) : r.found = false := by
  cases hf : r.found with
  | false => rfl
  | true =>
    exact absurd (BW.beamSimple_sound_ball' g gi h hsym m hm central start c ball hb hball hne r hr hf).1 (hun _)

/-- advanced mode -/
theorem beam_unreachable_not_found_advanced [DecidableEq α] (g : Graph α) (hinj : Function.Injective g.hash)
    (start dest : α) (c : AdvCfg α) (hun : ∀ n, ¬ Walk g.nb n start dest) (r : BeamRes)
    (hr : beamAdvanced g start dest c = some r) : r.found = false := by
  cases hf : r.found with
  | false => rfl
  | true => exact absurd (BW.beamAdvanced_sound' g hinj start dest c r hr hf) (hun _)

/-- walks of the 6-cycle stay inside `0..5`, and after `n` steps from state 3 the position is within
circular distance `n` of 3 -/
theorem c6b_walk3 : ∀ n x, Walk c6b.nb n 3 x → x < 6 ∧ 3 ≤ x + n ∧ x ≤ 3 + n := by
  intro n x w
  generalize hs : (3 : Nat) = s at w
  induction w with
  | nil => omega
  | snoc _ hc ih =>
    obtain ⟨i, _, rfl⟩ := (BW.mem_nb _ _ _).1 hc
    have := ih hs
    simp only [c6b, this.1, if_true]
    split <;> omega

/-- non-vacuity of the unreachability hypothesis: state 7 is an isolated fixed point of `c6b`, so it is not
reachable from state 3; both modes report "not found" -/
theorem c6b_unreachable : ∀ n, ¬ Walk c6b.nb n 3 7 := by
  intro n w
  have := c6b_walk3 n 7 w
  omega
example : beamSimple c6b c6bi none 7 3
    { beamWidth := 1, maxSteps := 4, returnPath := true, ball := none, select := fun _ _ => [0] } =
    some { found := false, length := 0, path := none } := by beam_eval
example : beamAdvanced c6b 3 7 { beamWidth := 2, maxSteps := 4, historyDepth := 0, select := fun _ _ => [0] } =
    some { found := false, length := 4, path := none } := by beam_eval


/-! ### exactness when the beam is never pruned -/

/-- beam wider than every set it would hold, step budget ≥ distance ⇒ success with exactly the distance
(simple mode, no ball; the simple beam has no "seen" filter, so the set held after `k` steps is the set of
states reachable by a walk of exactly `k` edges) -/
theorem beamSimple_exact_unpruned (g gi : Graph α) (h : PathHyp g gi) (invMap : Option (List Nat)) (central start : α)
    (c : SimpleCfg α) (hb : c.ball = none) (d : Nat) (hd : DistLayer g.nb [start] d central) (hsteps : d ≤ c.maxSteps)
    (hwide : ∀ (k : Nat) (L : List α), L.Nodup → (∀ x ∈ L, Reach g.nb [start] k x) → L.length < c.beamWidth) :
    ∃ r, beamSimple g gi invMap central start c = some r ∧ r.found = true ∧ r.length = d := by
  exact BW.beamSimple_exact_unpruned' g gi h invMap central start c hb d hd hsteps hwide

/-- state 0 is at distance exactly 3 from state 3 on the 6-cycle -/
theorem c6b_dist : DistLayer c6b.nb [3] 3 0 := by
  refine ⟨⟨3, by simp, ?_⟩, ?_⟩
  · have e1 : (2 : Nat) ∈ c6b.nb 3 := by decide
    have e2 : (1 : Nat) ∈ c6b.nb 2 := by decide
    have e3 : (0 : Nat) ∈ c6b.nb 1 := by decide
    exact .snoc (.snoc (.snoc (.nil 3) e1) e2) e3
  · rintro j hj ⟨s, hs, w⟩
    rw [List.mem_singleton.1 hs] at w
    have := c6b_walk3 j 0 w
    omega

/-- every duplicate-free list of states reachable from 3 has at most 6 entries -/
theorem c6b_wide (k : Nat) (L : List Nat) (hn : L.Nodup) (hr : ∀ x ∈ L, Reach c6b.nb [3] k x) : L.length ≤ 6 := by
  have hsub : L ⊆ List.range 6 := by
    intro x hx
    obtain ⟨s, hs, w⟩ := hr x hx
    rw [List.mem_singleton.1 hs] at w
    exact List.mem_range.2 (c6b_walk3 k x w).1
  simpa using hn.length_le_of_subset hsub

/-- non-vacuity: beam width 7 > 6 on the 6-cycle, 3 steps allowed, distance 3 (any score oracle) -/
example (sel : Nat → List Nat → List Nat) :
    ∃ r, beamSimple c6b c6bi none 0 3
      { beamWidth := 7, maxSteps := 3, returnPath := true, ball := none, select := sel } = some r ∧
      r.found = true ∧ r.length = 3 :=
  beamSimple_exact_unpruned c6b c6bi c6b_pathHyp none 0 3 _ rfl 3 c6b_dist (Nat.le_refl _)
    (fun k L hn hr => Nat.lt_succ_of_le (c6b_wide k L hn hr))
example : beamSimple c6b c6bi none 0 3
    { beamWidth := 7, maxSteps := 3, returnPath := true, ball := none, select := fun _ _ => [] } =
    some { found := true, length := 3, path := some [0, 0, 0] } := by beam_eval
/-- the step budget is needed: with `maxSteps = 2 < 3` the search gives up -/
example : beamSimple c6b c6bi none 0 3
    { beamWidth := 7, maxSteps := 2, returnPath := true, ball := none, select := fun _ _ => [] } =
    some { found := false, length := 0, path := none } := by beam_eval
/-- the width hypothesis is needed (and `<` cannot be relaxed to `≤`: the code prunes when
`len(layer) ≥ beam_width`): with width 2 = size of the first layer and an oracle that keeps nothing, the beam dies -/
example : beamSimple c6b c6bi none 0 3
    { beamWidth := 2, maxSteps := 3, returnPath := true, ball := none, select := fun _ _ => [] } =
    some { found := false, length := 0, path := none } := by beam_eval

/-- advanced mode, for EVERY history depth: the history only bans states that appeared at an earlier step,
i.e. states with a strictly shorter walk, so distance class `k` survives step `k` -/
theorem beamAdvanced_exact_unpruned [DecidableEq α] (g : Graph α) (hinj : Function.Injective g.hash) (start dest : α)
    (c : AdvCfg α) (d : Nat) (hd : DistLayer g.nb [start] d dest) (hsteps : d ≤ c.maxSteps)
    (hwide : ∀ (k : Nat) (L : List α), L.Nodup → (∀ x ∈ L, Reach g.nb [start] k x) → L.length ≤ c.beamWidth) :
    ∃ r, beamAdvanced g start dest c = some r ∧ r.found = true ∧ r.length = d := by
  exact BW.beamAdvanced_exact_unpruned' g hinj start dest c d hd hsteps hwide

/-- non-vacuity: beam width 6, any history depth, any oracle -/
example (hdepth : Nat) (sel : Nat → List Nat → List Nat) :
    ∃ r, beamAdvanced c6b 3 0 { beamWidth := 6, maxSteps := 3, historyDepth := hdepth, select := sel } = some r ∧
      r.found = true ∧ r.length = 3 :=
  beamAdvanced_exact_unpruned c6b c6b_pathHyp.inj 3 0 _ 3 c6b_dist (Nat.le_refl _) c6b_wide
example : beamAdvanced c6b 3 0 { beamWidth := 6, maxSteps := 3, historyDepth := 2, select := fun _ _ => [] } =
    some { found := true, length := 3, path := none } := by beam_eval

end Cv
