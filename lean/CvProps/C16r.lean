/-
  C16 (tie by translation): `cayleypy/puzzles/hungarian_rings.py`, REGENERATED from the source on every run
  (`CvGen/PyRings.lean`), equals the closed-form specification `CvModel/Puzzles.lean`.  Worker g8.
-/
import CvProofs.PyRingsG8e
namespace Cv.Props.C16r
open Cv.Py Cv.PyGen Cv.Puzzles Cv.PyG8

/-- `ringsAdmissible` (the caller's check) implies `RingsAdm` (what `hungarian_rings_generators` itself checks) -/
theorem adm_of_admissible (ls li rs ri : Nat) (h : ringsAdmissible ls li rs ri = true) : RingsAdm ls li rs ri :=
  Cv.PyG8.adm_of_admissible ls li rs ri h

/-- `_circular_shift(items, step)` = rotate left by `step mod len(items)` (for `[]` both sides are `[]`) -/
theorem circular_shift_gen (items : List Nat) (step : Int) :
    Rings._circular_shift (toI items) step = some (toI (items.rotateLeft ((step % items.length).toNat))) := by
  exact Cv.PyG8.circular_shift_gen items step

example : Rings._circular_shift (toI [5, 6, 7, 8]) (-1) = some (toI [8, 5, 6, 7]) := by decide
example : Rings._circular_shift (toI []) 3 = some (toI []) := by decide

/-- `_create_right_ring` = `rightRing`; holds for all `RingsAdm` parameters (`2*li ≤ ls`, `2*ri ≤ rs` not needed) -/
theorem create_right_ring_gen_adm (ls li rs ri : Nat) (h : RingsAdm ls li rs ri) :
    Rings._create_right_ring ls li rs ri (ringsSize ls li rs ri) = some (toI (rightRing ls li rs ri)) := by
  exact create_right_ring_adm ls li rs ri h

theorem create_right_ring_gen (ls li rs ri : Nat) (h : ringsAdmissible ls li rs ri = true) :
    Rings._create_right_ring ls li rs ri (ringsSize ls li rs ri) = some (toI (rightRing ls li rs ri)) := by
  exact create_right_ring_adm ls li rs ri (Cv.PyG8.adm_of_admissible ls li rs ri h)

example : ringsAdmissible 5 2 5 2 = true ∧ RingsAdm 5 4 5 3 ∧ ringsAdmissible 5 4 5 3 = false ∧
    Rings._create_right_ring 5 2 5 2 8 = some [0, 5, 6, 2, 7] := by decide

/-- `hungarian_rings_permutations(ls, li, rs, ri, step)` for EVERY `step`: both rings are shifted by `step` modulo
their lengths (`ringShift n ring 1 = ringForth n ring`, `ringShift n ring (len-1) = ringBack n ring` by `rfl`) -/
theorem hungarian_rings_permutations_step (ls li rs ri : Nat) (h : RingsAdm ls li rs ri) (step : Int) :
    Rings.hungarian_rings_permutations ls li rs ri step =
      some (toI (ringShift (ringsSize ls li rs ri) (leftRing ls) (step % (ls : Int)).toNat),
            toI (ringShift (ringsSize ls li rs ri) (rightRing ls li rs ri) (step % (rs : Int)).toNat)) := by
  exact perms_adm ls li rs ri h step _ _
    (Int.toNat_of_nonneg (Int.emod_nonneg _ (by have := h.2.1; omega))).symm
    (Int.toNat_of_nonneg (Int.emod_nonneg _ (by have := h.1; omega))).symm

example : Rings.hungarian_rings_permutations 5 2 5 2 3 =
    some (toI (ringShift 8 (leftRing 5) 3), toI (ringShift 8 (rightRing 5 2 5 2) 3)) := by decide

theorem hungarian_rings_permutations_forth_adm (ls li rs ri : Nat) (h : RingsAdm ls li rs ri) :
    Rings.hungarian_rings_permutations ls li rs ri 1 =
      some (toI (ringForth (ringsSize ls li rs ri) (leftRing ls)),
            toI (ringForth (ringsSize ls li rs ri) (rightRing ls li rs ri))) := by
  exact perms_forth_adm ls li rs ri h

theorem hungarian_rings_permutations_forth (ls li rs ri : Nat) (h : ringsAdmissible ls li rs ri = true) :
    Rings.hungarian_rings_permutations ls li rs ri 1 =
      some (toI (ringForth (ringsSize ls li rs ri) (leftRing ls)),
            toI (ringForth (ringsSize ls li rs ri) (rightRing ls li rs ri))) := by
  exact perms_forth_adm ls li rs ri (Cv.PyG8.adm_of_admissible ls li rs ri h)

/-- the docstring example of the source: `hungarian_rings_permutations(5, 2, 5, 2)` -/
example : ringsAdmissible 5 2 5 2 = true ∧ Rings.hungarian_rings_permutations 5 2 5 2 1 =
    some ([1, 2, 3, 4, 0, 5, 6, 7], [5, 1, 7, 3, 4, 6, 2, 0]) := by decide

theorem hungarian_rings_permutations_back_adm (ls li rs ri : Nat) (h : RingsAdm ls li rs ri) :
    Rings.hungarian_rings_permutations ls li rs ri (-1) =
      some (toI (ringBack (ringsSize ls li rs ri) (leftRing ls)),
            toI (ringBack (ringsSize ls li rs ri) (rightRing ls li rs ri))) := by
  exact perms_back_adm ls li rs ri h

theorem hungarian_rings_permutations_back (ls li rs ri : Nat) (h : ringsAdmissible ls li rs ri = true) :
    Rings.hungarian_rings_permutations ls li rs ri (-1) =
      some (toI (ringBack (ringsSize ls li rs ri) (leftRing ls)),
            toI (ringBack (ringsSize ls li rs ri) (rightRing ls li rs ri))) := by
  exact perms_back_adm ls li rs ri (Cv.PyG8.adm_of_admissible ls li rs ri h)

example : ringsAdmissible 7 3 6 2 = true ∧ Rings.hungarian_rings_permutations 7 3 6 2 (-1) =
    some (toI (ringBack 11 (leftRing 7)), toI (ringBack 11 (rightRing 7 3 6 2))) := by decide

/-- `hungarian_rings_generators` = generators and names of the specified puzzle, for all parameters the function
itself accepts (`RingsAdm`; the caller's extra conditions `2*li ≤ ls`, `2*ri ≤ rs` are not needed) -/
theorem hungarian_rings_generators_gen_adm (ls li rs ri : Nat) (h : RingsAdm ls li rs ri) :
    Rings.hungarian_rings_generators ls li rs ri =
      some ((hungarianRings ls li rs ri).gens.map toI, (hungarianRings ls li rs ri).names) := by
  exact generators_adm ls li rs ri h

theorem hungarian_rings_generators_gen (ls li rs ri : Nat) (h : ringsAdmissible ls li rs ri = true) :
    Rings.hungarian_rings_generators ls li rs ri =
      some ((hungarianRings ls li rs ri).gens.map toI, (hungarianRings ls li rs ri).names) := by
  exact generators_adm ls li rs ri (Cv.PyG8.adm_of_admissible ls li rs ri h)

example : ringsAdmissible 5 2 5 2 = true ∧ Rings.hungarian_rings_generators 5 2 5 2 =
    some ([[1, 2, 3, 4, 0, 5, 6, 7], [5, 1, 7, 3, 4, 6, 2, 0], [4, 0, 1, 2, 3, 5, 6, 7], [7, 1, 6, 3, 4, 0, 5, 2]],
      ["L", "R", "-L", "-R"]) := by decide
/-- a ring of two beads: forth = back, no `-L` -/
example : ringsAdmissible 2 0 3 0 = true ∧ Rings.hungarian_rings_generators 2 0 3 0 =
    some ([[1, 0, 2, 3], [2, 1, 3, 0], [3, 1, 0, 2]], ["L", "R", "-R"]) := by decide
/-- accepted by the function, rejected by the caller (`2*li > ls`): the statement still holds -/
example : ringsAdmissible 5 4 5 3 = false ∧ RingsAdm 5 4 5 3 ∧ Rings.hungarian_rings_generators 5 4 5 3 =
    some ((hungarianRings 5 4 5 3).gens.map toI, (hungarianRings 5 4 5 3).names) := by decide

/-! ### rejections (`ValueError` in the source), for arbitrary `int` arguments -/

theorem hungarian_rings_generators_reject_small (ls li rs ri : Int) (h : ls ≤ 1 ∨ rs ≤ 1) :
    Rings.hungarian_rings_generators ls li rs ri = none := by
  exact generators_small ls li rs ri h

theorem hungarian_rings_generators_reject_index (ls li rs ri : Int) (h : ls ≤ li ∨ rs ≤ ri) :
    Rings.hungarian_rings_generators ls li rs ri = none := by
  exact generators_of_perms_none ls li rs ri (perms_index_large ls li rs ri 1 h)

theorem hungarian_rings_generators_reject_neg (ls li rs ri : Int) (h : li < 0 ∨ ri < 0) :
    Rings.hungarian_rings_generators ls li rs ri = none := by
  exact generators_of_perms_none ls li rs ri (perms_index_neg ls li rs ri 1 h)

/-- exactly one of the two indices is `0` -/
theorem hungarian_rings_generators_reject_mixed (ls li rs ri : Int)
    (h : (li = 0 ∧ ri ≠ 0) ∨ (li ≠ 0 ∧ ri = 0)) :
    Rings.hungarian_rings_generators ls li rs ri = none := by
  exact generators_of_perms_none ls li rs ri (perms_index_mixed ls li rs ri 1 (by omega) (by omega))

example : Rings.hungarian_rings_generators 1 0 5 0 = none ∧ Rings.hungarian_rings_generators 5 5 5 2 = none ∧
    Rings.hungarian_rings_generators 5 (-1) 5 2 = none ∧ Rings.hungarian_rings_generators 5 0 5 2 = none ∧
    Rings.hungarian_rings_generators 5 2 5 0 = none := by decide

/-- on natural arguments the function succeeds EXACTLY on `RingsAdm` -/
theorem hungarian_rings_generators_isSome_iff (ls li rs ri : Nat) :
    (Rings.hungarian_rings_generators ls li rs ri).isSome = true ↔ RingsAdm ls li rs ri := by
  constructor
  · intro h
    apply Classical.byContradiction
    intro hn
    have hnone : Rings.hungarian_rings_generators ls li rs ri = none := by
      unfold RingsAdm at hn
      by_cases a : (ls : Int) ≤ 1 ∨ (rs : Int) ≤ 1
      · exact generators_small _ _ _ _ a
      by_cases b : (ls : Int) ≤ li ∨ (rs : Int) ≤ ri
      · exact hungarian_rings_generators_reject_index _ _ _ _ b
      · exact hungarian_rings_generators_reject_mixed _ _ _ _ (by omega)
    rw [hnone] at h
    exact absurd h (by decide)
  · intro h
    rw [generators_adm ls li rs ri h]; rfl

end Cv.Props.C16r
