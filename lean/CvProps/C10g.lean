/-
  C10g — the PERMUTATION branch of four `CayleyGraphDef` methods, REGENERATED from `cayleypy/cayley_graph_def.py`
  (`CvGen/PyGraphDef.lean`), equals the hand-written model the C10 theorems are stated about
  (`CvModel/GraphDef.lean`), on every definition `create` can return.
  Property theorems only; proofs are in `CvProofs/PyGraphDefG10*.lean`.
-/
import CvProofs.PyGraphDefG10
import CvProofs.PyGraphDefG10Map
import CvProofs.PyGraphDefG10IC
import CvProofs.PyGraphDefG10Spec
namespace Cv.C10g
open Cv.Py Cv.PyGen Cv.GraphDef Cv.Perm

/-! concrete instances used for the non-vacuity examples -/

/-- LRX(4): L, R, X -/
def lrx4 : PermDef := ⟨[[1,2,3,0],[3,0,1,2],[1,0,2,3]], ["L","R","X"], [0,1,2,3], "lrx-4"⟩
/-- a single 3-cycle: not inverse closed -/
def c3 : PermDef := ⟨[[1,2,0]], ["1,2,0"], [0,1,2], "c3"⟩
/-- its inverse closure -/
def c3ic : PermDef := ⟨[[1,2,0],[2,0,1]], ["1,2,0","1,2,0'"], [0,1,2], "c3-ic"⟩

theorem lrx4_created : PermDef.create lrx4.gens (some lrx4.names) (some lrx4.central) lrx4.name = some lrx4 := by
  rw [create_self_iff]; decide
theorem c3_created : PermDef.create c3.gens (some c3.names) (some c3.central) c3.name = some c3 := by
  rw [create_self_iff]; decide
theorem c3_makeIC : c3.makeInverseClosed = some c3ic := by
  rw [makeIC_unfold, if_neg (by decide), create_eq_some_iff]
  exact ⟨[1,2,0], [[2,0,1]], by decide, by decide, by decide, by decide, by decide, by decide,
    by unfold c3ic; congr 1 <;> decide⟩

/-- source `generators_inverse_map` (permutation branch) = model `inverseMapPerm`; `some none` = the source returns `None`
(not inverse closed); a repeated generator gets its LAST index (Python `dict`) = the model's `lastIndexOf` -/
theorem generators_inverse_map_gen (gens : List (List Nat)) (n : Nat) (hv : ∀ g ∈ gens, IsPermOf n g) :
    GraphDef.generators_inverse_map (gens.map toI) = some ((inverseMapPerm gens).map toI) := by
  exact Cv.PyG10.generators_inverse_map_gen gens n hv
example : (∀ g ∈ lrx4.gens, IsPermOf 4 g) ∧
    GraphDef.generators_inverse_map (lrx4.gens.map toI) = some (some [1, 0, 2]) ∧
    inverseMapPerm lrx4.gens = some [1, 0, 2] := by decide
example : (∀ g ∈ c3.gens, IsPermOf 3 g) ∧ GraphDef.generators_inverse_map (c3.gens.map toI) = some none ∧
    inverseMapPerm c3.gens = none := by decide
/-- duplicate generators: the last index wins on both sides -/
example : GraphDef.generators_inverse_map ([[1,0],[1,0]].map toI) = some (some [1, 1]) ∧
    inverseMapPerm [[1,0],[1,0]] = some [1, 1] := by decide
/-- (stronger form) in-range entries are enough -/
theorem generators_inverse_map_gen_inrange (gens : List (List Nat)) (hv : ∀ p ∈ gens, ∀ i ∈ p, i < p.length) :
    GraphDef.generators_inverse_map (gens.map toI) = some ((inverseMapPerm gens).map toI) := by
  exact Cv.PyG10.generators_inverse_map_gen' gens hv
example : (∀ p ∈ [[0,0]], ∀ i ∈ p, i < p.length) ∧ ¬ IsPermOf 2 [0,0] := by decide
/-- the hypothesis is needed: on an out-of-range "generator" the source raises (IndexError), the model answers -/
example : GraphDef.generators_inverse_map ([[2,1],[0,1]].map toI) = none ∧
    inverseMapPerm [[2,1],[0,1]] = some [1, 1] := by decide

/-- source `with_inverted_generators` ∘ `create` = model `PermDef.inverted` -/
theorem with_inverted_generators_gen (d : PermDef) (hv : ∀ p ∈ d.gens, IsPermOf d.central.length p) :
    (GraphDef.with_inverted_generators (d.gens.map toI) (toI d.central)).bind rawToPermDef = d.inverted := by
  exact Cv.PyG10.with_inverted_generators_gen d hv
example : (∀ p ∈ c3.gens, IsPermOf c3.central.length p) ∧
    GraphDef.with_inverted_generators (c3.gens.map toI) (toI c3.central) =
      some ⟨[[2,0,1]], some [0,1,2], none, none⟩ ∧
    c3.inverted = some ⟨[[2,0,1]], ["2,0,1"], [0,1,2], ""⟩ := by
  refine ⟨by decide, by decide, ?_⟩
  unfold PermDef.inverted
  rw [create_eq_some_iff]
  exact ⟨[2,0,1], [], by decide, by decide, by decide, by decide, by decide, by decide,
    by congr 1 <;> decide⟩
/-- the hypothesis is needed: the source raises on an out-of-range generator, the model's `inverse` ignores the entry -/
example : (GraphDef.with_inverted_generators ([[2,0]].map toI) (toI [0,1])).bind rawToPermDef = none ∧
    PermDef.inverted ⟨[[2,0]], ["a"], [0,1], ""⟩ = some ⟨[[1,0]], ["1,0"], [0,1], ""⟩ := by
  refine ⟨by decide, ?_⟩
  unfold PermDef.inverted
  rw [create_eq_some_iff]
  exact ⟨[1,0], [], by decide, by decide, by decide, by decide, by decide, by decide,
    by congr 1 <;> decide⟩

/-- source `revert_path` = model `revertPath` (`none` = AssertionError when the map is `None`, IndexError when a path entry
is `≥ len`) -/
theorem revert_path_gen (idx : Option (List Nat)) (path : List Nat) :
    GraphDef.revert_path (idx.map toI) (toI path) = (revertPath idx path).map toI := by
  exact Cv.PyG10.revert_path_gen idx path
example : GraphDef.revert_path ((some [1, 0, 2]).map toI) (toI [0, 0, 2, 1]) = some [0, 2, 1, 1] ∧
    revertPath (some [1, 0, 2]) [0, 0, 2, 1] = some [0, 2, 1, 1] ∧
    GraphDef.revert_path ((some [1, 0, 2]).map toI) (toI [0, 3]) = none ∧
    GraphDef.revert_path ((none : Option (List Nat)).map toI) (toI [0]) = none := by decide

/-- source `make_inverse_closed` ∘ `create` = model `PermDef.makeInverseClosed`, for every `d` that `create` returns.
(When `d` is already inverse closed the source returns `self`; re-validating its fields gives `d` back exactly when `d` is a value
`create` accepts — hypothesis `hd`.) -/
theorem make_inverse_closed_gen (d : PermDef)
    (hd : PermDef.create d.gens (some d.names) (some d.central) d.name = some d) :
    (GraphDef.make_inverse_closed (d.gens.map toI) d.names (toI d.central) d.name d.inverseClosed).bind rawToPermDef =
      d.makeInverseClosed := by
  exact Cv.PyG10.make_inverse_closed_gen d hd
/-- not inverse closed: the missing inverse is appended, named `name'`, graph name gets `-ic` -/
example : PermDef.create c3.gens (some c3.names) (some c3.central) c3.name = some c3 ∧ c3.inverseClosed = false ∧
    GraphDef.make_inverse_closed (c3.gens.map toI) c3.names (toI c3.central) c3.name c3.inverseClosed =
      some ⟨[[1,2,0],[2,0,1]], some [0,1,2], some ["1,2,0","1,2,0'"], some "c3-ic"⟩ ∧
    c3.makeInverseClosed = some c3ic :=
  ⟨c3_created, by decide, by decide, c3_makeIC⟩
/-- inverse closed: `self` -/
example : PermDef.create lrx4.gens (some lrx4.names) (some lrx4.central) lrx4.name = some lrx4 ∧
    lrx4.inverseClosed = true ∧
    GraphDef.make_inverse_closed (lrx4.gens.map toI) lrx4.names (toI lrx4.central) lrx4.name lrx4.inverseClosed =
      some ⟨lrx4.gens.map toI, some (toI lrx4.central), some lrx4.names, some lrx4.name⟩ :=
  ⟨lrx4_created, by decide, by decide⟩
/-- the hypothesis is needed: a `PermDef` VALUE that `create` rejects (central state `[5]` for `n = 1`) and is inverse closed is
returned unchanged by the model, while re-validating the source's `self` fails -/
example : Cv.PyG10.badDef.inverseClosed = true ∧
    (GraphDef.make_inverse_closed (Cv.PyG10.badDef.gens.map toI) Cv.PyG10.badDef.names (toI Cv.PyG10.badDef.central)
      Cv.PyG10.badDef.name Cv.PyG10.badDef.inverseClosed).bind rawToPermDef = none ∧
    Cv.PyG10.badDef.makeInverseClosed = some Cv.PyG10.badDef :=
  Cv.PyG10.badDef_counterexample

/-- (stronger forms, per branch) inverse closed: the source's `self` re-validated is `create` on the fields of `d`; not inverse
closed: in-range generators and one name per generator are enough -/
theorem make_inverse_closed_gen_closed (d : PermDef) (hic : d.inverseClosed = true) :
    (GraphDef.make_inverse_closed (d.gens.map toI) d.names (toI d.central) d.name d.inverseClosed).bind rawToPermDef =
      PermDef.create d.gens (some d.names) (some d.central) d.name := by
  exact Cv.PyG10.make_inverse_closed_gen_closed d hic
example : lrx4.inverseClosed = true := by decide
theorem make_inverse_closed_gen_open (d : PermDef) (hic : d.inverseClosed = false)
    (hv : ∀ p ∈ d.gens, ∀ i ∈ p, i < p.length) (hn : d.names.length = d.gens.length) :
    (GraphDef.make_inverse_closed (d.gens.map toI) d.names (toI d.central) d.name d.inverseClosed).bind rawToPermDef =
      d.makeInverseClosed := by
  exact Cv.PyG10.make_inverse_closed_gen_open d hic hv hn
example : c3.inverseClosed = false ∧ (∀ p ∈ c3.gens, ∀ i ∈ p, i < p.length) ∧ c3.names.length = c3.gens.length := by
  decide

/-- (additional) the raw arguments the source hands to `create` in the not-inverse-closed branch -/
theorem make_inverse_closed_gen_raw (d : PermDef) (hv : ∀ p ∈ d.gens, ∀ i ∈ p, i < p.length)
    (hn : d.names.length = d.gens.length) :
    GraphDef.make_inverse_closed (d.gens.map toI) d.names (toI d.central) d.name false =
      some (RawDef.mk ((d.gens ++ (icExtra d).map (·.1)).map toI) (some (toI d.central))
        (some (d.names ++ (icExtra d).map (·.2))) (some (if d.name != "" then d.name ++ "-ic" else d.name))) := by
  exact Cv.PyG10.make_inverse_closed_raw d hv hn
example : (∀ p ∈ c3.gens, ∀ i ∈ p, i < p.length) ∧ c3.names.length = c3.gens.length ∧
    icExtra c3 = [([2,0,1], "1,2,0'")] := by decide

/-! ### transfer of the C10 properties to the source-translated methods -/

/-- the source's inverse map, when it is a list, is correct -/
theorem generators_inverse_map_source_spec (n : Nat) (ps : List (List Nat)) (hps : ∀ p ∈ ps, IsPermOf n p)
    (idx : List Int) (h : GraphDef.generators_inverse_map (ps.map toI) = some (some idx)) :
    ∃ m : List Nat, idx = toI m ∧ m.length = ps.length ∧ ∀ i, i < ps.length →
      ∃ j, m[i]? = some j ∧ j < ps.length ∧ ps.getD j [] = inverse (ps.getD i []) ∧
           compose (ps.getD i []) (ps.getD j []) = identity n ∧
           compose (ps.getD j []) (ps.getD i []) = identity n := by
  exact Cv.PyG10.generators_inverse_map_source_spec n ps hps idx h
example : (∀ p ∈ lrx4.gens, IsPermOf 4 p) ∧
    GraphDef.generators_inverse_map (lrx4.gens.map toI) = some (some [1, 0, 2]) := by decide

/-- the source returns `None` exactly when some generator's inverse is missing; it never raises on valid generators -/
theorem generators_inverse_map_source_none (n : Nat) (ps : List (List Nat)) (hps : ∀ p ∈ ps, IsPermOf n p) :
    GraphDef.generators_inverse_map (ps.map toI) = some none ↔ ¬ ∀ p ∈ ps, inverse p ∈ ps := by
  exact Cv.PyG10.generators_inverse_map_source_none n ps hps
example : (∀ p ∈ c3.gens, IsPermOf 3 p) ∧ GraphDef.generators_inverse_map (c3.gens.map toI) = some none := by decide
theorem generators_inverse_map_source_total (n : Nat) (ps : List (List Nat)) (hps : ∀ p ∈ ps, IsPermOf n p) :
    (GraphDef.generators_inverse_map (ps.map toI)).isSome = true := by
  exact Cv.PyG10.generators_inverse_map_source_total n ps hps
example : ∀ p ∈ lrx4.gens, IsPermOf 4 p := by decide

theorem with_inverted_generators_source_spec (d d' : PermDef) (hv : ∀ p ∈ d.gens, IsPermOf d.central.length p)
    (h : (GraphDef.with_inverted_generators (d.gens.map toI) (toI d.central)).bind rawToPermDef = some d') :
    d'.central = d.central ∧ d'.gens = d.gens.map inverse := by
  exact Cv.PyG10.with_inverted_generators_source_spec d d' hv h
example : (∀ p ∈ c3.gens, IsPermOf c3.central.length p) ∧
    (GraphDef.with_inverted_generators (c3.gens.map toI) (toI c3.central)).bind rawToPermDef =
      some ⟨[[2,0,1]], ["2,0,1"], [0,1,2], ""⟩ := by
  refine ⟨by decide, ?_⟩
  rw [with_inverted_generators_gen c3 (by decide)]
  unfold PermDef.inverted
  rw [create_eq_some_iff]
  exact ⟨[2,0,1], [], by decide, by decide, by decide, by decide, by decide, by decide,
    by congr 1 <;> decide⟩

theorem with_inverted_generators_source_succeeds (d : PermDef)
    (hd : PermDef.create d.gens (some d.names) (some d.central) d.name = some d) :
    ((GraphDef.with_inverted_generators (d.gens.map toI) (toI d.central)).bind rawToPermDef).isSome = true := by
  exact Cv.PyG10.with_inverted_generators_source_succeeds d hd
example : PermDef.create lrx4.gens (some lrx4.names) (some lrx4.central) lrx4.name = some lrx4 := lrx4_created

/-- the result of the source's `make_inverse_closed` ∘ `create` is inverse closed -/
theorem make_inverse_closed_source_closed (d d' : PermDef)
    (hd : PermDef.create d.gens (some d.names) (some d.central) d.name = some d)
    (h : (GraphDef.make_inverse_closed (d.gens.map toI) d.names (toI d.central) d.name d.inverseClosed).bind
      rawToPermDef = some d') : d'.inverseClosed = true := by
  exact Cv.PyG10.make_inverse_closed_source_closed d d' hd h
example : PermDef.create c3.gens (some c3.names) (some c3.central) c3.name = some c3 ∧
    (GraphDef.make_inverse_closed (c3.gens.map toI) c3.names (toI c3.central) c3.name c3.inverseClosed).bind
      rawToPermDef = some c3ic ∧ c3.inverseClosed = false ∧ c3ic.inverseClosed = true :=
  ⟨c3_created, by rw [make_inverse_closed_gen c3 c3_created]; exact c3_makeIC, by decide, by decide⟩

theorem make_inverse_closed_source_succeeds (d : PermDef)
    (hd : PermDef.create d.gens (some d.names) (some d.central) d.name = some d) :
    ((GraphDef.make_inverse_closed (d.gens.map toI) d.names (toI d.central) d.name d.inverseClosed).bind
      rawToPermDef).isSome = true := by
  exact Cv.PyG10.make_inverse_closed_source_succeeds d hd
example : PermDef.create c3.gens (some c3.names) (some c3.central) c3.name = some c3 := c3_created

theorem make_inverse_closed_source_prefix (d d' : PermDef)
    (hd : PermDef.create d.gens (some d.names) (some d.central) d.name = some d)
    (h : (GraphDef.make_inverse_closed (d.gens.map toI) d.names (toI d.central) d.name d.inverseClosed).bind
      rawToPermDef = some d') :
    d'.central = d.central ∧ d.gens <+: d'.gens ∧ d.names <+: d'.names ∧
    (∀ q, q ∈ d'.gens ↔ q ∈ d.gens ∨ (∃ p ∈ d.gens, q = inverse p ∧ inverse p ∉ d.gens)) := by
  exact Cv.PyG10.make_inverse_closed_source_prefix d d' hd h
example : PermDef.create c3.gens (some c3.names) (some c3.central) c3.name = some c3 ∧
    (GraphDef.make_inverse_closed (c3.gens.map toI) c3.names (toI c3.central) c3.name c3.inverseClosed).bind
      rawToPermDef = some c3ic :=
  ⟨c3_created, by rw [make_inverse_closed_gen c3 c3_created]; exact c3_makeIC⟩

/-- reverting a valid path with the SOURCE's inverse map and the SOURCE's `revert_path` gives a valid path back -/
theorem revert_path_source_spec (n : Nat) (ps : List (List Nat)) (hps : ∀ p ∈ ps, IsPermOf n p)
    (idx : List Int) (path : List Nat) (rev' : List Int)
    (hm : GraphDef.generators_inverse_map (ps.map toI) = some (some idx)) (hpath : ∀ i ∈ path, i < ps.length)
    (hr : GraphDef.revert_path (some idx) (toI path) = some rev') (A : List Nat) (hA : A.length = n) :
    ∃ rev : List Nat, rev' = toI rev ∧ rev.length = path.length ∧
    Cv.applyPath (fun i s => apply (ps.getD i []) s)
      (Cv.applyPath (fun i s => apply (ps.getD i []) s) A path) rev = A := by
  exact Cv.PyG10.revert_path_source_spec n ps hps idx path rev' hm hpath hr A hA
example : (∀ p ∈ lrx4.gens, IsPermOf 4 p) ∧
    GraphDef.generators_inverse_map (lrx4.gens.map toI) = some (some [1, 0, 2]) ∧
    (∀ i ∈ [0, 0, 2, 1], i < lrx4.gens.length) ∧
    GraphDef.revert_path (some [1, 0, 2]) (toI [0, 0, 2, 1]) = some [0, 2, 1, 1] ∧
    Cv.applyPath (fun i s => apply (lrx4.gens.getD i []) s) [7, 8, 9, 10] [0, 0, 2, 1] = [8, 10, 9, 7] ∧
    Cv.applyPath (fun i s => apply (lrx4.gens.getD i []) s) [8, 10, 9, 7] [0, 2, 1, 1] = [7, 8, 9, 10] := by
  decide

end Cv.C10g
