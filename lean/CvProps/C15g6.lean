/-
  C15g6 — the `PermutationGroups` constructors that iterate over `itertools.permutations` / `combinations`,
  REGENERATED from the Python source (`CvGen/PyFamilies.lean`, `Cv.PyGen.Fam.*`), followed by the model of
  `CayleyGraphDef.create`, equal the closed-form specification `Cv.Families.*` for ALL parameter values.
  Proofs are in `CvProofs/PyFamG6*.lean`.  Every theorem is followed by a non-vacuity example.
-/
import CvProofs.PyFamG6Three
import CvProofs.PyFamG6Comb
import CvProofs.PyFamG6Der
namespace Cv.C15g6
open Cv.Py Cv.PyGen Cv.Families

/-- `PermutationGroups.three_cycles_0ij(n)` (the source has no assertion: for `n ≤ 2` the generator list is empty
and `create` raises, the specification is `none` there) -/
theorem three_cycles_0ij_gen (n : Nat) :
    (Fam.three_cycles_0ij (n : Int)).bind rawToPermDef = Families.threeCycles0ij n := by
  exact Cv.PyG6.three_cycles_0ij_gen n
example : (Fam.three_cycles_0ij 4).map (·.gens) =
      some [[1,2,0,3],[1,3,2,0],[2,0,1,3],[2,1,3,0],[3,0,2,1],[3,1,0,2]] ∧
    (Families.threeCycles0ij 4).isSome = true ∧
    (Fam.three_cycles_0ij 2).map (·.gens) = some [] ∧ (Fam.three_cycles_0ij 2).bind rawToPermDef = none := by decide

/-- the source of `three_cycles_0ij` asserts no lower bound: a negative `n` is not rejected by the constructor itself
(it returns `create([], …)`), the composition with `create` is `none` -/
theorem three_cycles_0ij_gen_neg_bind (n : Int) (h : n < 0) :
    (Fam.three_cycles_0ij n).bind rawToPermDef = none := by
  exact Cv.PyG6.three_cycles_0ij_gen_neg_bind n h
example : (Fam.three_cycles_0ij (-2)).map (·.gens) = some [] ∧
    (Fam.three_cycles_0ij (-2)).bind rawToPermDef = none := by decide

/-- `PermutationGroups.three_cycles(n)` -/
theorem three_cycles_gen (n : Nat) :
    (Fam.three_cycles (n : Int)).bind rawToPermDef = Families.threeCycles n := by
  exact Cv.PyG6.three_cycles_gen n
example : (Fam.three_cycles 3).map (·.gens) = some [[1,2,0],[2,0,1]] ∧
    (Fam.three_cycles 4).map (·.names) = some (some ["(0 1 2)","(0 1 3)","(0 2 1)","(0 2 3)","(0 3 1)","(0 3 2)","(1 2 3)","(1 3 2)"]) ∧
    (Families.threeCycles 4).isSome = true ∧ Fam.three_cycles 2 = none := by decide

theorem three_cycles_gen_neg (n : Int) (h : n < 0) : Fam.three_cycles n = none := by
  exact Cv.PyG6.three_cycles_gen_neg n h
example : Fam.three_cycles (-2) = none := by decide

/-- `PermutationGroups.increasing_k_cycles(n, k)` -/
theorem increasing_k_cycles_gen (n k : Nat) :
    (Fam.increasing_k_cycles (n : Int) (k : Int)).bind rawToPermDef = Families.increasingKCycles n k := by
  exact Cv.PyG6.increasing_k_cycles_gen n k
example : (Fam.increasing_k_cycles 4 3).map (·.gens) = some [[1,2,0,3],[1,3,2,0],[2,1,3,0],[0,2,3,1]] ∧
    (Fam.increasing_k_cycles 4 3).map (·.names) = some (some ["(0,1,2)","(0,1,3)","(0,2,3)","(1,2,3)"]) ∧
    (Families.increasingKCycles 4 3).isSome = true ∧ Fam.increasing_k_cycles 3 4 = none ∧
    Fam.increasing_k_cycles 3 0 = none := by decide

theorem increasing_k_cycles_gen_neg (n k : Int) (h : n < 0 ∨ k < 0) :
    Fam.increasing_k_cycles n k = none := by
  exact Cv.PyG6.increasing_k_cycles_gen_neg n k h
example : Fam.increasing_k_cycles (-3) 2 = none ∧ Fam.increasing_k_cycles 3 (-1) = none := by decide

/-- `PermutationGroups.derangements(n)` -/
theorem derangements_gen (n : Nat) :
    (Fam.derangements (n : Int)).bind rawToPermDef = Families.derangements n := by
  exact Cv.PyG6.derangements_gen n
example : (Fam.derangements 3).map (·.gens) = some [[1,2,0],[2,0,1]] ∧
    (Fam.derangements 3).map (·.names) = some (some ["D3","D4"]) ∧
    (Families.derangements 3).isSome = true ∧ Fam.derangements 1 = none := by decide

theorem derangements_gen_neg (n : Int) (h : n < 0) : Fam.derangements n = none := by
  exact Cv.PyG6.derangements_gen_neg n h
example : Fam.derangements (-1) = none := by decide

/-! ### the itertools primitives of the prelude against the index lists of the specification -/

/-- `itertools.permutations(range(1, n), 2)` = `pairsNe1 n` -/
theorem permutations2_pairsNe1 (n : Nat) :
    pyPermutationsR (pyRange 1 (n : Int) 1) 2 = (pairsNe1 n).map fun x => [(x.1 : Int), (x.2 : Int)] := by
  exact Cv.PyG6.perms2_range n
example : pyPermutationsR (pyRange 1 4 1) 2 = [[1,2],[1,3],[2,1],[2,3],[3,1],[3,2]] := by decide

/-- `[(a,b,c) for a,b,c in itertools.permutations(range(n), 3) if a < b and a < c]` = `triplesMinFirst n` -/
theorem permutations3_triplesMinFirst (n : Nat) :
    (pyPermutationsR (pyRange 0 (n : Int) 1) 3).filter
        (fun t => decide (t.getD 0 0 < t.getD 1 0) && decide (t.getD 0 0 < t.getD 2 0)) =
      (triplesMinFirst n).map fun x => [(x.1 : Int), (x.2.1 : Int), (x.2.2 : Int)] := by
  exact Cv.PyG6.perms3_filter_gen n
example : (pyPermutationsR (pyRange 0 3 1) 3).length = 6 ∧ triplesMinFirst 3 = [(0,1,2),(0,2,1)] := by decide

/-- `itertools.combinations(range(n), k)` = `Cv.Perm.combinations (range n) k` -/
theorem combinations_range (n k : Nat) :
    pyCombinations (pyRange 0 (n : Int) 1) (k : Int) = (Cv.Perm.combinations (List.range n) k).map toI := by
  exact Cv.PyG6.pyCombinations_range n k
example : pyCombinations (pyRange 0 4 1) 2 = [[0,1],[0,2],[0,3],[1,2],[1,3],[2,3]] := by decide

/-- `itertools.permutations(range(n))` = `allPerms n` -/
theorem permutations_allPerms (n : Nat) :
    pyPermutations (pyRange 0 (n : Int) 1) = (allPerms n).map toI := by
  exact Cv.PyG6.pyPermutations_range n
example : pyPermutations (pyRange 0 3 1) = [[0,1,2],[0,2,1],[1,0,2],[1,2,0],[2,0,1],[2,1,0]] := by decide

end Cv.C15g6
