/-
  C04m — end to end: `find_path_to` / `find_path_from` / `revert_path` on the library's MATRIX graph, in terms of the
  MATHEMATICAL graph `matNb gens n k` (exact product, reduced modulo `m`) and action `matGenAct gens n k`
  (`matGenAct gens n k i S = matApply gens[i] n k S`, by definition).
  Property theorems only.  Proofs:
    `CvProofs/Restrict.lean`               the abstract path theorems under hypotheses restricted to a closed set `P`;
    `CvProofs/InstanceMatSymm.lean`        associativity / unit law of the list-level product, residues (A16);
    `CvProofs/InstanceMatPaths.lean`       the matrix pair satisfies them on `P`, conclusions in mathematical terms;
    `CvProofs/InstanceMatPathsExample.lean` Heisenberg group modulo 3: the model evaluated in the kernel.

  `g  = matGraph gens n k hash ic batch`    generator `i` = `MatrixGenerator.apply_batch_torch` of `gens[i]`
  `gi = matGraph invs n k hash ic batch'`   `with_inverted_generators`: `invs[i]` inverse of `gens[i]` modulo `m`, same
                                            order, same hasher, same flag (any batch size)
  `P  = MatValid n k m`                     flattened `n×k` states with entries in `[0, m)`

  Hypotheses: ONE positive modulo `m` for all generators of both lists (`hm : m ≠ 0`; the task's `m ≥ 2` is not needed),
  `hinv`: for every `i`, `invs[i] · gens[i] ≡ I` (as in the task) OR `gens[i] · invs[i] ≡ I` (what
  `MatrixGenerator.inv` asserts, `mat_inv_sound`) modulo `m` (`MatInvOf`) — ONE product suffices: on the finite set `P`
  the other side follows by the pigeonhole principle (`CvProofs/InstanceMatFinite.lean`).  NO bound on the entries of the
  generators (they are reduced on entry, `matGraph_act_eq_any`).  The hash is injective on `P` (`hinj`).
  Section 4 relates `MatInvOf`, `MatInvMap`, `MatInvClosed` to the library's checks (`is_inverse_to`,
  `generators_inverse_map`).
  `PathHyp g gi` itself is FALSE for this pair (unreduced states are not restored), see the `example` below; what holds is
  `PathHypOn P g gi`.  `modulo = 0` is NOT covered: `P` would have to be a set of int64 states closed under BOTH families
  with `hfit` along both, and the finiteness argument is not available; skipped.
-/
import CvProofs.InstanceMatPaths
import CvProofs.InstanceMatPathsExample
namespace Cv.C04m
open Cv Cv.InstanceMat Cv.InstanceMat.Example Cv.InstanceMat.PathsExample

/-- the definitions used in the statements, spelled out -/
example (n k m : Nat) (S : List Int) :
    MatValid n k m S ↔ (S.length = n * k ∧ ∀ e ∈ S, 0 ≤ e ∧ e < (m : Int)) := Iff.rfl
example (gens : List MatGen) (n k i : Nat) (S : List Int) :
    matGenAct gens n k i S = matApply (gens.getD i ⟨[], 0⟩) n k S := rfl
example (n m : Nat) (A B : MatGen) :
    MatInvOf n m A B ↔ (matProd n n A.matrix B.matrix).map (· % (m : Int)) = (eyeInt n).map (· % (m : Int)) := Iff.rfl
example (gens : List MatGen) (n m : Nat) :
    MatInvClosed gens n m ↔ ∀ G ∈ gens, ∃ G' ∈ gens, MatInvOf n m G' G := Iff.rfl
example (gens : List MatGen) (n m : Nat) (mp : List Nat) :
    MatInvMap gens n m mp ↔ (mp.length = gens.length ∧ ∀ i, i < gens.length →
      ∃ j, mp[i]? = some j ∧ j < gens.length ∧ MatInvOf n m (gens.getD j ⟨[], 0⟩) (gens.getD i ⟨[], 0⟩)) := Iff.rfl

/-! ## 1. the pair (matrix graph, inverted matrix graph) -/

/-- `PathHyp` on `P`: generator counts agree, the hasher is shared, `P` is closed under both generator families,
`gi.act i` undoes `g.act i` on `P` (BOTH ways: associativity of the product modulo `m` for one side, pigeonhole on the
finite set `P` for the other), no hash collisions in `P` -/
theorem mat_pathHypOn (gens invs : List MatGen) (n k m : Nat) (hm : m ≠ 0)
    (hmod : ∀ G ∈ gens, G.modulo = m) (hmodI : ∀ G ∈ invs, G.modulo = m) (hlen : invs.length = gens.length)
    (hinv : ∀ i, i < gens.length → MatInvOf n m (invs.getD i ⟨[], 0⟩) (gens.getD i ⟨[], 0⟩) ∨
      MatInvOf n m (gens.getD i ⟨[], 0⟩) (invs.getD i ⟨[], 0⟩))
    (hash : List Int → Int)
    (hinj : ∀ S T, MatValid n k m S → MatValid n k m T → hash S = hash T → S = T)
    (ic : Bool) (batch batch' : Nat) :
    PathHypOn (MatValid n k m) (matGraph gens n k hash ic batch) (matGraph invs n k hash ic batch') := by
  exact Cv.InstanceMat.mat_pathHypOn gens invs n k m ⟨hm, hmod, hmodI, hlen, hinv⟩ hash ic batch batch' hinj
-- non-vacuity: the Heisenberg generators modulo 3 and their inverses, base-3 hash
example : 3 ≠ 0 ∧ (∀ G ∈ heis3, G.modulo = 3) ∧ (∀ G ∈ heis3i, G.modulo = 3) ∧ heis3i.length = heis3.length ∧
    (∀ i, i < heis3.length → MatInvOf 3 3 (heis3i.getD i ⟨[], 0⟩) (heis3.getD i ⟨[], 0⟩) ∨
      MatInvOf 3 3 (heis3.getD i ⟨[], 0⟩) (heis3i.getD i ⟨[], 0⟩)) ∧
    (∀ S T, MatValid 3 3 3 S → MatValid 3 3 3 T → b3Hash S = b3Hash T → S = T) :=
  ⟨heis3_pair.hm, heis3_pair.modG, heis3_pair.modI, heis3_pair.len, heis3_pair.inv, b3Hash_inj_valid⟩
example : PathHypOn (MatValid 3 3 3) gH gHi :=
  mat_pathHypOn heis3 heis3i 3 3 3 heis3_pair.hm heis3_pair.modG heis3_pair.modI heis3_pair.len heis3_pair.inv b3Hash
    b3Hash_inj_valid true 2 2
/-- the unrestricted `PathHyp` FAILS for the same pair: an unreduced state is not restored (`x⁻¹ (x · 4I) = I ≠ 4I`) -/
example : ¬ PathHyp gH gHi := fun h => by
  have := (h.inv 0 (by decide) [4, 0, 0, 0, 4, 0, 0, 0, 4]).1
  revert this
  decide +kernel

/-- consequently the pair RESTRICTED to `P` satisfies the original `PathHyp` -/
theorem mat_pathHyp_restrict (gens invs : List MatGen) (n k m : Nat) (hm : m ≠ 0)
    (hmod : ∀ G ∈ gens, G.modulo = m) (hmodI : ∀ G ∈ invs, G.modulo = m) (hlen : invs.length = gens.length)
    (hinv : ∀ i, i < gens.length → MatInvOf n m (invs.getD i ⟨[], 0⟩) (gens.getD i ⟨[], 0⟩) ∨
      MatInvOf n m (gens.getD i ⟨[], 0⟩) (invs.getD i ⟨[], 0⟩))
    (hash : List Int → Int)
    (hinj : ∀ S T, MatValid n k m S → MatValid n k m T → hash S = hash T → S = T)
    (ic : Bool) (batch batch' : Nat) :
    PathHyp
      ((matGraph gens n k hash ic batch).restrict (MatValid n k m)
        (mat_pathHypOn gens invs n k m hm hmod hmodI hlen hinv hash hinj ic batch batch').closed)
      ((matGraph invs n k hash ic batch').restrict (MatValid n k m)
        (mat_pathHypOn gens invs n k m hm hmod hmodI hlen hinv hash hinj ic batch batch').closedI) := by
  exact (mat_pathHypOn gens invs n k m hm hmod hmodI hlen hinv hash hinj ic batch batch').pathHyp
example : ∃ hc hci, PathHyp (gH.restrict (MatValid 3 3 3) hc) (gHi.restrict (MatValid 3 3 3) hci) :=
  ⟨_, _, mat_pathHyp_restrict heis3 heis3i 3 3 3 heis3_pair.hm heis3_pair.modG heis3_pair.modI heis3_pair.len
    heis3_pair.inv b3Hash b3Hash_inj_valid true 2 2⟩

/-! ## 2. the ball -/

/-- the `layers_hashes` of a BFS run of the model on `g` with `return_all_hashes=True` (any other options) form a ball
around a central state of `P`.  `hic`: the flag is truthful (the generator list is closed under inverses modulo `m`). -/
theorem mat_ball (gens invs : List MatGen) (n k m : Nat) (hm : m ≠ 0)
    (hmod : ∀ G ∈ gens, G.modulo = m) (hmodI : ∀ G ∈ invs, G.modulo = m) (hlen : invs.length = gens.length)
    (hinv : ∀ i, i < gens.length → MatInvOf n m (invs.getD i ⟨[], 0⟩) (gens.getD i ⟨[], 0⟩) ∨
      MatInvOf n m (gens.getD i ⟨[], 0⟩) (invs.getD i ⟨[], 0⟩))
    (hash : List Int → Int)
    (hinj : ∀ S T, MatValid n k m S → MatValid n k m T → hash S = hash T → S = T)
    (ic : Bool) (hic : ic = true → MatInvClosed gens n m) (batch : Nat) (hb : 0 < batch)
    (c : BfsCfg (List Int)) (hr : c.returnHashes = true) (central : List Int) (hc : MatValid n k m central) :
    ∃ K, K ≤ c.maxDiameter ∧ (bfs (matGraph gens n k hash ic batch) c [central]).hashes.length = K + 1 ∧
      IsBall (matGraph gens n k hash ic batch) central (bfs (matGraph gens n k hash ic batch) c [central]).hashes := by
  exact Cv.InstanceMat.mat_ball gens invs n k m ⟨hm, hmod, hmodI, hlen, hinv⟩ hash ic batch hinj hic hb c hr central hc
example : (true = true → MatInvClosed heis3 3 3) ∧ 0 < 2 ∧ (cBall 2).returnHashes = true ∧ MatValid 3 3 3 eye3 :=
  ⟨fun _ => heis3_closed, by decide, rfl, eye3_valid⟩
example : (bfs gH (cBall 2) [eye3]).hashes =
    [[6643], [6670, 6697, 8830, 11017], [8857, 8884, 9586, 10342, 11044, 11071, 11800, 12502]] := ballH_eq
example : IsBall gH eye3 ballH := ballH_isBall

/-- what a ball of the matrix graph is in MATHEMATICAL terms: layer `i` is the strictly sorted tensor of the hashes of the
states at distance exactly `i` from the central state in `matNb gens n k` -/
theorem mat_ball_math (gens : List MatGen) (n k m : Nat) (hm : m ≠ 0) (hmod : ∀ G ∈ gens, G.modulo = m)
    (hash : List Int → Int) (ic : Bool) (batch : Nat) (central : List Int) (Hs : List (List Int))
    (hball : IsBall (matGraph gens n k hash ic batch) central Hs) :
    ∀ i H, Hs[i]? = some H → H.Pairwise (· < ·) ∧ ∃ L : List (List Int), L.Nodup ∧
      (∀ s, s ∈ L ↔ DistLayer (matNb gens n k) [central] i s) ∧ H.Perm (L.map hash) := by
  intro i H hi
  have := hball i H hi
  rw [matGraph_nb_pos gens n k m hm hmod hash ic batch] at this
  exact this
example : IsBall gH eye3 ballH ∧ ballH[1]? = some [6670, 6697, 8830, 11017] := ⟨ballH_isBall, rfl⟩

/-! ## 3. `find_path_to`, `find_path_from`, `revert_path` -/

/-- **`find_path_to`** for ANY query state `q` of `P` (inside the ball, outside it, outside the orbit): a returned path
replays with the mathematical action from the central state to `q`, is shortest, uses generator indices; `None` means
`q` is in none of the distance classes `0 … D`; the assertion is unreachable -/
theorem mat_findPathTo_spec (gens invs : List MatGen) (n k m : Nat) (hm : m ≠ 0)
    (hmod : ∀ G ∈ gens, G.modulo = m) (hmodI : ∀ G ∈ invs, G.modulo = m) (hlen : invs.length = gens.length)
    (hinv : ∀ i, i < gens.length → MatInvOf n m (invs.getD i ⟨[], 0⟩) (gens.getD i ⟨[], 0⟩) ∨
      MatInvOf n m (gens.getD i ⟨[], 0⟩) (invs.getD i ⟨[], 0⟩))
    (hash : List Int → Int)
    (hinj : ∀ S T, MatValid n k m S → MatValid n k m T → hash S = hash T → S = T)
    (ic : Bool) (batch batch' : Nat) (central : List Int) (hc : MatValid n k m central) (Hs : List (List Int))
    (hball : IsBall (matGraph gens n k hash ic batch) central Hs) (q : List Int) (hq : MatValid n k m q) :
    match findPathTo (matGraph gens n k hash ic batch) (matGraph invs n k hash ic batch') Hs q with
    | .found p => applyPath (matGenAct gens n k) central p = q ∧ DistLayer (matNb gens n k) [central] p.length q ∧
        p.length < Hs.length ∧ ∀ i ∈ p, i < gens.length
    | .notFound => ∀ i, i < Hs.length → ¬ DistLayer (matNb gens n k) [central] i q
    | .assertFail _ => False := by
  exact Cv.InstanceMat.mat_findPathTo_spec gens invs n k m ⟨hm, hmod, hmodI, hlen, hinv⟩ hash ic batch batch' hinj
    central hc Hs hball q hq
-- non-vacuity: hypotheses above; the three kinds of query state on the Heisenberg group with the ball of depth 2
example : findPathTo gH gHi ballH [1, 1, 1, 0, 1, 1, 0, 0, 1] = .found [1, 0] ∧
    applyPath (matGenAct heis3 3 3) eye3 [1, 0] = [1, 1, 1, 0, 1, 1, 0, 0, 1] := ⟨to_found, by decide +kernel⟩
example : findPathTo gH gHi ballH [1, 0, 1, 0, 1, 0, 0, 0, 1] = .notFound := to_outside     -- distance 4
example : findPathTo gH gHi ballH [2, 0, 0, 0, 1, 0, 0, 0, 1] = .notFound := to_offOrbit    -- not in the orbit
example : MatValid 3 3 3 [1, 1, 1, 0, 1, 1, 0, 0, 1] ∧ MatValid 3 3 3 [1, 0, 1, 0, 1, 0, 0, 0, 1] ∧
    MatValid 3 3 3 [2, 0, 0, 0, 1, 0, 0, 0, 1] := by decide
/-- `hq` (and with it `hinj` on a set containing the query state) is needed: an unreduced state that collides with the
central state under the base-3 hash is "found" with a path that does not lead to it -/
example : ¬ MatValid 3 3 3 [0, 0, 0, 0, 0, 0, 0, 0, 6643] ∧
    findPathTo gH gHi ballH [0, 0, 0, 0, 0, 0, 0, 0, 6643] = .found [] ∧
    applyPath (matGenAct heis3 3 3) eye3 [] ≠ [0, 0, 0, 0, 0, 0, 0, 0, 6643] := hq_needed

/-- `hinv` is needed: with `gi = g` (generators in place of their inverses) a path is "found" that does not lead to the
query state; for `x, y` alone the assertion fires -/
example : findPathTo gH gH ballH [1, 1, 1, 0, 1, 1, 0, 0, 1] = .found [3, 2] ∧
    applyPath (matGenAct heis3 3 3) eye3 [3, 2] ≠ [1, 1, 1, 0, 1, 1, 0, 0, 1] ∧
    findPathTo gD gD ballH [1, 1, 1, 0, 1, 1, 0, 0, 1] =
      .assertFail "Not found any neighbor on previous layer." := hinv_needed

/-- **`find_path_from`** (flag set; `mp` an inverse map of the generator list — the library's `generators_inverse_map`):
a returned path replays from `q` to the central state, is shortest and uses generator indices; both assertions are
unreachable -/
theorem mat_findPathFrom_spec (gens invs : List MatGen) (n k m : Nat) (hm : m ≠ 0)
    (hmod : ∀ G ∈ gens, G.modulo = m) (hmodI : ∀ G ∈ invs, G.modulo = m) (hlen : invs.length = gens.length)
    (hinv : ∀ i, i < gens.length → MatInvOf n m (invs.getD i ⟨[], 0⟩) (gens.getD i ⟨[], 0⟩) ∨
      MatInvOf n m (gens.getD i ⟨[], 0⟩) (invs.getD i ⟨[], 0⟩))
    (hash : List Int → Int)
    (hinj : ∀ S T, MatValid n k m S → MatValid n k m T → hash S = hash T → S = T)
    (ic : Bool) (hic : ic = true) (mp : List Nat) (hmp : MatInvMap gens n m mp) (batch batch' : Nat)
    (central : List Int) (hc : MatValid n k m central) (Hs : List (List Int))
    (hball : IsBall (matGraph gens n k hash ic batch) central Hs) (q : List Int) (hq : MatValid n k m q) :
    match findPathFrom (matGraph gens n k hash ic batch) (matGraph invs n k hash ic batch') (some mp) Hs q with
    | .found p => applyPath (matGenAct gens n k) q p = central ∧ DistLayer (matNb gens n k) [central] p.length q ∧
        p.length < Hs.length ∧ ∀ i ∈ p, i < gens.length
    | .notFound => ∀ i, i < Hs.length → ¬ DistLayer (matNb gens n k) [central] i q
    | .assertFail _ => False := by
  exact Cv.InstanceMat.mat_findPathFrom_spec gens invs n k m ⟨hm, hmod, hmodI, hlen, hinv⟩ hash ic batch batch' hinj
    hic mp hmp central hc Hs hball q hq
example : MatInvMap heis3 3 3 heis3Map ∧ heis3Map = [2, 3, 0, 1] := ⟨heis3_invMap, rfl⟩
example : findPathFrom gH gHi (some heis3Map) ballH [1, 1, 1, 0, 1, 1, 0, 0, 1] = .found [2, 3] ∧
    applyPath (matGenAct heis3 3 3) [1, 1, 1, 0, 1, 1, 0, 0, 1] [2, 3] = eye3 := ⟨from_found, by decide +kernel⟩
example : findPathFrom gH gHi (some heis3Map) ballH [1, 0, 1, 0, 1, 0, 0, 0, 1] = .notFound := from_outside
/-- the flag / the map are needed: for `x, y` alone (not inverse-closed, no map) the first assertion fires -/
example : findPathFrom gD gDi none [[6643]] eye3 = .assertFail "generators_inverse_closed" := by decide +kernel

/-- **`revert_path`** with an inverse map of the generator list: reverting a valid path `A → B` gives a valid path
`B → A` of the same length (states in `P`) -/
theorem mat_revertPath_spec (gens : List MatGen) (n k m : Nat) (hm : m ≠ 0) (hmod : ∀ G ∈ gens, G.modulo = m)
    (mp : List Nat) (hmp : MatInvMap gens n m mp) (p : List Nat) (hv : ∀ i ∈ p, i < gens.length)
    (A : List Int) (hA : MatValid n k m A) :
    ∃ r, revertPathM (some mp) p = some r ∧ r.length = p.length ∧ (∀ i ∈ r, i < gens.length) ∧
      applyPath (matGenAct gens n k) (applyPath (matGenAct gens n k) A p) r = A := by
  exact Cv.InstanceMat.mat_revertPath_gens gens n k m hm hmod mp hmp p hv A hA
example : (∀ i ∈ [1, 0], i < heis3.length) ∧ revertPathM (some heis3Map) [1, 0] = some [2, 3] ∧
    applyPath (matGenAct heis3 3 3) eye3 [1, 0] = [1, 1, 1, 0, 1, 1, 0, 0, 1] ∧
    applyPath (matGenAct heis3 3 3) [1, 1, 1, 0, 1, 1, 0, 0, 1] [2, 3] = eye3 :=
  ⟨by decide, revert_ex, by decide +kernel, by decide +kernel⟩

/-! ## 4. the hypotheses are what the library checks -/

/-- `MatInvOf` is the library's product check `A.apply(B.matrix) == eye(n)` on the stored (reduced) matrices -/
theorem matInvOf_iff_apply (n m : Nat) (hm : 2 ≤ m) (A B : MatGen) :
    MatInvOf n m A B ↔ Cv.Matrix.apply m n n (redMatrix m A) (redMatrix m B) = Cv.Matrix.eye n := by
  exact Cv.InstanceMat.matInvOf_iff_apply n m hm A B
example : MatInvOf 3 3 hx' hx ∧ Cv.Matrix.apply 3 3 3 (redMatrix 3 hx') (redMatrix 3 hx) = Cv.Matrix.eye 3 := by
  decide +kernel
example (m : Nat) (A : MatGen) : redMatrix m A = A.matrix.map (Cv.Matrix.ofInt m) := rfl

/-- `MatrixGenerator.is_inverse_to` (`Cv.Matrix.isInverse`) is the two-sided condition -/
theorem mat_isInverse_iff (n m : Nat) (hm : 2 ≤ m) (A B : MatGen) :
    Cv.Matrix.isInverse m n (redMatrix m A) (redMatrix m B) = true ↔ MatInvOf n m A B ∧ MatInvOf n m B A := by
  exact Cv.InstanceMat.isInverse_iff n m hm A B
example : Cv.Matrix.isInverse 3 3 (redMatrix 3 hx') (redMatrix 3 hx) = true := by decide +kernel

/-- `MatrixGenerator.inv` (`Cv.Matrix.inv`, the candidate is the rounded floating point inverse): when it succeeds, the
returned matrix is a RIGHT inverse modulo `m` — the second alternative of `hinv` -/
theorem mat_inv_sound (n m : Nat) (hm : 2 ≤ m) (A B : MatGen) (cand : List Nat)
    (h : Cv.Matrix.inv m n (redMatrix m A) cand = some (redMatrix m B)) : MatInvOf n m A B := by
  exact (Cv.InstanceMat.matInvOf_iff_apply n m hm A B).2 (Cv.GraphDef.Matrix.inv_sound m n _ cand _ h)
example : Cv.Matrix.inv 3 3 (redMatrix 3 hx) (redMatrix 3 hx') = some (redMatrix 3 hx') := by decide +kernel

/-- `generators_inverse_map` (`Cv.GraphDef.inverseMapMat` on the stored matrices): whatever it returns is an inverse map
of the generator list in the sense of `MatInvMap`, and then the generator list is closed under inverses -/
theorem mat_inverseMap_spec (gens : List MatGen) (n m : Nat) (hm : 2 ≤ m) (mp : List Nat)
    (h : Cv.GraphDef.inverseMapMat m n (gens.map (redMatrix m)) = some mp) :
    MatInvMap gens n m mp ∧ MatInvClosed gens n m := by
  exact ⟨inverseMapMat_spec gens n m hm mp h, inverseMapMat_closed gens n m hm mp h⟩
example : Cv.GraphDef.inverseMapMat 3 3 (heis3.map (redMatrix 3)) = some heis3Map ∧
    Cv.GraphDef.inverseMapMat 3 3 ([hx, hy].map (redMatrix 3)) = none := by decide +kernel

end Cv.C04m
