/-
  C08 — explicit graph export (`BfsResult.all_states`, `edges_list`, `adjacency_matrix`, `get_edge_name`).
  Property theorems only; proofs in `CvProofs/Export.lean`, evaluation of the 4-cycle in `CvProofs/ExportExample.lean`.

  MODEL OBSERVATION.  `export_complete` and `export_partial` are FALSE as literally stated in the task: with
  `max_layer_size_to_store = None` the code (and the model, `BfsCfg.storeLimit`) still uses the limit `10**15`, so a layer
  with more than `10^15` states is not stored and `all_states` fails (`allStates = none`).  The exact extra condition is
  "every layer that is not kept unconditionally has at most `10^15` states" (layer 0 is always kept; the last layer of
  a COMPLETED run is always kept).  Both theorems are proved with this hypothesis (`hsmall`).
  * `export_needs_store` proves that the hypothesis is necessary (for every graph and every store limit);
  * the last `example` of this file exhibits a concrete graph (`exBig`, a layer of `10^15 + 1` states, analysed without
    evaluation) on which all the other hypotheses hold and `allStates = none`;
  * an evaluated counterexample with a small limit (`max_layer_size_to_store = 1` on the 4-cycle) is given as well;
  * the general versions `export_complete_stored` / `export_partial_stored` of `CvProofs/Export.lean` work for any store
    limit under the hypothesis "every layer was stored".
-/
import CvProofs.Export
import CvProofs.ExportExample
namespace Cv
variable {α : Type} [DecidableEq α]

/-- `get_edge_name` returns a generator that maps `s1` to `s2`, and finds one whenever there is one -/
theorem edgeGen_spec (g : Graph α) (s1 s2 : α) :
    (∀ i, edgeGen g s1 s2 = some i → i < g.nGens ∧ g.act i s1 = s2) ∧
    ((∃ i, i < g.nGens ∧ g.act i s1 = s2) → (edgeGen g s1 s2).isSome = true) := by
  exact edgeGen_spec' g s1 s2

/-- non-vacuity: three generators on `Nat`; the edge `5 → 7` is made by generators 1 and 2, the first is returned;
there is no edge `5 → 9` -/
example : edgeGen ⟨3, fun i x => x + i + 1, fun x => x, false, 1⟩ 5 7 = some 1 := by decide
example : edgeGen ⟨3, fun i x => if i = 0 then x + 1 else x + 2, fun x => x, false, 1⟩ 5 7 = some 1 := by decide
example : edgeGen ⟨3, fun i x => x + i + 1, fun x => x, false, 1⟩ 5 9 = none := by decide

/-- symmetric adjacency exactly when every edge has a reverse edge -/
theorem adjacency_symm_iff (E : List (Nat × Nat)) :
    (∀ i j, adjacency E i j = adjacency E j i) ↔ ∀ e ∈ E, (e.2, e.1) ∈ E := by
  exact adjacency_symm_iff' E

/-- non-vacuity: a symmetric and a non-symmetric edge list -/
example : ∀ e ∈ [(0, 1), (1, 0), (2, 2)], (e.2, e.1) ∈ [(0, 1), (1, 0), (2, 2)] := by decide
example : ¬ ∀ e ∈ [(0, 1), (1, 2)], (e.2, e.1) ∈ [(0, 1), (1, 2)] := by decide
example : adjacency [(0, 1), (1, 2)] 0 1 = true ∧ adjacency [(0, 1), (1, 2)] 1 0 = false := by decide

omit [DecidableEq α] in
theorem storeLimit_none (c : BfsCfg α) (hs : c.maxStore = none) : c.storeLimit = 10^15 := by
  simp [BfsCfg.storeLimit, hs]

/-- completed BFS asked for everything: vertices = orbit, numbering follows the layer hashes, edge list = all (v, g v).
`hsmall` (layers `1 … length-2` have at most `10^15` states) is the extra hypothesis discussed in the header. -/
theorem export_complete (g : Graph α) (S : List α) (h : BfsHyp g S) (c : BfsCfg α)
    (he : c.returnEdges = true) (hh : c.returnHashes = true) (hs : c.maxStore = none)
    (hcomp : (bfs g c S).completed = true)
    (hsmall : ∀ i n, 0 < i → i + 1 < (bfs g c S).layerSizes.length → (bfs g c S).layerSizes[i]? = some n →
      n ≤ 10^15) :
    ∃ V E, allStates (bfs g c S) = some V ∧ edgesList (bfs g c S) = some E ∧
      V.Nodup ∧ (∀ x, x ∈ V ↔ InOrbit g.nb S x) ∧
      (bfs g c S).hashes.flatten = V.map g.hash ∧
      E.Perm (V.flatMap fun v => (List.range g.nGens).map fun i => (V.idxOf v, V.idxOf (g.act i v))) ∧
      (∀ i j, adjacency E i j = true ↔ ∃ v k, V[i]? = some v ∧ k < g.nGens ∧ V[j]? = some (g.act k v)) := by
  exact export_complete_stored g S h c he hh
    (stored_all_complete g S h c hcomp (by rw [storeLimit_none c hs]; exact hsmall)) hcomp

open BfsExample ExportExample in
/-- non-vacuity: all hypotheses hold for the completed run on the 4-cycle; its vertex list and edge list -/
example : BfsHyp exG [0] ∧ cE.returnEdges = true ∧ cE.returnHashes = true ∧ cE.maxStore = none ∧
    (bfs exG cE [0]).completed = true ∧
    (∀ i n, 0 < i → i + 1 < (bfs exG cE [0]).layerSizes.length → (bfs exG cE [0]).layerSizes[i]? = some n →
      n ≤ 10^15) ∧
    allStates (bfs exG cE [0]) = some [0, 1, 3, 2] ∧
    edgesList (bfs exG cE [0]) = some [(0, 1), (0, 2), (1, 3), (2, 0), (1, 0), (2, 3), (3, 2), (3, 1)] := by
  refine ⟨exG_hyp [0], rfl, rfl, rfl, E_completed, ?_, E_allStates, E_edgesList⟩
  rw [E_sizes]
  intro i n hi hlt hn
  have : i = 1 := by simp at hlt; omega
  subst this
  simp at hn; omega

/-- early-stopped BFS (at least one expansion step): every out-edge of every vertex of a non-final layer is present and
every other entry is the reversal of an out-edge of the last expanded layer.
`hsmall` (layers `1 … length-1` have at most `10^15` states) is the extra hypothesis discussed in the header. -/
theorem export_partial (g : Graph α) (S : List α) (h : BfsHyp g S) (c : BfsCfg α)
    (he : c.returnEdges = true) (hh : c.returnHashes = true) (hs : c.maxStore = none)
    (hcomp : (bfs g c S).completed = false) (hstep : 2 ≤ (bfs g c S).layerSizes.length)
    (hsmall : ∀ i n, 0 < i → (bfs g c S).layerSizes[i]? = some n → n ≤ 10^15) :
    ∃ V E, allStates (bfs g c S) = some V ∧ edgesList (bfs g c S) = some E ∧ V.Nodup ∧
      (∀ x, x ∈ V ↔ ∃ j, j < (bfs g c S).layerSizes.length ∧ DistLayer g.nb S j x) ∧
      (∀ v k j, j + 1 < (bfs g c S).layerSizes.length → DistLayer g.nb S j v → k < g.nGens →
          (V.idxOf v, V.idxOf (g.act k v)) ∈ E) ∧
      (∀ e ∈ E, (∃ v k j, j + 1 < (bfs g c S).layerSizes.length ∧ DistLayer g.nb S j v ∧ k < g.nGens ∧
                    e = (V.idxOf v, V.idxOf (g.act k v))) ∨
                (∃ v k, DistLayer g.nb S ((bfs g c S).layerSizes.length - 2) v ∧ k < g.nGens ∧
                    e = (V.idxOf (g.act k v), V.idxOf v))) := by
  obtain ⟨V, E, h1, h2, h3, h4, -, h6, h7⟩ := export_partial_stored g S h c he hh
    (stored_all_partial g S h c (by rw [storeLimit_none c hs]; exact hsmall)) hcomp hstep
  exact ⟨V, E, h1, h2, h3, h4, h6, h7⟩

open BfsExample ExportExample in
/-- non-vacuity: all hypotheses hold for the run on the 4-cycle interrupted after two expansion steps; the edge list has
the 6 out-edges of layers 0 and 1 followed by the 4 reversed out-edges of layer 1 -/
example : BfsHyp exG [0] ∧ cP.returnEdges = true ∧ cP.returnHashes = true ∧ cP.maxStore = none ∧
    (bfs exG cP [0]).completed = false ∧ 2 ≤ (bfs exG cP [0]).layerSizes.length ∧
    (∀ i n, 0 < i → (bfs exG cP [0]).layerSizes[i]? = some n → n ≤ 10^15) ∧
    allStates (bfs exG cP [0]) = some [0, 1, 3, 2] ∧
    edgesList (bfs exG cP [0]) =
      some [(0, 1), (0, 2), (1, 3), (2, 0), (1, 0), (2, 3), (3, 1), (0, 2), (0, 1), (3, 2)] := by
  refine ⟨exG_hyp [0], rfl, rfl, rfl, P_completed, by rw [P_sizes]; decide, ?_, P_allStates, P_edgesList⟩
  rw [P_sizes]
  intro i n hi hn
  have hlt : i < 3 := by
    have := (List.getElem?_eq_some_iff.1 hn).1
    simpa using this
  have : i = 1 ∨ i = 2 := by omega
  rcases this with rfl | rfl <;> simp at hn <;> omega

omit [DecidableEq α] in
/-- the size hypothesis is necessary (any graph, any store limit): if a layer other than layer 0 — and other than the
last layer of a completed run — exceeds the store limit, `all_states` fails -/
theorem export_needs_store (g : Graph α) (S : List α) (h : BfsHyp g S) (c : BfsCfg α) (i n : Nat)
    (hi : 0 < i) (hn : (bfs g c S).layerSizes[i]? = some n) (hbig : c.storeLimit < n)
    (hlast : (bfs g c S).completed = true → i + 1 < (bfs g c S).layerSizes.length) :
    allStates (bfs g c S) = none := by
  exact allStates_none_of_big g S h c i n hi hn hbig hlast

/-- `max_layer_size_to_store = None` means the limit `10^15`, not "no limit" -/
example : ({ maxStore := none } : BfsCfg Nat).storeLimit = 10^15 := rfl

open BfsExample ExportExample in
/-- non-vacuity / counterexample with a small limit: on the 4-cycle with `max_layer_size_to_store = 1` the run completes,
edges and hashes are recorded, but layer 1 (two states) is dropped and `all_states` fails -/
example : cS.returnEdges = true ∧ cS.returnHashes = true ∧ (bfs exG cS [0]).completed = true ∧
    (bfs exG cS [0]).layerSizes[1]? = some 2 ∧ cS.storeLimit < 2 ∧ allStates (bfs exG cS [0]) = none := by
  refine ⟨rfl, rfl, S_completed, by rw [S_sizes]; rfl, by decide, S_allStates⟩

open ExportExample in
/-- the statements WITHOUT `hsmall` are false.  `exBig` (`CvProofs/ExportExample.lean`) is the graph
`0 → {1, …, 10^15+1} → 10^15+2` on `Nat`; all the hypotheses of the task's `export_complete` / `export_partial` other than
the value of `completed` hold (`BfsHyp`, edges, hashes, `maxStore = none`, at least one expansion step), and whichever
value `completed` has, the conclusion `∃ V E, allStates … = some V ∧ …` fails because `allStates … = none`.
(Proved through the BFS theorems, nothing is evaluated.) -/
example : ∃ (g : Graph Nat) (c : BfsCfg Nat), BfsHyp g [0] ∧ c.returnEdges = true ∧ c.returnHashes = true ∧
    c.maxStore = none ∧ 2 ≤ (bfs g c [0]).layerSizes.length ∧ allStates (bfs g c [0]) = none :=
  ⟨exBig, cE, exBig_hyp, rfl, rfl, rfl, big_allStates_none.1, big_allStates_none.2⟩

end Cv
