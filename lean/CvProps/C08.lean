/-
  C08 — explicit graph export.  Property theorems only (filled in as proofs land).
-/
import CvModel.Export
