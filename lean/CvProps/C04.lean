/-
  C04 — paths restored from a BFS result.  Property theorems only (filled in as proofs land).
-/
import CvModel.Paths
