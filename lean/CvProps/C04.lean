/-
  C04 — paths restored from a BFS result (`restore_path`, `find_path_to`, `revert_path`, `find_path_from`;
  cayley_graph.py:225-281).  Property theorems only; proofs in `CvProofs/Paths.lean`, the concrete 6-cycle used
  in the non-vacuity examples in `CvProofs/PathsExample.lean`.

  `PathHyp g gi` : `gi` is the inverted copy of `g` (same hasher, generator `i` of `gi` undoes generator `i` of `g`),
                   hash collisions excluded.
  `IsBall g c Hs`: `Hs[i]` is the sorted tensor of hashes of the distance class `i` around `c`.
  `IsInvMap g m` : `m[i]` is the index of the generator undoing generator `i`.
-/
import CvProofs.Paths
import CvProofs.PathsExample
set_option linter.unusedSectionVars false
namespace Cv.C04
open Cv Cv.PathsExample

variable {α : Type} [DecidableEq α] {g gi : Graph α}

/-- the reverse graph: walks in `gi` are reversed walks in `g` -/
theorem walk_inv (h : PathHyp g gi) (n : Nat) (x y : α) : Walk gi.nb n y x ↔ Walk g.nb n x y := by
  exact Cv.walk_inv h n x y
-- non-vacuity: the 6-cycle and its inverted copy; a concrete walk 0 → 1 → 2 and its reversal
example : PathHyp ex6 ex6i := ex6_hyp
example : Walk ex6.nb 2 0 2 := path_walk ex6 0 [0, 0] (by decide)
example : Walk ex6i.nb 2 2 0 := (walk_inv ex6_hyp 2 0 2).2 (path_walk ex6 0 [0, 0] (by decide))

/-- walk/path bridge: a walk of `n` edges is a list of `n` valid generator indices replayed by `applyPath` -/
theorem walk_iff_path (g : Graph α) (n : Nat) (a b : α) :
    Walk g.nb n a b ↔ ∃ p : List Nat, p.length = n ∧ (∀ i ∈ p, i < g.nGens) ∧ applyPath g.act a p = b := by
  exact Cv.walk_iff_path g n a b
example : ([1, 1] : List Nat).length = 2 ∧ (∀ i ∈ [1, 1], i < ex6.nGens) ∧ applyPath ex6.act 0 [1, 1] = 4 := by decide

/-- core: walking back through layers 0..k-1 from a state of class k yields a valid shortest path -/
theorem restorePath_spec (h : PathHyp g gi) (c : α) (Hs : List (List Int)) (hb : IsBall g c Hs)
    (q : α) (hq : DistLayer g.nb [c] Hs.length q) :
    ∃ p, restorePath gi Hs q = some p ∧ p.length = Hs.length ∧ (∀ i ∈ p, i < g.nGens) ∧ applyPath g.act c p = q := by
  exact Cv.restorePath_spec h c Hs hb q hq
-- non-vacuity: the ball of depth 2 around 0 in the 6-cycle, restored from the antipode 3 (class 3)
example : IsBall ex6 0 [[0], [1, 5], [2, 4]] := ex6_ball
example : DistLayer ex6.nb [0] ([[0], [1, 5], [2, 4]] : List (List Int)).length 3 := ex6_dist3
example : restorePath ex6i [[0], [1, 5], [2, 4]] 3 = some [0, 0, 0] ∧ applyPath ex6.act 0 [0, 0, 0] = 3 := by decide

/-- find_path_to: a path iff the state is in layers 0..D; the path is valid and shortest; the assertion is unreachable -/
theorem findPathTo_spec (h : PathHyp g gi) (c : α) (Hs : List (List Int)) (hb : IsBall g c Hs) (q : α) :
    match findPathTo g gi Hs q with
    | .found p => applyPath g.act c p = q ∧ DistLayer g.nb [c] p.length q ∧ p.length < Hs.length ∧ ∀ i ∈ p, i < g.nGens
    | .notFound => ∀ i, i < Hs.length → ¬ DistLayer g.nb [c] i q
    | .assertFail _ => False := by
  exact Cv.findPathTo_spec h c Hs hb q
-- non-vacuity: both non-failing outcomes occur on the 6-cycle (4 is in layer 2, 3 is outside the ball)
example : findPathTo ex6 ex6i [[0], [1, 5], [2, 4]] 4 = .found [1, 1] := by decide
example : findPathTo ex6 ex6i [[0], [1, 5], [2, 4]] 3 = .notFound := by decide
example : applyPath ex6.act 0 [1, 1] = 4 ∧ DistLayer ex6.nb [0] ([1, 1] : List Nat).length 4 := ⟨by decide, ex6_dist2⟩
-- the layers must be sorted (`isin_via_searchsorted`): on an unsorted layer the state is missed
example : findPathTo ex6 ex6i [[0], [5, 1]] 1 = .notFound := by decide

/-- `invMap` is a correct inverse map: see `Cv.IsInvMap` -/
example : IsInvMap ex6 [1, 0] := ex6_invMap

/-- reverting a valid path A→B gives a valid path B→A of the same length -/
theorem revertPathM_spec (g : Graph α) (m : List Nat) (hm : IsInvMap g m) (p : List Nat) (hp : ∀ i ∈ p, i < g.nGens) (A : α) :
    ∃ r, revertPathM (some m) p = some r ∧ r.length = p.length ∧ (∀ i ∈ r, i < g.nGens) ∧
         applyPath g.act (applyPath g.act A p) r = A := by
  exact Cv.revertPathM_spec g m hm p hp A
example : (∀ i ∈ [1, 1, 0], i < ex6.nGens) ∧ revertPathM (some [1, 0]) [1, 1, 0] = some [1, 0, 0] ∧
    applyPath ex6.act 2 [1, 1, 0] = 1 ∧ applyPath ex6.act 1 [1, 0, 0] = 2 := by decide
-- without an inverse map (`generators_inverse_closed = False`) the code cannot revert
example : revertPathM none [0] = none := rfl

/-- find_path_from (inverse-closed generators): valid shortest path from the state to the central state -/
theorem findPathFrom_spec (h : PathHyp g gi) (hic : g.invClosed = true) (m : List Nat) (hm : IsInvMap g m)
    (c : α) (Hs : List (List Int)) (hb : IsBall g c Hs) (q : α) :
    match findPathFrom g gi (some m) Hs q with
    | .found p => applyPath g.act q p = c ∧ DistLayer g.nb [c] p.length q ∧ p.length < Hs.length
    | .notFound => ∀ i, i < Hs.length → ¬ DistLayer g.nb [c] i q
    | .assertFail _ => False := by
  exact Cv.findPathFrom_spec h hic m hm c Hs hb q
example : ex6.invClosed = true := rfl
example : findPathFrom ex6 ex6i (some [1, 0]) [[0], [1, 5], [2, 4]] 4 = .found [0, 0] ∧
    applyPath ex6.act 4 [0, 0] = 0 := by decide
example : findPathFrom ex6 ex6i (some [1, 0]) [[0], [1, 5], [2, 4]] 3 = .notFound := by decide
-- `hic` is needed: on a graph that is not inverse-closed the code trips its first assertion
example : findPathFrom ex5 ex5i (some [0]) [[0]] 0 = .assertFail "generators_inverse_closed" := by decide

/-- additionally: the returned path uses valid generator indices -/
theorem findPathFrom_valid (h : PathHyp g gi) (hic : g.invClosed = true) (m : List Nat) (hm : IsInvMap g m)
    (c : α) (Hs : List (List Int)) (hb : IsBall g c Hs) (q : α) (p : List Nat)
    (hp : findPathFrom g gi (some m) Hs q = .found p) : ∀ i ∈ p, i < g.nGens := by
  exact Cv.findPathFrom_valid h hic m hm c Hs hb q p hp
example : findPathFrom ex6 ex6i (some [1, 0]) [[0], [1, 5], [2, 4]] 4 = .found [0, 0] := by decide

end Cv.C04
