/-
  C11 — all BFS engines agree.  Property theorems only (filled in as proofs land).
-/
import CvModel.Engines
