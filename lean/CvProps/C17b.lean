/-
  C17b — the capped reference BFS `refLayersCap` (the oracle for orbits too large to enumerate) is a prefix of the
  reference BFS `refLayers`; every layer it returns is a distance class; when it reports `exhausted` it is the whole
  reference BFS and the orbit is exhausted.  Property theorems only; proofs in `CvProofs/RefCap.lean`.
-/
import CvProofs.RefCap
namespace Cv

/-- evaluation on concrete inputs (merge sort is defined by well-founded recursion: `simp` with equation lemmas) -/
local macro "refcap_eval" : tactic =>
  `(tactic| simp [refLayersCap, refLoopCap, refLayers, refLoop, refStep, sortDedup, dedupSorted, sdiff, List.mergeSort,
      List.MergeSort.Internal.splitInTwo, List.merge, refLayersCapW, refLoopCapW])

/-- the capped reference BFS is a prefix of the reference BFS -/
theorem refLayersCap_prefix (nb : Nat → List Nat) (S : List Nat) (D cap : Nat) :
    (refLayersCap nb S D cap).1 <+: refLayers nb S D := by
  exact refLayersCap_prefix' nb S D cap

/-- non-vacuity: on the 7-cycle with budget 4 the capped run is a PROPER prefix (stop reason `capped`) -/
example : refLayersCap (fun x => [(x+1) % 7, (x+6) % 7]) [0] 10 4 = ([[0],[1,6]], .capped) := by refcap_eval
example : refLayers (fun x => [(x+1) % 7, (x+6) % 7]) [0] 10 = [[0],[1,6],[2,5],[3,4]] := by refcap_eval
/-- the depth limit is reported as `depth` -/
example : refLayersCap (fun x => [(x+1) % 7, (x+6) % 7]) [0] 1 100 = ([[0],[1,6]], .depth) := by refcap_eval

theorem refLayersCap_exhausted (nb : Nat → List Nat) (S : List Nat) (D cap : Nat)
    (h : (refLayersCap nb S D cap).2 = .exhausted) :
    (refLayersCap nb S D cap).1 = refLayers nb S D ∧ ∀ x, ¬ DistLayer nb S (refLayers nb S D).length x := by
  exact refLayersCap_exhausted' nb S D cap h

/-- non-vacuity: the hypothesis holds on the 5-cycle with a large budget -/
example : (refLayersCap (fun x => [(x+1) % 5, (x+4) % 5]) [0] 10 100).2 = .exhausted := by
  have h : refLayersCap (fun x => [(x+1) % 5, (x+4) % 5]) [0] 10 100 = ([[0],[1,4],[2,3]], .exhausted) := by
    refcap_eval
  rw [h]
/-- … and the hypothesis is needed: a capped run misses layers -/
example : (refLayersCap (fun x => [(x+1) % 7, (x+6) % 7]) [0] 10 4).1 ≠
    refLayers (fun x => [(x+1) % 7, (x+6) % 7]) [0] 10 := by
  have h1 : refLayersCap (fun x => [(x+1) % 7, (x+6) % 7]) [0] 10 4 = ([[0],[1,6]], .capped) := by refcap_eval
  have h2 : refLayers (fun x => [(x+1) % 7, (x+6) % 7]) [0] 10 = [[0],[1,6],[2,5],[3,4]] := by refcap_eval
  rw [h1, h2]; decide

theorem refLayersCap_layers (nb : Nat → List Nat) (S : List Nat) (D cap : Nat) (i : Nat) (L : List Nat)
    (h : (refLayersCap nb S D cap).1[i]? = some L) : L.Pairwise (· < ·) ∧ ∀ x, x ∈ L ↔ DistLayer nb S i x := by
  exact refLayersCap_layers' nb S D cap i L h

/-- non-vacuity: layer 1 of the capped run exists, hence 6 is at distance exactly 1 on the 7-cycle -/
example : DistLayer (fun x => [(x+1) % 7, (x+6) % 7]) [0] 1 6 := by
  have h1 : refLayersCap (fun x => [(x+1) % 7, (x+6) % 7]) [0] 10 4 = ([[0],[1,6]], .capped) := by refcap_eval
  exact ((refLayersCap_layers _ [0] 10 4 1 [1,6] (by rw [h1]; rfl)).2 6).1 (by decide)


/-! ### the variant with a work budget (`CvModel/RefCapW.lean`) -/

/-- the capped reference BFS with a work budget is a prefix of the reference BFS -/
theorem refLayersCapW_prefix (nb : Nat → List Nat) (S : List Nat) (D deg cap work : Nat) :
    (refLayersCapW nb S D deg cap work).1 <+: refLayers nb S D := by
  exact refLayersCapW_prefix' nb S D deg cap work

/-- non-vacuity: on the 7-cycle (degree 2) the work budget 3 allows expanding layer 0 (1·2 ≤ 3) but not layer 1
(2·2 > 3): a PROPER prefix, stop reason `capped`; with a large work budget the vertex budget fires instead -/
example : refLayersCapW (fun x => [(x+1) % 7, (x+6) % 7]) [0] 10 2 100 3 = ([[0],[1,6]], .capped) := by refcap_eval
example : refLayersCapW (fun x => [(x+1) % 7, (x+6) % 7]) [0] 10 2 4 100 = ([[0],[1,6]], .capped) := by refcap_eval
example : refLayersCapW (fun x => [(x+1) % 7, (x+6) % 7]) [0] 1 2 100 100 = ([[0],[1,6]], .depth) := by refcap_eval

theorem refLayersCapW_exhausted (nb : Nat → List Nat) (S : List Nat) (D deg cap work : Nat)
    (h : (refLayersCapW nb S D deg cap work).2 = .exhausted) :
    (refLayersCapW nb S D deg cap work).1 = refLayers nb S D ∧
      ∀ x, ¬ DistLayer nb S (refLayers nb S D).length x := by
  exact refLayersCapW_exhausted' nb S D deg cap work h

/-- non-vacuity: the hypothesis holds on the 5-cycle with large budgets -/
example : (refLayersCapW (fun x => [(x+1) % 5, (x+4) % 5]) [0] 10 2 100 100).2 = .exhausted := by
  have h : refLayersCapW (fun x => [(x+1) % 5, (x+4) % 5]) [0] 10 2 100 100 = ([[0],[1,4],[2,3]], .exhausted) := by
    refcap_eval
  rw [h]
/-- … and the hypothesis is needed: a run stopped by the work budget misses layers -/
example : (refLayersCapW (fun x => [(x+1) % 7, (x+6) % 7]) [0] 10 2 100 3).1 ≠
    refLayers (fun x => [(x+1) % 7, (x+6) % 7]) [0] 10 := by
  have h1 : refLayersCapW (fun x => [(x+1) % 7, (x+6) % 7]) [0] 10 2 100 3 = ([[0],[1,6]], .capped) := by refcap_eval
  have h2 : refLayers (fun x => [(x+1) % 7, (x+6) % 7]) [0] 10 = [[0],[1,6],[2,5],[3,4]] := by refcap_eval
  rw [h1, h2]; decide

theorem refLayersCapW_layers (nb : Nat → List Nat) (S : List Nat) (D deg cap work : Nat) (i : Nat) (L : List Nat)
    (h : (refLayersCapW nb S D deg cap work).1[i]? = some L) :
    L.Pairwise (· < ·) ∧ ∀ x, x ∈ L ↔ DistLayer nb S i x := by
  exact refLayersCapW_layers' nb S D deg cap work i L h

/-- non-vacuity: layer 1 of the work-capped run exists, hence 6 is at distance exactly 1 on the 7-cycle -/
example : DistLayer (fun x => [(x+1) % 7, (x+6) % 7]) [0] 1 6 := by
  have h1 : refLayersCapW (fun x => [(x+1) % 7, (x+6) % 7]) [0] 10 2 100 3 = ([[0],[1,6]], .capped) := by refcap_eval
  exact ((refLayersCapW_layers _ [0] 10 2 100 3 1 [1,6] (by rw [h1]; rfl)).2 6).1 (by decide)

end Cv
