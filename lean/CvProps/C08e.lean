/-
  C08e — end to end: the explicit-graph export (`BfsResult.all_states`, `edges_list`, `adjacency_matrix`,
  `get_edge_name`) of a BFS over the library's real state representations, stated on the MATHEMATICAL graph
  `permGraphNb perms` / the mathematical action `genAct perms i` (`new[j] = old[p_i[j]]`) of decoded states
  (instances of `CvProps/C08.lean`).  The exported vertex list, DECODED, enumerates the explored part of the orbit
  without repetition (and the exported rows are the encodings of the decoded list); the exported edge list is
  * exhaustive run: exactly the pairs `(index v, index (g_i v))`, with multiplicity, over all vertices `v` and generators;
  * early-stopped run: every such pair for `v` in a non-final layer, and every other entry is a REVERSED out-edge of the
    last expanded layer (the code appends that block swapped); `*_export_partial_exact` gives the multiplicities: the
    list is a rearrangement of the out-edges of the non-final layers followed by the reversed out-edges of the last
    expanded layer.  (So "exactly the out-edges of the non-final layers" is FALSE as sketched; example below.)
  Any list of start states (repetitions allowed), any hash injective on rows of the encoded length.  As in C08, the
  theorems need `hsmall` (layers that are not kept unconditionally have at most `10^15` states — `max_layer_size_to_store =
  None` means the limit `10^15`); `*_export_needs_store` shows that an unstored layer makes `all_states` fail.
  Three instances: `encodedPermGraph`, `plainPermGraph`, `encodedPermGraph1d` with `identityHash` (no hash hypothesis).
  Property theorems only; proofs in `CvProofs/InstanceExport.lean`, evaluated runs in `CvProofs/InstanceExportExample.lean`.
-/
import CvProofs.InstanceExport
import CvProofs.InstanceExportExample
namespace Cv.C08e
open Cv Cv.Instance Cv.Codec Cv.Instance.Example Cv.InstX Cv.InstX.Example

/-! ## `get_edge_name` -/

/-- on encodings of two states that fit the width, `get_edge_name` returns the FIRST generator of the mathematical
action that maps `s1` to `s2`, and finds one whenever there is one -/
theorem encoded_edgeGen_spec (w n : Nat) (hw : 1 ≤ w) (hw' : w ≤ 64) (perms : List (List Nat))
    (hp : ∀ p ∈ perms, Cv.Perm.IsPermOf n p) (hash : List W → Int) (ic : Bool) (batch : Nat)
    (s1 s2 : List Nat) (h1 : encodable w n s1 = true) (h2 : encodable w n s2 = true) :
    (∀ i, edgeGen (encodedPermGraph w n perms hash ic batch) (encode w n s1) (encode w n s2) = some i →
      i < perms.length ∧ genAct perms i s1 = s2 ∧ ∀ j, j < i → genAct perms j s1 ≠ s2) ∧
    ((∃ i, i < perms.length ∧ genAct perms i s1 = s2) →
      (edgeGen (encodedPermGraph w n perms hash ic batch) (encode w n s1) (encode w n s2)).isSome = true) := by
  exact enc_edgeGen_spec w n hw hw' perms hp hash ic batch s1 s2 h1 h2

/-- non-vacuity: in LRX(4) the edge `id → (1 0 2 3)` is made by generator 2 (the transposition); there is no edge
`id → (2 3 0 1)` -/
example : encodable 2 4 id4 = true ∧ encodable 2 4 [1, 0, 2, 3] = true ∧
    edgeGen gX (encode 2 4 id4) (encode 2 4 [1, 0, 2, 3]) = some 2 ∧
    edgeGen gX (encode 2 4 id4) (encode 2 4 [2, 3, 0, 1]) = none := by decide +kernel

/-- the same for un-encoded states -/
theorem plain_edgeGen_spec (perms : List (List Nat)) (hash : List Nat → Int) (ic : Bool) (batch : Nat)
    (s1 s2 : List Nat) :
    (∀ i, edgeGen (plainPermGraph perms hash ic batch) s1 s2 = some i →
      i < perms.length ∧ genAct perms i s1 = s2 ∧ ∀ j, j < i → genAct perms j s1 ≠ s2) ∧
    ((∃ i, i < perms.length ∧ genAct perms i s1 = s2) →
      (edgeGen (plainPermGraph perms hash ic batch) s1 s2).isSome = true) := by
  exact pl_edgeGen_spec perms hash ic batch s1 s2

example : edgeGen gP2 id4 [1, 0, 2, 3] = some 2 ∧ edgeGen gP2 id4 [2, 3, 0, 1] = none := by decide +kernel

/-! ## bit-encoded states -/

section encoded
/- shared hypotheses, as in `CvProps/C09e.lean` -/
variable (w n : Nat) (hw : 1 ≤ w) (hw' : w ≤ 64) (perms : List (List Nat))
  (hp : ∀ p ∈ perms, Cv.Perm.IsPermOf n p) (hash : List W → Int)
  (hinj : ∀ x y : List W, x.length = encLen w n → y.length = encLen w n → hash x = hash y → x = y)
  (ic : Bool) (starts : List (List Nat))
  (hic : ic = true → ∀ s t, InOrbit (permGraphNb perms) starts s → t ∈ permGraphNb perms s →
    s ∈ permGraphNb perms t)
  (batch : Nat) (hb : 0 < batch) (c : BfsCfg (List W))
  (hs : ∀ s ∈ starts, encodable w n s = true)
include hw hw' hp hinj hic hb hs

local notation "R" => bfs (encodedPermGraph w n perms hash ic batch) c (starts.map (encode w n))

/-- non-vacuity of the shared hypotheses: LRX(4), width 2, `posHash`, flagged inverse-closed, batch size 3, start list
`[id, (1 2 3 0), id]` -/
example : (1 ≤ 2 ∧ 2 ≤ 64) ∧ (∀ p ∈ lrx4, Cv.Perm.IsPermOf 4 p) ∧
    (∀ x y : List W, x.length = encLen 2 4 → y.length = encLen 2 4 → posHash x = posHash y → x = y) ∧
    (true = true → ∀ s t, InOrbit (permGraphNb lrx4) starts2 s → t ∈ permGraphNb lrx4 s → s ∈ permGraphNb lrx4 t) ∧
    0 < 3 ∧ (∀ s ∈ starts2, encodable 2 4 s = true) :=
  ⟨by decide, lrx4_perm, fun _ _ _ _ h => posHash_injective h, fun _ => starts2_symm, by decide, starts2_encodable⟩

/-- exhaustive BFS asked for everything: the decoded vertex list enumerates the orbit of the mathematical graph without
repetition, the exported rows are the encodings of the decoded list, the numbering follows the layer hashes, the edge
list is all `(index v, index (g_i v))` with multiplicity, and the adjacency matrix is that of the mathematical graph -/
theorem encoded_export_complete
    (he : c.returnEdges = true) (hh : c.returnHashes = true) (hst : c.maxStore = none)
    (hcomp : (R).completed = true)
    (hsmall : ∀ i m, 0 < i → i + 1 < (R).layerSizes.length → (R).layerSizes[i]? = some m → m ≤ 10 ^ 15) :
    ∃ (V : List (List W)) (Ed : List (Nat × Nat)),
      allStates (R) = some V ∧ edgesList (R) = some Ed ∧
      (V.map (decode w n)).Nodup ∧ (∀ s, s ∈ V.map (decode w n) ↔ InOrbit (permGraphNb perms) starts s) ∧
      (V.map (decode w n)).map (encode w n) = V ∧
      (R).hashes.flatten = V.map hash ∧
      Ed.Perm ((V.map (decode w n)).flatMap fun v => (List.range perms.length).map fun i =>
        ((V.map (decode w n)).idxOf v, (V.map (decode w n)).idxOf (genAct perms i v))) ∧
      (∀ i j, adjacency Ed i j = true ↔
        ∃ v k, (V.map (decode w n))[i]? = some v ∧ k < perms.length ∧
          (V.map (decode w n))[j]? = some (genAct perms k v)) := by
  have hinj' : ∀ x y, Valid w n x → Valid w n y → hash x = hash y → x = y :=
    fun x y hx hy h => hinj x y (length_of_valid hx) (length_of_valid hy) h
  exact enc_export_complete_stored w n hw hw' perms hp hash ic batch starts hs hinj' hic hb c he hh
    (enc_stored_all_complete w n hw hw' perms hp hash ic batch starts hs hinj' hic hb c hcomp
      (by rw [storeLimit_of_none c hst]; exact hsmall)) hcomp

/-- non-vacuity: the exhaustive run from the two start states; decoded vertex list (24 arrangements) and edge list
(72 = 24 · 3 rows), evaluated in the kernel -/
example : cE.returnEdges = true ∧ cE.returnHashes = true ∧ cE.maxStore = none ∧
    (bfs gX cE (starts2.map (encode 2 4))).completed = true ∧
    (∀ i m, 0 < i → i + 1 < (bfs gX cE (starts2.map (encode 2 4))).layerSizes.length →
      (bfs gX cE (starts2.map (encode 2 4))).layerSizes[i]? = some m → m ≤ 10 ^ 15) ∧
    (allStates (bfs gX cE (starts2.map (encode 2 4)))).map (·.map (decode 2 4)) =
      some [[1, 2, 3, 0], [0, 1, 2, 3], [2, 1, 3, 0], [2, 3, 0, 1], [3, 0, 1, 2], [1, 0, 2, 3], [3, 2, 0, 1],
        [0, 2, 3, 1], [3, 1, 0, 2], [1, 3, 0, 2], [0, 3, 1, 2], [0, 2, 1, 3], [2, 3, 1, 0], [3, 1, 2, 0],
        [1, 3, 2, 0], [3, 0, 2, 1], [2, 0, 3, 1], [2, 0, 1, 3], [3, 2, 1, 0], [0, 3, 2, 1], [0, 1, 3, 2],
        [1, 2, 0, 3], [1, 0, 3, 2], [2, 1, 0, 3]] ∧
    edgesList (bfs gX cE (starts2.map (encode 2 4))) =
      some [(0, 3), (1, 0), (0, 1), (1, 4), (0, 2), (1, 5), (2, 9), (3, 4), (4, 1), (5, 7), (2, 11), (3, 0),
        (4, 3), (5, 8), (2, 0), (3, 6), (4, 10), (5, 1), (6, 17), (7, 12), (8, 5), (9, 15), (10, 13), (11, 2),
        (6, 14), (7, 5), (8, 12), (9, 2), (10, 16), (11, 15), (6, 3), (7, 16), (8, 9), (9, 8), (10, 4), (11, 17),
        (12, 8), (13, 21), (14, 6), (15, 11), (16, 10), (17, 20), (12, 7), (13, 10), (14, 20), (15, 9), (16, 21),
        (17, 6), (12, 18), (13, 14), (14, 13), (15, 19), (16, 7), (17, 11), (18, 23), (19, 18), (20, 14),
        (21, 16), (18, 19), (19, 22), (20, 17), (21, 13), (18, 12), (19, 15), (20, 22), (21, 23), (22, 19),
        (23, 22), (22, 23), (23, 18), (22, 20), (23, 21)] := by
  refine ⟨rfl, rfl, rfl, expE.1, ?_, expE.2.2.1, expE.2.2.2⟩
  rw [expE.2.1]
  exact fun i m _ _ h => small_of_mem _ (by decide) i m h

/-- corollary: when the mathematical graph is symmetric on the orbit (inverse-closed generators), the exported adjacency
matrix of an exhaustive run is symmetric -/
theorem encoded_export_adjacency_symm
    (hsym : ∀ s t, InOrbit (permGraphNb perms) starts s → t ∈ permGraphNb perms s → s ∈ permGraphNb perms t)
    (he : c.returnEdges = true) (hh : c.returnHashes = true) (hst : c.maxStore = none)
    (hcomp : (R).completed = true)
    (hsmall : ∀ i m, 0 < i → i + 1 < (R).layerSizes.length → (R).layerSizes[i]? = some m → m ≤ 10 ^ 15) :
    ∃ Ed, edgesList (R) = some Ed ∧ ∀ i j, adjacency Ed i j = adjacency Ed j i := by
  obtain ⟨V, Ed, -, h2, -, h4, -, -, -, h8⟩ :=
    encoded_export_complete w n hw hw' perms hp hash hinj ic starts hic batch hb c hs he hh hst hcomp hsmall
  exact ⟨Ed, h2, adjacency_symm_of_orbit perms starts hsym _ Ed (fun s hs' => (h4 s).1 hs') h8⟩

example : ∀ s t, InOrbit (permGraphNb lrx4) starts2 s → t ∈ permGraphNb lrx4 s → s ∈ permGraphNb lrx4 t :=
  starts2_symm

/-- early-stopped BFS (at least one expansion step): every out-edge (mathematical action) of every vertex of a non-final
layer is present, and every other entry is the reversal of an out-edge of the last expanded layer -/
theorem encoded_export_partial
    (he : c.returnEdges = true) (hh : c.returnHashes = true) (hst : c.maxStore = none)
    (hcomp : (R).completed = false) (hstep : 2 ≤ (R).layerSizes.length)
    (hsmall : ∀ i m, 0 < i → (R).layerSizes[i]? = some m → m ≤ 10 ^ 15) :
    ∃ (V : List (List W)) (Ed : List (Nat × Nat)),
      allStates (R) = some V ∧ edgesList (R) = some Ed ∧
      (V.map (decode w n)).Nodup ∧
      (∀ s, s ∈ V.map (decode w n) ↔
        ∃ j, j < (R).layerSizes.length ∧ DistLayer (permGraphNb perms) starts j s) ∧
      (V.map (decode w n)).map (encode w n) = V ∧
      (R).hashes.flatten = V.map hash ∧
      (∀ v k j, j + 1 < (R).layerSizes.length → DistLayer (permGraphNb perms) starts j v → k < perms.length →
          ((V.map (decode w n)).idxOf v, (V.map (decode w n)).idxOf (genAct perms k v)) ∈ Ed) ∧
      (∀ e ∈ Ed,
        (∃ v k j, j + 1 < (R).layerSizes.length ∧ DistLayer (permGraphNb perms) starts j v ∧ k < perms.length ∧
            e = ((V.map (decode w n)).idxOf v, (V.map (decode w n)).idxOf (genAct perms k v))) ∨
        (∃ v k, DistLayer (permGraphNb perms) starts ((R).layerSizes.length - 2) v ∧ k < perms.length ∧
            e = ((V.map (decode w n)).idxOf (genAct perms k v), (V.map (decode w n)).idxOf v))) := by
  have hinj' : ∀ x y, Valid w n x → Valid w n y → hash x = hash y → x = y :=
    fun x y hx hy h => hinj x y (length_of_valid hx) (length_of_valid hy) h
  exact enc_export_partial_stored w n hw hw' perms hp hash ic batch starts hs hinj' hic hb c he hh
    (enc_stored_all_partial w n hw hw' perms hp hash ic batch starts hs hinj' hic hb c
      (by rw [storeLimit_of_none c hst]; exact hsmall)) hcomp hstep

/-- non-vacuity: the run interrupted after one expansion step (`max_diameter = 1`): the 6 out-edges of layer 0 followed by
the same 6 edges reversed -/
example : cP.returnEdges = true ∧ cP.returnHashes = true ∧ cP.maxStore = none ∧
    (bfs gX cP (starts2.map (encode 2 4))).completed = false ∧
    2 ≤ (bfs gX cP (starts2.map (encode 2 4))).layerSizes.length ∧
    (∀ i m, 0 < i → (bfs gX cP (starts2.map (encode 2 4))).layerSizes[i]? = some m → m ≤ 10 ^ 15) ∧
    (allStates (bfs gX cP (starts2.map (encode 2 4)))).map (·.map (decode 2 4)) =
      some [[1, 2, 3, 0], [0, 1, 2, 3], [2, 1, 3, 0], [2, 3, 0, 1], [3, 0, 1, 2], [1, 0, 2, 3]] ∧
    edgesList (bfs gX cP (starts2.map (encode 2 4))) =
      some [(0, 3), (1, 0), (0, 1), (1, 4), (0, 2), (1, 5), (3, 0), (0, 1), (1, 0), (4, 1), (2, 0), (5, 1)] := by
  refine ⟨rfl, rfl, rfl, expP.1, ?_, ?_, expP.2.2.1, expP.2.2.2⟩
  · rw [expP.2.1]; decide
  · rw [expP.2.1]
    exact fun i m _ h => small_of_mem _ (by decide) i m h

/-- early-stopped BFS, WITH MULTIPLICITY.  The sketch "the edge list is exactly the out-edges of the non-final layers" is
false (see the example below); the exact statement: the decoded vertex list is `Dn ++ Dl` (`Dn` = the non-final layers,
`Dl` = the last layer) and the edge list is a rearrangement of all `(index v, index (g_i v))`, `v ∈ Dn`, followed by all
REVERSED pairs `(index (g_i v), index v)` for `v` in the last expanded layer `Dp` (class `length - 2`) -/
theorem encoded_export_partial_exact
    (he : c.returnEdges = true) (hh : c.returnHashes = true) (hst : c.maxStore = none)
    (hcomp : (R).completed = false) (hstep : 2 ≤ (R).layerSizes.length)
    (hsmall : ∀ i m, 0 < i → (R).layerSizes[i]? = some m → m ≤ 10 ^ 15) :
    ∃ (V : List (List W)) (Ed : List (Nat × Nat)) (Dn Dl Dp : List (List Nat)),
      allStates (R) = some V ∧ edgesList (R) = some Ed ∧ V.map (decode w n) = Dn ++ Dl ∧
      (∀ s, s ∈ Dn ↔ ∃ j, j + 1 < (R).layerSizes.length ∧ DistLayer (permGraphNb perms) starts j s) ∧
      (Dl.Nodup ∧ ∀ s, s ∈ Dl ↔ DistLayer (permGraphNb perms) starts ((R).layerSizes.length - 1) s) ∧
      (Dp.Nodup ∧ ∀ s, s ∈ Dp ↔ DistLayer (permGraphNb perms) starts ((R).layerSizes.length - 2) s) ∧
      Ed.Perm ((Dn.flatMap fun v => (List.range perms.length).map fun i =>
          ((V.map (decode w n)).idxOf v, (V.map (decode w n)).idxOf (genAct perms i v))) ++
        (Dp.flatMap fun v => (List.range perms.length).map fun i =>
          ((V.map (decode w n)).idxOf (genAct perms i v), (V.map (decode w n)).idxOf v))) := by
  have hinj' : ∀ x y, Valid w n x → Valid w n y → hash x = hash y → x = y :=
    fun x y hx hy h => hinj x y (length_of_valid hx) (length_of_valid hy) h
  exact enc_export_partial_perm w n hw hw' perms hp hash ic batch starts hs hinj' hic hb c he hh
    (enc_stored_all_partial w n hw hw' perms hp hash ic batch starts hs hinj' hic hb c
      (by rw [storeLimit_of_none c hst]; exact hsmall)) hcomp hstep

/-- non-vacuity, and the reversed block is really there: in the run interrupted after one step (hypotheses checked in the
example above) the two vertices of layer 0 have 2 · 3 = 6 out-edges, the exported list has 12 rows: these 6 followed by
the same 6 reversed -/
example : edgesList (bfs gX cP (starts2.map (encode 2 4))) =
      some ([(0, 3), (1, 0), (0, 1), (1, 4), (0, 2), (1, 5)] ++
        [(0, 3), (1, 0), (0, 1), (1, 4), (0, 2), (1, 5)].map Prod.swap) ∧
    ¬ ([(0, 3), (1, 0), (0, 1), (1, 4), (0, 2), (1, 5)] ++
        [(0, 3), (1, 0), (0, 1), (1, 4), (0, 2), (1, 5)].map Prod.swap).Perm
      [(0, 3), (1, 0), (0, 1), (1, 4), (0, 2), (1, 5)] := by
  refine ⟨expP.2.2.2, fun h => ?_⟩
  have := h.length_eq
  revert this; decide

/-- the size hypothesis is necessary: if a layer other than layer 0 — and other than the last layer of a completed run —
exceeds the store limit, `all_states` fails -/
theorem encoded_export_needs_store (i m : Nat) (hi : 0 < i) (hm : (R).layerSizes[i]? = some m)
    (hbig : c.storeLimit < m) (hlast : (R).completed = true → i + 1 < (R).layerSizes.length) :
    allStates (R) = none := by
  exact enc_export_needs_store w n hw hw' perms hp hash ic batch starts hs
    (fun x y hx hy h => hinj x y (length_of_valid hx) (length_of_valid hy) h) hic hb c i m hi hm hbig hlast

/-- non-vacuity / counterexample with a small limit: `max_layer_size_to_store = 4`, the run completes, edges and hashes
are recorded, but layer 2 (six states) is dropped and `all_states` fails -/
example : cE4.returnEdges = true ∧ cE4.returnHashes = true ∧
    (bfs gX cE4 (starts2.map (encode 2 4))).completed = true ∧
    (bfs gX cE4 (starts2.map (encode 2 4))).layerSizes[2]? = some 6 ∧ cE4.storeLimit < 6 ∧
    allStates (bfs gX cE4 (starts2.map (encode 2 4))) = none := by
  refine ⟨rfl, rfl, expE4.1, by rw [expE4.2.1]; rfl, by decide, expE4.2.2⟩

end encoded

/-! ## un-encoded states -/

section plain
variable (perms : List (List Nat)) (hash : List Nat → Int) (starts : List (List Nat))
  (hinj : ∀ s t, InOrbit (permGraphNb perms) starts s → InOrbit (permGraphNb perms) starts t →
    hash s = hash t → s = t)
  (ic : Bool)
  (hic : ic = true → ∀ s t, InOrbit (permGraphNb perms) starts s → t ∈ permGraphNb perms s →
    s ∈ permGraphNb perms t)
  (batch : Nat) (hb : 0 < batch) (c : BfsCfg (List Nat))
include hinj hic hb

local notation "R" => bfs (plainPermGraph perms hash ic batch) c starts

/-- non-vacuity of the shared hypotheses: LRX(4) un-encoded, base-4 hash, flagged inverse-closed, batch size 2 -/
example :
    (∀ s t, InOrbit (permGraphNb lrx4) starts2 s → InOrbit (permGraphNb lrx4) starts2 t → b4Hash s = b4Hash t → s = t) ∧
    (true = true → ∀ s t, InOrbit (permGraphNb lrx4) starts2 s → t ∈ permGraphNb lrx4 s → s ∈ permGraphNb lrx4 t) ∧
    0 < 2 := ⟨b4Hash_inj2, fun _ => starts2_symm, by decide⟩

theorem plain_export_complete
    (he : c.returnEdges = true) (hh : c.returnHashes = true) (hst : c.maxStore = none)
    (hcomp : (R).completed = true)
    (hsmall : ∀ i m, 0 < i → i + 1 < (R).layerSizes.length → (R).layerSizes[i]? = some m → m ≤ 10 ^ 15) :
    ∃ (V : List (List Nat)) (Ed : List (Nat × Nat)),
      allStates (R) = some V ∧ edgesList (R) = some Ed ∧
      V.Nodup ∧ (∀ s, s ∈ V ↔ InOrbit (permGraphNb perms) starts s) ∧
      (R).hashes.flatten = V.map hash ∧
      Ed.Perm (V.flatMap fun v => (List.range perms.length).map fun i => (V.idxOf v, V.idxOf (genAct perms i v))) ∧
      (∀ i j, adjacency Ed i j = true ↔
        ∃ v k, V[i]? = some v ∧ k < perms.length ∧ V[j]? = some (genAct perms k v)) := by
  exact pl_export_complete_stored perms hash ic batch starts hinj hic hb c he hh
    (pl_stored_all_complete perms hash ic batch starts hinj hic hb c hcomp
      (by rw [storeLimit_of_none c hst]; exact hsmall)) hcomp

example : cEp.returnEdges = true ∧ cEp.returnHashes = true ∧ cEp.maxStore = none ∧
    (bfs gP2 cEp starts2).completed = true ∧
    (∀ i m, 0 < i → i + 1 < (bfs gP2 cEp starts2).layerSizes.length →
      (bfs gP2 cEp starts2).layerSizes[i]? = some m → m ≤ 10 ^ 15) ∧
    (allStates (bfs gP2 cEp starts2)).map List.length = some 24 ∧
    (edgesList (bfs gP2 cEp starts2)).map List.length = some 72 := by
  refine ⟨rfl, rfl, rfl, expEp.1, ?_, expEp.2.2.1, expEp.2.2.2⟩
  rw [expEp.2.1]
  exact fun i m _ _ h => small_of_mem _ (by decide) i m h

theorem plain_export_adjacency_symm
    (hsym : ∀ s t, InOrbit (permGraphNb perms) starts s → t ∈ permGraphNb perms s → s ∈ permGraphNb perms t)
    (he : c.returnEdges = true) (hh : c.returnHashes = true) (hst : c.maxStore = none)
    (hcomp : (R).completed = true)
    (hsmall : ∀ i m, 0 < i → i + 1 < (R).layerSizes.length → (R).layerSizes[i]? = some m → m ≤ 10 ^ 15) :
    ∃ Ed, edgesList (R) = some Ed ∧ ∀ i j, adjacency Ed i j = adjacency Ed j i := by
  obtain ⟨V, Ed, -, h2, -, h4, -, -, h7⟩ :=
    plain_export_complete perms hash starts hinj ic hic batch hb c he hh hst hcomp hsmall
  exact ⟨Ed, h2, adjacency_symm_of_orbit perms starts hsym V Ed (fun s hs' => (h4 s).1 hs') h7⟩

example : ∀ s t, InOrbit (permGraphNb lrx4) starts2 s → t ∈ permGraphNb lrx4 s → s ∈ permGraphNb lrx4 t :=
  starts2_symm

theorem plain_export_partial
    (he : c.returnEdges = true) (hh : c.returnHashes = true) (hst : c.maxStore = none)
    (hcomp : (R).completed = false) (hstep : 2 ≤ (R).layerSizes.length)
    (hsmall : ∀ i m, 0 < i → (R).layerSizes[i]? = some m → m ≤ 10 ^ 15) :
    ∃ (V : List (List Nat)) (Ed : List (Nat × Nat)),
      allStates (R) = some V ∧ edgesList (R) = some Ed ∧ V.Nodup ∧
      (∀ s, s ∈ V ↔ ∃ j, j < (R).layerSizes.length ∧ DistLayer (permGraphNb perms) starts j s) ∧
      (R).hashes.flatten = V.map hash ∧
      (∀ v k j, j + 1 < (R).layerSizes.length → DistLayer (permGraphNb perms) starts j v → k < perms.length →
          (V.idxOf v, V.idxOf (genAct perms k v)) ∈ Ed) ∧
      (∀ e ∈ Ed,
        (∃ v k j, j + 1 < (R).layerSizes.length ∧ DistLayer (permGraphNb perms) starts j v ∧ k < perms.length ∧
            e = (V.idxOf v, V.idxOf (genAct perms k v))) ∨
        (∃ v k, DistLayer (permGraphNb perms) starts ((R).layerSizes.length - 2) v ∧ k < perms.length ∧
            e = (V.idxOf (genAct perms k v), V.idxOf v))) := by
  exact pl_export_partial_stored perms hash ic batch starts hinj hic hb c he hh
    (pl_stored_all_partial perms hash ic batch starts hinj hic hb c
      (by rw [storeLimit_of_none c hst]; exact hsmall)) hcomp hstep

example : cPp.returnEdges = true ∧ cPp.returnHashes = true ∧ cPp.maxStore = none ∧
    (bfs gP2 cPp starts2).completed = false ∧ 2 ≤ (bfs gP2 cPp starts2).layerSizes.length ∧
    (∀ i m, 0 < i → (bfs gP2 cPp starts2).layerSizes[i]? = some m → m ≤ 10 ^ 15) ∧
    allStates (bfs gP2 cPp starts2) =
      some [[0, 1, 2, 3], [1, 2, 3, 0], [1, 0, 2, 3], [2, 1, 3, 0], [2, 3, 0, 1], [3, 0, 1, 2]] ∧
    edgesList (bfs gP2 cPp starts2) =
      some [(0, 1), (1, 4), (0, 5), (1, 0), (0, 2), (1, 3), (1, 0), (4, 1), (5, 0), (0, 1), (2, 0), (3, 1)] := by
  refine ⟨rfl, rfl, rfl, expPp.1, ?_, ?_, expPp.2.2.1, expPp.2.2.2⟩
  · rw [expPp.2.1]; decide
  · rw [expPp.2.1]
    exact fun i m _ h => small_of_mem _ (by decide) i m h

/-- early-stopped BFS, with multiplicity (see `encoded_export_partial_exact`) -/
theorem plain_export_partial_exact
    (he : c.returnEdges = true) (hh : c.returnHashes = true) (hst : c.maxStore = none)
    (hcomp : (R).completed = false) (hstep : 2 ≤ (R).layerSizes.length)
    (hsmall : ∀ i m, 0 < i → (R).layerSizes[i]? = some m → m ≤ 10 ^ 15) :
    ∃ (V : List (List Nat)) (Ed : List (Nat × Nat)) (Vn Vl Lp : List (List Nat)),
      allStates (R) = some V ∧ edgesList (R) = some Ed ∧ V = Vn ++ Vl ∧
      (∀ s, s ∈ Vn ↔ ∃ j, j + 1 < (R).layerSizes.length ∧ DistLayer (permGraphNb perms) starts j s) ∧
      (Vl.Nodup ∧ ∀ s, s ∈ Vl ↔ DistLayer (permGraphNb perms) starts ((R).layerSizes.length - 1) s) ∧
      (Lp.Nodup ∧ ∀ s, s ∈ Lp ↔ DistLayer (permGraphNb perms) starts ((R).layerSizes.length - 2) s) ∧
      Ed.Perm ((Vn.flatMap fun v => (List.range perms.length).map fun i =>
          (V.idxOf v, V.idxOf (genAct perms i v))) ++
        (Lp.flatMap fun v => (List.range perms.length).map fun i =>
          (V.idxOf (genAct perms i v), V.idxOf v))) := by
  exact pl_export_partial_perm perms hash ic batch starts hinj hic hb c he hh
    (pl_stored_all_partial perms hash ic batch starts hinj hic hb c
      (by rw [storeLimit_of_none c hst]; exact hsmall)) hcomp hstep

example : edgesList (bfs gP2 cPp starts2) =
    some ([(0, 1), (1, 4), (0, 5), (1, 0), (0, 2), (1, 3)] ++
      [(0, 1), (1, 4), (0, 5), (1, 0), (0, 2), (1, 3)].map Prod.swap) := expPp.2.2.2

theorem plain_export_needs_store (i m : Nat) (hi : 0 < i) (hm : (R).layerSizes[i]? = some m)
    (hbig : c.storeLimit < m) (hlast : (R).completed = true → i + 1 < (R).layerSizes.length) :
    allStates (R) = none := by
  exact pl_export_needs_store perms hash ic batch starts hinj hic hb c i m hi hm hbig hlast

example : (bfs gP2 cE4p starts2).completed = true ∧ (bfs gP2 cE4p starts2).layerSizes[2]? = some 6 ∧
    cE4p.storeLimit < 6 ∧ allStates (bfs gP2 cE4p starts2) = none := by
  refine ⟨expE4p.1, by rw [expE4p.2.1]; rfl, by decide, expE4p.2.2⟩

end plain

/-! ## single-word states: the 1-D routines and the identity hasher — NO hash hypothesis -/

section single
variable (w n : Nat) (hw : 1 ≤ w) (hw' : w ≤ 64) (hlen : encLen w n = 1) (perms : List (List Nat))
  (hp : ∀ p ∈ perms, Cv.Perm.IsPermOf n p) (ic : Bool) (starts : List (List Nat))
  (hic : ic = true → ∀ s t, InOrbit (permGraphNb perms) starts s → t ∈ permGraphNb perms s →
    s ∈ permGraphNb perms t)
  (batch : Nat) (hb : 0 < batch) (c : BfsCfg (List W))
  (hs : ∀ s ∈ starts, encodable w n s = true)
include hw hw' hlen hp hic hb hs

local notation "R" => bfs (encodedPermGraph1d w n perms identityHash ic batch) c (starts.map (encode w n))

/-- non-vacuity of the shared hypotheses: LRX(4), width 2, 8 bits = one word -/
example : (1 ≤ 2 ∧ 2 ≤ 64) ∧ encLen 2 4 = 1 ∧ (∀ p ∈ lrx4, Cv.Perm.IsPermOf 4 p) ∧
    (true = true → ∀ s t, InOrbit (permGraphNb lrx4) starts2 s → t ∈ permGraphNb lrx4 s → s ∈ permGraphNb lrx4 t) ∧
    0 < 1 ∧ (∀ s ∈ starts2, encodable 2 4 s = true) :=
  ⟨by decide, encLen_2_4, lrx4_perm, fun _ => starts2_symm, by decide, starts2_encodable⟩

theorem single_word_export_complete
    (he : c.returnEdges = true) (hh : c.returnHashes = true) (hst : c.maxStore = none)
    (hcomp : (R).completed = true)
    (hsmall : ∀ i m, 0 < i → i + 1 < (R).layerSizes.length → (R).layerSizes[i]? = some m → m ≤ 10 ^ 15) :
    ∃ (V : List (List W)) (Ed : List (Nat × Nat)),
      allStates (R) = some V ∧ edgesList (R) = some Ed ∧
      (V.map (decode w n)).Nodup ∧ (∀ s, s ∈ V.map (decode w n) ↔ InOrbit (permGraphNb perms) starts s) ∧
      (V.map (decode w n)).map (encode w n) = V ∧
      (R).hashes.flatten = V.map identityHash ∧
      Ed.Perm ((V.map (decode w n)).flatMap fun v => (List.range perms.length).map fun i =>
        ((V.map (decode w n)).idxOf v, (V.map (decode w n)).idxOf (genAct perms i v))) ∧
      (∀ i j, adjacency Ed i j = true ↔
        ∃ v k, (V.map (decode w n))[i]? = some v ∧ k < perms.length ∧
          (V.map (decode w n))[j]? = some (genAct perms k v)) := by
  rw [bfs1d_eq w n hw hw' hlen perms hp identityHash ic batch c starts] at hcomp hsmall ⊢
  have hinj' := identityHash_inj_valid w n hlen
  exact enc_export_complete_stored w n hw hw' perms hp identityHash ic batch starts hs hinj' hic hb c he hh
    (enc_stored_all_complete w n hw hw' perms hp identityHash ic batch starts hs hinj' hic hb c hcomp
      (by rw [storeLimit_of_none c hst]; exact hsmall)) hcomp

theorem single_word_export_partial
    (he : c.returnEdges = true) (hh : c.returnHashes = true) (hst : c.maxStore = none)
    (hcomp : (R).completed = false) (hstep : 2 ≤ (R).layerSizes.length)
    (hsmall : ∀ i m, 0 < i → (R).layerSizes[i]? = some m → m ≤ 10 ^ 15) :
    ∃ (V : List (List W)) (Ed : List (Nat × Nat)),
      allStates (R) = some V ∧ edgesList (R) = some Ed ∧
      (V.map (decode w n)).Nodup ∧
      (∀ s, s ∈ V.map (decode w n) ↔
        ∃ j, j < (R).layerSizes.length ∧ DistLayer (permGraphNb perms) starts j s) ∧
      (V.map (decode w n)).map (encode w n) = V ∧
      (R).hashes.flatten = V.map identityHash ∧
      (∀ v k j, j + 1 < (R).layerSizes.length → DistLayer (permGraphNb perms) starts j v → k < perms.length →
          ((V.map (decode w n)).idxOf v, (V.map (decode w n)).idxOf (genAct perms k v)) ∈ Ed) ∧
      (∀ e ∈ Ed,
        (∃ v k j, j + 1 < (R).layerSizes.length ∧ DistLayer (permGraphNb perms) starts j v ∧ k < perms.length ∧
            e = ((V.map (decode w n)).idxOf v, (V.map (decode w n)).idxOf (genAct perms k v))) ∨
        (∃ v k, DistLayer (permGraphNb perms) starts ((R).layerSizes.length - 2) v ∧ k < perms.length ∧
            e = ((V.map (decode w n)).idxOf (genAct perms k v), (V.map (decode w n)).idxOf v))) := by
  rw [bfs1d_eq w n hw hw' hlen perms hp identityHash ic batch c starts] at hcomp hstep hsmall ⊢
  have hinj' := identityHash_inj_valid w n hlen
  exact enc_export_partial_stored w n hw hw' perms hp identityHash ic batch starts hs hinj' hic hb c he hh
    (enc_stored_all_partial w n hw hw' perms hp identityHash ic batch starts hs hinj' hic hb c
      (by rw [storeLimit_of_none c hst]; exact hsmall)) hcomp hstep

theorem single_word_export_partial_exact
    (he : c.returnEdges = true) (hh : c.returnHashes = true) (hst : c.maxStore = none)
    (hcomp : (R).completed = false) (hstep : 2 ≤ (R).layerSizes.length)
    (hsmall : ∀ i m, 0 < i → (R).layerSizes[i]? = some m → m ≤ 10 ^ 15) :
    ∃ (V : List (List W)) (Ed : List (Nat × Nat)) (Dn Dl Dp : List (List Nat)),
      allStates (R) = some V ∧ edgesList (R) = some Ed ∧ V.map (decode w n) = Dn ++ Dl ∧
      (∀ s, s ∈ Dn ↔ ∃ j, j + 1 < (R).layerSizes.length ∧ DistLayer (permGraphNb perms) starts j s) ∧
      (Dl.Nodup ∧ ∀ s, s ∈ Dl ↔ DistLayer (permGraphNb perms) starts ((R).layerSizes.length - 1) s) ∧
      (Dp.Nodup ∧ ∀ s, s ∈ Dp ↔ DistLayer (permGraphNb perms) starts ((R).layerSizes.length - 2) s) ∧
      Ed.Perm ((Dn.flatMap fun v => (List.range perms.length).map fun i =>
          ((V.map (decode w n)).idxOf v, (V.map (decode w n)).idxOf (genAct perms i v))) ++
        (Dp.flatMap fun v => (List.range perms.length).map fun i =>
          ((V.map (decode w n)).idxOf (genAct perms i v), (V.map (decode w n)).idxOf v))) := by
  rw [bfs1d_eq w n hw hw' hlen perms hp identityHash ic batch c starts] at hcomp hstep hsmall ⊢
  have hinj' := identityHash_inj_valid w n hlen
  exact enc_export_partial_perm w n hw hw' perms hp identityHash ic batch starts hs hinj' hic hb c he hh
    (enc_stored_all_partial w n hw hw' perms hp identityHash ic batch starts hs hinj' hic hb c
      (by rw [storeLimit_of_none c hst]; exact hsmall)) hcomp hstep

theorem single_word_export_needs_store (i m : Nat) (hi : 0 < i) (hm : (R).layerSizes[i]? = some m)
    (hbig : c.storeLimit < m) (hlast : (R).completed = true → i + 1 < (R).layerSizes.length) :
    allStates (R) = none := by
  rw [bfs1d_eq w n hw hw' hlen perms hp identityHash ic batch c starts] at hm hlast ⊢
  exact enc_export_needs_store w n hw hw' perms hp identityHash ic batch starts hs
    (identityHash_inj_valid w n hlen) hic hb c i m hi hm hbig hlast

/-- non-vacuity of the conclusions: the single-word exports (1-D routines, identity hasher, batch size 1) evaluated in
the kernel — exhaustive (24 vertices, 72 edge rows), interrupted after one step, and with store limit 4 -/
example :
    (bfs (encodedPermGraph1d 2 4 lrx4 identityHash true 1) cE (starts2.map (encode 2 4))).completed = true ∧
    (allStates (bfs (encodedPermGraph1d 2 4 lrx4 identityHash true 1) cE (starts2.map (encode 2 4)))).map
      List.length = some 24 ∧
    (edgesList (bfs (encodedPermGraph1d 2 4 lrx4 identityHash true 1) cE (starts2.map (encode 2 4)))).map
      List.length = some 72 ∧
    (bfs (encodedPermGraph1d 2 4 lrx4 identityHash true 1) cP (starts2.map (encode 2 4))).completed = false ∧
    (allStates (bfs (encodedPermGraph1d 2 4 lrx4 identityHash true 1) cP (starts2.map (encode 2 4)))).map
        (·.map (decode 2 4)) =
      some [[1, 2, 3, 0], [0, 1, 2, 3], [2, 1, 3, 0], [2, 3, 0, 1], [3, 0, 1, 2], [1, 0, 2, 3]] ∧
    edgesList (bfs (encodedPermGraph1d 2 4 lrx4 identityHash true 1) cP (starts2.map (encode 2 4))) =
      some [(0, 3), (1, 0), (0, 1), (1, 4), (0, 2), (1, 5), (3, 0), (0, 1), (1, 0), (4, 1), (2, 0), (5, 1)] ∧
    allStates (bfs (encodedPermGraph1d 2 4 lrx4 identityHash true 1) cE4 (starts2.map (encode 2 4))) = none := exp1d

end single

end Cv.C08e
