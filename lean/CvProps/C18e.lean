/-
  C18e — end to end: `BfsResult.save` / `BfsResult.load` / `BfsResult.__eq__` (C18) for the result the BFS model returns
  on the library's ENCODED permutation graph, and a path query (C04e) answered from the LOADED result on a graph REBUILT
  from the loaded definition.
  Property theorems only.  Definitions: `CvModel/InstanceSaveLoad.lean` (`savedForm`: the `BfsResult` built from a run —
  stored layers decoded, layer sizes, completion flag, hash tensors, edge list copied, definition attached).
  Proofs: `CvProofs/InstanceSaveLoad.lean`; evaluated instance (LRX(4), width 2, `posHash`): `CvProofs/InstanceSaveLoadExample.lean`.

  What had to be proved about the BFS model itself (section 1): for EVERY graph, configuration and start list — no
  hypothesis on the hash, the flag, the batch size — `len(layers_hashes) ≤ len(layer_sizes)` (the loader stops at
  `len(layer_sizes)`; field `hashesLe` of `WF`) and the keys of the stored layers are distinct (`layersNodupKeys`, what
  `__eq__` needs).  The other fields of `WF` are about the definition (`hg`, `hcen`: generators and central state have
  the state size `n`) and about `decode` (every decoded row has length `n`).
-/
import CvProps.C18
import CvProofs.InstanceSaveLoad
import CvProofs.InstanceSaveLoadExample
namespace Cv.C18e
open Cv Cv.SaveLoad Cv.InstanceSaveLoad Cv.InstanceSaveLoad.Example Cv.Instance Cv.Instance.Example
  Cv.Instance.PathsExample Cv.Codec

/-- the saved form, spelled out -/
example (w n : Nat) (d : Cv.GraphDef.PermDef) (r : BfsOut (List W)) :
    savedForm w n d r =
      { completed := r.completed, layerSizes := r.layerSizes,
        layers := r.layers.map fun p => (p.1, p.2.map fun x => (decode w n x).map Int.ofNat),
        layersHashes := r.hashes, edges := r.edges,
        gens := d.gens, genNames := d.names, central := d.central, name := d.name } := rfl

/-! ## 1. the shape of a BFS result (any graph) -/

/-- `layers_hashes` is never longer than `layer_sizes`, and the stored layers have distinct keys — for every graph,
every configuration and every start list -/
theorem bfs_result_shape {α : Type} (g : Graph α) (c : BfsCfg α) (S : List α) :
    (bfs g c S).hashes.length ≤ (bfs g c S).layerSizes.length ∧ ((bfs g c S).layers.map (·.1)).Nodup := by
  exact ⟨bfs_hashes_le g c S, bfs_layers_keys_nodup g c S⟩
example : runH.hashes.length = 3 ∧ runH.layerSizes.length = 3 ∧ runH.layers.map (·.1) = [0, 1, 2] := by
  have h := savedH_eq
  have h1 : (savedForm 2 4 lrx4Def runH).layersHashes = savedH.layersHashes := by rw [h]
  have h2 : (savedForm 2 4 lrx4Def runH).layerSizes = savedH.layerSizes := by rw [h]
  have h3 : (savedForm 2 4 lrx4Def runH).layers.map (·.1) = savedH.layers.map (·.1) := by rw [h]
  rw [savedForm_keys] at h3
  exact ⟨by rw [show runH.hashes = savedH.layersHashes from h1]; rfl,
    by rw [show runH.layerSizes = savedH.layerSizes from h2]; rfl, by rw [h3]; rfl⟩

/-! ## 2. save / load / `__eq__` on the result of the encoded graph -/

/-- the saved form of EVERY run of the BFS model on the encoded permutation graph (any configuration, any start list —
rows need not even be encodings) is well formed in the sense of C18 -/
theorem saved_wf (w n : Nat) (hn : 0 < n) (d : Cv.GraphDef.PermDef) (hg : ∀ p ∈ d.gens, p.length = n)
    (hcen : d.central.length = n) (hash : List W → Int) (ic : Bool) (batch : Nat)
    (c : BfsCfg (List W)) (starts : List (List W)) :
    WF (savedForm w n d (bfs (encodedPermGraph w n d.gens hash ic batch) c starts)) := by
  exact ⟨savedForm_keys_nodup w n d _ c starts, savedForm_rows w n d hcen _,
    fun p hp => by rw [hg p hp]; exact hcen.symm, bfs_hashes_le _ c starts,
    by show 0 < d.central.length; rw [hcen]; exact hn⟩
example : 0 < 4 ∧ (∀ p ∈ lrx4Def.gens, p.length = 4) ∧ lrx4Def.central.length = 4 := by decide

/-- **round trip**: `load (save R) = some R` for the saved form `R` of every run -/
theorem saved_load_save (w n : Nat) (d : Cv.GraphDef.PermDef) (hg : ∀ p ∈ d.gens, p.length = n)
    (hcen : d.central.length = n) (hash : List W → Int) (ic : Bool) (batch : Nat)
    (c : BfsCfg (List W)) (starts : List (List W)) :
    load (save (savedForm w n d (bfs (encodedPermGraph w n d.gens hash ic batch) c starts))) =
      some (savedForm w n d (bfs (encodedPermGraph w n d.gens hash ic batch) c starts)) := by
  exact savedForm_load_save w n d hg hcen _ c starts
-- non-vacuity: the run to depth 2 with hashes and the run to depth 1 with the edge list, saved forms evaluated
example : load (save (savedForm 2 4 lrx4Def runH)) = some savedH := loadedH
example : savedForm 2 4 lrx4Def runH = savedH ∧ savedH.layers = [(0, [[0, 1, 2, 3]]),
    (1, [[1, 2, 3, 0], [3, 0, 1, 2], [1, 0, 2, 3]]),
    (2, [[2, 1, 3, 0], [2, 3, 0, 1], [0, 2, 3, 1], [3, 1, 0, 2], [0, 3, 1, 2]])] := ⟨savedH_eq, rfl⟩
example : load (save (savedForm 2 4 lrx4Def runE)) = some (savedForm 2 4 lrx4Def runE) ∧
    (savedForm 2 4 lrx4Def runE).edges = some [(18446744073709551844, 18446744073709551673),
      (18446744073709551844, 18446744073709551763), (18446744073709551844, 18446744073709551841),
      (18446744073709551673, 18446744073709551844), (18446744073709551763, 18446744073709551844),
      (18446744073709551841, 18446744073709551844)] :=
  ⟨saved_load_save 2 4 lrx4Def (by decide) rfl posHash true 3 _ _, by rw [savedE_eq]⟩
/-- the file that is written (depth 1, hashes) -/
example : save (savedForm 2 4 lrx4Def (bfs gE (cBall 1) [encode 2 4 id4])) =
    [("bfs_completed", .flag false), ("layer_sizes", .ints [2] [1, 3]),
     ("layer__0", .ints [1, 4] [0, 1, 2, 3]), ("layer__1", .ints [3, 4] [1, 2, 3, 0, 3, 0, 1, 2, 1, 0, 2, 3]),
     ("edges_list_hashes__0", .ints [1] [18446744073709551844]),
     ("edges_list_hashes__1", .ints [3] [18446744073709551673, 18446744073709551763, 18446744073709551841]),
     ("edges_list_hashes", .emptyMarker),
     ("graph__generators", .ints [3, 4] [1, 2, 3, 0, 3, 0, 1, 2, 1, 0, 2, 3]),
     ("graph__generator_names", .strs ["L", "R", "X"]), ("graph__central_state", .ints [4] [0, 1, 2, 3]),
     ("graph__name", .str "lrx-4")] := saved_file
/-- `hg` is needed (C18: `gensRows`): with a generator of the wrong length the definition comes back re-cut -/
example : ∃ d : Cv.GraphDef.PermDef, d.central.length = 4 ∧
    load (save (savedForm 2 4 d runH)) ≠ some (savedForm 2 4 d runH) := by
  refine ⟨⟨[[1, 0], [0, 2, 1, 3, 0, 0]], ["a", "b"], id4, ""⟩, rfl, ?_⟩
  rw [load_save_eq]
  intro h
  have := congrArg (fun r => r.map (·.gens)) h
  revert this
  decide

/-- **`__eq__`**: two saved forms are `==` iff ALL fields agree — completion flag, layer sizes, the stored layers as
dictionaries (same keys, same decoded rows), hash tensors, edge list, generators, names, central state, name; so
results that differ in any field are distinguished -/
theorem saved_beq_iff (w n w' n' : Nat) (d d' : Cv.GraphDef.PermDef) (perms perms' : List (List Nat))
    (hash hash' : List W → Int) (ic ic' : Bool) (batch batch' : Nat) (c c' : BfsCfg (List W))
    (starts starts' : List (List W)) :
    let r := bfs (encodedPermGraph w n perms hash ic batch) c starts
    let r' := bfs (encodedPermGraph w' n' perms' hash' ic' batch') c' starts'
    beq (savedForm w n d r) (savedForm w' n' d' r') = true ↔
      r.completed = r'.completed ∧ r.layerSizes = r'.layerSizes ∧
      (∀ i L, (i, L) ∈ (savedForm w n d r).layers ↔ (i, L) ∈ (savedForm w' n' d' r').layers) ∧
      r.hashes = r'.hashes ∧ r.edges = r'.edges ∧
      d.gens = d'.gens ∧ d.names = d'.names ∧ d.central = d'.central ∧ d.name = d'.name := by
  exact savedForm_beq_iff w n w' n' d d' _ _ c c' starts starts'
-- non-vacuity: the two runs differ (sizes, layers, hashes, edges); a renamed definition is seen as well
example : beq (savedForm 2 4 lrx4Def runH) (savedForm 2 4 lrx4Def runE) = false := by
  rw [savedH_eq, savedE_eq]; decide
example : beq (savedForm 2 4 lrx4Def runH) (savedForm 2 4 { lrx4Def with name := "other" } runH) = false := by
  have h : savedForm 2 4 { lrx4Def with name := "other" } runH = { savedH with name := "other" } := by
    rw [← savedH_eq]; rfl
  rw [h, savedH_eq]; decide

/-- the loaded result is `==` to the one that was saved (both ways) -/
theorem saved_beq_load_save (w n : Nat) (d : Cv.GraphDef.PermDef) (hg : ∀ p ∈ d.gens, p.length = n)
    (hcen : d.central.length = n) (hash : List W → Int) (ic : Bool) (batch : Nat)
    (c : BfsCfg (List W)) (starts : List (List W)) :
    ∃ R', load (save (savedForm w n d (bfs (encodedPermGraph w n d.gens hash ic batch) c starts))) = some R' ∧
      beq R' (savedForm w n d (bfs (encodedPermGraph w n d.gens hash ic batch) c starts)) = true ∧
      beq (savedForm w n d (bfs (encodedPermGraph w n d.gens hash ic batch) c starts)) R' = true := by
  exact ⟨_, savedForm_load_save w n d hg hcen _ c starts, beq_refl _ (savedForm_keys_nodup w n d _ c starts),
    beq_refl _ (savedForm_keys_nodup w n d _ c starts)⟩
example : ∃ R', load (save (savedForm 2 4 lrx4Def runH)) = some R' ∧ beq R' savedH = true :=
  ⟨savedH, loadedH, by decide⟩

/-! ## 3. a path query answered from the loaded result -/

/-- **C18e**: run BFS with `return_all_hashes` from the central state of the definition `d` on the encoded graph, SAVE the
result, LOAD it, REBUILD the graph from the LOADED definition (same encoding width, same hash function, the flag
recomputed from the same generators, ANY batch size) and ask `find_path_to` with the LOADED result, for any encodable
query state: the answer IS the answer of the original graph with the original result, and it is a valid shortest path of
the mathematical graph `permGraphNb d.gens` (replayed with `genAct` from the central state) / `None` exactly when the
state is in none of the stored distance classes; no assertion is reachable -/
theorem loaded_findPathTo_spec (w n : Nat) (hw : 1 ≤ w) (hw' : w ≤ 64) (d : Cv.GraphDef.PermDef)
    (hp : ∀ p ∈ d.gens, Cv.Perm.IsPermOf n p) (hcen : d.central.length = n) (hash : List W → Int)
    (hinj : ∀ x y : List W, x.length = encLen w n → y.length = encLen w n → hash x = hash y → x = y)
    (ic : Bool) (hic : ic = true → ∀ p ∈ d.gens, Cv.Perm.inverse p ∈ d.gens) (batch : Nat) (hb : 0 < batch)
    (c : BfsCfg (List W)) (hr : c.returnHashes = true) (hc : encodable w n d.central = true)
    (batch' : Nat) (q : List Nat) (hq : encodable w n q = true) :
    let run := bfs (encodedPermGraph w n d.gens hash ic batch) c [encode w n d.central]
    ∃ R', load (save (savedForm w n d run)) = some R' ∧
      R'.gens = d.gens ∧ R'.central = d.central ∧ R'.layersHashes = run.hashes ∧
      findPathTo (encodedPermGraph w n R'.gens hash ic batch') (encodedPermGraphInv w n R'.gens hash ic batch')
          R'.layersHashes (encode w n q) =
        findPathTo (encodedPermGraph w n d.gens hash ic batch) (encodedPermGraphInv w n d.gens hash ic batch)
          run.hashes (encode w n q) ∧
      match findPathTo (encodedPermGraph w n R'.gens hash ic batch') (encodedPermGraphInv w n R'.gens hash ic batch')
          R'.layersHashes (encode w n q) with
      | .found p => applyPath (genAct R'.gens) R'.central p = q ∧
          DistLayer (permGraphNb d.gens) [d.central] p.length q ∧ p.length < R'.layersHashes.length ∧
          ∀ i ∈ p, i < d.gens.length
      | .notFound => ∀ i, i < R'.layersHashes.length → ¬ DistLayer (permGraphNb d.gens) [d.central] i q
      | .assertFail _ => False := by
  exact Cv.InstanceSaveLoad.loaded_findPathTo_spec w n hw hw' d hp hcen hash ic batch
    (fun x y hx hy h => hinj x y (length_of_valid hx) (length_of_valid hy) h) hic hb c hr hc batch' q hq
-- non-vacuity: LRX(4), width 2, `posHash`, depth 2; the loaded result is `savedH`; the graph is rebuilt with batch size 7
example : (1 ≤ 2 ∧ 2 ≤ 64) ∧ (∀ p ∈ lrx4Def.gens, Cv.Perm.IsPermOf 4 p) ∧ lrx4Def.central.length = 4 ∧
    (∀ x y : List W, x.length = encLen 2 4 → y.length = encLen 2 4 → posHash x = posHash y → x = y) ∧
    (true = true → ∀ p ∈ lrx4Def.gens, Cv.Perm.inverse p ∈ lrx4Def.gens) ∧ 0 < 3 ∧ (cBall 2).returnHashes = true ∧
    encodable 2 4 lrx4Def.central = true ∧ encodable 2 4 [2, 3, 0, 1] = true :=
  ⟨by decide, lrx4_perm, rfl, fun _ _ _ _ h => posHash_injective h, fun _ => lrx4_invClosed, by decide, rfl, id4_enc,
    by decide⟩
example : load (save (savedForm 2 4 lrx4Def runH)) = some savedH ∧
    findPathTo (encodedPermGraph 2 4 savedH.gens posHash true 7) (encodedPermGraphInv 2 4 savedH.gens posHash true 7)
      savedH.layersHashes (encode 2 4 [2, 3, 0, 1]) = .found [0, 0] ∧
    applyPath (genAct savedH.gens) savedH.central [0, 0] = [2, 3, 0, 1] ∧
    findPathTo (encodedPermGraph 2 4 savedH.gens posHash true 7) (encodedPermGraphInv 2 4 savedH.gens posHash true 7)
      savedH.layersHashes (encode 2 4 [1, 3, 0, 2]) = .notFound :=
  ⟨loadedH, loaded_to_found, by decide, loaded_to_outside⟩
/-- the same for `find_path_from` (flag set, generator list closed under inverses): the inverse map is recomputed from
the LOADED generators -/
theorem loaded_findPathFrom_spec (w n : Nat) (hw : 1 ≤ w) (hw' : w ≤ 64) (d : Cv.GraphDef.PermDef)
    (hp : ∀ p ∈ d.gens, Cv.Perm.IsPermOf n p) (hcen : d.central.length = n) (hash : List W → Int)
    (hinj : ∀ x y : List W, x.length = encLen w n → y.length = encLen w n → hash x = hash y → x = y)
    (ic : Bool) (hic : ic = true) (hcl : ∀ p ∈ d.gens, Cv.Perm.inverse p ∈ d.gens) (batch : Nat) (hb : 0 < batch)
    (c : BfsCfg (List W)) (hr : c.returnHashes = true) (hc : encodable w n d.central = true)
    (batch' : Nat) (q : List Nat) (hq : encodable w n q = true) :
    let run := bfs (encodedPermGraph w n d.gens hash ic batch) c [encode w n d.central]
    ∃ R', load (save (savedForm w n d run)) = some R' ∧
      findPathFrom (encodedPermGraph w n R'.gens hash ic batch') (encodedPermGraphInv w n R'.gens hash ic batch')
          (permInvMap R'.gens) R'.layersHashes (encode w n q) =
        findPathFrom (encodedPermGraph w n d.gens hash ic batch) (encodedPermGraphInv w n d.gens hash ic batch)
          (permInvMap d.gens) run.hashes (encode w n q) ∧
      match findPathFrom (encodedPermGraph w n R'.gens hash ic batch')
          (encodedPermGraphInv w n R'.gens hash ic batch') (permInvMap R'.gens) R'.layersHashes (encode w n q) with
      | .found p => applyPath (genAct R'.gens) q p = R'.central ∧
          DistLayer (permGraphNb d.gens) [d.central] p.length q ∧ p.length < R'.layersHashes.length ∧
          ∀ i ∈ p, i < d.gens.length
      | .notFound => ∀ i, i < R'.layersHashes.length → ¬ DistLayer (permGraphNb d.gens) [d.central] i q
      | .assertFail _ => False := by
  exact Cv.InstanceSaveLoad.loaded_findPathFrom_spec w n hw hw' d hp hcen hash ic batch
    (fun x y hx hy h => hinj x y (length_of_valid hx) (length_of_valid hy) h) hic hcl hb c hr hc batch' q hq
example : (∀ p ∈ lrx4Def.gens, Cv.Perm.inverse p ∈ lrx4Def.gens) ∧
    findPathFrom (encodedPermGraph 2 4 savedH.gens posHash true 7) (encodedPermGraphInv 2 4 savedH.gens posHash true 7)
      (permInvMap savedH.gens) savedH.layersHashes (encode 2 4 [2, 3, 0, 1]) = .found [1, 1] ∧
    applyPath (genAct savedH.gens) [2, 3, 0, 1] [1, 1] = savedH.central :=
  ⟨lrx4_invClosed, loaded_from_found, by decide⟩

/-- the SAME hash function is needed: rebuilt with the identity hasher, the graph answers `None` for a state at distance
2 inside the loaded ball of depth 2 (the file does not record the hasher) -/
example : findPathTo (encodedPermGraph 2 4 savedH.gens identityHash true 3)
      (encodedPermGraphInv 2 4 savedH.gens identityHash true 3) savedH.layersHashes (encode 2 4 [2, 3, 0, 1]) =
        .notFound ∧
    DistLayer (permGraphNb lrx4) [id4] 2 [2, 3, 0, 1] := other_hash_wrong

end Cv.C18e
