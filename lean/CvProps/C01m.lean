/-
  C01m — the matrix-group instance: BFS over flattened integer matrices = distance classes of the mathematical graph
  "multiply from the left by a generator matrix, reduce mod m" (resp. exact product for `modulo = 0`).
  Property theorems only; definitions in `CvModel/InstanceMat.lean`, proofs in `CvProofs/InstanceMat.lean`, the evaluated
  examples (Heisenberg group mod 3, rotation group of order 4 with `modulo = 0`, overflow cases) in
  `CvProofs/InstanceMatExample.lean`.

  Notes on the statements (details in REPORT.md):
  * `matGraph.act i` is the model `Cv.Matrix.apply` (the existing model of `MatrixGenerator.apply_batch_torch`) on int64
    values read as residues modulo `B` (`B = m`, or `2^64` for `modulo = 0`).  For a positive modulo this model is exact
    arithmetic modulo `m`, so `matGraph_act_eq` holds WITHOUT any bound (`matGraph_act_eq_any`); the sketched bounds are
    kept in `matGraph_act_eq` for reference but are not used.  Where int64 wrap-around is excluded is the step
    code → model: `apply_batch_int64_eq_model` (repaired code, needs `(m-1)^2 < 2^63` and `n (m-1) < 2^63`, both implied
    by `m ≤ 2^31`, `n < 2^32`), `apply_batch_int64_sum_eq_model` (original code, needs `n (m-1)^2 < 2^63`; the next
    case `n = 3`, `m = 2^31 - 1` wraps, see the `example`), `apply_batch_int64_eq_model_modulo0` (no condition).
  * For `modulo = 0` the model wraps; `matGraph_act_eq_modulo0` has the exact condition (every entry of the exact product
    fits int64, `matGraph_act_ne_of_overflow` is the converse) and `mat_bfs_layers_eq_dist_modulo0` asks for it on the
    orbit of the mathematical graph.
-/
import CvProofs.InstanceMat
import CvProofs.InstanceMatExample
import CvProofs.InstanceMatSymm
namespace Cv.C01m
open Cv Cv.InstanceMat Cv.InstanceMat.Example

/-! ## (a) the modelled action is the mathematical one -/

/-- (a) as sketched: entries of generators and state in `[0, m)`, `2 ≤ m ≤ 2^31`, `n (m-1)^2 < 2^63` -/
theorem matGraph_act_eq (gens : List MatGen) (n k m : Nat) (hash : List Int → Int) (ic : Bool) (batch : Nat)
    (_hm : 2 ≤ m) (_hm' : m ≤ 2 ^ 31) (_hn : n * ((m - 1) * (m - 1)) < 2 ^ 63)
    (hg : ∀ G ∈ gens, G.modulo = m ∧ ∀ e ∈ G.matrix, 0 ≤ e ∧ e < (m : Int))
    (S : List Int) (_hS : ∀ e ∈ S, 0 ≤ e ∧ e < (m : Int)) (i : Nat) (hi : i < gens.length) :
    (matGraph gens n k hash ic batch).act i S = matApply (gens.getD i ⟨[], 0⟩) n k S := by
  exact matAct_eq_of_modulo _ (by rw [(hg _ (getD_mem' gens _ i hi)).1]; omega) n k S

/-- non-vacuity: the Heisenberg generators mod 3 acting on 3×3 states -/
example : 2 ≤ 3 ∧ 3 ≤ 2 ^ 31 ∧ 3 * ((3 - 1) * (3 - 1)) < 2 ^ 63 ∧
    (∀ G ∈ heis3, G.modulo = 3 ∧ ∀ e ∈ G.matrix, 0 ≤ e ∧ e < ((3 : Nat) : Int)) ∧
    (∀ e ∈ [1, 2, 0, 0, 1, 2, 0, 0, 1], 0 ≤ e ∧ e < ((3 : Nat) : Int)) ∧ 0 < heis3.length ∧
    (matGraph heis3 3 3 b3Hash true 2).act 0 [1, 2, 0, 0, 1, 2, 0, 0, 1] = [1, 0, 2, 0, 1, 2, 0, 0, 1] := by
  decide +kernel

/-- (a), what the model needs: NOTHING beyond a positive modulo — any integer entries (they are reduced on entry), any
`n`, any `m ≥ 1`: `Cv.Matrix.apply` with `B = m` is exact arithmetic modulo `m` -/
theorem matGraph_act_eq_any (gens : List MatGen) (n k : Nat) (hash : List Int → Int) (ic : Bool) (batch : Nat)
    (S : List Int) (i : Nat) (hm : (gens.getD i ⟨[], 0⟩).modulo ≠ 0) :
    (matGraph gens n k hash ic batch).act i S = matApply (gens.getD i ⟨[], 0⟩) n k S := by
  exact matAct_eq_of_modulo _ hm n k S

/-- non-vacuity: entries far outside `[0, m)` and a product far beyond `2^63` -/
example : (matGraph [⟨[2 ^ 40, -1, 5, 2 ^ 70], 7⟩] 2 1 b3Hash false 1).act 0 [2 ^ 41, -(2 ^ 65)] =
    matApply ⟨[2 ^ 40, -1, 5, 2 ^ 70], 7⟩ 2 1 [2 ^ 41, -(2 ^ 65)] ∧
    matApply ⟨[2 ^ 40, -1, 5, 2 ^ 70], 7⟩ 2 1 [2 ^ 41, -(2 ^ 65)] = [5, 5] := by decide +kernel

/-- (a) for `modulo = 0`: the model wraps, and agrees with the exact product when every entry of it fits int64 -/
theorem matGraph_act_eq_modulo0 (gens : List MatGen) (n k : Nat) (hash : List Int → Int) (ic : Bool) (batch : Nat)
    (S : List Int) (i : Nat)
    (hfit : ∀ x ∈ matProd n k (gens.getD i ⟨[], 0⟩).matrix S, -(2 ^ 63) ≤ x ∧ x < 2 ^ 63) :
    (matGraph gens n k hash ic batch).act i S = matApply (gens.getD i ⟨[], 0⟩) n k S := by
  exact matAct_eq _ n k S (fun _ => hfit)

/-- … and ONLY then: the condition is exact -/
theorem matGraph_act_ne_of_overflow (gens : List MatGen) (n k : Nat) (hash : List Int → Int) (ic : Bool)
    (batch : Nat) (S : List Int) (i : Nat) (hm : (gens.getD i ⟨[], 0⟩).modulo = 0) (x : Int)
    (hx : x ∈ matProd n k (gens.getD i ⟨[], 0⟩).matrix S) (hover : ¬ (-(2 ^ 63) ≤ x ∧ x < 2 ^ 63)) :
    (matGraph gens n k hash ic batch).act i S ≠ matApply (gens.getD i ⟨[], 0⟩) n k S := by
  exact matAct_ne_of_overflow _ hm n k S x hx hover

/-- non-vacuity and sharpness: `2^32 · (2^31 - 1)` fits, the next case `2^32 · 2^31 = 2^63` wraps to `-2^63` -/
example :
    InstanceMat.matAct ⟨[2 ^ 32], 0⟩ 1 1 [2 ^ 31 - 1] = [2 ^ 63 - 2 ^ 32] ∧ matApply ⟨[2 ^ 32], 0⟩ 1 1 [2 ^ 31 - 1] = [2 ^ 63 - 2 ^ 32] ∧
    InstanceMat.matAct ⟨[2 ^ 32], 0⟩ 1 1 [2 ^ 31] = [-(2 ^ 63)] ∧ matApply ⟨[2 ^ 32], 0⟩ 1 1 [2 ^ 31] = [2 ^ 63] ∧
    matActInt64 ⟨[2 ^ 32], 0⟩ 1 1 [2 ^ 31] = [-(2 ^ 63)] := wrap_modulo0

/-! ### where wrap-around is excluded: `apply_batch_torch` in int64 arithmetic against the model -/

/-- the repaired code (`prod %= m` before the sum), statement by statement in wrapping int64 arithmetic, computes the
model's action when one product and the sum of `n` reduced products fit int64 -/
theorem apply_batch_int64_eq_model (G : MatGen) (n k : Nat) (S : List Int) (hm : G.modulo ≠ 0)
    (hprod : ((G.modulo : Int) - 1) * ((G.modulo : Int) - 1) < 2 ^ 63)
    (hsum : (n : Int) * ((G.modulo : Int) - 1) < 2 ^ 63)
    (hG : ∀ e ∈ G.matrix, 0 ≤ e ∧ e < G.modulo) (hS : ∀ e ∈ S, 0 ≤ e ∧ e < G.modulo) :
    matActInt64 G n k S = InstanceMat.matAct G n k S := by
  exact matActInt64_eq G n k S hm hprod hsum hG hS

/-- the original code (sum first, then `%`) needs the sum of `n` UNREDUCED products to fit int64 -/
theorem apply_batch_int64_sum_eq_model (G : MatGen) (n k : Nat) (S : List Int) (hm : G.modulo ≠ 0)
    (hsum : (n : Int) * (((G.modulo : Int) - 1) * ((G.modulo : Int) - 1)) < 2 ^ 63)
    (hG : ∀ e ∈ G.matrix, 0 ≤ e ∧ e < G.modulo) (hS : ∀ e ∈ S, 0 ≤ e ∧ e < G.modulo) :
    matActInt64Sum G n k S = InstanceMat.matAct G n k S := by
  exact matActInt64Sum_eq G n k S hm hsum hG hS

/-- non-vacuity and sharpness, `m = 2^31 - 1`, all entries `m - 1`: for `n = 2` the bound `n (m-1)^2 < 2^63` holds
and the original code is right; `n = 3` is the next case, the bound fails and the original code returns `2147483646`
instead of `3` (the sum wraps), while the model and the repaired code return `3` -/
example :
    (2 : Int) * ((2147483647 - 1) * (2147483647 - 1)) < 2 ^ 63 ∧
    ¬ (3 : Int) * ((2147483647 - 1) * (2147483647 - 1)) < 2 ^ 63 ∧
    matActInt64Sum ⟨[2147483646, 2147483646, 0, 0], 2147483647⟩ 2 1 [2147483646, 2147483646] = [2, 0] ∧
    matApply ⟨[2147483646, 2147483646, 0, 0], 2147483647⟩ 2 1 [2147483646, 2147483646] = [2, 0] ∧
    matApply ⟨[2147483646, 2147483646, 2147483646, 0, 0, 0, 0, 0, 0], 2147483647⟩ 3 1
      [2147483646, 2147483646, 2147483646] = [3, 0, 0] ∧
    InstanceMat.matAct ⟨[2147483646, 2147483646, 2147483646, 0, 0, 0, 0, 0, 0], 2147483647⟩ 3 1
      [2147483646, 2147483646, 2147483646] = [3, 0, 0] ∧
    matActInt64 ⟨[2147483646, 2147483646, 2147483646, 0, 0, 0, 0, 0, 0], 2147483647⟩ 3 1
      [2147483646, 2147483646, 2147483646] = [3, 0, 0] ∧
    matActInt64Sum ⟨[2147483646, 2147483646, 2147483646, 0, 0, 0, 0, 0, 0], 2147483647⟩ 3 1
      [2147483646, 2147483646, 2147483646] = [2147483646, 0, 0] := wrap_sum_first

/-- `modulo = 0`: wrapping int64 arithmetic IS the model (arithmetic modulo `2^64`), on all inputs -/
theorem apply_batch_int64_eq_model_modulo0 (G : MatGen) (n k : Nat) (S : List Int) (hm : G.modulo = 0) :
    matActInt64 G n k S = InstanceMat.matAct G n k S := by
  exact matActInt64_eq_zero G n k S hm

example : matActInt64 rot 2 2 [0, -1, 1, 0] = [-1, 0, 0, -1] ∧ InstanceMat.matAct rot 2 2 [0, -1, 1, 0] = [-1, 0, 0, -1] := by
  decide +kernel

/-! ## (b) BFS on the matrix graph, positive modulo -/

/-- (b): an exhaustive run of the BFS model on `matGraph` (every generator with a positive modulo) reports the growth
function of the mathematical graph `matNb`, and every stored layer is exactly a distance class.  The hash has to be
injective on the orbit, the inverse-closed flag is only allowed when the mathematical graph is symmetric on the orbit -/
theorem mat_bfs_layers_eq_dist (gens : List MatGen) (n k : Nat) (hmod : ∀ G ∈ gens, G.modulo ≠ 0)
    (hash : List Int → Int) (starts : List (List Int))
    (hinj : ∀ S T, InOrbit (matNb gens n k) starts S → InOrbit (matNb gens n k) starts T →
      hash S = hash T → S = T)
    (ic : Bool)
    (hic : ic = true → ∀ S T, InOrbit (matNb gens n k) starts S → T ∈ matNb gens n k S → S ∈ matNb gens n k T)
    (batch : Nat) (hb : 0 < batch) (c : BfsCfg (List Int))
    (hcomp : (bfs (matGraph gens n k hash ic batch) c starts).completed = true) :
    let r := bfs (matGraph gens n k hash ic batch) c starts
    (∀ i, i < r.layerSizes.length → ∃ L : List (List Int), L.Nodup ∧
      (∀ S, S ∈ L ↔ DistLayer (matNb gens n k) starts i S) ∧ r.layerSizes[i]? = some L.length) ∧
    (∀ S, ¬ DistLayer (matNb gens n k) starts r.layerSizes.length S) ∧
    (∀ i L, (i, L) ∈ r.layers → L.Nodup ∧ ∀ S, S ∈ L ↔ DistLayer (matNb gens n k) starts i S) := by
  exact mat_bfs_spec gens n k hash ic batch starts (orbitFits_of_modulo gens n k starts hmod) hinj hic hb c hcomp

/-- non-vacuity: the Heisenberg group mod 3 (generators `x, y, x⁻¹, y⁻¹`), base-3 hash, flagged inverse-closed, batch
size 2: every hypothesis holds (completion is DERIVED from facts about the mathematical graph) -/
example : (∀ G ∈ heis3, G.modulo ≠ 0) ∧
    (∀ S T, InOrbit (matNb heis3 3 3) [eye3] S → InOrbit (matNb heis3 3 3) [eye3] T → b3Hash S = b3Hash T → S = T) ∧
    (true = true → ∀ S T, InOrbit (matNb heis3 3 3) [eye3] S → T ∈ matNb heis3 3 3 S → S ∈ matNb heis3 3 3 T) ∧
    0 < 2 ∧ (bfs (matGraph heis3 3 3 b3Hash true 2) {} [eye3]).completed = true :=
  ⟨heis3_modulo, b3Hash_inj, fun _ => heis3_symm, by decide, heis3_completed⟩

/-- the run evaluated in the kernel: growth function `1 + 4 + 8 + 12 + 2 = 27` and all five layers -/
example :
    (bfs (matGraph heis3 3 3 b3Hash true 2) {} [eye3]).completed = true ∧
    (bfs (matGraph heis3 3 3 b3Hash true 2) {} [eye3]).layerSizes = [1, 4, 8, 12, 2] ∧
    (bfs (matGraph heis3 3 3 b3Hash true 2) {} [eye3]).layers =
      [(0, [[1, 0, 0, 0, 1, 0, 0, 0, 1]]),
       (1, [[1, 0, 0, 0, 1, 1, 0, 0, 1], [1, 0, 0, 0, 1, 2, 0, 0, 1], [1, 1, 0, 0, 1, 0, 0, 0, 1],
            [1, 2, 0, 0, 1, 0, 0, 0, 1]]),
       (2, [[1, 1, 1, 0, 1, 1, 0, 0, 1], [1, 1, 2, 0, 1, 2, 0, 0, 1], [1, 2, 1, 0, 1, 2, 0, 0, 1],
            [1, 2, 2, 0, 1, 1, 0, 0, 1], [1, 1, 0, 0, 1, 1, 0, 0, 1], [1, 1, 0, 0, 1, 2, 0, 0, 1],
            [1, 2, 0, 0, 1, 1, 0, 0, 1], [1, 2, 0, 0, 1, 2, 0, 0, 1]]),
       (3, [[1, 1, 1, 0, 1, 0, 0, 0, 1], [1, 1, 1, 0, 1, 2, 0, 0, 1], [1, 1, 2, 0, 1, 0, 0, 0, 1],
            [1, 1, 2, 0, 1, 1, 0, 0, 1], [1, 2, 1, 0, 1, 0, 0, 0, 1], [1, 2, 1, 0, 1, 1, 0, 0, 1],
            [1, 2, 2, 0, 1, 0, 0, 0, 1], [1, 2, 2, 0, 1, 2, 0, 0, 1], [1, 0, 1, 0, 1, 2, 0, 0, 1],
            [1, 0, 2, 0, 1, 1, 0, 0, 1], [1, 0, 1, 0, 1, 1, 0, 0, 1], [1, 0, 2, 0, 1, 2, 0, 0, 1]]),
       (4, [[1, 0, 1, 0, 1, 0, 0, 0, 1], [1, 0, 2, 0, 1, 0, 0, 0, 1]])] := heis3_run

/-- … a consequence of the theorem for this run: the centre elements `I ± E(0,2)` are exactly the states at distance 4 -/
example : ∀ S, S ∈ [[1, 0, 1, 0, 1, 0, 0, 0, 1], [1, 0, 2, 0, 1, 0, 0, 0, 1]] ↔
    DistLayer (matNb heis3 3 3) [eye3] 4 S :=
  ((mat_bfs_layers_eq_dist heis3 3 3 heis3_modulo b3Hash [eye3] b3Hash_inj true (fun _ => heis3_symm) 2 (by decide) {}
    heis3_completed).2.2 4 _ (by rw [show (bfs (matGraph heis3 3 3 b3Hash true 2) {} [eye3]).layers = _ from heis3_run.2.2]; decide)).2

/-- the natural form of (b): the flag `generators_inverse_closed` is only set when every generator has an inverse
modulo `m` in the list (`G' · G ≡ I`); then the mathematical graph is symmetric on the orbit of reduced start states of
the right size, and no symmetry hypothesis is left -/
theorem mat_bfs_layers_eq_dist_invClosed (gens : List MatGen) (n k m : Nat) (hm : m ≠ 0)
    (hmod : ∀ G ∈ gens, G.modulo = m) (hash : List Int → Int) (starts : List (List Int))
    (hstarts : ∀ S ∈ starts, S.length = n * k ∧ ∀ e ∈ S, 0 ≤ e ∧ e < (m : Int))
    (hinj : ∀ S T, InOrbit (matNb gens n k) starts S → InOrbit (matNb gens n k) starts T →
      hash S = hash T → S = T)
    (ic : Bool)
    (hic : ic = true → ∀ G ∈ gens, ∃ G' ∈ gens,
      (matProd n n G'.matrix G.matrix).map (· % (m : Int)) = (eyeInt n).map (· % (m : Int)))
    (batch : Nat) (hb : 0 < batch) (c : BfsCfg (List Int))
    (hcomp : (bfs (matGraph gens n k hash ic batch) c starts).completed = true) :
    let r := bfs (matGraph gens n k hash ic batch) c starts
    (∀ i, i < r.layerSizes.length → ∃ L : List (List Int), L.Nodup ∧
      (∀ S, S ∈ L ↔ DistLayer (matNb gens n k) starts i S) ∧ r.layerSizes[i]? = some L.length) ∧
    (∀ S, ¬ DistLayer (matNb gens n k) starts r.layerSizes.length S) ∧
    (∀ i L, (i, L) ∈ r.layers → L.Nodup ∧ ∀ S, S ∈ L ↔ DistLayer (matNb gens n k) starts i S) := by
  exact mat_bfs_spec gens n k hash ic batch starts
    (orbitFits_of_modulo gens n k starts (fun G hG => by rw [hmod G hG]; exact hm)) hinj
    (fun h => matNb_symmOnOrbit gens n k m hm hmod (hic h) starts hstarts) hb c hcomp

/-- non-vacuity: the four Heisenberg generators mod 3 are closed under inverses (checked against `eyeInt 3`), the start
state is reduced; without the inverses the graph is not symmetric at the start state -/
example : 3 ≠ 0 ∧ (∀ G ∈ heis3, G.modulo = 3) ∧
    (∀ S ∈ [eye3], S.length = 3 * 3 ∧ ∀ e ∈ S, 0 ≤ e ∧ e < ((3 : Nat) : Int)) ∧
    (true = true → ∀ G ∈ heis3, ∃ G' ∈ heis3,
      (matProd 3 3 G'.matrix G.matrix).map (· % ((3 : Nat) : Int)) = (eyeInt 3).map (· % ((3 : Nat) : Int))) ∧
    ¬ (∀ t ∈ matNb [hx, hy] 3 3 eye3, eye3 ∈ matNb [hx, hy] 3 3 t) :=
  ⟨by decide, by decide, by decide +kernel, fun _ => heis3_invClosed, by decide +kernel⟩

/-- the two generators `x, y` alone (directed graph, no flag): evaluated growth function -/
example :
    (bfs (matGraph [hx, hy] 3 3 b3Hash false 2) {} [eye3]).completed = true ∧
    (bfs (matGraph [hx, hy] 3 3 b3Hash false 2) {} [eye3]).layerSizes = [1, 2, 4, 6, 7, 5, 2] := heis3_directed_run

/-- the search reports completion whenever the MATHEMATICAL graph has an empty class `d ≤ max_diameter`, its orbit is
smaller than `max_layer_size_to_explore` and no callback stops the run (how `hcomp` is discharged); `hfit` is
`OrbitFits`, trivially true for positive moduli -/
theorem mat_bfs_completes (gens : List MatGen) (n k : Nat) (hash : List Int → Int) (starts : List (List Int))
    (hfit : ∀ S, InOrbit (matNb gens n k) starts S → ∀ G ∈ gens, G.modulo = 0 →
      ∀ x ∈ matProd n k G.matrix S, -(2 ^ 63) ≤ x ∧ x < 2 ^ 63)
    (hinj : ∀ S T, InOrbit (matNb gens n k) starts S → InOrbit (matNb gens n k) starts T →
      hash S = hash T → S = T)
    (ic : Bool)
    (hic : ic = true → ∀ S T, InOrbit (matNb gens n k) starts S → T ∈ matNb gens n k S → S ∈ matNb gens n k T)
    (batch : Nat) (hb : 0 < batch) (c : BfsCfg (List Int))
    (d : Nat) (hd1 : 1 ≤ d) (hdd : d ≤ c.maxDiameter)
    (hempty : ∀ S, ¬ DistLayer (matNb gens n k) starts d S)
    (all : List (List Int)) (hall : ∀ S, InOrbit (matNb gens n k) starts S → S ∈ all)
    (hsmall : all.length < c.maxExplore)
    (hstop : ∀ f, c.stop = some f → ∀ i l, f i l = false) :
    (bfs (matGraph gens n k hash ic batch) c starts).completed = true := by
  exact Cv.InstanceMat.mat_bfs_completes gens n k hash ic batch starts hfit hinj hic hb c d hd1 hdd hempty all hall
    hsmall hstop

/-- non-vacuity: for the Heisenberg group mod 3 class 5 is empty and the orbit has 27 states -/
example : 1 ≤ 5 ∧ 5 ≤ ({} : BfsCfg (List Int)).maxDiameter ∧
    (∀ S, ¬ DistLayer (matNb heis3 3 3) [eye3] 5 S) ∧
    (∀ S, InOrbit (matNb heis3 3 3) [eye3] S → S ∈ all27) ∧
    all27.length < ({} : BfsCfg (List Int)).maxExplore :=
  ⟨by decide, by decide, class5_empty, orbit_subset, by rw [all27_length]; decide⟩

/-! ## (c) BFS on the matrix graph, `modulo = 0` -/

/-- (c): the same for arbitrary moduli, `modulo = 0` included, under the hypothesis that on the orbit of the
MATHEMATICAL graph no entry of a product with a `modulo = 0` generator leaves int64 (`hfit`; for the states themselves
this follows, they are products or start states) -/
theorem mat_bfs_layers_eq_dist_modulo0 (gens : List MatGen) (n k : Nat)
    (hash : List Int → Int) (starts : List (List Int))
    (hfit : ∀ S, InOrbit (matNb gens n k) starts S → ∀ G ∈ gens, G.modulo = 0 →
      ∀ x ∈ matProd n k G.matrix S, -(2 ^ 63) ≤ x ∧ x < 2 ^ 63)
    (hinj : ∀ S T, InOrbit (matNb gens n k) starts S → InOrbit (matNb gens n k) starts T →
      hash S = hash T → S = T)
    (ic : Bool)
    (hic : ic = true → ∀ S T, InOrbit (matNb gens n k) starts S → T ∈ matNb gens n k S → S ∈ matNb gens n k T)
    (batch : Nat) (hb : 0 < batch) (c : BfsCfg (List Int))
    (hcomp : (bfs (matGraph gens n k hash ic batch) c starts).completed = true) :
    let r := bfs (matGraph gens n k hash ic batch) c starts
    (∀ i, i < r.layerSizes.length → ∃ L : List (List Int), L.Nodup ∧
      (∀ S, S ∈ L ↔ DistLayer (matNb gens n k) starts i S) ∧ r.layerSizes[i]? = some L.length) ∧
    (∀ S, ¬ DistLayer (matNb gens n k) starts r.layerSizes.length S) ∧
    (∀ i L, (i, L) ∈ r.layers → L.Nodup ∧ ∀ S, S ∈ L ↔ DistLayer (matNb gens n k) starts i S) := by
  exact mat_bfs_spec gens n k hash ic batch starts hfit hinj hic hb c hcomp

/-- non-vacuity: the rotation group of order 4 (`modulo = 0`, entries `-1, 0, 1`), generators rotation and inverse -/
example :
    (∀ S, InOrbit (matNb c4 2 2) [eye2] S → ∀ G ∈ c4, G.modulo = 0 →
      ∀ x ∈ matProd 2 2 G.matrix S, -(2 ^ 63) ≤ x ∧ x < 2 ^ 63) ∧
    (∀ S T, InOrbit (matNb c4 2 2) [eye2] S → InOrbit (matNb c4 2 2) [eye2] T → sHash S = sHash T → S = T) ∧
    (true = true → ∀ S T, InOrbit (matNb c4 2 2) [eye2] S → T ∈ matNb c4 2 2 S → S ∈ matNb c4 2 2 T) ∧
    0 < 1 ∧
    (bfs (matGraph c4 2 2 sHash true 1) {} [eye2]).completed = true ∧
    (bfs (matGraph c4 2 2 sHash true 1) {} [eye2]).layerSizes = [1, 2, 1] ∧
    (bfs (matGraph c4 2 2 sHash true 1) {} [eye2]).layers =
      [(0, [[1, 0, 0, 1]]), (1, [[0, -1, 1, 0], [0, 1, -1, 0]]), (2, [[-1, 0, 0, -1]])] :=
  ⟨c4_fits, sHash_inj, fun _ => c4_symm, by decide, c4_run.1, c4_run.2.1, c4_run.2.2⟩

end Cv.C01m
