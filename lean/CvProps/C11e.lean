/-
  C11e — the alternative BFS engines: gray/black bit-set BFS (`bfs_bitmask.py` bookkeeping), NumPy per-generator
  frontier groups (`bfs_numpy.py`), rank / unrank of permutations.  Property theorems only; proofs in
  `CvProofs/Engines.lean`.
-/
import CvProofs.Engines
namespace Cv
variable {α : Type} [DecidableEq α]

/-- gray/black bit-set BFS = growth function (any graph, any depth limit) -/
theorem bfsBitset_spec (nb : α → List α) (start : α) (D : Nat) :
    let sizes := bfsBitset nb start D
    (∀ (i n : Nat), sizes[i]? = some n → ∃ L : List α, L.Nodup ∧ (∀ x, x ∈ L ↔ DistLayer nb [start] i x) ∧ n = L.length) ∧
    1 ≤ sizes.length ∧ sizes.length ≤ D + 1 ∧ (∀ (i n : Nat), sizes[i]? = some n → 0 < n) ∧
    (sizes.length < D + 1 → ∀ x, ¬ DistLayer nb [start] sizes.length x) := by
  exact bfsBitset_spec' nb start D

/-- non-vacuity: the 5-cycle, exhausted before the limit (premise of the last clause holds); a directed 6-cycle cut by
the depth limit -/
example : bfsBitset (fun x : Nat => [(x+1) % 5, (x+4) % 5]) 0 10 = [1, 2, 2] := by decide
example : (bfsBitset (fun x : Nat => [(x+1) % 5, (x+4) % 5]) 0 10).length < 10 + 1 := by decide
example : bfsBitset (fun x : Nat => [(x+1) % 6]) 0 3 = [1, 1, 1, 1] := by decide

/-- NumPy engine (per-generator frontier groups) on inverse-closed generators = growth function.  `NumpyHyp`
(`CvProofs/Engines.lean`): `invIdx` has one entry per generator and `invIdx[i]` is the index of a two-sided inverse of
generator `i`.  No distinctness of the generators and no `0 < nGens` is needed; `1 ≤ D` is needed (example below). -/
theorem bfsNumpy_spec (nGens : Nat) (act : Nat → α → α) (invIdx : List Nat) (h : NumpyHyp nGens act invIdx)
    (start : α) (D : Nat) (hD : 1 ≤ D) :
    let sizes := bfsNumpy nGens act invIdx start D
    (∀ (i n : Nat), sizes[i]? = some n →
      ∃ L : List α, L.Nodup ∧ (∀ x, x ∈ L ↔ DistLayer (nbOf nGens act) [start] i x) ∧ n = L.length) ∧
    1 ≤ sizes.length ∧ sizes.length ≤ D + 1 ∧
    (sizes.length < D + 1 → ∀ x, ¬ DistLayer (nbOf nGens act) [start] sizes.length x) := by
  exact bfsNumpy_spec' nGens act invIdx h start D hD

/-- the 6-cycle `Fin 6` with generators `+1`, `-1` -/
def actC (i : Nat) (x : Fin 6) : Fin 6 := if i = 0 then x + 1 else x - 1
/-- the same with every generator listed twice: `+1, -1, +1, -1` -/
def actC4 (i : Nat) (x : Fin 6) : Fin 6 := if i % 2 = 0 then x + 1 else x - 1

/-- non-vacuity: the hypothesis holds for the 6-cycle, the run is exhaustive (premise of the last clause holds) -/
example : NumpyHyp 2 actC [1, 0] := by
  refine ⟨rfl, ?_⟩
  intro i hi
  have : i = 0 ∨ i = 1 := by omega
  rcases this with rfl | rfl
  · exact ⟨1, rfl, by decide, by decide⟩
  · exact ⟨0, rfl, by decide, by decide⟩
example : bfsNumpy 2 actC [1, 0] (0 : Fin 6) 10 = [1, 2, 2, 1] := by decide
example : (bfsNumpy 2 actC [1, 0] (0 : Fin 6) 10).length < 10 + 1 := by decide
/-- the depth limit cuts the run -/
example : bfsNumpy 2 actC [1, 0] (0 : Fin 6) 2 = [1, 2, 2] := by decide
/-- repeated generators are fine (the hypothesis holds, with either choice of inverse indices, and the sizes are right) -/
example : NumpyHyp 4 actC4 [1, 0, 3, 2] := by
  refine ⟨rfl, ?_⟩
  intro i hi
  have : i = 0 ∨ i = 1 ∨ i = 2 ∨ i = 3 := by omega
  rcases this with rfl | rfl | rfl | rfl
  · exact ⟨1, rfl, by decide, by decide⟩
  · exact ⟨0, rfl, by decide, by decide⟩
  · exact ⟨3, rfl, by decide, by decide⟩
  · exact ⟨2, rfl, by decide, by decide⟩
example : bfsNumpy 4 actC4 [1, 0, 3, 2] (0 : Fin 6) 10 = [1, 2, 2, 1] ∧
    bfsNumpy 4 actC4 [3, 2, 1, 0] (0 : Fin 6) 10 = [1, 2, 2, 1] := by decide
/-- no generators: the hypothesis holds trivially and the result is `[1]` -/
example : NumpyHyp 0 actC [] := ⟨rfl, fun i hi => absurd hi (by omega)⟩
example : bfsNumpy 0 actC [] (0 : Fin 6) 10 = [1] := by decide
/-- `1 ≤ D` is needed: with `max_diameter = 0` the first layer is still reported, so the length bound `≤ D + 1` fails -/
example : bfsNumpy 2 actC [1, 0] (0 : Fin 6) 0 = [1, 2] ∧ ¬ (bfsNumpy 2 actC [1, 0] (0 : Fin 6) 0).length ≤ 0 + 1 := by
  decide
/-- the inverse indices are needed: with `invIdx = [0, 1]` (every generator declared its own inverse) the engine skips
the wrong groups and stops after layer 1, although class 2 is not empty -/
example : bfsNumpy 2 actC [0, 1] (0 : Fin 6) 10 = [1, 2] := by decide

/-- rank / unrank of permutations (Lehmer code = index in `itertools.permutations` order): unrank inverts rank -/
theorem lexUnrank_lexRank (p : List Nat) (hp : p.Nodup) :
    lexUnrank p.length (p.mergeSort (fun a b => decide (a ≤ b))) (lexRank p) = p := by
  exact lexUnrank_lexRank' p hp

/-- non-vacuity: a permutation of `{0,…,3}` and an injective word over a larger alphabet -/
example : [2, 0, 3, 1].Nodup ∧ lexRank [2, 0, 3, 1] = 13 ∧ lexUnrank 4 [0, 1, 2, 3] 13 = [2, 0, 3, 1] := by decide
example : [7, 2, 9].Nodup ∧ lexRank [7, 2, 9] = 2 ∧ lexUnrank 3 [2, 7, 9] 2 = [7, 2, 9] := by decide
/-- ranks enumerate `itertools.permutations(range(3))` in order -/
example : (List.range 6).map (lexUnrank 3 [0, 1, 2]) =
    [[0, 1, 2], [0, 2, 1], [1, 0, 2], [1, 2, 0], [2, 0, 1], [2, 1, 0]] := by decide
set_option linter.unusedVariables false in
/-- the rank is below `p.length !` (the factorial written as the model computes it); `hp` is not needed -/
theorem lexRank_lt_factorial (p : List Nat) (hp : p.Nodup) :
    lexRank p < (List.range p.length).foldl (fun f i => f * (i + 1)) 1 := by
  exact lexRank_lt p

example : [3, 2, 1, 0].Nodup ∧ lexRank [3, 2, 1, 0] = 23 ∧ (List.range 4).foldl (fun f i => f * (i + 1)) 1 = 24 := by
  decide

/-- the rank separates the arrangements of a given set of entries -/
theorem lexRank_injective (p q : List Nat) (hp : p.Nodup) (hq : q.Nodup) (hpq : p.Perm q)
    (h : lexRank p = lexRank q) : p = q := by
  exact lexRank_injective' p q hp hq hpq h

/-- non-vacuity: two different arrangements have different ranks; all 6 ranks of a 3-set are distinct -/
example : [2, 0, 1].Nodup ∧ [1, 2, 0].Nodup ∧ [2, 0, 1].Perm [1, 2, 0] ∧ lexRank [2, 0, 1] ≠ lexRank [1, 2, 0] := by
  decide
example : [[0, 1, 2], [0, 2, 1], [1, 0, 2], [1, 2, 0], [2, 0, 1], [2, 1, 0]].map lexRank = [0, 1, 2, 3, 4, 5] := by decide
/-- `Perm` is needed: words over different entry sets share ranks -/
example : lexRank [0, 1] = lexRank [5, 7] := by decide

end Cv
