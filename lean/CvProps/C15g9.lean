/-
  C15g9 — (Part A) `PermutationGroups.all_cycles`, REGENERATED from the Python source (`CvGen/PyFamilies.lean`,
  `Cv.PyGen.Fam.all_cycles`), followed by the model of `CayleyGraphDef.create`, equals the closed-form specification
  `Cv.Families.allCycles` for ALL `n`.  Proofs are in `CvProofs/PyFamG9Write.lean`, `CvProofs/PyFamG9.lean`.
  (Part B) the documented C15 facts (`_valid`, `_count`, `_inverse_closed`) transferred to the SOURCE-translated
  constructors `Cv.PyGen.Fam.X`, via the `X_gen` theorems of `CvProps/C15g2 … C15g6` and of Part A.
  Every theorem is followed by a non-vacuity example.
-/
import CvProofs.PyFamG9
import CvProps.C15
import CvProps.C15g2
import CvProps.C15g3
import CvProps.C15g4
import CvProps.C15g5
import CvProps.C15g6
namespace Cv.C15g9
open Cv.Py Cv.PyGen Cv.Families
open Cv.GraphDef (PermDef)

/-- generic transfer: a hypothesis about the source-translated constructor `g` becomes a hypothesis about the
    `permFamily` lookup `f`, given `g = s` (an `X_gen` theorem) and `f = s` (a `permFamily_X` lemma). -/
theorem transfer {g s f : Option PermDef} {d : PermDef} (pf : f = s) (e : g = s) (h : g = some d) :
    f = some d := pf.trans (e.symm.trans h)

/-- non-vacuity helper: the source-translated constructor succeeds when the specification does. -/
theorem nonvac {g s : Option PermDef} (e : g = s) (hs : s.isSome = true) : ∃ d, g = some d :=
  Option.isSome_iff_exists.1 (e ▸ hs)

/-! ## Part A: all_cycles -/

/-- `PermutationGroups.all_cycles(n)`: `itertools.combinations`, `min`, the filtered comprehension,
`itertools.permutations`, the loop writing the cycle into `list(range(n))` and the names `cycle_<len(generators)>`,
followed by `create`, is the specified definition (for every `n`; `none` = AssertionError for `n < 2`) -/
theorem all_cycles_gen (n : Nat) :
    (Fam.all_cycles (n : Int)).bind rawToPermDef = Families.allCycles n := by
  exact Cv.PyG9.all_cycles_gen n
example : (Fam.all_cycles 3).map (·.gens) = some [[1,0,2],[2,1,0],[0,2,1],[1,2,0],[2,0,1]] ∧
    (Fam.all_cycles 3).bind (·.names) = some ["cycle_1","cycle_2","cycle_3","cycle_4","cycle_5"] ∧
    (Families.allCycles 3).isSome = true ∧ Fam.all_cycles 1 = none ∧ Families.allCycles 1 = none := by decide

/-- a negative `n` is rejected by the assertion of the source -/
theorem all_cycles_gen_neg (n : Int) (h : n < 0) : Fam.all_cycles n = none := by
  exact Cv.PyG9.all_cycles_gen_neg n h
example : Fam.all_cycles (-1) = none := by decide

/-- the constructor itself (without `create`) returns exactly the arguments of the specified definition -/
theorem all_cycles_gen_raw (n : Nat) (hn : 2 ≤ n) :
    ∃ d, Fam.all_cycles (n : Int) = some (Cv.PyG4.rawOf d) ∧ Families.allCycles n = some d := by
  exact ⟨_, Cv.PyG9.all_cycles_raw n hn, Cv.PyG9.acSpec_eq n hn⟩
example : (2 : Nat) ≤ 3 := by decide

/-- the inner loop of `all_cycles` (`cycle[current] = target; current = target`, then `cycle[current] = min_elem`),
run on naturals, writes the one-line notation of the cycle `(m o₀ o₁ …)` -/
theorem all_cycles_write_loop (n m : Nat) (o : List Nat) (hnd : (m :: o).Nodup) (hlt : ∀ v ∈ m :: o, v < n) :
    Cv.PyG9.write m (List.range n) m o = oneLine n (cycleFn (m :: o)) := by
  exact Cv.PyG9.write_eq n m o hnd hlt
example : Cv.PyG9.write 1 (List.range 5) 1 [4, 2] = [0, 4, 1, 3, 2] ∧ [1, 4, 2].Nodup ∧ ∀ v ∈ [1, 4, 2], v < 5 := by
  decide

/-! ### all_cycles: source-level corollaries -/

theorem all_cycles_source_valid (n : Nat) (d : PermDef)
    (h : (Fam.all_cycles (n : Int)).bind rawToPermDef = some d) :
    (∀ p ∈ d.gens, Cv.Perm.IsPermOf n p) ∧ d.central = List.range n ∧
      d.names.length = d.gens.length :=
  Cv.C15.all_cycles_valid n d (transfer (permFamily_allCycles n) (all_cycles_gen n) h)
example : ∃ d, (Fam.all_cycles ((3 : Nat) : Int)).bind rawToPermDef = some d :=
  nonvac (all_cycles_gen 3) (by decide)

theorem all_cycles_source_structure (n : Nat) (d : PermDef)
    (h : (Fam.all_cycles (n : Int)).bind rawToPermDef = some d) :
    d.gens.map some = (allCyclesList n).map (fun c => Cv.Perm.fromCycles n [c.map Int.ofNat]) ∧
    (∀ c, c ∈ allCyclesList n ↔
      c.Nodup ∧ 2 ≤ c.length ∧ (∀ v ∈ c, v < n) ∧ ∀ v ∈ c.tail, c.headD 0 < v) ∧
    (∀ t : Nat, t < d.gens.length → d.names[t]? = some ("cycle_" ++ toString (t + 1))) :=
  Cv.C15.all_cycles_structure n d (transfer (permFamily_allCycles n) (all_cycles_gen n) h)
example : ∃ d, (Fam.all_cycles ((3 : Nat) : Int)).bind rawToPermDef = some d :=
  nonvac (all_cycles_gen 3) (by decide)

theorem all_cycles_source_defined_iff (n : Nat) :
    ((Fam.all_cycles (n : Int)).bind rawToPermDef).isSome ↔ 2 ≤ n := by
  rw [all_cycles_gen, ← permFamily_allCycles]; exact Cv.C15.all_cycles_defined_iff n
example : ((Fam.all_cycles ((3 : Nat) : Int)).bind rawToPermDef).isSome = true ∧
    ((Fam.all_cycles ((1 : Nat) : Int)).bind rawToPermDef).isSome = false := by
  rw [all_cycles_gen, all_cycles_gen]; decide

theorem all_cycles_source_inverse_closed (n : Nat) (d : PermDef)
    (h : (Fam.all_cycles (n : Int)).bind rawToPermDef = some d) :
    d.inverseClosed = true :=
  Cv.C15.all_cycles_inverse_closed n d (transfer (permFamily_allCycles n) (all_cycles_gen n) h)
example : ∃ d, (Fam.all_cycles ((3 : Nat) : Int)).bind rawToPermDef = some d :=
  nonvac (all_cycles_gen 3) (by decide)

/-! ## Part B: the other families -/

/-! ### pancake -/

theorem pancake_source_valid (n : Nat) (d : PermDef)
    (h : (Fam.pancake (n : Int)).bind rawToPermDef = some d) :
    (∀ p ∈ d.gens, Cv.Perm.IsPermOf n p) ∧ d.central = List.range n ∧
      d.names.length = d.gens.length :=
  Cv.C15.pancake_valid n d (transfer (permFamily_pancake n) (Cv.C15g3.pancake_gen n) h)
example : ∃ d, (Fam.pancake ((4 : Nat) : Int)).bind rawToPermDef = some d :=
  nonvac (Cv.C15g3.pancake_gen 4) (by decide)

theorem pancake_source_count (n : Nat) (d : PermDef)
    (h : (Fam.pancake (n : Int)).bind rawToPermDef = some d) :
    d.gens.length = n - 1 :=
  Cv.C15.pancake_count n d (transfer (permFamily_pancake n) (Cv.C15g3.pancake_gen n) h)
example : ∃ d, (Fam.pancake ((4 : Nat) : Int)).bind rawToPermDef = some d :=
  nonvac (Cv.C15g3.pancake_gen 4) (by decide)

theorem pancake_source_inverse_closed (n : Nat) (d : PermDef)
    (h : (Fam.pancake (n : Int)).bind rawToPermDef = some d) :
    d.inverseClosed = true :=
  Cv.C15.pancake_inverse_closed n d (transfer (permFamily_pancake n) (Cv.C15g3.pancake_gen n) h)
example : ∃ d, (Fam.pancake ((4 : Nat) : Int)).bind rawToPermDef = some d :=
  nonvac (Cv.C15g3.pancake_gen 4) (by decide)

/-! ### lrx -/

theorem lrx_source_valid (n k : Nat) (d : PermDef)
    (h : (Fam.lrx (n : Int) (k : Int)).bind rawToPermDef = some d) :
    (∀ p ∈ d.gens, Cv.Perm.IsPermOf n p) ∧ d.central = List.range n ∧
      d.names.length = d.gens.length :=
  Cv.C15.lrx_valid n k d (transfer (permFamily_lrx n k) (Cv.C15g3.lrx_gen n k) h)
example : ∃ d, (Fam.lrx ((5 : Nat) : Int) ((2 : Nat) : Int)).bind rawToPermDef = some d :=
  nonvac (Cv.C15g3.lrx_gen 5 2) (by decide)

theorem lrx_source_count (n k : Nat) (d : PermDef)
    (h : (Fam.lrx (n : Int) (k : Int)).bind rawToPermDef = some d) :
    d.gens.length = 3 :=
  Cv.C15.lrx_count n k d (transfer (permFamily_lrx n k) (Cv.C15g3.lrx_gen n k) h)
example : ∃ d, (Fam.lrx ((5 : Nat) : Int) ((2 : Nat) : Int)).bind rawToPermDef = some d :=
  nonvac (Cv.C15g3.lrx_gen 5 2) (by decide)

theorem lrx_source_inverse_closed (n k : Nat) (d : PermDef)
    (h : (Fam.lrx (n : Int) (k : Int)).bind rawToPermDef = some d) :
    d.inverseClosed = true :=
  Cv.C15.lrx_inverse_closed n k d (transfer (permFamily_lrx n k) (Cv.C15g3.lrx_gen n k) h)
example : ∃ d, (Fam.lrx ((5 : Nat) : Int) ((2 : Nat) : Int)).bind rawToPermDef = some d :=
  nonvac (Cv.C15g3.lrx_gen 5 2) (by decide)

/-! ### lx -/

theorem lx_source_valid (n : Nat) (d : PermDef)
    (h : (Fam.lx (n : Int)).bind rawToPermDef = some d) :
    (∀ p ∈ d.gens, Cv.Perm.IsPermOf n p) ∧ d.central = List.range n ∧
      d.names.length = d.gens.length :=
  Cv.C15.lx_valid n d (transfer (permFamily_lx n) (Cv.C15g3.lx_gen n) h)
example : ∃ d, (Fam.lx ((4 : Nat) : Int)).bind rawToPermDef = some d :=
  nonvac (Cv.C15g3.lx_gen 4) (by decide)

theorem lx_source_count (n : Nat) (d : PermDef)
    (h : (Fam.lx (n : Int)).bind rawToPermDef = some d) :
    d.gens.length = 2 :=
  Cv.C15.lx_count n d (transfer (permFamily_lx n) (Cv.C15g3.lx_gen n) h)
example : ∃ d, (Fam.lx ((4 : Nat) : Int)).bind rawToPermDef = some d :=
  nonvac (Cv.C15g3.lx_gen 4) (by decide)

theorem lx_source_inverse_closed (n : Nat) (d : PermDef)
    (h : (Fam.lx (n : Int)).bind rawToPermDef = some d) :
    d.inverseClosed = false :=
  Cv.C15.lx_inverse_closed n d (transfer (permFamily_lx n) (Cv.C15g3.lx_gen n) h)
example : ∃ d, (Fam.lx ((4 : Nat) : Int)).bind rawToPermDef = some d :=
  nonvac (Cv.C15g3.lx_gen 4) (by decide)

/-! ### coxeter -/

theorem coxeter_source_valid (n : Nat) (d : PermDef)
    (h : (Fam.coxeter (n : Int)).bind rawToPermDef = some d) :
    (∀ p ∈ d.gens, Cv.Perm.IsPermOf n p) ∧ d.central = List.range n ∧
      d.names.length = d.gens.length :=
  Cv.C15.coxeter_valid n d (transfer (permFamily_coxeter n) (Cv.C15g3.coxeter_gen n) h)
example : ∃ d, (Fam.coxeter ((4 : Nat) : Int)).bind rawToPermDef = some d :=
  nonvac (Cv.C15g3.coxeter_gen 4) (by decide)

theorem coxeter_source_count (n : Nat) (d : PermDef)
    (h : (Fam.coxeter (n : Int)).bind rawToPermDef = some d) :
    d.gens.length = n - 1 :=
  Cv.C15.coxeter_count n d (transfer (permFamily_coxeter n) (Cv.C15g3.coxeter_gen n) h)
example : ∃ d, (Fam.coxeter ((4 : Nat) : Int)).bind rawToPermDef = some d :=
  nonvac (Cv.C15g3.coxeter_gen 4) (by decide)

theorem coxeter_source_inverse_closed (n : Nat) (d : PermDef)
    (h : (Fam.coxeter (n : Int)).bind rawToPermDef = some d) :
    d.inverseClosed = true :=
  Cv.C15.coxeter_inverse_closed n d (transfer (permFamily_coxeter n) (Cv.C15g3.coxeter_gen n) h)
example : ∃ d, (Fam.coxeter ((4 : Nat) : Int)).bind rawToPermDef = some d :=
  nonvac (Cv.C15g3.coxeter_gen 4) (by decide)

/-! ### all_transpositions -/

theorem all_transpositions_source_valid (n : Nat) (d : PermDef)
    (h : (Fam.all_transpositions (n : Int)).bind rawToPermDef = some d) :
    (∀ p ∈ d.gens, Cv.Perm.IsPermOf n p) ∧ d.central = List.range n ∧
      d.names.length = d.gens.length :=
  Cv.C15.all_transpositions_valid n d (transfer (permFamily_allTranspositions n) (Cv.C15g2.all_transpositions_gen n) h)
example : ∃ d, (Fam.all_transpositions ((4 : Nat) : Int)).bind rawToPermDef = some d :=
  nonvac (Cv.C15g2.all_transpositions_gen 4) (by decide)

theorem all_transpositions_source_count (n : Nat) (d : PermDef)
    (h : (Fam.all_transpositions (n : Int)).bind rawToPermDef = some d) :
    2 * d.gens.length = n * (n - 1) :=
  Cv.C15.all_transpositions_count n d (transfer (permFamily_allTranspositions n) (Cv.C15g2.all_transpositions_gen n) h)
example : ∃ d, (Fam.all_transpositions ((4 : Nat) : Int)).bind rawToPermDef = some d :=
  nonvac (Cv.C15g2.all_transpositions_gen 4) (by decide)

theorem all_transpositions_source_inverse_closed (n : Nat) (d : PermDef)
    (h : (Fam.all_transpositions (n : Int)).bind rawToPermDef = some d) :
    d.inverseClosed = true :=
  Cv.C15.all_transpositions_inverse_closed n d (transfer (permFamily_allTranspositions n) (Cv.C15g2.all_transpositions_gen n) h)
example : ∃ d, (Fam.all_transpositions ((4 : Nat) : Int)).bind rawToPermDef = some d :=
  nonvac (Cv.C15g2.all_transpositions_gen 4) (by decide)

/-! ### full_reversals -/

theorem full_reversals_source_valid (n : Nat) (d : PermDef)
    (h : (Fam.full_reversals (n : Int)).bind rawToPermDef = some d) :
    (∀ p ∈ d.gens, Cv.Perm.IsPermOf n p) ∧ d.central = List.range n ∧
      d.names.length = d.gens.length :=
  Cv.C15.full_reversals_valid n d (transfer (permFamily_fullReversals n) (Cv.C15g2.full_reversals_gen n) h)
example : ∃ d, (Fam.full_reversals ((4 : Nat) : Int)).bind rawToPermDef = some d :=
  nonvac (Cv.C15g2.full_reversals_gen 4) (by decide)

theorem full_reversals_source_count (n : Nat) (d : PermDef)
    (h : (Fam.full_reversals (n : Int)).bind rawToPermDef = some d) :
    2 * d.gens.length = n * (n - 1) :=
  Cv.C15.full_reversals_count n d (transfer (permFamily_fullReversals n) (Cv.C15g2.full_reversals_gen n) h)
example : ∃ d, (Fam.full_reversals ((4 : Nat) : Int)).bind rawToPermDef = some d :=
  nonvac (Cv.C15g2.full_reversals_gen 4) (by decide)

theorem full_reversals_source_inverse_closed (n : Nat) (d : PermDef)
    (h : (Fam.full_reversals (n : Int)).bind rawToPermDef = some d) :
    d.inverseClosed = true :=
  Cv.C15.full_reversals_inverse_closed n d (transfer (permFamily_fullReversals n) (Cv.C15g2.full_reversals_gen n) h)
example : ∃ d, (Fam.full_reversals ((4 : Nat) : Int)).bind rawToPermDef = some d :=
  nonvac (Cv.C15g2.full_reversals_gen 4) (by decide)

/-! ### top_spin -/

theorem top_spin_source_valid (n k : Nat) (d : PermDef)
    (h : (Fam.top_spin (n : Int) (k : Int)).bind rawToPermDef = some d) :
    (∀ p ∈ d.gens, Cv.Perm.IsPermOf n p) ∧ d.central = List.range n ∧
      d.names.length = d.gens.length :=
  Cv.C15.top_spin_valid n k d (transfer (permFamily_topSpin n k) (Cv.C15g3.top_spin_gen n k) h)
example : ∃ d, (Fam.top_spin ((5 : Nat) : Int) ((3 : Nat) : Int)).bind rawToPermDef = some d :=
  nonvac (Cv.C15g3.top_spin_gen 5 3) (by decide)

theorem top_spin_source_count (n k : Nat) (d : PermDef)
    (h : (Fam.top_spin (n : Int) (k : Int)).bind rawToPermDef = some d) :
    d.gens.length = 3 :=
  Cv.C15.top_spin_count n k d (transfer (permFamily_topSpin n k) (Cv.C15g3.top_spin_gen n k) h)
example : ∃ d, (Fam.top_spin ((5 : Nat) : Int) ((3 : Nat) : Int)).bind rawToPermDef = some d :=
  nonvac (Cv.C15g3.top_spin_gen 5 3) (by decide)

theorem top_spin_source_inverse_closed (n k : Nat) (d : PermDef)
    (h : (Fam.top_spin (n : Int) (k : Int)).bind rawToPermDef = some d) :
    d.inverseClosed = true :=
  Cv.C15.top_spin_inverse_closed n k d (transfer (permFamily_topSpin n k) (Cv.C15g3.top_spin_gen n k) h)
example : ∃ d, (Fam.top_spin ((5 : Nat) : Int) ((3 : Nat) : Int)).bind rawToPermDef = some d :=
  nonvac (Cv.C15g3.top_spin_gen 5 3) (by decide)

/-! ### stars -/

theorem stars_source_valid (n : Nat) (d : PermDef)
    (h : (Fam.stars (n : Int)).bind rawToPermDef = some d) :
    (∀ p ∈ d.gens, Cv.Perm.IsPermOf n p) ∧ d.central = List.range n ∧
      d.names.length = d.gens.length :=
  Cv.C15.stars_valid n d (transfer (permFamily_stars n) (Cv.C15g3.stars_gen n) h)
example : ∃ d, (Fam.stars ((4 : Nat) : Int)).bind rawToPermDef = some d :=
  nonvac (Cv.C15g3.stars_gen 4) (by decide)

theorem stars_source_count (n : Nat) (d : PermDef)
    (h : (Fam.stars (n : Int)).bind rawToPermDef = some d) :
    d.gens.length = n - 1 :=
  Cv.C15.stars_count n d (transfer (permFamily_stars n) (Cv.C15g3.stars_gen n) h)
example : ∃ d, (Fam.stars ((4 : Nat) : Int)).bind rawToPermDef = some d :=
  nonvac (Cv.C15g3.stars_gen 4) (by decide)

theorem stars_source_inverse_closed (n : Nat) (d : PermDef)
    (h : (Fam.stars (n : Int)).bind rawToPermDef = some d) :
    d.inverseClosed = true :=
  Cv.C15.stars_inverse_closed n d (transfer (permFamily_stars n) (Cv.C15g3.stars_gen n) h)
example : ∃ d, (Fam.stars ((4 : Nat) : Int)).bind rawToPermDef = some d :=
  nonvac (Cv.C15g3.stars_gen 4) (by decide)

/-! ### burnt_pancake -/

theorem burnt_pancake_source_valid (n : Nat) (d : PermDef)
    (h : (Fam.burnt_pancake (n : Int)).bind rawToPermDef = some d) :
    (∀ p ∈ d.gens, Cv.Perm.IsPermOf (2 * n) p) ∧ d.central = List.range (2 * n) ∧
      d.names.length = d.gens.length :=
  Cv.C15.burnt_pancake_valid n d (transfer (permFamily_burntPancake n) (Cv.C15g3.burnt_pancake_gen n) h)
example : ∃ d, (Fam.burnt_pancake ((3 : Nat) : Int)).bind rawToPermDef = some d :=
  nonvac (Cv.C15g3.burnt_pancake_gen 3) (by decide)

theorem burnt_pancake_source_count (n : Nat) (d : PermDef)
    (h : (Fam.burnt_pancake (n : Int)).bind rawToPermDef = some d) :
    d.gens.length = n :=
  Cv.C15.burnt_pancake_count n d (transfer (permFamily_burntPancake n) (Cv.C15g3.burnt_pancake_gen n) h)
example : ∃ d, (Fam.burnt_pancake ((3 : Nat) : Int)).bind rawToPermDef = some d :=
  nonvac (Cv.C15g3.burnt_pancake_gen 3) (by decide)

theorem burnt_pancake_source_inverse_closed (n : Nat) (d : PermDef)
    (h : (Fam.burnt_pancake (n : Int)).bind rawToPermDef = some d) :
    d.inverseClosed = true :=
  Cv.C15.burnt_pancake_inverse_closed n d (transfer (permFamily_burntPancake n) (Cv.C15g3.burnt_pancake_gen n) h)
example : ∃ d, (Fam.burnt_pancake ((3 : Nat) : Int)).bind rawToPermDef = some d :=
  nonvac (Cv.C15g3.burnt_pancake_gen 3) (by decide)

/-! ### cyclic_coxeter -/

theorem cyclic_coxeter_source_valid (n : Nat) (d : PermDef)
    (h : (Fam.cyclic_coxeter (n : Int)).bind rawToPermDef = some d) :
    (∀ p ∈ d.gens, Cv.Perm.IsPermOf n p) ∧ d.central = List.range n ∧
      d.names.length = d.gens.length :=
  Cv.C15.cyclic_coxeter_valid n d (transfer (permFamily_cyclicCoxeter n) (Cv.C15g3.cyclic_coxeter_gen n) h)
example : ∃ d, (Fam.cyclic_coxeter ((4 : Nat) : Int)).bind rawToPermDef = some d :=
  nonvac (Cv.C15g3.cyclic_coxeter_gen 4) (by decide)

theorem cyclic_coxeter_source_count (n : Nat) (d : PermDef)
    (h : (Fam.cyclic_coxeter (n : Int)).bind rawToPermDef = some d) :
    d.gens.length = n :=
  Cv.C15.cyclic_coxeter_count n d (transfer (permFamily_cyclicCoxeter n) (Cv.C15g3.cyclic_coxeter_gen n) h)
example : ∃ d, (Fam.cyclic_coxeter ((4 : Nat) : Int)).bind rawToPermDef = some d :=
  nonvac (Cv.C15g3.cyclic_coxeter_gen 4) (by decide)

theorem cyclic_coxeter_source_inverse_closed (n : Nat) (d : PermDef)
    (h : (Fam.cyclic_coxeter (n : Int)).bind rawToPermDef = some d) :
    d.inverseClosed = true :=
  Cv.C15.cyclic_coxeter_inverse_closed n d (transfer (permFamily_cyclicCoxeter n) (Cv.C15g3.cyclic_coxeter_gen n) h)
example : ∃ d, (Fam.cyclic_coxeter ((4 : Nat) : Int)).bind rawToPermDef = some d :=
  nonvac (Cv.C15g3.cyclic_coxeter_gen 4) (by decide)

/-! ### larx -/

theorem larx_source_valid (n : Nat) (d : PermDef)
    (h : (Fam.larx (n : Int)).bind rawToPermDef = some d) :
    (∀ p ∈ d.gens, Cv.Perm.IsPermOf n p) ∧ d.central = List.range n ∧
      d.names.length = d.gens.length :=
  Cv.C15.larx_valid n d (transfer (permFamily_larx n) (Cv.C15g3.larx_gen n) h)
example : ∃ d, (Fam.larx ((4 : Nat) : Int)).bind rawToPermDef = some d :=
  nonvac (Cv.C15g3.larx_gen 4) (by decide)

theorem larx_source_count (n : Nat) (d : PermDef)
    (h : (Fam.larx (n : Int)).bind rawToPermDef = some d) :
    d.gens.length = 2 :=
  Cv.C15.larx_count n d (transfer (permFamily_larx n) (Cv.C15g3.larx_gen n) h)
example : ∃ d, (Fam.larx ((4 : Nat) : Int)).bind rawToPermDef = some d :=
  nonvac (Cv.C15g3.larx_gen 4) (by decide)

theorem larx_source_inverse_closed (n : Nat) (d : PermDef)
    (h : (Fam.larx (n : Int)).bind rawToPermDef = some d) :
    d.inverseClosed = decide (n ≤ 3) :=
  Cv.C15.larx_inverse_closed n d (transfer (permFamily_larx n) (Cv.C15g3.larx_gen n) h)
example : ∃ d, (Fam.larx ((4 : Nat) : Int)).bind rawToPermDef = some d :=
  nonvac (Cv.C15g3.larx_gen 4) (by decide)

/-! ### generalized_stars -/

theorem generalized_stars_source_valid (n k : Nat) (d : PermDef)
    (h : (Fam.generalized_stars (n : Int) (k : Int)).bind rawToPermDef = some d) :
    (∀ p ∈ d.gens, Cv.Perm.IsPermOf n p) ∧ d.central = List.range n ∧
      d.names.length = d.gens.length :=
  Cv.C15.generalized_stars_valid n k d (transfer (permFamily_generalizedStars n k) (Cv.C15g3.generalized_stars_gen n k) h)
example : ∃ d, (Fam.generalized_stars ((5 : Nat) : Int) ((2 : Nat) : Int)).bind rawToPermDef = some d :=
  nonvac (Cv.C15g3.generalized_stars_gen 5 2) (by decide)

theorem generalized_stars_source_count (n k : Nat) (d : PermDef)
    (h : (Fam.generalized_stars (n : Int) (k : Int)).bind rawToPermDef = some d) :
    d.gens.length = k * (n - k) :=
  Cv.C15.generalized_stars_count n k d (transfer (permFamily_generalizedStars n k) (Cv.C15g3.generalized_stars_gen n k) h)
example : ∃ d, (Fam.generalized_stars ((5 : Nat) : Int) ((2 : Nat) : Int)).bind rawToPermDef = some d :=
  nonvac (Cv.C15g3.generalized_stars_gen 5 2) (by decide)

theorem generalized_stars_source_inverse_closed (n k : Nat) (d : PermDef)
    (h : (Fam.generalized_stars (n : Int) (k : Int)).bind rawToPermDef = some d) :
    d.inverseClosed = true :=
  Cv.C15.generalized_stars_inverse_closed n k d (transfer (permFamily_generalizedStars n k) (Cv.C15g3.generalized_stars_gen n k) h)
example : ∃ d, (Fam.generalized_stars ((5 : Nat) : Int) ((2 : Nat) : Int)).bind rawToPermDef = some d :=
  nonvac (Cv.C15g3.generalized_stars_gen 5 2) (by decide)

/-! ### cubic_pancake -/

theorem cubic_pancake_source_valid (n k : Nat) (d : PermDef)
    (h : (Fam.cubic_pancake (n : Int) (k : Int)).bind rawToPermDef = some d) :
    (∀ p ∈ d.gens, Cv.Perm.IsPermOf n p) ∧ d.central = List.range n ∧
      d.names.length = d.gens.length :=
  Cv.C15.cubic_pancake_valid n k d (transfer (permFamily_cubicPancake n k) (Cv.C15g3.cubic_pancake_gen n k) h)
example : ∃ d, (Fam.cubic_pancake ((6 : Nat) : Int) ((1 : Nat) : Int)).bind rawToPermDef = some d :=
  nonvac (Cv.C15g3.cubic_pancake_gen 6 1) (by decide)

theorem cubic_pancake_source_count (n k : Nat) (d : PermDef)
    (h : (Fam.cubic_pancake (n : Int) (k : Int)).bind rawToPermDef = some d) :
    d.gens.length = 3 :=
  Cv.C15.cubic_pancake_count n k d (transfer (permFamily_cubicPancake n k) (Cv.C15g3.cubic_pancake_gen n k) h)
example : ∃ d, (Fam.cubic_pancake ((6 : Nat) : Int) ((1 : Nat) : Int)).bind rawToPermDef = some d :=
  nonvac (Cv.C15g3.cubic_pancake_gen 6 1) (by decide)

theorem cubic_pancake_source_inverse_closed (n k : Nat) (d : PermDef)
    (h : (Fam.cubic_pancake (n : Int) (k : Int)).bind rawToPermDef = some d) :
    d.inverseClosed = true :=
  Cv.C15.cubic_pancake_inverse_closed n k d (transfer (permFamily_cubicPancake n k) (Cv.C15g3.cubic_pancake_gen n k) h)
example : ∃ d, (Fam.cubic_pancake ((6 : Nat) : Int) ((1 : Nat) : Int)).bind rawToPermDef = some d :=
  nonvac (Cv.C15g3.cubic_pancake_gen 6 1) (by decide)

/-! ### signed_reversals -/

theorem signed_reversals_source_valid (n : Nat) (d : PermDef)
    (h : (Fam.signed_reversals (n : Int)).bind rawToPermDef = some d) :
    (∀ p ∈ d.gens, Cv.Perm.IsPermOf (2 * n) p) ∧ d.central = List.range (2 * n) ∧
      d.names.length = d.gens.length :=
  Cv.C15.signed_reversals_valid n d (transfer (permFamily_signedReversals n) (Cv.C15g2.signed_reversals_gen n) h)
example : ∃ d, (Fam.signed_reversals ((3 : Nat) : Int)).bind rawToPermDef = some d :=
  nonvac (Cv.C15g2.signed_reversals_gen 3) (by decide)

theorem signed_reversals_source_count (n : Nat) (d : PermDef)
    (h : (Fam.signed_reversals (n : Int)).bind rawToPermDef = some d) :
    2 * d.gens.length = n * (n + 1) :=
  Cv.C15.signed_reversals_count n d (transfer (permFamily_signedReversals n) (Cv.C15g2.signed_reversals_gen n) h)
example : ∃ d, (Fam.signed_reversals ((3 : Nat) : Int)).bind rawToPermDef = some d :=
  nonvac (Cv.C15g2.signed_reversals_gen 3) (by decide)

theorem signed_reversals_source_inverse_closed (n : Nat) (d : PermDef)
    (h : (Fam.signed_reversals (n : Int)).bind rawToPermDef = some d) :
    d.inverseClosed = true :=
  Cv.C15.signed_reversals_inverse_closed n d (transfer (permFamily_signedReversals n) (Cv.C15g2.signed_reversals_gen n) h)
example : ∃ d, (Fam.signed_reversals ((3 : Nat) : Int)).bind rawToPermDef = some d :=
  nonvac (Cv.C15g2.signed_reversals_gen 3) (by decide)

/-! ### transposons -/

theorem transposons_source_valid (n : Nat) (d : PermDef)
    (h : (Fam.transposons (n : Int)).bind rawToPermDef = some d) :
    (∀ p ∈ d.gens, Cv.Perm.IsPermOf n p) ∧ d.central = List.range n ∧
      d.names.length = d.gens.length :=
  Cv.C15.transposons_valid n d (transfer (permFamily_transposons n) (Cv.C15g2.transposons_gen n) h)
example : ∃ d, (Fam.transposons ((4 : Nat) : Int)).bind rawToPermDef = some d :=
  nonvac (Cv.C15g2.transposons_gen 4) (by decide)

theorem transposons_source_count (n : Nat) (d : PermDef)
    (h : (Fam.transposons (n : Int)).bind rawToPermDef = some d) :
    6 * d.gens.length = (n - 1) * n * (n + 1) :=
  Cv.C15.transposons_count n d (transfer (permFamily_transposons n) (Cv.C15g2.transposons_gen n) h)
example : ∃ d, (Fam.transposons ((4 : Nat) : Int)).bind rawToPermDef = some d :=
  nonvac (Cv.C15g2.transposons_gen 4) (by decide)

theorem transposons_source_inverse_closed (n : Nat) (d : PermDef)
    (h : (Fam.transposons (n : Int)).bind rawToPermDef = some d) :
    d.inverseClosed = true :=
  Cv.C15.transposons_inverse_closed n d (transfer (permFamily_transposons n) (Cv.C15g2.transposons_gen n) h)
example : ∃ d, (Fam.transposons ((4 : Nat) : Int)).bind rawToPermDef = some d :=
  nonvac (Cv.C15g2.transposons_gen 4) (by decide)

/-! ### block_interchange -/

theorem block_interchange_source_valid (n : Nat) (d : PermDef)
    (h : (Fam.block_interchange (n : Int)).bind rawToPermDef = some d) :
    (∀ p ∈ d.gens, Cv.Perm.IsPermOf n p) ∧ d.central = List.range n ∧
      d.names.length = d.gens.length :=
  Cv.C15.block_interchange_valid n d (transfer (permFamily_blockInterchange n) (Cv.C15g2.block_interchange_gen n) h)
example : ∃ d, (Fam.block_interchange ((4 : Nat) : Int)).bind rawToPermDef = some d :=
  nonvac (Cv.C15g2.block_interchange_gen 4) (by decide)

theorem block_interchange_source_count (n : Nat) (d : PermDef)
    (h : (Fam.block_interchange (n : Int)).bind rawToPermDef = some d) :
    24 * d.gens.length = (n - 1) * n * (n + 1) * (n + 2) :=
  Cv.C15.block_interchange_count n d (transfer (permFamily_blockInterchange n) (Cv.C15g2.block_interchange_gen n) h)
example : ∃ d, (Fam.block_interchange ((4 : Nat) : Int)).bind rawToPermDef = some d :=
  nonvac (Cv.C15g2.block_interchange_gen 4) (by decide)

theorem block_interchange_source_inverse_closed (n : Nat) (d : PermDef)
    (h : (Fam.block_interchange (n : Int)).bind rawToPermDef = some d) :
    d.inverseClosed = true :=
  Cv.C15.block_interchange_inverse_closed n d (transfer (permFamily_blockInterchange n) (Cv.C15g2.block_interchange_gen n) h)
example : ∃ d, (Fam.block_interchange ((4 : Nat) : Int)).bind rawToPermDef = some d :=
  nonvac (Cv.C15g2.block_interchange_gen 4) (by decide)

/-! ### prefix_cycles -/

theorem prefix_cycles_source_valid (n : Nat) (d : PermDef)
    (h : (Fam.prefix_cycles (n : Int)).bind rawToPermDef = some d) :
    (∀ p ∈ d.gens, Cv.Perm.IsPermOf n p) ∧ d.central = List.range n ∧
      d.names.length = d.gens.length :=
  Cv.C15.prefix_cycles_valid n d (transfer (permFamily_prefixCycles n) (Cv.C15g4.prefix_cycles_gen n) h)
example : ∃ d, (Fam.prefix_cycles ((4 : Nat) : Int)).bind rawToPermDef = some d :=
  nonvac (Cv.C15g4.prefix_cycles_gen 4) (by decide)

theorem prefix_cycles_source_count (n : Nat) (d : PermDef)
    (h : (Fam.prefix_cycles (n : Int)).bind rawToPermDef = some d) :
    d.gens.length = n - 1 :=
  Cv.C15.prefix_cycles_count n d (transfer (permFamily_prefixCycles n) (Cv.C15g4.prefix_cycles_gen n) h)
example : ∃ d, (Fam.prefix_cycles ((4 : Nat) : Int)).bind rawToPermDef = some d :=
  nonvac (Cv.C15g4.prefix_cycles_gen 4) (by decide)

theorem prefix_cycles_source_inverse_closed (n : Nat) (d : PermDef)
    (h : (Fam.prefix_cycles (n : Int)).bind rawToPermDef = some d) :
    d.inverseClosed = decide (n = 2) :=
  Cv.C15.prefix_cycles_inverse_closed n d (transfer (permFamily_prefixCycles n) (Cv.C15g4.prefix_cycles_gen n) h)
example : ∃ d, (Fam.prefix_cycles ((4 : Nat) : Int)).bind rawToPermDef = some d :=
  nonvac (Cv.C15g4.prefix_cycles_gen 4) (by decide)

/-! ### consecutive_k_cycles -/

theorem consecutive_k_cycles_source_valid (n k : Nat) (d : PermDef)
    (h : (Fam.consecutive_k_cycles (n : Int) (k : Int)).bind rawToPermDef = some d) :
    (∀ p ∈ d.gens, Cv.Perm.IsPermOf n p) ∧ d.central = List.range n ∧
      d.names.length = d.gens.length :=
  Cv.C15.consecutive_k_cycles_valid n k d (transfer (permFamily_consecutiveKCycles n k) (Cv.C15g4.consecutive_k_cycles_gen n k) h)
example : ∃ d, (Fam.consecutive_k_cycles ((5 : Nat) : Int) ((3 : Nat) : Int)).bind rawToPermDef = some d :=
  nonvac (Cv.C15g4.consecutive_k_cycles_gen 5 3) (by decide)

theorem consecutive_k_cycles_source_count (n k : Nat) (d : PermDef)
    (h : (Fam.consecutive_k_cycles (n : Int) (k : Int)).bind rawToPermDef = some d) :
    d.gens.length = n - k + 1 :=
  Cv.C15.consecutive_k_cycles_count n k d (transfer (permFamily_consecutiveKCycles n k) (Cv.C15g4.consecutive_k_cycles_gen n k) h)
example : ∃ d, (Fam.consecutive_k_cycles ((5 : Nat) : Int) ((3 : Nat) : Int)).bind rawToPermDef = some d :=
  nonvac (Cv.C15g4.consecutive_k_cycles_gen 5 3) (by decide)

theorem consecutive_k_cycles_source_inverse_closed (n k : Nat) (d : PermDef)
    (h : (Fam.consecutive_k_cycles (n : Int) (k : Int)).bind rawToPermDef = some d) :
    d.inverseClosed = decide (k ≤ 2) :=
  Cv.C15.consecutive_k_cycles_inverse_closed n k d (transfer (permFamily_consecutiveKCycles n k) (Cv.C15g4.consecutive_k_cycles_gen n k) h)
example : ∃ d, (Fam.consecutive_k_cycles ((5 : Nat) : Int) ((3 : Nat) : Int)).bind rawToPermDef = some d :=
  nonvac (Cv.C15g4.consecutive_k_cycles_gen 5 3) (by decide)

/-! ### down_cycles -/

theorem down_cycles_source_valid (n : Nat) (d : PermDef)
    (h : (Fam.down_cycles (n : Int)).bind rawToPermDef = some d) :
    (∀ p ∈ d.gens, Cv.Perm.IsPermOf n p) ∧ d.central = List.range n ∧
      d.names.length = d.gens.length :=
  Cv.C15.down_cycles_valid n d (transfer (permFamily_downCycles n) (Cv.C15g4.down_cycles_gen n) h)
example : ∃ d, (Fam.down_cycles ((4 : Nat) : Int)).bind rawToPermDef = some d :=
  nonvac (Cv.C15g4.down_cycles_gen 4) (by decide)

theorem down_cycles_source_count (n : Nat) (d : PermDef)
    (h : (Fam.down_cycles (n : Int)).bind rawToPermDef = some d) :
    2 * d.gens.length = n * (n - 1) :=
  Cv.C15.down_cycles_count n d (transfer (permFamily_downCycles n) (Cv.C15g4.down_cycles_gen n) h)
example : ∃ d, (Fam.down_cycles ((4 : Nat) : Int)).bind rawToPermDef = some d :=
  nonvac (Cv.C15g4.down_cycles_gen 4) (by decide)

theorem down_cycles_source_inverse_closed (n : Nat) (d : PermDef)
    (h : (Fam.down_cycles (n : Int)).bind rawToPermDef = some d) :
    d.inverseClosed = decide (n = 2) :=
  Cv.C15.down_cycles_inverse_closed n d (transfer (permFamily_downCycles n) (Cv.C15g4.down_cycles_gen n) h)
example : ∃ d, (Fam.down_cycles ((4 : Nat) : Int)).bind rawToPermDef = some d :=
  nonvac (Cv.C15g4.down_cycles_gen 4) (by decide)

/-! ### three_cycles_01i -/

theorem three_cycles_01i_source_valid (n : Nat) (b : Bool) (d : PermDef)
    (h : (Fam.three_cycles_01i (n : Int) b).bind rawToPermDef = some d) :
    (∀ p ∈ d.gens, Cv.Perm.IsPermOf n p) ∧ d.central = List.range n ∧
      d.names.length = d.gens.length :=
  Cv.C15.three_cycles_01i_valid n b d (transfer (permFamily_threeCycles01i n b) (Cv.C15g4.three_cycles_01i_gen n b) h)
example : ∃ d, (Fam.three_cycles_01i ((4 : Nat) : Int) true).bind rawToPermDef = some d :=
  nonvac (Cv.C15g4.three_cycles_01i_gen 4 true) (by decide)

theorem three_cycles_01i_source_count (n : Nat) (b : Bool) (d : PermDef)
    (h : (Fam.three_cycles_01i (n : Int) b).bind rawToPermDef = some d) :
    d.gens.length = if b then 2 * (n - 2) else n - 2 :=
  Cv.C15.three_cycles_01i_count n b d (transfer (permFamily_threeCycles01i n b) (Cv.C15g4.three_cycles_01i_gen n b) h)
example : ∃ d, (Fam.three_cycles_01i ((4 : Nat) : Int) true).bind rawToPermDef = some d :=
  nonvac (Cv.C15g4.three_cycles_01i_gen 4 true) (by decide)

theorem three_cycles_01i_source_inverse_closed (n : Nat) (b : Bool) (d : PermDef)
    (h : (Fam.three_cycles_01i (n : Int) b).bind rawToPermDef = some d) :
    d.inverseClosed = b :=
  Cv.C15.three_cycles_01i_inverse_closed n b d (transfer (permFamily_threeCycles01i n b) (Cv.C15g4.three_cycles_01i_gen n b) h)
example : ∃ d, (Fam.three_cycles_01i ((4 : Nat) : Int) true).bind rawToPermDef = some d :=
  nonvac (Cv.C15g4.three_cycles_01i_gen 4 true) (by decide)

/-! ### wrapped_k_cycles -/

theorem wrapped_k_cycles_source_valid (n k : Nat) (d : PermDef)
    (h : (Fam.wrapped_k_cycles (n : Int) (k : Int)).bind rawToPermDef = some d) :
    (∀ p ∈ d.gens, Cv.Perm.IsPermOf n p) ∧ d.central = List.range n ∧
      d.names.length = d.gens.length :=
  Cv.C15.wrapped_k_cycles_valid n k d (transfer (permFamily_wrappedKCycles n k) (Cv.C15g4.wrapped_k_cycles_gen n k) h)
example : ∃ d, (Fam.wrapped_k_cycles ((5 : Nat) : Int) ((3 : Nat) : Int)).bind rawToPermDef = some d :=
  nonvac (Cv.C15g4.wrapped_k_cycles_gen 5 3) (by decide)

theorem wrapped_k_cycles_source_count (n k : Nat) (d : PermDef)
    (h : (Fam.wrapped_k_cycles (n : Int) (k : Int)).bind rawToPermDef = some d) :
    d.gens.length = n :=
  Cv.C15.wrapped_k_cycles_count n k d (transfer (permFamily_wrappedKCycles n k) (Cv.C15g4.wrapped_k_cycles_gen n k) h)
example : ∃ d, (Fam.wrapped_k_cycles ((5 : Nat) : Int) ((3 : Nat) : Int)).bind rawToPermDef = some d :=
  nonvac (Cv.C15g4.wrapped_k_cycles_gen 5 3) (by decide)

theorem wrapped_k_cycles_source_inverse_closed (n k : Nat) (d : PermDef)
    (h : (Fam.wrapped_k_cycles (n : Int) (k : Int)).bind rawToPermDef = some d) :
    d.inverseClosed = decide (k = 2) :=
  Cv.C15.wrapped_k_cycles_inverse_closed n k d (transfer (permFamily_wrappedKCycles n k) (Cv.C15g4.wrapped_k_cycles_gen n k) h)
example : ∃ d, (Fam.wrapped_k_cycles ((5 : Nat) : Int) ((3 : Nat) : Int)).bind rawToPermDef = some d :=
  nonvac (Cv.C15g4.wrapped_k_cycles_gen 5 3) (by decide)

/-! ### lsl_cycles -/

theorem lsl_cycles_source_valid (n : Nat) (b : Bool) (d : PermDef)
    (h : (Fam.lsl_cycles (n : Int) b).bind rawToPermDef = some d) :
    (∀ p ∈ d.gens, Cv.Perm.IsPermOf n p) ∧ d.central = List.range n ∧
      d.names.length = d.gens.length :=
  Cv.C15.lsl_cycles_valid n b d (transfer (permFamily_lslCycles n b) (Cv.C15g4.lsl_cycles_gen n b) h)
example : ∃ d, (Fam.lsl_cycles ((5 : Nat) : Int) true).bind rawToPermDef = some d :=
  nonvac (Cv.C15g4.lsl_cycles_gen 5 true) (by decide)

theorem lsl_cycles_source_count (n : Nat) (b : Bool) (d : PermDef)
    (h : (Fam.lsl_cycles (n : Int) b).bind rawToPermDef = some d) :
    d.gens.length = if b then 4 else 2 :=
  Cv.C15.lsl_cycles_count n b d (transfer (permFamily_lslCycles n b) (Cv.C15g4.lsl_cycles_gen n b) h)
example : ∃ d, (Fam.lsl_cycles ((5 : Nat) : Int) true).bind rawToPermDef = some d :=
  nonvac (Cv.C15g4.lsl_cycles_gen 5 true) (by decide)

theorem lsl_cycles_source_inverse_closed (n : Nat) (b : Bool) (d : PermDef)
    (h : (Fam.lsl_cycles (n : Int) b).bind rawToPermDef = some d) :
    d.inverseClosed = b :=
  Cv.C15.lsl_cycles_inverse_closed n b d (transfer (permFamily_lslCycles n b) (Cv.C15g4.lsl_cycles_gen n b) h)
example : ∃ d, (Fam.lsl_cycles ((5 : Nat) : Int) true).bind rawToPermDef = some d :=
  nonvac (Cv.C15g4.lsl_cycles_gen 5 true) (by decide)

/-! ### rapaport_m1 -/

theorem rapaport_m1_source_valid (n : Nat) (d : PermDef)
    (h : (Fam.rapaport_m1 (n : Int)).bind rawToPermDef = some d) :
    (∀ p ∈ d.gens, Cv.Perm.IsPermOf n p) ∧ d.central = List.range n ∧
      d.names.length = d.gens.length :=
  Cv.C15.rapaport_m1_valid n d (transfer (permFamily_rapaportM1 n) (Cv.C15g5.rapaport_m1_gen n) h)
example : ∃ d, (Fam.rapaport_m1 ((5 : Nat) : Int)).bind rawToPermDef = some d :=
  nonvac (Cv.C15g5.rapaport_m1_gen 5) (by decide)

theorem rapaport_m1_source_count (n : Nat) (d : PermDef)
    (h : (Fam.rapaport_m1 (n : Int)).bind rawToPermDef = some d) :
    d.gens.length = n - 1 :=
  Cv.C15.rapaport_m1_count n d (transfer (permFamily_rapaportM1 n) (Cv.C15g5.rapaport_m1_gen n) h)
example : ∃ d, (Fam.rapaport_m1 ((5 : Nat) : Int)).bind rawToPermDef = some d :=
  nonvac (Cv.C15g5.rapaport_m1_gen 5) (by decide)

theorem rapaport_m1_source_inverse_closed (n : Nat) (d : PermDef)
    (h : (Fam.rapaport_m1 (n : Int)).bind rawToPermDef = some d) :
    d.inverseClosed = true :=
  Cv.C15.rapaport_m1_inverse_closed n d (transfer (permFamily_rapaportM1 n) (Cv.C15g5.rapaport_m1_gen n) h)
example : ∃ d, (Fam.rapaport_m1 ((5 : Nat) : Int)).bind rawToPermDef = some d :=
  nonvac (Cv.C15g5.rapaport_m1_gen 5) (by decide)

/-! ### rapaport_m2 -/

theorem rapaport_m2_source_valid (n : Nat) (d : PermDef)
    (h : (Fam.rapaport_m2 (n : Int)).bind rawToPermDef = some d) :
    (∀ p ∈ d.gens, Cv.Perm.IsPermOf n p) ∧ d.central = List.range n ∧
      d.names.length = d.gens.length :=
  Cv.C15.rapaport_m2_valid n d (transfer (permFamily_rapaportM2 n) (Cv.C15g5.rapaport_m2_gen n) h)
example : ∃ d, (Fam.rapaport_m2 ((5 : Nat) : Int)).bind rawToPermDef = some d :=
  nonvac (Cv.C15g5.rapaport_m2_gen 5) (by decide)

theorem rapaport_m2_source_count (n : Nat) (d : PermDef)
    (h : (Fam.rapaport_m2 (n : Int)).bind rawToPermDef = some d) :
    d.gens.length = 3 :=
  Cv.C15.rapaport_m2_count n d (transfer (permFamily_rapaportM2 n) (Cv.C15g5.rapaport_m2_gen n) h)
example : ∃ d, (Fam.rapaport_m2 ((5 : Nat) : Int)).bind rawToPermDef = some d :=
  nonvac (Cv.C15g5.rapaport_m2_gen 5) (by decide)

theorem rapaport_m2_source_inverse_closed (n : Nat) (d : PermDef)
    (h : (Fam.rapaport_m2 (n : Int)).bind rawToPermDef = some d) :
    d.inverseClosed = true :=
  Cv.C15.rapaport_m2_inverse_closed n d (transfer (permFamily_rapaportM2 n) (Cv.C15g5.rapaport_m2_gen n) h)
example : ∃ d, (Fam.rapaport_m2 ((5 : Nat) : Int)).bind rawToPermDef = some d :=
  nonvac (Cv.C15g5.rapaport_m2_gen 5) (by decide)

/-! ### sheveleva2 -/

theorem sheveleva2_source_valid (n k : Nat) (d : PermDef)
    (h : (Fam.sheveleva2 (n : Int) (k : Int)).bind rawToPermDef = some d) :
    (∀ p ∈ d.gens, Cv.Perm.IsPermOf n p) ∧ d.central = List.range n ∧
      d.names.length = d.gens.length :=
  Cv.C15.sheveleva2_valid n k d (transfer (permFamily_sheveleva2 n k) (Cv.C15g5.sheveleva2_gen n k) h)
example : ∃ d, (Fam.sheveleva2 ((6 : Nat) : Int) ((2 : Nat) : Int)).bind rawToPermDef = some d :=
  nonvac (Cv.C15g5.sheveleva2_gen 6 2) (by decide)

theorem sheveleva2_source_count (n k : Nat) (d : PermDef)
    (h : (Fam.sheveleva2 (n : Int) (k : Int)).bind rawToPermDef = some d) :
    d.gens.length = 2 :=
  Cv.C15.sheveleva2_count n k d (transfer (permFamily_sheveleva2 n k) (Cv.C15g5.sheveleva2_gen n k) h)
example : ∃ d, (Fam.sheveleva2 ((6 : Nat) : Int) ((2 : Nat) : Int)).bind rawToPermDef = some d :=
  nonvac (Cv.C15g5.sheveleva2_gen 6 2) (by decide)

theorem sheveleva2_source_inverse_closed (n k : Nat) (d : PermDef)
    (h : (Fam.sheveleva2 (n : Int) (k : Int)).bind rawToPermDef = some d) :
    d.inverseClosed = false :=
  Cv.C15.sheveleva2_inverse_closed n k d (transfer (permFamily_sheveleva2 n k) (Cv.C15g5.sheveleva2_gen n k) h)
example : ∃ d, (Fam.sheveleva2 ((6 : Nat) : Int) ((2 : Nat) : Int)).bind rawToPermDef = some d :=
  nonvac (Cv.C15g5.sheveleva2_gen 6 2) (by decide)

/-! ### koltsov3 -/

theorem koltsov3_source_valid (n t k d : Nat) (D : PermDef)
    (h : (Fam.koltsov3 (n : Int) (t : Int) (k : Int) (d : Int)).bind rawToPermDef = some D) :
    (∀ p ∈ D.gens, Cv.Perm.IsPermOf n p) ∧ D.central = List.range n ∧
      D.names.length = D.gens.length :=
  Cv.C15.koltsov3_valid n t k d D (transfer (permFamily_koltsov3 n t k d) (Cv.C15g5.koltsov3_gen n t k d) h)
example : ∃ d, (Fam.koltsov3 ((6 : Nat) : Int) ((2 : Nat) : Int) ((1 : Nat) : Int) ((1 : Nat) : Int)).bind rawToPermDef = some d :=
  nonvac (Cv.C15g5.koltsov3_gen 6 2 1 1) (by decide)

theorem koltsov3_source_count (n t k d : Nat) (D : PermDef)
    (h : (Fam.koltsov3 (n : Int) (t : Int) (k : Int) (d : Int)).bind rawToPermDef = some D) :
    D.gens.length = 3 :=
  Cv.C15.koltsov3_count n t k d D (transfer (permFamily_koltsov3 n t k d) (Cv.C15g5.koltsov3_gen n t k d) h)
example : ∃ d, (Fam.koltsov3 ((6 : Nat) : Int) ((2 : Nat) : Int) ((1 : Nat) : Int) ((1 : Nat) : Int)).bind rawToPermDef = some d :=
  nonvac (Cv.C15g5.koltsov3_gen 6 2 1 1) (by decide)

theorem koltsov3_source_inverse_closed (n t k d : Nat) (D : PermDef)
    (h : (Fam.koltsov3 (n : Int) (t : Int) (k : Int) (d : Int)).bind rawToPermDef = some D) :
    D.inverseClosed = true :=
  Cv.C15.koltsov3_inverse_closed n t k d D (transfer (permFamily_koltsov3 n t k d) (Cv.C15g5.koltsov3_gen n t k d) h)
example : ∃ d, (Fam.koltsov3 ((6 : Nat) : Int) ((2 : Nat) : Int) ((1 : Nat) : Int) ((1 : Nat) : Int)).bind rawToPermDef = some d :=
  nonvac (Cv.C15g5.koltsov3_gen 6 2 1 1) (by decide)

/-! ### three_cycles_0ij -/

theorem three_cycles_0ij_source_valid (n : Nat) (d : PermDef)
    (h : (Fam.three_cycles_0ij (n : Int)).bind rawToPermDef = some d) :
    (∀ p ∈ d.gens, Cv.Perm.IsPermOf n p) ∧ d.central = List.range n ∧
      d.names.length = d.gens.length :=
  Cv.C15.three_cycles_0ij_valid n d (transfer (permFamily_threeCycles0ij n) (Cv.C15g6.three_cycles_0ij_gen n) h)
example : ∃ d, (Fam.three_cycles_0ij ((4 : Nat) : Int)).bind rawToPermDef = some d :=
  nonvac (Cv.C15g6.three_cycles_0ij_gen 4) (by decide)

theorem three_cycles_0ij_source_count (n : Nat) (d : PermDef)
    (h : (Fam.three_cycles_0ij (n : Int)).bind rawToPermDef = some d) :
    d.gens.length = (n - 1) * (n - 2) :=
  Cv.C15.three_cycles_0ij_count n d (transfer (permFamily_threeCycles0ij n) (Cv.C15g6.three_cycles_0ij_gen n) h)
example : ∃ d, (Fam.three_cycles_0ij ((4 : Nat) : Int)).bind rawToPermDef = some d :=
  nonvac (Cv.C15g6.three_cycles_0ij_gen 4) (by decide)

theorem three_cycles_0ij_source_inverse_closed (n : Nat) (d : PermDef)
    (h : (Fam.three_cycles_0ij (n : Int)).bind rawToPermDef = some d) :
    d.inverseClosed = true :=
  Cv.C15.three_cycles_0ij_inverse_closed n d (transfer (permFamily_threeCycles0ij n) (Cv.C15g6.three_cycles_0ij_gen n) h)
example : ∃ d, (Fam.three_cycles_0ij ((4 : Nat) : Int)).bind rawToPermDef = some d :=
  nonvac (Cv.C15g6.three_cycles_0ij_gen 4) (by decide)

/-! ### three_cycles -/

theorem three_cycles_source_valid (n : Nat) (d : PermDef)
    (h : (Fam.three_cycles (n : Int)).bind rawToPermDef = some d) :
    (∀ p ∈ d.gens, Cv.Perm.IsPermOf n p) ∧ d.central = List.range n ∧
      d.names.length = d.gens.length :=
  Cv.C15.three_cycles_valid n d (transfer (permFamily_threeCycles n) (Cv.C15g6.three_cycles_gen n) h)
example : ∃ d, (Fam.three_cycles ((4 : Nat) : Int)).bind rawToPermDef = some d :=
  nonvac (Cv.C15g6.three_cycles_gen 4) (by decide)

theorem three_cycles_source_count (n : Nat) (d : PermDef)
    (h : (Fam.three_cycles (n : Int)).bind rawToPermDef = some d) :
    3 * d.gens.length = n * (n - 1) * (n - 2) :=
  Cv.C15.three_cycles_count n d (transfer (permFamily_threeCycles n) (Cv.C15g6.three_cycles_gen n) h)
example : ∃ d, (Fam.three_cycles ((4 : Nat) : Int)).bind rawToPermDef = some d :=
  nonvac (Cv.C15g6.three_cycles_gen 4) (by decide)

theorem three_cycles_source_inverse_closed (n : Nat) (d : PermDef)
    (h : (Fam.three_cycles (n : Int)).bind rawToPermDef = some d) :
    d.inverseClosed = true :=
  Cv.C15.three_cycles_inverse_closed n d (transfer (permFamily_threeCycles n) (Cv.C15g6.three_cycles_gen n) h)
example : ∃ d, (Fam.three_cycles ((4 : Nat) : Int)).bind rawToPermDef = some d :=
  nonvac (Cv.C15g6.three_cycles_gen 4) (by decide)

/-! ### increasing_k_cycles -/

theorem increasing_k_cycles_source_valid (n k : Nat) (d : PermDef)
    (h : (Fam.increasing_k_cycles (n : Int) (k : Int)).bind rawToPermDef = some d) :
    (∀ p ∈ d.gens, Cv.Perm.IsPermOf n p) ∧ d.central = List.range n ∧
      d.names.length = d.gens.length :=
  Cv.C15.increasing_k_cycles_valid n k d (transfer (permFamily_increasingKCycles n k) (Cv.C15g6.increasing_k_cycles_gen n k) h)
example : ∃ d, (Fam.increasing_k_cycles ((4 : Nat) : Int) ((3 : Nat) : Int)).bind rawToPermDef = some d :=
  nonvac (Cv.C15g6.increasing_k_cycles_gen 4 3) (by decide)

theorem increasing_k_cycles_source_count (n k : Nat) (d : PermDef)
    (h : (Fam.increasing_k_cycles (n : Int) (k : Int)).bind rawToPermDef = some d) :
    d.gens.length = choose n k :=
  Cv.C15.increasing_k_cycles_count n k d (transfer (permFamily_increasingKCycles n k) (Cv.C15g6.increasing_k_cycles_gen n k) h)
example : ∃ d, (Fam.increasing_k_cycles ((4 : Nat) : Int) ((3 : Nat) : Int)).bind rawToPermDef = some d :=
  nonvac (Cv.C15g6.increasing_k_cycles_gen 4 3) (by decide)

theorem increasing_k_cycles_source_inverse_closed (n k : Nat) (d : PermDef)
    (h : (Fam.increasing_k_cycles (n : Int) (k : Int)).bind rawToPermDef = some d) :
    d.inverseClosed = decide (k ≤ 2) :=
  Cv.C15.increasing_k_cycles_inverse_closed n k d (transfer (permFamily_increasingKCycles n k) (Cv.C15g6.increasing_k_cycles_gen n k) h)
example : ∃ d, (Fam.increasing_k_cycles ((4 : Nat) : Int) ((3 : Nat) : Int)).bind rawToPermDef = some d :=
  nonvac (Cv.C15g6.increasing_k_cycles_gen 4 3) (by decide)

/-! ### derangements -/

theorem derangements_source_valid (n : Nat) (d : PermDef)
    (h : (Fam.derangements (n : Int)).bind rawToPermDef = some d) :
    (∀ p ∈ d.gens, Cv.Perm.IsPermOf n p) ∧ d.central = List.range n ∧
      d.names.length = d.gens.length :=
  Cv.C15.derangements_valid n d (transfer (permFamily_derangements n) (Cv.C15g6.derangements_gen n) h)
example : ∃ d, (Fam.derangements ((3 : Nat) : Int)).bind rawToPermDef = some d :=
  nonvac (Cv.C15g6.derangements_gen 3) (by decide)

theorem derangements_source_inverse_closed (n : Nat) (d : PermDef)
    (h : (Fam.derangements (n : Int)).bind rawToPermDef = some d) :
    d.inverseClosed = true :=
  Cv.C15.derangements_inverse_closed n d (transfer (permFamily_derangements n) (Cv.C15g6.derangements_gen n) h)
example : ∃ d, (Fam.derangements ((3 : Nat) : Int)).bind rawToPermDef = some d :=
  nonvac (Cv.C15g6.derangements_gen 3) (by decide)

end Cv.C15g9
