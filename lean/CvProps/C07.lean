/-
  C07 — random walks.  Property theorems only (filled in as proofs land).
-/
import CvModel.Beam
