/-
  C07 — random walk generators: every returned row is a real walk of the recorded length, for ALL random
  draws (the draws are oracle inputs of the model).  Property theorems only; proofs in `CvProofs/Walks.lean`.
-/
import CvProofs.Walks
import CvProofs.RefBfs
namespace Cv

/-- the 6-cycle on `Nat` used in the non-vacuity examples: generator 0 is `+1`, generator 1 is `-1` -/
def c6w : Graph Nat :=
  { nGens := 2, act := fun i x => if i = 0 then (x + 1) % 6 else (x + 5) % 6, hash := fun x => (x : Int),
    invClosed := true, batchSize := 100 }

/-- the infinite ternary tree on `Nat` (three generators, not inverse closed) -/
def tree3w : Graph Nat :=
  { nGens := 3, act := fun i x => 3 * x + i + 1, hash := fun x => (x : Int), invClosed := false,
    batchSize := 100 }

variable {α : Type}

/-- classic mode, for ALL draws satisfying the contract of `torch.randint` (`DrawsOk`, defined in
`CvProofs/Walks.lean` exactly as in the task statement) -/
theorem walksClassic_spec (g : Graph α) (width length : Nat) (hl : 1 ≤ length) (start : α) (draws : List (List Nat))
    (hd : DrawsOk g width draws (length - 1)) :
    let out := walksClassic g width length start draws
    out.length = width * length ∧
    (∀ k, k < width → out[k]? = some (start, 0)) ∧
    (∀ k p, out[k]? = some p → p.2 = k / width) ∧
    (∀ k p q, out[k]? = some p → out[k + width]? = some q → ∃ i, i < g.nGens ∧ q.1 = g.act i p.1) ∧
    (∀ p ∈ out, Walk g.nb p.2 start p.1) := by
  exact BW.walksClassic_spec' g width length hl start draws hd

/-- non-vacuity: two walks of three rows each on the 6-cycle; the draws satisfy the contract -/
theorem c6w_draws : DrawsOk c6w 2 [[0, 1], [0, 0]] (3 - 1) := by
  refine ⟨by decide, ?_⟩
  intro k d h
  match k, h with
  | 0, h => cases h; decide
  | 1, h => cases h; decide
  | k + 2, h => simp at h
example : walksClassic c6w 2 3 0 [[0, 1], [0, 0]] = [(0, 0), (0, 0), (1, 1), (5, 1), (2, 2), (0, 2)] := by decide
example : (walksClassic c6w 2 3 0 [[0, 1], [0, 0]]).length = 2 * 3 :=
  (walksClassic_spec c6w 2 3 (by decide) 0 _ c6w_draws).1
/-- the contract on the draws is needed: a generator index `≥ nGens` is applied by the model as a "ghost"
generator and a too short draw truncates the block (`zip`) -/
example : walksClassic c6w 2 2 0 [[0]] = [(0, 0), (0, 0), (1, 1)] := by decide

/-- nbt mode: for every history depth ≥ 0 and every `perms` (even ill-formed ones) -/
theorem walksNbt_spec (g : Graph α) (width length historyDepth : Nat) (hl : 1 ≤ length) (start : α)
    (perms : List (List Nat)) :
    let out := walksNbt g width length historyDepth start perms
    (∀ k, k < width → out[k]? = some (start, 0)) ∧ (∀ p ∈ out, Walk g.nb p.2 start p.1) := by
  exact BW.walksNbt_spec' g width length historyDepth hl start perms

/-- non-vacuity: history depth 1 on the 6-cycle (the walk never steps back), and history depth 0 -/
example : walksNbt c6w 2 4 2 0 [[0, 3], [0, 3], [0, 3]] =
    [(0, 0), (0, 0), (1, 1), (5, 1), (2, 2), (3, 3)] := by decide
example : walksNbt c6w 2 3 0 0 [[3, 0], [1, 2]] = [(0, 0), (0, 0), (5, 1), (1, 1), (2, 2), (4, 2)] := by decide
/-- ill-formed perms (out-of-range indices are dropped by `gather`) -/
example : walksNbt c6w 2 3 2 0 [[7, 0, 9], [1, 2]] = [(0, 0), (0, 0), (1, 1), (2, 2)] := by decide


/-- evaluation of the BFS-mode generator on concrete inputs (`uniqueStates`/`sortInts` use merge sort, which
`decide` cannot reduce; `simp` with the equation lemmas can) -/
local macro "walk_eval" : tactic =>
  `(tactic| simp [walksBfs, walksBfsLoop, HashSetM.addSorted, HashSetM.unseen, sortInts, Graph.unique,
      Graph.neighbors, uniqueStates, sortByKey, dedupAdj, List.mergeSort, List.MergeSort.Internal.splitInTwo,
      gather, isinSorted, searchsorted, c6w, tree3w, List.range, List.range.loop])

/-- BFS mode: for ALL perms that are duplicate-free (the `Nodup` half of `PermOk`, the contract of
`torch.randperm`): first row is the start state, every row is a real walk of the recorded length, and no
state is returned twice -/
theorem walksBfs_spec (g : Graph α) (hinj : Function.Injective g.hash) (width length : Nat) (hw : 1 ≤ width)
    (hl : 1 ≤ length) (start : α) (perms : List (List Nat)) (hp : ∀ p ∈ perms, p.Nodup) :
    let out := walksBfs g width length start perms
    out.head? = some (start, 0) ∧ (∀ p ∈ out, Walk g.nb p.2 start p.1) ∧ (out.map (·.1)).Nodup := by
  exact BW.walksBfs_spec' g hinj width length hw hl start perms hp

/-- non-vacuity: width 1 on the 6-cycle, every layer (2 states) is thinned with a drawn permutation -/
example : walksBfs c6w 1 5 0 [[1, 0], [0, 1], [1, 0]] = [(0, 0), (5, 1), (4, 2), (3, 3), (2, 4)] := by walk_eval
theorem c6w_inj : Function.Injective c6w.hash := by intro a b hab; simp only [c6w] at hab; omega
example : ((walksBfs c6w 1 5 0 [[1, 0], [0, 1], [1, 0]]).map (·.1)).Nodup :=
  (walksBfs_spec c6w c6w_inj 1 5 (by decide) (by decide) 0 [[1, 0], [0, 1], [1, 0]] (by decide)).2.2

/-- the `Nodup` hypothesis on the perms is needed: a "permutation" with a repeated index makes the generator
return a state twice (ternary tree `x ↦ 3x+1, 3x+2, 3x+3`, width 2, first layer `[1,2,3]` thinned by `[0,0]`) -/
example : walksBfs tree3w 2 2 0 [[0, 0]] = [(0, 0), (1, 1), (1, 1)] := by walk_eval


/-- wide and long enough ⇒ exactly all vertices with their true distances (for ALL perms: none is used) -/
theorem walksBfs_exact (g : Graph α) (hinj : Function.Injective g.hash) (width length : Nat) (start : α)
    (perms : List (List Nat))
    (hwide : ∀ (k : Nat) (L : List α), L.Nodup → (∀ x ∈ L, DistLayer g.nb [start] k x) → L.length ≤ width)
    (ecc : Nat) (hecc : ∀ x, ¬ DistLayer g.nb [start] (ecc + 1) x) (hlen : ecc + 1 < length) (x : α) (k : Nat) :
    (x, k) ∈ walksBfs g width length start perms ↔ DistLayer g.nb [start] k x := by
  exact BW.walksBfs_exact' g hinj width length start perms hwide ecc hecc (by omega) x k

/-- (slightly more than requested) `ecc < length` is already enough: `length - 1 ≥ ecc` expansion steps emit the
classes `1 … ecc` -/
theorem walksBfs_exact_sharp (g : Graph α) (hinj : Function.Injective g.hash) (width length : Nat) (start : α)
    (perms : List (List Nat))
    (hwide : ∀ (k : Nat) (L : List α), L.Nodup → (∀ x ∈ L, DistLayer g.nb [start] k x) → L.length ≤ width)
    (ecc : Nat) (hecc : ∀ x, ¬ DistLayer g.nb [start] (ecc + 1) x) (hlen : ecc < length) (x : α) (k : Nat) :
    (x, k) ∈ walksBfs g width length start perms ↔ DistLayer g.nb [start] k x := by
  exact BW.walksBfs_exact' g hinj width length start perms hwide ecc hecc hlen x k

/-- the distance classes of the 6-cycle from state 0, computed by the verified reference BFS (C17) -/
theorem c6w_layers : refLayers c6w.nb [0] 10 = [[0], [1, 5], [2, 4], [3]] := by
  simp [refLayers, refLoop, refStep, sortDedup, dedupSorted, sdiff, List.mergeSort,
    List.MergeSort.Internal.splitInTwo, Graph.nb, nbOf, c6w, List.range, List.range.loop]

theorem c6w_layer (i : Nat) (L : List Nat) (h : [[0], [1, 5], [2, 4], [3]][i]? = some L) (x : Nat) :
    x ∈ L ↔ DistLayer c6w.nb [0] i x :=
  ((refLayers_spec' c6w.nb [0] 10).1 i L (by rw [c6w_layers]; exact h)).2 x

/-- eccentricity 3: class 4 is empty -/
theorem c6w_ecc : ∀ x, ¬ DistLayer c6w.nb [0] (3 + 1) x := by
  have := (refLayers_spec' c6w.nb [0] 10).2.2.2.2
  rw [c6w_layers] at this
  exact this (by decide)

/-- every distance class has at most 2 states -/
theorem c6w_wide (k : Nat) (L : List Nat) (hn : L.Nodup) (hL : ∀ x ∈ L, DistLayer c6w.nb [0] k x) : L.length ≤ 2 := by
  by_cases hk : k < 4
  · have hex : ∃ M, [[0], [1, 5], [2, 4], [3]][k]? = some M ∧ M.length ≤ 2 := by
      rcases (by omega : k = 0 ∨ k = 1 ∨ k = 2 ∨ k = 3) with rfl | rfl | rfl | rfl <;> simp
    obtain ⟨M, hM, hlen⟩ := hex
    have hsub : L ⊆ M := fun x hx => (c6w_layer k M hM x).2 (hL x hx)
    exact Nat.le_trans (hn.length_le_of_subset hsub) hlen
  · cases L with
    | nil => simp
    | cons x _ =>
      exact absurd (hL x (by simp)) (BW.distLayer_empty_above c6w.nb [0] 4 c6w_ecc k (by omega) x)

/-- non-vacuity: width 2, length 5 > 3 + 1 on the 6-cycle: the output is the whole graph with true distances -/
example (perms : List (List Nat)) (x k : Nat) :
    (x, k) ∈ walksBfs c6w 2 5 0 perms ↔ DistLayer c6w.nb [0] k x :=
  walksBfs_exact c6w c6w_inj 2 5 0 perms c6w_wide 3 c6w_ecc (by decide) x k
example : walksBfs c6w 2 5 0 [] = [(0, 0), (1, 1), (5, 1), (2, 2), (4, 2), (3, 3)] := by walk_eval
/-- a length hypothesis is needed (`ecc < length` suffices, see `walksBfs_exact_sharp`): with
`length = 3 = ecc` the last class (state 3) is missing although `DistLayer … 3 3` holds -/
example : walksBfs c6w 2 3 0 [] = [(0, 0), (1, 1), (5, 1), (2, 2), (4, 2)] ∧ DistLayer c6w.nb [0] 3 3 :=
  ⟨by walk_eval, (c6w_layer 3 [3] rfl 3).1 (by simp)⟩
/-- the width hypothesis is needed: with width 1 the layers are thinned -/
example : walksBfs c6w 1 5 0 [] = [(0, 0), (1, 1), (2, 2), (3, 3), (4, 4)] ∧ DistLayer c6w.nb [0] 1 5 :=
  ⟨by walk_eval, (c6w_layer 1 [1, 5] rfl 5).1 (by simp)⟩

end Cv
