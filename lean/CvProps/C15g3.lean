/-
  C15 (worker g3): the `PermutationGroups` constructors REGENERATED from the Python source
  (`CvGen/PyFamilies.lean`, namespace `Cv.PyGen.Fam`), followed by the model of `CayleyGraphDef.create`
  (`rawToPermDef`), equal the closed-form specification `CvModel/Families.lean` for ALL parameter values.
  Proofs: `CvProofs/PyLemmasG3.lean`, `CvProofs/PyFamG3.lean`, `CvProofs/PyFamG3b.lean`,
  `CvProofs/PyFamG3c.lean`.
-/
import CvProofs.PyFamG3
import CvProofs.PyFamG3b
import CvProofs.PyFamG3c
namespace Cv.C15g3
open Cv.Py Cv.PyGen Cv.Families

/-- the generated `permutation_utils.transposition` is the one-line transposition `(i j)` -/
theorem transposition_gen (n i j : Nat) (hi : i < n) (hj : j < n) (hij : i ≠ j) :
    Cv.PyGen.Perm.transposition (n : Int) (i : Int) (j : Int) = some (toI (oneLine n (swapFn i j))) := by
  exact Cv.PyG3.transposition_eq n i j hi hj hij
example : Cv.PyGen.Perm.transposition 4 1 3 = some [0, 3, 2, 1] := by decide

/-- … and it asserts `0 ≤ i, j < n`, `i ≠ j` -/
theorem transposition_gen_none (n i j : Int) (h : ¬ (0 ≤ i ∧ i < n ∧ 0 ≤ j ∧ j < n ∧ i ≠ j)) :
    Cv.PyGen.Perm.transposition n i j = none := by
  exact Cv.PyG3.transposition_none n i j h
example : Cv.PyGen.Perm.transposition 4 1 1 = none ∧ Cv.PyGen.Perm.transposition 4 1 4 = none ∧
    Cv.PyGen.Perm.transposition 4 (-1) 2 = none := by decide

theorem lx_gen (n : Nat) : (Fam.lx (n : Int)).bind rawToPermDef = Families.lx n := by
  exact Cv.PyG3.lx_gen n
example : (Fam.lx 4).isSome = true ∧ (Families.lx 4).isSome = true := by decide
example : ((Fam.lx 4).bind rawToPermDef).isSome = true := by
  rw [show (Fam.lx 4).bind rawToPermDef = _ from lx_gen 4]; decide

theorem lx_gen_neg (n : Int) (h : n < 0) : Fam.lx n = none := by
  exact Cv.PyG3.lx_gen_neg n h
example : Fam.lx (-1) = none := by decide

theorem lrx_gen (n k : Nat) : (Fam.lrx (n : Int) (k : Int)).bind rawToPermDef = Families.lrx n k := by
  exact Cv.PyG3.lrx_gen n k
example : (Fam.lrx 5 2).isSome = true ∧ (Families.lrx 5 2).isSome = true ∧
    (Fam.lrx 5 0).isSome = false ∧ (Families.lrx 5 5).isSome = false := by decide
example : ((Fam.lrx 5 2).bind rawToPermDef).isSome = true := by
  rw [show (Fam.lrx 5 2).bind rawToPermDef = _ from lrx_gen 5 2]; decide

theorem lrx_gen_neg (n k : Int) (h : n < 0) : Fam.lrx n k = none := by
  exact Cv.PyG3.lrx_gen_neg n k h
example : Fam.lrx (-1) 1 = none := by decide

/-- (extra) a negative `k` is rejected by the assertion of `transposition` -/
theorem lrx_gen_neg_k (n k : Int) (h : k < 0) : Fam.lrx n k = none := by
  exact Cv.PyG3.lrx_gen_neg_k n k h
example : Fam.lrx 5 (-1) = none := by decide

theorem pancake_gen (n : Nat) : (Fam.pancake (n : Int)).bind rawToPermDef = Families.pancake n := by
  exact Cv.PyG3.pancake_gen n
example : (Fam.pancake 4).isSome = true ∧ (Families.pancake 4).isSome = true := by decide
example : ((Fam.pancake 4).bind rawToPermDef).isSome = true := by
  rw [show (Fam.pancake 4).bind rawToPermDef = _ from pancake_gen 4]; decide

theorem pancake_gen_neg (n : Int) (h : n < 0) : Fam.pancake n = none := by
  exact Cv.PyG3.pancake_gen_neg n h
example : Fam.pancake (-1) = none := by decide

/-- the helper `_create_coxeter_generators(n)`: the adjacent transpositions `(i, i+1)`, `i = 0..n-2` -/
theorem create_coxeter_generators_gen (n : Nat) :
    Fam._create_coxeter_generators (n : Int)
      = some ((List.range (n - 1)).map fun i => toI (oneLine n (swapFn i (i + 1)))) := by
  exact Cv.PyG3.create_coxeter_generators_eq n
example : Fam._create_coxeter_generators 3 = some [[1, 0, 2], [0, 2, 1]] := by decide

theorem coxeter_gen (n : Nat) : (Fam.coxeter (n : Int)).bind rawToPermDef = Families.coxeter n := by
  exact Cv.PyG3.coxeter_gen n
example : (Fam.coxeter 4).isSome = true ∧ (Families.coxeter 4).isSome = true := by decide
example : ((Fam.coxeter 4).bind rawToPermDef).isSome = true := by
  rw [show (Fam.coxeter 4).bind rawToPermDef = _ from coxeter_gen 4]; decide

theorem coxeter_gen_neg (n : Int) (h : n < 0) : Fam.coxeter n = none := by
  exact Cv.PyG3.coxeter_gen_neg n h
example : Fam.coxeter (-1) = none := by decide

theorem cyclic_coxeter_gen (n : Nat) :
    (Fam.cyclic_coxeter (n : Int)).bind rawToPermDef = Families.cyclicCoxeter n := by
  exact Cv.PyG3.cyclic_coxeter_gen n
example : (Fam.cyclic_coxeter 4).isSome = true ∧ (Families.cyclicCoxeter 4).isSome = true := by decide
example : ((Fam.cyclic_coxeter 4).bind rawToPermDef).isSome = true := by
  rw [show (Fam.cyclic_coxeter 4).bind rawToPermDef = _ from cyclic_coxeter_gen 4]; decide

theorem cyclic_coxeter_gen_neg (n : Int) (h : n < 0) : Fam.cyclic_coxeter n = none := by
  exact Cv.PyG3.cyclic_coxeter_gen_neg n h
example : Fam.cyclic_coxeter (-1) = none := by decide

theorem stars_gen (n : Nat) : (Fam.stars (n : Int)).bind rawToPermDef = Families.stars n := by
  exact Cv.PyG3.stars_gen n
example : (Fam.stars 4).isSome = true ∧ (Families.stars 4).isSome = true := by decide
example : ((Fam.stars 4).bind rawToPermDef).isSome = true := by
  rw [show (Fam.stars 4).bind rawToPermDef = _ from stars_gen 4]; decide

theorem stars_gen_neg (n : Int) (h : n < 0) : Fam.stars n = none := by
  exact Cv.PyG3.stars_gen_neg n h
example : Fam.stars (-1) = none := by decide

/-- no generator names are passed: both sides use the default names of `create` -/
theorem top_spin_gen (n k : Nat) :
    (Fam.top_spin (n : Int) (k : Int)).bind rawToPermDef = Families.topSpin n k := by
  exact Cv.PyG3.top_spin_gen n k
example : (Fam.top_spin 5 4).isSome = true ∧ (Families.topSpin 5 4).isSome = true ∧
    (Fam.top_spin 3 4).isSome = false := by decide
example : ((Fam.top_spin 5 4).bind rawToPermDef).isSome = true := by
  rw [show (Fam.top_spin 5 4).bind rawToPermDef = _ from top_spin_gen 5 4]; decide

theorem top_spin_gen_neg (n k : Int) (h : n < 0 ∨ k < 0) : Fam.top_spin n k = none := by
  exact Cv.PyG3.top_spin_gen_neg n k h
example : Fam.top_spin (-1) 4 = none ∧ Fam.top_spin 4 (-1) = none := by decide

theorem larx_gen (n : Nat) : (Fam.larx (n : Int)).bind rawToPermDef = Families.larx n := by
  exact Cv.PyG3.larx_gen n
example : (Fam.larx 4).isSome = true ∧ (Families.larx 4).isSome = true := by decide
example : ((Fam.larx 4).bind rawToPermDef).isSome = true := by
  rw [show (Fam.larx 4).bind rawToPermDef = _ from larx_gen 4]; decide

theorem larx_gen_neg (n : Int) (h : n < 0) : Fam.larx n = none := by
  exact Cv.PyG3.larx_gen_neg n h
example : Fam.larx (-1) = none := by decide

theorem generalized_stars_gen (n k : Nat) :
    (Fam.generalized_stars (n : Int) (k : Int)).bind rawToPermDef = Families.generalizedStars n k := by
  exact Cv.PyG3.generalized_stars_gen n k
example : (Fam.generalized_stars 5 2).isSome = true ∧ (Families.generalizedStars 5 2).isSome = true ∧
    (Fam.generalized_stars 5 5).isSome = false := by decide
example : ((Fam.generalized_stars 5 2).bind rawToPermDef).isSome = true := by
  rw [show (Fam.generalized_stars 5 2).bind rawToPermDef = _ from generalized_stars_gen 5 2]; decide

theorem generalized_stars_gen_neg (n k : Int) (h : n < 0 ∨ k < 0) : Fam.generalized_stars n k = none := by
  exact Cv.PyG3.generalized_stars_gen_neg n k h
example : Fam.generalized_stars (-1) 1 = none ∧ Fam.generalized_stars 5 (-1) = none := by decide

theorem burnt_pancake_gen (n : Nat) :
    (Fam.burnt_pancake (n : Int)).bind rawToPermDef = Families.burntPancake n := by
  exact Cv.PyG3.burnt_pancake_gen n
example : (Fam.burnt_pancake 3).isSome = true ∧ (Families.burntPancake 3).isSome = true := by decide
example : ((Fam.burnt_pancake 3).bind rawToPermDef).isSome = true := by
  rw [show (Fam.burnt_pancake 3).bind rawToPermDef = _ from burnt_pancake_gen 3]; decide

theorem burnt_pancake_gen_neg (n : Int) (h : n < 0) : Fam.burnt_pancake n = none := by
  exact Cv.PyG3.burnt_pancake_gen_neg n h
example : Fam.burnt_pancake (-1) = none := by decide

/-- the hoisted local helper `pancake_generator(k, n)` of `cubic_pancake` is the prefix reversal -/
theorem cubic_pancake_pancake_generator_gen (k n : Nat) (hk : k ≤ n) :
    Fam.cubic_pancake_pancake_generator (k : Int) (n : Int) = some (toI (oneLine n (prefixRevFn k))) := by
  exact Cv.PyG3.cubic_helper_eq k n hk
example : Fam.cubic_pancake_pancake_generator 3 4 = some [2, 1, 0, 3] := by decide

/-- includes the cases where the source builds a malformed generator (`n = 2` with prefix length `3` or
`n - 3 = -1`) and `create` rejects it: both sides are `none` there -/
theorem cubic_pancake_gen (n subset : Nat) :
    (Fam.cubic_pancake (n : Int) (subset : Int)).bind rawToPermDef = Families.cubicPancake n subset := by
  exact Cv.PyG3.cubic_pancake_gen n subset
example : (Fam.cubic_pancake 5 4).isSome = true ∧ (Families.cubicPancake 5 4).isSome = true ∧
    (Fam.cubic_pancake 2 2).isSome = true ∧ (Families.cubicPancake 2 2).isSome = false ∧
    (Fam.cubic_pancake 5 8).isSome = false := by decide
example : ((Fam.cubic_pancake 5 4).bind rawToPermDef).isSome = true := by
  rw [show (Fam.cubic_pancake 5 4).bind rawToPermDef = _ from cubic_pancake_gen 5 4]; decide
example : (Fam.cubic_pancake 2 2).bind rawToPermDef = none := by
  rw [show (Fam.cubic_pancake 2 2).bind rawToPermDef = _ from cubic_pancake_gen 2 2]; decide

theorem cubic_pancake_gen_neg (n subset : Int) (h : n < 0 ∨ subset < 0) :
    Fam.cubic_pancake n subset = none := by
  exact Cv.PyG3.cubic_pancake_gen_neg n subset h
example : Fam.cubic_pancake (-1) 1 = none ∧ Fam.cubic_pancake 4 (-1) = none := by decide

end Cv.C15g3
