/-
  C20g — `cayleypy/permutation_utils.py`: the definitions REGENERATED from the Python source
  (`CvGen/PyPerm.lean`, namespace `Cv.PyGen.Perm`) equal the hand-written model (`CvModel/Perm.lean`, `Cv.Perm`).
  Property theorems only; proofs are in `CvProofs/PyPermG1*.lean`.
  (`PyGen.Perm.f` is written instead of `Perm.f` because inside `namespace Cv` the name `Perm.transposition` would
  resolve to the model's `Cv.Perm.transposition`.)
-/
import CvProofs.PyPermG1
import CvProofs.PyPermG1b
import CvProofs.PyPermG1c
import CvProofs.PyPermG1d
import CvProofs.PyPermG1e
namespace Cv.C20g
open Cv.Py Cv.PyGen

theorem identity_perm_gen (n : Nat) : PyGen.Perm.identity_perm (n : Int) = some (toI (Cv.Perm.identity n)) := by
  exact Cv.PyG1.identity_perm_gen n
example : PyGen.Perm.identity_perm (4 : Nat) = some [0, 1, 2, 3] := by decide

theorem identity_perm_gen_neg (n : Int) (h : n ≤ 0) : PyGen.Perm.identity_perm n = some [] := by
  exact Cv.PyG1.identity_perm_gen_neg n h
example : (-3 : Int) ≤ 0 ∧ PyGen.Perm.identity_perm (-3) = some [] := by decide

theorem apply_permutation_gen (p x : List Nat) :
    PyGen.Perm.apply_permutation (toI p) (toI x) = (Cv.Perm.apply? p x).map toI := by
  exact Cv.PyG1.apply_permutation_gen p x
example : PyGen.Perm.apply_permutation (toI [2,0,3,1]) (toI [7,8,9,10]) = some [9,7,10,8] ∧
    PyGen.Perm.apply_permutation (toI [2,0,4,1]) (toI [7,8,9,10]) = none ∧
    Cv.Perm.apply? [2,0,4,1] [7,8,9,10] = none := by decide

theorem apply_permutation_gen_total (p x : List Nat) (h : ∀ i ∈ p, i < x.length) :
    PyGen.Perm.apply_permutation (toI p) (toI x) = some (toI (Cv.Perm.apply p x)) := by
  exact Cv.PyG1.apply_permutation_gen_total p x h
example : (∀ i ∈ [2,0,3,1], i < [7,8,9,10].length) ∧ Cv.Perm.apply [2,0,3,1] [7,8,9,10] = [9,7,10,8] := by decide

theorem compose_permutations_gen (p q : List Nat) (h : ∀ i ∈ p, i < q.length) :
    PyGen.Perm.compose_permutations (toI p) (toI q) = some (toI (Cv.Perm.compose p q)) := by
  exact Cv.PyG1.compose_permutations_gen p q h
example : (∀ i ∈ [1,2,3,0], i < [1,0,2,3].length) ∧
    PyGen.Perm.compose_permutations (toI [1,2,3,0]) (toI [1,0,2,3]) = some [0,2,3,1] := by decide

theorem inverse_permutation_gen (p : List Nat) (h : ∀ i ∈ p, i < p.length) :
    PyGen.Perm.inverse_permutation (toI p) = some (toI (Cv.Perm.inverse p)) := by
  exact Cv.PyG1.inverse_permutation_gen p h
example : (∀ i ∈ [2,0,3,1], i < [2,0,3,1].length) ∧
    PyGen.Perm.inverse_permutation (toI [2,0,3,1]) = some [1,3,0,2] := by decide
/-- the hypothesis is needed: out of range the source raises IndexError, the (total) model does not -/
example : PyGen.Perm.inverse_permutation (toI [2,0]) = none ∧ Cv.Perm.inverse [2,0] = [1,0] := by decide
/-- Python's negative indices: `inverse_permutation([-1, 0])` does not raise -/
theorem inverse_permutation_negative_index : PyGen.Perm.inverse_permutation [-1, 0] = some [1, 0] := by decide
example : PyGen.Perm.inverse_permutation [-3, 0] = none ∧ PyGen.Perm.inverse_permutation [-2, -2] = some [1, 0] := by
  decide

theorem is_permutation_gen (p : List Nat) : PyGen.Perm.is_permutation (toI p) = some (Cv.Perm.isPerm p) := by
  exact Cv.PyG1.is_permutation_gen p
example : PyGen.Perm.is_permutation (toI [2,0,3,1]) = some true ∧
    PyGen.Perm.is_permutation (toI [2,0,2,1]) = some false := by
  rw [is_permutation_gen, is_permutation_gen]
  refine ⟨congrArg some ((Cv.Perm.isPerm_iff _).2 (by decide)), congrArg some ?_⟩
  rw [Bool.eq_false_iff]; intro h; exact absurd ((Cv.Perm.isPerm_iff _).1 h) (by decide)

theorem is_permutation_gen_neg (p : List Int) (h : ∃ i ∈ p, i < 0) : PyGen.Perm.is_permutation p = some false := by
  exact Cv.PyG1.is_permutation_gen_neg p h
example : ∃ i ∈ ([1, -1, 0] : List Int), i < 0 := by decide

theorem transposition_gen (n i j : Nat) :
    PyGen.Perm.transposition (n : Int) (i : Int) (j : Int) = (Cv.Perm.transposition n i j).map toI := by
  exact Cv.PyG1.transposition_gen n i j
example : PyGen.Perm.transposition (5 : Nat) (1 : Nat) (3 : Nat) = some [0,3,2,1,4] ∧
    PyGen.Perm.transposition (5 : Nat) (1 : Nat) (1 : Nat) = none ∧
    PyGen.Perm.transposition (5 : Nat) (1 : Nat) (5 : Nat) = none := by decide

theorem transposition_gen_neg (n i j : Int) (h : i < 0 ∨ j < 0) : PyGen.Perm.transposition n i j = none := by
  exact Cv.PyG1.transposition_gen_neg n i j h
example : ((-1 : Int) < 0 ∨ (2 : Int) < 0) ∧ PyGen.Perm.transposition 5 (-1) 2 = none := by decide

/-- no extra hypothesis is needed: the model stores `nxt.toNat` where the source stores `nxt`, but a negative `nxt` is an
entry of the same cycle and is rejected by the range assertion of that cycle on both sides -/
theorem permutation_from_cycles_gen (n : Nat) (cycles : List (List Int)) (offset : Int) :
    PyGen.Perm.permutation_from_cycles (n : Int) cycles offset = (Cv.Perm.fromCycles n cycles offset).map toI := by
  exact Cv.PyG1.permutation_from_cycles_gen n cycles offset
example : PyGen.Perm.permutation_from_cycles (6 : Nat) [[1, 3, 2], [5, 6]] 1 = some [2, 0, 1, 3, 5, 4] ∧
    Cv.Perm.fromCycles 6 [[1, 3, 2], [5, 6]] 1 = some [2, 0, 1, 3, 5, 4] := by decide
/-- negative `nxt` (written by the source, `toNat`-ed by the model), intersecting cycles, out of range: both fail -/
example : PyGen.Perm.permutation_from_cycles (3 : Nat) [[0, -1]] 0 = none ∧ Cv.Perm.fromCycles 3 [[0, -1]] 0 = none ∧
    PyGen.Perm.permutation_from_cycles (3 : Nat) [[0, 1], [1, 2]] 0 = none ∧ Cv.Perm.fromCycles 3 [[0, 1], [1, 2]] 0 = none ∧
    PyGen.Perm.permutation_from_cycles (3 : Nat) [[0, 3]] 0 = none ∧ Cv.Perm.fromCycles 3 [[0, 3]] 0 = none := by decide

/-! ### the C20 property theorems, transferred to the generated functions -/
section transfer
open Cv.Perm

theorem gen_is_permutation_iff (p : List Nat) :
    PyGen.Perm.is_permutation (toI p) = some true ↔ (p.Nodup ∧ ∀ i ∈ p, i < p.length) := by
  exact Cv.PyG1.gen_is_permutation_iff' p
example : ([2,0,3,1] : List Nat).Nodup ∧ ∀ i ∈ [2,0,3,1], i < [2,0,3,1].length := by decide

/-- the same in the vocabulary of `C20.isPerm_iff` -/
theorem gen_is_permutation_iff_isPermOf (p : List Nat) :
    PyGen.Perm.is_permutation (toI p) = some true ↔ IsPermOf p.length p := by
  exact Cv.PyG1.gen_is_permutation_iff p
example : IsPermOf [2,0,3,1].length [2,0,3,1] ∧ ¬ IsPermOf [2,0,2,1].length [2,0,2,1] := by decide

theorem gen_compose_inverse_right (p : List Nat) (hp : isPerm p = true) :
    (PyGen.Perm.inverse_permutation (toI p)).bind (fun q => PyGen.Perm.compose_permutations (toI p) q)
      = some (toI (identity p.length)) := by
  exact Cv.PyG1.gen_compose_inverse_right p hp
example : isPerm [2,0,3,1] = true ∧
    (PyGen.Perm.inverse_permutation (toI [2,0,3,1])).bind (fun q => PyGen.Perm.compose_permutations (toI [2,0,3,1]) q)
      = some [0,1,2,3] := ⟨(isPerm_iff _).2 (by decide), by decide⟩

theorem gen_compose_inverse_left (p : List Nat) (hp : isPerm p = true) :
    (PyGen.Perm.inverse_permutation (toI p)).bind (fun q => PyGen.Perm.compose_permutations q (toI p))
      = some (toI (identity p.length)) := by
  exact Cv.PyG1.gen_compose_inverse_left p hp
example : isPerm [2,0,3,1] = true ∧
    (PyGen.Perm.inverse_permutation (toI [2,0,3,1])).bind (fun q => PyGen.Perm.compose_permutations q (toI [2,0,3,1]))
      = some [0,1,2,3] := ⟨(isPerm_iff _).2 (by decide), by decide⟩

theorem gen_inverse_inverse (p : List Nat) (hp : isPerm p = true) :
    (PyGen.Perm.inverse_permutation (toI p)).bind PyGen.Perm.inverse_permutation = some (toI p) := by
  exact Cv.PyG1.gen_inverse_inverse p hp
example : isPerm [2,0,3,1] = true ∧
    (PyGen.Perm.inverse_permutation (toI [2,0,3,1])).bind PyGen.Perm.inverse_permutation = some [2,0,3,1] :=
  ⟨(isPerm_iff _).2 (by decide), by decide⟩

theorem gen_inverse_is_permutation (p : List Nat) (hp : isPerm p = true) :
    (PyGen.Perm.inverse_permutation (toI p)).bind PyGen.Perm.is_permutation = some true := by
  exact Cv.PyG1.gen_inverse_is_permutation p hp
example : isPerm [1,2,0] = true := (isPerm_iff _).2 (by decide)

theorem gen_apply_compose (p q x : List Nat) (hp : ∀ i ∈ p, i < q.length) (hq : ∀ i ∈ q, i < x.length) :
    (PyGen.Perm.compose_permutations (toI p) (toI q)).bind (fun r => PyGen.Perm.apply_permutation r (toI x))
      = (PyGen.Perm.apply_permutation (toI q) (toI x)).bind (fun y => PyGen.Perm.apply_permutation (toI p) y) := by
  exact Cv.PyG1.gen_apply_compose p q x hp hq
example : (∀ i ∈ [1,2,3,0], i < [1,0,2,3].length) ∧ (∀ i ∈ [1,0,2,3], i < [7,8,9,10].length) ∧
    (PyGen.Perm.compose_permutations (toI [1,2,3,0]) (toI [1,0,2,3])).bind
      (fun r => PyGen.Perm.apply_permutation r (toI [7,8,9,10])) = some [7,9,10,8] := by decide
/-- `hq` is needed: with `q` out of range of `x` the right side raises, the left side need not -/
example : (PyGen.Perm.compose_permutations (toI [0]) (toI [0, 5])).bind (fun r => PyGen.Perm.apply_permutation r (toI [7]))
      = some [7] ∧
    (PyGen.Perm.apply_permutation (toI [0, 5]) (toI [7])).bind (fun y => PyGen.Perm.apply_permutation (toI [0]) y) = none := by
  decide

theorem gen_compose_assoc (p q r : List Nat) (hp : ∀ i ∈ p, i < q.length) (hq : ∀ i ∈ q, i < r.length) :
    (PyGen.Perm.compose_permutations (toI p) (toI q)).bind (fun s => PyGen.Perm.compose_permutations s (toI r))
      = (PyGen.Perm.compose_permutations (toI q) (toI r)).bind (fun t => PyGen.Perm.compose_permutations (toI p) t) := by
  exact Cv.PyG1.gen_compose_assoc p q r hp hq
example : (∀ i ∈ [1,2,3,0], i < [1,0,2,3].length) ∧ (∀ i ∈ [1,0,2,3], i < [3,0,1,2].length) ∧
    (PyGen.Perm.compose_permutations (toI [1,2,3,0]) (toI [1,0,2,3])).bind
      (fun s => PyGen.Perm.compose_permutations s (toI [3,0,1,2])) = some [3,1,2,0] := by decide

theorem gen_apply_identity (x : List Nat) :
    (PyGen.Perm.identity_perm (x.length : Int)).bind (fun e => PyGen.Perm.apply_permutation e (toI x)) = some (toI x) := by
  exact Cv.PyG1.gen_apply_identity x
example : (PyGen.Perm.identity_perm (3 : Nat)).bind (fun e => PyGen.Perm.apply_permutation e (toI [5,5,7])) = some [5,5,7] := by
  decide

theorem gen_apply_inverse_cancel (p s : List Nat) (hp : isPerm p = true) (hs : s.length = p.length) :
    (PyGen.Perm.apply_permutation (toI p) (toI s)).bind (fun t =>
      (PyGen.Perm.inverse_permutation (toI p)).bind (fun q => PyGen.Perm.apply_permutation q t)) = some (toI s) := by
  exact Cv.PyG1.gen_apply_inverse_cancel p s hp hs
example : isPerm [2,0,3,1] = true ∧ [7,7,9,100].length = [2,0,3,1].length ∧
    PyGen.Perm.apply_permutation (toI [2,0,3,1]) (toI [7,7,9,100]) = some [9,7,100,7] :=
  ⟨(isPerm_iff _).2 (by decide), by decide, by decide⟩

theorem gen_transposition_spec (n i j : Nat) (q : List Int)
    (h : PyGen.Perm.transposition (n : Int) (i : Int) (j : Int) = some q) :
    ∃ p, q = toI p ∧ IsPermOf n p ∧ p.getD i 0 = j ∧ p.getD j 0 = i ∧
      ∀ k, k < n → k ≠ i → k ≠ j → p.getD k 0 = k := by
  exact Cv.PyG1.gen_transposition_spec n i j q h
example : PyGen.Perm.transposition (5 : Nat) (1 : Nat) (3 : Nat) = some [0,3,2,1,4] := by decide

theorem gen_transposition_none_iff (n i j : Nat) :
    PyGen.Perm.transposition (n : Int) (i : Int) (j : Int) = none ↔ ¬ (i < n ∧ j < n ∧ i ≠ j) := by
  exact Cv.PyG1.gen_transposition_none_iff n i j
example : PyGen.Perm.transposition (5 : Nat) (1 : Nat) (1 : Nat) = none ∧
    PyGen.Perm.transposition (5 : Nat) (1 : Nat) (5 : Nat) = none := by decide

/-- `C20.fromCycles_spec` for the generated function (same added hypothesis `hnd`, see C20) -/
theorem gen_fromCycles_spec (n : Nat) (cycles : List (List Int)) (offset : Int) (q : List Int)
    (h : PyGen.Perm.permutation_from_cycles (n : Int) cycles offset = some q)
    (hnd : (cycles.flatten.map (· - offset)).Nodup) :
    ∃ p, q = toI p ∧ IsPermOf n p ∧
    (∀ c ∈ cycles, ∀ i, i < c.length →
        p.getD (c.getD i 0 - offset).toNat 0 = (c.getD ((i + 1) % c.length) 0 - offset).toNat) ∧
    (∀ k, k < n → (∀ c ∈ cycles, (↑k + offset) ∉ c) → p.getD k 0 = k) := by
  exact Cv.PyG1.gen_fromCycles_spec n cycles offset q h hnd
example : PyGen.Perm.permutation_from_cycles (6 : Nat) [[1, 3, 2], [5, 6]] 1 = some [2, 0, 1, 3, 5, 4] ∧
    (([[1, 3, 2], [5, 6]] : List (List Int)).flatten.map (· - 1)).Nodup := by decide
/-- the C20 counterexample to the statement without `hnd`, on the generated function -/
example : PyGen.Perm.permutation_from_cycles (2 : Nat) [[0], [0, 1]] 0 = some [1, 0] := by decide

/-- whenever the generated `permutation_from_cycles` does not raise, its result passes the generated `is_permutation` -/
theorem gen_fromCycles_is_permutation (n : Nat) (cycles : List (List Int)) (offset : Int) (q : List Int)
    (h : PyGen.Perm.permutation_from_cycles (n : Int) cycles offset = some q) :
    PyGen.Perm.is_permutation q = some true ∧ q.length = n := by
  exact Cv.PyG1.gen_fromCycles_is_permutation n cycles offset q h
example : PyGen.Perm.permutation_from_cycles (3 : Nat) [[0], [0, 1], [2, 2]] 0 = some [1, 0, 2] := by decide

/-- EXACT success condition (`C20.fromCycles_isSome_iff_exact`) for the generated function -/
theorem gen_fromCycles_isSome_iff (n : Nat) (cycles : List (List Int)) (offset : Int) :
    (PyGen.Perm.permutation_from_cycles (n : Int) cycles offset).isSome = true ↔
      (∀ v ∈ cycles.flatten, 0 ≤ v - offset ∧ v - offset < n) ∧
      (allWrites cycles).Pairwise (fun a b => a.1 = b.1 → a.2 = a.1) := by
  exact Cv.PyG1.gen_fromCycles_isSome_iff n cycles offset
example : (PyGen.Perm.permutation_from_cycles (2 : Nat) [[0], [0, 1]] 0).isSome = true ∧
    (PyGen.Perm.permutation_from_cycles (2 : Nat) [[0, 1], [0]] 0).isSome = false := by decide

end transfer

/-! ### complements: exact failure conditions, arbitrary `Int` arguments -/
section complements
open Cv.Perm

/-- `inverse_permutation` raises (IndexError) as soon as an entry is out of range; with `inverse_permutation_gen` this
determines the generated function on every list of naturals (the total model function `inverse` does not fail) -/
theorem inverse_permutation_gen_none (p : List Nat) (h : ¬ ∀ i ∈ p, i < p.length) :
    PyGen.Perm.inverse_permutation (toI p) = none := by
  exact Cv.PyG1.inverse_permutation_gen_none p h
example : (¬ ∀ i ∈ [2, 0], i < [2, 0].length) ∧ PyGen.Perm.inverse_permutation (toI [2, 0]) = none := by decide

theorem compose_permutations_gen_option (p q : List Nat) :
    PyGen.Perm.compose_permutations (toI p) (toI q) = (Cv.Perm.apply? p q).map toI := by
  exact Cv.PyG1.compose_permutations_gen_option p q
example : PyGen.Perm.compose_permutations (toI [1, 2]) (toI [1, 0]) = none ∧ Cv.Perm.apply? [1, 2] [1, 0] = none := by
  decide

/-- `is_permutation` on ARBITRARY integer lists -/
theorem is_permutation_gen_int (p : List Int) :
    PyGen.Perm.is_permutation p = some true ↔ ∃ q : List Nat, p = toI q ∧ IsPermOf q.length q := by
  exact Cv.PyG1.is_permutation_gen_int p
example : ∃ q : List Nat, ([2, 0, 1] : List Int) = toI q ∧ IsPermOf q.length q := ⟨[2, 0, 1], by decide, by decide⟩

theorem permutation_from_cycles_gen_default (n : Nat) (cycles : List (List Int)) :
    PyGen.Perm.permutation_from_cycles (n : Int) cycles PyGen.Perm.permutation_from_cycles_default_offset
      = (Cv.Perm.fromCycles n cycles).map toI := by
  exact Cv.PyG1.permutation_from_cycles_gen_default n cycles
example : PyGen.Perm.permutation_from_cycles (4 : Nat) [[0, 2, 1]] PyGen.Perm.permutation_from_cycles_default_offset
    = some [2, 0, 1, 3] := by decide

theorem transposition_gen_nonpos (n i j : Int) (h : n ≤ 0) : PyGen.Perm.transposition n i j = none := by
  exact Cv.PyG1.transposition_gen_nonpos n i j h
example : PyGen.Perm.transposition (-2) 0 1 = none := by decide

theorem permutation_from_cycles_gen_neg (n : Int) (h : n ≤ 0) (cycles : List (List Int)) (offset : Int) :
    PyGen.Perm.permutation_from_cycles n cycles offset = PyGen.Perm.permutation_from_cycles 0 cycles offset := by
  exact Cv.PyG1.permutation_from_cycles_gen_neg n h cycles offset
example : PyGen.Perm.permutation_from_cycles (-2) [[], []] 0 = some [] ∧
    PyGen.Perm.permutation_from_cycles (-2) [[0]] 0 = none := by decide

end complements

end Cv.C20g
