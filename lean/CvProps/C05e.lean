/-
  C05e — end to end: meet in the middle (`MeetInTheMiddle.find_path_to`, `find_path_from`, `find_path_between`) on the
  library's ENCODED permutation graph, in terms of the mathematical graph `permGraphNb perms` and action `genAct perms`.
  Property theorems only; proofs in `CvProofs/Sim.lean`, `CvProofs/Restrict.lean`, `CvProofs/InstancePaths.lean`; evaluated
  instances in `CvProofs/InstancePathsExample.lean`.  See `CvProps/C04e.lean` for the setting (`PathHyp` fails for the
  encoded pair; the abstract theorems are re-proved on the encodings).

  `hexp` is the size hypothesis of the abstract theorem (`CvProps/C05a.lean`: the backward BFS runs with the default
  `max_layer_size_to_explore = 10**12`), transported to the MATHEMATICAL graph of the INVERSE generators around the
  destination: every enumeration of one of its distance classes `1 … D` has fewer than `10^12` states.
  `hic`: the flag `generators_inverse_closed` is truthful (the library computes it from the generator list).
-/
import CvProofs.InstancePaths
import CvProofs.InstancePathsExample
namespace Cv.C05e
open Cv Cv.Instance Cv.Instance.Example Cv.Instance.PathsExample Cv.Codec

/-- **MITM `find_path_to`** from a ball of depth `D = Hs.length - 1` around the encoded central state, for ANY encodable
destination: a valid SHORTEST path (replayed with the mathematical action) iff the distance is at most `2D`; the
assertion / "hash collision" branch is unreachable -/
theorem encoded_mitmFindPathTo_spec (w n : Nat) (hw : 1 ≤ w) (hw' : w ≤ 64) (perms : List (List Nat))
    (hp : ∀ p ∈ perms, Cv.Perm.IsPermOf n p) (hash : List W → Int)
    (hinj : ∀ x y : List W, x.length = encLen w n → y.length = encLen w n → hash x = hash y → x = y)
    (ic : Bool) (hic : ic = true → ∀ p ∈ perms, Cv.Perm.inverse p ∈ perms) (batch : Nat) (hb : 0 < batch)
    (central : List Nat) (hc : encodable w n central = true) (Hs : List (List Int))
    (hball : IsBall (encodedPermGraph w n perms hash ic batch) (encode w n central) Hs) (hne : Hs ≠ [])
    (dest : List Nat) (hd : encodable w n dest = true)
    (hexp : ∀ k (L : List (List Nat)), 1 ≤ k → k ≤ Hs.length - 1 → L.Nodup →
      (∀ s, s ∈ L ↔ DistLayer (permGraphNb (perms.map Cv.Perm.inverse)) [dest] k s) → L.length < 10^12) :
    match mitmFindPathTo (encodedPermGraph w n perms hash ic batch) (encodedPermGraphInv w n perms hash ic batch) Hs
        (encode w n dest) with
    | .found p => applyPath (genAct perms) central p = dest ∧ DistLayer (permGraphNb perms) [central] p.length dest ∧
        p.length ≤ 2 * (Hs.length - 1) ∧ ∀ i ∈ p, i < perms.length
    | .notFound => ∀ k, k ≤ 2 * (Hs.length - 1) → ¬ Walk (permGraphNb perms) k central dest
    | .assertFail _ => False := by
  exact Cv.Instance.encoded_mitmFindPathTo_spec w n hw hw' perms hp hash ic batch
    (fun x y hx hy h => hinj x y (length_of_valid hx) (length_of_valid hy) h) hic hb central hc Hs hball hne dest hd hexp
-- non-vacuity: LRX(4), width 2, `posHash`, the ball of depth 2 (`ball2_isBall`); `hexp` holds since the 24 arrangements
-- are closed under the inverse generators
example : (1 ≤ 2 ∧ 2 ≤ 64) ∧ (∀ p ∈ lrx4, Cv.Perm.IsPermOf 4 p) ∧
    (∀ x y : List W, x.length = encLen 2 4 → y.length = encLen 2 4 → posHash x = posHash y → x = y) ∧
    (true = true → ∀ p ∈ lrx4, Cv.Perm.inverse p ∈ lrx4) ∧ 0 < 3 ∧ encodable 2 4 id4 = true ∧
    IsBall gE (encode 2 4 id4) ball2 ∧ ball2 ≠ [] ∧ encodable 2 4 [3, 2, 1, 0] = true ∧
    (∀ k (L : List (List Nat)), 1 ≤ k → k ≤ ball2.length - 1 → L.Nodup →
      (∀ s, s ∈ L ↔ DistLayer (permGraphNb (lrx4.map Cv.Perm.inverse)) [[3, 2, 1, 0]] k s) → L.length < 10^12) :=
  ⟨by decide, lrx4_perm, fun _ _ _ _ h => posHash_injective h, fun _ => lrx4_invClosed, by decide, id4_enc,
    ball2_isBall, by simp [ball2], by decide, hexp24 _ (mem_all24 _ (by decide +kernel)) _⟩
-- distance 4 = 2·D: found by the backward search; the path replays to the destination
example : mitmFindPathTo gE gEi ball2 (encode 2 4 [3, 2, 1, 0]) = .found [2, 0, 0, 2] ∧
    applyPath (genAct lrx4) id4 [2, 0, 0, 2] = [3, 2, 1, 0] := ⟨mitm_found, by decide⟩
-- distance 6 > 2·D, and a state outside the orbit (its `hexp`: 6 arrangements)
example : mitmFindPathTo gE gEi ball2 (encode 2 4 [1, 0, 3, 2]) = .notFound := mitm_far
example : mitmFindPathTo gE gEi ball2 (encode 2 4 [0, 0, 1, 1]) = .notFound ∧
    (∀ k (L : List (List Nat)), 1 ≤ k → k ≤ ball2.length - 1 → L.Nodup →
      (∀ s, s ∈ L ↔ DistLayer (permGraphNb (lrx4.map Cv.Perm.inverse)) [[0, 0, 1, 1]] k s) → L.length < 10^12) :=
  ⟨mitm_offOrbit, hexp6 _⟩

/-- how `hexp` is discharged: distance classes lie inside every generator-closed set containing the start states -/
theorem layer_le_of_closed (perms : List (List Nat)) (A : List (List Nat))
    (hA : ∀ s ∈ A, ∀ t ∈ permGraphNb perms s, t ∈ A) (S : List (List Nat)) (hS : ∀ s ∈ S, s ∈ A) (k : Nat)
    (L : List (List Nat)) (hnd : L.Nodup) (hmem : ∀ s, s ∈ L ↔ DistLayer (permGraphNb perms) S k s) :
    L.length ≤ A.length := by
  exact Cv.Instance.layer_le_of_closed perms A hA S hS k L hnd hmem
example : (∀ s ∈ all24, ∀ t ∈ permGraphNb (lrx4.map Cv.Perm.inverse) s, t ∈ all24) ∧ all24.length = 24 :=
  ⟨all24_closedInv, all24_length⟩

/-- **MITM `find_path_from`** (flag set, generator list closed under inverses): a shortest path from the start state to the
central state iff the distance is at most `2D` -/
theorem encoded_mitmFindPathFrom_spec (w n : Nat) (hw : 1 ≤ w) (hw' : w ≤ 64) (perms : List (List Nat))
    (hp : ∀ p ∈ perms, Cv.Perm.IsPermOf n p) (hash : List W → Int)
    (hinj : ∀ x y : List W, x.length = encLen w n → y.length = encLen w n → hash x = hash y → x = y)
    (ic : Bool) (hic : ic = true) (hcl : ∀ p ∈ perms, Cv.Perm.inverse p ∈ perms) (batch : Nat) (hb : 0 < batch)
    (central : List Nat) (hc : encodable w n central = true) (Hs : List (List Int))
    (hball : IsBall (encodedPermGraph w n perms hash ic batch) (encode w n central) Hs) (hne : Hs ≠ [])
    (start : List Nat) (hs : encodable w n start = true)
    (hexp : ∀ k (L : List (List Nat)), 1 ≤ k → k ≤ Hs.length - 1 → L.Nodup →
      (∀ s, s ∈ L ↔ DistLayer (permGraphNb (perms.map Cv.Perm.inverse)) [start] k s) → L.length < 10^12) :
    match mitmFindPathFrom (encodedPermGraph w n perms hash ic batch) (encodedPermGraphInv w n perms hash ic batch)
        (permInvMap perms) Hs (encode w n start) with
    | .found p => applyPath (genAct perms) start p = central ∧ p.length ≤ 2 * (Hs.length - 1) ∧
        (∀ k, Walk (permGraphNb perms) k start central → p.length ≤ k) ∧ ∀ i ∈ p, i < perms.length
    | .notFound => ∀ k, k ≤ 2 * (Hs.length - 1) → ¬ Walk (permGraphNb perms) k start central
    | .assertFail _ => False := by
  exact Cv.Instance.encoded_mitmFindPathFrom_spec w n hw hw' perms hp hash ic batch
    (fun x y hx hy h => hinj x y (length_of_valid hx) (length_of_valid hy) h) hic hcl hb central hc Hs hball hne
    start hs hexp
example : (∀ p ∈ lrx4, Cv.Perm.inverse p ∈ lrx4) ∧ permInvMap lrx4 = some [1, 0, 2] := ⟨lrx4_invClosed, lrx4_invMap⟩
example : mitmFindPathFrom gE gEi (permInvMap lrx4) ball2 (encode 2 4 [3, 2, 1, 0]) = .found [2, 1, 1, 2] ∧
    applyPath (genAct lrx4) [3, 2, 1, 0] [2, 1, 1, 2] = id4 := ⟨mitmFrom_found, by decide⟩

/-- **`find_path_between`**: start set and destination set are lists of encodable states; a globally shortest path
between the sets iff the minimum distance is at most `2M`; never trips an assertion.  No assumption on the flag. -/
theorem encoded_between_spec (w n : Nat) (hw : 1 ≤ w) (hw' : w ≤ 64) (perms : List (List Nat))
    (hp : ∀ p ∈ perms, Cv.Perm.IsPermOf n p) (hash : List W → Int)
    (hinj : ∀ x y : List W, x.length = encLen w n → y.length = encLen w n → hash x = hash y → x = y)
    (ic : Bool) (batch : Nat) (S T : List (List Nat)) (hS : ∀ s ∈ S, encodable w n s = true)
    (hT : ∀ t ∈ T, encodable w n t = true) (M : Nat) :
    match findPathBetween (encodedPermGraph w n perms hash ic batch) (encodedPermGraphInv w n perms hash ic batch)
        (S.map (encode w n)) (T.map (encode w n)) M with
    | none => False
    | some none => ∀ s ∈ S, ∀ t ∈ T, ∀ k, k ≤ 2 * M → ¬ Walk (permGraphNb perms) k s t
    | some (some r) =>
        ∃ s, s ∈ S ∧ r.start = encode w n s ∧ applyPath (genAct perms) s r.edges ∈ T ∧
          (∀ i ∈ r.edges, i < perms.length) ∧ r.edges.length ≤ 2 * M ∧
          ∀ s ∈ S, ∀ t ∈ T, ∀ k, Walk (permGraphNb perms) k s t → r.edges.length ≤ k := by
  exact Cv.Instance.encoded_between_spec w n hw hw' perms hp hash ic batch
    (fun x y hx hy h => hinj x y (length_of_valid hx) (length_of_valid hy) h) S T hS hT M
-- non-vacuity: two-element sets in LRX(4); the closest pair is ([1,0,2,3], [3,2,1,0]) at distance 3
example : (∀ s ∈ [[0, 1, 2, 3], [1, 0, 2, 3]], encodable 2 4 s = true) ∧
    (∀ t ∈ [[3, 2, 1, 0], [1, 0, 3, 2]], encodable 2 4 t = true) := by decide
example : (findPathBetween gE gEi ([[0, 1, 2, 3], [1, 0, 2, 3]].map (encode 2 4))
      ([[3, 2, 1, 0], [1, 0, 3, 2]].map (encode 2 4)) 5).map
    (Option.map fun r => (decode 2 4 r.start, r.edges)) = some (some ([1, 0, 2, 3], [0, 0, 2])) ∧
    applyPath (genAct lrx4) [1, 0, 2, 3] [0, 0, 2] = [3, 2, 1, 0] := ⟨between_found, by decide⟩
-- distance 6 > 2·2
example : (findPathBetween gE gEi ([[0, 1, 2, 3]].map (encode 2 4)) ([[1, 0, 3, 2]].map (encode 2 4)) 2).map
    (Option.map fun r => (decode 2 4 r.start, r.edges)) = some none := between_none

/-! ## the un-encoded graph -/

theorem plain_mitmFindPathTo_spec (n : Nat) (Q : Nat → Prop) (perms : List (List Nat))
    (hp : ∀ p ∈ perms, Cv.Perm.IsPermOf n p) (hash : List Nat → Int)
    (hinj : ∀ s t, PlainValid n Q s → PlainValid n Q t → hash s = hash t → s = t)
    (ic : Bool) (hic : ic = true → ∀ p ∈ perms, Cv.Perm.inverse p ∈ perms) (batch : Nat) (hb : 0 < batch)
    (central : List Nat) (hc : PlainValid n Q central) (Hs : List (List Int))
    (hball : IsBall (plainPermGraph perms hash ic batch) central Hs) (hne : Hs ≠ [])
    (dest : List Nat) (hd : PlainValid n Q dest)
    (hexp : ∀ k (L : List (List Nat)), 1 ≤ k → k ≤ Hs.length - 1 → L.Nodup →
      (∀ s, s ∈ L ↔ DistLayer (permGraphNb (perms.map Cv.Perm.inverse)) [dest] k s) → L.length < 10^12) :
    match mitmFindPathTo (plainPermGraph perms hash ic batch) (plainPermGraphInv perms hash ic batch) Hs dest with
    | .found p => applyPath (genAct perms) central p = dest ∧ DistLayer (permGraphNb perms) [central] p.length dest ∧
        p.length ≤ 2 * (Hs.length - 1) ∧ ∀ i ∈ p, i < perms.length
    | .notFound => ∀ k, k ≤ 2 * (Hs.length - 1) → ¬ Walk (permGraphNb perms) k central dest
    | .assertFail _ => False := by
  exact Cv.Instance.plain_mitmFindPathTo_spec n Q perms hp hash ic batch hinj hic hb central hc Hs hball hne dest hd
    hexp
example : (∀ s t, PlainValid 4 (· < 4) s → PlainValid 4 (· < 4) t → b4Hash s = b4Hash t → s = t) ∧
    PlainValid 4 (· < 4) id4 ∧ IsBall gP id4 ballP ∧ PlainValid 4 (· < 4) [3, 2, 1, 0] :=
  ⟨b4Hash_inj4, id4_plain, ballP_isBall, plainValid_of _ (by decide)⟩
example : mitmFindPathTo gP gPi ballP [3, 2, 1, 0] = .found [2, 0, 0, 2] ∧
    mitmFindPathTo gP gPi ballP [1, 0, 3, 2] = .notFound := ⟨plain_mitm_found, plain_mitm_far⟩

theorem plain_mitmFindPathFrom_spec (n : Nat) (Q : Nat → Prop) (perms : List (List Nat))
    (hp : ∀ p ∈ perms, Cv.Perm.IsPermOf n p) (hash : List Nat → Int)
    (hinj : ∀ s t, PlainValid n Q s → PlainValid n Q t → hash s = hash t → s = t)
    (ic : Bool) (hic : ic = true) (hcl : ∀ p ∈ perms, Cv.Perm.inverse p ∈ perms) (batch : Nat) (hb : 0 < batch)
    (central : List Nat) (hc : PlainValid n Q central) (Hs : List (List Int))
    (hball : IsBall (plainPermGraph perms hash ic batch) central Hs) (hne : Hs ≠ [])
    (start : List Nat) (hs : PlainValid n Q start)
    (hexp : ∀ k (L : List (List Nat)), 1 ≤ k → k ≤ Hs.length - 1 → L.Nodup →
      (∀ s, s ∈ L ↔ DistLayer (permGraphNb (perms.map Cv.Perm.inverse)) [start] k s) → L.length < 10^12) :
    match mitmFindPathFrom (plainPermGraph perms hash ic batch) (plainPermGraphInv perms hash ic batch)
        (permInvMap perms) Hs start with
    | .found p => applyPath (genAct perms) start p = central ∧ p.length ≤ 2 * (Hs.length - 1) ∧
        (∀ k, Walk (permGraphNb perms) k start central → p.length ≤ k) ∧ ∀ i ∈ p, i < perms.length
    | .notFound => ∀ k, k ≤ 2 * (Hs.length - 1) → ¬ Walk (permGraphNb perms) k start central
    | .assertFail _ => False := by
  exact Cv.Instance.plain_mitmFindPathFrom_spec n Q perms hp hash ic batch hinj hic hcl hb central hc Hs hball hne
    start hs hexp
example : IsBall gP id4 ballP ∧ ballP ≠ [] := ⟨ballP_isBall, by simp [ballP]⟩

theorem plain_between_spec (n : Nat) (Q : Nat → Prop) (perms : List (List Nat))
    (hp : ∀ p ∈ perms, Cv.Perm.IsPermOf n p) (hash : List Nat → Int)
    (hinj : ∀ s t, PlainValid n Q s → PlainValid n Q t → hash s = hash t → s = t) (ic : Bool) (batch : Nat)
    (S T : List (List Nat)) (hS : ∀ s ∈ S, PlainValid n Q s) (hT : ∀ t ∈ T, PlainValid n Q t) (M : Nat) :
    match findPathBetween (plainPermGraph perms hash ic batch) (plainPermGraphInv perms hash ic batch) S T M with
    | none => False
    | some none => ∀ s ∈ S, ∀ t ∈ T, ∀ k, k ≤ 2 * M → ¬ Walk (permGraphNb perms) k s t
    | some (some r) =>
        r.start ∈ S ∧ applyPath (genAct perms) r.start r.edges ∈ T ∧ (∀ i ∈ r.edges, i < perms.length) ∧
        r.edges.length ≤ 2 * M ∧ ∀ s ∈ S, ∀ t ∈ T, ∀ k, Walk (permGraphNb perms) k s t → r.edges.length ≤ k := by
  exact Cv.Instance.plain_between_spec n Q perms hp hash ic batch hinj S T hS hT M
example : (findPathBetween gP gPi [[0, 1, 2, 3], [1, 0, 2, 3]] [[3, 2, 1, 0], [1, 0, 3, 2]] 5).map
    (Option.map fun r => (r.start, r.edges)) = some (some ([1, 0, 2, 3], [0, 0, 2])) := plain_between_found

/-! ## single-word states, identity hasher: no hypothesis on the hash -/

theorem encoded_mitmFindPathTo_single_word (w n : Nat) (hw : 1 ≤ w) (hw' : w ≤ 64) (hlen : encLen w n = 1)
    (perms : List (List Nat)) (hp : ∀ p ∈ perms, Cv.Perm.IsPermOf n p)
    (ic : Bool) (hic : ic = true → ∀ p ∈ perms, Cv.Perm.inverse p ∈ perms) (batch : Nat) (hb : 0 < batch)
    (central : List Nat) (hc : encodable w n central = true) (Hs : List (List Int))
    (hball : IsBall (encodedPermGraph w n perms identityHash ic batch) (encode w n central) Hs) (hne : Hs ≠ [])
    (dest : List Nat) (hd : encodable w n dest = true)
    (hexp : ∀ k (L : List (List Nat)), 1 ≤ k → k ≤ Hs.length - 1 → L.Nodup →
      (∀ s, s ∈ L ↔ DistLayer (permGraphNb (perms.map Cv.Perm.inverse)) [dest] k s) → L.length < 10^12) :
    match mitmFindPathTo (encodedPermGraph w n perms identityHash ic batch)
        (encodedPermGraphInv w n perms identityHash ic batch) Hs (encode w n dest) with
    | .found p => applyPath (genAct perms) central p = dest ∧ DistLayer (permGraphNb perms) [central] p.length dest ∧
        p.length ≤ 2 * (Hs.length - 1) ∧ ∀ i ∈ p, i < perms.length
    | .notFound => ∀ k, k ≤ 2 * (Hs.length - 1) → ¬ Walk (permGraphNb perms) k central dest
    | .assertFail _ => False := by
  exact Cv.Instance.encoded_mitmFindPathTo_spec w n hw hw' perms hp identityHash ic batch
    (identityHash_inj_valid w n hlen) hic hb central hc Hs hball hne dest hd hexp
example : encLen 2 4 = 1 ∧ IsBall gI (encode 2 4 id4) ballI ∧
    mitmFindPathTo gI gIi ballI (encode 2 4 [3, 2, 1, 0]) = .found [2, 0, 0, 2] :=
  ⟨encLen_2_4, ballI_isBall, single_mitm_found⟩

theorem encoded_between_single_word (w n : Nat) (hw : 1 ≤ w) (hw' : w ≤ 64) (hlen : encLen w n = 1)
    (perms : List (List Nat)) (hp : ∀ p ∈ perms, Cv.Perm.IsPermOf n p) (ic : Bool) (batch : Nat)
    (S T : List (List Nat)) (hS : ∀ s ∈ S, encodable w n s = true) (hT : ∀ t ∈ T, encodable w n t = true) (M : Nat) :
    match findPathBetween (encodedPermGraph w n perms identityHash ic batch)
        (encodedPermGraphInv w n perms identityHash ic batch) (S.map (encode w n)) (T.map (encode w n)) M with
    | none => False
    | some none => ∀ s ∈ S, ∀ t ∈ T, ∀ k, k ≤ 2 * M → ¬ Walk (permGraphNb perms) k s t
    | some (some r) =>
        ∃ s, s ∈ S ∧ r.start = encode w n s ∧ applyPath (genAct perms) s r.edges ∈ T ∧
          (∀ i ∈ r.edges, i < perms.length) ∧ r.edges.length ≤ 2 * M ∧
          ∀ s ∈ S, ∀ t ∈ T, ∀ k, Walk (permGraphNb perms) k s t → r.edges.length ≤ k := by
  exact Cv.Instance.encoded_between_spec w n hw hw' perms hp identityHash ic batch
    (identityHash_inj_valid w n hlen) S T hS hT M
example : encLen 2 4 = 1 ∧ (∀ s ∈ [id4], encodable 2 4 s = true) := ⟨encLen_2_4, id4_encodable⟩

/-- the pair built from the 1-D routines gives the same answers on encodings -/
theorem encoded1d_mitm_eq (w n : Nat) (hw : 1 ≤ w) (hw' : w ≤ 64) (hlen : encLen w n = 1)
    (perms : List (List Nat)) (hp : ∀ p ∈ perms, Cv.Perm.IsPermOf n p) (hash : List W → Int) (ic : Bool)
    (batch : Nat) (m : Option (List Nat)) (Hs : List (List Int)) (q : List Nat) (hq : encodable w n q = true)
    (S T : List (List Nat)) (hS : ∀ s ∈ S, encodable w n s = true) (hT : ∀ t ∈ T, encodable w n t = true) (M : Nat) :
    mitmFindPathTo (encodedPermGraph1d w n perms hash ic batch) (encodedPermGraph1dInv w n perms hash ic batch) Hs
        (encode w n q) =
      mitmFindPathTo (encodedPermGraph w n perms hash ic batch) (encodedPermGraphInv w n perms hash ic batch) Hs
        (encode w n q) ∧
    mitmFindPathFrom (encodedPermGraph1d w n perms hash ic batch) (encodedPermGraph1dInv w n perms hash ic batch) m Hs
        (encode w n q) =
      mitmFindPathFrom (encodedPermGraph w n perms hash ic batch) (encodedPermGraphInv w n perms hash ic batch) m Hs
        (encode w n q) ∧
    findPathBetween (encodedPermGraph1d w n perms hash ic batch) (encodedPermGraph1dInv w n perms hash ic batch)
        (S.map (encode w n)) (T.map (encode w n)) M =
      findPathBetween (encodedPermGraph w n perms hash ic batch) (encodedPermGraphInv w n perms hash ic batch)
        (S.map (encode w n)) (T.map (encode w n)) M := by
  have a1 := encoded1d_agree w n hw hw' hlen perms hp hash ic batch
  have a2 := encoded1dInv_agree w n hw hw' hlen perms hp hash ic batch
  have c1 := encoded_closed w n hw hw' perms hp hash ic batch
  have c2 := encoded_closed w n hw hw' _ (inverse_perms n perms hp) hash ic batch
  exact ⟨mitmFindPathTo_agree a1 a2 c1 c2 Hs _ ⟨q, hq, rfl⟩, mitmFindPathFrom_agree a1 a2 c1 c2 m Hs _ ⟨q, hq, rfl⟩,
    findPathBetween_agree a1 a2 c1 c2 _ _
      (fun x hx => by obtain ⟨s, hs, rfl⟩ := List.mem_map.1 hx; exact ⟨s, hS s hs, rfl⟩)
      (fun x hx => by obtain ⟨t, ht, rfl⟩ := List.mem_map.1 hx; exact ⟨t, hT t ht, rfl⟩) M⟩
example : encLen 2 4 = 1 ∧ encodable 2 4 [3, 2, 1, 0] = true := ⟨encLen_2_4, by decide⟩

end Cv.C05e
