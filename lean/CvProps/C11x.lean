/-
  C11x — end to end for the other engines, on the library's real state representations, stated on the MATHEMATICAL graph
  `permGraphNb perms` of decoded states:
  * the interactive BFS (`InteractiveBfs`, `CvProps/C11i.lean`) on `encodedPermGraph`, `plainPermGraph` and — single word,
    identity hasher, NO hash hypothesis — `encodedPermGraph1d`: after `k` calls of `step()` the current layer decodes to
    exactly distance class `k` of the start list (repetitions allowed), `hashes[i]` is the strictly sorted tensor of the
    hashes of class `i`;
  * the NumPy engine (`bfs_numpy`, `CvProps/C11e.lean`) as the driver feeds it (`bfs.numpy` in `Main.lean`:
    `bfsNumpy nGens act invMap start maxDiameter`), for single-word encoded states: with the 1-D routines of
    `encodedPermGraph1d` (rows of one word, or scalars as in the NumPy arrays) and the library's
    `generators_inverse_map`, its output is the growth function of `permGraphNb perms`.  The engine does not hash.
  Property theorems only; proofs in `CvProofs/InstanceExport.lean` (restriction to encodings + `Sim`, naturality of
  `bfsNumpy` under injective maps), evaluated runs in `CvProofs/InstanceExportExample.lean`.
-/
import CvProofs.InstanceExport
import CvProofs.InstanceExportExample
namespace Cv.C11x
open Cv Cv.Instance Cv.Codec Cv.Instance.Example Cv.InstX Cv.InstX.Example

/-! ## interactive BFS -/

/-- bit-encoded states, any number of words: hash injective on rows of the encoded length, flag only set when the
mathematical graph is symmetric on the orbit (the batch size plays no role) -/
theorem encoded_ibfs_layers (w n : Nat) (hw : 1 ≤ w) (hw' : w ≤ 64) (perms : List (List Nat))
    (hp : ∀ p ∈ perms, Cv.Perm.IsPermOf n p) (hash : List W → Int)
    (hinj : ∀ x y : List W, x.length = encLen w n → y.length = encLen w n → hash x = hash y → x = y)
    (ic : Bool) (starts : List (List Nat))
    (hic : ic = true → ∀ s t, InOrbit (permGraphNb perms) starts s → t ∈ permGraphNb perms s →
      s ∈ permGraphNb perms t)
    (batch : Nat) (hs : ∀ s ∈ starts, encodable w n s = true) (k : Nat) :
    let b := IBfs.iter (encodedPermGraph w n perms hash ic batch)
      (IBfs.init (encodedPermGraph w n perms hash ic batch) (starts.map (encode w n))) k
    (b.cur.map (decode w n)).Nodup ∧
    (∀ s, s ∈ b.cur.map (decode w n) ↔ DistLayer (permGraphNb perms) starts k s) ∧
    (b.cur.map (decode w n)).map (encode w n) = b.cur ∧
    b.hashes.length = k + 1 ∧
    (∀ i H, b.hashes[i]? = some H → H.Pairwise (· < ·) ∧
        ∃ L : List (List Nat), L.Nodup ∧ (∀ s, s ∈ L ↔ DistLayer (permGraphNb perms) starts i s) ∧
          H = L.map fun s => hash (encode w n s)) ∧
    b.hashes.getLast? = some (b.cur.map hash) := by
  exact enc_ibfs_layers w n hw hw' perms hp hash ic batch starts hs
    (fun x y hx hy h => hinj x y (length_of_valid hx) (length_of_valid hy) h) hic k

/-- non-vacuity: LRX(4), width 2, `posHash`, flagged inverse-closed, start list `[id, (1 2 3 0), id]`; the run evaluated
in the kernel (layer 2 decoded; sizes of the layers after 0 … 7 steps: the orbit is exhausted after 5) -/
example : (1 ≤ 2 ∧ 2 ≤ 64) ∧ (∀ p ∈ lrx4, Cv.Perm.IsPermOf 4 p) ∧
    (∀ x y : List W, x.length = encLen 2 4 → y.length = encLen 2 4 → posHash x = posHash y → x = y) ∧
    (true = true → ∀ s t, InOrbit (permGraphNb lrx4) starts2 s → t ∈ permGraphNb lrx4 s → s ∈ permGraphNb lrx4 t) ∧
    (∀ s ∈ starts2, encodable 2 4 s = true) ∧
    (IBfs.iter gX (IBfs.init gX (starts2.map (encode 2 4))) 2).cur.map (decode 2 4) =
      [[3, 2, 0, 1], [0, 2, 3, 1], [3, 1, 0, 2], [1, 3, 0, 2], [0, 3, 1, 2], [0, 2, 1, 3]] ∧
    (IBfs.iter gX (IBfs.init gX (starts2.map (encode 2 4))) 2).hashes.map List.length = [2, 4, 6] ∧
    ((List.range 8).map fun k => (IBfs.iter gX (IBfs.init gX (starts2.map (encode 2 4))) k).cur.length) =
      [2, 4, 6, 6, 4, 2, 0, 0] :=
  ⟨by decide, lrx4_perm, fun _ _ _ _ h => posHash_injective h, fun _ => starts2_symm, starts2_encodable,
    ibfsX.1, ibfsX.2.1, ibfsX.2.2⟩

/-- un-encoded states -/
theorem plain_ibfs_layers (perms : List (List Nat)) (hash : List Nat → Int) (starts : List (List Nat))
    (hinj : ∀ s t, InOrbit (permGraphNb perms) starts s → InOrbit (permGraphNb perms) starts t →
      hash s = hash t → s = t)
    (ic : Bool)
    (hic : ic = true → ∀ s t, InOrbit (permGraphNb perms) starts s → t ∈ permGraphNb perms s →
      s ∈ permGraphNb perms t)
    (batch : Nat) (k : Nat) :
    let b := IBfs.iter (plainPermGraph perms hash ic batch) (IBfs.init (plainPermGraph perms hash ic batch) starts) k
    b.cur.Nodup ∧ (∀ s, s ∈ b.cur ↔ DistLayer (permGraphNb perms) starts k s) ∧ b.hashes.length = k + 1 ∧
    (∀ i H, b.hashes[i]? = some H → H.Pairwise (· < ·) ∧
        ∃ L : List (List Nat), L.Nodup ∧ (∀ s, s ∈ L ↔ DistLayer (permGraphNb perms) starts i s) ∧
          H = L.map hash) ∧
    b.hashes.getLast? = some (b.cur.map hash) := by
  exact pl_ibfs_layers perms hash ic batch starts hinj hic k

example :
    (∀ s t, InOrbit (permGraphNb lrx4) starts2 s → InOrbit (permGraphNb lrx4) starts2 t → b4Hash s = b4Hash t → s = t) ∧
    (true = true → ∀ s t, InOrbit (permGraphNb lrx4) starts2 s → t ∈ permGraphNb lrx4 s → s ∈ permGraphNb lrx4 t) ∧
    (IBfs.iter gP2 (IBfs.init gP2 starts2) 2).cur =
      [[0, 2, 1, 3], [0, 2, 3, 1], [0, 3, 1, 2], [1, 3, 0, 2], [3, 1, 0, 2], [3, 2, 0, 1]] ∧
    (IBfs.iter gP2 (IBfs.init gP2 starts2) 2).hashes =
      [[27, 108], [75, 156, 177, 198], [39, 45, 54, 114, 210, 225]] :=
  ⟨b4Hash_inj2, fun _ => starts2_symm, ibfsP.1, ibfsP.2⟩

/-- single-word states, identity hasher: NO hash hypothesis (`encodedPermGraph` with `identityHash`; for the graph of the
1-D routines see `single_word_ibfs_eq`) -/
theorem single_word_ibfs_layers (w n : Nat) (hw : 1 ≤ w) (hw' : w ≤ 64) (hlen : encLen w n = 1)
    (perms : List (List Nat)) (hp : ∀ p ∈ perms, Cv.Perm.IsPermOf n p) (ic : Bool) (starts : List (List Nat))
    (hic : ic = true → ∀ s t, InOrbit (permGraphNb perms) starts s → t ∈ permGraphNb perms s →
      s ∈ permGraphNb perms t)
    (batch : Nat) (hs : ∀ s ∈ starts, encodable w n s = true) (k : Nat) :
    let b := IBfs.iter (encodedPermGraph1d w n perms identityHash ic batch)
      (IBfs.init (encodedPermGraph1d w n perms identityHash ic batch) (starts.map (encode w n))) k
    (b.cur.map (decode w n)).Nodup ∧
    (∀ s, s ∈ b.cur.map (decode w n) ↔ DistLayer (permGraphNb perms) starts k s) ∧
    (b.cur.map (decode w n)).map (encode w n) = b.cur ∧
    b.hashes.length = k + 1 ∧
    (∀ i H, b.hashes[i]? = some H → H.Pairwise (· < ·) ∧
        ∃ L : List (List Nat), L.Nodup ∧ (∀ s, s ∈ L ↔ DistLayer (permGraphNb perms) starts i s) ∧
          H = L.map fun s => identityHash (encode w n s)) ∧
    b.hashes.getLast? = some (b.cur.map identityHash) := by
  intro b
  have e : b = IBfs.iter (encodedPermGraph w n perms identityHash ic batch)
      (IBfs.init (encodedPermGraph w n perms identityHash ic batch) (starts.map (encode w n))) k :=
    ibfs1d_eq w n hw hw' hlen perms hp identityHash ic batch starts hs k
  rw [e]
  exact enc_ibfs_layers w n hw hw' perms hp identityHash ic batch starts hs (identityHash_inj_valid w n hlen) hic k

/-- non-vacuity: LRX(4), width 2, one word; the run on the graph of the 1-D routines evaluated in the kernel -/
example : (1 ≤ 2 ∧ 2 ≤ 64) ∧ encLen 2 4 = 1 ∧ (∀ p ∈ lrx4, Cv.Perm.IsPermOf 4 p) ∧
    (true = true → ∀ s t, InOrbit (permGraphNb lrx4) starts2 s → t ∈ permGraphNb lrx4 s → s ∈ permGraphNb lrx4 t) ∧
    (∀ s ∈ starts2, encodable 2 4 s = true) ∧
    ((List.range 8).map fun k => (IBfs.iter (encodedPermGraph1d 2 4 lrx4 identityHash true 1)
        (IBfs.init (encodedPermGraph1d 2 4 lrx4 identityHash true 1) (starts2.map (encode 2 4))) k).cur.length) =
      [2, 4, 6, 6, 4, 2, 0, 0] :=
  ⟨by decide, encLen_2_4, lrx4_perm, fun _ => starts2_symm, starts2_encodable, ibfs1d⟩

/-! ## NumPy engine -/

/-- single-word encoded states: the engine run with the 1-D routines and the library's `generators_inverse_map` from the
encoding of `start` (as the driver's `bfs.numpy` feeds it) reports the growth function of the mathematical graph: every
reported size is the size of the distance class, the list has between 1 and `D + 1` entries, and if it is shorter than
`D + 1` the next class is empty.  No hash is involved.  `1 ≤ D` as in `bfsNumpy_spec`. -/
theorem encoded_bfsNumpy_spec (w n : Nat) (hw : 1 ≤ w) (hw' : w ≤ 64) (hlen : encLen w n = 1)
    (perms : List (List Nat)) (hp : ∀ p ∈ perms, Cv.Perm.IsPermOf n p) (hash : List W → Int) (ic : Bool)
    (batch : Nat) (invIdx : List Nat) (hm : permInvMap perms = some invIdx)
    (start : List Nat) (hs : encodable w n start = true) (D : Nat) (hD : 1 ≤ D) :
    let sizes := bfsNumpy perms.length (encodedPermGraph1d w n perms hash ic batch).act invIdx (encode w n start) D
    (∀ (i m : Nat), sizes[i]? = some m →
      ∃ L : List (List Nat), L.Nodup ∧ (∀ s, s ∈ L ↔ DistLayer (permGraphNb perms) [start] i s) ∧ m = L.length) ∧
    1 ≤ sizes.length ∧ sizes.length ≤ D + 1 ∧
    (sizes.length < D + 1 → ∀ s, ¬ DistLayer (permGraphNb perms) [start] sizes.length s) := by
  exact enc_bfsNumpy_spec w n hw hw' perms hp hash ic batch hlen invIdx hm start hs D hD

/-- non-vacuity: LRX(4), width 2; the library's inverse map is `[1, 0, 2]`; exhaustive run and a run cut by the limit -/
example : (1 ≤ 2 ∧ 2 ≤ 64) ∧ encLen 2 4 = 1 ∧ (∀ p ∈ lrx4, Cv.Perm.IsPermOf 4 p) ∧
    permInvMap lrx4 = some [1, 0, 2] ∧ encodable 2 4 id4 = true ∧ 1 ≤ 10 ∧
    bfsNumpy 3 (encodedPermGraph1d 2 4 lrx4 identityHash true 1).act [1, 0, 2] (encode 2 4 id4) 10 =
      [1, 3, 5, 6, 5, 3, 1] ∧
    bfsNumpy 3 (encodedPermGraph1d 2 4 lrx4 identityHash true 1).act [1, 0, 2] (encode 2 4 id4) 3 = [1, 3, 5, 6] :=
  ⟨by decide, encLen_2_4, lrx4_perm, Cv.Instance.PathsExample.lrx4_invMap, by decide, by decide, numpyX.1, numpyX.2.1⟩

/-- the inverse map is needed: with `[0, 1, 2]` (every generator declared its own inverse) the output is wrong -/
example : bfsNumpy 3 (encodedPermGraph1d 2 4 lrx4 identityHash true 1).act [0, 1, 2] (encode 2 4 id4) 10 ≠
    [1, 3, 5, 6, 5, 3, 1] := numpyX_wrong

/-- the engine's arrays hold SCALARS: the run on `W` with the 1-D routines is the run on one-word rows, so
`encoded_bfsNumpy_spec` applies to it verbatim -/
theorem encoded_bfsNumpy_scalar (w n : Nat) (hlen : encLen w n = 1) (perms : List (List Nat)) (hash : List W → Int)
    (ic : Bool) (batch : Nat) (invIdx : List Nat) (start : List Nat) (D : Nat) :
    bfsNumpy perms.length (fun i (x : W) => evalProg1d (compile (perms.getD i []) w n) x) invIdx
        ((encode w n start).getD 0 0#64) D =
      bfsNumpy perms.length (encodedPermGraph1d w n perms hash ic batch).act invIdx (encode w n start) D := by
  exact bfsNumpy_scalar_eq w n hlen perms hash ic batch invIdx start D

example : encLen 2 4 = 1 ∧
    bfsNumpy 3 (fun i (x : W) => evalProg1d (compile (lrx4.getD i []) 2 4) x) [1, 0, 2]
      ((encode 2 4 id4).getD 0 0#64) 10 = [1, 3, 5, 6, 5, 3, 1] := ⟨encLen_2_4, numpyX.2.2⟩

end Cv.C11x
