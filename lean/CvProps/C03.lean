/-
  C03 — hashing (`cayleypy/hasher.py`) and `get_unique_states`.  Property theorems only; the proofs are in
  `CvProofs/Hash.lean` (generic, independent of `CvGen`) and `CvProofs/Tensor.lean`.
  The `gen_*` theorems are the obligations for the constants REGENERATED from the Python source
  (`CvGen/HashIR.lean`): they are re-checked by `decide` on every build.
-/
import CvProofs.Hash
import CvProofs.Tensor
import CvGen.HashIR
namespace Cv.C03
open Cv Cv.Hash

/-- fixed copy of the splitmix64 pipeline (logical shifts), used only in the non-vacuity examples so that they do
not depend on the regenerated constants -/
def exSteps : List MixStep :=
  [.xorShrMasked 30 (logicalMask 30), .mul 0xBF58476D1CE4E5B9#64, .xorShrMasked 27 (logicalMask 27),
   .mul 0x94D049BB133111EB#64, .xorShrMasked 31 (logicalMask 31)]
def exInvs : List W := [0x96DE1B173F119089#64, 0x319642B2D24D8EC3#64]
def exC : W := 2246822507#64
def exCi : W := 2941351004705347#64

/-! ## generic theorems (no dependence on CvGen) -/

theorem xorShrLogical_injective (k : Nat) (hk : 1 ≤ k) :
    Function.Injective (MixStep.eval (.xorShrMasked k (logicalMask k))) := by
  exact Hash.xorShrLogical_injective k hk
-- non-vacuity: `k = 30` is an instance; the hypothesis `1 ≤ k` is needed (`k = 0` maps everything to 0)
example : (1 : Nat) ≤ 30 := by decide
example : MixStep.eval (.xorShrMasked 30 (logicalMask 30)) 0xFFFFFFFFFFFFFFFF#64 = 0xFFFFFFFC00000000#64 := by decide
example : MixStep.eval (.xorShrMasked 0 (logicalMask 0)) 0#64 = MixStep.eval (.xorShrMasked 0 (logicalMask 0)) 1#64 ∧
    (0#64 : W) ≠ 1#64 := by decide

theorem mul_injective (c ci : W) (h : c * ci = 1#64) : Function.Injective (MixStep.eval (.mul c)) := by
  exact Hash.mul_injective c ci h
example : (0xBF58476D1CE4E5B9#64 : W) * 0x96DE1B173F119089#64 = 1#64 := by decide
-- an even multiplier is not injective
example : MixStep.eval (.mul 2#64) 0#64 = MixStep.eval (.mul 2#64) 0x8000000000000000#64 := by decide

theorem evalMix_injective_of_check (steps : List MixStep) (invs : List W) (h : checkMix steps invs = true) :
    Function.Injective (evalMix steps) := by
  exact Hash.evalMix_injective_of_check steps invs h
example : checkMix exSteps exInvs = true := by decide
example : evalMix exSteps 1#64 = 6238072747940578789#64 := by decide

/-- why the arithmetic-shift version was a defect: `x` and `~x` get the same value -/
theorem xorShrArith_compl (k : Nat) (x : W) :
    MixStep.eval (.xorShrArith k) (~~~x) = MixStep.eval (.xorShrArith k) x := by
  exact Hash.xorShrArith_compl k x
/-- the same statement with `MixStep.eval` unfolded -/
theorem xorShrArith_compl' (k : Nat) (x : W) :
    (~~~x) ^^^ ((~~~x).sshiftRight k) = x ^^^ (x.sshiftRight k) := by
  exact Hash.xorShrArith_compl' k x
example : MixStep.eval (.xorShrArith 30) (~~~5#64) = MixStep.eval (.xorShrArith 30) 5#64 ∧ ~~~(5#64 : W) ≠ 5#64 := by
  decide

theorem arith_mix_collides (k : Nat) (rest : List MixStep) (x : W) :
    evalMix (.xorShrArith k :: rest) (~~~x) = evalMix (.xorShrArith k :: rest) x := by
  exact Hash.arith_mix_collides k rest x
-- the old `_splitmix64` (all shifts arithmetic): 5 and ~5 = -6 collide
example :
    let old : List MixStep := [.xorShrArith 30, .mul 0xBF58476D1CE4E5B9#64, .xorShrArith 27,
      .mul 0x94D049BB133111EB#64, .xorShrArith 31]
    evalMix old (~~~5#64) = evalMix old 5#64 ∧ ~~~(5#64 : W) ≠ 5#64 := by decide

/-- states that differ in exactly one word never collide, under EVERY seed -/
theorem one_word_diff_never_collides (steps : List MixStep) (invs : List W) (c ci : W)
    (hmix : checkMix steps invs = true) (hc : c * ci = 1#64) (seed : W) (pre post : List W) (a b : W) (hab : a ≠ b) :
    combine steps c seed (pre ++ a :: post) ≠ combine steps c seed (pre ++ b :: post) := by
  exact Hash.one_word_diff_never_collides steps invs c ci hmix hc seed pre post a b hab
example : checkMix exSteps exInvs = true ∧ exC * exCi = 1#64 ∧ (3#64 : W) ≠ 4#64 := by decide
example : combine exSteps exC 7#64 ([1#64, 2#64] ++ 3#64 :: [5#64]) ≠
    combine exSteps exC 7#64 ([1#64, 2#64] ++ 4#64 :: [5#64]) := by decide

/-- for fixed row, the hash is an injective function of the seed -/
theorem combine_seed_injective (steps : List MixStep) (c ci : W) (hc : c * ci = 1#64) (row : List W) :
    Function.Injective (fun seed => combine steps c seed row) := by
  exact Hash.combine_seed_injective steps c ci hc row
example : exC * exCi = 1#64 := by decide

/-- swapped words: `[a,b]` vs `[b,a]` are separated by some seed (witness: `seed = mix a`) unless `D*(c-1) = 0`
    where `D = mix a ^^^ mix b` -/
theorem swapped_words_separable (steps : List MixStep) (c ci : W) (hc : c * ci = 1#64) (a b : W)
    (hne : (evalMix steps a ^^^ evalMix steps b) * c ≠ (evalMix steps a ^^^ evalMix steps b)) :
    ∃ seed, combine steps c seed [a, b] ≠ combine steps c seed [b, a] := by
  exact Hash.swapped_words_separable steps c ci hc a b hne
example : exC * exCi = 1#64 ∧
    (evalMix exSteps 1#64 ^^^ evalMix exSteps 2#64) * exC ≠ (evalMix exSteps 1#64 ^^^ evalMix exSteps 2#64) := by
  decide

/-- NEGATIVE (known finding D1b, keep visible): the combiner has a seed-independent collision family -/
theorem combiner_topbit_family (steps : List MixStep) (c : W) (hodd : c.getLsbD 0 = true) (seed a b a' b' : W)
    (ha : evalMix steps a' = evalMix steps a ^^^ 0x8000000000000000#64)
    (hb : evalMix steps b' = evalMix steps b ^^^ 0x8000000000000000#64) :
    combine steps c seed [a, b] = combine steps c seed [a', b'] := by
  exact Hash.combiner_topbit_family steps c hodd seed a b a' b' ha hb
-- a concrete member of the family for the splitmix64 pipeline: the two different 2-word states
-- [1, 2] and [3971391549380807435, 12222427336169081575] have the same hash under EVERY seed
example : exC.getLsbD 0 = true ∧
    evalMix exSteps 3971391549380807435#64 = evalMix exSteps 1#64 ^^^ 0x8000000000000000#64 ∧
    evalMix exSteps 12222427336169081575#64 = evalMix exSteps 2#64 ^^^ 0x8000000000000000#64 := by decide
example (seed : W) : combine exSteps exC seed [1#64, 2#64] =
    combine exSteps exC seed [3971391549380807435#64, 12222427336169081575#64] :=
  Hash.combiner_topbit_family exSteps exC (by decide) seed _ _ _ _ (by decide) (by decide)

/-- the exceptional case of the swapped-words theorems is real: `mix a ^^^ mix b = 2^63` makes `[a,b]` and `[b,a]`
collide under every seed -/
theorem swapped_words_topbit_collide (steps : List MixStep) (c : W) (hodd : c.getLsbD 0 = true) (seed a b : W)
    (hD : evalMix steps a ^^^ evalMix steps b = 0x8000000000000000#64) :
    combine steps c seed [a, b] = combine steps c seed [b, a] := by
  exact Hash.swapped_words_topbit_collide steps c hodd seed a b hD
example : evalMix exSteps 1#64 ^^^ evalMix exSteps 3971391549380807435#64 = 0x8000000000000000#64 := by decide

/-- chunked hashing = unchunked hashing, for every chunk count ≥ 1 -/
theorem chunked_eq {β : Type} (h : β → W) (k : Nat) (hk : 0 < k) (xs : List β) :
    chunked h (tensorSplit k xs) = xs.map h := by
  exact Hash.chunked_eq h k hk xs
example : tensorSplit 3 [1, 2, 3, 4, 5, 6, 7] = [[1, 2, 3], [4, 5], [6, 7]] := by decide
example : chunked (fun n : Nat => BitVec.ofNat 64 (n * n)) (tensorSplit 3 [1, 2, 3, 4, 5, 6, 7]) =
    [1, 2, 3, 4, 5, 6, 7].map (fun n : Nat => BitVec.ofNat 64 (n * n)) := by decide
-- `0 < k` is needed: with zero chunks everything is lost
example : chunked (fun n : Nat => BitVec.ofNat 64 n) (tensorSplit 0 [1]) = [] := by decide

/-- identity hasher is injective on single-word states -/
theorem identity_injective (a b : W) (h : identity [a] = identity [b]) : a = b := by
  exact Hash.identity_injective a b h
example : identity [42#64] = 42#64 := by decide

/-- signed order key is injective (hash values compared as int64) -/
theorem key_injective : Function.Injective key := by
  exact Hash.key_injective
example : key 0xFFFFFFFFFFFFFFFF#64 = -1 ∧ key 0x8000000000000000#64 = -9223372036854775808 ∧ key 5#64 = 5 := by
  decide

/-- random dot product: rows that differ in exactly one coordinate collide iff `(a - b) * v = 0`, `v` being the key
coordinate at that position -/
theorem dot_one_coord (vpre vpost pre post : List W) (a b v : W) (hlen : vpre.length = pre.length) :
    dot (vpre ++ v :: vpost) (pre ++ a :: post) = dot (vpre ++ v :: vpost) (pre ++ b :: post)
      ↔ (a - b) * v = 0#64 := by
  exact Hash.dot_one_coord vpre vpost pre post a b v hlen
-- an even key coordinate does collide: rows [1, 0, 5] and [1, 2^63, 5] under the key [3, 2, 7]
example : ([3#64] : List W).length = ([1#64] : List W).length ∧ ((0#64 : W) - 0x8000000000000000#64) * 2#64 = 0#64 ∧
    dot ([3#64] ++ 2#64 :: [7#64]) ([1#64] ++ 0#64 :: [5#64]) =
    dot ([3#64] ++ 2#64 :: [7#64]) ([1#64] ++ 0x8000000000000000#64 :: [5#64]) := by decide

/-- … hence an odd key coordinate always separates them -/
theorem dot_one_coord_odd (vpre vpost pre post : List W) (a b v : W) (hlen : vpre.length = pre.length)
    (hv : v.getLsbD 0 = true) (hab : a ≠ b) :
    dot (vpre ++ v :: vpost) (pre ++ a :: post) ≠ dot (vpre ++ v :: vpost) (pre ++ b :: post) := by
  exact Hash.dot_one_coord_odd vpre vpost pre post a b v hlen hv hab
example : ([3#64] : List W).length = ([1#64] : List W).length ∧ (9#64 : W).getLsbD 0 = true ∧
    (0#64 : W) ≠ 0x8000000000000000#64 ∧
    dot ([3#64] ++ 9#64 :: [7#64]) ([1#64] ++ 0#64 :: [5#64]) ≠
    dot ([3#64] ++ 9#64 :: [7#64]) ([1#64] ++ 0x8000000000000000#64 :: [5#64]) := by decide

/-! ## regenerated obligations (re-checked against `CvGen/HashIR.lean` on every build) -/

theorem gen_fits : Cv.Gen.fitsGrammar = true := by decide
theorem gen_mix_check : checkMix Cv.Gen.mixSteps Cv.Gen.mixInvs = true := by decide
theorem gen_combiner_inv : Cv.Gen.combinerMul * Cv.Gen.combinerMulInv = 1#64 := by decide

theorem gen_mix_injective : Function.Injective (evalMix Cv.Gen.mixSteps) :=
  Hash.evalMix_injective_of_check _ _ gen_mix_check
example : evalMix Cv.Gen.mixSteps 0#64 = 0#64 ∧ evalMix Cv.Gen.mixSteps 1#64 ≠ evalMix Cv.Gen.mixSteps 2#64 := by
  decide

theorem gen_one_word_diff (seed : W) (pre post : List W) (a b : W) (hab : a ≠ b) :
    combine Cv.Gen.mixSteps Cv.Gen.combinerMul seed (pre ++ a :: post) ≠
    combine Cv.Gen.mixSteps Cv.Gen.combinerMul seed (pre ++ b :: post) := by
  exact Hash.one_word_diff_never_collides _ _ _ _ gen_mix_check gen_combiner_inv seed pre post a b hab
example : combine Cv.Gen.mixSteps Cv.Gen.combinerMul 7#64 ([1#64, 2#64] ++ 3#64 :: [5#64]) ≠
    combine Cv.Gen.mixSteps Cv.Gen.combinerMul 7#64 ([1#64, 2#64] ++ 4#64 :: [5#64]) := by decide

theorem gen_combine_seed_injective (row : List W) :
    Function.Injective (fun seed => combine Cv.Gen.mixSteps Cv.Gen.combinerMul seed row) := by
  exact Hash.combine_seed_injective _ _ _ gen_combiner_inv row

/-- for the regenerated constants (`c - 1` has exactly one factor 2): the only exception is `D = 2^63`.
(STRETCH; depends on the regenerated constant: `c - 1 = 2 * q`, `q` odd, both by `decide`.) -/
theorem gen_swapped_words (a b : W) (hab : a ≠ b)
    (hne : evalMix Cv.Gen.mixSteps a ^^^ evalMix Cv.Gen.mixSteps b ≠ 0x8000000000000000#64) :
    ∃ seed, combine Cv.Gen.mixSteps Cv.Gen.combinerMul seed [a, b] ≠
      combine Cv.Gen.mixSteps Cv.Gen.combinerMul seed [b, a] := by
  exact Hash.swapped_words_separable_of_half_odd Cv.Gen.mixSteps Cv.Gen.mixInvs Cv.Gen.combinerMul
    Cv.Gen.combinerMulInv ((Cv.Gen.combinerMul - 1#64) >>> 1) gen_mix_check gen_combiner_inv
    (by decide) (by decide) a b hab hne
example : (1#64 : W) ≠ 2#64 ∧
    evalMix Cv.Gen.mixSteps 1#64 ^^^ evalMix Cv.Gen.mixSteps 2#64 ≠ 0x8000000000000000#64 := by decide

/-- D1b for the regenerated constants: whenever two words have mix values differing exactly in the top bit, swapping
them is invisible to the hash under every seed (the combiner multiplier is odd, by `decide`). -/
theorem gen_swapped_words_topbit_collide (seed a b : W)
    (hD : evalMix Cv.Gen.mixSteps a ^^^ evalMix Cv.Gen.mixSteps b = 0x8000000000000000#64) :
    combine Cv.Gen.mixSteps Cv.Gen.combinerMul seed [a, b] =
      combine Cv.Gen.mixSteps Cv.Gen.combinerMul seed [b, a] := by
  exact Hash.swapped_words_topbit_collide _ _ (by decide) seed a b hD

/-! ## `get_unique_states` (re-exported from `CvProofs/Tensor.lean`) -/

section
variable {α : Type}

/-- the kept rows have strictly increasing hashes -/
theorem uniqueStates_keys_strict (hash : α → Int) (xs : List α) :
    ((uniqueStates hash xs).map hash).Pairwise (· < ·) := Cv.uniqueStates_keys_strict hash xs
theorem uniqueStates_subset (hash : α → Int) (xs : List α) : ∀ x ∈ uniqueStates hash xs, x ∈ xs :=
  Cv.uniqueStates_subset hash xs
/-- no hash value is lost -/
theorem uniqueStates_key_mem (hash : α → Int) (xs : List α) (k : Int) :
    k ∈ (uniqueStates hash xs).map hash ↔ k ∈ xs.map hash := Cv.uniqueStates_key_mem hash xs k
/-- with the hash injective on the batch: nothing lost -/
theorem uniqueStates_mem (hash : α → Int) (xs : List α)
    (hinj : ∀ x ∈ xs, ∀ y ∈ xs, hash x = hash y → x = y) (x : α) :
    x ∈ uniqueStates hash xs ↔ x ∈ xs := Cv.uniqueStates_mem hash xs hinj x
theorem uniqueStates_nodup (hash : α → Int) (xs : List α) : (uniqueStates hash xs).Nodup :=
  Cv.uniqueStates_nodup hash xs
/-- the representative kept for a hash value is the FIRST row of the batch with that hash (stability) -/
theorem uniqueStates_first (hash : α → Int) (xs : List α) (x : α) (hx : x ∈ uniqueStates hash xs) :
    xs.find? (fun y => hash y == hash x) = some x := Cv.uniqueStates_first hash xs x hx
end

-- non-vacuity: a batch with repeated rows and a hash collision (3 and 13 both hash to 3); the first one is kept
example : uniqueStates (fun n : Nat => (n % 10 : Int)) [13, 5, 3, 5, 1] = [1, 13, 5] := by
  simp [uniqueStates, sortByKey, dedupAdj, List.mergeSort, List.MergeSort.Internal.splitInTwo]

end Cv.C03
