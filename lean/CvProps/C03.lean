/-
  C03 — de-duplication / hashing.  Property theorems only (filled in as proofs land).
-/
import CvModel.Hash
import CvGen.HashIR
