/-
  C12 — automatic path finding.  Property theorems only (filled in as proofs land).
-/
import CvModel.Paths
