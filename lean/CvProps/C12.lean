/-
  C12 — automatic path finding (`find_path`, `_precompute_bfs`; algo/find_path.py, graphs without a pre-trained
  model).  Property theorems only; proofs in `CvProofs/Mitm.lean`, concrete graphs in `CvProofs/PathsExample.lean`,
  `CvProofs/MitmExample.lean`.

  `find_path` caches a BFS ball around the central state (in `g` when the generators are inverse-closed, in the inverted
  graph `gi` otherwise) and runs `MeetInTheMiddle.find_path_from` / `find_path_to` on it.

  DEVIATION FROM THE REQUESTED STATEMENT of `findPath_shortest` (false as written, see `CvProps/C05a.lean` for the
  counterexample on `MeetInTheMiddle.find_path_to`, which `find_path` calls): the backward BFS inside the MITM search uses
  the default `max_layer_size_to_explore = 10**12`; hypothesis `hexp` excludes layers that large.  `findPath_valid` holds
  as requested, and `findPath_core` (no size hypothesis) shows that the size limit is the only other reason for `None`.
-/
import CvProofs.Mitm
import CvProofs.MitmExample
set_option linter.unusedSectionVars false
namespace Cv.C12
open Cv Cv.PathsExample Cv.MitmExample

variable {α : Type} [DecidableEq α]

/-- the cached ball is a ball: `precomputeBfs` returns per-layer hashes of the distance classes around the central state -/
theorem precomputeBfs_isBall (g : Graph α) (central : α) (hb : BfsHyp g [central]) (me md : Option Nat) :
    IsBall g central (precomputeBfs g central me md).hashes ∧ (precomputeBfs g central me md).hashes ≠ [] := by
  exact Cv.precomputeBfs_isBall g central hb me md
-- non-vacuity: the 6-cycle, `max_diameter = 2`
example : BfsHyp ex6 [0] ∧ (precomputeBfs ex6 0 none (some 2)).hashes = [[0], [1, 5], [2, 4]] :=
  ⟨ex6_findHyp.bfsG, ex6_precompute⟩
-- the inverted directed 5-cycle, `max_diameter = 1`
example : BfsHyp ex5i [0] ∧ (precomputeBfs ex5i 0 none (some 1)).hashes = [[0], [4]] :=
  ⟨ex5_findHyp.bfsGi, ex5i_precompute1⟩

/-- whatever `find_path` returns replays from the start state to the central state (both branches) -/
theorem findPath_valid (g gi : Graph α) (central : α) (h : PathHyp g gi) (hbg : BfsHyp g [central]) (hbi : BfsHyp gi [central])
    (hsg : g.invClosed = true → Symm g.nb) (hsi : gi.invClosed = true → Symm gi.nb)
    (hbsg : 0 < g.batchSize) (hbsi : 0 < gi.batchSize)
    (invMap : Option (List Nat)) (hm : g.invClosed = true → ∃ m, invMap = some m ∧ IsInvMap g m)
    (start : α) (me md : Option Nat) :
    match findPath g gi invMap central start me md with
    | .found p => applyPath g.act start p = central ∧ ∀ i ∈ p, i < g.nGens
    | .notFound => True
    | .assertFail _ => False := by
  exact Cv.findPath_valid g gi invMap central start ⟨h, hbg, hbi, hsg, hsi, hbsg, hbsi, hm⟩ me md
-- non-vacuity: the hypotheses hold on the 6-cycle (inverse-closed branch) and on the directed 5-cycle (other branch)
example : FindHyp ex6 ex6i (some [1, 0]) 0 ∧ ex6.invClosed = true := ⟨ex6_findHyp, rfl⟩
example : FindHyp ex5 ex5i none 0 ∧ ex5.invClosed = false := ⟨ex5_findHyp, rfl⟩
example : findPath ex6 ex6i (some [1, 0]) 0 4 none (some 1) = .found [0, 0] ∧ applyPath ex6.act 4 [0, 0] = 0 :=
  ⟨ex6_findPath_found, by decide⟩
example : findPath ex5 ex5i none 0 3 none (some 1) = .found [0, 0] ∧ applyPath ex5.act 3 [0, 0] = 0 :=
  ⟨ex5_findPath_found, by decide⟩
-- `hm` is needed: inverse-closed generators without an inverse map trip the assertion in `revert_path`
example : findPath ex6 ex6i none 0 4 none (some 1) = .assertFail "Cannot revert path" := by mitm_eval

/-- shortest within twice the depth of the internal BFS; `notFound` only when no path of that length exists.
    `depth` is the depth of the cached ball (in `g` when inverse-closed, in the inverted graph otherwise). -/
theorem findPath_shortest (g gi : Graph α) (central : α) (h : PathHyp g gi) (hbg : BfsHyp g [central]) (hbi : BfsHyp gi [central])
    (hsg : g.invClosed = true → Symm g.nb) (hsi : gi.invClosed = true → Symm gi.nb)
    (hbsg : 0 < g.batchSize) (hbsi : 0 < gi.batchSize)
    (invMap : Option (List Nat)) (hm : g.invClosed = true → ∃ m, invMap = some m ∧ IsInvMap g m)
    (start : α) (me md : Option Nat)
    (hexp : ∀ k L, 1 ≤ k →
      k ≤ (if g.invClosed then (precomputeBfs g central me md).hashes else (precomputeBfs gi central me md).hashes).length - 1 →
      IsLayer (if g.invClosed then gi else g) [start] k L → L.length < 10^12) :
    let ball := if g.invClosed then (precomputeBfs g central me md).hashes else (precomputeBfs gi central me md).hashes
    match findPath g gi invMap central start me md with
    | .found p => (p.length ≤ 2 * (ball.length - 1)) ∧ ∀ n, Walk g.nb n start central → p.length ≤ n
    | .notFound => ∀ n, n ≤ 2 * (ball.length - 1) → ¬ Walk g.nb n start central
    | .assertFail _ => False := by
  exact Cv.findPath_shortest g gi invMap central start ⟨h, hbg, hbi, hsg, hsi, hbsg, hbsi, hm⟩ me md hexp
-- non-vacuity: the size hypothesis holds on the small graphs; `max_diameter = 1`, so the depth is 1 and paths of length ≤ 2 are found
example : ∀ k L, 1 ≤ k →
    k ≤ (if ex6.invClosed then (precomputeBfs ex6 0 none (some 1)).hashes else (precomputeBfs ex6i 0 none (some 1)).hashes).length - 1 →
    IsLayer (if ex6.invClosed then ex6i else ex6) [3] k L → L.length < 10^12 :=
  fun k L _ _ hL => ex6i_small 3 (by decide) k L hL
example : ∀ k L, 1 ≤ k →
    k ≤ (if ex5.invClosed then (precomputeBfs ex5 0 none (some 1)).hashes else (precomputeBfs ex5i 0 none (some 1)).hashes).length - 1 →
    IsLayer (if ex5.invClosed then ex5i else ex5) [2] k L → L.length < 10^12 :=
  fun k L _ _ hL => ex5_small 2 (by decide) k L hL
example : findPath ex6 ex6i (some [1, 0]) 0 4 none (some 1) = .found [0, 0] ∧
    findPath ex6 ex6i (some [1, 0]) 0 3 none (some 1) = .notFound := ⟨ex6_findPath_found, ex6_findPath_notFound⟩
example : findPath ex5 ex5i none 0 3 none (some 1) = .found [0, 0] ∧
    findPath ex5 ex5i none 0 2 none (some 1) = .notFound := ⟨ex5_findPath_found, ex5_findPath_notFound⟩

/-- COUNTEREXAMPLE to the statement without `hexp`: `find_path(graph, start, max_layer_size_to_explore=10**13,
max_diameter=2)` on ℤ with the generators `-1 … -10^12` (not inverse-closed), central state `0`, start state `3·10^12 + 1`:
every other hypothesis holds, the cached ball has depth 2, a walk of `4 = 2·2` edges from the start to the central state
exists, and the answer is `None` (the inner backward BFS stops at its default size limit `10**12`). -/
example : FindHyp exZi exZ none 0 ∧
    findPath exZi exZ none 0 destZ (some (10^13)) (some 2) = .notFound ∧
    4 ≤ 2 * ((if exZi.invClosed then (precomputeBfs exZi 0 (some (10^13)) (some 2)).hashes
      else (precomputeBfs exZ 0 (some (10^13)) (some 2)).hashes).length - 1) ∧
    Walk exZi.nb 4 destZ 0 := by
  refine ⟨exZi_findHyp, exZi_findPath_notFound, ?_, exZi_walk4⟩
  have hic : exZi.invClosed = false := rfl
  simp only [hic, Bool.false_eq_true, if_false]
  rw [precomputeZ_length]
  decide

/-- everything at once and without any size hypothesis: valid, shortest, bounded; the assertions are unreachable; `None`
only if no path of length at most twice the depth exists or the backward BFS hit its default size limit `10**12` -/
theorem findPath_core (g gi : Graph α) (invMap : Option (List Nat)) (central start : α)
    (H : FindHyp g gi invMap central) (me md : Option Nat) :
    match findPath g gi invMap central start me md with
    | .found p => applyPath g.act start p = central ∧ (∀ i ∈ p, i < g.nGens) ∧
        p.length ≤ 2 * ((if g.invClosed then (precomputeBfs g central me md).hashes
          else (precomputeBfs gi central me md).hashes).length - 1) ∧
        ∀ n, Walk g.nb n start central → p.length ≤ n
    | .notFound =>
        (∀ n, n ≤ 2 * ((if g.invClosed then (precomputeBfs g central me md).hashes
          else (precomputeBfs gi central me md).hashes).length - 1) → ¬ Walk g.nb n start central) ∨
        ∃ k L, 1 ≤ k ∧ k ≤ (if g.invClosed then (precomputeBfs g central me md).hashes
          else (precomputeBfs gi central me md).hashes).length - 1 ∧
          IsLayer (if g.invClosed then gi else g) [start] k L ∧ 10^12 ≤ L.length
    | .assertFail _ => False := by
  exact Cv.findPath_core g gi invMap central start H me md
example : FindHyp ex6 ex6i (some [1, 0]) 0 := ex6_findHyp

end Cv.C12
