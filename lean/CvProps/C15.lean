/-
  C15 — every library graph family implements the generators its documentation describes.
  Property theorems about the closed-form specification `CvModel/Families.lean` (which the check
  compares EXACTLY with `cayleypy/graphs_lib.py` for all small parameters); proofs are in
  `CvProofs/Families*.lean`.  Every theorem is followed by a non-vacuity example.
  (generated from the proof files by gen_c15.py)
-/
import CvProofs.Families
import CvProofs.FamiliesCounts
import CvProofs.FamiliesCycles
import CvProofs.FamiliesEnum
import CvProofs.FamiliesLookup
import CvProofs.FamiliesMat
import CvProofs.FamiliesMore
import CvProofs.FamiliesOrder
import CvProofs.FamiliesRoundtrip
namespace Cv.C15
open Cv.Perm Cv.GraphDef Cv.Families

/-- summary: all index lists are strictly sorted, hence duplicate-free -/
theorem index_lists_sorted (n k : Nat) :
    (pairsLt n).Pairwise lex2 ∧ (pairsLe n).Pairwise lex2 ∧ (pairsSplit n k).Pairwise lex2 ∧
    (pairsNe1 n).Pairwise lex2 ∧ (triplesT n).Pairwise lex3 ∧ (triplesMinFirst n).Pairwise lex3 ∧
    (quadsI n).Pairwise lex4 := by
  exact Cv.Families.index_lists_sorted n k
example : pairsLt 3 = [(0,1),(0,2),(1,2)] ∧ pairsLe 2 = [(0,0),(0,1),(1,1)] ∧ pairsSplit 3 1 = [(0,1),(0,2)] ∧
    pairsNe1 3 = [(1,2),(2,1)] ∧ triplesT 3 = [(0,1,1),(0,1,2),(0,2,2),(1,2,2)] ∧
    triplesMinFirst 3 = [(0,1,2),(0,2,1)] ∧ quadsI 2 = [(0,1,1,2)] := by decide

theorem index_lists_nodup (n k : Nat) :
    (pairsLt n).Nodup ∧ (pairsLe n).Nodup ∧ (pairsSplit n k).Nodup ∧ (pairsNe1 n).Nodup ∧
    (triplesT n).Nodup ∧ (triplesMinFirst n).Nodup ∧ (quadsI n).Nodup := by
  exact Cv.Families.index_lists_nodup n k
example : pairsLt 3 = [(0,1),(0,2),(1,2)] ∧ pairsLe 2 = [(0,0),(0,1),(1,1)] ∧ pairsSplit 3 1 = [(0,1),(0,2)] ∧
    pairsNe1 3 = [(1,2),(2,1)] ∧ triplesT 3 = [(0,1,1),(0,1,2),(0,2,2),(1,2,2)] ∧
    triplesMinFirst 3 = [(0,1,2),(0,2,1)] ∧ quadsI 2 = [(0,1,1,2)] := by decide

theorem pancake_valid (n : Nat) (d : PermDef) (h : permFamily "pancake" [n] = some d) :
    (∀ p ∈ d.gens, IsPermOf n p) ∧ d.central = List.range n ∧ d.names.length = d.gens.length := by
  exact Cv.Families.pancake_valid n d h
example : (permFamily "pancake" [4]).isSome = true := by decide

theorem pancake_count (n : Nat) (d : PermDef) (h : permFamily "pancake" [n] = some d) :
    d.gens.length = n - 1 := by
  exact Cv.Families.pancake_count n d h
example : (permFamily "pancake" [4]).isSome = true := by decide

/-- generator number `k-2` (named `R<k-1>`) is the reversal of the prefix of length `k` -/
theorem pancake_structure (n : Nat) (d : PermDef) (h : permFamily "pancake" [n] = some d) :
    ∀ k, 2 ≤ k → k ≤ n →
      d.gens[k - 2]? = some ((List.range k).reverse ++ List.range' k (n - k)) ∧
      d.names[k - 2]? = some ("R" ++ toString (k - 1)) ∧
      ∀ x : List Nat, x.length = n →
        apply ((List.range k).reverse ++ List.range' k (n - k)) x = (x.take k).reverse ++ x.drop k := by
  exact Cv.Families.pancake_structure n d h
example : ∃ d, permFamily "pancake" [4] = some d ∧ d.gens = [[1, 0, 2, 3], [2, 1, 0, 3], [3, 2, 1, 0]] ∧
    d.names = ["R1", "R2", "R3"] ∧
    d.central = [0, 1, 2, 3] ∧ d.name = "pancake-4" :=
  ⟨_, rfl, by decide, by decide, by decide, by decide⟩

theorem pancake_inverse_closed (n : Nat) (d : PermDef) (h : permFamily "pancake" [n] = some d) :
    d.inverseClosed = true := by
  exact Cv.Families.pancake_inverse_closed n d h
example : (permFamily "pancake" [4]).isSome = true := by decide

theorem pancake_defined_iff (n : Nat) : (permFamily "pancake" [n]).isSome ↔ 2 ≤ n := by
  exact Cv.Families.pancake_defined_iff n
example : (permFamily "pancake" [4]).isSome = true ∧ (permFamily "pancake" [1]).isSome = false := by decide

theorem lrx_valid (n k : Nat) (d : PermDef) (h : permFamily "lrx" [n, k] = some d) :
    (∀ p ∈ d.gens, IsPermOf n p) ∧ d.central = List.range n ∧ d.names.length = d.gens.length := by
  exact Cv.Families.lrx_valid n k d h
example : (permFamily "lrx" [5, 2]).isSome = true := by decide

theorem lrx_count (n k : Nat) (d : PermDef) (h : permFamily "lrx" [n, k] = some d) :
    d.gens.length = 3 := by
  exact Cv.Families.lrx_count n k d h
example : (permFamily "lrx" [5, 2]).isSome = true := by decide

/-- L = left shift, R = right shift, X = the transposition of 0 and k -/
theorem lrx_structure (n k : Nat) (d : PermDef) (h : permFamily "lrx" [n, k] = some d) :
    d.names = ["L", "R", "X"] ∧
    d.gens = [List.range' 1 (n - 1) ++ [0], [n - 1] ++ List.range (n - 1), oneLine n (swapFn 0 k)] ∧
    transposition n 0 k = some (oneLine n (swapFn 0 k)) ∧
    ∀ x : List Nat, x.length = n →
      apply (List.range' 1 (n - 1) ++ [0]) x = x.drop 1 ++ x.take 1 ∧
      apply ([n - 1] ++ List.range (n - 1)) x = x.drop (n - 1) ++ x.take (n - 1) ∧
      apply (oneLine n (swapFn 0 k)) x = (x.set 0 (x.getD k 0)).set k (x.getD 0 0) := by
  exact Cv.Families.lrx_structure n k d h
example : ∃ d, permFamily "lrx" [5, 2] = some d ∧ d.gens = [[1, 2, 3, 4, 0], [4, 0, 1, 2, 3], [2, 1, 0, 3, 4]] ∧
    d.names = ["L", "R", "X"] ∧
    d.central = [0, 1, 2, 3, 4] ∧ d.name = "lrx-5(k=2)" :=
  ⟨_, rfl, by decide, by decide, by decide, by decide⟩

theorem lrx_name (n k : Nat) (d : PermDef) (h : permFamily "lrx" [n, k] = some d) :
    d.name = "lrx-" ++ toString n ++ (if k = 1 then "" else "(k=" ++ toString k ++ ")") := by
  exact Cv.Families.lrx_name n k d h
example : (permFamily "lrx" [5, 2]).isSome = true := by decide

theorem lrx_inverse_closed (n k : Nat) (d : PermDef) (h : permFamily "lrx" [n, k] = some d) :
    d.inverseClosed = true := by
  exact Cv.Families.lrx_inverse_closed n k d h
example : (permFamily "lrx" [5, 2]).isSome = true := by decide

theorem lrx_defined_iff (n k : Nat) :
    (permFamily "lrx" [n, k]).isSome ↔ 3 ≤ n ∧ 1 ≤ k ∧ k < n := by
  exact Cv.Families.lrx_defined_iff n k
example : (permFamily "lrx" [5, 2]).isSome = true ∧ (permFamily "lrx" [5, 5]).isSome = false := by decide

theorem lx_valid (n : Nat) (d : PermDef) (h : permFamily "lx" [n] = some d) :
    (∀ p ∈ d.gens, IsPermOf n p) ∧ d.central = List.range n ∧ d.names.length = d.gens.length := by
  exact Cv.Families.lx_valid n d h
example : (permFamily "lx" [4]).isSome = true := by decide

theorem lx_count (n : Nat) (d : PermDef) (h : permFamily "lx" [n] = some d) : d.gens.length = 2 := by
  exact Cv.Families.lx_count n d h
example : (permFamily "lx" [4]).isSome = true := by decide

theorem lx_structure (n : Nat) (d : PermDef) (h : permFamily "lx" [n] = some d) :
    d.names = ["L", "X"] ∧
    d.gens = [List.range' 1 (n - 1) ++ [0], oneLine n (swapFn 0 1)] ∧
    transposition n 0 1 = some (oneLine n (swapFn 0 1)) ∧
    ∀ x : List Nat, x.length = n →
      apply (List.range' 1 (n - 1) ++ [0]) x = x.drop 1 ++ x.take 1 ∧
      apply (oneLine n (swapFn 0 1)) x = (x.set 0 (x.getD 1 0)).set 1 (x.getD 0 0) := by
  exact Cv.Families.lx_structure n d h
example : ∃ d, permFamily "lx" [4] = some d ∧ d.gens = [[1, 2, 3, 0], [1, 0, 2, 3]] ∧
    d.names = ["L", "X"] ∧
    d.central = [0, 1, 2, 3] ∧ d.name = "lx-4" :=
  ⟨_, rfl, by decide, by decide, by decide, by decide⟩

theorem lx_name (n : Nat) (d : PermDef) (h : permFamily "lx" [n] = some d) :
    d.name = "lx-" ++ toString n := by
  exact Cv.Families.lx_name n d h
example : (permFamily "lx" [4]).isSome = true := by decide

/-- LX is NOT inverse-closed (the inverse of L, the right shift, is neither L nor X) -/
theorem lx_inverse_closed (n : Nat) (d : PermDef) (h : permFamily "lx" [n] = some d) :
    d.inverseClosed = false := by
  exact Cv.Families.lx_inverse_closed n d h
example : (permFamily "lx" [4]).isSome = true := by decide

theorem lx_defined_iff (n : Nat) : (permFamily "lx" [n]).isSome ↔ 3 ≤ n := by
  exact Cv.Families.lx_defined_iff n
example : (permFamily "lx" [4]).isSome = true ∧ (permFamily "lx" [2]).isSome = false := by decide

theorem top_spin_valid (n k : Nat) (d : PermDef) (h : permFamily "top_spin" [n, k] = some d) :
    (∀ p ∈ d.gens, IsPermOf n p) ∧ d.central = List.range n ∧ d.names.length = d.gens.length := by
  exact Cv.Families.top_spin_valid n k d h
example : (permFamily "top_spin" [6, 4]).isSome = true := by decide

theorem top_spin_count (n k : Nat) (d : PermDef) (h : permFamily "top_spin" [n, k] = some d) :
    d.gens.length = 3 := by
  exact Cv.Families.top_spin_count n k d h
example : (permFamily "top_spin" [6, 4]).isSome = true := by decide

/-- left shift, right shift, reversal of the first `k` entries; default names -/
theorem top_spin_structure (n k : Nat) (d : PermDef) (h : permFamily "top_spin" [n, k] = some d) :
    d.names = d.gens.map defaultName ∧
    d.gens = [List.range' 1 (n - 1) ++ [0], [n - 1] ++ List.range (n - 1),
              (List.range k).reverse ++ List.range' k (n - k)] ∧
    ∀ x : List Nat, x.length = n →
      apply (List.range' 1 (n - 1) ++ [0]) x = x.drop 1 ++ x.take 1 ∧
      apply ([n - 1] ++ List.range (n - 1)) x = x.drop (n - 1) ++ x.take (n - 1) ∧
      apply ((List.range k).reverse ++ List.range' k (n - k)) x = (x.take k).reverse ++ x.drop k := by
  exact Cv.Families.top_spin_structure n k d h
example : ∃ d, permFamily "top_spin" [6, 4] = some d ∧ d.gens = [[1, 2, 3, 4, 5, 0], [5, 0, 1, 2, 3, 4], [3, 2, 1, 0, 4, 5]] ∧
    d.names = ["1,2,3,4,5,0", "5,0,1,2,3,4", "3,2,1,0,4,5"] ∧
    d.central = [0, 1, 2, 3, 4, 5] ∧ d.name = "top_spin-6-4" :=
  ⟨_, rfl, by decide, by decide, by decide, by decide⟩

theorem top_spin_inverse_closed (n k : Nat) (d : PermDef) (h : permFamily "top_spin" [n, k] = some d) :
    d.inverseClosed = true := by
  exact Cv.Families.top_spin_inverse_closed n k d h
example : (permFamily "top_spin" [6, 4]).isSome = true := by decide

theorem top_spin_defined_iff (n k : Nat) :
    (permFamily "top_spin" [n, k]).isSome ↔ 2 ≤ k ∧ k ≤ n := by
  exact Cv.Families.top_spin_defined_iff n k
example : (permFamily "top_spin" [6, 4]).isSome = true ∧ (permFamily "top_spin" [3, 4]).isSome = false := by decide

theorem coxeter_valid (n : Nat) (d : PermDef) (h : permFamily "coxeter" [n] = some d) :
    (∀ p ∈ d.gens, IsPermOf n p) ∧ d.central = List.range n ∧ d.names.length = d.gens.length := by
  exact Cv.Families.coxeter_valid n d h
example : (permFamily "coxeter" [4]).isSome = true := by decide

theorem coxeter_count (n : Nat) (d : PermDef) (h : permFamily "coxeter" [n] = some d) :
    d.gens.length = n - 1 := by
  exact Cv.Families.coxeter_count n d h
example : (permFamily "coxeter" [4]).isSome = true := by decide

/-- generator `i` is the adjacent transposition `(i, i+1)`, named `"(i,i+1)"` -/
theorem coxeter_structure (n : Nat) (d : PermDef) (h : permFamily "coxeter" [n] = some d) :
    ∀ i, i + 1 < n →
      d.gens[i]? = transposition n i (i + 1) ∧
      d.names[i]? = some ("(" ++ toString i ++ "," ++ toString (i + 1) ++ ")") ∧
      ∀ x : List Nat, x.length = n →
        (d.gens[i]?.map fun g => apply g x) = some ((x.set i (x.getD (i + 1) 0)).set (i + 1) (x.getD i 0)) := by
  exact Cv.Families.coxeter_structure n d h
example : ∃ d, permFamily "coxeter" [4] = some d ∧ d.gens = [[1, 0, 2, 3], [0, 2, 1, 3], [0, 1, 3, 2]] ∧
    d.names = ["(0,1)", "(1,2)", "(2,3)"] ∧
    d.central = [0, 1, 2, 3] ∧ d.name = "coxeter-4" :=
  ⟨_, rfl, by decide, by decide, by decide, by decide⟩

theorem coxeter_inverse_closed (n : Nat) (d : PermDef) (h : permFamily "coxeter" [n] = some d) :
    d.inverseClosed = true := by
  exact Cv.Families.coxeter_inverse_closed n d h
example : (permFamily "coxeter" [4]).isSome = true := by decide

theorem coxeter_defined_iff (n : Nat) : (permFamily "coxeter" [n]).isSome ↔ 2 ≤ n := by
  exact Cv.Families.coxeter_defined_iff n
example : (permFamily "coxeter" [4]).isSome = true ∧ (permFamily "coxeter" [1]).isSome = false := by decide

theorem cyclic_coxeter_valid (n : Nat) (d : PermDef) (h : permFamily "cyclic_coxeter" [n] = some d) :
    (∀ p ∈ d.gens, IsPermOf n p) ∧ d.central = List.range n ∧ d.names.length = d.gens.length := by
  exact Cv.Families.cyclic_coxeter_valid n d h
example : (permFamily "cyclic_coxeter" [4]).isSome = true := by decide

theorem cyclic_coxeter_count (n : Nat) (d : PermDef) (h : permFamily "cyclic_coxeter" [n] = some d) :
    d.gens.length = n := by
  exact Cv.Families.cyclic_coxeter_count n d h
example : (permFamily "cyclic_coxeter" [4]).isSome = true := by decide

/-- generators `0..n-2` are the adjacent transpositions, generator `n-1` is `(0, n-1)` -/
theorem cyclic_coxeter_structure (n : Nat) (d : PermDef)
    (h : permFamily "cyclic_coxeter" [n] = some d) :
    (∀ i, i + 1 < n →
      d.gens[i]? = transposition n i (i + 1) ∧
      d.names[i]? = some ("(" ++ toString i ++ "," ++ toString (i + 1) ++ ")")) ∧
    d.gens[n - 1]? = transposition n 0 (n - 1) ∧
    d.names[n - 1]? = some ("(0," ++ toString (n - 1) ++ ")") := by
  exact Cv.Families.cyclic_coxeter_structure n d h
example : ∃ d, permFamily "cyclic_coxeter" [4] = some d ∧ d.gens = [[1, 0, 2, 3], [0, 2, 1, 3], [0, 1, 3, 2], [3, 1, 2, 0]] ∧
    d.names = ["(0,1)", "(1,2)", "(2,3)", "(0,3)"] ∧
    d.central = [0, 1, 2, 3] ∧ d.name = "cyclic_coxeter-4" :=
  ⟨_, rfl, by decide, by decide, by decide, by decide⟩

theorem cyclic_coxeter_inverse_closed (n : Nat) (d : PermDef)
    (h : permFamily "cyclic_coxeter" [n] = some d) : d.inverseClosed = true := by
  exact Cv.Families.cyclic_coxeter_inverse_closed n d h
example : (permFamily "cyclic_coxeter" [4]).isSome = true := by decide

theorem cyclic_coxeter_defined_iff (n : Nat) : (permFamily "cyclic_coxeter" [n]).isSome ↔ 2 ≤ n := by
  exact Cv.Families.cyclic_coxeter_defined_iff n
example : (permFamily "cyclic_coxeter" [4]).isSome = true ∧ (permFamily "cyclic_coxeter" [1]).isSome = false := by decide

theorem stars_valid (n : Nat) (d : PermDef) (h : permFamily "stars" [n] = some d) :
    (∀ p ∈ d.gens, IsPermOf n p) ∧ d.central = List.range n ∧ d.names.length = d.gens.length := by
  exact Cv.Families.stars_valid n d h
example : (permFamily "stars" [4]).isSome = true := by decide

theorem stars_count (n : Nat) (d : PermDef) (h : permFamily "stars" [n] = some d) :
    d.gens.length = n - 1 := by
  exact Cv.Families.stars_count n d h
example : (permFamily "stars" [4]).isSome = true := by decide

/-- generator number `i-1` is the transposition `(0, i)`, named `S<i>` -/
theorem stars_structure (n : Nat) (d : PermDef) (h : permFamily "stars" [n] = some d) :
    ∀ i, 1 ≤ i → i < n →
      d.gens[i - 1]? = transposition n 0 i ∧ d.names[i - 1]? = some ("S" ++ toString i) := by
  exact Cv.Families.stars_structure n d h
example : ∃ d, permFamily "stars" [4] = some d ∧ d.gens = [[1, 0, 2, 3], [2, 1, 0, 3], [3, 1, 2, 0]] ∧
    d.names = ["S1", "S2", "S3"] ∧
    d.central = [0, 1, 2, 3] ∧ d.name = "stars-4" :=
  ⟨_, rfl, by decide, by decide, by decide, by decide⟩

theorem stars_inverse_closed (n : Nat) (d : PermDef) (h : permFamily "stars" [n] = some d) :
    d.inverseClosed = true := by
  exact Cv.Families.stars_inverse_closed n d h
example : (permFamily "stars" [4]).isSome = true := by decide

theorem stars_defined_iff (n : Nat) : (permFamily "stars" [n]).isSome ↔ 3 ≤ n := by
  exact Cv.Families.stars_defined_iff n
example : (permFamily "stars" [4]).isSome = true ∧ (permFamily "stars" [2]).isSome = false := by decide

theorem generalized_stars_valid (n k : Nat) (d : PermDef)
    (h : permFamily "generalized_stars" [n, k] = some d) :
    (∀ p ∈ d.gens, IsPermOf n p) ∧ d.central = List.range n ∧ d.names.length = d.gens.length := by
  exact Cv.Families.generalized_stars_valid n k d h
example : (permFamily "generalized_stars" [5, 2]).isSome = true := by decide

theorem generalized_stars_count (n k : Nat) (d : PermDef)
    (h : permFamily "generalized_stars" [n, k] = some d) : d.gens.length = k * (n - k) := by
  exact Cv.Families.generalized_stars_count n k d h
example : (permFamily "generalized_stars" [5, 2]).isSome = true := by decide

/-- the generators are the transpositions `(i j)`, `i < k ≤ j < n`, named `S<i>-<j>` -/
theorem generalized_stars_structure (n k : Nat) (d : PermDef)
    (h : permFamily "generalized_stars" [n, k] = some d) :
    d.gens.map some = (pairsSplit n k).map (fun x => transposition n x.1 x.2) ∧
    d.names = (pairsSplit n k).map (fun x => "S" ++ toString x.1 ++ "-" ++ toString x.2) ∧
    ∀ i j, (i, j) ∈ pairsSplit n k ↔ i < k ∧ k ≤ j ∧ j < n := by
  exact Cv.Families.generalized_stars_structure n k d h
example : ∃ d, permFamily "generalized_stars" [5, 2] = some d ∧ d.gens = [[2, 1, 0, 3, 4], [3, 1, 2, 0, 4], [4, 1, 2, 3, 0], [0, 2, 1, 3, 4], [0, 3, 2, 1, 4], [0, 4, 2, 3, 1]] ∧
    d.names = ["S0-2", "S0-3", "S0-4", "S1-2", "S1-3", "S1-4"] ∧
    d.central = [0, 1, 2, 3, 4] ∧ d.name = "generalized-stars-5-2" :=
  ⟨_, rfl, by decide, by decide, by decide, by decide⟩

theorem generalized_stars_inverse_closed (n k : Nat) (d : PermDef)
    (h : permFamily "generalized_stars" [n, k] = some d) : d.inverseClosed = true := by
  exact Cv.Families.generalized_stars_inverse_closed n k d h
example : (permFamily "generalized_stars" [5, 2]).isSome = true := by decide

theorem generalized_stars_defined_iff (n k : Nat) :
    (permFamily "generalized_stars" [n, k]).isSome ↔ 3 ≤ n ∧ 1 ≤ k ∧ k < n := by
  exact Cv.Families.generalized_stars_defined_iff n k
example : (permFamily "generalized_stars" [5, 2]).isSome = true ∧ (permFamily "generalized_stars" [5, 5]).isSome = false := by decide

theorem all_transpositions_valid (n : Nat) (d : PermDef)
    (h : permFamily "all_transpositions" [n] = some d) :
    (∀ p ∈ d.gens, IsPermOf n p) ∧ d.central = List.range n ∧ d.names.length = d.gens.length := by
  exact Cv.Families.all_transpositions_valid n d h
example : (permFamily "all_transpositions" [4]).isSome = true := by decide

/-- `n(n-1)/2` generators -/
theorem all_transpositions_count (n : Nat) (d : PermDef)
    (h : permFamily "all_transpositions" [n] = some d) : 2 * d.gens.length = n * (n - 1) := by
  exact Cv.Families.all_transpositions_count n d h
example : (permFamily "all_transpositions" [4]).isSome = true := by decide

/-- the generators are the transpositions `(i j)`, `i < j < n`, in lexicographic order, named `(i,j)` -/
theorem all_transpositions_structure (n : Nat) (d : PermDef)
    (h : permFamily "all_transpositions" [n] = some d) :
    d.gens.map some = (pairsLt n).map (fun x => transposition n x.1 x.2) ∧
    d.names = (pairsLt n).map (fun x => "(" ++ toString x.1 ++ "," ++ toString x.2 ++ ")") ∧
    ∀ i j, (i, j) ∈ pairsLt n ↔ i < j ∧ j < n := by
  exact Cv.Families.all_transpositions_structure n d h
example : ∃ d, permFamily "all_transpositions" [4] = some d ∧ d.gens = [[1, 0, 2, 3], [2, 1, 0, 3], [3, 1, 2, 0], [0, 2, 1, 3], [0, 3, 2, 1], [0, 1, 3, 2]] ∧
    d.names = ["(0,1)", "(0,2)", "(0,3)", "(1,2)", "(1,3)", "(2,3)"] ∧
    d.central = [0, 1, 2, 3] ∧ d.name = "" :=
  ⟨_, rfl, by decide, by decide, by decide, by decide⟩

theorem all_transpositions_inverse_closed (n : Nat) (d : PermDef)
    (h : permFamily "all_transpositions" [n] = some d) : d.inverseClosed = true := by
  exact Cv.Families.all_transpositions_inverse_closed n d h
example : (permFamily "all_transpositions" [4]).isSome = true := by decide

theorem all_transpositions_defined_iff (n : Nat) :
    (permFamily "all_transpositions" [n]).isSome ↔ 2 ≤ n := by
  exact Cv.Families.all_transpositions_defined_iff n
example : (permFamily "all_transpositions" [4]).isSome = true ∧ (permFamily "all_transpositions" [1]).isSome = false := by decide

theorem full_reversals_valid (n : Nat) (d : PermDef) (h : permFamily "full_reversals" [n] = some d) :
    (∀ p ∈ d.gens, IsPermOf n p) ∧ d.central = List.range n ∧ d.names.length = d.gens.length := by
  exact Cv.Families.full_reversals_valid n d h
example : (permFamily "full_reversals" [4]).isSome = true := by decide

/-- `n(n-1)/2` generators -/
theorem full_reversals_count (n : Nat) (d : PermDef) (h : permFamily "full_reversals" [n] = some d) :
    2 * d.gens.length = n * (n - 1) := by
  exact Cv.Families.full_reversals_count n d h
example : (permFamily "full_reversals" [4]).isSome = true := by decide

/-- the generators are the reversals of the substrings `i..j`, `i < j < n` (lexicographic order),
named `R[i..j]` -/
theorem full_reversals_structure (n : Nat) (d : PermDef)
    (h : permFamily "full_reversals" [n] = some d) :
    d.gens = (pairsLt n).map (fun x =>
      List.range x.1 ++ (List.range' x.1 (x.2 + 1 - x.1)).reverse ++ List.range' (x.2 + 1) (n - (x.2 + 1))) ∧
    d.names = (pairsLt n).map (fun x => "R[" ++ toString x.1 ++ ".." ++ toString x.2 ++ "]") ∧
    (∀ i j, (i, j) ∈ pairsLt n ↔ i < j ∧ j < n) ∧
    ∀ i j, i < j → j < n → ∀ x : List Nat, x.length = n →
      apply (List.range i ++ (List.range' i (j + 1 - i)).reverse ++ List.range' (j + 1) (n - (j + 1))) x =
        x.take i ++ ((x.drop i).take (j + 1 - i)).reverse ++ x.drop (j + 1) := by
  exact Cv.Families.full_reversals_structure n d h
example : ∃ d, permFamily "full_reversals" [4] = some d ∧ d.gens = [[1, 0, 2, 3], [2, 1, 0, 3], [3, 2, 1, 0], [0, 2, 1, 3], [0, 3, 2, 1], [0, 1, 3, 2]] ∧
    d.names = ["R[0..1]", "R[0..2]", "R[0..3]", "R[1..2]", "R[1..3]", "R[2..3]"] ∧
    d.central = [0, 1, 2, 3] ∧ d.name = "" :=
  ⟨_, rfl, by decide, by decide, by decide, by decide⟩

theorem full_reversals_inverse_closed (n : Nat) (d : PermDef)
    (h : permFamily "full_reversals" [n] = some d) : d.inverseClosed = true := by
  exact Cv.Families.full_reversals_inverse_closed n d h
example : (permFamily "full_reversals" [4]).isSome = true := by decide

theorem full_reversals_defined_iff (n : Nat) : (permFamily "full_reversals" [n]).isSome ↔ 2 ≤ n := by
  exact Cv.Families.full_reversals_defined_iff n
example : (permFamily "full_reversals" [4]).isSome = true ∧ (permFamily "full_reversals" [1]).isSome = false := by decide

theorem signed_reversals_valid (n : Nat) (d : PermDef)
    (h : permFamily "signed_reversals" [n] = some d) :
    (∀ p ∈ d.gens, IsPermOf (2 * n) p) ∧ d.central = List.range (2 * n) ∧
      d.names.length = d.gens.length := by
  exact Cv.Families.signed_reversals_valid n d h
example : (permFamily "signed_reversals" [3]).isSome = true := by decide

/-- `n(n+1)/2` generators -/
theorem signed_reversals_count (n : Nat) (d : PermDef)
    (h : permFamily "signed_reversals" [n] = some d) : 2 * d.gens.length = n * (n + 1) := by
  exact Cv.Families.signed_reversals_count n d h
example : (permFamily "signed_reversals" [3]).isSome = true := by decide

theorem signed_reversals_structure (n : Nat) (d : PermDef)
    (h : permFamily "signed_reversals" [n] = some d) :
    d.gens = (pairsLe n).map (fun x =>
      List.range x.1 ++ (List.range' (n + x.1) (x.2 + 1 - x.1)).reverse ++
      List.range' (x.2 + 1) (n - (x.2 + 1)) ++ List.range' n x.1 ++
      (List.range' x.1 (x.2 + 1 - x.1)).reverse ++ List.range' (n + x.2 + 1) (n - (x.2 + 1))) ∧
    d.names = (pairsLe n).map (fun x => "R[" ++ toString x.1 ++ ".." ++ toString x.2 ++ "]") ∧
    (∀ i j, (i, j) ∈ pairsLe n ↔ i ≤ j ∧ j < n) ∧
    ∀ i j, i ≤ j → j < n → ∀ B T : List Nat, B.length = n → T.length = n →
      apply (oneLine (2 * n) (signedRevFn n i j)) (B ++ T) =
        (B.take i ++ ((T.drop i).take (j + 1 - i)).reverse ++ B.drop (j + 1)) ++
        (T.take i ++ ((B.drop i).take (j + 1 - i)).reverse ++ T.drop (j + 1)) := by
  exact Cv.Families.signed_reversals_structure n d h
example : ∃ d, permFamily "signed_reversals" [3] = some d ∧ d.gens = [[3, 1, 2, 0, 4, 5], [4, 3, 2, 1, 0, 5], [5, 4, 3, 2, 1, 0], [0, 4, 2, 3, 1, 5], [0, 5, 4, 3, 2, 1], [0, 1, 5, 3, 4, 2]] ∧
    d.names = ["R[0..0]", "R[0..1]", "R[0..2]", "R[1..1]", "R[1..2]", "R[2..2]"] ∧
    d.central = [0, 1, 2, 3, 4, 5] ∧ d.name = "" :=
  ⟨_, rfl, by decide, by decide, by decide, by decide⟩

theorem signed_reversals_inverse_closed (n : Nat) (d : PermDef)
    (h : permFamily "signed_reversals" [n] = some d) : d.inverseClosed = true := by
  exact Cv.Families.signed_reversals_inverse_closed n d h
example : (permFamily "signed_reversals" [3]).isSome = true := by decide

theorem signed_reversals_defined_iff (n : Nat) :
    (permFamily "signed_reversals" [n]).isSome ↔ 1 ≤ n := by
  exact Cv.Families.signed_reversals_defined_iff n
example : (permFamily "signed_reversals" [3]).isSome = true ∧ (permFamily "signed_reversals" [0]).isSome = false := by decide

theorem burnt_pancake_valid (n : Nat) (d : PermDef) (h : permFamily "burnt_pancake" [n] = some d) :
    (∀ p ∈ d.gens, IsPermOf (2 * n) p) ∧ d.central = List.range (2 * n) ∧
      d.names.length = d.gens.length := by
  exact Cv.Families.burnt_pancake_valid n d h
example : (permFamily "burnt_pancake" [3]).isSome = true := by decide

theorem burnt_pancake_count (n : Nat) (d : PermDef) (h : permFamily "burnt_pancake" [n] = some d) :
    d.gens.length = n := by
  exact Cv.Families.burnt_pancake_count n d h
example : (permFamily "burnt_pancake" [3]).isSome = true := by decide

/-- generator `t` (named `R<t+1>`) reverses the top `t+1` pancakes and turns each of them over -/
theorem burnt_pancake_structure (n : Nat) (d : PermDef)
    (h : permFamily "burnt_pancake" [n] = some d) :
    ∀ t, t < n →
      d.gens[t]? = some ((List.range' n (t + 1)).reverse ++ List.range' (t + 1) (n - (t + 1)) ++
        (List.range (t + 1)).reverse ++ List.range' (n + t + 1) (n - (t + 1))) ∧
      d.names[t]? = some ("R" ++ toString (t + 1)) ∧
      ∀ B T : List Nat, B.length = n → T.length = n →
        (d.gens[t]?.map fun g => apply g (B ++ T)) =
          some (((T.take (t + 1)).reverse ++ B.drop (t + 1)) ++ ((B.take (t + 1)).reverse ++ T.drop (t + 1))) := by
  exact Cv.Families.burnt_pancake_structure n d h
example : ∃ d, permFamily "burnt_pancake" [3] = some d ∧ d.gens = [[3, 1, 2, 0, 4, 5], [4, 3, 2, 1, 0, 5], [5, 4, 3, 2, 1, 0]] ∧
    d.names = ["R1", "R2", "R3"] ∧
    d.central = [0, 1, 2, 3, 4, 5] ∧ d.name = "burnt_pancake-3" :=
  ⟨_, rfl, by decide, by decide, by decide, by decide⟩

theorem burnt_pancake_inverse_closed (n : Nat) (d : PermDef)
    (h : permFamily "burnt_pancake" [n] = some d) : d.inverseClosed = true := by
  exact Cv.Families.burnt_pancake_inverse_closed n d h
example : (permFamily "burnt_pancake" [3]).isSome = true := by decide

theorem burnt_pancake_defined_iff (n : Nat) : (permFamily "burnt_pancake" [n]).isSome ↔ 1 ≤ n := by
  exact Cv.Families.burnt_pancake_defined_iff n
example : (permFamily "burnt_pancake" [3]).isSome = true ∧ (permFamily "burnt_pancake" [0]).isSome = false := by decide

theorem transposons_valid (n : Nat) (d : PermDef) (h : permFamily "transposons" [n] = some d) :
    (∀ p ∈ d.gens, IsPermOf n p) ∧ d.central = List.range n ∧ d.names.length = d.gens.length := by
  exact Cv.Families.transposons_valid n d h
example : (permFamily "transposons" [4]).isSome = true := by decide

/-- the generators are the moves "substring `i..j-1` behind substring `j..k`" for all
`i < j ≤ k < n` (lexicographic order), named `T[i..j-1,k]` -/
theorem transposons_structure (n : Nat) (d : PermDef) (h : permFamily "transposons" [n] = some d) :
    d.gens = (triplesT n).map (fun x =>
      List.range x.1 ++ List.range' x.2.1 (x.2.2 + 1 - x.2.1) ++ List.range' x.1 (x.2.1 - x.1) ++
      List.range' (x.2.2 + 1) (n - (x.2.2 + 1))) ∧
    d.names = (triplesT n).map (fun x =>
      "T[" ++ toString x.1 ++ ".." ++ toString (x.2.1 - 1) ++ "," ++ toString x.2.2 ++ "]") ∧
    (∀ i j k, (i, j, k) ∈ triplesT n ↔ i < j ∧ j ≤ k ∧ k < n) ∧
    ∀ i j k, i < j → j ≤ k → k < n → ∀ x : List Nat, x.length = n →
      apply (List.range i ++ List.range' j (k + 1 - j) ++ List.range' i (j - i) ++
          List.range' (k + 1) (n - (k + 1))) x =
        x.take i ++ (x.drop j).take (k + 1 - j) ++ (x.drop i).take (j - i) ++ x.drop (k + 1) := by
  exact Cv.Families.transposons_structure n d h
example : ∃ d, permFamily "transposons" [4] = some d ∧ d.gens = [[1, 0, 2, 3], [1, 2, 0, 3], [1, 2, 3, 0], [2, 0, 1, 3], [2, 3, 0, 1], [3, 0, 1, 2], [0, 2, 1, 3], [0, 2, 3, 1], [0, 3, 1, 2], [0, 1, 3, 2]] ∧
    d.names = ["T[0..0,1]", "T[0..0,2]", "T[0..0,3]", "T[0..1,2]", "T[0..1,3]", "T[0..2,3]", "T[1..1,2]", "T[1..1,3]", "T[1..2,3]", "T[2..2,3]"] ∧
    d.central = [0, 1, 2, 3] ∧ d.name = "" :=
  ⟨_, rfl, by decide, by decide, by decide, by decide⟩

/-- inverse-closed: moving `i..j-1` behind `j..k` is undone by moving the (new) first block back -/
theorem transposons_inverse_closed (n : Nat) (d : PermDef)
    (h : permFamily "transposons" [n] = some d) : d.inverseClosed = true := by
  exact Cv.Families.transposons_inverse_closed n d h
example : (permFamily "transposons" [4]).isSome = true := by decide

theorem transposons_defined_iff (n : Nat) : (permFamily "transposons" [n]).isSome ↔ 2 ≤ n := by
  exact Cv.Families.transposons_defined_iff n
example : (permFamily "transposons" [4]).isSome = true ∧ (permFamily "transposons" [1]).isSome = false := by decide

theorem block_interchange_valid (n : Nat) (d : PermDef)
    (h : permFamily "block_interchange" [n] = some d) :
    (∀ p ∈ d.gens, IsPermOf n p) ∧ d.central = List.range n ∧ d.names.length = d.gens.length := by
  exact Cv.Families.block_interchange_valid n d h
example : (permFamily "block_interchange" [4]).isSome = true := by decide

/-- the generators interchange the substrings `i..j-1` and `k..l-1` for all `i < j ≤ k < l ≤ n`
(lexicographic order), named `I[i..j-1,k..l-1]` -/
theorem block_interchange_structure (n : Nat) (d : PermDef)
    (h : permFamily "block_interchange" [n] = some d) :
    d.gens = (quadsI n).map (fun x =>
      List.range x.1 ++ List.range' x.2.2.1 (x.2.2.2 - x.2.2.1) ++ List.range' x.2.1 (x.2.2.1 - x.2.1) ++
      List.range' x.1 (x.2.1 - x.1) ++ List.range' x.2.2.2 (n - x.2.2.2)) ∧
    d.names = (quadsI n).map (fun x =>
      "I[" ++ toString x.1 ++ ".." ++ toString (x.2.1 - 1) ++ "," ++ toString x.2.2.1 ++ ".." ++
        toString (x.2.2.2 - 1) ++ "]") ∧
    (∀ i j k l, (i, j, k, l) ∈ quadsI n ↔ i < j ∧ j ≤ k ∧ k < l ∧ l ≤ n) ∧
    ∀ i j k l, i < j → j ≤ k → k < l → l ≤ n → ∀ x : List Nat, x.length = n →
      apply (List.range i ++ List.range' k (l - k) ++ List.range' j (k - j) ++ List.range' i (j - i) ++
          List.range' l (n - l)) x =
        x.take i ++ (x.drop k).take (l - k) ++ (x.drop j).take (k - j) ++ (x.drop i).take (j - i) ++
          x.drop l := by
  exact Cv.Families.block_interchange_structure n d h
example : ∃ d, permFamily "block_interchange" [4] = some d ∧ d.gens = [[1, 0, 2, 3], [1, 2, 0, 3], [1, 2, 3, 0], [2, 1, 0, 3], [2, 3, 1, 0], [3, 1, 2, 0], [2, 0, 1, 3], [2, 3, 0, 1], [3, 2, 0, 1], [3, 0, 1, 2], [0, 2, 1, 3], [0, 2, 3, 1], [0, 3, 2, 1], [0, 3, 1, 2], [0, 1, 3, 2]] ∧
    d.names = ["I[0..0,1..1]", "I[0..0,1..2]", "I[0..0,1..3]", "I[0..0,2..2]", "I[0..0,2..3]", "I[0..0,3..3]", "I[0..1,2..2]", "I[0..1,2..3]", "I[0..1,3..3]", "I[0..2,3..3]", "I[1..1,2..2]", "I[1..1,2..3]", "I[1..1,3..3]", "I[1..2,3..3]", "I[2..2,3..3]"] ∧
    d.central = [0, 1, 2, 3] ∧ d.name = "" :=
  ⟨_, rfl, by decide, by decide, by decide, by decide⟩

theorem block_interchange_inverse_closed (n : Nat) (d : PermDef)
    (h : permFamily "block_interchange" [n] = some d) : d.inverseClosed = true := by
  exact Cv.Families.block_interchange_inverse_closed n d h
example : (permFamily "block_interchange" [4]).isSome = true := by decide

theorem block_interchange_defined_iff (n : Nat) :
    (permFamily "block_interchange" [n]).isSome ↔ 2 ≤ n := by
  exact Cv.Families.block_interchange_defined_iff n
example : (permFamily "block_interchange" [4]).isSome = true ∧ (permFamily "block_interchange" [1]).isSome = false := by decide

theorem cubic_pancake_valid (n s : Nat) (d : PermDef)
    (h : permFamily "cubic_pancake" [n, s] = some d) :
    (∀ p ∈ d.gens, IsPermOf n p) ∧ d.central = List.range n ∧ d.names.length = d.gens.length := by
  exact Cv.Families.cubic_pancake_valid n s d h
example : (permFamily "cubic_pancake" [5, 4]).isSome = true := by decide

theorem cubic_pancake_count (n s : Nat) (d : PermDef)
    (h : permFamily "cubic_pancake" [n, s] = some d) : d.gens.length = 3 := by
  exact Cv.Families.cubic_pancake_count n s d h
example : (permFamily "cubic_pancake" [5, 4]).isSome = true := by decide

/-- the three generators are the prefix reversals of the lengths listed in the docstring table
(`cubicLengths`), named `R<length>`; here `R<i>` reverses the first `i` entries -/
theorem cubic_pancake_structure (n s : Nat) (d : PermDef)
    (h : permFamily "cubic_pancake" [n, s] = some d) :
    ∃ ls : List Nat, cubicLengths n s = some (ls.map Int.ofNat) ∧ ls.length = 3 ∧ (∀ l ∈ ls, l ≤ n) ∧
      d.gens = ls.map (fun l => (List.range l).reverse ++ List.range' l (n - l)) ∧
      d.names = ls.map (fun l => "R" ++ toString l) ∧
      ∀ l ∈ ls, ∀ x : List Nat, x.length = n →
        apply ((List.range l).reverse ++ List.range' l (n - l)) x = (x.take l).reverse ++ x.drop l := by
  exact Cv.Families.cubic_pancake_structure n s d h
example : ∃ d, permFamily "cubic_pancake" [5, 4] = some d ∧ d.gens = [[4, 3, 2, 1, 0], [3, 2, 1, 0, 4], [1, 0, 2, 3, 4]] ∧
    d.names = ["R5", "R4", "R2"] ∧
    d.central = [0, 1, 2, 3, 4] ∧ d.name = "cubic_pancake-5-4" :=
  ⟨_, rfl, by decide, by decide, by decide, by decide⟩

theorem cubic_pancake_inverse_closed (n s : Nat) (d : PermDef)
    (h : permFamily "cubic_pancake" [n, s] = some d) : d.inverseClosed = true := by
  exact Cv.Families.cubic_pancake_inverse_closed n s d h
example : (permFamily "cubic_pancake" [5, 4]).isSome = true := by decide

/-- the library returns a definition for `n ≥ 2`, `subset ∈ 1..7`, EXCEPT for `n = 2` and
`subset ∈ {2, 4, 6, 7}` (the docstring promises all `n ≥ 2`): there a requested prefix length
(`3` or `n-3 = -1`) does not exist and `CayleyGraphDef.create` rejects the generator. -/
theorem cubic_pancake_defined_iff (n s : Nat) :
    (permFamily "cubic_pancake" [n, s]).isSome ↔
      2 ≤ n ∧ 1 ≤ s ∧ s ≤ 7 ∧ (n = 2 → s = 1 ∨ s = 3 ∨ s = 5) := by
  exact Cv.Families.cubic_pancake_defined_iff n s
example : (permFamily "cubic_pancake" [5, 4]).isSome = true ∧ (permFamily "cubic_pancake" [2, 4]).isSome = false := by decide

theorem consecutive_k_cycles_valid (n k : Nat) (d : PermDef)
    (h : permFamily "consecutive_k_cycles" [n, k] = some d) :
    (∀ p ∈ d.gens, IsPermOf n p) ∧ d.central = List.range n ∧ d.names.length = d.gens.length := by
  exact Cv.Families.consecutive_k_cycles_valid n k d h
example : (permFamily "consecutive_k_cycles" [5, 3]).isSome = true := by decide

theorem consecutive_k_cycles_count (n k : Nat) (d : PermDef)
    (h : permFamily "consecutive_k_cycles" [n, k] = some d) : d.gens.length = n - k + 1 := by
  exact Cv.Families.consecutive_k_cycles_count n k d h
example : (permFamily "consecutive_k_cycles" [5, 3]).isSome = true := by decide

/-- generator `i` is the cycle `(i, i+1, …, i+k-1)` (as built by `permutation_from_cycles`), named
`"(i,i+1,…,i+k-1)"`; it rotates the entries `i..i+k-1` of a sequence one step to the left -/
theorem consecutive_k_cycles_structure (n k : Nat) (d : PermDef)
    (h : permFamily "consecutive_k_cycles" [n, k] = some d) :
    ∀ i, i + k ≤ n →
      d.gens[i]? = fromCycles n [(List.range' i k).map Int.ofNat] ∧
      d.names[i]? = some ("(" ++ ",".intercalate ((List.range' i k).map toString) ++ ")") ∧
      ∀ x : List Nat, x.length = n →
        (d.gens[i]?.map fun g => apply g x) =
          some (x.take i ++ (x.drop (i + 1)).take (k - 1) ++ [x.getD i 0] ++ x.drop (i + k)) := by
  exact Cv.Families.consecutive_k_cycles_structure n k d h
example : ∃ d, permFamily "consecutive_k_cycles" [5, 3] = some d ∧ d.gens = [[1, 2, 0, 3, 4], [0, 2, 3, 1, 4], [0, 1, 3, 4, 2]] ∧
    d.names = ["(0,1,2)", "(1,2,3)", "(2,3,4)"] ∧
    d.central = [0, 1, 2, 3, 4] ∧ d.name = "consecutive_k_cycles-5-3" :=
  ⟨_, rfl, by decide, by decide, by decide, by decide⟩

/-- inverse-closed exactly for `k ≤ 2` (identity / adjacent transpositions) -/
theorem consecutive_k_cycles_inverse_closed (n k : Nat) (d : PermDef)
    (h : permFamily "consecutive_k_cycles" [n, k] = some d) : d.inverseClosed = decide (k ≤ 2) := by
  exact Cv.Families.consecutive_k_cycles_inverse_closed n k d h
example : (permFamily "consecutive_k_cycles" [5, 3]).isSome = true := by decide

theorem consecutive_k_cycles_defined_iff (n k : Nat) :
    (permFamily "consecutive_k_cycles" [n, k]).isSome ↔ 1 ≤ n ∧ 1 ≤ k ∧ k ≤ n := by
  exact Cv.Families.consecutive_k_cycles_defined_iff n k
example : (permFamily "consecutive_k_cycles" [5, 3]).isSome = true ∧ (permFamily "consecutive_k_cycles" [3, 4]).isSome = false := by decide

theorem down_cycles_valid (n : Nat) (d : PermDef) (h : permFamily "down_cycles" [n] = some d) :
    (∀ p ∈ d.gens, IsPermOf n p) ∧ d.central = List.range n ∧ d.names.length = d.gens.length := by
  exact Cv.Families.down_cycles_valid n d h
example : (permFamily "down_cycles" [4]).isSome = true := by decide

theorem down_cycles_count (n : Nat) (d : PermDef) (h : permFamily "down_cycles" [n] = some d) :
    2 * d.gens.length = n * (n - 1) := by
  exact Cv.Families.down_cycles_count n d h
example : (permFamily "down_cycles" [4]).isSome = true := by decide

/-- the generators are the cycles `(i, i+1, …, j)`, `i < j < n` (lexicographic order) -/
theorem down_cycles_structure (n : Nat) (d : PermDef) (h : permFamily "down_cycles" [n] = some d) :
    d.gens.map some =
      (pairsLt n).map (fun x => fromCycles n [(List.range' x.1 (x.2 + 1 - x.1)).map Int.ofNat]) ∧
    d.names = (pairsLt n).map (fun x =>
      "(" ++ ",".intercalate ((List.range' x.1 (x.2 + 1 - x.1)).map toString) ++ ")") ∧
    ∀ i j, (i, j) ∈ pairsLt n ↔ i < j ∧ j < n := by
  exact Cv.Families.down_cycles_structure n d h
example : ∃ d, permFamily "down_cycles" [4] = some d ∧ d.gens = [[1, 0, 2, 3], [1, 2, 0, 3], [1, 2, 3, 0], [0, 2, 1, 3], [0, 2, 3, 1], [0, 1, 3, 2]] ∧
    d.names = ["(0,1)", "(0,1,2)", "(0,1,2,3)", "(1,2)", "(1,2,3)", "(2,3)"] ∧
    d.central = [0, 1, 2, 3] ∧ d.name = "down_cycles-4" :=
  ⟨_, rfl, by decide, by decide, by decide, by decide⟩

/-- inverse-closed only for `n = 2` -/
theorem down_cycles_inverse_closed (n : Nat) (d : PermDef)
    (h : permFamily "down_cycles" [n] = some d) : d.inverseClosed = decide (n = 2) := by
  exact Cv.Families.down_cycles_inverse_closed n d h
example : (permFamily "down_cycles" [4]).isSome = true := by decide

theorem down_cycles_defined_iff (n : Nat) : (permFamily "down_cycles" [n]).isSome ↔ 2 ≤ n := by
  exact Cv.Families.down_cycles_defined_iff n
example : (permFamily "down_cycles" [4]).isSome = true ∧ (permFamily "down_cycles" [1]).isSome = false := by decide

theorem prefix_cycles_valid (n : Nat) (d : PermDef) (h : permFamily "prefix_cycles" [n] = some d) :
    (∀ p ∈ d.gens, IsPermOf n p) ∧ d.central = List.range n ∧ d.names.length = d.gens.length := by
  exact Cv.Families.prefix_cycles_valid n d h
example : (permFamily "prefix_cycles" [4]).isSome = true := by decide

theorem prefix_cycles_count (n : Nat) (d : PermDef) (h : permFamily "prefix_cycles" [n] = some d) :
    d.gens.length = n - 1 := by
  exact Cv.Families.prefix_cycles_count n d h
example : (permFamily "prefix_cycles" [4]).isSome = true := by decide

/-- generator number `j-2` is the cycle `(0 1 … j-1)`, `j = 2..n` -/
theorem prefix_cycles_structure (n : Nat) (d : PermDef)
    (h : permFamily "prefix_cycles" [n] = some d) :
    ∀ j, 2 ≤ j → j ≤ n →
      d.gens[j - 2]? = fromCycles n [(List.range j).map Int.ofNat] ∧
      d.names[j - 2]? = some ("(" ++ ",".intercalate ((List.range j).map toString) ++ ")") := by
  exact Cv.Families.prefix_cycles_structure n d h
example : ∃ d, permFamily "prefix_cycles" [4] = some d ∧ d.gens = [[1, 0, 2, 3], [1, 2, 0, 3], [1, 2, 3, 0]] ∧
    d.names = ["(0,1)", "(0,1,2)", "(0,1,2,3)"] ∧
    d.central = [0, 1, 2, 3] ∧ d.name = "prefix_cycles-4" :=
  ⟨_, rfl, by decide, by decide, by decide, by decide⟩

/-- inverse-closed only for `n = 2` -/
theorem prefix_cycles_inverse_closed (n : Nat) (d : PermDef)
    (h : permFamily "prefix_cycles" [n] = some d) : d.inverseClosed = decide (n = 2) := by
  exact Cv.Families.prefix_cycles_inverse_closed n d h
example : (permFamily "prefix_cycles" [4]).isSome = true := by decide

theorem prefix_cycles_defined_iff (n : Nat) : (permFamily "prefix_cycles" [n]).isSome ↔ 2 ≤ n := by
  exact Cv.Families.prefix_cycles_defined_iff n
example : (permFamily "prefix_cycles" [4]).isSome = true ∧ (permFamily "prefix_cycles" [1]).isSome = false := by decide

theorem wrapped_k_cycles_valid (n k : Nat) (d : PermDef)
    (h : permFamily "wrapped_k_cycles" [n, k] = some d) :
    (∀ p ∈ d.gens, IsPermOf n p) ∧ d.central = List.range n ∧ d.names.length = d.gens.length := by
  exact Cv.Families.wrapped_k_cycles_valid n k d h
example : (permFamily "wrapped_k_cycles" [5, 3]).isSome = true := by decide

theorem wrapped_k_cycles_count (n k : Nat) (d : PermDef)
    (h : permFamily "wrapped_k_cycles" [n, k] = some d) : d.gens.length = n := by
  exact Cv.Families.wrapped_k_cycles_count n k d h
example : (permFamily "wrapped_k_cycles" [5, 3]).isSome = true := by decide

/-- generator `s` is the cycle `(s, s+1, …, s+k-1)` with entries modulo `n`, named by its entries
separated by blanks -/
theorem wrapped_k_cycles_structure (n k : Nat) (d : PermDef)
    (h : permFamily "wrapped_k_cycles" [n, k] = some d) :
    ∀ s, s < n →
      d.gens[s]? = fromCycles n [((List.range k).map fun j => (s + j) % n).map Int.ofNat] ∧
      d.names[s]? = some ("(" ++ " ".intercalate (((List.range k).map fun j => (s + j) % n).map toString)
        ++ ")") := by
  exact Cv.Families.wrapped_k_cycles_structure n k d h
example : ∃ d, permFamily "wrapped_k_cycles" [5, 3] = some d ∧ d.gens = [[1, 2, 0, 3, 4], [0, 2, 3, 1, 4], [0, 1, 3, 4, 2], [3, 1, 2, 4, 0], [1, 4, 2, 3, 0]] ∧
    d.names = ["(0 1 2)", "(1 2 3)", "(2 3 4)", "(3 4 0)", "(4 0 1)"] ∧
    d.central = [0, 1, 2, 3, 4] ∧ d.name = "wrapped_k_cycles-5-3" :=
  ⟨_, rfl, by decide, by decide, by decide, by decide⟩

/-- inverse-closed exactly for `k = 2` -/
theorem wrapped_k_cycles_inverse_closed (n k : Nat) (d : PermDef)
    (h : permFamily "wrapped_k_cycles" [n, k] = some d) : d.inverseClosed = decide (k = 2) := by
  exact Cv.Families.wrapped_k_cycles_inverse_closed n k d h
example : (permFamily "wrapped_k_cycles" [5, 3]).isSome = true := by decide

theorem wrapped_k_cycles_defined_iff (n k : Nat) :
    (permFamily "wrapped_k_cycles" [n, k]).isSome ↔ 2 ≤ n ∧ 2 ≤ k ∧ k ≤ n := by
  exact Cv.Families.wrapped_k_cycles_defined_iff n k
example : (permFamily "wrapped_k_cycles" [5, 3]).isSome = true ∧ (permFamily "wrapped_k_cycles" [5, 1]).isSome = false := by decide

theorem lsl_cycles_valid (n : Nat) (b : Bool) (d : PermDef)
    (h : permFamily "lsl_cycles" [n] [b] = some d) :
    (∀ p ∈ d.gens, IsPermOf n p) ∧ d.central = List.range n ∧ d.names.length = d.gens.length := by
  exact Cv.Families.lsl_cycles_valid n b d h
example : (permFamily "lsl_cycles" [4] [false]).isSome = true := by decide

theorem lsl_cycles_count (n : Nat) (b : Bool) (d : PermDef)
    (h : permFamily "lsl_cycles" [n] [b] = some d) : d.gens.length = if b then 4 else 2 := by
  exact Cv.Families.lsl_cycles_count n b d h
example : (permFamily "lsl_cycles" [4] [false]).isSome = true := by decide

/-- L = long cycle `(0 1 … n-1)`, S = sub-long cycle `(1 2 … n-1)`; with `add_inverses` their
inverses follow -/
theorem lsl_cycles_structure (n : Nat) (b : Bool) (d : PermDef)
    (h : permFamily "lsl_cycles" [n] [b] = some d) :
    ∃ L S, fromCycles n [(List.range n).map Int.ofNat] = some L ∧
      fromCycles n [(List.range' 1 (n - 1)).map Int.ofNat, [0]] = some S ∧
      d.gens = (if b then [L, S, inverse L, inverse S] else [L, S]) ∧
      d.names = (if b then ["L", "S", "L_inv", "S_inv"] else ["L", "S"]) ∧
      ∀ x : List Nat, x.length = n →
        apply L x = x.drop 1 ++ x.take 1 ∧
        apply S x = x.take 1 ++ (x.drop 2).take (n - 2) ++ [x.getD 1 0] := by
  exact Cv.Families.lsl_cycles_structure n b d h
example : ∃ d, permFamily "lsl_cycles" [4] [false] = some d ∧ d.gens = [[1, 2, 3, 0], [0, 2, 3, 1]] ∧
    d.names = ["L", "S"] ∧
    d.central = [0, 1, 2, 3] ∧ d.name = "lsl_cycles-4" :=
  ⟨_, rfl, by decide, by decide, by decide, by decide⟩

/-- inverse-closed exactly when `add_inverses` -/
theorem lsl_cycles_inverse_closed (n : Nat) (b : Bool) (d : PermDef)
    (h : permFamily "lsl_cycles" [n] [b] = some d) : d.inverseClosed = b := by
  exact Cv.Families.lsl_cycles_inverse_closed n b d h
example : (permFamily "lsl_cycles" [4] [false]).isSome = true := by decide

theorem lsl_cycles_defined_iff (n : Nat) (b : Bool) :
    (permFamily "lsl_cycles" [n] [b]).isSome ↔ 3 ≤ n := by
  exact Cv.Families.lsl_cycles_defined_iff n b
example : (permFamily "lsl_cycles" [4] [false]).isSome = true ∧ (permFamily "lsl_cycles" [2] [true]).isSome = false := by decide

theorem rapaport_m2_valid (n : Nat) (d : PermDef) (h : permFamily "rapaport_m2" [n] = some d) :
    (∀ p ∈ d.gens, IsPermOf n p) ∧ d.central = List.range n ∧ d.names.length = d.gens.length := by
  exact Cv.Families.rapaport_m2_valid n d h
example : (permFamily "rapaport_m2" [5]).isSome = true := by decide

theorem rapaport_m2_count (n : Nat) (d : PermDef) (h : permFamily "rapaport_m2" [n] = some d) :
    d.gens.length = 3 := by
  exact Cv.Families.rapaport_m2_count n d h
example : (permFamily "rapaport_m2" [5]).isSome = true := by decide

/-- `(0,1)`, the product `(0 1)(2 3)…` of all even adjacent transpositions, the product `(1 2)(3 4)…`
of all odd ones -/
theorem rapaport_m2_structure (n : Nat) (d : PermDef) (h : permFamily "rapaport_m2" [n] = some d) :
    ∃ g1 g2 g3, d.gens = [g1, g2, g3] ∧ d.names = ["(0,1)", "EvenDisjTrans", "OddDisjTrans"] ∧
      transposition n 0 1 = some g1 ∧
      (∀ t, 2 * t + 1 < n → g2.getD (2 * t) 0 = 2 * t + 1 ∧ g2.getD (2 * t + 1) 0 = 2 * t) ∧
      (n % 2 = 1 → g2.getD (n - 1) 0 = n - 1) ∧
      (∀ t, 2 * t + 2 < n → g3.getD (2 * t + 1) 0 = 2 * t + 2 ∧ g3.getD (2 * t + 2) 0 = 2 * t + 1) ∧
      g3.getD 0 0 = 0 ∧ (n % 2 = 0 → g3.getD (n - 1) 0 = n - 1) := by
  exact Cv.Families.rapaport_m2_structure n d h
example : ∃ d, permFamily "rapaport_m2" [5] = some d ∧ d.gens = [[1, 0, 2, 3, 4], [1, 0, 3, 2, 4], [0, 2, 1, 4, 3]] ∧
    d.names = ["(0,1)", "EvenDisjTrans", "OddDisjTrans"] ∧
    d.central = [0, 1, 2, 3, 4] ∧ d.name = "rapaport_m2-5" :=
  ⟨_, rfl, by decide, by decide, by decide, by decide⟩

theorem rapaport_m2_inverse_closed (n : Nat) (d : PermDef)
    (h : permFamily "rapaport_m2" [n] = some d) : d.inverseClosed = true := by
  exact Cv.Families.rapaport_m2_inverse_closed n d h
example : (permFamily "rapaport_m2" [5]).isSome = true := by decide

theorem rapaport_m2_defined_iff (n : Nat) : (permFamily "rapaport_m2" [n]).isSome ↔ 2 ≤ n := by
  exact Cv.Families.rapaport_m2_defined_iff n
example : (permFamily "rapaport_m2" [5]).isSome = true ∧ (permFamily "rapaport_m2" [1]).isSome = false := by decide

theorem rapaport_m1_valid (n : Nat) (d : PermDef) (h : permFamily "rapaport_m1" [n] = some d) :
    (∀ p ∈ d.gens, IsPermOf n p) ∧ d.central = List.range n ∧ d.names.length = d.gens.length := by
  exact Cv.Families.rapaport_m1_valid n d h
example : (permFamily "rapaport_m1" [5]).isSome = true := by decide

theorem rapaport_m1_count (n : Nat) (d : PermDef) (h : permFamily "rapaport_m1" [n] = some d) :
    d.gens.length = n - 1 := by
  exact Cv.Families.rapaport_m1_count n d h
example : (permFamily "rapaport_m1" [5]).isSome = true := by decide

/-- generators `M1_0_m = (0 1)(2 3)…(2m-2 2m-1)`, `m = 1..n/2`, followed by
`M1_1_m = (1 2)(3 4)…(2m-1 2m)`, `m = 1..(n-1)/2` -/
theorem rapaport_m1_structure (n : Nat) (d : PermDef) (h : permFamily "rapaport_m1" [n] = some d) :
    (∀ m, 1 ≤ m → 2 * m ≤ n → ∃ g, d.gens[m - 1]? = some g ∧
      d.names[m - 1]? = some ("M1_0_" ++ toString m) ∧
      (∀ t, t < m → g.getD (2 * t) 0 = 2 * t + 1 ∧ g.getD (2 * t + 1) 0 = 2 * t) ∧
      (∀ p, 2 * m ≤ p → p < n → g.getD p 0 = p)) ∧
    (∀ m, 1 ≤ m → 2 * m + 1 ≤ n → ∃ g, d.gens[n / 2 + (m - 1)]? = some g ∧
      d.names[n / 2 + (m - 1)]? = some ("M1_1_" ++ toString m) ∧
      (∀ t, t < m → g.getD (2 * t + 1) 0 = 2 * t + 2 ∧ g.getD (2 * t + 2) 0 = 2 * t + 1) ∧
      g.getD 0 0 = 0 ∧ (∀ p, 2 * m < p → p < n → g.getD p 0 = p)) := by
  exact Cv.Families.rapaport_m1_structure n d h
example : ∃ d, permFamily "rapaport_m1" [5] = some d ∧ d.gens = [[1, 0, 2, 3, 4], [1, 0, 3, 2, 4], [0, 2, 1, 3, 4], [0, 2, 1, 4, 3]] ∧
    d.names = ["M1_0_1", "M1_0_2", "M1_1_1", "M1_1_2"] ∧
    d.central = [0, 1, 2, 3, 4] ∧ d.name = "rapaport_m1-5" :=
  ⟨_, rfl, by decide, by decide, by decide, by decide⟩

theorem rapaport_m1_inverse_closed (n : Nat) (d : PermDef)
    (h : permFamily "rapaport_m1" [n] = some d) : d.inverseClosed = true := by
  exact Cv.Families.rapaport_m1_inverse_closed n d h
example : (permFamily "rapaport_m1" [5]).isSome = true := by decide

/-- no range is documented; the library returns a definition exactly for `n ≥ 2` (for `n ≤ 1` the
generator list is empty and `CayleyGraphDef.create` raises) -/
theorem rapaport_m1_defined_iff (n : Nat) : (permFamily "rapaport_m1" [n]).isSome ↔ 2 ≤ n := by
  exact Cv.Families.rapaport_m1_defined_iff n
example : (permFamily "rapaport_m1" [5]).isSome = true ∧ (permFamily "rapaport_m1" [1]).isSome = false := by decide

theorem larx_valid (n : Nat) (d : PermDef) (h : permFamily "larx" [n] = some d) :
    (∀ p ∈ d.gens, IsPermOf n p) ∧ d.central = List.range n ∧ d.names.length = d.gens.length := by
  exact Cv.Families.larx_valid n d h
example : (permFamily "larx" [5]).isSome = true := by decide

theorem larx_count (n : Nat) (d : PermDef) (h : permFamily "larx" [n] = some d) :
    d.gens.length = 2 := by
  exact Cv.Families.larx_count n d h
example : (permFamily "larx" [5]).isSome = true := by decide

/-- the transposition `(0 1)` and the cycle `(1 2 … n-1)`; the generator names are the one-line
notations `"(1 0 2 …)"`, `"(0 2 3 … 1)"` -/
theorem larx_structure (n : Nat) (d : PermDef) (h : permFamily "larx" [n] = some d) :
    d.gens = [[1, 0] ++ List.range' 2 (n - 2), [0] ++ List.range' 2 (n - 2) ++ [1]] ∧
    d.names = d.gens.map (fun g => "(" ++ " ".intercalate (g.map toString) ++ ")") ∧
    transposition n 0 1 = some ([1, 0] ++ List.range' 2 (n - 2)) ∧
    fromCycles n [(List.range' 1 (n - 1)).map Int.ofNat, [0]] =
      some ([0] ++ List.range' 2 (n - 2) ++ [1]) := by
  exact Cv.Families.larx_structure n d h
example : ∃ d, permFamily "larx" [5] = some d ∧ d.gens = [[1, 0, 2, 3, 4], [0, 2, 3, 4, 1]] ∧
    d.names = ["(1 0 2 3 4)", "(0 2 3 4 1)"] ∧
    d.central = [0, 1, 2, 3, 4] ∧ d.name = "larx-5" :=
  ⟨_, rfl, by decide, by decide, by decide, by decide⟩

/-- inverse-closed exactly for `n ≤ 3` (for `n ≥ 4` the cycle `(1 2 … n-1)` is longer than 2) -/
theorem larx_inverse_closed (n : Nat) (d : PermDef) (h : permFamily "larx" [n] = some d) :
    d.inverseClosed = decide (n ≤ 3) := by
  exact Cv.Families.larx_inverse_closed n d h
example : (permFamily "larx" [5]).isSome = true := by decide

theorem larx_defined_iff (n : Nat) : (permFamily "larx" [n]).isSome ↔ 2 ≤ n := by
  exact Cv.Families.larx_defined_iff n
example : (permFamily "larx" [5]).isSome = true ∧ (permFamily "larx" [1]).isSome = false := by decide

theorem three_cycles_valid (n : Nat) (d : PermDef) (h : permFamily "three_cycles" [n] = some d) :
    (∀ p ∈ d.gens, IsPermOf n p) ∧ d.central = List.range n ∧ d.names.length = d.gens.length := by
  exact Cv.Families.three_cycles_valid n d h
example : (permFamily "three_cycles" [4]).isSome = true := by decide

/-- the generators are the 3-cycles `(a b c)` with `a < b`, `a < c`, `b ≠ c` (lexicographic order),
named `"(a b c)"` -/
theorem three_cycles_structure (n : Nat) (d : PermDef) (h : permFamily "three_cycles" [n] = some d) :
    d.gens.map some = (triplesMinFirst n).map
      (fun x => fromCycles n [[x.1, x.2.1, x.2.2].map Int.ofNat]) ∧
    d.names = (triplesMinFirst n).map
      (fun x => "(" ++ toString x.1 ++ " " ++ toString x.2.1 ++ " " ++ toString x.2.2 ++ ")") ∧
    ∀ a b c, (a, b, c) ∈ triplesMinFirst n ↔ a < b ∧ a < c ∧ b ≠ c ∧ b < n ∧ c < n := by
  exact Cv.Families.three_cycles_structure n d h
example : ∃ d, permFamily "three_cycles" [4] = some d ∧ d.gens = [[1, 2, 0, 3], [1, 3, 2, 0], [2, 0, 1, 3], [2, 1, 3, 0], [3, 0, 2, 1], [3, 1, 0, 2], [0, 2, 3, 1], [0, 3, 1, 2]] ∧
    d.names = ["(0 1 2)", "(0 1 3)", "(0 2 1)", "(0 2 3)", "(0 3 1)", "(0 3 2)", "(1 2 3)", "(1 3 2)"] ∧
    d.central = [0, 1, 2, 3] ∧ d.name = "three_cycles-4" :=
  ⟨_, rfl, by decide, by decide, by decide, by decide⟩

theorem three_cycles_inverse_closed (n : Nat) (d : PermDef)
    (h : permFamily "three_cycles" [n] = some d) : d.inverseClosed = true := by
  exact Cv.Families.three_cycles_inverse_closed n d h
example : (permFamily "three_cycles" [4]).isSome = true := by decide

theorem three_cycles_defined_iff (n : Nat) : (permFamily "three_cycles" [n]).isSome ↔ 3 ≤ n := by
  exact Cv.Families.three_cycles_defined_iff n
example : (permFamily "three_cycles" [4]).isSome = true ∧ (permFamily "three_cycles" [2]).isSome = false := by decide

theorem three_cycles_0ij_valid (n : Nat) (d : PermDef)
    (h : permFamily "three_cycles_0ij" [n] = some d) :
    (∀ p ∈ d.gens, IsPermOf n p) ∧ d.central = List.range n ∧ d.names.length = d.gens.length := by
  exact Cv.Families.three_cycles_0ij_valid n d h
example : (permFamily "three_cycles_0ij" [4]).isSome = true := by decide

/-- the generators are the 3-cycles `(0 i j)`, `1 ≤ i, j < n`, `i ≠ j` (lexicographic order) -/
theorem three_cycles_0ij_structure (n : Nat) (d : PermDef)
    (h : permFamily "three_cycles_0ij" [n] = some d) :
    d.gens.map some = (pairsNe1 n).map (fun x => fromCycles n [[0, x.1, x.2].map Int.ofNat]) ∧
    d.names = (pairsNe1 n).map (fun x => "(0 " ++ toString x.1 ++ " " ++ toString x.2 ++ ")") ∧
    ∀ i j, (i, j) ∈ pairsNe1 n ↔ 1 ≤ i ∧ i < n ∧ 1 ≤ j ∧ j < n ∧ i ≠ j := by
  exact Cv.Families.three_cycles_0ij_structure n d h
example : ∃ d, permFamily "three_cycles_0ij" [4] = some d ∧ d.gens = [[1, 2, 0, 3], [1, 3, 2, 0], [2, 0, 1, 3], [2, 1, 3, 0], [3, 0, 2, 1], [3, 1, 0, 2]] ∧
    d.names = ["(0 1 2)", "(0 1 3)", "(0 2 1)", "(0 2 3)", "(0 3 1)", "(0 3 2)"] ∧
    d.central = [0, 1, 2, 3] ∧ d.name = "three_cycles_0ij-4" :=
  ⟨_, rfl, by decide, by decide, by decide, by decide⟩

theorem three_cycles_0ij_inverse_closed (n : Nat) (d : PermDef)
    (h : permFamily "three_cycles_0ij" [n] = some d) : d.inverseClosed = true := by
  exact Cv.Families.three_cycles_0ij_inverse_closed n d h
example : (permFamily "three_cycles_0ij" [4]).isSome = true := by decide

/-- the docstring says `n ≥ 3`; there is no assertion, but for `n ≤ 2` the generator list is empty and
`CayleyGraphDef.create` raises -/
theorem three_cycles_0ij_defined_iff (n : Nat) :
    (permFamily "three_cycles_0ij" [n]).isSome ↔ 3 ≤ n := by
  exact Cv.Families.three_cycles_0ij_defined_iff n
example : (permFamily "three_cycles_0ij" [4]).isSome = true ∧ (permFamily "three_cycles_0ij" [2]).isSome = false := by decide

theorem three_cycles_01i_valid (n : Nat) (b : Bool) (d : PermDef)
    (h : permFamily "three_cycles_01i" [n] [b] = some d) :
    (∀ p ∈ d.gens, IsPermOf n p) ∧ d.central = List.range n ∧ d.names.length = d.gens.length := by
  exact Cv.Families.three_cycles_01i_valid n b d h
example : (permFamily "three_cycles_01i" [5] [false]).isSome = true := by decide

theorem three_cycles_01i_count (n : Nat) (b : Bool) (d : PermDef)
    (h : permFamily "three_cycles_01i" [n] [b] = some d) :
    d.gens.length = if b then 2 * (n - 2) else n - 2 := by
  exact Cv.Families.three_cycles_01i_count n b d h
example : (permFamily "three_cycles_01i" [5] [false]).isSome = true := by decide

/-- the generators are the 3-cycles `(0 1 i)`, `i = 2..n-1`, each followed by its inverse `(1 0 i)`
when `add_inverses` -/
theorem three_cycles_01i_structure (n : Nat) (b : Bool) (d : PermDef)
    (h : permFamily "three_cycles_01i" [n] [b] = some d) :
    (∀ i, 2 ≤ i → i < n →
      fromCycles n [[0, 1, i].map Int.ofNat] = some (oneLine n (cyc3Fn 0 1 i)) ∧
      inverse (oneLine n (cyc3Fn 0 1 i)) = oneLine n (cyc3Fn 1 0 i) ∧
      fromCycles n [[1, 0, i].map Int.ofNat] = some (oneLine n (cyc3Fn 1 0 i))) ∧
    d.gens = (if b then
        (List.range' 2 (n - 2)).flatMap fun i => [oneLine n (cyc3Fn 0 1 i), oneLine n (cyc3Fn 1 0 i)]
      else (List.range' 2 (n - 2)).map fun i => oneLine n (cyc3Fn 0 1 i)) ∧
    d.names = (if b then
        (List.range' 2 (n - 2)).flatMap fun i =>
          ["(0 1 " ++ toString i ++ ")", "(1 0 " ++ toString i ++ ")"]
      else (List.range' 2 (n - 2)).map fun i => "(0 1 " ++ toString i ++ ")") ∧
    d.name = "three_cycles_01i-" ++ toString n ++ (if b then "-ic" else "") := by
  exact Cv.Families.three_cycles_01i_structure n b d h
example : ∃ d, permFamily "three_cycles_01i" [5] [false] = some d ∧ d.gens = [[1, 2, 0, 3, 4], [1, 3, 2, 0, 4], [1, 4, 2, 3, 0]] ∧
    d.names = ["(0 1 2)", "(0 1 3)", "(0 1 4)"] ∧
    d.central = [0, 1, 2, 3, 4] ∧ d.name = "three_cycles_01i-5" :=
  ⟨_, rfl, by decide, by decide, by decide, by decide⟩

/-- inverse-closed exactly when `add_inverses` -/
theorem three_cycles_01i_inverse_closed (n : Nat) (b : Bool) (d : PermDef)
    (h : permFamily "three_cycles_01i" [n] [b] = some d) : d.inverseClosed = b := by
  exact Cv.Families.three_cycles_01i_inverse_closed n b d h
example : (permFamily "three_cycles_01i" [5] [false]).isSome = true := by decide

theorem three_cycles_01i_defined_iff (n : Nat) (b : Bool) :
    (permFamily "three_cycles_01i" [n] [b]).isSome ↔ 3 ≤ n := by
  exact Cv.Families.three_cycles_01i_defined_iff n b
example : (permFamily "three_cycles_01i" [5] [false]).isSome = true ∧ (permFamily "three_cycles_01i" [2] [true]).isSome = false := by decide

theorem koltsov3_valid (n t k d : Nat) (D : PermDef)
    (h : permFamily "koltsov3" [n, t, k, d] = some D) :
    (∀ p ∈ D.gens, IsPermOf n p) ∧ D.central = List.range n ∧ D.names.length = D.gens.length := by
  exact Cv.Families.koltsov3_valid n t k d D h
example : (permFamily "koltsov3" [6, 2, 1, 1]).isSome = true := by decide

theorem koltsov3_count (n t k d : Nat) (D : PermDef)
    (h : permFamily "koltsov3" [n, t, k, d] = some D) : D.gens.length = 3 := by
  exact Cv.Families.koltsov3_count n t k d D h
example : (permFamily "koltsov3" [6, 2, 1, 1]).isSome = true := by decide

/-- I = `(0 1)(2 3)…`, K = `(1 2)(3 4)…`, S = `(k, k+d)` for type 1 (the identity when `d = 0`),
`(k, k+3)(k+1, k+2)` for type 2 -/
theorem koltsov3_structure (n t k d : Nat) (D : PermDef)
    (h : permFamily "koltsov3" [n, t, k, d] = some D) :
    ∃ gI gK gS, D.gens = [gI, gK, gS] ∧ D.names = ["I", "K", "S"] ∧
      (∀ q, 2 * q + 1 < n → gI.getD (2 * q) 0 = 2 * q + 1 ∧ gI.getD (2 * q + 1) 0 = 2 * q) ∧
      (n % 2 = 1 → gI.getD (n - 1) 0 = n - 1) ∧
      (∀ q, 2 * q + 2 < n → gK.getD (2 * q + 1) 0 = 2 * q + 2 ∧ gK.getD (2 * q + 2) 0 = 2 * q + 1) ∧
      gK.getD 0 0 = 0 ∧ (n % 2 = 0 → gK.getD (n - 1) 0 = n - 1) ∧
      (t = 1 → d ≠ 0 → transposition n k (k + d) = some gS) ∧
      (t = 1 → d = 0 → gS = List.range n) ∧
      (t = 2 → fromCycles n [[k, k + 3].map Int.ofNat, [k + 1, k + 2].map Int.ofNat] = some gS) := by
  exact Cv.Families.koltsov3_structure n t k d D h
example : ∃ d, permFamily "koltsov3" [6, 2, 1, 1] = some d ∧ d.gens = [[1, 0, 3, 2, 5, 4], [0, 2, 1, 4, 3, 5], [0, 4, 3, 2, 1, 5]] ∧
    d.names = ["I", "K", "S"] ∧
    d.central = [0, 1, 2, 3, 4, 5] ∧ d.name = "koltsov3-n6-k1" :=
  ⟨_, rfl, by decide, by decide, by decide, by decide⟩

theorem koltsov3_inverse_closed (n t k d : Nat) (D : PermDef)
    (h : permFamily "koltsov3" [n, t, k, d] = some D) : D.inverseClosed = true := by
  exact Cv.Families.koltsov3_inverse_closed n t k d D h
example : (permFamily "koltsov3" [6, 2, 1, 1]).isSome = true := by decide

theorem koltsov3_defined_iff (n t k d : Nat) :
    (permFamily "koltsov3" [n, t, k, d]).isSome ↔
      k < n ∧ ((t = 1 ∧ k + d < n) ∨ (t = 2 ∧ k + 3 < n)) := by
  exact Cv.Families.koltsov3_defined_iff n t k d
example : (permFamily "koltsov3" [6, 2, 1, 1]).isSome = true ∧ (permFamily "koltsov3" [4, 2, 1, 1]).isSome = false := by decide

theorem sheveleva2_valid (n k : Nat) (d : PermDef) (h : permFamily "sheveleva2" [n, k] = some d) :
    (∀ p ∈ d.gens, IsPermOf n p) ∧ d.central = List.range n ∧ d.names.length = d.gens.length := by
  exact Cv.Families.sheveleva2_valid n k d h
example : (permFamily "sheveleva2" [6, 2]).isSome = true := by decide

theorem sheveleva2_count (n k : Nat) (d : PermDef) (h : permFamily "sheveleva2" [n, k] = some d) :
    d.gens.length = 2 := by
  exact Cv.Families.sheveleva2_count n k d h
example : (permFamily "sheveleva2" [6, 2]).isSome = true := by decide

/-- A is an involution: the adjacent transpositions `(q, q+1)`, `q ≡ k (mod 2)`, except that `(k k+1)`
and `(k+2 k+3)` are replaced by `(k+1 k+3)` (or dropped when `k+3 = n`);
S consists of the 4-cycle `(k-1 k k+1 k+2)` and the adjacent transpositions `(q, q+1)`,
`q ≡ k-1 (mod 2)`, outside it -/
theorem sheveleva2_structure (n k : Nat) (d : PermDef)
    (h : permFamily "sheveleva2" [n, k] = some d) :
    ∃ gA gS, d.gens = [gA, gS] ∧ d.names = ["A", "S"] ∧
      (∀ p, p < n → gA.getD (gA.getD p 0) 0 = p) ∧
      gA.getD k 0 = k ∧ gA.getD (k + 2) 0 = k + 2 ∧
      (k + 3 < n → gA.getD (k + 1) 0 = k + 3 ∧ gA.getD (k + 3) 0 = k + 1) ∧
      (k + 3 = n → gA.getD (k + 1) 0 = k + 1) ∧
      (∀ q, q % 2 = k % 2 → q + 1 < n → q ≠ k → q ≠ k + 2 →
        gA.getD q 0 = q + 1 ∧ gA.getD (q + 1) 0 = q) ∧
      gS.getD (k - 1) 0 = k ∧ gS.getD k 0 = k + 1 ∧ gS.getD (k + 1) 0 = k + 2 ∧
      gS.getD (k + 2) 0 = k - 1 ∧
      (∀ q, q % 2 = (k + 1) % 2 → q + 1 < n → q + 1 ≠ k → q ≠ k + 1 →
        gS.getD q 0 = q + 1 ∧ gS.getD (q + 1) 0 = q) := by
  exact Cv.Families.sheveleva2_structure n k d h
example : ∃ d, permFamily "sheveleva2" [6, 2] = some d ∧ d.gens = [[1, 0, 2, 5, 4, 3], [0, 2, 3, 4, 1, 5]] ∧
    d.names = ["A", "S"] ∧
    d.central = [0, 1, 2, 3, 4, 5] ∧ d.name = "sheveleva2-n6-k2" :=
  ⟨_, rfl, by decide, by decide, by decide, by decide⟩

/-- never inverse-closed: the inverse of S (which contains a 4-cycle) is neither A nor S -/
theorem sheveleva2_inverse_closed (n k : Nat) (d : PermDef)
    (h : permFamily "sheveleva2" [n, k] = some d) : d.inverseClosed = false := by
  exact Cv.Families.sheveleva2_inverse_closed n k d h
example : (permFamily "sheveleva2" [6, 2]).isSome = true := by decide

theorem sheveleva2_defined_iff (n k : Nat) :
    (permFamily "sheveleva2" [n, k]).isSome ↔ 1 ≤ k ∧ k + 3 ≤ n := by
  exact Cv.Families.sheveleva2_defined_iff n k
example : (permFamily "sheveleva2" [6, 2]).isSome = true ∧ (permFamily "sheveleva2" [4, 2]).isSome = false := by decide

theorem increasing_k_cycles_valid (n k : Nat) (d : PermDef)
    (h : permFamily "increasing_k_cycles" [n, k] = some d) :
    (∀ p ∈ d.gens, IsPermOf n p) ∧ d.central = List.range n ∧ d.names.length = d.gens.length := by
  exact Cv.Families.increasing_k_cycles_valid n k d h
example : (permFamily "increasing_k_cycles" [5, 3]).isSome = true := by decide

/-- `C(n, k)` generators (`choose` = Pascal's rule) -/
theorem increasing_k_cycles_count (n k : Nat) (d : PermDef)
    (h : permFamily "increasing_k_cycles" [n, k] = some d) : d.gens.length = choose n k := by
  exact Cv.Families.increasing_k_cycles_count n k d h
example : (permFamily "increasing_k_cycles" [5, 3]).isSome = true := by decide

/-- the generators are the cycles `(c₁ c₂ … c_k)` of all increasing `k`-tuples `c₁ < … < c_k < n`
(in the lexicographic order of `itertools.combinations`), named `"(c₁,c₂,…,c_k)"` -/
theorem increasing_k_cycles_structure (n k : Nat) (d : PermDef)
    (h : permFamily "increasing_k_cycles" [n, k] = some d) :
    d.gens.map some =
      (combinations (List.range n) k).map (fun c => fromCycles n [c.map Int.ofNat]) ∧
    d.names = (combinations (List.range n) k).map
      (fun c => "(" ++ ",".intercalate (c.map toString) ++ ")") ∧
    (∀ c, c ∈ combinations (List.range n) k ↔
      c.Pairwise (· < ·) ∧ (∀ v ∈ c, v < n) ∧ c.length = k) ∧
    (combinations (List.range n) k).Nodup := by
  exact Cv.Families.increasing_k_cycles_structure n k d h
example : ∃ d, permFamily "increasing_k_cycles" [5, 3] = some d ∧ d.gens = [[1, 2, 0, 3, 4], [1, 3, 2, 0, 4], [1, 4, 2, 3, 0], [2, 1, 3, 0, 4], [2, 1, 4, 3, 0], [3, 1, 2, 4, 0], [0, 2, 3, 1, 4], [0, 2, 4, 3, 1], [0, 3, 2, 4, 1], [0, 1, 3, 4, 2]] ∧
    d.names = ["(0,1,2)", "(0,1,3)", "(0,1,4)", "(0,2,3)", "(0,2,4)", "(0,3,4)", "(1,2,3)", "(1,2,4)", "(1,3,4)", "(2,3,4)"] ∧
    d.central = [0, 1, 2, 3, 4] ∧ d.name = "increasing_k_cycles-5-3" :=
  ⟨_, rfl, by decide, by decide, by decide, by decide⟩

theorem increasing_k_cycles_defined_iff (n k : Nat) :
    (permFamily "increasing_k_cycles" [n, k]).isSome ↔ 1 ≤ n ∧ 1 ≤ k ∧ k ≤ n := by
  exact Cv.Families.increasing_k_cycles_defined_iff n k
example : (permFamily "increasing_k_cycles" [5, 3]).isSome = true ∧ (permFamily "increasing_k_cycles" [3, 4]).isSome = false := by decide

/-- inverse-closed exactly for `k ≤ 2` -/
theorem increasing_k_cycles_inverse_closed (n k : Nat) (d : PermDef)
    (h : permFamily "increasing_k_cycles" [n, k] = some d) : d.inverseClosed = decide (k ≤ 2) := by
  exact Cv.Families.increasing_k_cycles_inverse_closed n k d h
example : (permFamily "increasing_k_cycles" [5, 3]).isSome = true := by decide

theorem derangements_valid (n : Nat) (d : PermDef) (h : permFamily "derangements" [n] = some d) :
    (∀ p ∈ d.gens, IsPermOf n p) ∧ d.central = List.range n ∧ d.names.length = d.gens.length := by
  exact Cv.Families.derangements_valid n d h
example : (permFamily "derangements" [4]).isSome = true := by decide

/-- the generators are exactly the permutations of `0..n-1` without fixed points, each once, in the
order of `itertools.permutations(range(n))` (`allPerms n`); the generator that is the `r`-th
permutation of that enumeration is named `D<r>` -/
theorem derangements_structure (n : Nat) (d : PermDef) (h : permFamily "derangements" [n] = some d) :
    (∀ p, p ∈ d.gens ↔ IsPermOf n p ∧ ∀ i, i < n → p.getD i 0 ≠ i) ∧
    d.gens.Nodup ∧ d.gens.Sublist (allPerms n) ∧
    (∀ (t : Nat) (p : List Nat) (nm : String), d.gens[t]? = some p → d.names[t]? = some nm →
      ∃ r : Nat, (allPerms n)[r]? = some p ∧ nm = "D" ++ toString r) ∧
    (∀ p, p ∈ allPerms n ↔ IsPermOf n p) := by
  exact Cv.Families.derangements_structure n d h
example : ∃ d, permFamily "derangements" [4] = some d ∧ d.gens = [[1, 0, 3, 2], [1, 2, 3, 0], [1, 3, 0, 2], [2, 0, 3, 1], [2, 3, 0, 1], [2, 3, 1, 0], [3, 0, 1, 2], [3, 2, 0, 1], [3, 2, 1, 0]] ∧
    d.names = ["D7", "D9", "D10", "D13", "D16", "D17", "D18", "D22", "D23"] ∧
    d.central = [0, 1, 2, 3] ∧ d.name = "derangements-4" :=
  ⟨_, rfl, by decide, by decide, by decide, by decide⟩

/-- the inverse of a derangement is a derangement -/
theorem derangements_inverse_closed (n : Nat) (d : PermDef)
    (h : permFamily "derangements" [n] = some d) : d.inverseClosed = true := by
  exact Cv.Families.derangements_inverse_closed n d h
example : (permFamily "derangements" [4]).isSome = true := by decide

theorem derangements_defined_iff (n : Nat) : (permFamily "derangements" [n]).isSome ↔ 2 ≤ n := by
  exact Cv.Families.derangements_defined_iff n
example : (permFamily "derangements" [4]).isSome = true ∧ (permFamily "derangements" [1]).isSome = false := by decide

theorem involutive_derangements_valid (n : Nat) (d : PermDef)
    (h : permFamily "involutive_derangements" [n] = some d) :
    (∀ p ∈ d.gens, IsPermOf n p) ∧ d.central = List.range n ∧ d.names.length = d.gens.length := by
  exact Cv.Families.involutive_derangements_valid n d h
example : (permFamily "involutive_derangements" [4]).isSome = true := by decide

/-- the generators are exactly the involutions of `0..n-1` without fixed points, each once, in the
order of `itertools.permutations(range(n))`, named `ID1, ID2, …` -/
theorem involutive_derangements_structure (n : Nat) (d : PermDef)
    (h : permFamily "involutive_derangements" [n] = some d) :
    (∀ p, p ∈ d.gens ↔
      IsPermOf n p ∧ (∀ i, i < n → p.getD i 0 ≠ i) ∧ ∀ i, i < n → p.getD (p.getD i 0) 0 = i) ∧
    d.gens.Nodup ∧ d.gens.Sublist (allPerms n) ∧
    (∀ t : Nat, t < d.gens.length → d.names[t]? = some ("ID" ++ toString (t + 1))) := by
  exact Cv.Families.involutive_derangements_structure n d h
example : ∃ d, permFamily "involutive_derangements" [4] = some d ∧ d.gens = [[1, 0, 3, 2], [2, 3, 0, 1], [3, 2, 1, 0]] ∧
    d.names = ["ID1", "ID2", "ID3"] ∧
    d.central = [0, 1, 2, 3] ∧ d.name = "involutive-derangements-4" :=
  ⟨_, rfl, by decide, by decide, by decide, by decide⟩

theorem involutive_derangements_inverse_closed (n : Nat) (d : PermDef)
    (h : permFamily "involutive_derangements" [n] = some d) : d.inverseClosed = true := by
  exact Cv.Families.involutive_derangements_inverse_closed n d h
example : (permFamily "involutive_derangements" [4]).isSome = true := by decide

theorem involutive_derangements_defined_iff (n : Nat) :
    (permFamily "involutive_derangements" [n]).isSome ↔ 2 ≤ n ∧ n % 2 = 0 := by
  exact Cv.Families.involutive_derangements_defined_iff n
example : (permFamily "involutive_derangements" [4]).isSome = true ∧ (permFamily "involutive_derangements" [3]).isSome = false := by decide

theorem all_cycles_valid (n : Nat) (d : PermDef) (h : permFamily "all_cycles" [n] = some d) :
    (∀ p ∈ d.gens, IsPermOf n p) ∧ d.central = List.range n ∧ d.names.length = d.gens.length := by
  exact Cv.Families.all_cycles_valid n d h
example : (permFamily "all_cycles" [4]).isSome = true := by decide

/-- the generators are the cycles (as built by `permutation_from_cycles`) of the list `allCyclesList n`,
which contains exactly the cycles of length `2..n` written from their minimum; generator `t` is named
`cycle_<t+1>` -/
theorem all_cycles_structure (n : Nat) (d : PermDef) (h : permFamily "all_cycles" [n] = some d) :
    d.gens.map some = (allCyclesList n).map (fun c => fromCycles n [c.map Int.ofNat]) ∧
    (∀ c, c ∈ allCyclesList n ↔
      c.Nodup ∧ 2 ≤ c.length ∧ (∀ v ∈ c, v < n) ∧ ∀ v ∈ c.tail, c.headD 0 < v) ∧
    (∀ t : Nat, t < d.gens.length → d.names[t]? = some ("cycle_" ++ toString (t + 1))) := by
  exact Cv.Families.all_cycles_structure n d h
example : ∃ d, permFamily "all_cycles" [4] = some d ∧ d.gens = [[1, 0, 2, 3], [2, 1, 0, 3], [3, 1, 2, 0], [0, 2, 1, 3], [0, 3, 2, 1], [0, 1, 3, 2], [1, 2, 0, 3], [2, 0, 1, 3], [1, 3, 2, 0], [3, 0, 2, 1], [2, 1, 3, 0], [3, 1, 0, 2], [0, 2, 3, 1], [0, 3, 1, 2], [1, 2, 3, 0], [1, 3, 0, 2], [2, 3, 1, 0], [2, 0, 3, 1], [3, 2, 0, 1], [3, 0, 1, 2]] ∧
    d.names = ["cycle_1", "cycle_2", "cycle_3", "cycle_4", "cycle_5", "cycle_6", "cycle_7", "cycle_8", "cycle_9", "cycle_10", "cycle_11", "cycle_12", "cycle_13", "cycle_14", "cycle_15", "cycle_16", "cycle_17", "cycle_18", "cycle_19", "cycle_20"] ∧
    d.central = [0, 1, 2, 3] ∧ d.name = "all_cycles-4" :=
  ⟨_, rfl, by decide, by decide, by decide, by decide⟩

theorem all_cycles_defined_iff (n : Nat) : (permFamily "all_cycles" [n]).isSome ↔ 2 ≤ n := by
  exact Cv.Families.all_cycles_defined_iff n
example : (permFamily "all_cycles" [4]).isSome = true ∧ (permFamily "all_cycles" [1]).isSome = false := by decide

/-- the inverse of a cycle is a cycle -/
theorem all_cycles_inverse_closed (n : Nat) (d : PermDef)
    (h : permFamily "all_cycles" [n] = some d) : d.inverseClosed = true := by
  exact Cv.Families.all_cycles_inverse_closed n d h
example : (permFamily "all_cycles" [4]).isSome = true := by decide

/-- for ordinary constructors the heterogeneous call is the plain one -/
theorem permFamilyP_eq (fam : String) (nats : List Nat) (flags : List Bool)
    (hf : fam ≠ "conjugacy_classes") :
    permFamilyP fam (nats.map Param.nat ++ flags.map Param.flag) = permFamily fam nats flags := by
  exact Cv.Families.permFamilyP_eq fam nats flags hf
example : (permFamilyP "lrx" [.nat 5, .nat 2] == permFamily "lrx" [5, 2]) = true ∧
    (permFamilyP "lsl_cycles" [.nat 4, .flag false] == permFamily "lsl_cycles" [4] [false]) = true := by decide

/-- `conjugacy_classes(n, {c: None …})`: every generator is a permutation of `0..n-1` whose cycle type
is one of the requested classes (padded with fixed points) -/
theorem conjugacy_classes_valid (n : Nat) (cls : List (List Nat)) (d : PermDef)
    (h : permFamilyP "conjugacy_classes" [.nat n, .lens cls] = some d) :
    (∀ p ∈ d.gens, IsPermOf n p ∧ ∃ c ∈ cls, cycleType p =
      (c ++ List.replicate (n - c.sum) 1).mergeSort (fun a b => decide (a ≤ b))) ∧
    d.central = List.range n ∧ d.names.length = d.gens.length := by
  exact Cv.Families.conjugacy_classes_valid n cls d h
example : ∃ d, permFamilyP "conjugacy_classes" [.nat 4, .lens [[2, 2], [3]]] = some d ∧
    d.gens = [[1, 0, 3, 2], [2, 3, 0, 1], [3, 2, 1, 0], [0, 2, 3, 1], [0, 3, 1, 2], [1, 2, 0, 3], [2, 0, 1, 3], [1, 3, 2, 0], [3, 0, 2, 1], [2, 1, 3, 0], [3, 1, 0, 2]] ∧
    d.names = ["(2,2)_1", "(2,2)_2", "(2,2)_3", "(3,1)_1", "(3,1)_2", "(3,1)_3", "(3,1)_4", "(3,1)_5", "(3,1)_6", "(3,1)_7", "(3,1)_8"] ∧
    d.name = "conjugacy_class-4-2,2-3,1" := by
  rw [permFamilyP_conj]; unfold conjugacyClasses
  simp only [permutationsWithCycleLengths_eq]
  exact ⟨_, rfl, by decide, by decide, by decide⟩

theorem three_cycles_0ij_count (n : Nat) (d : PermDef)
    (h : permFamily "three_cycles_0ij" [n] = some d) : d.gens.length = (n - 1) * (n - 2) := by
  exact Cv.Families.three_cycles_0ij_count n d h
example : (permFamily "three_cycles_0ij" [4]).isSome = true := by decide

theorem three_cycles_count (n : Nat) (d : PermDef) (h : permFamily "three_cycles" [n] = some d) :
    3 * d.gens.length = n * (n - 1) * (n - 2) := by
  exact Cv.Families.three_cycles_count n d h
example : (permFamily "three_cycles" [4]).isSome = true := by decide

theorem transposons_count (n : Nat) (d : PermDef) (h : permFamily "transposons" [n] = some d) :
    6 * d.gens.length = (n - 1) * n * (n + 1) := by
  exact Cv.Families.transposons_count n d h
example : (permFamily "transposons" [4]).isSome = true := by decide

theorem block_interchange_count (n : Nat) (d : PermDef)
    (h : permFamily "block_interchange" [n] = some d) :
    24 * d.gens.length = (n - 1) * n * (n + 1) * (n + 2) := by
  exact Cv.Families.block_interchange_count n d h
example : (permFamily "block_interchange" [4]).isSome = true := by decide

theorem heisenberg_defined_iff (n m : Nat) (b : Bool) :
    (matFamily "heisenberg" [n, m] [b]).isSome ↔ 3 ≤ n ∧ (m = 0 ∨ (2 ≤ m ∧ m ≤ 2 ^ 31)) := by
  exact Cv.Families.heisenberg_defined_iff n m b
example : (matFamily "heisenberg" [4, 5] [true]).isSome = true ∧ (matFamily "heisenberg" [2, 5] [true]).isSome = false := by decide

/-- `4(n-2)` generators with inverses, `2(n-2)` without — but also only `2(n-2)` for `modulo = 2`,
where every generator is its own inverse and `make_inverse_closed` adds nothing (the docstring says
`4(n-2)` whenever inverses are requested) -/
theorem heisenberg_count (n m : Nat) (b : Bool) (d : MatDef)
    (h : matFamily "heisenberg" [n, m] [b] = some d) :
    d.gens.length = if b = true ∧ m ≠ 2 then 4 * (n - 2) else 2 * (n - 2) := by
  exact Cv.Families.heisenberg_count n m b d h
example : (matFamily "heisenberg" [4, 5] [true]).isSome = true := by decide

theorem heisenberg_valid (n m : Nat) (b : Bool) (d : MatDef)
    (h : matFamily "heisenberg" [n, m] [b] = some d) :
    d.n = n ∧ d.modulo = m ∧
    (∀ g ∈ d.gens, g.length = n * n ∧ (0 < m → ∀ v ∈ g, 0 ≤ v ∧ v < (m : Int))) ∧
    d.central = matOf n 0 eyeFn ∧ d.names.length = d.gens.length := by
  exact Cv.Families.heisenberg_valid n m b d h
example : (matFamily "heisenberg" [4, 5] [true]).isSome = true := by decide

/-- generators `x_i = I + E(0,i)`, then `y_i = I + E(i,n-1)` (`i = 1..n-2`; named `x`, `y` for `n = 3`,
`x<i>`, `y<i>` otherwise), then — with `add_inverses` and `modulo ≠ 2` — `x_i' = I - E(0,i)` and
`y_i' = I - E(i,n-1)`, named with a trailing `'`, and the graph name gets the suffix `-ic` -/
theorem heisenberg_structure (n m : Nat) (b : Bool) (d : MatDef)
    (h : matFamily "heisenberg" [n, m] [b] = some d) :
    (∀ i, 1 ≤ i → i + 2 ≤ n →
      d.gens[i - 1]? = some (matOf n m (elemFn 0 i 1)) ∧
      d.gens[(n - 2) + (i - 1)]? = some (matOf n m (elemFn i (n - 1) 1)) ∧
      d.names[i - 1]? = some (if n = 3 then "x" else "x" ++ toString i) ∧
      d.names[(n - 2) + (i - 1)]? = some (if n = 3 then "y" else "y" ++ toString i) ∧
      (b = true ∧ m ≠ 2 →
        d.gens[2 * (n - 2) + (i - 1)]? = some (matOf n m (elemFn 0 i (-1))) ∧
        d.gens[3 * (n - 2) + (i - 1)]? = some (matOf n m (elemFn i (n - 1) (-1))) ∧
        d.names[2 * (n - 2) + (i - 1)]? = some ((if n = 3 then "x" else "x" ++ toString i) ++ "'") ∧
        d.names[3 * (n - 2) + (i - 1)]? = some ((if n = 3 then "y" else "y" ++ toString i) ++ "'"))) ∧
    d.name = "heisenberg-" ++ toString n ++ (if m = 0 then "" else "%" ++ toString m) ++
      (if b = true ∧ m ≠ 2 then "-ic" else "") ∧
    (∀ a c r s : Nat, ∀ v : Int, r < n → s < n →
      entry n (matOf n m (elemFn a c v)) r s =
        red m (if r = a ∧ s = c then v else if r = s then 1 else 0)) := by
  exact Cv.Families.heisenberg_structure n m b d h
example : ∃ d, matFamily "heisenberg" [4, 5] [true] = some d ∧ d.gens = [[1, 1, 0, 0, 0, 1, 0, 0, 0, 0, 1, 0, 0, 0, 0, 1], [1, 0, 1, 0, 0, 1, 0, 0, 0, 0, 1, 0, 0, 0, 0, 1], [1, 0, 0, 0, 0, 1, 0, 1, 0, 0, 1, 0, 0, 0, 0, 1], [1, 0, 0, 0, 0, 1, 0, 0, 0, 0, 1, 1, 0, 0, 0, 1], [1, 4, 0, 0, 0, 1, 0, 0, 0, 0, 1, 0, 0, 0, 0, 1], [1, 0, 4, 0, 0, 1, 0, 0, 0, 0, 1, 0, 0, 0, 0, 1], [1, 0, 0, 0, 0, 1, 0, 4, 0, 0, 1, 0, 0, 0, 0, 1], [1, 0, 0, 0, 0, 1, 0, 0, 0, 0, 1, 4, 0, 0, 0, 1]] ∧
    d.names = ["x1", "x2", "y1", "y2", "x1'", "x2'", "y1'", "y2'"] ∧
    d.central = [1, 0, 0, 0, 0, 1, 0, 0, 0, 0, 1, 0, 0, 0, 0, 1] ∧ d.name = "heisenberg-4%5-ic" :=
  ⟨_, rfl, by decide, by decide, by decide, by decide⟩

/-- with `add_inverses` the generator list is closed under inversion: generator `t + 2(n-2)` is the
inverse of generator `t` (modulo `modulo`); for `modulo = 2` every generator is its own inverse -/
theorem heisenberg_inverses (n m : Nat) (b : Bool) (d : MatDef)
    (h : matFamily "heisenberg" [n, m] [b] = some d) :
    (b = true ∧ m ≠ 2 → ∀ t, t < 2 * (n - 2) →
      ∃ g g', d.gens[t]? = some g ∧ d.gens[t + 2 * (n - 2)]? = some g' ∧ InvMod n m g g') ∧
    (m = 2 → ∀ g ∈ d.gens, InvMod n m g g) := by
  exact Cv.Families.heisenberg_inverses n m b d h
example : (matFamily "heisenberg" [4, 5] [true]).isSome = true := by decide

theorem sl_fund_roots_defined_iff (n m : Nat) :
    (matFamily "special_linear_fundamental_roots" [n, m]).isSome ↔
      2 ≤ n ∧ (m = 0 ∨ (2 ≤ m ∧ m ≤ 2 ^ 31)) := by
  exact Cv.Families.sl_fund_roots_defined_iff n m
example : (matFamily "special_linear_fundamental_roots" [3, 5]).isSome = true ∧ (matFamily "special_linear_fundamental_roots" [1, 5]).isSome = false := by decide

/-- `4(n-1)` generators -/
theorem sl_fund_roots_count (n m : Nat) (d : MatDef)
    (h : matFamily "special_linear_fundamental_roots" [n, m] = some d) :
    d.gens.length = 4 * (n - 1) := by
  exact Cv.Families.sl_fund_roots_count n m d h
example : (matFamily "special_linear_fundamental_roots" [3, 5]).isSome = true := by decide

theorem sl_fund_roots_valid (n m : Nat) (d : MatDef)
    (h : matFamily "special_linear_fundamental_roots" [n, m] = some d) :
    d.n = n ∧ d.modulo = m ∧
    (∀ g ∈ d.gens, g.length = n * n ∧ (0 < m → ∀ v ∈ g, 0 ≤ v ∧ v < (m : Int))) ∧
    d.central = matOf n 0 eyeFn ∧ d.names.length = d.gens.length := by
  exact Cv.Families.sl_fund_roots_valid n m d h
example : (matFamily "special_linear_fundamental_roots" [3, 5]).isSome = true := by decide

/-- the generators are, for `k = 1..n-1` in this order: the fundamental root element
`e_k = I + E(k-1,k)`, its inverse `e_k' = I - E(k-1,k)`, `f_k = I + E(k,k-1)` and `f_k' = I - E(k,k-1)` -/
theorem sl_fund_roots_structure (n m : Nat) (d : MatDef)
    (h : matFamily "special_linear_fundamental_roots" [n, m] = some d) :
    d.gens = (List.range (n - 1)).flatMap (fun k =>
      [matOf n m (elemFn k (k + 1) 1), matOf n m (elemFn k (k + 1) (-1)),
       matOf n m (elemFn (k + 1) k 1), matOf n m (elemFn (k + 1) k (-1))]) ∧
    d.names = (List.range (n - 1)).flatMap (fun k =>
      ["e" ++ toString (k + 1), "e" ++ toString (k + 1) ++ "'",
       "f" ++ toString (k + 1), "f" ++ toString (k + 1) ++ "'"]) ∧
    d.name = "sl_fund_roots-" ++ toString n ++ (if m = 0 then "" else "%" ++ toString m) ∧
    (∀ a c r s : Nat, ∀ v : Int, r < n → s < n →
      entry n (matOf n m (elemFn a c v)) r s =
        red m (if r = a ∧ s = c then v else if r = s then 1 else 0)) := by
  exact Cv.Families.sl_fund_roots_structure n m d h
example : ∃ d, matFamily "special_linear_fundamental_roots" [3, 5] = some d ∧ d.gens = [[1, 1, 0, 0, 1, 0, 0, 0, 1], [1, 4, 0, 0, 1, 0, 0, 0, 1], [1, 0, 0, 1, 1, 0, 0, 0, 1], [1, 0, 0, 4, 1, 0, 0, 0, 1], [1, 0, 0, 0, 1, 1, 0, 0, 1], [1, 0, 0, 0, 1, 4, 0, 0, 1], [1, 0, 0, 0, 1, 0, 0, 1, 1], [1, 0, 0, 0, 1, 0, 0, 4, 1]] ∧
    d.names = ["e1", "e1'", "f1", "f1'", "e2", "e2'", "f2", "f2'"] ∧
    d.central = [1, 0, 0, 0, 1, 0, 0, 0, 1] ∧ d.name = "sl_fund_roots-3%5" :=
  ⟨_, rfl, by decide, by decide, by decide, by decide⟩

/-- the primed generators are the inverses (modulo `modulo`) of the unprimed ones: the set is
inverse-closed -/
theorem sl_fund_roots_inverses (n m : Nat) (d : MatDef)
    (_h : matFamily "special_linear_fundamental_roots" [n, m] = some d) :
    ∀ k, k + 1 < n →
      InvMod n m (matOf n m (elemFn k (k + 1) 1)) (matOf n m (elemFn k (k + 1) (-1))) ∧
      InvMod n m (matOf n m (elemFn (k + 1) k 1)) (matOf n m (elemFn (k + 1) k (-1))) := by
  exact Cv.Families.sl_fund_roots_inverses n m d _h
example : (matFamily "special_linear_fundamental_roots" [3, 5]).isSome = true := by decide

theorem sl_root_weyl_defined_iff (n m : Nat) :
    (matFamily "special_linear_root_weyl" [n, m]).isSome ↔
      2 ≤ n ∧ (m = 0 ∨ (2 ≤ m ∧ m ≤ 2 ^ 31)) := by
  exact Cv.Families.sl_root_weyl_defined_iff n m
example : (matFamily "special_linear_root_weyl" [3, 5]).isSome = true ∧ (matFamily "special_linear_root_weyl" [3, 1]).isSome = false := by decide

theorem sl_root_weyl_count (n m : Nat) (d : MatDef)
    (h : matFamily "special_linear_root_weyl" [n, m] = some d) : d.gens.length = 4 := by
  exact Cv.Families.sl_root_weyl_count n m d h
example : (matFamily "special_linear_root_weyl" [3, 5]).isSome = true := by decide

theorem sl_root_weyl_valid (n m : Nat) (d : MatDef)
    (h : matFamily "special_linear_root_weyl" [n, m] = some d) :
    d.n = n ∧ d.modulo = m ∧
    (∀ g ∈ d.gens, g.length = n * n ∧ (0 < m → ∀ v ∈ g, 0 ≤ v ∧ v < (m : Int))) ∧
    d.central = matOf n 0 eyeFn ∧ d.names.length = d.gens.length := by
  exact Cv.Families.sl_root_weyl_valid n m d h
example : (matFamily "special_linear_root_weyl" [3, 5]).isSome = true := by decide

/-- `e = I + E(0,1)`, `e' = I - E(0,1)`, the Weyl element `w` (ones on the superdiagonal and
`(-1)^(n-1)` in the lower left corner) and its transpose `w'` -/
theorem sl_root_weyl_structure (n m : Nat) (d : MatDef)
    (h : matFamily "special_linear_root_weyl" [n, m] = some d) :
    ∃ e e' w w', d.gens = [e, e', w, w'] ∧ d.names = ["e", "e'", "w", "w'"] ∧
      d.name = "sl_root_weyl-" ++ toString n ++ (if m = 0 then "" else "%" ++ toString m) ∧
      (∀ r s, r < n → s < n →
        entry n e r s = red m (if r = 0 ∧ s = 1 then 1 else if r = s then 1 else 0) ∧
        entry n e' r s = red m (if r = 0 ∧ s = 1 then -1 else if r = s then 1 else 0) ∧
        entry n w r s = red m (if s = r + 1 then 1
          else if r = n - 1 ∧ s = 0 then (if n % 2 = 1 then 1 else -1) else 0) ∧
        entry n w' r s = entry n w s r) := by
  exact Cv.Families.sl_root_weyl_structure n m d h
example : ∃ d, matFamily "special_linear_root_weyl" [3, 5] = some d ∧ d.gens = [[1, 1, 0, 0, 1, 0, 0, 0, 1], [1, 4, 0, 0, 1, 0, 0, 0, 1], [0, 1, 0, 0, 0, 1, 1, 0, 0], [0, 0, 1, 1, 0, 0, 0, 1, 0]] ∧
    d.names = ["e", "e'", "w", "w'"] ∧
    d.central = [1, 0, 0, 0, 1, 0, 0, 0, 1] ∧ d.name = "sl_root_weyl-3%5" :=
  ⟨_, rfl, by decide, by decide, by decide, by decide⟩

/-- `e'` is the inverse of `e` and `w'` the inverse of `w` (modulo `modulo`): inverse-closed -/
theorem sl_root_weyl_inverses (n m : Nat) (d : MatDef)
    (h : matFamily "special_linear_root_weyl" [n, m] = some d) :
    ∃ e e' w w', d.gens = [e, e', w, w'] ∧ InvMod n m e e' ∧ InvMod n m w w' := by
  exact Cv.Families.sl_root_weyl_inverses n m d h
example : (matFamily "special_linear_root_weyl" [3, 5]).isSome = true := by decide

theorem lookup_lx (n : Nat) (k : Option Nat) : lookup "lx" n k = permFamily "lx" [n] := by
  exact Cv.Families.lookup_lx n k
example : (lookup "lx" 5 none).isSome = true := by decide

theorem lookup_lrx (n : Nat) (k : Option Nat) : lookup "lrx" n k = permFamily "lrx" [n] := by
  exact Cv.Families.lookup_lrx n k
example : (lookup "lrx" 5 none).isSome = true := by decide

theorem lookup_top_spin (n : Nat) (k : Option Nat) :
    lookup "top_spin" n k = permFamily "top_spin" [n] := by
  exact Cv.Families.lookup_top_spin n k
example : (lookup "top_spin" 5 none).isSome = true := by decide

theorem lookup_all_transpositions (n : Nat) (k : Option Nat) :
    lookup "all_transpositions" n k = permFamily "all_transpositions" [n] := by
  exact Cv.Families.lookup_all_transpositions n k
example : (lookup "all_transpositions" 5 none).isSome = true := by decide

theorem lookup_transposons (n : Nat) (k : Option Nat) :
    lookup "transposons" n k = permFamily "transposons" [n] := by
  exact Cv.Families.lookup_transposons n k
example : (lookup "transposons" 5 none).isSome = true := by decide

theorem lookup_block_interchange (n : Nat) (k : Option Nat) :
    lookup "block_interchange" n k = permFamily "block_interchange" [n] := by
  exact Cv.Families.lookup_block_interchange n k
example : (lookup "block_interchange" 5 none).isSome = true := by decide

theorem lookup_full_reversals (n : Nat) (k : Option Nat) :
    lookup "full_reversals" n k = permFamily "full_reversals" [n] := by
  exact Cv.Families.lookup_full_reversals n k
example : (lookup "full_reversals" 5 none).isSome = true := by decide

theorem lookup_coxeter (n : Nat) (k : Option Nat) :
    lookup "coxeter" n k = permFamily "coxeter" [n] := by
  exact Cv.Families.lookup_coxeter n k
example : (lookup "coxeter" 5 none).isSome = true := by decide

theorem lookup_pancake (n : Nat) (k : Option Nat) :
    lookup "pancake" n k = permFamily "pancake" [n] := by
  exact Cv.Families.lookup_pancake n k
example : (lookup "pancake" 5 none).isSome = true := by decide

theorem lookup_all_cycles (n : Nat) (k : Option Nat) :
    lookup "all_cycles" n k = permFamily "all_cycles" [n] := by
  exact Cv.Families.lookup_all_cycles n k
example : (lookup "all_cycles" 5 none).isSome = true := by decide

theorem lookup_lsl_cycles (n : Nat) (k : Option Nat) :
    lookup "lsl_cycles" n k = permFamily "lsl_cycles" [n] := by
  exact Cv.Families.lookup_lsl_cycles n k
example : (lookup "lsl_cycles" 5 none).isSome = true := by decide

theorem lookup_larx (n : Nat) (k : Option Nat) : lookup "larx" n k = permFamily "larx" [n] := by
  exact Cv.Families.lookup_larx n k
example : (lookup "larx" 5 none).isSome = true := by decide

theorem lookup_01i (n : Nat) (k : Option Nat) :
    lookup "01i" n k = permFamily "three_cycles_01i" [n] := by
  exact Cv.Families.lookup_01i n k
example : (lookup "01i" 5 none).isSome = true := by decide

theorem lookup_increasing_k_cycles (n k : Nat) :
    lookup "increasing_k_cycles" n (some k) = permFamily "increasing_k_cycles" [n, k] := by
  exact Cv.Families.lookup_increasing_k_cycles n k
example : (lookup "increasing_k_cycles" 5 (some 2)).isSome = true := by decide

theorem lookup_consecutive_k_cycles (n k : Nat) :
    lookup "consecutive_k_cycles" n (some k) = permFamily "consecutive_k_cycles" [n, k] := by
  exact Cv.Families.lookup_consecutive_k_cycles n k
example : (lookup "consecutive_k_cycles" 5 (some 2)).isSome = true := by decide

/-- without the keyword argument `k` the library raises `KeyError` -/
theorem lookup_k_cycles_missing_k (n : Nat) :
    lookup "increasing_k_cycles" n none = none ∧ lookup "consecutive_k_cycles" n none = none := by
  exact Cv.Families.lookup_k_cycles_missing_k n
example : (lookup "increasing_k_cycles" 4 (some 2)).isSome = true := by decide

theorem lookup_down_cycles (n : Nat) (k : Option Nat) :
    lookup "down_cycles" n k = permFamily "down_cycles" [n] := by
  exact Cv.Families.lookup_down_cycles n k
example : (lookup "down_cycles" 5 none).isSome = true := by decide

theorem lookup_prefix_cycles (n : Nat) (k : Option Nat) :
    lookup "prefix_cycles" n k = permFamily "prefix_cycles" [n] := by
  exact Cv.Families.lookup_prefix_cycles n k
example : (lookup "prefix_cycles" 5 none).isSome = true := by decide

/-- `prepare_graph("lx-" + s)` is `lx(int(s))` — for EVERY suffix `s`; the argument `n` is ignored -/
theorem lookup_lx_prefix (s : String) (n : Nat) (k : Option Nat) :
    lookup ("lx-" ++ s) n k = (pyIntNat s.toList).bind fun m => permFamily "lx" [m] := by
  exact Cv.Families.lookup_lx_prefix s n k
example : (lookup ("lx-" ++ " +0_5 ") 0 none == permFamily "lx" [5]) = true ∧ (permFamily "lx" [5]).isSome = true := by decide

/-- `prepare_graph("lrx-" + s)` is `lrx(int(s))` -/
theorem lookup_lrx_prefix (s : String) (n : Nat) (k : Option Nat) :
    lookup ("lrx-" ++ s) n k = (pyIntNat s.toList).bind fun m => permFamily "lrx" [m] := by
  exact Cv.Families.lookup_lrx_prefix s n k
example : (lookup ("lrx-" ++ "007") 0 none == permFamily "lrx" [7]) = true ∧ (permFamily "lrx" [7]).isSome = true := by decide

theorem lookup_lx_N (m n : Nat) (k : Option Nat) :
    lookup ("lx-" ++ toString m) n k = permFamily "lx" [m] := by
  exact Cv.Families.lookup_lx_N m n k
example : (lookup ("lx-" ++ toString 5) 0 none == permFamily "lx" [5]) = true ∧ (permFamily "lx" [5]).isSome = true := by decide

theorem lookup_lrx_N (m n : Nat) (k : Option Nat) :
    lookup ("lrx-" ++ toString m) n k = permFamily "lrx" [m] := by
  exact Cv.Families.lookup_lrx_N m n k
example : (lookup ("lrx-" ++ toString 5) 0 none == permFamily "lrx" [5]) = true ∧ (permFamily "lrx" [5]).isSome = true := by decide

/-- SUMMARY: looking a graph up by name returns the definition of the constructor that
`prepare_graph` names — for every supported name, every `n`, `k`, and every suffix `s` / number `m` -/
theorem lookup_constructor (n : Nat) (k : Option Nat) (kk m : Nat) (s : String) :
    lookup "lx" n k = permFamily "lx" [n] ∧
    lookup ("lx-" ++ s) n k = ((pyIntNat s.toList).bind fun m => permFamily "lx" [m]) ∧
    lookup ("lx-" ++ toString m) n k = permFamily "lx" [m] ∧
    lookup "lrx" n k = permFamily "lrx" [n] ∧
    lookup ("lrx-" ++ s) n k = ((pyIntNat s.toList).bind fun m => permFamily "lrx" [m]) ∧
    lookup ("lrx-" ++ toString m) n k = permFamily "lrx" [m] ∧
    lookup "top_spin" n k = permFamily "top_spin" [n] ∧
    lookup "all_transpositions" n k = permFamily "all_transpositions" [n] ∧
    lookup "transposons" n k = permFamily "transposons" [n] ∧
    lookup "block_interchange" n k = permFamily "block_interchange" [n] ∧
    lookup "full_reversals" n k = permFamily "full_reversals" [n] ∧
    lookup "coxeter" n k = permFamily "coxeter" [n] ∧
    lookup "pancake" n k = permFamily "pancake" [n] ∧
    lookup "all_cycles" n k = permFamily "all_cycles" [n] ∧
    lookup "lsl_cycles" n k = permFamily "lsl_cycles" [n] ∧
    lookup "larx" n k = permFamily "larx" [n] ∧
    lookup "01i" n k = permFamily "three_cycles_01i" [n] ∧
    lookup "increasing_k_cycles" n (some kk) = permFamily "increasing_k_cycles" [n, kk] ∧
    lookup "consecutive_k_cycles" n (some kk) = permFamily "consecutive_k_cycles" [n, kk] ∧
    lookup "down_cycles" n k = permFamily "down_cycles" [n] ∧
    lookup "prefix_cycles" n k = permFamily "prefix_cycles" [n] := by
  exact Cv.Families.lookup_constructor n k kk m s
example : (lookup "pancake" 4 none == permFamily "pancake" [4]) = true ∧ (permFamily "pancake" [4]).isSome = true ∧
    (lookup "lx-007" 0 none == permFamily "lx" [7]) = true ∧ (permFamily "lx" [7]).isSome = true := by decide

theorem lookup_roundtrip_lx (n : Nat) (d : PermDef) (h : permFamily "lx" [n] = some d)
    (n' : Nat) (k' : Option Nat) : lookup d.name n' k' = some d := by
  exact Cv.Families.lookup_roundtrip_lx n d h n' k'
example : (permFamily "lx" [4]).isSome = true ∧ (lookup "lx-4" 0 none == permFamily "lx" [4]) = true := by decide

theorem lookup_roundtrip_lrx (n : Nat) (d : PermDef) (h : permFamily "lrx" [n] = some d)
    (n' : Nat) (k' : Option Nat) : lookup d.name n' k' = some d := by
  exact Cv.Families.lookup_roundtrip_lrx n d h n' k'
example : (permFamily "lrx" [4]).isSome = true ∧ (lookup "lrx-4" 0 none == permFamily "lrx" [4]) = true := by decide

theorem lookup_own_name_lrx_k (n k : Nat) (hk : k ≠ 1) (d : PermDef)
    (h : permFamily "lrx" [n, k] = some d) (n' : Nat) (k' : Option Nat) :
    lookup d.name n' k' = none := by
  exact Cv.Families.lookup_own_name_lrx_k n k hk d h n' k'
example : (permFamily "lrx" [5, 2]).map (·.name) = some "lrx-5(k=2)" ∧ lookup "lrx-5(k=2)" 0 none = none := by decide

/-- every definition's own name is either empty, or `lx-<n>` / `lrx-<n>` of that very definition, or
`lrx-<n>(k=<k>)`, or starts with a prefix that the lookup rejects; hence: whenever the own name of a
definition is accepted by the lookup, the lookup returns that definition -/
theorem lookup_roundtrip (fam : String) (args : List Nat) (flags : List Bool) (d : PermDef)
    (h : permFamily fam args flags = some d) (n' : Nat) (k' : Option Nat) (d' : PermDef)
    (h' : lookup d.name n' k' = some d') : d' = d := by
  exact Cv.Families.lookup_roundtrip fam args flags d h n' k' d' h'
example : (permFamily "lx" [4]).map (·.name) = some "lx-4" ∧ (lookup "lx-4" 9 none == permFamily "lx" [4]) = true ∧ (permFamily "coxeter" [4]).map (·.name) = some "coxeter-4" ∧ lookup "coxeter-4" 4 none = none := by decide

/-- the own name of a definition is accepted by the lookup only if it maps back to the definition
(which happens exactly for `lx(n)` and `lrx(n)` with `k = 1`) -/
theorem lookup_accepts_iff (fam : String) (args : List Nat) (flags : List Bool) (d : PermDef)
    (h : permFamily fam args flags = some d) (n' : Nat) (k' : Option Nat) :
    (lookup d.name n' k').isSome = true ↔ lookup d.name n' k' = some d := by
  exact Cv.Families.lookup_accepts_iff fam args flags d h n' k'
example : (permFamily "lrx" [4]).map (·.name) = some "lrx-4" ∧ (lookup "lrx-4" 9 none).isSome = true := by decide

end Cv.C15
