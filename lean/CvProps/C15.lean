/-
  C15 — library graph families.  Property theorems only (filled in as proofs land).
-/
import CvModel.GraphDef
