/-
  C09e — end to end: what an EARLY-STOPPED `bfs` over the library's real state representations reports, stated on the
  MATHEMATICAL graph `permGraphNb perms` of decoded states (instances of the nine theorems of `CvProps/C09.lean`).
  For ANY `BfsCfg` (depth limit, layer-size limit, stop callback, storage threshold, hashes on/off) and ANY list of start
  states (repetitions allowed): the reported sizes are the sizes of the first distance classes from the start states,
  `completed = true` only if the next class is empty, a run that did not complete was stopped by one of the three
  documented rules, every stored layer DECODES to exactly its distance class, hashes and callback trace follow the rules.

  Three instances: `encodedPermGraph` (bit-encoded, any number of words, hash injective on rows of the encoded length),
  `plainPermGraph` (un-encoded), `encodedPermGraph1d` with `identityHash` (single word: NO hash hypothesis).
  Property theorems only; proofs in `CvProofs/InstanceExport.lean` (through `BfsHypO`, the orbit-restricted hypotheses of
  `CvProofs/Transport.lean`), evaluated runs in `CvProofs/InstanceExportExample.lean`.
-/
import CvProofs.InstanceExport
import CvProofs.InstanceExportExample
namespace Cv.C09e
open Cv Cv.Instance Cv.Codec Cv.Instance.Example Cv.InstX Cv.InstX.Example

/-! ## bit-encoded states -/

section encoded
/- the hypotheses shared by the nine theorems of this section (those of `C01e.encoded_bfs_layers_eq_dist_orbit`): width
`1 ≤ w ≤ 64`, generators are permutations of `n` points, hash injective on rows of the encoded length, the flag
`generators_inverse_closed` only set when the mathematical graph is symmetric on the orbit, batch size ≥ 1, start states
fit the width -/
variable (w n : Nat) (hw : 1 ≤ w) (hw' : w ≤ 64) (perms : List (List Nat))
  (hp : ∀ p ∈ perms, Cv.Perm.IsPermOf n p) (hash : List W → Int)
  (hinj : ∀ x y : List W, x.length = encLen w n → y.length = encLen w n → hash x = hash y → x = y)
  (ic : Bool) (starts : List (List Nat))
  (hic : ic = true → ∀ s t, InOrbit (permGraphNb perms) starts s → t ∈ permGraphNb perms s →
    s ∈ permGraphNb perms t)
  (batch : Nat) (hb : 0 < batch) (c : BfsCfg (List W))
  (hs : ∀ s ∈ starts, encodable w n s = true)
include hw hw' hp hinj hic hb hs

/-- the run the theorems talk about -/
local notation "R" => bfs (encodedPermGraph w n perms hash ic batch) c (starts.map (encode w n))

/-- non-vacuity of the shared hypotheses: LRX(4), width 2, collision-free `posHash`, flagged inverse-closed (two-layer
window), batch size 3 (batched branch), start list `[id, (1 2 3 0), id]` (two states, one repeated) -/
example : (1 ≤ 2 ∧ 2 ≤ 64) ∧ (∀ p ∈ lrx4, Cv.Perm.IsPermOf 4 p) ∧
    (∀ x y : List W, x.length = encLen 2 4 → y.length = encLen 2 4 → posHash x = posHash y → x = y) ∧
    (true = true → ∀ s t, InOrbit (permGraphNb lrx4) starts2 s → t ∈ permGraphNb lrx4 s → s ∈ permGraphNb lrx4 t) ∧
    0 < 3 ∧ (∀ s ∈ starts2, encodable 2 4 s = true) ∧ starts2 = [id4, [1, 2, 3, 0], id4] :=
  ⟨by decide, lrx4_perm, fun _ _ _ _ h => posHash_injective h, fun _ => starts2_symm, by decide, starts2_encodable, rfl⟩

/-- C09e: the reported sizes are always a prefix of the growth function of the mathematical graph -/
theorem encoded_bfs_sizes_prefix (i : Nat) (hi : i < (R).layerSizes.length) :
    ∃ L : List (List Nat), L.Nodup ∧ (∀ s, s ∈ L ↔ DistLayer (permGraphNb perms) starts i s) ∧
      (R).layerSizes[i]? = some L.length := by
  exact enc_sizes_prefix w n hw hw' perms hp hash ic batch starts hs
    (fun x y hx hy h => hinj x y (length_of_valid hx) (length_of_valid hy) h) hic hb c i hi

/-- non-vacuity: the run stopped by `max_diameter = 2` reports three layers -/
example : 2 < (bfs gX cD (starts2.map (encode 2 4))).layerSizes.length ∧
    (bfs gX cD (starts2.map (encode 2 4))).completed = false ∧
    (bfs gX cD (starts2.map (encode 2 4))).layerSizes = [2, 4, 6] := by
  refine ⟨?_, runD.1, runD.2.1⟩
  rw [runD.2.1]; decide

/-- every reported layer after layer 0 is non-empty -/
theorem encoded_bfs_sizes_pos (i : Nat) (hi : 0 < i) (m : Nat) (hm : (R).layerSizes[i]? = some m) : 0 < m := by
  exact enc_sizes_pos w n hw hw' perms hp hash ic batch starts hs
    (fun x y hx hy h => hinj x y (length_of_valid hx) (length_of_valid hy) h) hic hb c i hi m hm

example : 0 < 1 ∧ (bfs gX cD (starts2.map (encode 2 4))).layerSizes[1]? = some 4 := by
  refine ⟨by decide, ?_⟩
  rw [runD.2.1]; rfl

/-- completion is reported only when the next distance class of the mathematical graph is empty -/
theorem encoded_bfs_completed_sound (hc : (R).completed = true) :
    ∀ s, ¬ DistLayer (permGraphNb perms) starts (R).layerSizes.length s := by
  exact enc_completed_sound w n hw hw' perms hp hash ic batch starts hs
    (fun x y hx hy h => hinj x y (length_of_valid hx) (length_of_valid hy) h) hic hb c hc

example : (bfs gX {} (starts2.map (encode 2 4))).completed = true ∧
    (bfs gX {} (starts2.map (encode 2 4))).layerSizes = [2, 4, 6, 6, 4, 2] := runFull

/-- a run that did not complete was stopped by one of the three documented rules, at its last layer; when it was the
callback, the callback returned `true` on a layer that decodes to exactly the last reported distance class -/
theorem encoded_bfs_stopped_by_rule (hc : (R).completed = false) :
    (R).layerSizes.length = c.maxDiameter + 1 ∨
    (∃ m, (R).layerSizes.getLast? = some m ∧ c.maxExplore ≤ m ∧ 2 ≤ (R).layerSizes.length) ∨
    (∃ f L, c.stop = some f ∧ (L.map (decode w n)).Nodup ∧
        (∀ s, s ∈ L.map (decode w n) ↔ DistLayer (permGraphNb perms) starts ((R).layerSizes.length - 1) s) ∧
        f ((R).layerSizes.length - 1) L = true) := by
  exact enc_stopped_by_rule w n hw hw' perms hp hash ic batch starts hs
    (fun x y hx hy h => hinj x y (length_of_valid hx) (length_of_valid hy) h) hic hb c hc

/-- non-vacuity: three incomplete runs, one for each rule (iteration limit, size limit, callback) -/
example : (bfs gX cD (starts2.map (encode 2 4))).completed = false ∧
    (bfs gX cX (starts2.map (encode 2 4))).completed = false ∧
    (bfs gX cS (starts2.map (encode 2 4))).completed = false := ⟨runD.1, runX.1, runS.1⟩

/-- and conversely none of the rules fired earlier: every layer before the last is below the explore limit -/
theorem encoded_bfs_no_early_stop (i : Nat) (hi0 : 0 < i) (hi : i + 1 < (R).layerSizes.length) (m : Nat)
    (hm : (R).layerSizes[i]? = some m) : m < c.maxExplore := by
  exact enc_no_early_stop w n hw hw' perms hp hash ic batch starts hs
    (fun x y hx hy h => hinj x y (length_of_valid hx) (length_of_valid hy) h) hic hb c i hi0 hi m hm

example : 0 < 1 ∧ 1 + 1 < (bfs gX cX (starts2.map (encode 2 4))).layerSizes.length ∧
    (bfs gX cX (starts2.map (encode 2 4))).layerSizes[1]? = some 4 ∧ cX.maxExplore = 5 := by
  refine ⟨by decide, ?_, ?_, rfl⟩ <;> rw [runX.2.1] <;> decide

/-- every stored layer DECODES to exactly its distance class (no repetition), and its rows are the encodings of the
decoded states -/
theorem encoded_bfs_stored_sound (i : Nat) (L : List (List W)) (hm : (i, L) ∈ (R).layers) :
    (L.map (decode w n)).Nodup ∧ (∀ s, s ∈ L.map (decode w n) ↔ DistLayer (permGraphNb perms) starts i s) ∧
      ∀ x ∈ L, encodable w n (decode w n x) = true ∧ x = encode w n (decode w n x) := by
  exact enc_stored_sound w n hw hw' perms hp hash ic batch starts hs
    (fun x y hx hy h => hinj x y (length_of_valid hx) (length_of_valid hy) h) hic hb c i L hm

example : (1, [[0x36#64], [0x4e#64], [0x93#64], [0xe1#64]]) ∈ (bfs gX cS (starts2.map (encode 2 4))).layers ∧
    [[0x36#64], [0x4e#64], [0x93#64], [0xe1#64]].map (decode 2 4) =
      [[2, 1, 3, 0], [2, 3, 0, 1], [3, 0, 1, 2], [1, 0, 2, 3]] := by
  refine ⟨?_, by decide +kernel⟩
  rw [runS.2.2.1]; decide

/-- … and layers are stored exactly by the documented rule -/
theorem encoded_bfs_stored_iff (i : Nat) :
    (∃ L, (i, L) ∈ (R).layers) ↔
      ∃ m, (R).layerSizes[i]? = some m ∧
        (i = 0 ∨ m ≤ c.storeLimit ∨ ((R).completed = true ∧ i + 1 = (R).layerSizes.length)) := by
  exact enc_stored_iff w n hw hw' perms hp hash ic batch starts hs
    (fun x y hx hy h => hinj x y (length_of_valid hx) (length_of_valid hy) h) hic hb c i

/-- non-vacuity: with `max_layer_size_to_store = 4` layer 2 (six states) is reported but not stored -/
example : (bfs gX cS (starts2.map (encode 2 4))).layerSizes = [2, 4, 6] ∧
    (bfs gX cS (starts2.map (encode 2 4))).layers.map (·.1) = [0, 1] ∧ cS.storeLimit = 4 := by
  refine ⟨runS.2.1, ?_, rfl⟩
  rw [runS.2.2.1]; rfl

/-- per-layer hashes: strictly sorted, and a rearrangement of the hashes of the encodings of the distance class -/
theorem encoded_bfs_hashes_rule :
    (c.returnHashes = false → (R).hashes = []) ∧
    (c.returnHashes = true → (R).hashes.length = (R).layerSizes.length ∧
      ∀ i H, (R).hashes[i]? = some H →
        H.Pairwise (· < ·) ∧ ∃ L : List (List Nat), L.Nodup ∧
          (∀ s, s ∈ L ↔ DistLayer (permGraphNb perms) starts i s) ∧
          H.Perm (L.map fun s => hash (encode w n s))) := by
  exact enc_hashes_rule w n hw hw' perms hp hash ic batch starts hs
    (fun x y hx hy h => hinj x y (length_of_valid hx) (length_of_valid hy) h) hic hb c

example : cS.returnHashes = true ∧
    (bfs gX cS (starts2.map (encode 2 4))).hashes.map (·.length) = [2, 4, 6] := ⟨rfl, runS.2.2.2.2.1⟩

/-- callback trace: called on layers 1,2,… in order, each once; on every reported layer except a last layer on which the
size limit fired first -/
theorem encoded_bfs_callback_trace :
    (c.stop = none → (R).cbTrace = []) ∧
    (∀ f, c.stop = some f → ∃ m, (R).cbTrace = (List.range m).map (· + 1) ∧
        (m + 1 = (R).layerSizes.length ∨
         (m + 2 = (R).layerSizes.length ∧ ∃ k, (R).layerSizes.getLast? = some k ∧ c.maxExplore ≤ k))) := by
  exact enc_callback_trace w n hw hw' perms hp hash ic batch starts hs
    (fun x y hx hy h => hinj x y (length_of_valid hx) (length_of_valid hy) h) hic hb c

/-- non-vacuity: both alternatives occur (callback on every layer; size limit fired before the callback) -/
example : (∃ f, cS.stop = some f) ∧ (bfs gX cS (starts2.map (encode 2 4))).cbTrace = [1, 2] ∧
      (bfs gX cS (starts2.map (encode 2 4))).layerSizes.length = 3 ∧
    (∃ f, cX.stop = some f) ∧ (bfs gX cX (starts2.map (encode 2 4))).cbTrace = [1] ∧
      (bfs gX cX (starts2.map (encode 2 4))).layerSizes.length = 3 := by
  refine ⟨⟨_, rfl⟩, runS.2.2.2.2.2, ?_, ⟨_, rfl⟩, runX.2.2, ?_⟩
  · rw [runS.2.1]; rfl
  · rw [runX.2.1]; rfl

end encoded

/-! ## un-encoded states (`bit_encoding_width = None`) -/

section plain
/- shared hypotheses (those of `C01e.plain_bfs_layers_eq_dist`): hash injective on the orbit, flag only set when the
graph is symmetric on the orbit, batch size ≥ 1; nothing is asked of `perms` or of the start states -/
variable (perms : List (List Nat)) (hash : List Nat → Int) (starts : List (List Nat))
  (hinj : ∀ s t, InOrbit (permGraphNb perms) starts s → InOrbit (permGraphNb perms) starts t →
    hash s = hash t → s = t)
  (ic : Bool)
  (hic : ic = true → ∀ s t, InOrbit (permGraphNb perms) starts s → t ∈ permGraphNb perms s →
    s ∈ permGraphNb perms t)
  (batch : Nat) (hb : 0 < batch) (c : BfsCfg (List Nat))
include hinj hic hb

local notation "R" => bfs (plainPermGraph perms hash ic batch) c starts

/-- non-vacuity of the shared hypotheses: LRX(4) un-encoded, hash = the state read in base 4, flagged inverse-closed,
batch size 2, the same start list with a repetition -/
example :
    (∀ s t, InOrbit (permGraphNb lrx4) starts2 s → InOrbit (permGraphNb lrx4) starts2 t → b4Hash s = b4Hash t → s = t) ∧
    (true = true → ∀ s t, InOrbit (permGraphNb lrx4) starts2 s → t ∈ permGraphNb lrx4 s → s ∈ permGraphNb lrx4 t) ∧
    0 < 2 := ⟨b4Hash_inj2, fun _ => starts2_symm, by decide⟩

theorem plain_bfs_sizes_prefix (i : Nat) (hi : i < (R).layerSizes.length) :
    ∃ L : List (List Nat), L.Nodup ∧ (∀ s, s ∈ L ↔ DistLayer (permGraphNb perms) starts i s) ∧
      (R).layerSizes[i]? = some L.length := by
  exact pl_sizes_prefix perms hash ic batch starts hinj hic hb c i hi

example : 2 < (bfs gP2 cSp starts2).layerSizes.length ∧ (bfs gP2 cSp starts2).completed = false ∧
    (bfs gP2 cSp starts2).layerSizes = [2, 4, 6] := by
  refine ⟨?_, runSp.1, runSp.2.1⟩
  rw [runSp.2.1]; decide

theorem plain_bfs_sizes_pos (i : Nat) (hi : 0 < i) (m : Nat) (hm : (R).layerSizes[i]? = some m) : 0 < m := by
  exact pl_sizes_pos perms hash ic batch starts hinj hic hb c i hi m hm

example : 0 < 1 ∧ (bfs gP2 cSp starts2).layerSizes[1]? = some 4 := by
  refine ⟨by decide, ?_⟩
  rw [runSp.2.1]; rfl

theorem plain_bfs_completed_sound (hc : (R).completed = true) :
    ∀ s, ¬ DistLayer (permGraphNb perms) starts (R).layerSizes.length s := by
  exact pl_completed_sound perms hash ic batch starts hinj hic hb c hc

example : (bfs gP2 {} starts2).completed = true ∧ (bfs gP2 {} starts2).layerSizes = [2, 4, 6, 6, 4, 2] := runFullp

theorem plain_bfs_stopped_by_rule (hc : (R).completed = false) :
    (R).layerSizes.length = c.maxDiameter + 1 ∨
    (∃ m, (R).layerSizes.getLast? = some m ∧ c.maxExplore ≤ m ∧ 2 ≤ (R).layerSizes.length) ∨
    (∃ f L, c.stop = some f ∧ L.Nodup ∧
        (∀ s, s ∈ L ↔ DistLayer (permGraphNb perms) starts ((R).layerSizes.length - 1) s) ∧
        f ((R).layerSizes.length - 1) L = true) := by
  exact pl_stopped_by_rule perms hash ic batch starts hinj hic hb c hc

example : (bfs gP2 cSp starts2).completed = false ∧ (∃ f, cSp.stop = some f) := ⟨runSp.1, _, rfl⟩

theorem plain_bfs_no_early_stop (i : Nat) (hi0 : 0 < i) (hi : i + 1 < (R).layerSizes.length) (m : Nat)
    (hm : (R).layerSizes[i]? = some m) : m < c.maxExplore := by
  exact pl_no_early_stop perms hash ic batch starts hinj hic hb c i hi0 hi m hm

example : 0 < 1 ∧ 1 + 1 < (bfs gP2 cSp starts2).layerSizes.length ∧
    (bfs gP2 cSp starts2).layerSizes[1]? = some 4 := by
  refine ⟨by decide, ?_, ?_⟩ <;> rw [runSp.2.1] <;> decide

theorem plain_bfs_stored_sound (i : Nat) (L : List (List Nat)) (hm : (i, L) ∈ (R).layers) :
    L.Nodup ∧ ∀ s, s ∈ L ↔ DistLayer (permGraphNb perms) starts i s := by
  exact pl_stored_sound perms hash ic batch starts hinj hic hb c i L hm

example : (1, [[1, 0, 2, 3], [2, 1, 3, 0], [2, 3, 0, 1], [3, 0, 1, 2]]) ∈ (bfs gP2 cSp starts2).layers := by
  rw [runSp.2.2.1]; decide

theorem plain_bfs_stored_iff (i : Nat) :
    (∃ L, (i, L) ∈ (R).layers) ↔
      ∃ m, (R).layerSizes[i]? = some m ∧
        (i = 0 ∨ m ≤ c.storeLimit ∨ ((R).completed = true ∧ i + 1 = (R).layerSizes.length)) := by
  exact pl_stored_iff perms hash ic batch starts hinj hic hb c i

example : (bfs gP2 cSp starts2).layerSizes = [2, 4, 6] ∧ (bfs gP2 cSp starts2).layers.map (·.1) = [0, 1] ∧
    cSp.storeLimit = 4 := by
  refine ⟨runSp.2.1, ?_, rfl⟩
  rw [runSp.2.2.1]; rfl

theorem plain_bfs_hashes_rule :
    (c.returnHashes = false → (R).hashes = []) ∧
    (c.returnHashes = true → (R).hashes.length = (R).layerSizes.length ∧
      ∀ i H, (R).hashes[i]? = some H →
        H.Pairwise (· < ·) ∧ ∃ L : List (List Nat), L.Nodup ∧
          (∀ s, s ∈ L ↔ DistLayer (permGraphNb perms) starts i s) ∧ H.Perm (L.map hash)) := by
  exact pl_hashes_rule perms hash ic batch starts hinj hic hb c

example : cSp.returnHashes = true ∧
    (bfs gP2 cSp starts2).hashes = [[27, 108], [75, 156, 177, 198], [39, 45, 54, 114, 210, 225]] :=
  ⟨rfl, runSp.2.2.2.1⟩

theorem plain_bfs_callback_trace :
    (c.stop = none → (R).cbTrace = []) ∧
    (∀ f, c.stop = some f → ∃ m, (R).cbTrace = (List.range m).map (· + 1) ∧
        (m + 1 = (R).layerSizes.length ∨
         (m + 2 = (R).layerSizes.length ∧ ∃ k, (R).layerSizes.getLast? = some k ∧ c.maxExplore ≤ k))) := by
  exact pl_callback_trace perms hash ic batch starts hinj hic hb c

example : (∃ f, cSp.stop = some f) ∧ (bfs gP2 cSp starts2).cbTrace = [1, 2] := ⟨⟨_, rfl⟩, runSp.2.2.2.2⟩

end plain

/-! ## single-word states: the 1-D routines and the identity hasher — NO hash hypothesis -/

section single
/- shared hypotheses: as in the first section, `hinj` replaced by `encLen w n = 1` (the state fits one 64-bit word); the
graph is the one the library builds in this case (`encodedPermGraph1d`, routines `lambda x: t1 | t2 | …`), the hasher is
the identity -/
variable (w n : Nat) (hw : 1 ≤ w) (hw' : w ≤ 64) (hlen : encLen w n = 1) (perms : List (List Nat))
  (hp : ∀ p ∈ perms, Cv.Perm.IsPermOf n p) (ic : Bool) (starts : List (List Nat))
  (hic : ic = true → ∀ s t, InOrbit (permGraphNb perms) starts s → t ∈ permGraphNb perms s →
    s ∈ permGraphNb perms t)
  (batch : Nat) (hb : 0 < batch) (c : BfsCfg (List W))
  (hs : ∀ s ∈ starts, encodable w n s = true)
include hw hw' hlen hp hic hb hs

local notation "R" => bfs (encodedPermGraph1d w n perms identityHash ic batch) c (starts.map (encode w n))

/-- non-vacuity of the shared hypotheses: LRX(4), width 2, 8 bits = one word -/
example : (1 ≤ 2 ∧ 2 ≤ 64) ∧ encLen 2 4 = 1 ∧ (∀ p ∈ lrx4, Cv.Perm.IsPermOf 4 p) ∧
    (true = true → ∀ s t, InOrbit (permGraphNb lrx4) starts2 s → t ∈ permGraphNb lrx4 s → s ∈ permGraphNb lrx4 t) ∧
    0 < 1 ∧ (∀ s ∈ starts2, encodable 2 4 s = true) :=
  ⟨by decide, encLen_2_4, lrx4_perm, fun _ => starts2_symm, by decide, starts2_encodable⟩

omit hic hb hs in
/-- the run on the 1-D graph is the run on `encodedPermGraph` (any hash) -/
theorem encoded1d_bfs_eq (hash : List W → Int) :
    bfs (encodedPermGraph1d w n perms hash ic batch) c (starts.map (encode w n)) =
      bfs (encodedPermGraph w n perms hash ic batch) c (starts.map (encode w n)) := by
  exact bfs1d_eq w n hw hw' hlen perms hp hash ic batch c starts

theorem single_word_bfs_sizes_prefix (i : Nat) (hi : i < (R).layerSizes.length) :
    ∃ L : List (List Nat), L.Nodup ∧ (∀ s, s ∈ L ↔ DistLayer (permGraphNb perms) starts i s) ∧
      (R).layerSizes[i]? = some L.length := by
  rw [bfs1d_eq w n hw hw' hlen perms hp identityHash ic batch c starts] at hi ⊢
  exact enc_sizes_prefix w n hw hw' perms hp identityHash ic batch starts hs (identityHash_inj_valid w n hlen)
    hic hb c i hi

theorem single_word_bfs_sizes_pos (i : Nat) (hi : 0 < i) (m : Nat) (hm : (R).layerSizes[i]? = some m) : 0 < m := by
  rw [bfs1d_eq w n hw hw' hlen perms hp identityHash ic batch c starts] at hm
  exact enc_sizes_pos w n hw hw' perms hp identityHash ic batch starts hs (identityHash_inj_valid w n hlen)
    hic hb c i hi m hm

theorem single_word_bfs_completed_sound (hc : (R).completed = true) :
    ∀ s, ¬ DistLayer (permGraphNb perms) starts (R).layerSizes.length s := by
  rw [bfs1d_eq w n hw hw' hlen perms hp identityHash ic batch c starts] at hc ⊢
  exact enc_completed_sound w n hw hw' perms hp identityHash ic batch starts hs (identityHash_inj_valid w n hlen)
    hic hb c hc

theorem single_word_bfs_stopped_by_rule (hc : (R).completed = false) :
    (R).layerSizes.length = c.maxDiameter + 1 ∨
    (∃ m, (R).layerSizes.getLast? = some m ∧ c.maxExplore ≤ m ∧ 2 ≤ (R).layerSizes.length) ∨
    (∃ f L, c.stop = some f ∧ (L.map (decode w n)).Nodup ∧
        (∀ s, s ∈ L.map (decode w n) ↔ DistLayer (permGraphNb perms) starts ((R).layerSizes.length - 1) s) ∧
        f ((R).layerSizes.length - 1) L = true) := by
  rw [bfs1d_eq w n hw hw' hlen perms hp identityHash ic batch c starts] at hc ⊢
  exact enc_stopped_by_rule w n hw hw' perms hp identityHash ic batch starts hs (identityHash_inj_valid w n hlen)
    hic hb c hc

theorem single_word_bfs_no_early_stop (i : Nat) (hi0 : 0 < i) (hi : i + 1 < (R).layerSizes.length) (m : Nat)
    (hm : (R).layerSizes[i]? = some m) : m < c.maxExplore := by
  rw [bfs1d_eq w n hw hw' hlen perms hp identityHash ic batch c starts] at hi hm
  exact enc_no_early_stop w n hw hw' perms hp identityHash ic batch starts hs (identityHash_inj_valid w n hlen)
    hic hb c i hi0 hi m hm

theorem single_word_bfs_stored_sound (i : Nat) (L : List (List W)) (hm : (i, L) ∈ (R).layers) :
    (L.map (decode w n)).Nodup ∧ (∀ s, s ∈ L.map (decode w n) ↔ DistLayer (permGraphNb perms) starts i s) ∧
      ∀ x ∈ L, encodable w n (decode w n x) = true ∧ x = encode w n (decode w n x) := by
  rw [bfs1d_eq w n hw hw' hlen perms hp identityHash ic batch c starts] at hm
  exact enc_stored_sound w n hw hw' perms hp identityHash ic batch starts hs (identityHash_inj_valid w n hlen)
    hic hb c i L hm

theorem single_word_bfs_stored_iff (i : Nat) :
    (∃ L, (i, L) ∈ (R).layers) ↔
      ∃ m, (R).layerSizes[i]? = some m ∧
        (i = 0 ∨ m ≤ c.storeLimit ∨ ((R).completed = true ∧ i + 1 = (R).layerSizes.length)) := by
  rw [bfs1d_eq w n hw hw' hlen perms hp identityHash ic batch c starts]
  exact enc_stored_iff w n hw hw' perms hp identityHash ic batch starts hs (identityHash_inj_valid w n hlen)
    hic hb c i

theorem single_word_bfs_hashes_rule :
    (c.returnHashes = false → (R).hashes = []) ∧
    (c.returnHashes = true → (R).hashes.length = (R).layerSizes.length ∧
      ∀ i H, (R).hashes[i]? = some H →
        H.Pairwise (· < ·) ∧ ∃ L : List (List Nat), L.Nodup ∧
          (∀ s, s ∈ L ↔ DistLayer (permGraphNb perms) starts i s) ∧
          H.Perm (L.map fun s => identityHash (encode w n s))) := by
  rw [bfs1d_eq w n hw hw' hlen perms hp identityHash ic batch c starts]
  exact enc_hashes_rule w n hw hw' perms hp identityHash ic batch starts hs (identityHash_inj_valid w n hlen)
    hic hb c

theorem single_word_bfs_callback_trace :
    (c.stop = none → (R).cbTrace = []) ∧
    (∀ f, c.stop = some f → ∃ m, (R).cbTrace = (List.range m).map (· + 1) ∧
        (m + 1 = (R).layerSizes.length ∨
         (m + 2 = (R).layerSizes.length ∧ ∃ k, (R).layerSizes.getLast? = some k ∧ c.maxExplore ≤ k))) := by
  rw [bfs1d_eq w n hw hw' hlen perms hp identityHash ic batch c starts]
  exact enc_callback_trace w n hw hw' perms hp identityHash ic batch starts hs (identityHash_inj_valid w n hlen)
    hic hb c

/-- non-vacuity of the conclusions: the early-stopped single-word run (1-D routines, identity hasher, batch size 1),
evaluated in the kernel -/
example :
    (bfs (encodedPermGraph1d 2 4 lrx4 identityHash true 1) cS (starts2.map (encode 2 4))).completed = false ∧
    (bfs (encodedPermGraph1d 2 4 lrx4 identityHash true 1) cS (starts2.map (encode 2 4))).layerSizes = [2, 4, 6] ∧
    (bfs (encodedPermGraph1d 2 4 lrx4 identityHash true 1) cS (starts2.map (encode 2 4))).layers.map
        (fun p => (p.1, p.2.map (decode 2 4))) =
      [(0, [[1, 2, 3, 0], [0, 1, 2, 3]]), (1, [[2, 1, 3, 0], [2, 3, 0, 1], [3, 0, 1, 2], [1, 0, 2, 3]])] ∧
    (bfs (encodedPermGraph1d 2 4 lrx4 identityHash true 1) cS (starts2.map (encode 2 4))).hashes =
      [[57, 228], [54, 78, 147, 225], [75, 120, 135, 141, 156, 216]] ∧
    (bfs (encodedPermGraph1d 2 4 lrx4 identityHash true 1) cS (starts2.map (encode 2 4))).cbTrace = [1, 2] := run1d

end single

/-! ## each hypothesis is needed (model evaluated on LRX(4); `CvProofs/InstanceExample.lean`, `InstanceExportExample.lean`) -/

/-- `hs` (start states fit the width) is needed: width 1 cannot hold the entries of `[0, 1, 2, 3]`; the run reports
completion after 3 layers, but class 3 of LRX(4) is not empty (`encoded_bfs_completed_sound` fails) -/
example : encodable 1 4 id4 = false ∧
    (bfs (encodedPermGraph 1 4 lrx4 identityHash true 1) {} ([id4].map (encode 1 4))).completed = true ∧
    ¬ ∀ s, ¬ DistLayer (permGraphNb lrx4) [id4]
      (bfs (encodedPermGraph 1 4 lrx4 identityHash true 1) {} ([id4].map (encode 1 4))).layerSizes.length s := by
  obtain ⟨h1, h2, h3, h4⟩ := hs_needed
  refine ⟨h1, h2, fun h => ?_⟩
  rw [h3] at h
  exact h _ h4

/-- `hinj` (no hash collisions) is needed: with a constant hash completion is reported after layer 0 -/
example : (bfs (encodedPermGraph 2 4 lrx4 (fun _ => 0) true 1) {} ([id4].map (encode 2 4))).completed = true ∧
    ¬ ∀ s, ¬ DistLayer (permGraphNb lrx4) [id4]
      (bfs (encodedPermGraph 2 4 lrx4 (fun _ => 0) true 1) {} ([id4].map (encode 2 4))).layerSizes.length s := by
  obtain ⟨h1, h2, h3⟩ := hinj_needed
  refine ⟨h1, fun h => ?_⟩
  rw [h2] at h
  exact h _ h3

/-- `hic` (the flag is only set for a symmetric graph) is needed: the 3-cycle wrongly flagged inverse-closed, stopped by
`max_diameter = 5`, reports a layer 3 of size 1 although class 3 is empty (`plain_bfs_sizes_prefix` fails) -/
example : (bfs (plainPermGraph [[1, 2, 0]] b4Hash true 2) { maxDiameter := 5 } [[0, 1, 2]]).completed = false ∧
    (bfs (plainPermGraph [[1, 2, 0]] b4Hash true 2) { maxDiameter := 5 } [[0, 1, 2]]).layerSizes[3]? = some 1 ∧
    ∀ s, ¬ DistLayer (permGraphNb [[1, 2, 0]]) [[0, 1, 2]] 3 s := by
  obtain ⟨h1, h2, -, -, h5⟩ := hic_wrong_flag
  exact ⟨h1, by rw [h2]; rfl, h5⟩

/-- `hb` (batch size ≥ 1) is needed: with batch size 0 completion is reported after layer 0 -/
example : (bfs (encodedPermGraph 2 4 lrx4 posHash true 0) {} (starts2.map (encode 2 4))).completed = true ∧
    ¬ ∀ s, ¬ DistLayer (permGraphNb lrx4) starts2
      (bfs (encodedPermGraph 2 4 lrx4 posHash true 0) {} (starts2.map (encode 2 4))).layerSizes.length s := by
  obtain ⟨h1, h2, h3⟩ := batch0_needed
  refine ⟨h1, fun h => ?_⟩
  rw [h2] at h
  exact h _ h3

end Cv.C09e
