/-
  C15 (G5) — the `PermutationGroups` constructors that edit lists in place, REGENERATED from the Python source
  (`CvGen/PyFamilies.lean`, namespace `Cv.PyGen.Fam`) and passed through the model of `CayleyGraphDef.create`,
  equal the closed-form specification `CvModel/Families.lean`, for ALL parameter values.
  Proofs are in `CvProofs/PyFamG5*.lean`, `CvProofs/PyLemmasG5.lean`.
-/
import CvProofs.PyFamG5M2
import CvProofs.PyFamG5Koltsov
import CvProofs.PyFamG5M1
import CvProofs.PyFamG5Shev
namespace Cv.C15g5
open Cv.Py Cv.PyGen Cv.Families

/-- source-translated `rapaport_m2` ∘ model of `CayleyGraphDef.create` = closed-form specification -/
theorem rapaport_m2_gen (n : Nat) : (Fam.rapaport_m2 (n : Int)).bind rawToPermDef = Families.rapaportM2 n := by
  exact Cv.PyG5.rapaport_m2_gen n
example : Fam.rapaport_m2 5 = some ⟨[[1,0,2,3,4],[1,0,3,2,4],[0,2,1,4,3]], some [0,1,2,3,4],
      some ["(0,1)", "EvenDisjTrans", "OddDisjTrans"], some "rapaport_m2-5"⟩ ∧
    (Families.rapaportM2 5).map (·.gens) = some [[1,0,2,3,4],[1,0,3,2,4],[0,2,1,4,3]] ∧
    Fam.rapaport_m2 1 = none ∧ (Families.rapaportM2 1).isNone := by decide

/-- the source asserts `1 < n` (inside `transposition(n, 0, 1)`) -/
theorem rapaport_m2_gen_neg (n : Int) (h : n < 0) : Fam.rapaport_m2 n = none := by
  exact Cv.PyG5.rapaport_m2_gen_neg n (by omega)
example : Fam.rapaport_m2 (-3) = none := by decide

/-- source-translated `koltsov3` ∘ model of `CayleyGraphDef.create` = closed-form specification (all four
parameters; in particular `none` on both sides when `perm_type ∉ {1, 2}` or an assertion fails, and the
degenerate `d = 0` of type 1 gives the identity as third generator on both sides) -/
theorem koltsov3_gen (n t k d : Nat) :
    (Fam.koltsov3 (n : Int) (t : Int) (k : Int) (d : Int)).bind rawToPermDef = Families.koltsov3 n t k d := by
  exact Cv.PyG5.koltsov3_gen n t k d
example : Fam.koltsov3 6 2 1 1 = some ⟨[[1, 0, 3, 2, 5, 4], [0, 2, 1, 4, 3, 5], [0, 4, 3, 2, 1, 5]],
      some [0, 1, 2, 3, 4, 5], some ["I", "K", "S"], some "koltsov3-n6-k1"⟩ ∧
    (Families.koltsov3 6 2 1 1).map (·.gens) = some [[1, 0, 3, 2, 5, 4], [0, 2, 1, 4, 3, 5], [0, 4, 3, 2, 1, 5]] ∧
    (Fam.koltsov3 5 1 2 0).map (·.gens) = some [[1, 0, 3, 2, 4], [0, 2, 1, 4, 3], [0, 1, 2, 3, 4]] ∧
    (Families.koltsov3 5 1 2 0).map (·.gens) = some [[1, 0, 3, 2, 4], [0, 2, 1, 4, 3], [0, 1, 2, 3, 4]] ∧
    Fam.koltsov3 5 3 1 1 = none ∧ (Families.koltsov3 5 3 1 1).isNone := by decide

/-- source-translated `rapaport_m1` ∘ model of `CayleyGraphDef.create` = closed-form specification (the source has
no assertion: for `n ≤ 1` the generator list is empty, `create` rejects it, and the specification is `none`) -/
theorem rapaport_m1_gen (n : Nat) : (Fam.rapaport_m1 (n : Int)).bind rawToPermDef = Families.rapaportM1 n := by
  exact Cv.PyG5.rapaport_m1_gen n
example : Fam.rapaport_m1 5 = some ⟨[[1, 0, 2, 3, 4], [1, 0, 3, 2, 4], [0, 2, 1, 3, 4], [0, 2, 1, 4, 3]],
      some [0, 1, 2, 3, 4], some ["M1_0_1", "M1_0_2", "M1_1_1", "M1_1_2"], some "rapaport_m1-5"⟩ ∧
    (Families.rapaportM1 5).map (·.gens) = some [[1, 0, 2, 3, 4], [1, 0, 3, 2, 4], [0, 2, 1, 3, 4], [0, 2, 1, 4, 3]] ∧
    (Families.rapaportM1 5).map (·.names) = some ["M1_0_1", "M1_0_2", "M1_1_1", "M1_1_2"] ∧
    Fam.rapaport_m1 1 = some ⟨[], some [0], some [], some "rapaport_m1-1"⟩ ∧ (Families.rapaportM1 1).isNone := by
  decide

/-- source-translated `sheveleva2` ∘ model of `CayleyGraphDef.create` = closed-form specification -/
theorem sheveleva2_gen (n k : Nat) :
    (Fam.sheveleva2 (n : Int) (k : Int)).bind rawToPermDef = Families.sheveleva2 n k := by
  exact Cv.PyG5.sheveleva2_gen n k
example : Fam.sheveleva2 7 2 = some ⟨[[1, 0, 2, 5, 4, 3, 6], [0, 2, 3, 4, 1, 6, 5]], some [0, 1, 2, 3, 4, 5, 6],
      some ["A", "S"], some "sheveleva2-n7-k2"⟩ ∧
    (Families.sheveleva2 7 2).map (·.gens) = some [[1, 0, 2, 5, 4, 3, 6], [0, 2, 3, 4, 1, 6, 5]] ∧
    (Fam.sheveleva2 6 3).map (·.gens) = some [[0, 2, 1, 3, 4, 5], [1, 0, 3, 4, 5, 2]] ∧
    (Families.sheveleva2 6 3).map (·.gens) = some [[0, 2, 1, 3, 4, 5], [1, 0, 3, 4, 5, 2]] ∧
    Fam.sheveleva2 5 3 = none ∧ (Families.sheveleva2 5 3).isNone := by decide

/-- the source asserts `1 <= k <= n - 3`, which fails for every negative `n` or `k` -/
theorem sheveleva2_gen_neg (n k : Int) (h : n < 0 ∨ k < 0) : Fam.sheveleva2 n k = none := by
  exact Cv.PyG5.sheveleva2_gen_none n k (by omega)
example : Fam.sheveleva2 (-1) 2 = none ∧ Fam.sheveleva2 7 (-2) = none := by decide

end Cv.C15g5
