/-
  C13 — container / dtype / shape independence of the normalisation of user-supplied states
  (`CayleyGraph.encode_states`, `CayleyGraphDef.normalize_central_state`, generator normalisation in
  `CayleyGraphDef.create`; model `CvModel/Normalize.lean`).  Property theorems only; proofs in `CvProofs/Normalize.lean`.

  Findings recorded here by `example`:
  * `normalize_congr` as first sketched (only `fits i`, `fits j`, equal values) is FALSE for one reason: a `str` is
    accepted as a central state but rejected by `torch.as_tensor` in `encode_states` (`TypeError`).  The exact extra
    condition is "both inputs are strings or neither" (`hs`); counterexample below.  The central-state version needs no
    such condition.
  * `fits` is needed: an int8 array cannot hold 200, it holds -56.
  * Without the cast to int64 (the code before the fix) the bit-serial encoder is wrong on narrow dtypes as soon as a bit
    of the row reaches the sign bit of the dtype (`w * n ≥ bits`), and right below that (`encodeNarrow_eq_of_lt`).
-/
import CvProofs.Normalize
namespace Cv.Normalize

/-- states: the rows after `torch.as_tensor(states, dtype=int64).reshape((-1, stateSize))` depend only on the row-major
values — not on the container kind, its dtype, or the shape — for representable values -/
theorem normalize_congr (stateSize : Nat) (i j : Input) (hi : fits i) (hj : fits j) (hv : i.values = j.values)
    (hs : i.container = .str ↔ j.container = .str) :
    normalizeStates stateSize i = normalizeStates stateSize j := by
  exact normalize_congr' stateSize i j hi hj hv hs

/-- non-vacuity: an int8 NumPy matrix, a flat Python list, a uint8 torch one-row batch and an int32 batch of two states
all give the same rows -/
example : normalizeStates 4 ⟨.npArray 8 true, .matrix 2 2, [0, 1, 2, 3]⟩ = some [[0, 1, 2, 3]] := by decide
example : normalizeStates 4 ⟨.npArray 8 true, .matrix 2 2, [0, 1, 2, 3]⟩ =
    normalizeStates 4 ⟨.pyList, .flat, [0, 1, 2, 3]⟩ :=
  normalize_congr 4 _ _ (by decide) (by decide) rfl (by decide)
example : normalizeStates 4 ⟨.torchTensor 8 false, .oneRow, [0, 1, 2, 3]⟩ =
    normalizeStates 4 ⟨.pyList, .flat, [0, 1, 2, 3]⟩ :=
  normalize_congr 4 _ _ (by decide) (by decide) rfl (by decide)
example : normalizeStates 2 ⟨.torchTensor 32 true, .batch 2, [0, 1, 1, 0]⟩ = some [[0, 1], [1, 0]] := by decide
/-- `hs` is needed: the digits "0123" are a valid central state but not valid states -/
example : fits ⟨.str, .flat, [0, 1, 2, 3]⟩ = true ∧ fits ⟨.pyList, .flat, [0, 1, 2, 3]⟩ = true ∧
    normalizeStates 4 ⟨.str, .flat, [0, 1, 2, 3]⟩ ≠ normalizeStates 4 ⟨.pyList, .flat, [0, 1, 2, 3]⟩ := by decide
/-- `fits` is needed: the list `[200]` and an int8 array "holding 200" (it holds -56) give different rows -/
example : normalizeStates 1 ⟨.npArray 8 true, .flat, [200]⟩ = some [[-56]] ∧
    normalizeStates 1 ⟨.pyList, .flat, [200]⟩ = some [[200]] := by decide
/-- where the code raises: a size that is not a multiple of the state size, a Python int outside int64 -/
example : normalizeStates 2 ⟨.pyList, .flat, [0, 1, 2]⟩ = none := by decide
example : normalizeStates 1 ⟨.pyList, .flat, [2 ^ 63]⟩ = none := by decide
/-- the cast wraps only for np.uint64 values `≥ 2^63` -/
example : normalizeStates 1 ⟨.npArray 64 false, .flat, [2 ^ 63 + 5]⟩ = some [[-9223372036854775803]] := by decide

/-- the cast is the identity on representable values for every dtype contained in int64 (and for Python lists, whose
values `fits` checks against int64) -/
theorem asInt64_id (i : Input) (h : fits i)
    (hc : match i.container with
      | .npArray b s => widening b s
      | .torchTensor b s => widening b s
      | _ => True) : asInt64 i = i.values := by
  exact asInt64_eq_values_of_widening i h hc

example : asInt64 ⟨.npArray 16 true, .flat, [-300, 7]⟩ = [-300, 7] :=
  asInt64_id _ (by decide) (Or.inl ⟨rfl, by decide⟩)

/-- when `normalizeStates` succeeds the rows have the state size and, concatenated, are the cast values -/
theorem normalizeStates_sound (stateSize : Nat) (i : Input) (rows : List (List Int))
    (h : normalizeStates stateSize i = some rows) :
    (∀ row ∈ rows, row.length = stateSize) ∧ rows.flatten = asInt64 i ∧
      rows.length * stateSize = i.values.length := by
  exact normalizeStates_rows stateSize i rows h

example : normalizeStates 2 ⟨.torchTensor 32 true, .batchMatrix 2 1 2, [0, 1, 1, 0]⟩ = some [[0, 1], [1, 0]] := by
  decide

/-- central state: `[int(x) for x in flatten(central_state)]` depends only on the values; strings of digits included -/
theorem normalizeCentral_congr (i j : Input) (hi : fits i) (hj : fits j) (hv : i.values = j.values) :
    normalizeCentral i = normalizeCentral j := by
  exact normalizeCentral_congr' i j hi hj hv

example : normalizeCentral ⟨.str, .flat, [0, 1, 2, 3]⟩ = normalizeCentral ⟨.npArray 8 true, .matrix 2 2, [0, 1, 2, 3]⟩ :=
  normalizeCentral_congr _ _ (by decide) (by decide) rfl
example : normalizeCentral ⟨.str, .flat, [0, 1, 2, 3]⟩ = [0, 1, 2, 3] := by decide
example : normalizeCentral ⟨.torchTensor 8 false, .oneRow, [250, 2]⟩ = [250, 2] := by decide

/-- generators: the rows of a 2-D container, each entry through `int(x)`, depend only on the values and the shape -/
theorem normalizeGens_congr (i j : Input) (hi : fits i) (hj : fits j) (hv : i.values = j.values)
    (hsh : i.shape = j.shape) (hs : i.container = .str ↔ j.container = .str) :
    normalizeGens i = normalizeGens j := by
  exact normalizeGens_congr' i j hi hj hv hsh hs

example : normalizeGens ⟨.npArray 8 true, .matrix 2 3, [1, 0, 2, 0, 2, 1]⟩ = some [[1, 0, 2], [0, 2, 1]] := by decide
example : normalizeGens ⟨.npArray 8 true, .matrix 2 3, [1, 0, 2, 0, 2, 1]⟩ =
    normalizeGens ⟨.pyList, .matrix 2 3, [1, 0, 2, 0, 2, 1]⟩ :=
  normalizeGens_congr _ _ (by decide) (by decide) rfl rfl (by decide)

/-- why `int(x)` matters for generators: with int8 NumPy scalars left in place, `prepare_shift_to_mask` computes
`start_bit = p[i] * w + j` in int8 — for `p[i] = 30`, `w = 5` that is -106, not 150 -/
example : wrap 8 true (30 * 5 + 0) = -106 := by decide

/-! ### the encoder and the cast -/

/-- the fix: encoding the row after the cast to int64 is `Cv.Codec.encode`, whatever signed dtype the row came in -/
theorem encode_widen (bits : Nat) (hb : bits ∈ [8, 16, 32, 64]) (w n : Nat) (s : List Nat)
    (hs : ∀ v ∈ s, v < 2 ^ (bits - 1)) :
    encodeNarrow 64 w n (widenRow bits s) = Cv.Codec.encode w n s := by
  exact encode_widen' bits hb w n s hs

example : encodeNarrow 64 1 33 (widenRow 32 (List.replicate 32 0 ++ [1])) = [0x100000000#64] := by
  rw [encode_widen 32 (by decide) 1 33 _ (by decide)]; decide

/-- why the cast is needed: an int32 row whose set bit belongs at position 32 — `1 << 32` is 0 in int32 -/
example : encodeNarrow 32 1 33 (List.replicate 32 0 ++ [1]) ≠ Cv.Codec.encode 1 33 (List.replicate 32 0 ++ [1]) := by
  decide
example : encodeNarrow 32 1 33 (List.replicate 32 0 ++ [1]) = [0#64] ∧
    Cv.Codec.encode 1 33 (List.replicate 32 0 ++ [1]) = [0x100000000#64] := by decide
/-- … and one whose set bit belongs at position 31: `1 << 31` is the int32 sign bit, promotion sign-extends it -/
example : encodeNarrow 32 1 32 (List.replicate 31 0 ++ [1]) = [0xFFFFFFFF80000000#64] ∧
    Cv.Codec.encode 1 32 (List.replicate 31 0 ++ [1]) = [0x80000000#64] := by decide
/-- int8, width 3, four elements (`w * n = 12 ≥ 8`) -/
example : encodeNarrow 8 3 4 [0, 1, 2, 3] = [0xFFFFFFFFFFFFFF88#64] ∧
    Cv.Codec.encode 3 4 [0, 1, 2, 3] = [0x688#64] := by decide
/-- uint8: bits shifted past position 7 are lost -/
example : encodeNarrowU 8 1 9 (List.replicate 8 0 ++ [1]) = [0#64] ∧
    Cv.Codec.encode 1 9 (List.replicate 8 0 ++ [1]) = [0x100#64] := by decide

/-- the narrow encoder is right exactly below the sign bit: `w * n < bits` -/
theorem encodeNarrow_small (bits : Nat) (hb : bits ≤ 64) (w n : Nat) (h : w * n < bits) (s : List Nat) :
    encodeNarrow bits w n s = Cv.Codec.encode w n s := by
  exact encodeNarrow_eq_of_lt bits hb w n h s

example : encodeNarrow 8 1 7 [1, 0, 1, 1, 0, 0, 1] = Cv.Codec.encode 1 7 [1, 0, 1, 1, 0, 0, 1] :=
  encodeNarrow_small 8 (by decide) 1 7 (by decide) _

end Cv.Normalize
