/-
  C13 — container / dtype independence.  Property theorems only (filled in as proofs land).
-/
import CvModel.Codec
