/-
  C11b — the bit-mask BFS engine (`cayleypy/algo/bfs_bitmask.py`, model `CvModel/Bitmask.lean`): SWAR pop-count, packing of
  permutations, rank / unrank inside a chunk, routing key, and the refinement of `CayleyGraphChunkedBfs.bfs` to the abstract
  gray/black bit-set BFS (`Cv.bfsBitset`, correct by `bfsBitset_spec` in C11e), together with the exact domain on which the
  source does not raise.  Property theorems only; proofs in `CvProofs/Bitmask*.lean`.
-/
import CvProofs.BitmaskBfs
import CvProofs.BitmaskTables
import CvGen.Consts
namespace Cv.Bitmask
open Cv.Perm

/-! ### `_bit_count` -/

/-- the SWAR pop-count of one word (source read with `uint64` semantics, as `.py_func` runs it) counts the set bits -/
theorem bitCount64_spec (x : BitVec 64) :
    bitCount64 x = ((List.range 64).filter fun i => x.getLsbD i).length := by
  exact bitCount64_spec' x

example : bitCount64 0xF0F0F0F0F0F0F0F1#64 = 33 := by decide
example : bitCount64 0xFFFFFFFFFFFFFFFF#64 = 64 ∧ bitCount64 0x8000000000000000#64 = 1 ∧ bitCount64 0#64 = 0 := by decide

/-- the compiled function: numba types the value as int64 after the first stage, so the later `>>` are ARITHMETIC shifts
(`_bit_count.inspect_types()`); the result is the same on every word -/
theorem bitCount64Numba_spec (x : BitVec 64) :
    bitCount64Numba x = ((List.range 64).filter fun i => x.getLsbD i).length := by
  rw [bitCount64Numba_eq]; exact bitCount64_spec' x

/-- non-vacuity: a word on which an arithmetic shift differs from the logical one (sign bit set after stage 1) -/
example : (0xC000000000000000#64).sshiftRight 2 ≠ 0xC000000000000000#64 >>> 2 := by decide
example : bitCount64Numba 0xC000000000000000#64 = 2 := by decide

/-- `_bit_count` of a whole bit set = number of set bits -/
theorem bitCount_spec (b : Bits) : bitCount b = ((List.range (64 * b.size)).filter (bitAt b)).length := by
  exact bitCount_eq_length b

example : bitCount #[5#64, 0#64, 0x8000000000000001#64] = 4 := by decide

/-! ### packing -/

theorem decode_encodePerm (p : List Nat) (hp : ∀ v ∈ p, v < 16) : decodePerm p.length (encodePerm p) = p := by
  exact decode_encodePerm' p hp

example : (∀ v ∈ [3, 1, 15, 0, 2], v < 16) ∧ encodePerm [3, 1, 15, 0, 2] = 0x20F13 ∧
    decodePerm 5 0x20F13 = [3, 1, 15, 0, 2] := by decide
/-- `< 16` is needed: 16 carries into the next field -/
example : encodePerm [16, 0] = encodePerm [0, 1] := by decide

/-! ### the prefix tables -/

/-- The model writes `model_prefixes[rank]` (`model_prefixes = list(itertools.permutations(range(R)))`) as
`lexUnrank R (range R) rank`; this is the `rank`-th element of `itertools.permutations(range(R))` as modelled by
`Cv.Perm.permsOf` (the model of `itertools.permutations` used for C10). -/
theorem prefixPerm_spec (R rank : Nat) (h : rank < fact R) :
    (permsOf R (List.range R))[rank]? = some (prefixPerm R rank) := by
  exact prefixPerm_getElem R rank h

example : permsOf 3 (List.range 3) = [[0, 1, 2], [0, 2, 1], [1, 0, 2], [1, 2, 0], [2, 0, 1], [2, 1, 0]] ∧
    prefixPerm 3 4 = [2, 0, 1] ∧ (4 < fact 3) := by decide

/-- `PREFIX_MAP_2[PREFIX_MAP_1[rank]] = rank`; all other entries of `PREFIX_MAP_2` are 0 by definition of `prefixMap2`.
`R ≤ 8`: 3 bits per element. -/
theorem prefixMap2_prefixMap1_spec (R : Nat) (hR8 : R ≤ 8) (rank : Nat) (h : rank < fact R) :
    prefixMap2 R (prefixMap1 R rank) = rank := by
  exact prefixMap2_prefixMap1 R hR8 rank h

example : prefixMap1 3 4 = 0o102 ∧ prefixMap1 8 0 = 0o76543210 ∧ prefixMap1 8 40319 = 0o01234567 := by decide

/-! ### rank / unrank inside a chunk -/

/-- Round trip and range of the rank.  Extra hypothesis w.r.t. the task text: `R ≤ 8` — the tables pack the relabelled prefix
3 bits per element (`<< (3 * i)`), which is what the source does; the library has `R = 8`.  `fact` is the factorial written
as a fold (`CvModel/Bitmask.lean`); `fact 8 = 40320 = CHUNK_SIZE`. -/
theorem rank_roundtrip (n R : Nat) (hR : R ≤ n) (hn : n ≤ 16) (hR8 : R ≤ 8) (p : List Nat) (hp : IsPermOf n p) :
    let c := mkChunk n R (p.drop R)
    rankToPerm R c (permToRank R c (encodePerm p)) = encodePerm p ∧ permToRank R c (encodePerm p) < fact R := by
  exact rank_roundtrip' n R hR hn hR8 p hp

example : fact 8 = 40320 ∧ fact Cv.Gen.bitmaskR = 40320 := by decide
/-- non-vacuity: a permutation of 10 points, `R = 8` -/
example : IsPermOf 10 [9, 4, 0, 8, 1, 6, 2, 5, 3, 7] := by decide
/-- its chunk: `map1` lists the prefix elements in increasing order, `map2` is the inverse relabelling -/
example : (mkChunk 10 8 [3, 7]).map1 = [0, 1, 2, 4, 5, 6, 8, 9] ∧ (mkChunk 10 8 [3, 7]).map2 = [0, 1, 2, 0, 3, 4, 5, 0, 6, 7] ∧
    (mkChunk 10 8 [3, 7]).encodedSuffix = 0x7300000000 := by decide
/-- the rank is the lexicographic rank of the relabelled prefix -/
example : relPrefix 10 8 [9, 4, 0, 8, 1, 6, 2, 5, 3, 7] = [7, 3, 0, 6, 1, 5, 2, 4] ∧
    Cv.lexRank [7, 3, 0, 6, 1, 5, 2, 4] = 37540 := by decide
example : permToRank 8 (mkChunk 10 8 [3, 7]) (encodePerm [9, 4, 0, 8, 1, 6, 2, 5, 3, 7]) = 37540 :=
  (permToRank_eq (n := 10) (p := [9, 4, 0, 8, 1, 6, 2, 5, 3, 7]) (by decide) 8 (by decide) (by decide)
    (by decide)).trans (by decide)
/-- `R ≤ 8` is needed: with `R = 9` the value 8 overflows its 3-bit field (in the source `_prepare_prefix_maps` then fails with
an IndexError at import time) -/
example : IsPermOf 9 [0, 1, 2, 3, 4, 5, 6, 7, 8] ∧
    rankToPrefix 9 (mkChunk 9 9 []).map1 0 ≠ encodePerm [0, 1, 2, 3, 4, 5, 6, 7, 8] := by decide

/-- two permutations with the same suffix and the same rank are equal -/
theorem rank_injective_in_chunk (n R : Nat) (hR : R ≤ n) (hn : n ≤ 16) (hR8 : R ≤ 8) (p q : List Nat)
    (hp : IsPermOf n p) (hq : IsPermOf n q) (hs : p.drop R = q.drop R)
    (hr : permToRank R (mkChunk n R (p.drop R)) (encodePerm p) =
      permToRank R (mkChunk n R (q.drop R)) (encodePerm q)) : p = q := by
  exact rank_injective_in_chunk' n R hR hn hR8 p q hp hq hs hr

/-- non-vacuity: two different permutations in one chunk (their ranks differ: relabelled prefixes differ) -/
example : IsPermOf 10 [9, 4, 0, 8, 1, 6, 2, 5, 3, 7] ∧ IsPermOf 10 [4, 9, 0, 8, 1, 6, 2, 5, 3, 7] ∧
    List.drop 8 [9, 4, 0, 8, 1, 6, 2, 5, 3, 7] = List.drop 8 [4, 9, 0, 8, 1, 6, 2, 5, 3, 7] ∧
    Cv.lexRank (relPrefix 10 8 [9, 4, 0, 8, 1, 6, 2, 5, 3, 7]) ≠ Cv.lexRank (relPrefix 10 8 [4, 9, 0, 8, 1, 6, 2, 5, 3, 7]) := by
  decide

/-! ### the routing key -/

/-- Extra hypothesis w.r.t. the task text: `n ≤ 16` (4 bits per element). -/
theorem chunkOf_eq_iff (n R : Nat) (p q : List Nat) (hp : IsPermOf n p) (hq : IsPermOf n q) (hn : n ≤ 16) :
    chunkOf n R (encodePerm p) = chunkOf n R (encodePerm q) ↔ p.drop R = q.drop R := by
  exact chunkOf_eq_iff' n R p q hp hq hn

example : IsPermOf 10 [9, 4, 0, 8, 1, 6, 2, 5, 3, 7] ∧ IsPermOf 10 [4, 9, 0, 8, 1, 6, 2, 5, 3, 7] ∧
    chunkOf 10 8 (encodePerm [9, 4, 0, 8, 1, 6, 2, 5, 3, 7]) = 0x7300000000 ∧
    chunkOf 10 8 (encodePerm [4, 9, 0, 8, 1, 6, 2, 5, 3, 7]) = 0x7300000000 ∧ suffixMask 10 8 = 0xFF00000000 := by decide
/-- `n ≤ 16` is needed: for `n = 17` the element 16 carries into the next field and two different suffixes get one key -/
example : IsPermOf 17 [1, 2, 3, 4, 5, 6, 7, 8, 9, 10, 11, 12, 13, 14, 15, 16, 0] ∧
    IsPermOf 17 [16, 2, 3, 4, 5, 6, 7, 8, 9, 10, 11, 12, 13, 14, 15, 0, 1] ∧
    chunkOf 17 15 (encodePerm [1, 2, 3, 4, 5, 6, 7, 8, 9, 10, 11, 12, 13, 14, 15, 16, 0]) =
      chunkOf 17 15 (encodePerm [16, 2, 3, 4, 5, 6, 7, 8, 9, 10, 11, 12, 13, 14, 15, 0, 1]) ∧
    List.drop 15 [1, 2, 3, 4, 5, 6, 7, 8, 9, 10, 11, 12, 13, 14, 15, 16, 0] ≠
      List.drop 15 [16, 2, 3, 4, 5, 6, 7, 8, 9, 10, 11, 12, 13, 14, 15, 0, 1] := by decide

/-- the keys of `chunk_map` (`encoded_suffix` of every chunk) are pairwise distinct, so the model's "first chunk with this
key" is the dictionary entry -/
theorem chunk_keys_distinct (n R : Nat) (hn : n ≤ 16) : ((staticChunks n R).map (·.encodedSuffix)).Nodup := by
  exact chunk_keys_nodup n R hn

/-- `assert chunks_num * CHUNK_SIZE == graph_size` holds -/
theorem chunk_count (n R : Nat) (hR : R ≤ n) : (initChunks n R).length * fact R = fact n := by
  exact length_initChunks n R hR

example : (staticChunks 4 2).map (·.encodedSuffix) =
    [0x1000, 0x2000, 0x3000, 0x0100, 0x2100, 0x3100, 0x0200, 0x1200, 0x3200, 0x0300, 0x1300, 0x2300] ∧
    (initChunks 4 2).length = 12 ∧ fact 2 = 2 ∧ fact 4 = 24 := by decide

/-! ### the engine -/

/-- The engine computes exactly what the abstract gray/black bit-set BFS computes (a literal equality of the reported layer
sizes), on the domain where the source does not raise:
* `R < n ≤ 15`, `R ≤ 8` (`n = 16` always raises OverflowError, `n ≥ 17` and `n ≤ R` fail assertions: theorems below);
* `max_diameter = 0`, or exactly one generator, or two generators that differ at a trailing position `i ≥ R`.
`Except.ok` = normal return, `Except.error` = the exception of the source. -/
theorem bfsBitmask_spec (n R : Nat) (hRn : R < n) (hn : n ≤ 15) (hR8 : R ≤ 8) (gens : List (List Nat))
    (hgens : ∀ g ∈ gens, IsPermOf n g) (central : List Nat) (hc : IsPermOf n central) (D : Nat)
    (hdom : D = 0 ∨ gens.length = 1 ∨ ∃ g ∈ gens, ∃ g' ∈ gens, ∃ i, R ≤ i ∧ i < n ∧ g.getD i 0 ≠ g'.getD i 0) :
    bfsBitmask n R gens central D =
      .ok (Cv.bfsBitset (fun s => gens.map fun g => g.map fun i => s.getD i 0) central D) := by
  exact bfsBitmask_ok hRn hn hR8 gens hgens central hc D hdom

/-- LRX on 9 points with the library's `R = 8`: generators swap(0,1), left shift, right shift -/
def lrx9 : List (List Nat) := [[1, 0, 2, 3, 4, 5, 6, 7, 8], [1, 2, 3, 4, 5, 6, 7, 8, 0], [8, 0, 1, 2, 3, 4, 5, 6, 7]]
def id9 : List Nat := [0, 1, 2, 3, 4, 5, 6, 7, 8]

/-- non-vacuity: all hypotheses hold for LRX(9) with `R = Cv.Gen.bitmaskR = 8` (the swap fixes position 8, the shift moves it) -/
example : Cv.Gen.bitmaskR < 9 ∧ (∀ g ∈ lrx9, IsPermOf 9 g) ∧ IsPermOf 9 id9 ∧
    ∃ g ∈ lrx9, ∃ g' ∈ lrx9, ∃ i, Cv.Gen.bitmaskR ≤ i ∧ i < 9 ∧ g.getD i 0 ≠ g'.getD i 0 :=
  ⟨by decide, by decide, by decide, _, List.mem_cons_self, _, List.mem_cons_of_mem _ List.mem_cons_self, 8,
    by decide, by decide, by decide⟩
/-- … so the engine's first layers are those of the abstract BFS -/
example : bfsBitmask 9 8 lrx9 id9 3 = .ok [1, 3, 6, 12] := by
  rw [bfsBitmask_spec 9 8 (by decide) (by decide) (by decide) lrx9 (by decide) id9 (by decide) 3
    (Or.inr (Or.inr ⟨_, List.mem_cons_self, _, List.mem_cons_of_mem _ List.mem_cons_self, 8, by decide, by decide,
      by decide⟩))]
  decide +kernel
/-- a single generator (a 9-cycle): never an IndexError -/
example : bfsBitmask 9 8 [[1, 2, 3, 4, 5, 6, 7, 8, 0]] id9 100 = .ok [1, 1, 1, 1, 1, 1, 1, 1, 1] := by
  rw [bfsBitmask_spec 9 8 (by decide) (by decide) (by decide) _ (by decide) id9 (by decide) 100 (Or.inr (Or.inl rfl))]
  decide +kernel
/-- a small `R` (the model keeps `R` a parameter): S₃ with the two adjacent transpositions, `R = 2` -/
example : bfsBitmask 3 2 [[1, 0, 2], [0, 2, 1]] [0, 1, 2] 10 = .ok [1, 2, 2, 1] := by
  rw [bfsBitmask_spec 3 2 (by decide) (by decide) (by decide) _ (by decide) _ (by decide) 10
    (Or.inr (Or.inr ⟨_, List.mem_cons_self, _, List.mem_cons_of_mem _ List.mem_cons_self, 2, by decide, by decide,
      by decide⟩))]
  decide +kernel

/-- consequence (with `bfsBitset_spec`): the engine returns the growth function — entry `i` is the number of states at
distance exactly `i`, and the list stops early only when the next distance class is empty -/
theorem bfsBitmask_growth (n R : Nat) (hRn : R < n) (hn : n ≤ 15) (hR8 : R ≤ 8) (gens : List (List Nat))
    (hgens : ∀ g ∈ gens, IsPermOf n g) (central : List Nat) (hc : IsPermOf n central) (D : Nat)
    (hdom : D = 0 ∨ gens.length = 1 ∨ ∃ g ∈ gens, ∃ g' ∈ gens, ∃ i, R ≤ i ∧ i < n ∧ g.getD i 0 ≠ g'.getD i 0) :
    ∃ sizes, bfsBitmask n R gens central D = .ok sizes ∧
      (∀ (i m : Nat), sizes[i]? = some m →
        ∃ L : List (List Nat), L.Nodup ∧ (∀ x, x ∈ L ↔ Cv.DistLayer (nbOf gens) [central] i x) ∧ m = L.length) ∧
      1 ≤ sizes.length ∧ sizes.length ≤ D + 1 ∧
      (sizes.length < D + 1 → ∀ x, ¬ Cv.DistLayer (nbOf gens) [central] sizes.length x) := by
  refine ⟨_, bfsBitmask_ok hRn hn hR8 gens hgens central hc D hdom, ?_⟩
  have h := Cv.bfsBitset_spec' (nbOf gens) central D
  exact ⟨h.1, h.2.1, h.2.2.1, h.2.2.2.2⟩

/-- Outside that domain the first iteration raises: `np.hstack([])` (ValueError) without generators, `group_starts[-1]`
(IndexError) when there are at least two generators and all of them agree on the trailing positions — e.g. generators that
do not move the trailing `n - R` positions, or a generator listed twice. -/
theorem bfsBitmask_raises (n R : Nat) (hRn : R < n) (hn : n ≤ 15) (hR8 : R ≤ 8) (gens : List (List Nat))
    (hgens : ∀ g ∈ gens, IsPermOf n g) (central : List Nat) (hc : IsPermOf n central) (D : Nat) (hD : 1 ≤ D)
    (hlen : gens.length ≠ 1)
    (hagree : ∀ g ∈ gens, ∀ g' ∈ gens, ∀ i, R ≤ i → i < n → g.getD i 0 = g'.getD i 0) :
    bfsBitmask n R gens central D = .error (if gens = [] then .hstackEmpty else .groupStartsEmpty) := by
  exact bfsBitmask_error hRn hn hR8 gens hgens central hc D hD hlen hagree

/-- non-vacuity: two transpositions inside the prefix (both fix position 8) -/
example : bfsBitmask 9 8 [[1, 0, 2, 3, 4, 5, 6, 7, 8], [0, 2, 1, 3, 4, 5, 6, 7, 8]] id9 5 = .error .groupStartsEmpty :=
  bfsBitmask_raises 9 8 (by decide) (by decide) (by decide) _ (by decide) id9 (by decide) 5 (by decide) (by decide)
    (by intro g hg g' hg' i h1 h2; have hi : i = 8 := by omega
        subst hi; revert g g'; decide)
/-- a generator listed twice, although it moves the trailing position -/
example : bfsBitmask 9 8 [[1, 2, 3, 4, 5, 6, 7, 8, 0], [1, 2, 3, 4, 5, 6, 7, 8, 0]] id9 5 = .error .groupStartsEmpty :=
  bfsBitmask_raises 9 8 (by decide) (by decide) (by decide) _ (by decide) id9 (by decide) 5 (by decide) (by decide)
    (by intro g hg g' hg' i h1 h2; have hi : i = 8 := by omega
        subst hi; revert g g'; decide)
/-- no generators -/
example : bfsBitmask 9 8 [] id9 5 = .error .hstackEmpty :=
  bfsBitmask_raises 9 8 (by decide) (by decide) (by decide) _ (by decide) id9 (by decide) 5 (by decide) (by decide)
    (by intro g hg g' hg' i h1 h2; have hi : i = 8 := by omega
        subst hi; revert g g'; decide)

/-- the exact domain of normal return -/
theorem bfsBitmask_returns_iff (n R : Nat) (hRn : R < n) (hn : n ≤ 15) (hR8 : R ≤ 8) (gens : List (List Nat))
    (hgens : ∀ g ∈ gens, IsPermOf n g) (central : List Nat) (hc : IsPermOf n central) (D : Nat) :
    (∃ sizes, bfsBitmask n R gens central D = .ok sizes) ↔
      (D = 0 ∨ gens.length = 1 ∨ ∃ g ∈ gens, ∃ g' ∈ gens, ∃ i, R ≤ i ∧ i < n ∧ g.getD i 0 ≠ g'.getD i 0) := by
  exact bfsBitmask_ok_iff hRn hn hR8 gens hgens central hc D

/-- `n = 16` (still 4 bits per element): `suffix_mask ≥ 2^63` meets an int64 array — OverflowError, for every graph -/
theorem bfsBitmask_n16 (R : Nat) (hR : R < 16) (gens : List (List Nat)) (central : List Nat)
    (hc : IsPermOf 16 central) (D : Nat) : bfsBitmask 16 R gens central D = .error .int64Overflow := by
  exact bfsBitmask_16 R hR gens central hc D

example : IsPermOf 16 (List.range 16) ∧ suffixMask 16 8 = 0xFFFFFFFF00000000 ∧ suffixMask 16 8 ≥ 2 ^ 63 := by decide

/-- `assert n > R` and `assert self.encoded_length == 1` -/
theorem bfsBitmask_asserts (n R : Nat) (h : n ≤ R ∨ 17 ≤ n) (gens : List (List Nat)) (central : List Nat) (D : Nat) :
    bfsBitmask n R gens central D = .error .assertion := by
  by_cases hnR : n ≤ R
  · exact bfsBitmask_le n R hnR gens central D
  · rcases h with h | h
    · exact absurd h hnR
    · exact bfsBitmask_ge17 n R (by omega) h gens central D

end Cv.Bitmask
