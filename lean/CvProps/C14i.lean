/-
  C14i — C14 with the REAL algorithm models plugged in (model `CvModel/SessionInst.lean`): a graph object answers as a
  fresh one.  Property theorems only; proofs in `CvProofs/SessionInst.lean` (on top of `CvProofs/Session.lean`, whose
  theorems hold for every semantics), evaluated instances in `CvProofs/SessionInstExample.lean`.

  The session is `Cv.Session.run` / `step` (bookkeeping: object allocation, the cached inverted copy, the ball of
  `find_path` cached with its key, copies sharing encoder and hasher) over the semantics `instC db`: every operation calls
  the existing algorithm model on `graphOf` of the object it runs on and, where the code evaluates
  `with_inverted_generators`, on `graphOf` of the copy it FINDS IN THE SESSION.  `db` is the constructor's default batch
  size — what copies get (`modified_copy` does not pass `batch_size` on).

  Extra hypotheses that turned out to be needed (each shown necessary by an evaluated example):
  * `session_findPath_eq`, flag not set: the generators are permutations (`hp`).  The code runs
    `MeetInTheMiddle.find_path_to(graph_inv, …)`, whose inverted copy is `graph_inv.with_inverted_generators` — an object of
    its own, generators inverted twice — where `Cv.findPath g gi` (`CvModel/Paths.lean`) uses `g`.  For lists that are not
    permutations the two differ (`J_hp_needed`).
  * the end-to-end corollaries need `0 < db` besides `0 < batch`: the ball of a graph that is not inverse-closed is
    computed on the inverted copy, whose batch size is `db`.  (`CvProps/C12e.lean` is stated for an inverted copy with the
    batch size of its origin; here it is re-proved for the pair the session actually builds.)
  * an operation is compared with a fresh object only if its target exists (`ho`); for the root nothing is needed.
-/
import CvProofs.SessionInst
import CvProofs.SessionInstExample
namespace Cv.C14i
open Cv Cv.Session Cv.SessionInst Cv.SessionInst.Example Cv.Instance Cv.Instance.Example Cv.Instance.PathsExample Cv.Codec

/-! ## history independence with real semantics -/

/-- for every history `ops` and every operation `op` on an object `o` that exists after `ops`: the answer of `op` equals
its answer on a freshly initialised session whose only object has the immutable part of `o` (same generators, central
state, flag, width, hash function, batch size) -/
theorem session_answers_fresh (db : Nat) (root : IImm) (ops : List IOp) (op : IOp) (o : IObj)
    (ho : (run (instC db) (fresh root) ops).objs[op.target]? = some o) :
    view (step (instC db) (run (instC db) (fresh root) ops) op) =
      view (step (instC db) (fresh o.imm) (op.retarget 0)) := by
  exact session_answers_fresh' db root ops op o ho
-- non-vacuity: object 1 after the history `opsD` on the directed LX(4) is the inverted copy (it holds a cached ball and a
-- cached inverted copy of its own)
example : ∃ o, (run (instC 3) (fresh rootD) opsD).objs[(opFindPath 1 [3, 2, 1, 0] {}).target]? = some o ∧
    o.imm = invOf 3 rootD := D_obj1_exists
example : ((run (instC 3) (fresh rootD) opsD).objs[1]?).map (fun o => (o.invertedCache, o.ballCache.map (·.1))) =
    some (some 2, some (10^6, 2)) := by decide

/-- `ho` is needed: an operation addressed to an object that does not exist raises, a fresh object answers -/
example : view (step (instC 3) (fresh rootE) (opApplyPath 1 id4 [])) = .noSuchObject ∧
    view (step (instC 3) (fresh rootE) ((opApplyPath 1 id4 []).retarget 0)) ≠ .noSuchObject :=
  ⟨rfl, fun h => by cases h⟩

/-- … in particular the root object: whatever came before, it answers as the freshly constructed graph does -/
theorem session_answers_fresh_root (db : Nat) (root : IImm) (ops : List IOp) (op : IOp) (ht : op.target = 0) :
    view (step (instC db) (run (instC db) (fresh root) ops) op) = view (step (instC db) (fresh root) op) := by
  exact history_independent_root' (instC db) root ops op ht
-- non-vacuity: LRX(4) after `opsE` (radius-1 ball cached, then replaced), asked with other limits; the value
example : view (step (instC 3) (run (instC 3) (fresh rootE) opsE) (opFindPath 0 [3, 2, 1, 0] { maxDiameter := some 2 })) =
    view (step (instC 3) (fresh rootE) (opFindPath 0 [3, 2, 1, 0] { maxDiameter := some 2 })) :=
  session_answers_fresh_root 3 rootE opsE _ rfl
example : pathOf (view (step (instC 3) (run (instC 3) (fresh rootE) opsE)
    (opFindPath 0 [3, 2, 1, 0] { maxDiameter := some 2 }))) = some (.found [2, 1, 1, 2]) := E_find_after
example : pathOf (view (step (instC 3) (run (instC 3) (fresh rootE) opsE)
    (opFindPath 0 [3, 2, 1, 0] { maxDiameter := some 1 }))) = some .notFound := E_find_after_small

/-- (a), (b): what the caches hold after any history — the cached inverted copy IS the freshly built one (inverted
generators, same encoder, same hasher, default batch size); a cached ball IS the ball `_precompute_bfs` computes for its key
on that object -/
theorem session_caches_fresh (db : Nat) (root : IImm) (ops : List IOp) (k : ObjId) (o : IObj)
    (ho : (run (instC db) (fresh root) ops).objs[k]? = some o) :
    (∀ id, o.invertedCache = some id →
      ∃ oi : IObj, (run (instC db) (fresh root) ops).objs[id]? = some oi ∧ oi.imm = invOf db o.imm) ∧
    (∀ key b, o.ballCache = some (key, b) →
      b = .bfs (bfs (graphOf o.imm) (ballCfgOfKey key) [centralOf o.imm])) := by
  exact session_caches db root ops k o ho
-- non-vacuity: after `opsD` both caches of objects 1 and 2 are filled (evaluated)
example : ((run (instC 3) (fresh rootD) opsD).objs.map fun o => (o.invertedCache, o.ballCache.map (·.1))) =
    [(some 1, none), (some 2, some (10^6, 2)), (some 3, some (10^6, 50)), (some 4, none), (none, none)] := by decide

/-- (b) `_precompute_bfs` on an object that holds a ball for the key `key'`: the ball is reused exactly when the requested
key is `key'`; otherwise the ball of the requested key is computed and replaces it -/
theorem session_ball_reuse (db : Nat) (s : ISession) (k : ObjId) (o : IObj) (ho : s.objs[k]? = some o)
    (key' key : BallKey) (b : IRes) (hb : o.ballCache = some (key', b)) :
    (key' = key → precompute true (instC db) s k key = (s, some b)) ∧
    (key' ≠ key →
      let fresh : IRes := .bfs (bfs (graphOf o.imm) (ballCfgOfKey key) [centralOf o.imm])
      precompute true (instC db) s k key = (⟨s.objs.set k { o with ballCache := some (key, fresh) }⟩, some fresh)) := by
  exact ball_reuse db s k o ho key' key b hb
-- non-vacuity: after `opsE` the root of LRX(4) holds the ball for `max_diameter=2` (the radius-1 ball was replaced)
example : ((run (instC 3) (fresh rootE) opsE).objs[0]?).map (fun o => o.ballCache.map (·.1)) =
    some (some (10^6, 2)) := by decide

/-- THE NEGATIVE: with a ball cache that is not keyed by the limits (`stepWith false`, the code before the repair
"find_path re-computes its cached BFS when called with different BFS limits") the statement fails, with the real
algorithms, on LRX(4): after `find_path(s, max_diameter=1)` the call `find_path(s, max_diameter=2)` answers `None` from the
radius-1 ball; a fresh graph returns the path -/
theorem unkeyed_cache_not_fresh :
    view (stepWith false (instC 3)
      (runWith false (instC 3) (fresh rootE) [opFindPath 0 [3, 2, 1, 0] { maxDiameter := some 1 }])
      (opFindPath 0 [3, 2, 1, 0] { maxDiameter := some 2 })) ≠
    view (stepWith false (instC 3) (fresh rootE) (opFindPath 0 [3, 2, 1, 0] { maxDiameter := some 2 })) := by
  exact E_unkeyed_not_fresh
example : pathOf (view (stepWith false (instC 3)
      (runWith false (instC 3) (fresh rootE) [opFindPath 0 [3, 2, 1, 0] { maxDiameter := some 1 }])
      (opFindPath 0 [3, 2, 1, 0] { maxDiameter := some 2 }))) = some .notFound ∧
    pathOf (view (stepWith false (instC 3) (fresh rootE) (opFindPath 0 [3, 2, 1, 0] { maxDiameter := some 2 }))) =
      some (.found [2, 1, 1, 2]) := E_unkeyed
/-- in general: the un-keyed second call runs `MeetInTheMiddle.find_path_from` on the ball of the FIRST call's limits -/
theorem unkeyed_cache_answer (db : Nat) (i : IImm) (hic : i.defn.ic = true) (a b : List Nat) (l1 l2 : Limits) :
    view (stepWith false (instC db) (runWith false (instC db) (fresh i) [opFindPath 0 a l1]) (opFindPath 0 b l2)) =
      .value (.path (mitmFindPathFrom (graphOf i) (graphOf (invOf db i)) (permInvMap i.defn.perms)
        (bfs (graphOf i) (ballCfgOfKey l1.key) [centralOf i]).hashes (encOf i b))) := by
  exact unkeyed_second db i hic a b l1 l2
example : rootE.defn.ic = true := rfl

/-! ## the answers are the algorithm models -/

section models
variable (db : Nat) (root : IImm) (ops : List IOp) (k : ObjId) (o : IObj)
  (ho : (run (instC db) (fresh root) ops).objs[k]? = some o)
include ho

/-- after any history `find_path` returns what `Cv.findPath` (`CvModel/Paths.lean`) returns for the object's graph and its
inverted copy (batch size `db`); `hp` (needed when the flag is not set): the generators are permutations -/
theorem session_findPath_eq (hp : o.defn.ic = false → ∀ p ∈ o.defn.perms, Cv.Perm.IsPermOf o.enc.n p)
    (start : List Nat) (lim : Limits) :
    view (step (instC db) (run (instC db) (fresh root) ops) (opFindPath k start lim)) =
      .value (.path (findPath (graphOf o.imm) (graphOf (invOf db o.imm)) (permInvMap o.defn.perms) (centralOf o.imm)
        (encOf o.imm start) lim.maxLayerSizeToExplore lim.maxDiameter)) := by
  exact session_findPath_eq' db root ops k o ho hp start lim

theorem session_bfs_eq (cfg : BfsCfg (List W)) (starts : List (List Nat)) :
    view (step (instC db) (run (instC db) (fresh root) ops) (opBfs k cfg (some starts))) =
      .value (.bfs (bfs (graphOf o.imm) cfg (starts.map (encOf o.imm)))) := by
  exact (session_spec db root ops (opBfs k cfg (some starts)) o ho).trans (spec_bfs db o.imm k cfg starts)

theorem session_findPathTo_eq (q : List Nat) (D : Nat) :
    view (step (instC db) (run (instC db) (fresh root) ops) (opFindPathTo k q D)) =
      .value (.path (findPathTo (graphOf o.imm) (graphOf (invOf db o.imm))
        (bfs (graphOf o.imm) (ballCfg D) [centralOf o.imm]).hashes (encOf o.imm q))) := by
  exact (session_spec db root ops (opFindPathTo k q D) o ho).trans (spec_findPathTo db o.imm k q D)

theorem session_mitmTo_eq (q : List Nat) (D : Nat) :
    view (step (instC db) (run (instC db) (fresh root) ops) (opMitmTo k q D)) =
      .value (.path (mitmFindPathTo (graphOf o.imm) (graphOf (invOf db o.imm))
        (bfs (graphOf o.imm) (ballCfg D) [centralOf o.imm]).hashes (encOf o.imm q))) := by
  exact (session_spec db root ops (opMitmTo k q D) o ho).trans (spec_mitmTo db o.imm k q D)

theorem session_between_eq (S T : List (List Nat)) (M : Nat) :
    view (step (instC db) (run (instC db) (fresh root) ops) (opBetween k S T M)) =
      .value (.between ((findPathBetween (graphOf o.imm) (graphOf (invOf db o.imm)) (S.map (encOf o.imm))
        (T.map (encOf o.imm)) M).map (Option.map fun r => (decOf o.imm r.start, r.edges)))) := by
  exact (session_spec db root ops (opBetween k S T M) o ho).trans (spec_between db o.imm k S T M)

theorem session_beam_eq (start : List Nat) (cfg : SimpleCfg (List W)) :
    view (step (instC db) (run (instC db) (fresh root) ops) (opBeamSimple k start cfg)) =
      .value (.beam (beamSimple (graphOf o.imm) (graphOf (invOf db o.imm)) (permInvMap o.defn.perms)
        (centralOf o.imm) (encOf o.imm start) cfg)) := by
  exact (session_spec db root ops (opBeamSimple k start cfg) o ho).trans (spec_beamSimple db o.imm k start cfg)

theorem session_applyPath_eq (s p : List Nat) (hv : ∀ j ∈ p, j < o.defn.perms.length) :
    view (step (instC db) (run (instC db) (fresh root) ops) (opApplyPath k s p)) =
      .value (.applied (some (decOf o.imm (applyPath (graphOf o.imm).act (encOf o.imm s) p)))) := by
  exact (session_spec db root ops (opApplyPath k s p) o ho).trans (spec_applyPath db o.imm k s p hv)

/-- `with_inverted_generators` returns, cached or not, an object whose content is the freshly built inverted copy -/
theorem session_switchToInverted_eq :
    view (step (instC db) (run (instC db) (fresh root) ops) (opSwitchToInverted k)) = .obj (invOf db o.imm) := by
  exact (session_spec db root ops (opSwitchToInverted k) o ho).trans (spec_switchToInverted db o.imm k)

theorem session_modifiedCopy_eq (d : SDef) :
    view (step (instC db) (run (instC db) (fresh root) ops) (opModifiedCopy k d)) =
      .obj ⟨d, o.enc, o.hasher, db⟩ := by
  exact (session_spec db root ops (opModifiedCopy k d) o ho).trans (spec_modifiedCopy db o.imm k d)

end models
-- non-vacuity: evaluated answers after the histories (root of LRX(4); root and inverted copy of LX(4); `db ≠ batch`)
example : pathOf (view (step (instC 3) (run (instC 3) (fresh rootE) opsE) (opMitmTo 0 [3, 2, 1, 0] 2))) =
    some (.found [2, 0, 0, 2]) := E_mitm_after
example : (∀ p ∈ lx4, Cv.Perm.IsPermOf 4 p) ∧
    pathOf (view (step (instC 3) (run (instC 3) (fresh rootD) opsD)
      (opFindPath 0 [3, 2, 1, 0] { maxDiameter := some 2 }))) = some (.found [1, 0, 0, 1]) ∧
    pathOf (view (step (instC 3) (run (instC 3) (fresh rootD) opsD)
      (opFindPath 0 [3, 2, 1, 0] { maxDiameter := some 1 }))) = some .notFound ∧
    pathOf (view (step (instC 3) (run (instC 3) (fresh rootD) opsD)
      (opFindPath 1 [3, 2, 1, 0] { maxDiameter := some 2 }))) = some (.found [1, 0, 0, 1]) ∧
    pathOf (view (step (instC 5) (run (instC 5) (fresh rootD) opsD)
      (opFindPath 0 [3, 2, 1, 0] { maxDiameter := some 2 }))) = some (.found [1, 0, 0, 1]) :=
  ⟨lx4_perm, D_find_after, D_find_after_small, D_find_on_inverted, D_find_after_db5⟩
/-- `hp` is needed in `session_findPath_eq`: for the "generator" `[1, 1, 0]` the code's `find_path` and `Cv.findPath`
differ -/
example : pathOf (view (step (instC 3) (fresh rootJ) (opFindPath 0 [2, 1, 0] { maxDiameter := some 1 }))) =
      some (.found [0]) ∧
    findPath (graphOf rootJ) (graphOf (invOf 3 rootJ)) (permInvMap rootJ.defn.perms) (centralOf rootJ)
      (encOf rootJ [2, 1, 0]) none (some 1) = .assertFail "Not found any neighbor on previous layer." :=
  J_hp_needed.2

/-! ## the definition is never changed -/

/-- no operation changes what later operations see of an object: generators, central state, flag, width, state length,
hash function, batch size of object `k` are the same after any further operations -/
theorem session_definition_stable (db : Nat) (root : IImm) (ops ops' : List IOp) (k : ObjId)
    (hk : k < (run (instC db) (fresh root) ops).objs.length) :
    fingerprint (run (instC db) (fresh root) (ops ++ ops')) k = fingerprint (run (instC db) (fresh root) ops) k := by
  exact fingerprint_run_append db root ops ops' k hk

/-- one operation -/
theorem session_definition_stable_step (db : Nat) (root : IImm) (ops : List IOp) (op : IOp) (k : ObjId)
    (hk : k < (run (instC db) (fresh root) ops).objs.length) :
    fingerprint (step (instC db) (run (instC db) (fresh root) ops) op).1 k =
      fingerprint (run (instC db) (fresh root) ops) k := by
  exact (run_snoc db (fresh root) ops op) ▸ fingerprint_run_append db root ops [op] k hk

/-- the root object is the graph that was constructed, whatever happened since -/
theorem session_definition_stable_root (db : Nat) (root : IImm) (ops : List IOp) :
    fingerprint (run (instC db) (fresh root) ops) 0 = some root := by
  exact fingerprint_root db root ops
-- non-vacuity
example : 1 < (run (instC 3) (fresh rootD) (opsD.take 1)).objs.length ∧
    fingerprint (run (instC 3) (fresh rootD) (opsD.take 1)) 1 = some (invOf 3 rootD) := ⟨by decide, rfl⟩

/-! ## corollary (C12e): `find_path` after any history -/

/-- after any history, whatever `find_path` returns on an existing object replays, with the MATHEMATICAL action, from the
start state to the central state of that object; no assertion is reachable -/
theorem session_findPath_valid (db : Nat) (hdb : 0 < db) (root : IImm) (ops : List IOp) (k : ObjId) (o : IObj)
    (ho : (run (instC db) (fresh root) ops).objs[k]? = some o)
    (hw : 1 ≤ o.enc.w) (hw' : o.enc.w ≤ 64) (hp : ∀ p ∈ o.defn.perms, Cv.Perm.IsPermOf o.enc.n p)
    (hinj : ∀ x y : List W, x.length = encLen o.enc.w o.enc.n → y.length = encLen o.enc.w o.enc.n →
      o.hasher x = o.hasher y → x = y)
    (hic : o.defn.ic = true → ∀ p ∈ o.defn.perms, Cv.Perm.inverse p ∈ o.defn.perms) (hb : 0 < o.batch)
    (start : List Nat) (hc : encodable o.enc.w o.enc.n o.defn.central = true)
    (hs : encodable o.enc.w o.enc.n start = true) (lim : Limits) :
    match pathOf (view (step (instC db) (run (instC db) (fresh root) ops) (opFindPath k start lim))) with
    | some (.found p) => applyPath (genAct o.defn.perms) start p = o.defn.central ∧ ∀ j ∈ p, j < o.defn.perms.length
    | some .notFound => True
    | some (.assertFail _) => False
    | none => False := by
  exact session_findPath_valid' db hdb root ops k o ho hw hw' hp hinj hic hb start hc hs lim

/-- … and it is a shortest path whenever the distance is within the documented radius (twice the depth of the ball
`find_path` works with, `sessFindBall`); `None` only when no path of that length exists.  `hexp` as in `CvProps/C12e.lean` -/
theorem session_findPath_shortest (db : Nat) (hdb : 0 < db) (root : IImm) (ops : List IOp) (k : ObjId) (o : IObj)
    (ho : (run (instC db) (fresh root) ops).objs[k]? = some o)
    (hw : 1 ≤ o.enc.w) (hw' : o.enc.w ≤ 64) (hp : ∀ p ∈ o.defn.perms, Cv.Perm.IsPermOf o.enc.n p)
    (hinj : ∀ x y : List W, x.length = encLen o.enc.w o.enc.n → y.length = encLen o.enc.w o.enc.n →
      o.hasher x = o.hasher y → x = y)
    (hic : o.defn.ic = true → ∀ p ∈ o.defn.perms, Cv.Perm.inverse p ∈ o.defn.perms) (hb : 0 < o.batch)
    (start : List Nat) (hc : encodable o.enc.w o.enc.n o.defn.central = true)
    (hs : encodable o.enc.w o.enc.n start = true) (lim : Limits)
    (hexp : ∀ j (L : List (List Nat)), 1 ≤ j → j ≤ (sessFindBall db o.imm lim).length - 1 → L.Nodup →
      (∀ s, s ∈ L ↔ DistLayer (permGraphNb (if o.defn.ic then o.defn.perms.map Cv.Perm.inverse else o.defn.perms))
        [start] j s) → L.length < 10^12) :
    match pathOf (view (step (instC db) (run (instC db) (fresh root) ops) (opFindPath k start lim))) with
    | some (.found p) => p.length ≤ 2 * ((sessFindBall db o.imm lim).length - 1) ∧
        ∀ j, Walk (permGraphNb o.defn.perms) j start o.defn.central → p.length ≤ j
    | some .notFound => ∀ j, j ≤ 2 * ((sessFindBall db o.imm lim).length - 1) →
        ¬ Walk (permGraphNb o.defn.perms) j start o.defn.central
    | some (.assertFail _) => False
    | none => False := by
  exact session_findPath_shortest' db hdb root ops k o ho hw hw' hp hinj hic hb start hc hs lim hexp

-- non-vacuity: every hypothesis instantiated — the root of LRX(4) after `opsE` (flag set), the root of LX(4) after `opsD`
-- and its inverted copy (flag not set; the ball lives one copy further down)
example : match pathOf (view (step (instC 3) (run (instC 3) (fresh rootE) opsE)
      (opFindPath 0 [3, 2, 1, 0] { maxDiameter := some 2 }))) with
    | some (.found p) => p.length ≤ 2 * ((sessFindBall 3 rootE { maxDiameter := some 2 }).length - 1) ∧
        ∀ j, Walk (permGraphNb lrx4) j [3, 2, 1, 0] id4 → p.length ≤ j
    | some .notFound => ∀ j, j ≤ 2 * ((sessFindBall 3 rootE { maxDiameter := some 2 }).length - 1) →
        ¬ Walk (permGraphNb lrx4) j [3, 2, 1, 0] id4
    | some (.assertFail _) => False
    | none => False := by
  obtain ⟨ic, bc, ho⟩ := root_obj 3 rootE opsE
  exact session_findPath_shortest 3 (by decide) rootE opsE 0 _ ho (show 1 ≤ 2 by decide) (show 2 ≤ 64 by decide) lrx4_perm
    (fun _ _ _ _ h => posHash_injective h) (fun _ => lrx4_invClosed) (show 0 < 3 by decide) [3, 2, 1, 0] id4_enc
    (show encodable 2 4 [3, 2, 1, 0] = true by decide) _
    (hexp24 _ (mem_all24 _ (by decide +kernel)) _)
example : match pathOf (view (step (instC 3) (run (instC 3) (fresh rootD) opsD)
      (opFindPath 0 [3, 2, 1, 0] { maxDiameter := some 2 }))) with
    | some (.found p) => applyPath (genAct lx4) [3, 2, 1, 0] p = id4 ∧ ∀ j ∈ p, j < lx4.length
    | some .notFound => True
    | some (.assertFail _) => False
    | none => False := by
  obtain ⟨ic, bc, ho⟩ := root_obj 3 rootD opsD
  exact session_findPath_valid 3 (by decide) rootD opsD 0 _ ho (show 1 ≤ 2 by decide) (show 2 ≤ 64 by decide) lx4_perm
    (fun _ _ _ _ h => posHash_injective h) (fun h => by cases h) (show 0 < 3 by decide) [3, 2, 1, 0] id4_enc
    (show encodable 2 4 [3, 2, 1, 0] = true by decide) _
example : match pathOf (view (step (instC 3) (run (instC 3) (fresh rootD) opsD)
      (opFindPath 1 [3, 2, 1, 0] { maxDiameter := some 2 }))) with
    | some (.found p) => applyPath (genAct (lx4.map Cv.Perm.inverse)) [3, 2, 1, 0] p = id4 ∧
        ∀ j ∈ p, j < (lx4.map Cv.Perm.inverse).length
    | some .notFound => True
    | some (.assertFail _) => False
    | none => False := by
  obtain ⟨ic, bc, ho⟩ := D_obj1_obj
  exact session_findPath_valid 3 (by decide) rootD opsD 1 _ ho (show 1 ≤ 2 by decide) (show 2 ≤ 64 by decide)
    (inverse_perms 4 lx4 lx4_perm) (fun _ _ _ _ h => posHash_injective h) (fun h => by cases h) (show 0 < 3 by decide)
    [3, 2, 1, 0] id4_enc (show encodable 2 4 [3, 2, 1, 0] = true by decide) _

end Cv.C14i
