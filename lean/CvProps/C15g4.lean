/-
  C15g4 — the `PermutationGroups` constructors built with `permutation_from_cycles`, REGENERATED from the
  Python source (`CvGen/PyFamilies.lean`, `Cv.PyGen.Fam.*`), followed by the model of `CayleyGraphDef.create`,
  equal the closed-form specification `Cv.Families.*` for ALL parameter values.
  Proofs are in `CvProofs/PyFamG4*.lean`.  Every theorem is followed by a non-vacuity example.
-/
import CvProofs.PyFamG4Range
import CvProofs.PyFamG4More
import CvProofs.PyFamG4Key
namespace Cv.C15g4
open Cv.Py Cv.PyGen Cv.Families

/-- `PermutationGroups.prefix_cycles(n)` -/
theorem prefix_cycles_gen (n : Nat) :
    (Fam.prefix_cycles (n : Int)).bind rawToPermDef = Families.prefixCycles n := by
  exact Cv.PyG4.prefix_cycles_gen n
example : (Fam.prefix_cycles 4).map (·.gens) = some [[1,0,2,3],[1,2,0,3],[1,2,3,0]] ∧
    (Families.prefixCycles 4).isSome = true ∧ Fam.prefix_cycles 1 = none := by decide

theorem prefix_cycles_gen_neg (n : Int) (h : n < 0) : Fam.prefix_cycles n = none := by
  exact Cv.PyG4.prefix_cycles_gen_neg n h
example : Fam.prefix_cycles (-3) = none := by decide

/-- `PermutationGroups.consecutive_k_cycles(n, k)` -/
theorem consecutive_k_cycles_gen (n k : Nat) :
    (Fam.consecutive_k_cycles (n : Int) (k : Int)).bind rawToPermDef = Families.consecutiveKCycles n k := by
  exact Cv.PyG4.consecutive_k_cycles_gen n k
example : (Fam.consecutive_k_cycles 5 3).map (·.gens) = some [[1,2,0,3,4],[0,2,3,1,4],[0,1,3,4,2]] ∧
    (Families.consecutiveKCycles 5 3).isSome = true ∧ Fam.consecutive_k_cycles 3 4 = none := by decide

theorem consecutive_k_cycles_gen_neg (n k : Int) (h : n < 0 ∨ k < 0) :
    Fam.consecutive_k_cycles n k = none := by
  exact Cv.PyG4.consecutive_k_cycles_gen_neg n k h
example : Fam.consecutive_k_cycles (-3) 2 = none ∧ Fam.consecutive_k_cycles 3 (-1) = none := by decide

/-- `PermutationGroups.down_cycles(n)` -/
theorem down_cycles_gen (n : Nat) :
    (Fam.down_cycles (n : Int)).bind rawToPermDef = Families.downCycles n := by
  exact Cv.PyG4.down_cycles_gen n
example : (Fam.down_cycles 3).map (·.gens) = some [[1,0,2],[1,2,0],[0,2,1]] ∧
    (Families.downCycles 3).isSome = true ∧ Fam.down_cycles 1 = none := by decide

theorem down_cycles_gen_neg (n : Int) (h : n < 0) : Fam.down_cycles n = none := by
  exact Cv.PyG4.down_cycles_gen_neg n h
example : Fam.down_cycles (-1) = none := by decide

/-- `PermutationGroups.three_cycles_01i(n, add_inverses=b)` -/
theorem three_cycles_01i_gen (n : Nat) (b : Bool) :
    (Fam.three_cycles_01i (n : Int) b).bind rawToPermDef = Families.threeCycles01i n b := by
  exact Cv.PyG4.three_cycles_01i_gen n b
example : (Fam.three_cycles_01i 4 true).map (·.gens) = some [[1,2,0,3],[2,0,1,3],[1,3,2,0],[3,0,2,1]] ∧
    (Fam.three_cycles_01i 4 false).map (·.gens) = some [[1,2,0,3],[1,3,2,0]] ∧
    (Families.threeCycles01i 4 true).isSome = true ∧ Fam.three_cycles_01i 2 true = none := by decide

theorem three_cycles_01i_gen_neg (n : Int) (b : Bool) (h : n < 0) : Fam.three_cycles_01i n b = none := by
  exact Cv.PyG4.three_cycles_01i_gen_neg n b h
example : Fam.three_cycles_01i (-1) false = none := by decide

/-- `PermutationGroups.wrapped_k_cycles(n, k)` -/
theorem wrapped_k_cycles_gen (n k : Nat) :
    (Fam.wrapped_k_cycles (n : Int) (k : Int)).bind rawToPermDef = Families.wrappedKCycles n k := by
  exact Cv.PyG4.wrapped_k_cycles_gen n k
example : (Fam.wrapped_k_cycles 4 3).map (·.gens) = some [[1,2,0,3],[0,2,3,1],[2,1,3,0],[1,3,2,0]] ∧
    (Families.wrappedKCycles 4 3).isSome = true ∧ Fam.wrapped_k_cycles 4 1 = none := by decide

theorem wrapped_k_cycles_gen_neg (n k : Int) (h : n < 0 ∨ k < 0) : Fam.wrapped_k_cycles n k = none := by
  exact Cv.PyG4.wrapped_k_cycles_gen_neg n k h
example : Fam.wrapped_k_cycles (-4) 2 = none ∧ Fam.wrapped_k_cycles 4 (-2) = none := by decide

/-- `PermutationGroups.lsl_cycles(n, add_inverses=b)` -/
theorem lsl_cycles_gen (n : Nat) (b : Bool) :
    (Fam.lsl_cycles (n : Int) b).bind rawToPermDef = Families.lslCycles n b := by
  exact Cv.PyG4.lsl_cycles_gen n b
example : (Fam.lsl_cycles 4 true).map (·.gens) = some [[1,2,3,0],[0,2,3,1],[3,0,1,2],[0,3,1,2]] ∧
    (Fam.lsl_cycles 4 false).map (·.gens) = some [[1,2,3,0],[0,2,3,1]] ∧
    (Families.lslCycles 4 true).isSome = true ∧ Fam.lsl_cycles 2 true = none := by decide

theorem lsl_cycles_gen_neg (n : Int) (b : Bool) (h : n < 0) : Fam.lsl_cycles n b = none := by
  exact Cv.PyG4.lsl_cycles_gen_neg n b h
example : Fam.lsl_cycles (-1) true = none := by decide

/-- key lemma: the source-translated `permutation_from_cycles(n, [c])` for a duplicate-free in-range
cycle `c` is the one-line list of the cycle point function `c_t ↦ c_{t+1 mod m}` -/
theorem permutation_from_cycles_cycleFn (n : Nat) (c : List Nat) (hnd : c.Nodup) (hlt : ∀ v ∈ c, v < n) :
    Perm.permutation_from_cycles (n : Int) [toI c] 0 = some (toI (oneLine n (cycleFn c))) := by
  exact Cv.PyG4.pfc_cycleFn n c hnd hlt
example : [3, 0, 2].Nodup ∧ (∀ v ∈ [3, 0, 2], v < 5) ∧
    Perm.permutation_from_cycles 5 [[3, 0, 2]] 0 = some [2, 1, 3, 0, 4] := by decide

/-- the translated `permutation_from_cycles` on cycles of naturals (offset 0) is the hand-written model -/
theorem permutation_from_cycles_nat (n : Nat) (cs : List (List Nat)) :
    Perm.permutation_from_cycles (n : Int) (cs.map toI) 0 =
      (Cv.Perm.fromCycles n (cs.map (·.map Int.ofNat))).map toI := by
  exact Cv.PyG4.pfc_gen n cs
example : Perm.permutation_from_cycles 4 [[0, 1], [1, 2]] 0 = none ∧
    Perm.permutation_from_cycles 4 [[0, 1], [3, 2]] 0 = some [1, 0, 3, 2] := by decide

end Cv.C15g4
