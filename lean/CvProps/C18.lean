/-
  C18 — save / load (`BfsResult.save`, `BfsResult.load`, `BfsResult.__eq__`, algo/bfs_result.py:42-137).
  Property theorems only; proofs in `CvProofs/SaveLoad.lean`.

  Findings recorded here by `example`:
  * `load ∘ save` is described exactly, for EVERY result, by `load_save_eq` (CvProofs): the stored layers and the
    generators are re-cut into rows of the state size and the hash list is cut at `len(layer_sizes)`.  Of the five
    fields of `WF`, the round trip `load (save r) = some r` uses exactly three (`layersRows`, `gensRows`, `hashesLe`;
    theorem `load_save_min`), each of which is needed (counterexamples below).  No further side condition is needed:
    `toString`/`toNat?` round-trips on `Nat` (`Nat.toNat?_repr`), the keys `layer__i`, `edges_list_hashes__i` and
    the fixed keys never collide, a stored layer with zero rows survives.
  * `layersNodupKeys` is what `__eq__` needs: without it `beq` is neither reflexive nor symmetric (examples below).
-/
import CvProofs.SaveLoad
namespace Cv.SaveLoad

/-- well-formedness of a result as the BFS produces it -/
structure WF (r : Res) : Prop where
  layersNodupKeys : (r.layers.map (·.1)).Nodup
  layersRows : ∀ p ∈ r.layers, ∀ row ∈ p.2, row.length = r.central.length
  gensRows : ∀ g ∈ r.gens, g.length = r.central.length
  /-- the loader stops at `len(layer_sizes)` -/
  hashesLe : r.layersHashes.length ≤ r.layerSizes.length
  stateSizePos : 0 < r.central.length

/-- a concrete well-formed result: S_3 with two transpositions, layers 0 and 2 stored (one of them could be empty),
all hashes kept, an edge list -/
def exRes : Res :=
  { completed := true, layerSizes := [1, 2, 2, 1],
    layers := [(0, [[0, 1, 2]]), (2, [[1, 2, 0], [2, 0, 1]]), (7, [])],
    layersHashes := [[5], [-3, 7], [9, 11], [-20]],
    edges := some [(5, -3), (5, 7), (-3, 9)],
    gens := [[1, 0, 2], [0, 2, 1]], genNames := ["a", "b"], central := [0, 1, 2], name := "ex" }

theorem exRes_wf : WF exRes := by
  constructor <;> decide

theorem load_save (r : Res) (h : WF r) : load (save r) = some r := by
  exact load_save_min r h.layersRows h.gensRows h.hashesLe

/-- non-vacuity -/
example : load (save exRes) = some exRes := load_save exRes exRes_wf

/-- what `load ∘ save` does to an ARBITRARY result (no hypotheses): stored layers and generators are re-cut into rows of
the state size, the hash list is cut at `len(layer_sizes)`; everything else comes back unchanged -/
theorem load_save_exact (r : Res) : load (save r) = some (renorm r) := by
  exact load_save_eq r

example : renorm { exRes with layerSizes := [1, 2] } = { exRes with layerSizes := [1, 2], layersHashes := [[5], [-3, 7]] } := by
  decide

/-- `layersRows` is needed: a stored layer with a ragged row comes back re-cut -/
example : ∃ r : Res, (r.layers.map (·.1)).Nodup ∧ (∀ g ∈ r.gens, g.length = r.central.length) ∧
    r.layersHashes.length ≤ r.layerSizes.length ∧ 0 < r.central.length ∧ load (save r) ≠ some r := by
  refine ⟨{ exRes with layers := [(0, [[0, 1, 2, 0], [1, 2]])] }, by decide, by decide, by decide, by decide, ?_⟩
  rw [load_save_eq]; decide

/-- `gensRows` is needed: a generator of the wrong length comes back re-cut -/
example : ∃ r : Res, (r.layers.map (·.1)).Nodup ∧ (∀ p ∈ r.layers, ∀ row ∈ p.2, row.length = r.central.length) ∧
    r.layersHashes.length ≤ r.layerSizes.length ∧ 0 < r.central.length ∧ load (save r) ≠ some r := by
  refine ⟨{ exRes with gens := [[1, 0], [0, 2, 1, 3]] }, by decide, by decide, by decide, by decide, ?_⟩
  rw [load_save_eq]; decide

/-- `hashesLe` is needed: the loader reads at most `len(layer_sizes)` hash layers -/
example : ∃ r : Res, (r.layers.map (·.1)).Nodup ∧ (∀ p ∈ r.layers, ∀ row ∈ p.2, row.length = r.central.length) ∧
    (∀ g ∈ r.gens, g.length = r.central.length) ∧ 0 < r.central.length ∧ load (save r) ≠ some r := by
  refine ⟨{ exRes with layerSizes := [1, 2] }, by decide, by decide, by decide, by decide, ?_⟩
  rw [load_save_eq]; decide

theorem beq_iff (a b : Res) (_ha : (a.layers.map (·.1)).Nodup) (hb : (b.layers.map (·.1)).Nodup) :
    beq a b = true ↔ a.completed = b.completed ∧ a.layerSizes = b.layerSizes ∧
      (∀ i L, (i, L) ∈ a.layers ↔ (i, L) ∈ b.layers) ∧
      a.layersHashes = b.layersHashes ∧ a.edges = b.edges ∧ a.gens = b.gens ∧ a.genNames = b.genNames ∧
      a.central = b.central ∧ a.name = b.name := by
  exact beq_iff' a b hb

/-- non-vacuity: two results with the same layer dictionary in a different order are equal; changing a row is seen -/
example : beq exRes { exRes with layers := exRes.layers.reverse } = true := by decide
example : beq exRes { exRes with layers := [(0, [[0, 1, 2]]), (2, [[1, 2, 0], [2, 1, 0]]), (7, [])] } = false := by
  decide
/-- distinct keys are needed (for `b`): with a repeated key the right-hand side fails but `beq` holds -/
example : ∃ a b : Res, (a.layers.map (·.1)).Nodup ∧ beq a b = true ∧
    ¬ (∀ i L, (i, L) ∈ a.layers ↔ (i, L) ∈ b.layers) := by
  refine ⟨{ exRes with layers := [(0, [[0, 1, 2]])] },
    { exRes with layers := [(0, [[0, 1, 2]]), (0, [[2, 1, 0]])] }, by decide, by decide, ?_⟩
  intro h
  exact absurd ((h 0 [[2, 1, 0]]).2 (by decide)) (by decide)

theorem beq_refl (r : Res) (h : (r.layers.map (·.1)).Nodup) : beq r r = true := by
  exact beq_refl' r h

example : beq exRes exRes = true := beq_refl exRes exRes_wf.layersNodupKeys
/-- distinct keys are needed: a "dictionary" with a repeated key is not equal to itself -/
example : beq { exRes with layers := [(0, [[0, 1, 2]]), (0, [[2, 1, 0]])] }
    { exRes with layers := [(0, [[0, 1, 2]]), (0, [[2, 1, 0]])] } = false := by decide

theorem beq_symm (a b : Res) (ha : (a.layers.map (·.1)).Nodup) (hb : (b.layers.map (·.1)).Nodup) :
    beq a b = beq b a := by
  exact beq_symm' a b ha hb

example : beq exRes { exRes with layers := exRes.layers.reverse } =
    beq { exRes with layers := exRes.layers.reverse } exRes :=
  beq_symm _ _ (by decide) (by decide)
/-- distinct keys are needed: -/
example : beq { exRes with layers := [(0, [[0, 1, 2]])] }
      { exRes with layers := [(0, [[0, 1, 2]]), (0, [[2, 1, 0]])] } ≠
    beq { exRes with layers := [(0, [[0, 1, 2]]), (0, [[2, 1, 0]])] }
      { exRes with layers := [(0, [[0, 1, 2]])] } := by decide

theorem beq_load_save (r : Res) (h : WF r) : ∃ r', load (save r) = some r' ∧ beq r' r = true ∧ beq r r' = true := by
  exact ⟨r, load_save r h, beq_refl r h.layersNodupKeys, beq_refl r h.layersNodupKeys⟩

example : ∃ r', load (save exRes) = some r' ∧ beq r' exRes = true ∧ beq exRes r' = true :=
  beq_load_save exRes exRes_wf
/-- `layersNodupKeys` is needed here (and only here): the file round-trips, but the result is not `==` to itself -/
example : ∃ r : Res, load (save r) = some r ∧ beq r r = false := by
  refine ⟨{ exRes with layers := [(0, [[0, 1, 2]]), (0, [[2, 1, 0]])] }, ?_, by decide⟩
  exact load_save_min _ (by decide) (by decide) (by decide)

/-- a loaded result answers path queries exactly as the original (the query only reads `layersHashes`) -/
theorem loaded_answers {α} (g gi : Cv.Graph α) (r : Res) (h : WF r) (q : α) :
    ∃ r', load (save r) = some r' ∧
      Cv.findPathTo g gi r'.layersHashes q = Cv.findPathTo g gi r.layersHashes q := by
  exact ⟨r, load_save r h, rfl⟩

/-- non-vacuity: a query on the path graph 0-1-2-3 (generators +1 / -1 clipped) against saved-and-loaded hashes -/
example : ∃ r', load (save exRes) = some r' ∧
    Cv.findPathTo (α := Nat) ⟨2, fun i x => if i = 0 then x + 1 else x - 1, fun x => x, true, 4⟩
      ⟨2, fun i x => if i = 0 then x - 1 else x + 1, fun x => x, true, 4⟩ r'.layersHashes 9 =
    Cv.findPathTo (α := Nat) ⟨2, fun i x => if i = 0 then x + 1 else x - 1, fun x => x, true, 4⟩
      ⟨2, fun i x => if i = 0 then x - 1 else x + 1, fun x => x, true, 4⟩ exRes.layersHashes 9 :=
  loaded_answers _ _ exRes exRes_wf 9

end Cv.SaveLoad
