/-
  C18 — save / load.  Property theorems only (filled in as proofs land).
-/
import CvModel.SaveLoad
