/-
  C05m — end to end: meet in the middle (`MeetInTheMiddle.find_path_to`, `find_path_from`, `find_path_between`) on the
  library's MATRIX graph, in terms of the mathematical graph `matNb gens n k` and action `matGenAct gens n k`.
  Property theorems only; proofs in `CvProofs/Restrict.lean`, `CvProofs/InstanceMatPaths.lean`; evaluated instances in
  `CvProofs/InstanceMatPathsExample.lean`, `InstanceMatPathsExample2.lean`.  See `CvProps/C04m.lean` for the setting and the hypotheses (`hm`, `hmod`,
  `hmodI`, `hlen`, `hinv`, `hinj`).

  `hexp` is the size hypothesis of the abstract theorem (`CvProps/C05a.lean`: the backward BFS runs with the default
  `max_layer_size_to_explore = 10**12`), stated for the MATHEMATICAL graph of the INVERSE generators `matNb invs n k`
  around the destination: every enumeration of one of its distance classes `1 … D` has fewer than `10^12` states.
  `hic`: the flag `generators_inverse_closed` is truthful.  `hb`: the batch size of the inverted graph is positive.
-/
import CvProofs.InstanceMatPaths
import CvProofs.InstanceMatPathsExample
import CvProofs.InstanceMatPathsExample2
namespace Cv.C05m
open Cv Cv.InstanceMat Cv.InstanceMat.Example Cv.InstanceMat.PathsExample

/-- **MITM `find_path_to`** from a ball of depth `D = Hs.length - 1` around a central state of `P`, for ANY destination in
`P`: a valid SHORTEST path (replayed with the mathematical action) iff the distance is at most `2D`; the assertion /
"hash collision" branch is unreachable -/
theorem mat_mitmFindPathTo_spec (gens invs : List MatGen) (n k m : Nat) (hm : m ≠ 0)
    (hmod : ∀ G ∈ gens, G.modulo = m) (hmodI : ∀ G ∈ invs, G.modulo = m) (hlen : invs.length = gens.length)
    (hinv : ∀ i, i < gens.length → MatInvOf n m (invs.getD i ⟨[], 0⟩) (gens.getD i ⟨[], 0⟩) ∨
      MatInvOf n m (gens.getD i ⟨[], 0⟩) (invs.getD i ⟨[], 0⟩))
    (hash : List Int → Int)
    (hinj : ∀ S T, MatValid n k m S → MatValid n k m T → hash S = hash T → S = T)
    (ic : Bool) (hic : ic = true → MatInvClosed gens n m) (batch batch' : Nat) (hb : 0 < batch')
    (central : List Int) (hc : MatValid n k m central) (Hs : List (List Int))
    (hball : IsBall (matGraph gens n k hash ic batch) central Hs) (hne : Hs ≠ [])
    (dest : List Int) (hd : MatValid n k m dest)
    (hexp : ∀ d (L : List (List Int)), 1 ≤ d → d ≤ Hs.length - 1 → L.Nodup →
      (∀ s, s ∈ L ↔ DistLayer (matNb invs n k) [dest] d s) → L.length < 10^12) :
    match mitmFindPathTo (matGraph gens n k hash ic batch) (matGraph invs n k hash ic batch') Hs dest with
    | .found p => applyPath (matGenAct gens n k) central p = dest ∧
        DistLayer (matNb gens n k) [central] p.length dest ∧ p.length ≤ 2 * (Hs.length - 1) ∧
        ∀ i ∈ p, i < gens.length
    | .notFound => ∀ d, d ≤ 2 * (Hs.length - 1) → ¬ Walk (matNb gens n k) d central dest
    | .assertFail _ => False := by
  exact Cv.InstanceMat.mat_mitmFindPathTo_spec gens invs n k m ⟨hm, hmod, hmodI, hlen, hinv⟩ hash ic batch batch' hinj
    hic hb central hc Hs hball hne dest hd hexp
-- non-vacuity: Heisenberg group modulo 3, base-3 hash, the ball of depth 2 (`ballH_isBall`); `hexp` holds since the 27
-- group elements are closed under the inverse generators
example : 3 ≠ 0 ∧ (∀ G ∈ heis3, G.modulo = 3) ∧ (∀ G ∈ heis3i, G.modulo = 3) ∧ heis3i.length = heis3.length ∧
    (∀ i, i < heis3.length → MatInvOf 3 3 (heis3i.getD i ⟨[], 0⟩) (heis3.getD i ⟨[], 0⟩) ∨
      MatInvOf 3 3 (heis3.getD i ⟨[], 0⟩) (heis3i.getD i ⟨[], 0⟩)) ∧
    (∀ S T, MatValid 3 3 3 S → MatValid 3 3 3 T → b3Hash S = b3Hash T → S = T) ∧
    (true = true → MatInvClosed heis3 3 3) ∧ 0 < 2 ∧ MatValid 3 3 3 eye3 ∧ IsBall gH eye3 ballH ∧ ballH ≠ [] ∧
    MatValid 3 3 3 [1, 0, 1, 0, 1, 0, 0, 0, 1] ∧
    (∀ d (L : List (List Int)), 1 ≤ d → d ≤ ballH.length - 1 → L.Nodup →
      (∀ s, s ∈ L ↔ DistLayer (matNb heis3i 3 3) [[1, 0, 1, 0, 1, 0, 0, 0, 1]] d s) → L.length < 10^12) :=
  ⟨heis3_pair.hm, heis3_pair.modG, heis3_pair.modI, heis3_pair.len, heis3_pair.inv, b3Hash_inj_valid,
    fun _ => heis3_closed, by decide, eye3_valid, ballH_isBall, by simp [ballH], by decide,
    hexp27 _ (mem_all27 _ (by decide +kernel)) _⟩
-- distance 4 = 2·D (the centre element): found by the backward search; the path replays to the destination
example : mitmFindPathTo gH gHi ballH [1, 0, 1, 0, 1, 0, 0, 0, 1] = .found [0, 3, 2, 1] ∧
    applyPath (matGenAct heis3 3 3) eye3 [0, 3, 2, 1] = [1, 0, 1, 0, 1, 0, 0, 0, 1] :=
  ⟨mitm_found, by decide +kernel⟩
-- distance 4 > 2·1 with the ball of depth 1, and a state outside the orbit (its `hexp`: a coset of 27 states)
example : mitmFindPathTo gH gHi [[6643], [6670, 6697, 8830, 11017]] [1, 0, 1, 0, 1, 0, 0, 0, 1] = .notFound := mitm_far
example : mitmFindPathTo gH gHi ballH [2, 0, 0, 0, 1, 0, 0, 0, 1] = .notFound ∧
    (∀ d (L : List (List Int)), 1 ≤ d → d ≤ ballH.length - 1 → L.Nodup →
      (∀ s, s ∈ L ↔ DistLayer (matNb heis3i 3 3) [[2, 0, 0, 0, 1, 0, 0, 0, 1]] d s) → L.length < 10^12) :=
  ⟨mitm_offOrbit, hexpOff _⟩

/-- how `hexp` is discharged: distance classes lie inside every generator-closed set containing the start states -/
theorem mat_layer_le_of_closed (gens : List MatGen) (n k : Nat) (A : List (List Int))
    (hA : ∀ s ∈ A, ∀ t ∈ matNb gens n k s, t ∈ A) (S : List (List Int)) (hS : ∀ s ∈ S, s ∈ A) (d : Nat)
    (L : List (List Int)) (hnd : L.Nodup) (hmem : ∀ s, s ∈ L ↔ DistLayer (matNb gens n k) S d s) :
    L.length ≤ A.length := by
  exact Cv.InstanceMat.mat_layer_le_of_closed gens n k A hA S hS d L hnd hmem
example : (∀ s ∈ all27, ∀ t ∈ matNb heis3i 3 3 s, t ∈ all27) ∧ all27.length = 27 := ⟨all27_closedInv, all27_length⟩

/-- **MITM `find_path_from`** (flag set, `mp` an inverse map of the generator list): a shortest path from the start state
to the central state iff the distance is at most `2D` -/
theorem mat_mitmFindPathFrom_spec (gens invs : List MatGen) (n k m : Nat) (hm : m ≠ 0)
    (hmod : ∀ G ∈ gens, G.modulo = m) (hmodI : ∀ G ∈ invs, G.modulo = m) (hlen : invs.length = gens.length)
    (hinv : ∀ i, i < gens.length → MatInvOf n m (invs.getD i ⟨[], 0⟩) (gens.getD i ⟨[], 0⟩) ∨
      MatInvOf n m (gens.getD i ⟨[], 0⟩) (invs.getD i ⟨[], 0⟩))
    (hash : List Int → Int)
    (hinj : ∀ S T, MatValid n k m S → MatValid n k m T → hash S = hash T → S = T)
    (ic : Bool) (hic : ic = true) (mp : List Nat) (hmp : MatInvMap gens n m mp) (batch batch' : Nat)
    (hb : 0 < batch') (central : List Int) (hc : MatValid n k m central) (Hs : List (List Int))
    (hball : IsBall (matGraph gens n k hash ic batch) central Hs) (hne : Hs ≠ [])
    (start : List Int) (hs : MatValid n k m start)
    (hexp : ∀ d (L : List (List Int)), 1 ≤ d → d ≤ Hs.length - 1 → L.Nodup →
      (∀ s, s ∈ L ↔ DistLayer (matNb invs n k) [start] d s) → L.length < 10^12) :
    match mitmFindPathFrom (matGraph gens n k hash ic batch) (matGraph invs n k hash ic batch') (some mp) Hs
        start with
    | .found p => applyPath (matGenAct gens n k) start p = central ∧ p.length ≤ 2 * (Hs.length - 1) ∧
        (∀ d, Walk (matNb gens n k) d start central → p.length ≤ d) ∧ ∀ i ∈ p, i < gens.length
    | .notFound => ∀ d, d ≤ 2 * (Hs.length - 1) → ¬ Walk (matNb gens n k) d start central
    | .assertFail _ => False := by
  exact Cv.InstanceMat.mat_mitmFindPathFrom_spec gens invs n k m ⟨hm, hmod, hmodI, hlen, hinv⟩ hash ic batch batch'
    hinj hic mp hmp hb central hc Hs hball hne start hs hexp
example : MatInvMap heis3 3 3 heis3Map ∧ heis3Map = [2, 3, 0, 1] := ⟨heis3_invMap, rfl⟩
example : mitmFindPathFrom gH gHi (some heis3Map) ballH [1, 0, 1, 0, 1, 0, 0, 0, 1] = .found [3, 0, 1, 2] ∧
    applyPath (matGenAct heis3 3 3) [1, 0, 1, 0, 1, 0, 0, 0, 1] [3, 0, 1, 2] = eye3 :=
  ⟨mitmFrom_found, by decide +kernel⟩

/-- **`find_path_between`**: start set and destination set are lists of states of `P`; a globally shortest path between
the sets iff the minimum distance is at most `2M`; never trips an assertion.  No assumption on the flag. -/
theorem mat_between_spec (gens invs : List MatGen) (n k m : Nat) (hm : m ≠ 0)
    (hmod : ∀ G ∈ gens, G.modulo = m) (hmodI : ∀ G ∈ invs, G.modulo = m) (hlen : invs.length = gens.length)
    (hinv : ∀ i, i < gens.length → MatInvOf n m (invs.getD i ⟨[], 0⟩) (gens.getD i ⟨[], 0⟩) ∨
      MatInvOf n m (gens.getD i ⟨[], 0⟩) (invs.getD i ⟨[], 0⟩))
    (hash : List Int → Int)
    (hinj : ∀ S T, MatValid n k m S → MatValid n k m T → hash S = hash T → S = T)
    (ic : Bool) (batch batch' : Nat) (S T : List (List Int)) (hS : ∀ s ∈ S, MatValid n k m s)
    (hT : ∀ t ∈ T, MatValid n k m t) (M : Nat) :
    match findPathBetween (matGraph gens n k hash ic batch) (matGraph invs n k hash ic batch') S T M with
    | none => False
    | some none => ∀ s ∈ S, ∀ t ∈ T, ∀ d, d ≤ 2 * M → ¬ Walk (matNb gens n k) d s t
    | some (some r) =>
        r.start ∈ S ∧ applyPath (matGenAct gens n k) r.start r.edges ∈ T ∧ (∀ i ∈ r.edges, i < gens.length) ∧
        r.edges.length ≤ 2 * M ∧ ∀ s ∈ S, ∀ t ∈ T, ∀ d, Walk (matNb gens n k) d s t → r.edges.length ≤ d := by
  exact Cv.InstanceMat.mat_between_spec gens invs n k m ⟨hm, hmod, hmodI, hlen, hinv⟩ hash ic batch batch' hinj
    S T hS hT M
-- non-vacuity: two-element sets in the Heisenberg group; the closest pair is (x, I + E(0,2)) at distance 3
example : (∀ s ∈ [eye3, [1, 1, 0, 0, 1, 0, 0, 0, 1]], MatValid 3 3 3 s) ∧
    (∀ t ∈ [[1, 0, 1, 0, 1, 0, 0, 0, 1], [1, 0, 2, 0, 1, 0, 0, 0, 1]], MatValid 3 3 3 t) := by decide
example : (findPathBetween gH gHi [eye3, [1, 1, 0, 0, 1, 0, 0, 0, 1]]
      [[1, 0, 1, 0, 1, 0, 0, 0, 1], [1, 0, 2, 0, 1, 0, 0, 0, 1]] 3).map
    (Option.map fun r => (r.start, r.edges)) = some (some ([1, 1, 0, 0, 1, 0, 0, 0, 1], [3, 2, 1])) ∧
    applyPath (matGenAct heis3 3 3) [1, 1, 0, 0, 1, 0, 0, 0, 1] [3, 2, 1] = [1, 0, 1, 0, 1, 0, 0, 0, 1] :=
  ⟨between_found, by decide +kernel⟩
-- distance 4 > 2·1
example : (findPathBetween gH gHi [eye3] [[1, 0, 1, 0, 1, 0, 0, 0, 1]] 1).map
    (Option.map fun r => (r.start, r.edges)) = some none := between_none

end Cv.C05m
