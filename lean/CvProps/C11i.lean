/-
  C11 (interactive engine) — the layers of `InteractiveBfs` (algo/interactive_bfs.py) are the distance classes,
  for any list of start states; every tensor handed to `isin_via_searchsorted` is sorted.
  Property theorems only; proofs in `CvProofs/Paths.lean`.
-/
import CvProofs.Paths
import CvProofs.PathsExample
set_option linter.unusedSectionVars false
namespace Cv.C11i
open Cv Cv.PathsExample

variable {α : Type} [DecidableEq α] {g : Graph α}

/-- after `k` calls of `step()` the engine holds exactly the distance classes `0..k` of the start list:
`cur` is class `k` without repetitions, `hashes[i]` is the strictly sorted tensor of hashes of class `i`
(so every haystack given to `isinSorted` is sorted), and the last entry of `hashes` belongs to `cur`. -/
theorem ibfs_layers (h : IHyp g) (S : List α) (k : Nat) :
    let b := IBfs.iter g (IBfs.init g S) k
    b.cur.Nodup ∧ (∀ x, x ∈ b.cur ↔ DistLayer g.nb S k x) ∧ b.hashes.length = k + 1 ∧
    (∀ i H, b.hashes[i]? = some H → H.Pairwise (· < ·) ∧
        ∃ L : List α, L.Nodup ∧ (∀ x, x ∈ L ↔ DistLayer g.nb S i x) ∧ H = L.map g.hash) ∧
    b.hashes.getLast? = some (b.cur.map g.hash) := by
  exact Cv.ibfs_layers h S k
-- non-vacuity: the inverse-closed 6-cycle (only the last two layers are consulted) from a start list with a
-- repeated state, and the directed 5-cycle (all layers consulted), which is exhausted after 4 steps
example : IHyp ex6 := ex6_ihyp
example : ex6.invClosed = true ∧ Symm ex6.nb := ⟨rfl, ex6_symm⟩
example :
    (IBfs.iter ex6 (IBfs.init ex6 [3, 0, 3]) 1).cur = [1, 2, 4, 5] ∧
    (IBfs.iter ex6 (IBfs.init ex6 [3, 0, 3]) 1).hashes = [[0, 3], [1, 2, 4, 5]] ∧
    (IBfs.iter ex6 (IBfs.init ex6 [3, 0, 3]) 2).cur = [] := ex6_two_starts
example : IHyp ex5 := ex5_ihyp
example : ex5.invClosed = false := rfl
example : (IBfs.iter ex5 (IBfs.init ex5 [0]) 5).hashes = [[0], [1], [2], [3], [4], []] := ex5_iter
-- the hypothesis `IHyp.symm` is needed: on the directed 3-cycle wrongly flagged inverse-closed, state 0 (class 0)
-- re-enters as "layer 3"
example : ex3.invClosed = true ∧ ¬ Symm ex3.nb := ⟨rfl, ex3_not_symm⟩
example : (IBfs.iter ex3 (IBfs.init ex3 [0]) 4).hashes = [[0], [1], [2], [0], [1]] := ex3_iter
-- consequence on the concrete graph: 3 is at distance exactly 3 from 0 in the 6-cycle
example : DistLayer ex6.nb [0] 3 3 := ex6_dist3

end Cv.C11i
