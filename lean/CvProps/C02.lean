/-
  C02 — state codec and generated bit-permutation programs.  Property theorems only
  (proofs are in `CvProofs/Codec.lean`), each followed by non-vacuity examples.
-/
import CvProofs.Codec
namespace Cv.C02
open Cv.Codec

/-! ### concrete instances used by the non-vacuity examples -/

/-- width 3, 22 elements = 66 bits: two words, element 21 occupies bits 63..65 (straddles the word boundary) -/
def p22 : List Nat := [5, 21, 0, 20, 3, 4, 1, 6, 19, 8, 9, 10, 11, 12, 13, 14, 15, 16, 17, 18, 7, 2]
def s22 : List Nat := [1, 2, 3, 4, 5, 6, 7, 0, 1, 2, 3, 4, 5, 6, 7, 0, 1, 2, 3, 4, 5, 6]
/-- width 16, 4 elements: exactly one word, the sign bit is used (a `>>` statement with negative mask) -/
def p4 : List Nat := [3, 0, 1, 2]

theorem p22_accepted : checkProg (compile p22 3 22) p22 3 22 2 = true := by decide +kernel
theorem p4_accepted : checkProg (compile p4 16 4) p4 16 4 1 = true := by decide +kernel

/-- bit semantics of one generated statement: output bit b is false or exactly one input bit -/
theorem Stmt.eval_bit (s : Stmt) (x : W) (b : Nat) (hb : b < 64) :
    (s.eval x).getLsbD b = match s.srcBit b with | none => false | some j => x.getLsbD j := by
  exact Cv.Codec.Stmt.eval_bit s x b hb

/-- non-vacuity: an arithmetic right shift of a negative masked word; without the post-mask bit 20 is the
sign bit (bit 63), with the post-mask it is 0 -/
example : (Stmt.mk 0 0 0xffff000000000000#64 0 48 none).srcBit 20 = some 63 := by decide
example : (Stmt.mk 0 0 0xffff000000000000#64 0 48 (some 0x000000000000ffff#64)).srcBit 20 = none := by decide
example : (Stmt.mk 0 0 0xffff000000000000#64 0 48 (some 0x000000000000ffff#64)).srcBit 5 = some 53 := by decide
/-- the same on a concrete word: `>>` on int64 is arithmetic, the sign bit leaks without the post-mask -/
example : (Stmt.mk 0 0 0xffff000000000000#64 0 48 none).eval 0x8000000000000000#64 = 0xffffffffffff8000#64 := by
  decide +kernel
example : (Stmt.mk 0 0 0xffff000000000000#64 0 48 (some 0x000000000000ffff#64)).eval 0x8000000000000000#64 =
    0x0000000000008000#64 := by decide +kernel

/-- soundness of the checker: an accepted program computes the bit permutation on ALL inputs -/
theorem checkProg_sound (prog : List Stmt) (p : List Nat) (w n len : Nat)
    (h : checkProg prog p w n len = true) (x : List W) (hx : x.length = len) :
    evalProg prog len x = permuteBits p w n len x := by
  exact Cv.Codec.checkProg_sound prog p w n len h x hx

/-- non-vacuity: the library's program for a 2-word permutation is accepted … -/
example : checkProg (compile p22 3 22) p22 3 22 2 = true := p22_accepted
/-- … so it is correct on every input pair of words -/
example (a b : W) : evalProg (compile p22 3 22) 2 [a, b] = permuteBits p22 3 22 2 [a, b] :=
  checkProg_sound _ _ _ _ _ p22_accepted _ rfl
/-- width 64 (every element is a whole word) and width 63 (three words, elements straddle both boundaries) -/
example : checkProg (compile [1, 0] 64 2) [1, 0] 64 2 (encLen 64 2) = true := by decide +kernel
example : checkProg (compile [2, 0, 1] 63 3) [2, 0, 1] 63 3 (encLen 63 3) = true := by decide +kernel
/-- negative example: the program for `p4` contains a `>>` statement with negative mask (sign bit set) … -/
example : (compile p4 16 4).any (fun s => s.mask.msb && decide (s.shr > 0) && s.post.isSome) = true := by
  decide +kernel
/-- … and dropping its post-mask makes the checker reject -/
example : checkProg ((compile p4 16 4).map fun s => { s with post := none }) p4 16 4 1 = false := by
  decide +kernel
example : checkProg ((compile p22 3 22).map fun s => { s with post := none }) p22 3 22 2 = false := by
  decide +kernel
/-- the checker also rejects a program for a different permutation -/
example : checkProg (compile p4 16 4) [1, 0, 3, 2] 16 4 1 = false := by decide +kernel

/-- the 1-D routine (single word) -/
theorem checkProg_sound_1d (prog : List Stmt) (p : List Nat) (w n : Nat)
    (h : checkProg prog p w n 1 = true) (hsd : ∀ s ∈ prog, s.src = 0 ∧ s.dst = 0) (x : W) :
    [evalProg1d prog x] = permuteBits p w n 1 [x] := by
  exact Cv.Codec.checkProg_sound_1d prog p w n h hsd x

/-- non-vacuity: both hypotheses hold for the library's single-word program -/
example : checkProg (compile p4 16 4) p4 16 4 1 = true ∧ ∀ s ∈ compile p4 16 4, s.src = 0 ∧ s.dst = 0 :=
  ⟨p4_accepted, by decide +kernel⟩

/-- encode/decode round trip: any row the encoder accepts -/
theorem decode_encode (w n : Nat) (hw : 1 ≤ w) (hw' : w ≤ 64) (s : List Nat) (h : encodable w n s = true) :
    decode w n (encode w n s) = s := by
  exact Cv.Codec.decode_encode w n hw hw' s h

example : encodable 3 22 s22 = true := by decide +kernel
example : encodable 64 2 [2 ^ 63 - 1, 12345] = true := by decide +kernel
/-- entries `≥ 2^63` are not int64 values and are rejected even at width 64 -/
example : encodable 64 2 [2 ^ 63, 0] = false := by decide +kernel

/-- bit characterisation of `encode`: for `t < n*w` bit `t` of the encoding is bit `t % w` of element `t / w` … -/
theorem encode_bit (w n : Nat) (hw' : w ≤ 64) (s : List Nat) (t : Nat) (ht : t < n * w) :
    ((encode w n s).getD (t / 64) 0#64).getLsbD (t % 64) = (s.getD (t / w) 0).testBit (t % w) := by
  exact Cv.Codec.encode_bit' w n hw' s t ht

/-- … and padding bits are 0 -/
theorem encode_bit_padding (w n : Nat) (hw' : w ≤ 64) (s : List Nat) (t : Nat) (ht : n * w ≤ t) :
    ((encode w n s).getD (t / 64) 0#64).getLsbD (t % 64) = false := by
  exact Cv.Codec.encode_bit_padding w n hw' s t ht

/-- non-vacuity: bit 64 of the encoding of `s22` is bit 1 of element 21 (the straddling element, `6 = 0b110`) -/
example : ((encode 3 22 s22).getD 1 0#64).getLsbD 0 = true := by decide +kernel

/-- the bit permutation acts on decoded states as the defined action new[j] = old[p[j]] -/
theorem permuteBits_action (p : List Nat) (w n : Nat) (hw : 1 ≤ w) (hw' : w ≤ 64)
    (hpl : p.length = n) (hp : ∀ i ∈ p, i < n) (s : List Nat) (h : encodable w n s = true) :
    decode w n (permuteBits p w n (encLen w n) (encode w n s)) = p.map fun i => s.getD i 0 := by
  exact Cv.Codec.permuteBits_action p w n hw hw' hpl hp s h

example : p22.length = 22 ∧ (∀ i ∈ p22, i < 22) ∧ encodable 3 22 s22 = true := by decide +kernel
example : decode 3 22 (permuteBits p22 3 22 (encLen 3 22) (encode 3 22 s22)) =
    [6, 6, 1, 5, 4, 5, 2, 7, 4, 1, 2, 3, 4, 5, 6, 7, 0, 1, 2, 3, 0, 3] := by decide +kernel

/-- the automatic width is the least width ≥ 1 that can hold the largest value -/
theorem autoWidth_spec (m : Nat) :
    1 ≤ autoWidth m ∧ m < 2 ^ autoWidth m ∧ ∀ k, 1 ≤ k → m < 2 ^ k → autoWidth m ≤ k := by
  exact Cv.Codec.autoWidth_spec m

example : autoWidth 0 = 1 ∧ autoWidth 1 = 1 ∧ autoWidth 7 = 3 ∧ autoWidth 8 = 4 ∧ autoWidth (2 ^ 63 - 1) = 63 := by
  decide +kernel

/-- corollary: an accepted program acts on encoded states as the defined action new[j] = old[p[j]] -/
theorem generated_routine_action (prog : List Stmt) (p : List Nat) (w n : Nat) (hw : 1 ≤ w) (hw' : w ≤ 64)
    (hpl : p.length = n) (hp : ∀ i ∈ p, i < n) (hc : checkProg prog p w n (encLen w n) = true)
    (s : List Nat) (h : encodable w n s = true) :
    decode w n (evalProg prog (encLen w n) (encode w n s)) = p.map fun i => s.getD i 0 := by
  exact Cv.Codec.generated_routine_action prog p w n hw hw' hpl hp hc s h

/-- non-vacuity: all hypotheses hold for the library's program for `p22`, and the conclusion is the expected row -/
example : decode 3 22 (evalProg (compile p22 3 22) (encLen 3 22) (encode 3 22 s22)) = p22.map fun i => s22.getD i 0 :=
  generated_routine_action _ p22 3 22 (by decide) (by decide) (by decide) (by decide) p22_accepted s22
    (by decide +kernel)

/-- the library's compiler always produces an accepted program (∀ permutations, widths, lengths) -/
theorem compile_accepted (p : List Nat) (w n : Nat) (hw : 1 ≤ w) (hw' : w ≤ 64)
    (hpl : p.length = n) (hp : p.Perm (List.range n)) :
    checkProg (compile p w n) p w n (encLen w n) = true := by
  exact Cv.Codec.compile_accepted p w n hw hw' hpl hp

/-- non-vacuity: `p22` is a permutation of `range 22` (so the general theorem re-derives `p22_accepted`) -/
example : p22.Perm (List.range 22) := by decide +kernel
example : checkProg (compile p22 3 22) p22 3 22 (encLen 3 22) = true :=
  compile_accepted p22 3 22 (by decide) (by decide) (by decide) (by decide +kernel)
/-- the compiler's output is non-trivial: 11 statements, one of them with a post-mask -/
example : (compile p22 3 22).length = 11 ∧ ((compile p22 3 22).filter fun s => s.post.isSome).length = 1 := by
  decide +kernel

/-- consequence (not in the task list): the library's 2-D routine for ANY permutation acts on encoded states as
the defined action new[j] = old[p[j]] -/
theorem compiled_routine_action (p : List Nat) (w n : Nat) (hw : 1 ≤ w) (hw' : w ≤ 64)
    (hpl : p.length = n) (hp : p.Perm (List.range n)) (s : List Nat) (h : encodable w n s = true) :
    decode w n (evalProg (compile p w n) (encLen w n) (encode w n s)) = p.map fun i => s.getD i 0 := by
  exact Cv.Codec.compiled_routine_action p w n hw hw' hpl hp s h

example : decode 3 22 (evalProg (compile p22 3 22) (encLen 3 22) (encode 3 22 s22)) =
    [6, 6, 1, 5, 4, 5, 2, 7, 4, 1, 2, 3, 4, 5, 6, 7, 0, 1, 2, 3, 0, 3] :=
  compiled_routine_action p22 3 22 (by decide) (by decide) (by decide) (by decide +kernel) s22 (by decide +kernel)

/-- consequence (not in the task list): the library's 1-D routine (states that fit one word) for ANY permutation
computes the bit permutation on every word -/
theorem compiled_routine_1d (p : List Nat) (w n : Nat) (hw : 1 ≤ w) (hw' : w ≤ 64)
    (hpl : p.length = n) (hp : p.Perm (List.range n)) (h1 : encLen w n = 1) (x : W) :
    [evalProg1d (compile p w n) x] = permuteBits p w n 1 [x] := by
  exact Cv.Codec.compiled_routine_1d p w n hw hw' hpl hp h1 x

example : p4.Perm (List.range 4) ∧ encLen 16 4 = 1 := by decide +kernel

end Cv.C02
