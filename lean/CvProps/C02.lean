/-
  C02 — generator action and state codec.  Property theorems only (filled in as proofs land).
-/
import CvModel.Codec
