/-
  C04e — end to end: `restore_path` / `find_path_to` / `find_path_from` / `revert_path` on the library's ENCODED
  permutation graph, in terms of the MATHEMATICAL graph `permGraphNb perms` and action `genAct perms`
  (`genAct perms i s = (perms.getD i []).map fun j => s.getD j 0`, by definition).
  Property theorems only.  Proofs:
    `CvProofs/Sim.lean`            every algorithm of the model commutes with a hash- and generator-preserving map;
    `CvProofs/Restrict.lean`       the abstract path theorems under hypotheses restricted to a closed set `P` of states;
    `CvProofs/InstancePaths.lean`  the library's graphs satisfy them on `P` = encodings, conclusions decoded;
    `CvProofs/InstancePathsExample.lean`  LRX(4), width 2, `posHash`: the model evaluated in the kernel.

  `g  = encodedPermGraph    w n perms hash ic batch`   (generator i = compiled routine of `p_i`)
  `gi = encodedPermGraphInv w n perms hash ic batch`   (`with_inverted_generators`: routines of the inverses, same order,
                                                        same encoder and hasher; `CvModel/InstancePaths.lean`)

  DEVIATION (item 1 of the task): `PathHyp g gi` is FALSE for this pair — it quantifies over all rows (also rows of the
  wrong length or with padding bits set) and asks for a globally injective hash (the identity hasher is not); see the
  `example`s below.  What holds is `PathHypOn (Valid w n) g gi` (`Valid w n x` = `x` is the encoding of an encodable
  state): every field of `PathHyp` restricted to encodings, plus closedness of the encodings under both generator
  families.  Every downstream theorem (C04, C05, C12) is re-proved for `PathHypOn` with the central state and the query
  states in `P` (`CvProofs/Restrict.lean`: `findPathTo_spec_on`, …), with the SAME conclusions.

  Hypotheses that turned out to be needed (examples below): query states encodable (`hq`), hash injective on a set
  that contains the query states (`hinj`; injectivity on the orbit of the central state is not enough).
-/
import CvProofs.InstancePaths
import CvProofs.InstancePathsExample
namespace Cv.C04e
open Cv Cv.Instance Cv.Instance.Example Cv.Instance.PathsExample Cv.Codec

/-! ## 1. the pair (encoded graph, inverted encoded graph) -/

/-- `PathHyp` on encodings: generator counts agree, the hasher is shared, encodings are closed under the routines of
the generators and of their inverses, routine `i` of `gi` undoes routine `i` of `g` on encodings (both ways), no hash
collisions among encodings -/
theorem encoded_pathHyp (w n : Nat) (hw : 1 ≤ w) (hw' : w ≤ 64) (perms : List (List Nat))
    (hp : ∀ p ∈ perms, Cv.Perm.IsPermOf n p) (hash : List W → Int)
    (hinj : ∀ x y : List W, x.length = encLen w n → y.length = encLen w n → hash x = hash y → x = y)
    (ic : Bool) (batch : Nat) :
    PathHypOn (Valid w n) (encodedPermGraph w n perms hash ic batch) (encodedPermGraphInv w n perms hash ic batch) := by
  exact encoded_pathHypOn w n hw hw' perms hp hash ic batch
    (fun x y hx hy h => hinj x y (length_of_valid hx) (length_of_valid hy) h)
-- non-vacuity: LRX(4), width 2, `posHash`
example : (1 ≤ 2 ∧ 2 ≤ 64) ∧ (∀ p ∈ lrx4, Cv.Perm.IsPermOf 4 p) ∧
    (∀ x y : List W, x.length = encLen 2 4 → y.length = encLen 2 4 → posHash x = posHash y → x = y) :=
  ⟨by decide, lrx4_perm, fun _ _ _ _ h => posHash_injective h⟩
example : PathHypOn (Valid 2 4) gE gEi :=
  encoded_pathHyp 2 4 (by decide) (by decide) lrx4 lrx4_perm posHash (fun _ _ _ _ h => posHash_injective h) true 3
/-- the unrestricted `PathHyp` FAILS for the same pair although `posHash` is injective on all rows: generator 0 maps the
empty row to a row of one word -/
example : ¬ PathHyp gE gEi := gE_not_pathHyp
/-- … and for the identity hasher also because of `inj` -/
example : ¬ PathHyp gI gIi := gI_not_pathHyp

/-- consequently the pair RESTRICTED to the encodings satisfies the original `PathHyp` -/
theorem encoded_pathHyp_restrict (w n : Nat) (hw : 1 ≤ w) (hw' : w ≤ 64) (perms : List (List Nat))
    (hp : ∀ p ∈ perms, Cv.Perm.IsPermOf n p) (hash : List W → Int)
    (hinj : ∀ x y : List W, x.length = encLen w n → y.length = encLen w n → hash x = hash y → x = y)
    (ic : Bool) (batch : Nat) :
    PathHyp
      ((encodedPermGraph w n perms hash ic batch).restrict (Valid w n)
        (encoded_pathHyp w n hw hw' perms hp hash hinj ic batch).closed)
      ((encodedPermGraphInv w n perms hash ic batch).restrict (Valid w n)
        (encoded_pathHyp w n hw hw' perms hp hash hinj ic batch).closedI) := by
  exact (encoded_pathHyp w n hw hw' perms hp hash hinj ic batch).pathHyp
example : ∃ hc hci, PathHyp (gE.restrict (Valid 2 4) hc) (gEi.restrict (Valid 2 4) hci) :=
  ⟨_, _, encoded_pathHyp_restrict 2 4 (by decide) (by decide) lrx4 lrx4_perm posHash
    (fun _ _ _ _ h => posHash_injective h) true 3⟩

/-- `with_inverted_generators` recomputes the flag `generators_inverse_closed`; it keeps its value -/
theorem inverted_flag_eq (n : Nat) (perms : List (List Nat)) (hp : ∀ p ∈ perms, Cv.Perm.IsPermOf n p) :
    (Cv.GraphDef.inverseMapPerm (perms.map Cv.Perm.inverse)).isSome = (Cv.GraphDef.inverseMapPerm perms).isSome := by
  exact Cv.Instance.inverted_flag_eq n perms hp
example : (Cv.GraphDef.inverseMapPerm lrx4).isSome = true ∧ (Cv.GraphDef.inverseMapPerm lx4).isSome = false := by
  decide

/-! ## 2. the ball -/

/-- the `layers_hashes` of a BFS run of the model on `g` with `return_all_hashes=True` (any other options: depth limit
`max_diameter`, size limits, batching, callback) form a ball around the encoded central state: `K + 1 ≤ max_diameter + 1`
layers, layer `i` = sorted hashes of distance class `i`.  `hic`: the flag is truthful. -/
theorem encoded_ball (w n : Nat) (hw : 1 ≤ w) (hw' : w ≤ 64) (perms : List (List Nat))
    (hp : ∀ p ∈ perms, Cv.Perm.IsPermOf n p) (hash : List W → Int)
    (hinj : ∀ x y : List W, x.length = encLen w n → y.length = encLen w n → hash x = hash y → x = y)
    (ic : Bool) (hic : ic = true → ∀ p ∈ perms, Cv.Perm.inverse p ∈ perms) (batch : Nat) (hb : 0 < batch)
    (c : BfsCfg (List W)) (hr : c.returnHashes = true) (central : List Nat) (hc : encodable w n central = true) :
    ∃ K, K ≤ c.maxDiameter ∧
      (bfs (encodedPermGraph w n perms hash ic batch) c [encode w n central]).hashes.length = K + 1 ∧
      IsBall (encodedPermGraph w n perms hash ic batch) (encode w n central)
        (bfs (encodedPermGraph w n perms hash ic batch) c [encode w n central]).hashes := by
  exact Cv.Instance.encoded_ball w n hw hw' perms hp hash ic batch
    (fun x y hx hy h => hinj x y (length_of_valid hx) (length_of_valid hy) h) hic hb c hr central hc
-- non-vacuity: the hypotheses on LRX(4); the run with depth limit 2 evaluated in the kernel
example : (true = true → ∀ p ∈ lrx4, Cv.Perm.inverse p ∈ lrx4) ∧ 0 < 3 ∧ (cBall 2).returnHashes = true ∧
    encodable 2 4 id4 = true := ⟨fun _ => lrx4_invClosed, by decide, rfl, id4_enc⟩
example : (bfs gE (cBall 2) [encode 2 4 id4]).hashes =
    [[18446744073709551844],
     [18446744073709551673, 18446744073709551763, 18446744073709551841],
     [18446744073709551670, 18446744073709551694, 18446744073709551736, 18446744073709551751,
      18446744073709551772]] := ball2_eq
example : IsBall gE (encode 2 4 id4) ball2 := ball2_isBall

/-- what a ball of the encoded graph is in MATHEMATICAL terms: layer `i` is the strictly sorted tensor of the hashes of
the encodings of the states at distance exactly `i` from the central state in `permGraphNb perms` -/
theorem encoded_ball_math (w n : Nat) (hw : 1 ≤ w) (hw' : w ≤ 64) (perms : List (List Nat))
    (hp : ∀ p ∈ perms, Cv.Perm.IsPermOf n p) (hash : List W → Int) (ic : Bool) (batch : Nat)
    (central : List Nat) (hc : encodable w n central = true) (Hs : List (List Int))
    (hball : IsBall (encodedPermGraph w n perms hash ic batch) (encode w n central) Hs) :
    ∀ i H, Hs[i]? = some H → H.Pairwise (· < ·) ∧ ∃ L : List (List Nat), L.Nodup ∧
      (∀ s, s ∈ L ↔ DistLayer (permGraphNb perms) [central] i s) ∧
      H.Perm (L.map fun s => hash (encode w n s)) := by
  exact Cv.Instance.encoded_ball_math w n hw hw' perms hp hash ic batch central hc Hs hball
example : IsBall gE (encode 2 4 id4) ball2 ∧ ball2[2]? = some
    [18446744073709551670, 18446744073709551694, 18446744073709551736, 18446744073709551751,
      18446744073709551772] := ⟨ball2_isBall, rfl⟩

/-! ## 3. `find_path_to`, `find_path_from`, `revert_path` -/

/-- **`find_path_to`** for ANY encodable query state `q` (inside the ball, outside it, outside the orbit): a returned path
replays with the mathematical action from the central state to `q`, is shortest, uses generator indices; `None` means
`q` is in none of the distance classes `0 … D`; the assertion is unreachable -/
theorem encoded_findPathTo_spec (w n : Nat) (hw : 1 ≤ w) (hw' : w ≤ 64) (perms : List (List Nat))
    (hp : ∀ p ∈ perms, Cv.Perm.IsPermOf n p) (hash : List W → Int)
    (hinj : ∀ x y : List W, x.length = encLen w n → y.length = encLen w n → hash x = hash y → x = y)
    (ic : Bool) (batch : Nat) (central : List Nat) (hc : encodable w n central = true) (Hs : List (List Int))
    (hball : IsBall (encodedPermGraph w n perms hash ic batch) (encode w n central) Hs)
    (q : List Nat) (hq : encodable w n q = true) :
    match findPathTo (encodedPermGraph w n perms hash ic batch) (encodedPermGraphInv w n perms hash ic batch) Hs
        (encode w n q) with
    | .found p => applyPath (genAct perms) central p = q ∧ DistLayer (permGraphNb perms) [central] p.length q ∧
        p.length < Hs.length ∧ ∀ i ∈ p, i < perms.length
    | .notFound => ∀ i, i < Hs.length → ¬ DistLayer (permGraphNb perms) [central] i q
    | .assertFail _ => False := by
  exact Cv.Instance.encoded_findPathTo_spec w n hw hw' perms hp hash ic batch
    (fun x y hx hy h => hinj x y (length_of_valid hx) (length_of_valid hy) h) central hc Hs hball q hq
-- non-vacuity: hypotheses above; the three kinds of query state on LRX(4) with the ball of depth 2
example : findPathTo gE gEi ball2 (encode 2 4 [2, 3, 0, 1]) = .found [0, 0] ∧
    applyPath (genAct lrx4) id4 [0, 0] = [2, 3, 0, 1] := ⟨to_found, by decide⟩
example : findPathTo gE gEi ball2 (encode 2 4 [1, 3, 0, 2]) = .notFound := to_outside     -- distance 3
example : findPathTo gE gEi ball2 (encode 2 4 [0, 0, 1, 1]) = .notFound := to_offOrbit    -- not in the orbit
example : encodable 2 4 [2, 3, 0, 1] = true ∧ encodable 2 4 [1, 3, 0, 2] = true ∧ encodable 2 4 [0, 0, 1, 1] = true := by
  decide
/-- `hq` is needed: a query state that does not fit the width is truncated by the model's `encode` (the library's
asserts) and "found" with a path that does not lead to it -/
example : encodable 2 4 [4, 1, 2, 3] = false ∧ findPathTo gE gEi ball2 (encode 2 4 [4, 1, 2, 3]) = .found [] ∧
    applyPath (genAct lrx4) id4 [] ≠ [4, 1, 2, 3] := hq_needed
/-- `hinj` is needed: with a constant hash `[[0]]` is a ball of depth 0 and every state is "found" at distance 0 -/
example : IsBall gC (encode 2 4 id4) [[0]] ∧ findPathTo gC gCi [[0]] (encode 2 4 [1, 2, 3, 0]) = .found [] ∧
    applyPath (genAct lrx4) id4 [] ≠ [1, 2, 3, 0] := hinj_needed

/-- **`find_path_from`** (flag set, generator list closed under inverses; `permInvMap perms` is the library's
`generators_inverse_map`): a returned path replays from `q` to the central state, is shortest and uses generator
indices; both assertions are unreachable -/
theorem encoded_findPathFrom_spec (w n : Nat) (hw : 1 ≤ w) (hw' : w ≤ 64) (perms : List (List Nat))
    (hp : ∀ p ∈ perms, Cv.Perm.IsPermOf n p) (hash : List W → Int)
    (hinj : ∀ x y : List W, x.length = encLen w n → y.length = encLen w n → hash x = hash y → x = y)
    (ic : Bool) (hic : ic = true) (hcl : ∀ p ∈ perms, Cv.Perm.inverse p ∈ perms) (batch : Nat)
    (central : List Nat) (hc : encodable w n central = true) (Hs : List (List Int))
    (hball : IsBall (encodedPermGraph w n perms hash ic batch) (encode w n central) Hs)
    (q : List Nat) (hq : encodable w n q = true) :
    match findPathFrom (encodedPermGraph w n perms hash ic batch) (encodedPermGraphInv w n perms hash ic batch)
        (permInvMap perms) Hs (encode w n q) with
    | .found p => applyPath (genAct perms) q p = central ∧ DistLayer (permGraphNb perms) [central] p.length q ∧
        p.length < Hs.length ∧ ∀ i ∈ p, i < perms.length
    | .notFound => ∀ i, i < Hs.length → ¬ DistLayer (permGraphNb perms) [central] i q
    | .assertFail _ => False := by
  exact Cv.Instance.encoded_findPathFrom_spec w n hw hw' perms hp hash ic batch
    (fun x y hx hy h => hinj x y (length_of_valid hx) (length_of_valid hy) h) hic hcl central hc Hs hball q hq
example : (∀ p ∈ lrx4, Cv.Perm.inverse p ∈ lrx4) ∧ permInvMap lrx4 = some [1, 0, 2] := ⟨lrx4_invClosed, lrx4_invMap⟩
example : findPathFrom gE gEi (permInvMap lrx4) ball2 (encode 2 4 [2, 3, 0, 1]) = .found [1, 1] ∧
    applyPath (genAct lrx4) [2, 3, 0, 1] [1, 1] = id4 := ⟨from_found, by decide⟩
example : findPathFrom gE gEi (permInvMap lrx4) ball2 (encode 2 4 [1, 3, 0, 2]) = .notFound := from_outside
/-- `hic` / `hcl` are needed: for LX(4) (not inverse-closed) the first assertion fires -/
example : findPathFrom gD gDi (permInvMap lx4) [[0]] (encode 2 4 id4) = .assertFail "generators_inverse_closed" := by
  decide

/-- **`revert_path`** with the library's inverse map (a statement about the generator list; no encoding involved):
reverting a valid path `A → B` gives a valid path `B → A` of the same length -/
theorem encoded_revertPath_spec (n : Nat) (perms : List (List Nat)) (hp : ∀ p ∈ perms, Cv.Perm.IsPermOf n p)
    (hcl : ∀ p ∈ perms, Cv.Perm.inverse p ∈ perms) (p : List Nat) (hv : ∀ i ∈ p, i < perms.length)
    (A : List Nat) (hA : A.length = n) :
    ∃ r, revertPathM (permInvMap perms) p = some r ∧ r.length = p.length ∧ (∀ i ∈ r, i < perms.length) ∧
      applyPath (genAct perms) (applyPath (genAct perms) A p) r = A := by
  exact perm_revertPath_spec n perms hp hcl p hv A hA
example : (∀ i ∈ [0, 0, 2], i < lrx4.length) ∧ revertPathM (permInvMap lrx4) [0, 0, 2] = some [2, 1, 1] ∧
    applyPath (genAct lrx4) [1, 0, 2, 3] [0, 0, 2] = [3, 2, 1, 0] ∧
    applyPath (genAct lrx4) [3, 2, 1, 0] [2, 1, 1] = [1, 0, 2, 3] := ⟨by decide, revert_ex, by decide, by decide⟩
/-- the model's `revertPathM` is the `revert_path` of `CvModel/GraphDef.lean` -/
example (m : Option (List Nat)) (p : List Nat) : revertPathM m p = Cv.GraphDef.revertPath m p := rfl

/-! ## 6. the un-encoded graph (`bit_encoding_width=None`); `P` = states of length `n` with entries in `Q` -/

theorem plain_pathHyp (n : Nat) (Q : Nat → Prop) (perms : List (List Nat)) (hp : ∀ p ∈ perms, Cv.Perm.IsPermOf n p)
    (hash : List Nat → Int) (hinj : ∀ s t, PlainValid n Q s → PlainValid n Q t → hash s = hash t → s = t)
    (ic : Bool) (batch : Nat) :
    PathHypOn (PlainValid n Q) (plainPermGraph perms hash ic batch) (plainPermGraphInv perms hash ic batch) := by
  exact plain_pathHypOn n Q perms hp hash ic batch hinj
example : ∀ s t, PlainValid 4 (· < 4) s → PlainValid 4 (· < 4) t → b4Hash s = b4Hash t → s = t := b4Hash_inj4
/-- `PathHyp` fails here as well: states of the wrong length are not restored -/
example : ¬ PathHyp gP gPi := fun h => by
  have := (h.inv 0 (by decide) []).1
  revert this
  decide

theorem plain_ball (n : Nat) (Q : Nat → Prop) (perms : List (List Nat)) (hp : ∀ p ∈ perms, Cv.Perm.IsPermOf n p)
    (hash : List Nat → Int) (hinj : ∀ s t, PlainValid n Q s → PlainValid n Q t → hash s = hash t → s = t)
    (ic : Bool) (hic : ic = true → ∀ p ∈ perms, Cv.Perm.inverse p ∈ perms) (batch : Nat) (hb : 0 < batch)
    (c : BfsCfg (List Nat)) (hr : c.returnHashes = true) (central : List Nat) (hc : PlainValid n Q central) :
    ∃ K, K ≤ c.maxDiameter ∧ (bfs (plainPermGraph perms hash ic batch) c [central]).hashes.length = K + 1 ∧
      IsBall (plainPermGraph perms hash ic batch) central
        (bfs (plainPermGraph perms hash ic batch) c [central]).hashes := by
  exact Cv.Instance.plain_ball n Q perms hp hash ic batch hinj hic hb c hr central hc
example : PlainValid 4 (· < 4) id4 ∧ (bfs gP (cBallP 2) [id4]).hashes = [[27], [75, 108, 198], [45, 54, 156, 177, 210]] :=
  ⟨id4_plain, ballP_eq⟩
/-- `hic` is needed: a wrongly set flag (one 3-cycle flagged inverse-closed) makes the central state reappear as
"layer 3"; the returned list is not a ball -/
example : (bfs (plainPermGraph [[1, 2, 0]] b4Hash true 2) (cBallP 3) [[0, 1, 2]]).hashes = [[6], [24], [33], [6]] ∧
    ¬ IsBall (plainPermGraph [[1, 2, 0]] b4Hash true 2) [0, 1, 2] [[6], [24], [33], [6]] := wrong_flag_not_ball

theorem plain_findPathTo_spec (n : Nat) (Q : Nat → Prop) (perms : List (List Nat))
    (hp : ∀ p ∈ perms, Cv.Perm.IsPermOf n p) (hash : List Nat → Int)
    (hinj : ∀ s t, PlainValid n Q s → PlainValid n Q t → hash s = hash t → s = t) (ic : Bool) (batch : Nat)
    (central : List Nat) (hc : PlainValid n Q central) (Hs : List (List Int))
    (hball : IsBall (plainPermGraph perms hash ic batch) central Hs) (q : List Nat) (hq : PlainValid n Q q) :
    match findPathTo (plainPermGraph perms hash ic batch) (plainPermGraphInv perms hash ic batch) Hs q with
    | .found p => applyPath (genAct perms) central p = q ∧ DistLayer (permGraphNb perms) [central] p.length q ∧
        p.length < Hs.length ∧ ∀ i ∈ p, i < perms.length
    | .notFound => ∀ i, i < Hs.length → ¬ DistLayer (permGraphNb perms) [central] i q
    | .assertFail _ => False := by
  exact Cv.Instance.plain_findPathTo_spec n Q perms hp hash ic batch hinj central hc Hs hball q hq
example : IsBall gP id4 ballP ∧ findPathTo gP gPi ballP [2, 3, 0, 1] = .found [0, 0] ∧
    findPathTo gP gPi ballP [1, 3, 0, 2] = .notFound := ⟨ballP_isBall, plain_to_found, plain_to_outside⟩
/-- the hash must be injective on a set containing the QUERY state: `[0, 0, 0, 27]` has length 4 and collides with the
central state under the base-4 hash, which is injective on the orbit (`b4Hash_inj`, used by A13 for the BFS theorem) -/
example : findPathTo gP gPi ballP [0, 0, 0, 27] = .found [] ∧ applyPath (genAct lrx4) id4 [] ≠ [0, 0, 0, 27] ∧
    [0, 0, 0, 27].length = 4 := plain_hinj_query

theorem plain_findPathFrom_spec (n : Nat) (Q : Nat → Prop) (perms : List (List Nat))
    (hp : ∀ p ∈ perms, Cv.Perm.IsPermOf n p) (hash : List Nat → Int)
    (hinj : ∀ s t, PlainValid n Q s → PlainValid n Q t → hash s = hash t → s = t) (ic : Bool) (hic : ic = true)
    (hcl : ∀ p ∈ perms, Cv.Perm.inverse p ∈ perms) (batch : Nat)
    (central : List Nat) (hc : PlainValid n Q central) (Hs : List (List Int))
    (hball : IsBall (plainPermGraph perms hash ic batch) central Hs) (q : List Nat) (hq : PlainValid n Q q) :
    match findPathFrom (plainPermGraph perms hash ic batch) (plainPermGraphInv perms hash ic batch)
        (permInvMap perms) Hs q with
    | .found p => applyPath (genAct perms) q p = central ∧ DistLayer (permGraphNb perms) [central] p.length q ∧
        p.length < Hs.length ∧ ∀ i ∈ p, i < perms.length
    | .notFound => ∀ i, i < Hs.length → ¬ DistLayer (permGraphNb perms) [central] i q
    | .assertFail _ => False := by
  exact Cv.Instance.plain_findPathFrom_spec n Q perms hp hash ic batch hinj hic hcl central hc Hs hball q hq
example : findPathFrom gP gPi (permInvMap lrx4) ballP [2, 3, 0, 1] = .found [1, 1] := plain_from_found

/-! ## 7. single-word states, identity hasher: NO hypothesis on the hash -/

theorem encoded_ball_single_word (w n : Nat) (hw : 1 ≤ w) (hw' : w ≤ 64) (hlen : encLen w n = 1)
    (perms : List (List Nat)) (hp : ∀ p ∈ perms, Cv.Perm.IsPermOf n p)
    (ic : Bool) (hic : ic = true → ∀ p ∈ perms, Cv.Perm.inverse p ∈ perms) (batch : Nat) (hb : 0 < batch)
    (c : BfsCfg (List W)) (hr : c.returnHashes = true) (central : List Nat) (hc : encodable w n central = true) :
    ∃ K, K ≤ c.maxDiameter ∧
      (bfs (encodedPermGraph w n perms identityHash ic batch) c [encode w n central]).hashes.length = K + 1 ∧
      IsBall (encodedPermGraph w n perms identityHash ic batch) (encode w n central)
        (bfs (encodedPermGraph w n perms identityHash ic batch) c [encode w n central]).hashes := by
  exact Cv.Instance.encoded_ball w n hw hw' perms hp identityHash ic batch
    (identityHash_inj_valid w n hlen) hic hb c hr central hc
example : encLen 2 4 = 1 ∧ (bfs gI (cBall 2) [encode 2 4 id4]).hashes =
    [[228], [57, 147, 225], [54, 78, 120, 135, 156]] := ⟨encLen_2_4, ballI_eq⟩

theorem encoded_findPathTo_single_word (w n : Nat) (hw : 1 ≤ w) (hw' : w ≤ 64) (hlen : encLen w n = 1)
    (perms : List (List Nat)) (hp : ∀ p ∈ perms, Cv.Perm.IsPermOf n p) (ic : Bool) (batch : Nat)
    (central : List Nat) (hc : encodable w n central = true) (Hs : List (List Int))
    (hball : IsBall (encodedPermGraph w n perms identityHash ic batch) (encode w n central) Hs)
    (q : List Nat) (hq : encodable w n q = true) :
    match findPathTo (encodedPermGraph w n perms identityHash ic batch)
        (encodedPermGraphInv w n perms identityHash ic batch) Hs (encode w n q) with
    | .found p => applyPath (genAct perms) central p = q ∧ DistLayer (permGraphNb perms) [central] p.length q ∧
        p.length < Hs.length ∧ ∀ i ∈ p, i < perms.length
    | .notFound => ∀ i, i < Hs.length → ¬ DistLayer (permGraphNb perms) [central] i q
    | .assertFail _ => False := by
  exact Cv.Instance.encoded_findPathTo_spec w n hw hw' perms hp identityHash ic batch
    (identityHash_inj_valid w n hlen) central hc Hs hball q hq
example : IsBall gI (encode 2 4 id4) ballI ∧ findPathTo gI gIi ballI (encode 2 4 [2, 3, 0, 1]) = .found [0, 0] ∧
    findPathTo gI gIi ballI (encode 2 4 [1, 3, 0, 2]) = .notFound := ⟨ballI_isBall, single_to_found, single_to_outside⟩

theorem encoded_findPathFrom_single_word (w n : Nat) (hw : 1 ≤ w) (hw' : w ≤ 64) (hlen : encLen w n = 1)
    (perms : List (List Nat)) (hp : ∀ p ∈ perms, Cv.Perm.IsPermOf n p)
    (ic : Bool) (hic : ic = true) (hcl : ∀ p ∈ perms, Cv.Perm.inverse p ∈ perms) (batch : Nat)
    (central : List Nat) (hc : encodable w n central = true) (Hs : List (List Int))
    (hball : IsBall (encodedPermGraph w n perms identityHash ic batch) (encode w n central) Hs)
    (q : List Nat) (hq : encodable w n q = true) :
    match findPathFrom (encodedPermGraph w n perms identityHash ic batch)
        (encodedPermGraphInv w n perms identityHash ic batch) (permInvMap perms) Hs (encode w n q) with
    | .found p => applyPath (genAct perms) q p = central ∧ DistLayer (permGraphNb perms) [central] p.length q ∧
        p.length < Hs.length ∧ ∀ i ∈ p, i < perms.length
    | .notFound => ∀ i, i < Hs.length → ¬ DistLayer (permGraphNb perms) [central] i q
    | .assertFail _ => False := by
  exact Cv.Instance.encoded_findPathFrom_spec w n hw hw' perms hp identityHash ic batch
    (identityHash_inj_valid w n hlen) hic hcl central hc Hs hball q hq
example : findPathFrom gI gIi (permInvMap lrx4) ballI (encode 2 4 [2, 3, 0, 1]) = .found [1, 1] := single_from_found

/-- for single-word states the library generates the 1-D routines (`lambda x: t1 | t2 | …`); the pair built from them
gives exactly the same answers on encodings, so the theorems above cover it -/
theorem encoded1d_findPathTo_eq (w n : Nat) (hw : 1 ≤ w) (hw' : w ≤ 64) (hlen : encLen w n = 1)
    (perms : List (List Nat)) (hp : ∀ p ∈ perms, Cv.Perm.IsPermOf n p) (hash : List W → Int) (ic : Bool)
    (batch : Nat) (m : Option (List Nat)) (Hs : List (List Int)) (q : List Nat) (hq : encodable w n q = true) :
    findPathTo (encodedPermGraph1d w n perms hash ic batch) (encodedPermGraph1dInv w n perms hash ic batch) Hs
        (encode w n q) =
      findPathTo (encodedPermGraph w n perms hash ic batch) (encodedPermGraphInv w n perms hash ic batch) Hs
        (encode w n q) ∧
    findPathFrom (encodedPermGraph1d w n perms hash ic batch) (encodedPermGraph1dInv w n perms hash ic batch) m Hs
        (encode w n q) =
      findPathFrom (encodedPermGraph w n perms hash ic batch) (encodedPermGraphInv w n perms hash ic batch) m Hs
        (encode w n q) := by
  exact ⟨findPathTo_agree (encoded1d_agree w n hw hw' hlen perms hp hash ic batch)
      (encoded1dInv_agree w n hw hw' hlen perms hp hash ic batch)
      (encoded_closed w n hw hw' perms hp hash ic batch)
      (encoded_closed w n hw hw' _ (inverse_perms n perms hp) hash ic batch) Hs _ ⟨q, hq, rfl⟩,
    findPathFrom_agree (encoded1d_agree w n hw hw' hlen perms hp hash ic batch)
      (encoded1dInv_agree w n hw hw' hlen perms hp hash ic batch)
      (encoded_closed w n hw hw' perms hp hash ic batch)
      (encoded_closed w n hw hw' _ (inverse_perms n perms hp) hash ic batch) m Hs _ ⟨q, hq, rfl⟩⟩
example : findPathTo gI1 gI1i ballI (encode 2 4 [2, 3, 0, 1]) = .found [0, 0] := single1d_to_found

end Cv.C04e
