/-
  C20 — permutation helpers (`cayleypy/permutation_utils.py`): group laws under the library's action
  convention `new[i] = old[p[i]]`, `compose(p1,p2) = apply(p1,p2)`.
  Property theorems only; proofs are in `CvProofs/Perm.lean`.
-/
import CvProofs.Perm
import CvProofs.PermConj
namespace Cv.C20
open Cv.Perm

theorem isPerm_iff (p : List Nat) : isPerm p = true ↔ IsPermOf p.length p := by
  exact Cv.Perm.isPerm_iff p
example : IsPermOf [2,0,3,1].length [2,0,3,1] ∧ ¬ IsPermOf [2,0,2,1].length [2,0,2,1] := by decide

/-- the total version agrees with the partial one in range -/
theorem apply_eq_apply? (p x : List Nat) (h : ∀ i ∈ p, i < x.length) :
    apply? p x = some (apply p x) := by
  exact Cv.Perm.apply_eq_apply? p x h
example : (∀ i ∈ [2,0,3,1], i < [7,8,9,10].length) ∧ apply? [2,0,3,1] [7,8,9,10] = some [9,7,10,8] := by
  decide

theorem apply_compose (p q x : List Nat) (hp : ∀ i ∈ p, i < q.length) :
    apply (compose p q) x = apply p (apply q x) := by
  exact Cv.Perm.apply_compose p q x hp
example : (∀ i ∈ [1,2,3,0], i < [1,0,2,3].length) ∧
    apply (compose [1,2,3,0] [1,0,2,3]) [7,8,9,10] = [7,9,10,8] := by decide

theorem compose_assoc (p q r : List Nat) (hp : ∀ i ∈ p, i < q.length) :
    compose (compose p q) r = compose p (compose q r) := by
  exact Cv.Perm.compose_assoc p q r hp
example : (∀ i ∈ [1,2,3,0], i < [1,0,2,3].length) ∧
    compose (compose [1,2,3,0] [1,0,2,3]) [3,0,1,2] = [3,1,2,0] := by decide

theorem inverse_isPerm (n : Nat) (p : List Nat) (h : IsPermOf n p) : IsPermOf n (inverse p) := by
  exact Cv.Perm.inverse_isPerm n p h
example : IsPermOf 4 [2,0,3,1] ∧ inverse [2,0,3,1] = [1,3,0,2] := by decide

theorem inverse_getD (n : Nat) (p : List Nat) (h : IsPermOf n p) (i : Nat) (hi : i < n) :
    (inverse p).getD (p.getD i 0) 0 = i := by
  exact Cv.Perm.inverse_getD n p h i hi
example : IsPermOf 4 [2,0,3,1] ∧ (2 : Nat) < 4 := by decide

theorem compose_inverse_right (n : Nat) (p : List Nat) (h : IsPermOf n p) :
    compose p (inverse p) = identity n := by
  exact Cv.Perm.compose_inverse_right n p h
example : IsPermOf 4 [2,0,3,1] ∧ compose [2,0,3,1] (inverse [2,0,3,1]) = [0,1,2,3] := by decide

theorem compose_inverse_left (n : Nat) (p : List Nat) (h : IsPermOf n p) :
    compose (inverse p) p = identity n := by
  exact Cv.Perm.compose_inverse_left n p h
example : IsPermOf 4 [2,0,3,1] ∧ compose (inverse [2,0,3,1]) [2,0,3,1] = [0,1,2,3] := by decide

theorem inverse_inverse (n : Nat) (p : List Nat) (h : IsPermOf n p) : inverse (inverse p) = p := by
  exact Cv.Perm.inverse_inverse n p h
example : IsPermOf 4 [2,0,3,1] ∧ inverse (inverse [2,0,3,1]) = [2,0,3,1] := by decide

theorem apply_identity (x : List Nat) : apply (identity x.length) x = x := by
  exact Cv.Perm.apply_identity x
example : apply (identity 3) [5,5,7] = [5,5,7] := by decide

/-- generator p followed by inverse p restores every state (any entries, length n) -/
theorem apply_inverse_cancel (n : Nat) (p : List Nat) (h : IsPermOf n p) (s : List Nat)
    (hs : s.length = n) :
    apply (inverse p) (apply p s) = s ∧ apply p (apply (inverse p) s) = s := by
  exact Cv.Perm.apply_inverse_cancel n p h s hs
example : IsPermOf 4 [2,0,3,1] ∧ [7,7,9,100].length = 4 ∧ apply [2,0,3,1] [7,7,9,100] = [9,7,100,7] := by
  decide

theorem transposition_spec (n i j : Nat) (p : List Nat) (h : transposition n i j = some p) :
    IsPermOf n p ∧ p.getD i 0 = j ∧ p.getD j 0 = i ∧
      ∀ k, k < n → k ≠ i → k ≠ j → p.getD k 0 = k := by
  exact Cv.Perm.transposition_spec n i j p h
example : transposition 5 1 3 = some [0,3,2,1,4] := by decide

theorem transposition_none_iff {n i j : Nat} :
    transposition n i j = none ↔ ¬ (i < n ∧ j < n ∧ i ≠ j) := by
  exact Cv.Perm.transposition_none_iff
example : transposition 5 1 1 = none ∧ transposition 5 1 5 = none := by decide


/-! ### cycles (`permutation_from_cycles`)

The two statements as given in the task are FALSE for the model (and for the Python code): the
assertion `perm[c] == c` cannot distinguish "not yet written" from "written with `perm[c] = c`", so a
1-cycle `[a]` (or a repeated adjacent entry) leaves `a` reusable.  We prove the exact versions and
record the counterexamples. -/

/-- building from DISJOINT in-range cycles yields exactly those cycles (hypothesis `hnd` added) -/
theorem fromCycles_spec (n : Nat) (cycles : List (List Int)) (offset : Int) (p : List Nat)
    (h : fromCycles n cycles offset = some p)
    (hnd : (cycles.flatten.map (· - offset)).Nodup) :
    IsPermOf n p ∧
    (∀ c ∈ cycles, ∀ i, i < c.length →
        p.getD (c.getD i 0 - offset).toNat 0 = (c.getD ((i + 1) % c.length) 0 - offset).toNat) ∧
    (∀ k, k < n → (∀ c ∈ cycles, (↑k + offset) ∉ c) → p.getD k 0 = k) := by
  exact Cv.Perm.fromCycles_spec n cycles offset p h hnd
example : fromCycles 6 [[1, 3, 2], [5, 6]] 1 = some [2, 0, 1, 3, 5, 4] ∧
    (([[1, 3, 2], [5, 6]] : List (List Int)).flatten.map (· - 1)).Nodup := by decide
/-- counterexample to the statement without `hnd`: success, but the 1-cycle `[0]` is not a cycle of
the result -/
example : fromCycles 2 [[0], [0, 1]] 0 = some [1, 0] ∧
    ¬ (([1, 0] : List Nat).getD ((([0] : List Int).getD 0 0) - 0).toNat 0 =
        ((([0] : List Int).getD ((0 + 1) % ([0] : List Int).length) 0) - 0).toNat) := by decide

/-- what holds with NO side condition: result is a permutation, entries in range, every assignment
that is not a fixed point is visible, positions with only fixed-point assignments are fixed -/
theorem fromCycles_spec_general (n : Nat) (cycles : List (List Int)) (offset : Int) (p : List Nat)
    (h : fromCycles n cycles offset = some p) :
    IsPermOf n p ∧
    (∀ v ∈ cycles.flatten, 0 ≤ v - offset ∧ v - offset < n) ∧
    (∀ c ∈ cycles, ∀ i, i < c.length → c.getD i 0 ≠ c.getD ((i + 1) % c.length) 0 →
        p.getD (c.getD i 0 - offset).toNat 0 = (c.getD ((i + 1) % c.length) 0 - offset).toNat) ∧
    (∀ k, k < n → (∀ c ∈ cycles, ∀ i, i < c.length → c.getD i 0 = ↑k + offset →
        c.getD ((i + 1) % c.length) 0 = ↑k + offset) → p.getD k 0 = k) := by
  exact Cv.Perm.fromCycles_spec_general n cycles offset p h
example : fromCycles 3 [[0], [0, 1], [2, 2]] 0 = some [1, 0, 2] := by decide

/-- EXACT success condition: entries in range, and a position is assigned again only if all earlier
assignments to it were fixed points -/
theorem fromCycles_isSome_iff_exact (n : Nat) (cycles : List (List Int)) (offset : Int) :
    (fromCycles n cycles offset).isSome = true ↔
      (∀ v ∈ cycles.flatten, 0 ≤ v - offset ∧ v - offset < n) ∧
      (allWrites cycles).Pairwise (fun a b => a.1 = b.1 → a.2 = a.1) := by
  exact Cv.Perm.fromCycles_isSome_iff_exact n cycles offset
example : allWrites [[0], [0, 1]] = [(0, 0), (0, 1), (1, 0)] ∧
    (fromCycles 2 [[0], [0, 1]] 0).isSome = true ∧ (fromCycles 2 [[0, 1], [0]] 0).isSome = false := by
  decide

/-- the stated equivalence, valid when no assignment is a fixed point (no 1-cycles, no cyclically
adjacent repeated entries) -/
theorem fromCycles_some_iff (n : Nat) (cycles : List (List Int)) (offset : Int)
    (hnf : NoFixedWrites cycles) :
    (fromCycles n cycles offset).isSome = true ↔
      ((cycles.flatten.map (· - offset)).Nodup ∧
        ∀ v ∈ cycles.flatten, 0 ≤ v - offset ∧ v - offset < n) := by
  exact Cv.Perm.fromCycles_some_iff n cycles offset hnf
example : NoFixedWrites [[1, 3, 2], [5, 6]] ∧ (fromCycles 6 [[1, 3, 2], [5, 6]] 1).isSome = true ∧
    ¬ NoFixedWrites [[0], [0, 1]] := by decide
/-- the direction that holds unconditionally: disjoint in-range cycles are accepted -/
theorem fromCycles_isSome_of_nodup (n : Nat) (cycles : List (List Int)) (offset : Int)
    (hnd : (cycles.flatten.map (· - offset)).Nodup)
    (hr : ∀ v ∈ cycles.flatten, 0 ≤ v - offset ∧ v - offset < n) :
    (fromCycles n cycles offset).isSome = true := by
  exact Cv.Perm.fromCycles_isSome_of_nodup n cycles offset hnd hr
example : (([[1, 3, 2], [5, 6]] : List (List Int)).flatten.map (· - 1)).Nodup ∧
    ∀ v ∈ ([[1, 3, 2], [5, 6]] : List (List Int)).flatten, 0 ≤ v - 1 ∧ v - 1 < (6 : Nat) := by decide
/-- counterexamples to the stated equivalence without `hnf` -/
example : (fromCycles 2 [[0], [0, 1]] 0).isSome = true ∧
    ¬ (([[0], [0, 1]] : List (List Int)).flatten.map (· - 0)).Nodup := by decide
example : fromCycles 2 [[0, 0, 1]] 0 = some [1, 0] ∧
    ¬ (([[0, 0, 1]] : List (List Int)).flatten.map (· - 0)).Nodup := by decide


/-! ### `partition_to_permutation` -/

/-- first conjunct of `partitionToPermutation_type`: the result is a permutation of `lens.sum`
(for any arrangement `els` of `0..n-1`; positivity of the lengths is not needed for this part) -/
theorem partitionToPermutation_isPerm (lens els : List Nat)
    (hels : els.Perm (List.range lens.sum)) :
    IsPermOf lens.sum (partitionToPermutation lens els) := by
  exact Cv.Perm.partitionToPermutation_isPerm lens els hels
example : ([3, 0, 4, 1, 2] : List Nat).Perm (List.range [2, 3].sum) ∧
    partitionToPermutation [2, 3] [3, 0, 4, 1, 2] = [3, 2, 4, 0, 1] := by decide

/-- full statement (second conjunct was STRETCH): the result has cycle type `lens` -/
theorem partitionToPermutation_type (lens : List Nat) (hpos : ∀ k ∈ lens, 1 ≤ k) (els : List Nat)
    (hels : els.Perm (List.range lens.sum)) :
    IsPermOf lens.sum (partitionToPermutation lens els) ∧
    cycleType (partitionToPermutation lens els) = lens.mergeSort (fun a b => decide (a ≤ b)) := by
  exact Cv.Perm.partitionToPermutation_type lens hpos els hels
example : (∀ k ∈ [2, 3], 1 ≤ k) ∧ ([3, 0, 4, 1, 2] : List Nat).Perm (List.range [2, 3].sum) ∧
    partitionToPermutation [2, 3] [3, 0, 4, 1, 2] = [3, 2, 4, 0, 1] := by decide

/-! ### conjugacy class enumeration (`permutations_with_cycle_lenghts`) -/

/-- STRETCH theorem, proved: every enumerated element is a permutation of `n` with cycle type `lens` -/
theorem conj_sound (n : Nat) (lens : List Nat) (ps : List (List Nat))
    (h : permutationsWithCycleLengths n lens = some ps) :
    ∀ p ∈ ps, IsPermOf n p ∧ cycleType p = lens.mergeSort (fun a b => decide (a ≤ b)) := by
  exact Cv.Perm.conj_sound n lens ps h
example : permutationsWithCycleLengths 3 [3] = some [[1, 2, 0], [2, 0, 1]] := by
  rw [permutationsWithCycleLengths_eq]; decide +kernel

/-- STRETCH theorem, proved: the enumeration has no repetitions -/
theorem conj_nodup (n : Nat) (lens : List Nat) (ps : List (List Nat))
    (h : permutationsWithCycleLengths n lens = some ps) : ps.Nodup := by
  exact Cv.Perm.conj_nodup n lens ps h
example : permutationsWithCycleLengths 4 [2, 1, 1] =
    some [[0, 1, 3, 2], [0, 2, 1, 3], [0, 3, 2, 1], [1, 0, 2, 3], [2, 1, 0, 3], [3, 1, 2, 0]] := by
  rw [permutationsWithCycleLengths_eq]; decide +kernel

/-- STRETCH (hard) theorem, proved: every permutation of `n` with cycle type `lens` is enumerated -/
theorem conj_complete (n : Nat) (lens : List Nat) (ps : List (List Nat))
    (h : permutationsWithCycleLengths n lens = some ps) :
    ∀ p, IsPermOf n p → cycleType p = lens.mergeSort (fun a b => decide (a ≤ b)) → p ∈ ps := by
  exact Cv.Perm.conj_complete n lens ps h
example : ∃ ps, permutationsWithCycleLengths 5 [3, 2] = some ps ∧ IsPermOf 5 [3, 2, 4, 0, 1] ∧
    cycleType [3, 2, 4, 0, 1] = [3, 2].mergeSort (fun a b => decide (a ≤ b)) := by
  obtain ⟨ps, h, _⟩ := Cv.Perm.checkClass_sound 5 [3, 2] 20 (by decide +kernel)
  exact ⟨ps, h, by decide, by rw [cycleType_eq_isort, mergeSort_eq_isort]; decide +kernel⟩

/-! ### checked computations (not ∀-theorems)

Requested as a fallback for the stretch theorems `conj_sound`, `conj_nodup`, `conj_complete`; all three
are now proved above for every `n`, so this section is only an independent cross-check (it also pins the
class sizes, which the ∀-theorems do not state).  For every partition of every `n ≤ 6` the enumeration `permutationsWithCycleLengths n lens` is evaluated by the kernel
(`decide +kernel`) and checked to (a) have exactly `n!/∏ k^{m_k} m_k!` elements, (b) be duplicate free,
(c) consist of permutations of `n` whose `cycleType` is the sorted `lens`.  Together (a)–(c) imply
completeness for these instances by counting.  `checkClass_sound` (a ∀-theorem) states what a successful
check means for the model functions. -/

theorem checkClass_sound (n : Nat) (lens : List Nat) (count : Nat) (h : checkClass n lens count = true) :
    ∃ ps, permutationsWithCycleLengths n lens = some ps ∧ ps.length = count ∧ ps.Nodup ∧
      ∀ p ∈ ps, IsPermOf n p ∧ cycleType p = lens.mergeSort (fun a b => decide (a ≤ b)) := by
  exact Cv.Perm.checkClass_sound n lens count h

-- n = 1
example : checkClass 1 [1] 1 = true := by decide +kernel
-- n = 2
example : checkClass 2 [1, 1] 1 = true := by decide +kernel
example : checkClass 2 [2] 1 = true := by decide +kernel
-- n = 3
example : checkClass 3 [1, 1, 1] 1 = true := by decide +kernel
example : checkClass 3 [1, 2] 3 = true := by decide +kernel
example : checkClass 3 [3] 2 = true := by decide +kernel
-- n = 4
example : checkClass 4 [1, 1, 1, 1] 1 = true := by decide +kernel
example : checkClass 4 [1, 1, 2] 6 = true := by decide +kernel
example : checkClass 4 [2, 2] 3 = true := by decide +kernel
example : checkClass 4 [1, 3] 8 = true := by decide +kernel
example : checkClass 4 [4] 6 = true := by decide +kernel
-- n = 5
example : checkClass 5 [1, 1, 1, 1, 1] 1 = true := by decide +kernel
example : checkClass 5 [1, 1, 1, 2] 10 = true := by decide +kernel
example : checkClass 5 [1, 2, 2] 15 = true := by decide +kernel
example : checkClass 5 [1, 1, 3] 20 = true := by decide +kernel
example : checkClass 5 [2, 3] 20 = true := by decide +kernel
example : checkClass 5 [1, 4] 30 = true := by decide +kernel
example : checkClass 5 [5] 24 = true := by decide +kernel
-- n = 6
example : checkClass 6 [1, 1, 1, 1, 1, 1] 1 = true := by decide +kernel
example : checkClass 6 [1, 1, 1, 1, 2] 15 = true := by decide +kernel
example : checkClass 6 [1, 1, 2, 2] 45 = true := by decide +kernel
example : checkClass 6 [2, 2, 2] 15 = true := by decide +kernel
example : checkClass 6 [1, 1, 1, 3] 40 = true := by decide +kernel
example : checkClass 6 [1, 2, 3] 120 = true := by decide +kernel
example : checkClass 6 [3, 3] 40 = true := by decide +kernel
example : checkClass 6 [1, 1, 4] 90 = true := by decide +kernel
example : checkClass 6 [2, 4] 90 = true := by decide +kernel
example : checkClass 6 [1, 5] 144 = true := by decide +kernel
example : checkClass 6 [6] 120 = true := by decide +kernel
-- unsorted inputs
example : checkClass 5 [3, 2] 20 = true := by decide +kernel
example : checkClass 6 [2, 1, 3] 120 = true := by decide +kernel
example : checkClass 4 [2, 1, 1] 6 = true := by decide +kernel

/-- the form suggested in the task -/
example : (permutationsWithCycleLengths 5 [2, 3]).map (·.length) = some 20 := by
  obtain ⟨ps, h, hl, _⟩ := checkClass_sound 5 [2, 3] 20 (by decide +kernel)
  rw [h]; simp [hl]

/-- the docstring examples of `permutations_with_cycle_lenghts`, output order included -/
example : permutationsWithCycleLengths 3 [3] = some [[1, 2, 0], [2, 0, 1]] := by
  rw [permutationsWithCycleLengths_eq]; decide +kernel
example : permutationsWithCycleLengths 4 [2, 1, 1] =
    some [[0, 1, 3, 2], [0, 2, 1, 3], [0, 3, 2, 1], [1, 0, 2, 3], [2, 1, 0, 3], [3, 1, 2, 0]] := by
  rw [permutationsWithCycleLengths_eq]; decide +kernel
/-- the asserted / raising inputs -/
example : permutationsWithCycleLengths 0 [] = none ∧ permutationsWithCycleLengths 3 [0, 3] = none ∧
    permutationsWithCycleLengths 3 [2, 2] = none := by
  simp only [permutationsWithCycleLengths_eq]; decide +kernel

end Cv.C20
