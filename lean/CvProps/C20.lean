/-
  C20 — permutation helpers.  Property theorems only (filled in as proofs land).
-/
import CvModel.Perm
