/-
  C10 — graph-definition operations (`CayleyGraphDef`, permutation part; `MatrixGenerator.inv`):
  inverse map, inverse-closed flag, inverted definition, inverse closure, path reversal.
  Property theorems only; proofs are in `CvProofs/GraphDef.lean`.
-/
import CvProofs.GraphDef
namespace Cv.C10
open Cv.Perm Cv.GraphDef

/-! concrete instances used for the non-vacuity examples -/

/-- LRX(4): L, R, X -/
def lrx4 : PermDef := ⟨[[1,2,3,0],[3,0,1,2],[1,0,2,3]], ["L","R","X"], [0,1,2,3], "lrx-4"⟩
/-- a single 3-cycle: not inverse closed -/
def c3 : PermDef := ⟨[[1,2,0]], ["1,2,0"], [0,1,2], "c3"⟩
/-- its inverse closure -/
def c3ic : PermDef := ⟨[[1,2,0],[2,0,1]], ["1,2,0","1,2,0'"], [0,1,2], "c3-ic"⟩

theorem lrx4_created : PermDef.create lrx4.gens (some lrx4.names) (some lrx4.central) lrx4.name = some lrx4 := by
  rw [create_self_iff]; decide
theorem c3_created : PermDef.create c3.gens (some c3.names) (some c3.central) c3.name = some c3 := by
  rw [create_self_iff]; decide
theorem c3_makeIC : c3.makeInverseClosed = some c3ic := by
  rw [makeIC_unfold, if_neg (by decide), create_eq_some_iff]
  exact ⟨[1,2,0], [[2,0,1]], by decide, by decide, by decide, by decide, by decide, by decide,
    by unfold c3ic; congr 1 <;> decide⟩
theorem c3_inverted : c3.inverted = some ⟨[[2,0,1]], ["2,0,1"], [0,1,2], ""⟩ := by
  unfold PermDef.inverted
  rw [create_eq_some_iff]
  exact ⟨[2,0,1], [], by decide, by decide, by decide, by decide, by decide, by decide,
    by congr 1 <;> decide⟩

theorem lastIndexOf_spec {β : Type} [BEq β] [LawfulBEq β] (l : List β) (x : β) :
    (∀ j, lastIndexOf l x = some j → l[j]? = some x ∧ ∀ k, j < k → l[k]? ≠ some x) ∧
    (lastIndexOf l x = none ↔ x ∉ l) := by
  exact Cv.GraphDef.lastIndexOf_spec l x
example : lastIndexOf [5, 7, 5, 9] 5 = some 2 ∧ lastIndexOf [5, 7, 5, 9] 4 = none := by decide

/-- the inverse map is correct: generator i composed with the generator it maps to is the identity -/
theorem inverseMapPerm_spec (n : Nat) (ps : List (List Nat)) (hps : ∀ p ∈ ps, IsPermOf n p)
    (m : List Nat) (h : inverseMapPerm ps = some m) :
    m.length = ps.length ∧ ∀ i, i < ps.length →
      ∃ j, m[i]? = some j ∧ j < ps.length ∧ ps.getD j [] = inverse (ps.getD i []) ∧
           compose (ps.getD i []) (ps.getD j []) = identity n ∧
           compose (ps.getD j []) (ps.getD i []) = identity n := by
  exact Cv.GraphDef.inverseMapPerm_spec n ps hps m h
example : (∀ p ∈ lrx4.gens, IsPermOf 4 p) ∧ inverseMapPerm lrx4.gens = some [1, 0, 2] := by decide

/-- the inverse-closed flag is correct -/
theorem inverseClosed_iff (ps : List (List Nat)) :
    (inverseMapPerm ps).isSome = true ↔ ∀ p ∈ ps, inverse p ∈ ps := by
  exact Cv.GraphDef.inverseClosed_iff ps
example : (inverseMapPerm lrx4.gens).isSome = true ∧ (inverseMapPerm c3.gens).isSome = false := by decide

/-- inverted definition: generator i undoes generator i, same central state -/
theorem inverted_spec (d d' : PermDef) (h : d.inverted = some d') :
    d'.central = d.central ∧ d'.gens = d.gens.map inverse := by
  exact Cv.GraphDef.inverted_spec d d' h
example : c3.inverted = some ⟨[[2,0,1]], ["2,0,1"], [0,1,2], ""⟩ := c3_inverted

theorem inverted_succeeds (d : PermDef)
    (hd : PermDef.create d.gens (some d.names) (some d.central) d.name = some d) :
    (d.inverted).isSome = true := by
  exact Cv.GraphDef.inverted_succeeds d hd
example : PermDef.create lrx4.gens (some lrx4.names) (some lrx4.central) lrx4.name = some lrx4 :=
  lrx4_created

/-- inverse closure: keeps generators, names, order, central state; appends exactly the missing
inverses -/
theorem makeIC_prefix (d d' : PermDef) (h : d.makeInverseClosed = some d') :
    d'.central = d.central ∧ d.gens <+: d'.gens ∧ d.names <+: d'.names ∧
    (∀ q, q ∈ d'.gens ↔ q ∈ d.gens ∨ (∃ p ∈ d.gens, q = inverse p ∧ inverse p ∉ d.gens)) := by
  exact Cv.GraphDef.makeIC_prefix d d' h
example : c3.makeInverseClosed = some c3ic := c3_makeIC

/-- the closure reports itself inverse-closed -/
theorem makeIC_closed (d d' : PermDef) (hvalid : ∀ p ∈ d.gens, IsPermOf d.central.length p)
    (h : d.makeInverseClosed = some d') : d'.inverseClosed = true := by
  exact Cv.GraphDef.makeIC_closed d d' hvalid h
example : (∀ p ∈ c3.gens, IsPermOf c3.central.length p) ∧ c3.makeInverseClosed = some c3ic ∧
    c3.inverseClosed = false ∧ c3ic.inverseClosed = true :=
  ⟨by decide, c3_makeIC, by decide, by decide⟩

/-- idempotent -/
theorem makeIC_idem (d d' : PermDef) (hvalid : ∀ p ∈ d.gens, IsPermOf d.central.length p)
    (h : d.makeInverseClosed = some d') : d'.makeInverseClosed = some d' := by
  exact Cv.GraphDef.makeIC_idem d d' hvalid h
example : (∀ p ∈ c3.gens, IsPermOf c3.central.length p) ∧ c3.makeInverseClosed = some c3ic :=
  ⟨by decide, c3_makeIC⟩

theorem makeIC_succeeds (d : PermDef)
    (hd : PermDef.create d.gens (some d.names) (some d.central) d.name = some d) :
    (d.makeInverseClosed).isSome = true := by
  exact Cv.GraphDef.makeIC_succeeds d hd
example : PermDef.create c3.gens (some c3.names) (some c3.central) c3.name = some c3 := c3_created

/-- the appended inverses are named `name'`; the graph name gets the suffix `-ic` -/
theorem makeIC_names (d d' : PermDef) (h : d.makeInverseClosed = some d')
    (hnc : d.inverseClosed = false) :
    d'.names = d.names ++ ((List.zip d.gens d.names).filterMap fun (p, nm) =>
        if d.gens.contains (inverse p) then none else some (nm ++ "'")) ∧
    d'.name = (if d.name != "" then d.name ++ "-ic" else d.name) := by
  exact Cv.GraphDef.makeIC_names d d' h hnc
example : c3.makeInverseClosed = some c3ic ∧ c3.inverseClosed = false ∧
    c3ic.names = ["1,2,0", "1,2,0'"] ∧ c3ic.name = "c3-ic" :=
  ⟨c3_makeIC, by decide, by decide, by decide⟩

/-- (additional) the appended generators are exactly the missing inverses, in generator order -/
theorem makeIC_gens (d d' : PermDef) (h : d.makeInverseClosed = some d')
    (hnc : d.inverseClosed = false) :
    d'.gens = d.gens ++ (d.gens.filter fun p => !d.gens.contains (inverse p)).map inverse := by
  exact Cv.GraphDef.makeIC_gens d d' h hnc
example : c3.makeInverseClosed = some c3ic ∧ c3.inverseClosed = false := ⟨c3_makeIC, by decide⟩
/-- corner case (observation, not a defect of the statements above): a generator listed twice gets its
missing inverse appended twice -/
example : icExtra ⟨[[1,2,0],[1,2,0]], ["a","b"], [0,1,2], ""⟩ = [([2,0,1], "a'"), ([2,0,1], "b'")] := by
  decide

/-- reverting a valid path A→B gives a valid path B→A of the same length (action on states of
length n) -/
theorem revertPath_spec (n : Nat) (ps : List (List Nat)) (hps : ∀ p ∈ ps, IsPermOf n p)
    (m path rev : List Nat) (hm : inverseMapPerm ps = some m) (hpath : ∀ i ∈ path, i < ps.length)
    (hr : revertPath (some m) path = some rev) (A : List Nat) (hA : A.length = n) :
    rev.length = path.length ∧
    Cv.applyPath (fun i s => apply (ps.getD i []) s)
      (Cv.applyPath (fun i s => apply (ps.getD i []) s) A path) rev = A := by
  exact Cv.GraphDef.revertPath_spec n ps hps m path rev hm hpath hr A hA
example : (∀ p ∈ lrx4.gens, IsPermOf 4 p) ∧ inverseMapPerm lrx4.gens = some [1, 0, 2] ∧
    (∀ i ∈ [0, 0, 2, 1], i < lrx4.gens.length) ∧
    revertPath (some [1, 0, 2]) [0, 0, 2, 1] = some [0, 2, 1, 1] ∧
    Cv.applyPath (fun i s => apply (lrx4.gens.getD i []) s) [7, 8, 9, 10] [0, 0, 2, 1] = [8, 10, 9, 7] ∧
    Cv.applyPath (fun i s => apply (lrx4.gens.getD i []) s) [8, 10, 9, 7] [0, 2, 1, 1] = [7, 8, 9, 10] := by
  decide

/-- `MatrixGenerator.inv`: an accepted candidate is a right inverse -/
theorem Matrix.inv_sound (B n : Nat) (A cand R : List Nat) (h : Cv.Matrix.inv B n A cand = some R) :
    Cv.Matrix.apply B n n A R = Cv.Matrix.eye n := by
  exact Cv.GraphDef.Matrix.inv_sound B n A cand R h
example : Cv.Matrix.inv 5 2 [1, 1, 0, 1] [1, 4, 0, 1] = some [1, 4, 0, 1] := by decide

theorem Matrix.isInverse_symm (B n : Nat) (A C : List Nat) :
    Cv.Matrix.isInverse B n A C = Cv.Matrix.isInverse B n C A := by
  exact Cv.GraphDef.Matrix.isInverse_symm B n A C
example : Cv.Matrix.isInverse 5 2 [1, 1, 0, 1] [1, 4, 0, 1] = true := by decide

end Cv.C10
