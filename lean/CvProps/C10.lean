/-
  C10 — inverted / inverse-closed definitions.  Property theorems only (filled in as proofs land).
-/
import CvModel.GraphDef
