/-
  C19 — Hamming predictor, batch independence.  Property theorems only (filled in as proofs land).
-/
import CvModel.Beam
