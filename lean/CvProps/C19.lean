/-
  C19 — the Hamming predictor and batched scoring.  Property theorems only; proofs in `CvProofs/Beam.lean`.
-/
import CvProofs.Beam
namespace Cv

/-- the Hamming score is the number of positions where the state differs from the central state -/
theorem hamming_spec (c s : List Int) (hl : c.length = s.length) :
    hamming c s = ((List.range c.length).filter fun i => c.getD i 0 != s.getD i 0).length := by
  exact BW.hamming_spec' c s hl

/-- non-vacuity: equal lengths, two differing positions (1 and 3) -/
example : ([1, 2, 3, 4] : List Int).length = ([1, 0, 3, 0] : List Int).length ∧
    hamming [1, 2, 3, 4] [1, 0, 3, 0] = 2 ∧
    ((List.range 4).filter fun i => ([1, 2, 3, 4] : List Int).getD i 0 != ([1, 0, 3, 0] : List Int).getD i 0)
      = [1, 3] := by decide

theorem hamming_self (c : List Int) : hamming c c = 0 := by
  exact BW.hamming_self' c

example : hamming [3, 1, 2] [3, 1, 2] = 0 := by decide

theorem hamming_zero_iff (c s : List Int) (hl : c.length = s.length) : hamming c s = 0 ↔ s = c := by
  exact BW.hamming_zero_iff' c s hl

/-- non-vacuity: both directions have instances (a non-zero score for a different state of equal length) -/
example : ([3, 1, 2] : List Int).length = ([3, 2, 1] : List Int).length ∧ hamming [3, 1, 2] [3, 2, 1] = 2 ∧
    ([3, 2, 1] : List Int) ≠ [3, 1, 2] := by decide
/-- the equal-length hypothesis is needed: `zip` truncates the longer list -/
example : hamming [1, 2] [1, 2, 3] = 0 ∧ ([1, 2, 3] : List Int) ≠ [1, 2] := by decide

theorem hamming_le (c s : List Int) : hamming c s ≤ c.length := by
  exact BW.hamming_le' c s

/-- the bound is attained -/
example : hamming [1, 2, 3] [0, 0, 0] = ([1, 2, 3] : List Int).length := by decide

/-- scoring is batch-independent: any row-wise predictor, any batch size ≥ 1, same values in the same order -/
theorem predictBatched_eq {β γ : Type} (f : β → γ) (batchSize : Nat) (hb : 0 < batchSize) (states : List β) :
    predictBatched (List.map f) batchSize states = states.map f := by
  exact BW.predictBatched_eq' f batchSize hb states

/-- non-vacuity: 7 states in batches of 3 (three batches of sizes 3, 2, 2), scored by the Hamming heuristic -/
example : ceilDiv 7 3 = 3 ∧
    tensorSplit 3 [[0,1],[1,0],[1,1],[0,0],[0,1],[1,1],[1,0]] =
      [[[0,1],[1,0],[1,1]], [[0,0],[0,1]], [[1,1],[1,0]]] ∧
    predictBatched (List.map (hamming [0, 1])) 3 [[0,1],[1,0],[1,1],[0,0],[0,1],[1,1],[1,0]] =
      [0, 2, 1, 1, 0, 1, 2] := by decide

/-- more generally for any predictor that is a monoid morphism for `++` -/
theorem predictBatched_eq_of_append {β γ : Type} (predict : List β → List γ)
    (happ : ∀ a b, predict (a ++ b) = predict a ++ predict b) (hnil : predict [] = [])
    (batchSize : Nat) (hb : 0 < batchSize) (states : List β) :
    predictBatched predict batchSize states = predict states := by
  exact BW.predictBatched_eq_of_append' predict happ hnil batchSize hb states

/-- non-vacuity: a predictor that is a morphism for `++` but not a `map` (it drops odd entries) -/
example : predictBatched (List.filter (fun n : Nat => n % 2 == 0)) 2 [1, 2, 3, 4, 5] = [2, 4] := by decide
/-- the morphism hypothesis is needed: a predictor that looks at the whole batch (here: its length)
gives batch-dependent scores -/
example : predictBatched (fun l : List Nat => l.map fun _ => l.length) 2 [7, 7, 7] = [2, 2, 1] ∧
    (fun l : List Nat => l.map fun _ => l.length) [7, 7, 7] = [3, 3, 3] := by decide

end Cv
