/-
  C09 — early-stopped BFS = documented prefix.  Property theorems only (filled in as proofs land).
-/
import CvProofs.Spec
