/-
  C09 — what `bfs` reports when it stops early: sizes are a prefix of the true growth function, the stop
  reason is one of the documented rules, stored layers / hashes / callback trace follow the documented
  rules.  Property theorems only; proofs in `CvProofs/Bfs.lean`.
-/
import CvProofs.Bfs
import CvProofs.BfsExample
namespace Cv

variable {α : Type} {g : Graph α} {S : List α}

open BfsExample in
/-- the hypotheses `BfsHyp` are satisfiable: the 4-cycle with the identity hash, batch size 1 -/
example : BfsHyp exG [0] := exG_hyp [0]

/-! Each field of `BfsHyp` is needed (model evaluated on small graphs, see `CvProofs/BfsExample.lean`). -/

open BfsExample in
/-- `BfsHyp.batch` is needed: injective hash, symmetric graph, but batch size 0 (`ceil(1/0)` batches; the
Python code raises `ZeroDivisionError`): the model reports completion after layer 0 although class 1 is
not empty, so `bfs_completed_sound` fails -/
example : (∀ x y, exB.hash x = exB.hash y → x = y) ∧ Symm exB.nb ∧ exB.batchSize = 0 ∧
    (bfs exB {} [0]).completed = true ∧
    ¬ ∀ x, ¬ DistLayer exB.nb [0] (bfs exB {} [0]).layerSizes.length x := by
  obtain ⟨h1, h2, h3, h4, h5⟩ := batch_needed
  refine ⟨h1, h2, rfl, h3, ?_⟩
  rw [h4]; exact fun h => h 1 h5

open BfsExample in
/-- `BfsHyp.inj` is needed: with a colliding hash (constant 0) the neighbours of `0` are taken for `0`;
completion is reported after layer 0 although class 1 is not empty -/
example : Symm exC.nb ∧ 0 < exC.batchSize ∧ (bfs exC {} [0]).completed = true ∧
    ¬ ∀ x, ¬ DistLayer exC.nb [0] (bfs exC {} [0]).layerSizes.length x := by
  obtain ⟨h1, h2, h3, h4, h5⟩ := inj_needed
  refine ⟨h1, h2, h3, ?_⟩
  rw [h4]; exact fun h => h 1 h5

open BfsExample in
/-- `BfsHyp.symm` is needed: the directed 3-cycle flagged inverse-closed; the two-layer window forgets
layer 0 and the run reports a fourth layer of size 1 although class 3 is empty, so `bfs_sizes_prefix` fails -/
example : (∀ x y, exD.hash x = exD.hash y → x = y) ∧ 0 < exD.batchSize ∧ exD.invClosed = true ∧
    3 < (bfs exD cD [0]).layerSizes.length ∧
    ¬ ∃ L, IsLayer exD [0] 3 L ∧ (bfs exD cD [0]).layerSizes[3]? = some L.length := by
  obtain ⟨h1, h2, h3, h4, h5⟩ := symm_needed
  refine ⟨h1, h2, h3, by rw [h4]; decide, ?_⟩
  rintro ⟨L, hL, hsz⟩
  rw [h4] at hsz
  cases L with
  | nil => simp at hsz
  | cons a t => exact h5 a ((hL.2 a).1 (by simp))

/-- C09: the reported sizes are always a prefix of the true growth function -/
theorem bfs_sizes_prefix (h : BfsHyp g S) (c : BfsCfg α) (i : Nat)
    (hi : i < (bfs g c S).layerSizes.length) :
    ∃ L, IsLayer g S i L ∧ (bfs g c S).layerSizes[i]? = some L.length := by
  exact BfsThm.sizes_prefix h c i hi

open BfsExample in
/-- non-vacuity: a run stopped by `max_diameter = 1` reports the two layers `[1, 2]` -/
example : BfsHyp exG [0] ∧ 1 < (bfs exG cDiam [0]).layerSizes.length ∧
    (bfs exG cDiam [0]).completed = false := by
  refine ⟨exG_hyp _, ?_, diam_completed⟩
  rw [diam_sizes]; decide

/-- every reported layer after layer 0 is non-empty -/
theorem bfs_sizes_pos (h : BfsHyp g S) (c : BfsCfg α) (i : Nat) (hi : 0 < i) (n : Nat)
    (hn : (bfs g c S).layerSizes[i]? = some n) : 0 < n := by
  exact BfsThm.sizes_pos h c i hi n hn

open BfsExample in
example : BfsHyp exG [0] ∧ 0 < 1 ∧ (bfs exG {} [0]).layerSizes[1]? = some 2 := by
  refine ⟨exG_hyp _, by decide, ?_⟩
  rw [full_sizes]; rfl

/-- completion is reported only when an empty next layer was observed (= the next distance class is empty) -/
theorem bfs_completed_sound (h : BfsHyp g S) (c : BfsCfg α) (hc : (bfs g c S).completed = true) :
    ∀ x, ¬ DistLayer g.nb S (bfs g c S).layerSizes.length x := by
  exact BfsThm.completed_sound h c hc

open BfsExample in
example : BfsHyp exG [0] ∧ (bfs exG {} [0]).completed = true ∧ (bfs exG {} [0]).layerSizes = [1, 2, 1] :=
  ⟨exG_hyp _, full_completed, full_sizes⟩

/-- a run that did not complete was stopped by one of the three documented rules, at its last layer -/
theorem bfs_stopped_by_rule (h : BfsHyp g S) (c : BfsCfg α) (hc : (bfs g c S).completed = false) :
    (bfs g c S).layerSizes.length = c.maxDiameter + 1 ∨
    (∃ n, (bfs g c S).layerSizes.getLast? = some n ∧ c.maxExplore ≤ n ∧ 2 ≤ (bfs g c S).layerSizes.length) ∨
    (∃ f L, c.stop = some f ∧ IsLayer g S ((bfs g c S).layerSizes.length - 1) L ∧
        f ((bfs g c S).layerSizes.length - 1) L = true) := by
  exact BfsThm.stopped_by_rule h c hc

open BfsExample in
/-- non-vacuity: three incomplete runs, one for each rule (iteration limit, size limit, callback) -/
example : BfsHyp exG [0] ∧ (bfs exG cDiam [0]).completed = false ∧
    (bfs exG cExpl [0]).completed = false ∧ (bfs exG cStop [0]).completed = false :=
  ⟨exG_hyp _, diam_completed, expl_completed, stop_completed⟩

/-- and conversely none of the rules fired earlier: every layer before the last is below the explore limit -/
theorem bfs_no_early_stop (h : BfsHyp g S) (c : BfsCfg α) (i : Nat) (hi0 : 0 < i)
    (hi : i + 1 < (bfs g c S).layerSizes.length) (n : Nat) (hn : (bfs g c S).layerSizes[i]? = some n) :
    n < c.maxExplore := by
  exact BfsThm.no_early_stop h c i hi0 hi n hn

open BfsExample in
example : BfsHyp exG [0] ∧ 0 < 1 ∧ 1 + 1 < (bfs exG cStop [0]).layerSizes.length ∧
    (bfs exG cStop [0]).layerSizes[1]? = some 2 := by
  refine ⟨exG_hyp _, by decide, ?_, ?_⟩ <;> rw [stop_sizes] <;> decide

/-- stored layers are the true layers -/
theorem bfs_stored_sound (h : BfsHyp g S) (c : BfsCfg α) (i : Nat) (L : List α)
    (hm : (i, L) ∈ (bfs g c S).layers) : IsLayer g S i L := by
  exact BfsThm.stored_sound h c i L hm

open BfsExample in
example : BfsHyp exG [0] ∧ (1, [1, 3]) ∈ (bfs exG {} [0]).layers := by
  refine ⟨exG_hyp _, ?_⟩
  rw [full_layers]; decide

/-- … and are stored exactly by the documented rule -/
theorem bfs_stored_iff (h : BfsHyp g S) (c : BfsCfg α) (i : Nat) :
    (∃ L, (i, L) ∈ (bfs g c S).layers) ↔
      ∃ n, (bfs g c S).layerSizes[i]? = some n ∧
        (i = 0 ∨ n ≤ c.storeLimit ∨ ((bfs g c S).completed = true ∧ i + 1 = (bfs g c S).layerSizes.length)) := by
  exact BfsThm.stored_iff h c i

open BfsExample in
/-- non-vacuity: with `max_layer_size_to_store = 1` layer 1 (two states) is reported but not stored -/
example : BfsHyp exG [0] ∧ (bfs exG cStop [0]).layerSizes = [1, 2, 1] ∧
    (bfs exG cStop [0]).layers = [(0, [0]), (2, [2])] ∧ cStop.storeLimit = 1 :=
  ⟨exG_hyp _, stop_sizes, stop_layers, rfl⟩

/-- per-layer hashes -/
theorem bfs_hashes_rule (h : BfsHyp g S) (c : BfsCfg α) :
    (c.returnHashes = false → (bfs g c S).hashes = []) ∧
    (c.returnHashes = true → (bfs g c S).hashes.length = (bfs g c S).layerSizes.length ∧
      ∀ i H, (bfs g c S).hashes[i]? = some H →
        H.Pairwise (· < ·) ∧ ∃ L, IsLayer g S i L ∧ H.Perm (L.map g.hash)) := by
  exact BfsThm.hashes_rule h c

open BfsExample in
example : BfsHyp exG [0] ∧ cStop.returnHashes = true ∧
    (bfs exG cStop [0]).hashes = [[0], [1, 3], [2]] :=
  ⟨exG_hyp _, rfl, stop_hashes⟩

/-- callback trace: called on layers 1,2,… in order, each once; on every reported layer except a last
layer on which the size limit fired first -/
theorem bfs_callback_trace (h : BfsHyp g S) (c : BfsCfg α) :
    (c.stop = none → (bfs g c S).cbTrace = []) ∧
    (∀ f, c.stop = some f → ∃ m, (bfs g c S).cbTrace = (List.range m).map (· + 1) ∧
        (m + 1 = (bfs g c S).layerSizes.length ∨
         (m + 2 = (bfs g c S).layerSizes.length ∧
            ∃ n, (bfs g c S).layerSizes.getLast? = some n ∧ c.maxExplore ≤ n))) := by
  exact BfsThm.callback_trace h c

open BfsExample in
/-- non-vacuity: both alternatives occur (callback on every layer; size limit fired before the callback) -/
example : BfsHyp exG [0] ∧
    (∃ f, cStop.stop = some f) ∧ (bfs exG cStop [0]).cbTrace = [1, 2] ∧
      (bfs exG cStop [0]).layerSizes.length = 3 ∧
    (∃ f, cExpl.stop = some f) ∧ (bfs exG cExpl [0]).cbTrace = [] ∧
      (bfs exG cExpl [0]).layerSizes.length = 2 := by
  refine ⟨exG_hyp _, ⟨_, rfl⟩, stop_cb, ?_, ⟨_, rfl⟩, expl_cb, ?_⟩
  · rw [stop_sizes]; rfl
  · rw [expl_sizes]; rfl

end Cv
