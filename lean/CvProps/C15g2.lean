/-
  C15 (generated-vs-model, group G2) — the `PermutationGroups` constructors REGENERATED from
  `cayleypy/graphs_lib.py` (`CvGen/PyFamilies.lean`), composed with the model of `CayleyGraphDef.create`,
  equal the closed-form specification `CvModel/Families.lean`, for ALL `n`.
  Proofs: `CvProofs/PyLemmasG2.lean`, `CvProofs/PyFamG2*.lean`.
-/
import CvProofs.PyFamG2
namespace Cv.C15g2
open Cv.Py Cv.PyGen Cv.Families

/-- `PermutationGroups.full_reversals(n)` -/
theorem full_reversals_gen (n : Nat) :
    (Fam.full_reversals (n : Int)).bind rawToPermDef = Families.fullReversals n := by
  exact Cv.PyG2.full_reversals_gen n
example : Fam.full_reversals 3 = some ⟨[[1,0,2],[2,1,0],[0,2,1]], some [0,1,2],
    some ["R[0..1]", "R[0..2]", "R[1..2]"], none⟩ := by decide
example : ((Fam.full_reversals (3 : Nat)).bind rawToPermDef).map (·.gens) = some [[1,0,2],[2,1,0],[0,2,1]] := by
  rw [full_reversals_gen]; decide

theorem full_reversals_gen_neg (n : Int) (h : n < 0) : Fam.full_reversals n = none := by
  exact Cv.PyG2.full_reversals_gen_neg n h
example : Fam.full_reversals (-3) = none := by decide

/-- `PermutationGroups.all_transpositions(n)` -/
theorem all_transpositions_gen (n : Nat) :
    (Fam.all_transpositions (n : Int)).bind rawToPermDef = Families.allTranspositions n := by
  exact Cv.PyG2.all_transpositions_gen n
example : Fam.all_transpositions 3 = some ⟨[[1,0,2],[2,1,0],[0,2,1]], some [0,1,2],
    some ["(0,1)", "(0,2)", "(1,2)"], none⟩ := by decide
example : ((Fam.all_transpositions (3 : Nat)).bind rawToPermDef).map (·.names) = some ["(0,1)", "(0,2)", "(1,2)"] := by
  rw [all_transpositions_gen]; decide

theorem all_transpositions_gen_neg (n : Int) (h : n < 0) : Fam.all_transpositions n = none := by
  exact Cv.PyG2.all_transpositions_gen_neg n h
example : Fam.all_transpositions (-3) = none := by decide

/-- `PermutationGroups.signed_reversals(n)` -/
theorem signed_reversals_gen (n : Nat) :
    (Fam.signed_reversals (n : Int)).bind rawToPermDef = Families.signedReversals n := by
  exact Cv.PyG2.signed_reversals_gen n
example : Fam.signed_reversals 2 = some ⟨[[2,1,0,3],[3,2,1,0],[0,3,2,1]], some [0,1,2,3],
    some ["R[0..0]", "R[0..1]", "R[1..1]"], none⟩ := by decide
example : ((Fam.signed_reversals (2 : Nat)).bind rawToPermDef).map (·.gens) = some [[2,1,0,3],[3,2,1,0],[0,3,2,1]] := by
  rw [signed_reversals_gen]; decide

theorem signed_reversals_gen_neg (n : Int) (h : n < 0) : Fam.signed_reversals n = none := by
  exact Cv.PyG2.signed_reversals_gen_neg n h
example : Fam.signed_reversals (-3) = none := by decide

/-- `PermutationGroups.transposons(n)` -/
theorem transposons_gen (n : Nat) :
    (Fam.transposons (n : Int)).bind rawToPermDef = Families.transposons n := by
  exact Cv.PyG2.transposons_gen n
example : Fam.transposons 3 = some ⟨[[1,0,2],[1,2,0],[2,0,1],[0,2,1]], some [0,1,2],
    some ["T[0..0,1]", "T[0..0,2]", "T[0..1,2]", "T[1..1,2]"], none⟩ := by decide
example : ((Fam.transposons (3 : Nat)).bind rawToPermDef).map (·.names) =
    some ["T[0..0,1]", "T[0..0,2]", "T[0..1,2]", "T[1..1,2]"] := by
  rw [transposons_gen]; decide

theorem transposons_gen_neg (n : Int) (h : n < 0) : Fam.transposons n = none := by
  exact Cv.PyG2.transposons_gen_neg n h
example : Fam.transposons (-3) = none := by decide

/-- `PermutationGroups.block_interchange(n)` -/
theorem block_interchange_gen (n : Nat) :
    (Fam.block_interchange (n : Int)).bind rawToPermDef = Families.blockInterchange n := by
  exact Cv.PyG2.block_interchange_gen n
example : (Fam.block_interchange 3).map (·.gens) = some [[1,0,2],[1,2,0],[2,1,0],[2,0,1],[0,2,1]] ∧
    (Fam.block_interchange 3).bind (·.names) =
      some ["I[0..0,1..1]", "I[0..0,1..2]", "I[0..0,2..2]", "I[0..1,2..2]", "I[1..1,2..2]"] := by decide
example : ((Fam.block_interchange (3 : Nat)).bind rawToPermDef).map (·.names) =
    some ["I[0..0,1..1]", "I[0..0,1..2]", "I[0..0,2..2]", "I[0..1,2..2]", "I[1..1,2..2]"] := by
  rw [block_interchange_gen]; decide

theorem block_interchange_gen_neg (n : Int) (h : n < 0) : Fam.block_interchange n = none := by
  exact Cv.PyG2.block_interchange_gen_neg n h
example : Fam.block_interchange (-3) = none := by decide

end Cv.C15g2
