import CvProofs.Spec
import CvProofs.RefBfs
import CvProofs.Tensor
import CvProofs.Hash
import CvProofs.Codec
