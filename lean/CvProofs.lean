import CvProofs.Spec
import CvProofs.RefBfs
