import CvProofs.Spec
