import CvProofs.Spec
import CvProofs.RefBfs
import CvProofs.Tensor
import CvProofs.Hash
import CvProofs.Codec
import CvProofs.Bfs
import CvProofs.BfsExample
