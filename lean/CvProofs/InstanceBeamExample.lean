/-
  Facts about LRX(4) used by the non-vacuity examples of C06e / C07e: the mathematical graph (distance of the farthest
  state, orbit bounds, an unreachable pair), the hypotheses of the theorems for the encoded (width 2, identity hasher) and
  the un-encoded (base-4 hash) graph, and runs of the un-encoded graph evaluated in the kernel (the encoded runs are in
  `CvProofs/BeamKernel.lean`).  Core Lean only.
-/
import CvProofs.InstanceBeam
import CvProofs.InstanceExample
import CvProofs.BeamKernel
namespace Cv.Instance.BeamExample
open Cv Cv.Instance Cv.Instance.Example Cv.Kernel

/-- the start state of the beam examples: the unique state at distance 6 from the identity -/
def far4 : List Nat := [1, 0, 3, 2]

theorem idHash_inj : ∀ x y : List Cv.Codec.W, x.length = Cv.Codec.encLen 2 4 → y.length = Cv.Codec.encLen 2 4 →
    identityHash x = identityHash y → x = y :=
  fun x y hx hy h => identityHash_inj_len1 x y (by rw [hx]; decide) (by rw [hy]; decide) h

theorem lrx4_invMapB : Cv.GraphDef.inverseMapPerm lrx4 = some [1, 0, 2] := by decide

theorem far4_dist : DistLayer (permGraphNb lrx4) [far4] 6 id4 :=
  ((absSt_spec (permGraphNb lrx4) [far4] 6).1 _).1 (by decide +kernel)

theorem far4_orbit : ∀ s, InOrbit (permGraphNb lrx4) [far4] s → s ∈ all24 :=
  Transport.inOrbit_invariant _ _ (· ∈ all24) (by decide +kernel) (fun a b ha hb => all24_closed a ha b hb)

/-- every duplicate-free list of states reachable from `far4` has at most 24 entries -/
theorem far4_wide (k : Nat) (L : List (List Nat)) (hn : L.Nodup)
    (hL : ∀ s ∈ L, Reach (permGraphNb lrx4) [far4] k s) : L.length ≤ 24 := by
  have hsub : L ⊆ all24 := fun s hs => far4_orbit s ⟨k, hL s hs⟩
  have := hn.length_le_of_subset hsub
  rwa [all24_length] at this

/-- every duplicate-free list of states of one distance class of LRX(4) has at most 24 ≤ 30 entries -/
theorem lrx4_wide (k : Nat) (L : List (List Nat)) (hn : L.Nodup)
    (hL : ∀ s ∈ L, DistLayer (permGraphNb lrx4) [id4] k s) : L.length ≤ 30 := by
  have hsub : L ⊆ all24 := fun s hs => orbit_subset s (hL s hs).inOrbit
  have := hn.length_le_of_subset hsub
  rw [all24_length] at this
  omega

/-- `[0, 0, 1, 1]` has other entries than the identity: its orbit (6 arrangements) does not contain `[0, 1, 2, 3]` -/
theorem unreach4 : ∀ k, ¬ Walk (permGraphNb lrx4) k [0, 0, 1, 1] id4 := by
  intro k wk
  have hclosed : ∀ s ∈ (absSt (permGraphNb lrx4) [[0, 0, 1, 1]] 4).1, ∀ t ∈ permGraphNb lrx4 s,
      t ∈ (absSt (permGraphNb lrx4) [[0, 0, 1, 1]] 4).1 := by decide +kernel
  have := Transport.inOrbit_invariant (permGraphNb lrx4) [[0, 0, 1, 1]]
    (· ∈ (absSt (permGraphNb lrx4) [[0, 0, 1, 1]] 4).1) (by decide +kernel)
    (fun a b ha hb => hclosed a ha b hb) id4 ⟨k, [0, 0, 1, 1], by simp, wk⟩
  revert this
  decide +kernel

theorem gB_draws : DrawsOk (encodedPermGraph 2 4 lrx4 identityHash true 1) 2 [[0, 2], [1, 1]] (3 - 1) := by
  refine ⟨by decide, ?_⟩
  intro k d h
  match k, h with
  | 0, h => cases h; decide
  | 1, h => cases h; decide
  | k + 2, h => simp at h

theorem gP_draws : DrawsOk (plainPermGraph lrx4 b4Hash true 2) 2 [[0, 2], [1, 1]] (3 - 1) := by
  refine ⟨by decide, ?_⟩
  intro k d h
  match k, h with
  | 0, h => cases h; decide
  | 1, h => cases h; decide
  | k + 2, h => simp at h

/-! ### the ball of radius 2 around the identity -/

/-- the BFS of radius 2 around the identity of encoded LRX(4), evaluated: its hashes (identity hasher: the words) -/
theorem lrx4_ball2 :
    (bfs (encodedPermGraph 2 4 lrx4 identityHash true 1) { returnHashes := true, maxDiameter := 2 }
      [Cv.Codec.encode 2 4 id4]).hashes = [[228], [57, 147, 225], [54, 78, 120, 135, 156]] := by
  rw [bfs_eq_bfsK]; decide +kernel

/-- hence (theorem `encoded_bfs_hashes_isBall`) the literal list is a ball of the encoded graph -/
theorem lrx4_isBall2 : IsBall (encodedPermGraph 2 4 lrx4 identityHash true 1) (Cv.Codec.encode 2 4 id4)
    [[228], [57, 147, 225], [54, 78, 120, 135, 156]] := by
  have := (encoded_bfs_hashes_isBall 2 4 (by decide) (by decide) lrx4 lrx4_perm identityHash true 1
    (identityHash_inj_valid 2 4 encLen_2_4) id4 (by decide) (fun _ => lrx4_symm) (by decide)
    { returnHashes := true, maxDiameter := 2 } rfl).1
  rwa [lrx4_ball2] at this

theorem plain_ball2 :
    (bfs (plainPermGraph lrx4 b4Hash true 2) { returnHashes := true, maxDiameter := 2 } [id4]).hashes =
      [[27], [75, 108, 198], [45, 54, 156, 177, 210]] := by
  rw [bfs_eq_bfsK]; decide +kernel

theorem plain_isBall2 : IsBall (plainPermGraph lrx4 b4Hash true 2) id4
    [[27], [75, 108, 198], [45, 54, 156, 177, 210]] := by
  have := (plain_bfs_hashes_isBall 4 4 lrx4 lrx4_perm b4Hash true 2 b4Hash_inj_plainOk id4
    (show id4.length = 4 ∧ ∀ a ∈ id4, a < 4 by decide)
    (fun _ => lrx4_symm) (by decide) { returnHashes := true, maxDiameter := 2 } rfl).1
  rwa [plain_ball2] at this

/-! ### runs of the un-encoded graph, evaluated -/

theorem plain_noball_run :
    beamSimple (plainPermGraph lrx4 b4Hash true 2) (plainPermGraph (lrx4.map Cv.Perm.inverse) b4Hash true 2) none
      id4 far4
      { beamWidth := 3, maxSteps := 10, returnPath := true, ball := none,
        select := fun _ l => List.range (min 3 l.length) } =
      some { found := true, length := 6, path := some [1, 2, 0, 2, 1, 2] } := by
  rw [beamSimple_eq_beamSimpleK]; decide +kernel

theorem plain_ball_run :
    beamSimple (plainPermGraph lrx4 b4Hash true 2) (plainPermGraph (lrx4.map Cv.Perm.inverse) b4Hash true 2)
      (some [1, 0, 2]) id4 far4
      { beamWidth := 3, maxSteps := 10, returnPath := true,
        ball := some [[27], [75, 108, 198], [45, 54, 156, 177, 210]],
        select := fun _ l => List.range (min 3 l.length) } =
      some { found := true, length := 6, path := some [1, 2, 0, 2, 1, 2] } := by
  rw [beamSimple_eq_beamSimpleK]; decide +kernel

theorem plain_adv_run :
    beamAdvanced (plainPermGraph lrx4 b4Hash true 2) far4 id4
      { beamWidth := 2, maxSteps := 10, historyDepth := 2, select := fun _ _ => List.range 2 } =
      some { found := true, length := 8, path := none } := by
  rw [beamAdvanced_eq_beamAdvancedK]; decide +kernel

theorem plain_unreach_run :
    beamSimple (plainPermGraph lrx4 b4Hash true 2) (plainPermGraph (lrx4.map Cv.Perm.inverse) b4Hash true 2) none
      id4 [0, 0, 1, 1]
      { beamWidth := 3, maxSteps := 10, returnPath := true, ball := none,
        select := fun _ l => List.range (min 3 l.length) } =
      some { found := false, length := 0, path := none } := by
  rw [beamSimple_eq_beamSimpleK]; decide +kernel

theorem plain_walksBfs_thin :
    walksBfs (plainPermGraph lrx4 b4Hash true 2) 2 5 id4 [[1, 0, 2], [0, 1, 2, 3], [2, 0, 1]] =
      [([0, 1, 2, 3], 0), ([1, 2, 3, 0], 1), ([1, 0, 2, 3], 1), ([0, 2, 3, 1], 2), ([2, 1, 3, 0], 2),
       ([2, 0, 3, 1], 3), ([0, 2, 1, 3], 3), ([0, 3, 1, 2], 4), ([1, 2, 0, 3], 4)] := by
  rw [walksBfs_eq_walksBfsK]; decide +kernel

theorem plain_walksBfs_all : walksBfs (plainPermGraph lrx4 b4Hash true 2) 30 10 id4 [] =
    [([0, 1, 2, 3], 0),
     ([1, 0, 2, 3], 1), ([1, 2, 3, 0], 1), ([3, 0, 1, 2], 1),
     ([0, 2, 3, 1], 2), ([0, 3, 1, 2], 2), ([2, 1, 3, 0], 2), ([2, 3, 0, 1], 2), ([3, 1, 0, 2], 2),
     ([0, 2, 1, 3], 3), ([1, 3, 0, 2], 3), ([2, 0, 3, 1], 3), ([2, 3, 1, 0], 3), ([3, 1, 2, 0], 3), ([3, 2, 0, 1], 3),
     ([1, 2, 0, 3], 4), ([1, 3, 2, 0], 4), ([2, 0, 1, 3], 4), ([3, 0, 2, 1], 4), ([3, 2, 1, 0], 4),
     ([0, 1, 3, 2], 5), ([0, 3, 2, 1], 5), ([2, 1, 0, 3], 5),
     ([1, 0, 3, 2], 6)] := by
  rw [walksBfs_eq_walksBfsK]; decide +kernel

/-! ### runs that show that the hypotheses are needed -/

/-- start state not encodable (width 1): its encoding is that of `[0, 1, 0, 1]` -/
theorem hs_needed_beam :
    beamSimple (encodedPermGraph 1 4 lrx4 identityHash true 1)
      (encodedPermGraph 1 4 (lrx4.map Cv.Perm.inverse) identityHash true 1) none
      (Cv.Codec.encode 1 4 [0, 1, 0, 1]) (Cv.Codec.encode 1 4 id4)
      { beamWidth := 3, maxSteps := 10, returnPath := true, ball := none,
        select := fun _ l => List.range (min 3 l.length) } =
      some { found := true, length := 0, path := some [] } := by
  rw [beamSimple_eq_beamSimpleK]; decide +kernel

/-- constant hash: the start state "is" the central state -/
theorem hinj_needed_beam :
    beamSimple (encodedPermGraph 2 4 lrx4 (fun _ => 0) true 1)
      (encodedPermGraph 2 4 (lrx4.map Cv.Perm.inverse) (fun _ => 0) true 1) none
      (Cv.Codec.encode 2 4 id4) (Cv.Codec.encode 2 4 far4)
      { beamWidth := 3, maxSteps := 10, returnPath := true, ball := none,
        select := fun _ l => List.range (min 3 l.length) } =
      some { found := true, length := 0, path := some [] } := by
  rw [beamSimple_eq_beamSimpleK]; decide +kernel

theorem not_walk0_id4 : ¬ Walk (permGraphNb lrx4) 0 id4 [0, 1, 0, 1] := by
  intro h
  have := walk_zero_iff.1 h
  revert this
  decide

theorem not_walk0_far4 : ¬ Walk (permGraphNb lrx4) 0 far4 id4 := by
  intro h
  have := walk_zero_iff.1 h
  revert this
  decide

theorem unreach_runs :
    beamSimple (encodedPermGraph 2 4 lrx4 identityHash true 1)
      (encodedPermGraph 2 4 (lrx4.map Cv.Perm.inverse) identityHash true 1) none
      (Cv.Codec.encode 2 4 id4) (Cv.Codec.encode 2 4 [0, 0, 1, 1])
      { beamWidth := 3, maxSteps := 10, returnPath := true, ball := none,
        select := fun _ l => List.range (min 3 l.length) } =
      some { found := false, length := 0, path := none } ∧
    beamSimple (encodedPermGraph 2 4 lrx4 identityHash true 1)
      (encodedPermGraph 2 4 (lrx4.map Cv.Perm.inverse) identityHash true 1) (some [1, 0, 2])
      (Cv.Codec.encode 2 4 id4) (Cv.Codec.encode 2 4 [0, 0, 1, 1])
      { beamWidth := 3, maxSteps := 10, returnPath := true,
        ball := some [[228], [57, 147, 225], [54, 78, 120, 135, 156]],
        select := fun _ l => List.range (min 3 l.length) } =
      some { found := false, length := 0, path := none } ∧
    beamAdvanced (encodedPermGraph 2 4 lrx4 identityHash true 1) (Cv.Codec.encode 2 4 [0, 0, 1, 1])
      (Cv.Codec.encode 2 4 id4)
      { beamWidth := 2, maxSteps := 10, historyDepth := 2, select := fun _ _ => List.range 2 } =
      some { found := false, length := 3, path := none } := by
  rw [beamSimple_eq_beamSimpleK, beamSimple_eq_beamSimpleK, beamAdvanced_eq_beamAdvancedK]; decide +kernel

/-- start state not encodable (width 1): the BFS-mode walk explores the orbit of `[0, 1, 0, 1]` -/
theorem hs_needed_walks :
    (walksBfs (encodedPermGraph 1 4 lrx4 identityHash true 1) 2 3 (Cv.Codec.encode 1 4 id4) []).map
        (fun p => (Cv.Codec.decode 1 4 p.1, p.2)) =
      [([0, 1, 0, 1], 0), ([1, 0, 1, 0], 1), ([1, 0, 0, 1], 1), ([1, 1, 0, 0], 2), ([0, 1, 1, 0], 2)] := by
  rw [walksBfs_eq_walksBfsK]; decide +kernel

/-- hash `word mod 16` (collisions): only 12 of the 24 states are returned, `[1, 0, 3, 2]` (class 6) is missing -/
theorem hinj_needed_walks :
    ((walksBfs (encodedPermGraph 2 4 lrx4 (fun x => identityHash x % 16) true 1) 30 10 (Cv.Codec.encode 2 4 id4)
        []).map (fun p => (Cv.Codec.decode 2 4 p.1, p.2))).length = 12 ∧
    ([1, 0, 3, 2], 6) ∉ (walksBfs (encodedPermGraph 2 4 lrx4 (fun x => identityHash x % 16) true 1) 30 10
        (Cv.Codec.encode 2 4 id4) []).map (fun p => (Cv.Codec.decode 2 4 p.1, p.2)) ∧
    DistLayer (permGraphNb lrx4) [id4] 6 [1, 0, 3, 2] := by
  refine ⟨by rw [walksBfs_eq_walksBfsK]; decide +kernel, by rw [walksBfs_eq_walksBfsK]; decide +kernel, ?_⟩
  exact ((absSt_spec (permGraphNb lrx4) [id4] 6).1 _).1 (by decide +kernel)

end Cv.Instance.BeamExample
