/-
  A concrete small graph (the 4-cycle on `Nat`, states ≥ 4 fixed by both generators) on which the BFS
  model is evaluated symbolically; used for the non-vacuity examples of `CvProps/C01.lean`, `C09.lean`.
  (`List.mergeSort` is defined by well-founded recursion, so the kernel cannot evaluate `bfs` by `decide`;
  the run is replayed iteration by iteration, every expansion being evaluated by `simp`.)
-/
import CvProofs.Bfs
namespace Cv
namespace BfsExample

/-! ### evaluation rules for one iteration -/

theorem step_done {α : Type} (g : Graph α) (c : BfsCfg α) (fuel i : Nat) (s : BfsLoop α) (l2H : List Int)
    (he : expandSel g c s = ([], l2H)) :
    bfsLoop g c (fuel + 1) i s = { preState g c s with completed := true } := by
  rw [bfsLoop_succ, he]; rfl

theorem step_next {α : Type} (g : Graph α) (c : BfsCfg α) (fuel i : Nat) (s : BfsLoop α) (l2 : List α)
    (l2H : List Int) (he : expandSel g c s = (l2, l2H)) (hne : (l2.length == 0) = false)
    (hexp : ¬ l2.length ≥ c.maxExplore) (hstop : c.stop = none) :
    bfsLoop g c (fuel + 1) i s = bfsLoop g c fuel (i + 1) (postState g c i (preState g c s) l2 l2H) := by
  rw [bfsLoop_succ, he]
  simp only [hne, Bool.false_eq_true, if_false, if_neg hexp, hstop]

theorem step_explore {α : Type} (g : Graph α) (c : BfsCfg α) (fuel i : Nat) (s : BfsLoop α) (l2 : List α)
    (l2H : List Int) (he : expandSel g c s = (l2, l2H)) (hne : (l2.length == 0) = false)
    (hexp : l2.length ≥ c.maxExplore) :
    bfsLoop g c (fuel + 1) i s = postState g c i (preState g c s) l2 l2H := by
  rw [bfsLoop_succ, he]
  simp only [hne, Bool.false_eq_true, if_false, if_pos hexp]

theorem step_cb_next {α : Type} (g : Graph α) (c : BfsCfg α) (fuel i : Nat) (s : BfsLoop α) (l2 : List α)
    (l2H : List Int) (f : Nat → List α → Bool) (he : expandSel g c s = (l2, l2H))
    (hne : (l2.length == 0) = false) (hexp : ¬ l2.length ≥ c.maxExplore) (hstop : c.stop = some f)
    (hf : f i l2 = false) :
    bfsLoop g c (fuel + 1) i s = bfsLoop g c fuel (i + 1)
      { postState g c i (preState g c s) l2 l2H with
        cb := (postState g c i (preState g c s) l2 l2H).cb ++ [i] } := by
  rw [bfsLoop_succ, he]
  simp only [hne, Bool.false_eq_true, if_false, if_neg hexp, hstop, hf]

theorem step_cb_stop {α : Type} (g : Graph α) (c : BfsCfg α) (fuel i : Nat) (s : BfsLoop α) (l2 : List α)
    (l2H : List Int) (f : Nat → List α → Bool) (he : expandSel g c s = (l2, l2H))
    (hne : (l2.length == 0) = false) (hexp : ¬ l2.length ≥ c.maxExplore) (hstop : c.stop = some f)
    (hf : f i l2 = true) :
    bfsLoop g c (fuel + 1) i s =
      { postState g c i (preState g c s) l2 l2H with
        cb := (postState g c i (preState g c s) l2 l2H).cb ++ [i] } := by
  rw [bfsLoop_succ, he]
  simp only [hne, Bool.false_eq_true, if_false, if_neg hexp, hstop, hf, if_true]

/-! ### the 4-cycle -/

/-- the 4-cycle `0 - 1 - 2 - 3 - 0` with generators `+1`, `+3 = -1`; batch size 1 so that layer 1
(two rows) goes through the batched branch -/
def exG : Graph Nat :=
  { nGens := 2, act := fun i x => if x < 4 then (if i = 0 then (x + 1) % 4 else (x + 3) % 4) else x,
    hash := fun x => (x : Int), invClosed := true, batchSize := 1 }

theorem exG_symm : Symm exG.nb := by
  intro x y
  simp only [Graph.nb, nbOf, exG, List.range_succ, List.range_zero, List.nil_append, List.map_cons,
    List.map_nil, List.cons_append, List.mem_cons, List.not_mem_nil, or_false]
  intro h
  split at h <;> split <;> simp at h ⊢ <;> omega

theorem exG_hyp (S : List Nat) : BfsHyp exG S :=
  ⟨fun x y _ _ hxy => Int.ofNat.inj hxy, fun _ => exG_symm, by decide⟩

/-- state before the first iteration -/
def st0 : BfsLoop Nat :=
  { layer1 := [0], layer1H := [0], seen := [[0]], sizes := [1], layers := [(0, [0])], allH := [],
    eStarts := [], eEnds := [], cb := [], completed := false }

/-- evaluates one expansion on concrete data -/
macro "bfs_expand" : tactic => `(tactic|
  simp [expandSel, expandPlain, expandBatched, Graph.unique, Graph.neighbors, uniqueStates, sortByKey,
    dedupAdj, List.mergeSort, List.MergeSort.Internal.splitInTwo, notSeen, isinSorted, searchsorted,
    exG, st0, List.range_succ, tensorSplit, splitSizes, splitBy, ceilDiv, sortInts])

theorem init_eq : bfsInit exG [0] = st0 := by
  have e0 : exG.unique [0] = [0] := by
    simp [Graph.unique, uniqueStates, sortByKey, dedupAdj]
  simp only [bfsInit, e0]
  rfl

/-! #### default configuration: the run is exhaustive -/

def stFull : BfsLoop Nat :=
  { layer1 := [2], layer1H := [2], seen := [[1, 3], [2]], sizes := [1, 2, 1],
    layers := [(0, [0]), (1, [1, 3]), (2, [2])], allH := [], eStarts := [], eEnds := [], cb := [],
    completed := true }

theorem run_full : bfsFinal exG {} [0] = stFull := by
  unfold bfsFinal
  rw [init_eq]
  rw [show ({} : BfsCfg Nat).maxDiameter = 999997 + 1 + 1 + 1 from rfl]
  rw [step_next exG {} _ 1 st0 [1, 3] [1, 3] (by bfs_expand) rfl (by decide) rfl]
  rw [show postState exG {} 1 (preState exG {} st0) [1, 3] [1, 3] =
    { layer1 := [1, 3], layer1H := [1, 3], seen := [[0], [1, 3]], sizes := [1, 2],
      layers := [(0, [0]), (1, [1, 3])], allH := [], eStarts := [], eEnds := [], cb := [],
      completed := false } from rfl]
  rw [step_next exG {} _ 2 _ [2] [2] (by bfs_expand) rfl (by decide) rfl]
  rw [show postState exG {} 2 (preState exG {} _) [2] [2] =
    { layer1 := [2], layer1H := [2], seen := [[1, 3], [2]], sizes := [1, 2, 1],
      layers := [(0, [0]), (1, [1, 3]), (2, [2])], allH := [], eStarts := [], eEnds := [], cb := [],
      completed := false } from rfl]
  rw [step_done exG {} _ 3 _ [] (by bfs_expand)]
  rfl

theorem full_sizes : (bfs exG {} [0]).layerSizes = [1, 2, 1] := by
  rw [bfs_layerSizes, run_full]; rfl
theorem full_completed : (bfs exG {} [0]).completed = true := by
  rw [bfs_completed, run_full]; rfl
theorem full_layers : (bfs exG {} [0]).layers = [(0, [0]), (1, [1, 3]), (2, [2])] := by
  rw [bfs_layers, run_full]; rfl

/-! #### `max_diameter = 1`: stopped by the iteration limit -/

def cDiam : BfsCfg Nat := { maxDiameter := 1 }

def stDiam : BfsLoop Nat :=
  { layer1 := [1, 3], layer1H := [1, 3], seen := [[0], [1, 3]], sizes := [1, 2],
    layers := [(0, [0]), (1, [1, 3])], allH := [], eStarts := [], eEnds := [], cb := [],
    completed := false }

theorem run_diam : bfsFinal exG cDiam [0] = stDiam := by
  unfold bfsFinal
  rw [init_eq]
  rw [show cDiam.maxDiameter = 0 + 1 from rfl]
  rw [step_next exG cDiam _ 1 st0 [1, 3] [1, 3] (by bfs_expand) rfl (by decide) rfl]
  rfl

theorem diam_sizes : (bfs exG cDiam [0]).layerSizes = [1, 2] := by
  rw [bfs_layerSizes, run_diam]; rfl
theorem diam_completed : (bfs exG cDiam [0]).completed = false := by
  rw [bfs_completed, run_diam]; rfl

/-! #### `max_layer_size_to_explore = 2` with a callback: the size limit fires before the callback -/

def cExpl : BfsCfg Nat := { maxExplore := 2, stop := some fun _ _ => false }

theorem run_expl : bfsFinal exG cExpl [0] = stDiam := by
  unfold bfsFinal
  rw [init_eq]
  rw [show cExpl.maxDiameter = 999999 + 1 from rfl]
  rw [step_explore exG cExpl _ 1 st0 [1, 3] [1, 3] (by bfs_expand) rfl (by decide)]
  rfl

theorem expl_sizes : (bfs exG cExpl [0]).layerSizes = [1, 2] := by
  rw [bfs_layerSizes, run_expl]; rfl
theorem expl_completed : (bfs exG cExpl [0]).completed = false := by
  rw [bfs_completed, run_expl]; rfl
theorem expl_cb : (bfs exG cExpl [0]).cbTrace = [] := by
  rw [bfs_cbTrace, run_expl]; rfl

/-! #### callback that stops on layer 2, hashes requested, store limit 1 -/

def cStop : BfsCfg Nat :=
  { returnHashes := true, maxStore := some 1, stop := some fun i _ => i == 2 }

def stStop : BfsLoop Nat :=
  { layer1 := [2], layer1H := [2], seen := [[1, 3], [2]], sizes := [1, 2, 1],
    layers := [(0, [0]), (2, [2])], allH := [[0], [1, 3]], eStarts := [], eEnds := [], cb := [1, 2],
    completed := false }

theorem run_stop : bfsFinal exG cStop [0] = stStop := by
  unfold bfsFinal
  rw [init_eq]
  rw [show cStop.maxDiameter = 999998 + 1 + 1 from rfl]
  rw [step_cb_next exG cStop _ 1 st0 [1, 3] [1, 3] (fun i _ => i == 2) (by bfs_expand) rfl
    (by decide) rfl rfl]
  rw [show ({ postState exG cStop 1 (preState exG cStop st0) [1, 3] [1, 3] with
      cb := (postState exG cStop 1 (preState exG cStop st0) [1, 3] [1, 3]).cb ++ [1] } : BfsLoop Nat) =
    { layer1 := [1, 3], layer1H := [1, 3], seen := [[0], [1, 3]], sizes := [1, 2],
      layers := [(0, [0])], allH := [[0]], eStarts := [], eEnds := [], cb := [1],
      completed := false } from rfl]
  rw [step_cb_stop exG cStop _ 2 _ [2] [2] (fun i _ => i == 2) (by bfs_expand) rfl
    (by decide) rfl rfl]
  rfl

theorem stop_sizes : (bfs exG cStop [0]).layerSizes = [1, 2, 1] := by
  rw [bfs_layerSizes, run_stop]; rfl
theorem stop_completed : (bfs exG cStop [0]).completed = false := by
  rw [bfs_completed, run_stop]; rfl
theorem stop_cb : (bfs exG cStop [0]).cbTrace = [1, 2] := by
  rw [bfs_cbTrace, run_stop]; rfl
theorem stop_hashes : (bfs exG cStop [0]).hashes = [[0], [1, 3], [2]] := by
  rw [bfs_hashes, run_stop]; rfl
theorem stop_layers : (bfs exG cStop [0]).layers = [(0, [0]), (2, [2])] := by
  rw [bfs_layers, run_stop]; rfl

/-! ### directed 3-cycle: without symmetry the two-layer window is wrong -/

/-- `0 → 1 → 2 → 0` -/
def nb3 : Nat → List Nat := fun x => [(x + 1) % 3]

theorem nb3_class2 : DistLayer nb3 [0] 2 2 := by
  refine ⟨⟨0, by simp, ?_⟩, ?_⟩
  · have w1 : Walk nb3 1 0 1 := .snoc (.nil 0) (by simp [nb3])
    exact .snoc w1 (by simp [nb3])
  · intro j hj hr
    have hj' : j = 0 ∨ j = 1 := by omega
    rcases hj' with rfl | rfl
    · simp [reach_zero] at hr
    · obtain ⟨y, hy, h2⟩ := (reach_succ ..).1 hr
      rw [reach_zero] at hy
      simp at hy
      subst hy
      simp [nb3] at h2

theorem nb3_class0 : DistLayer nb3 [0] 0 0 := distLayer_zero.2 (by simp)

/-- the neighbour `0` of the class-2 state `2` lies in class 0, outside the window `1 … 3` -/
theorem window2_needs_symm :
    DistLayer nb3 [0] 2 2 ∧ 0 ∈ nb3 2 ∧ ¬ ∃ j, DistLayer nb3 [0] j 0 ∧ 2 ≤ j + 1 ∧ j ≤ 2 + 1 := by
  refine ⟨nb3_class2, by simp [nb3], ?_⟩
  rintro ⟨j, hj, h1, -⟩
  have := distLayer_unique hj nb3_class0
  omega

/-! ### facts about the distance classes of the 4-cycle, read off the exhaustive run -/

theorem class3_empty : ∀ x, ¬ DistLayer exG.nb [0] 3 x := by
  have h := BfsThm.completed_sound (exG_hyp [0]) {} full_completed
  rwa [full_sizes] at h

theorem distLayer_empty_mono {α : Type} (nb : α → List α) (S : List α) (k : Nat)
    (hk : ∀ x, ¬ DistLayer nb S k x) : ∀ j, k ≤ j → ∀ x, ¬ DistLayer nb S j x := by
  intro j
  induction j with
  | zero => intro hj; have : k = 0 := by omega
            subst this; exact hk
  | succ j ih =>
    intro hj x hx
    by_cases hkj : k = j + 1
    · subst hkj; exact hk x hx
    · obtain ⟨y, hy, -⟩ := distLayer_pred_bfs hx
      exact ih (by omega) y hy

theorem layer_small : ∀ i L, IsLayer exG [0] i L → L.length < ({} : BfsCfg Nat).maxExplore := by
  intro i L hL
  have hle : L.length ≤ 2 := by
    by_cases hi : i < 3
    · obtain ⟨L', hL', hsz⟩ := BfsThm.sizes_prefix (exG_hyp [0]) {} i (by rw [full_sizes]; exact hi)
      rw [full_sizes] at hsz
      rw [(IsLayer.perm rfl hL hL').length_eq]
      have hi' : i = 0 ∨ i = 1 ∨ i = 2 := by omega
      rcases hi' with rfl | rfl | rfl <;> simp at hsz <;> omega
    · have hemp := distLayer_empty_mono exG.nb [0] 3 class3_empty i (by omega)
      cases L with
      | nil => simp
      | cons a t => exact absurd ((hL.2 a).1 (by simp)) (hemp a)
  have : (2 : Nat) < ({} : BfsCfg Nat).maxExplore := by decide
  omega

/-! ### the same graph under a different internal configuration -/

/-- same generators; hash `x ↦ 10 - x` (order reversing), batch size 7, not flagged inverse-closed -/
def exG' : Graph Nat :=
  { nGens := 2, act := fun i x => if x < 4 then (if i = 0 then (x + 1) % 4 else (x + 3) % 4) else x,
    hash := fun x => 10 - (x : Int), invClosed := false, batchSize := 7 }

theorem exG'_hyp (S : List Nat) : BfsHyp exG' S :=
  ⟨fun x y _ _ hxy => (by simp only [exG'] at hxy; omega), fun h => (by cases h), by decide⟩

def cAlt : BfsCfg Nat := { disableBatching := true, returnHashes := true, maxStore := some 1 }

def st0' : BfsLoop Nat :=
  { layer1 := [0], layer1H := [10], seen := [[10]], sizes := [1], layers := [(0, [0])], allH := [],
    eStarts := [], eEnds := [], cb := [], completed := false }

macro "bfs_expand'" : tactic => `(tactic|
  simp [expandSel, expandPlain, expandBatched, Graph.unique, Graph.neighbors, uniqueStates, sortByKey,
    dedupAdj, List.mergeSort, List.MergeSort.Internal.splitInTwo, notSeen, isinSorted, searchsorted,
    exG', st0', cAlt, List.range_succ, tensorSplit, splitSizes, splitBy, ceilDiv, sortInts])

theorem init_eq' : bfsInit exG' [0] = st0' := by
  have e0 : exG'.unique [0] = [0] := by
    simp [Graph.unique, uniqueStates, sortByKey, dedupAdj]
  simp only [bfsInit, e0]
  rfl

def stAlt : BfsLoop Nat :=
  { layer1 := [2], layer1H := [8], seen := [[10], [7, 9], [8]], sizes := [1, 2, 1],
    layers := [(0, [0]), (2, [2])], allH := [[10], [7, 9], [8]], eStarts := [], eEnds := [], cb := [],
    completed := true }

theorem run_alt : bfsFinal exG' cAlt [0] = stAlt := by
  unfold bfsFinal
  rw [init_eq']
  rw [show cAlt.maxDiameter = 999997 + 1 + 1 + 1 from rfl]
  rw [step_next exG' cAlt _ 1 st0' [3, 1] [7, 9] (by bfs_expand') rfl (by decide) rfl]
  rw [show postState exG' cAlt 1 (preState exG' cAlt st0') [3, 1] [7, 9] =
    { layer1 := [3, 1], layer1H := [7, 9], seen := [[10], [7, 9]], sizes := [1, 2],
      layers := [(0, [0])], allH := [[10]], eStarts := [], eEnds := [], cb := [],
      completed := false } from rfl]
  rw [step_next exG' cAlt _ 2 _ [2] [8] (by bfs_expand') rfl (by decide) rfl]
  rw [show postState exG' cAlt 2 (preState exG' cAlt _) [2] [8] =
    { layer1 := [2], layer1H := [8], seen := [[10], [7, 9], [8]], sizes := [1, 2, 1],
      layers := [(0, [0]), (2, [2])], allH := [[10], [7, 9]], eStarts := [], eEnds := [], cb := [],
      completed := false } from rfl]
  rw [step_done exG' cAlt _ 3 _ [] (by bfs_expand')]
  rfl

theorem alt_sizes : (bfs exG' cAlt [0]).layerSizes = [1, 2, 1] := by
  rw [bfs_layerSizes, run_alt]; rfl
theorem alt_completed : (bfs exG' cAlt [0]).completed = true := by
  rw [bfs_completed, run_alt]; rfl
theorem alt_hashes : (bfs exG' cAlt [0]).hashes = [[10], [7, 9], [8]] := by
  rw [bfs_hashes, run_alt]; rfl
theorem alt_layers : (bfs exG' cAlt [0]).layers = [(0, [0]), (2, [2])] := by
  rw [bfs_layers, run_alt]; rfl

/-! ### each hypothesis of `BfsHyp` is needed -/

theorem class1_nonempty : DistLayer exG.nb [0] 1 1 := by
  have hst := BfsThm.stored_sound (exG_hyp [0]) {} 1 [1, 3] (by rw [full_layers]; decide)
  exact (hst.2 1).1 (by decide)

/-- `batch`: with batch size 0 the batched branch splits layer 0 into `ceil(1/0) = 0` batches (Python raises
`ZeroDivisionError` here), finds nothing, and the model reports completion after layer 0 -/
def exB : Graph Nat := { exG with batchSize := 0 }

theorem run_batch0 : bfsFinal exB {} [0] = { st0 with completed := true } := by
  have e0 : exB.unique [0] = [0] := by
    simp [Graph.unique, uniqueStates, sortByKey, dedupAdj]
  have hinit : bfsInit exB [0] = st0 := by
    simp only [bfsInit, e0]; rfl
  unfold bfsFinal
  rw [hinit, show ({} : BfsCfg Nat).maxDiameter = 999999 + 1 from rfl]
  rw [step_done exB {} _ 1 st0 [] (by
    simp [expandSel, expandBatched, exB, exG, st0, tensorSplit, splitSizes, splitBy, ceilDiv, sortInts])]
  rfl

theorem batch_needed : (∀ x y, exB.hash x = exB.hash y → x = y) ∧ Symm exB.nb ∧
    (bfs exB {} [0]).completed = true ∧ (bfs exB {} [0]).layerSizes = [1] ∧
    DistLayer exB.nb [0] 1 1 := by
  refine ⟨fun x y hxy => Int.ofNat.inj hxy, exG_symm, ?_, ?_, class1_nonempty⟩
  · rw [bfs_completed, run_batch0]
  · rw [bfs_layerSizes, run_batch0]; rfl

/-- `inj`: with a constant hash both neighbours of `0` collide with `0` itself -/
def exC : Graph Nat := { exG with hash := fun _ => 0 }

theorem run_collide : bfsFinal exC {} [0] = { st0 with completed := true } := by
  have e0 : exC.unique [0] = [0] := by
    simp [Graph.unique, uniqueStates, sortByKey, dedupAdj]
  have hinit : bfsInit exC [0] = st0 := by
    simp only [bfsInit, e0]; rfl
  unfold bfsFinal
  rw [hinit, show ({} : BfsCfg Nat).maxDiameter = 999999 + 1 from rfl]
  rw [step_done exC {} _ 1 st0 [] (by
    simp [expandSel, expandPlain, Graph.unique, Graph.neighbors, uniqueStates, sortByKey, dedupAdj,
      List.mergeSort, List.MergeSort.Internal.splitInTwo, notSeen, isinSorted, searchsorted, exC, exG,
      st0, List.range_succ])]
  rfl

theorem inj_needed : Symm exC.nb ∧ 0 < exC.batchSize ∧
    (bfs exC {} [0]).completed = true ∧ (bfs exC {} [0]).layerSizes = [1] ∧
    DistLayer exC.nb [0] 1 1 := by
  refine ⟨exG_symm, by decide, ?_, ?_, class1_nonempty⟩
  · rw [bfs_completed, run_collide]
  · rw [bfs_layerSizes, run_collide]; rfl

/-- `symm`: the directed 3-cycle wrongly flagged as inverse-closed; the two-layer window forgets layer 0,
so `0` is "discovered" again as layer 3 -/
def exD : Graph Nat :=
  { nGens := 1, act := fun _ x => if x < 3 then (x + 1) % 3 else x, hash := fun x => (x : Int),
    invClosed := true, batchSize := 5 }

def cD : BfsCfg Nat := { maxDiameter := 3 }

def stD : BfsLoop Nat :=
  { layer1 := [0], layer1H := [0], seen := [[2], [0]], sizes := [1, 1, 1, 1],
    layers := [(0, [0]), (1, [1]), (2, [2]), (3, [0])], allH := [], eStarts := [], eEnds := [], cb := [],
    completed := false }

macro "bfs_expandD" : tactic => `(tactic|
  simp [expandSel, expandPlain, Graph.unique, Graph.neighbors, uniqueStates, sortByKey,
    dedupAdj, notSeen, isinSorted, searchsorted, exD, st0, cD, List.range_succ])

theorem run_dir : bfsFinal exD cD [0] = stD := by
  have e0 : exD.unique [0] = [0] := by
    simp [Graph.unique, uniqueStates, sortByKey, dedupAdj]
  have hinit : bfsInit exD [0] = st0 := by
    simp only [bfsInit, e0]; rfl
  unfold bfsFinal
  rw [hinit, show cD.maxDiameter = 0 + 1 + 1 + 1 from rfl]
  rw [step_next exD cD _ 1 st0 [1] [1] (by bfs_expandD) rfl (by decide) rfl]
  rw [show postState exD cD 1 (preState exD cD st0) [1] [1] =
    { layer1 := [1], layer1H := [1], seen := [[0], [1]], sizes := [1, 1],
      layers := [(0, [0]), (1, [1])], allH := [], eStarts := [], eEnds := [], cb := [],
      completed := false } from rfl]
  rw [step_next exD cD _ 2 _ [2] [2] (by bfs_expandD) rfl (by decide) rfl]
  rw [show postState exD cD 2 (preState exD cD _) [2] [2] =
    { layer1 := [2], layer1H := [2], seen := [[1], [2]], sizes := [1, 1, 1],
      layers := [(0, [0]), (1, [1]), (2, [2])], allH := [], eStarts := [], eEnds := [], cb := [],
      completed := false } from rfl]
  rw [step_next exD cD _ 3 _ [0] [0] (by bfs_expandD) rfl (by decide) rfl]
  rfl

theorem exD_class3_empty : ∀ x, ¬ DistLayer exD.nb [0] 3 x := by
  intro x hx
  have hnb : ∀ a b, b ∈ exD.nb a ↔ b = if a < 3 then (a + 1) % 3 else a := by
    intro a b; simp [Graph.nb, nbOf, exD, List.range_succ]
  obtain ⟨y2, hy2, hx2⟩ := (reach_succ ..).1 hx.1
  obtain ⟨y1, hy1, hx1⟩ := (reach_succ ..).1 hy2
  obtain ⟨y0, hy0, hx0⟩ := (reach_succ ..).1 hy1
  rw [reach_zero] at hy0
  simp only [List.mem_singleton] at hy0
  subst hy0
  rw [hnb] at hx0 hx1 hx2
  simp at hx0; subst hx0
  simp at hx1; subst hx1
  simp at hx2; subst hx2
  exact hx.2 0 (by decide) ((reach_zero ..).2 (by simp))

theorem symm_needed : (∀ x y, exD.hash x = exD.hash y → x = y) ∧ 0 < exD.batchSize ∧
    exD.invClosed = true ∧ (bfs exD cD [0]).layerSizes = [1, 1, 1, 1] ∧
    ∀ x, ¬ DistLayer exD.nb [0] 3 x := by
  refine ⟨fun x y hxy => Int.ofNat.inj hxy, by decide, rfl, ?_, exD_class3_empty⟩
  rw [bfs_layerSizes, run_dir]; rfl

end BfsExample
end Cv
