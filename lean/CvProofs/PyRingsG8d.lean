/-
  Worker g8, part 4: `hungarian_rings_permutations` (generated) reduced to the `Nat` list constructions of part 3.
-/
import CvProofs.PyRingsG8c
namespace Cv.PyG8
open Cv.Py Cv.PyGen Cv.Puzzles Cv.PyG2

theorem toI_app (a b : List Nat) : toI (a ++ b) = toI a ++ toI b := by simp [toI]
theorem toI_drop (a : List Nat) (k : Nat) : toI (a.drop k) = (toI a).drop k := by simp [toI, List.map_drop]
theorem toI_take (a : List Nat) (k : Nat) : toI (a.take k) = (toI a).take k := by simp [toI, List.map_take]

theorem pyGet_zero_toI (l : List Nat) (h : 0 < l.length) : pyGet (toI l) 0 = some ((l.getD 0 0 : Nat) : Int) := by
  unfold pyGet
  rw [if_pos (by omega)]
  cases l with
  | nil => simp at h
  | cons a t => rfl

theorem pyGet_neg_toI (l : List Nat) (k : Nat) (hk : 0 < k) (hkl : k ≤ l.length) :
    pyGet (toI l) (-(k : Int)) = some ((l.getD (l.length - k) 0 : Nat) : Int) := by
  have hlt : l.length - k < l.length := by omega
  unfold pyGet
  have e1 : ¬ (0 : Int) ≤ -(k : Int) := by omega
  have e2 : -(((toI l).length : Nat) : Int) ≤ -(k : Int) := by rw [toI_length]; omega
  rw [if_neg e1, if_pos e2, toI_length]
  have : ((l.length : Int) + -(k : Int)).toNat = l.length - k := by omega
  rw [this, toI, List.getElem?_map, List.getElem?_eq_getElem hlt, List.getD_eq_getElem?_getD,
    List.getElem?_eq_getElem hlt]
  rfl

theorem toI_erase (l : List Nat) (a : Nat) : (toI l).erase (a : Int) = toI (l.erase a) := by
  induction l with
  | nil => rfl
  | cons b t ih =>
    by_cases hb : b = a
    · subst hb
      show ((b : Int) :: toI t).erase (b : Int) = _
      rw [List.erase_cons_head, List.erase_cons_head]
    · show ((b : Int) :: toI t).erase (a : Int) = _
      have hb' : ¬ ((b : Int) == (a : Int)) = true := by simp only [beq_iff_eq]; omega
      rw [List.erase_cons_tail hb', List.erase_cons_tail (by simpa using hb), ih]
      rfl

theorem pyRemove_toI (l : List Nat) (a : Nat) (h : a ∈ l) :
    pyRemove (toI l) (a : Int) = some (toI (l.erase a)) := by
  unfold pyRemove
  rw [if_pos, toI_erase]
  rw [List.contains_iff_mem]
  exact List.mem_map_of_mem h

theorem pySet_toI' (l : List Nat) (i v : Nat) (h : i < l.length) :
    pySet (toI l) (i : Int) (v : Int) = some (toI (l.set i v)) := by
  unfold pySet
  rw [if_pos (by omega), if_pos (by rw [toI_length]; omega)]
  simp [toI, List.map_set]

theorem pySet_zero_toI (l : List Nat) (v : Nat) (h : 0 < l.length) :
    pySet (toI l) 0 (v : Int) = some (toI (l.set 0 v)) := pySet_toI' l 0 v h

/-- the rotated ring is its head followed by `shiftTail` -/
theorem rot_eq_cons (R : List Nat) (s : Nat) (hs : s < R.length) :
    R.drop s ++ R.take s = R.getD s 0 :: shiftTail R s := by
  rw [List.drop_eq_getElem_cons hs, List.getD_eq_getElem?_getD, List.getElem?_eq_getElem hs]
  rfl

theorem shiftTail_nodup (R : List Nat) (s : Nat) (hs : s < R.length) (hnd : R.Nodup) : (shiftTail R s).Nodup := by
  have hp : (R.drop s ++ R.take s).Perm R := by
    have := List.perm_append_comm (l₁ := R.drop s) (l₂ := R.take s)
    rw [List.take_append_drop] at this
    exact this
  have := hp.nodup_iff.2 hnd
  rw [rot_eq_cons R s hs] at this
  exact (List.nodup_cons.1 this).2

theorem erase_getD_nodup (l : List Nat) (k : Nat) (hk : k < l.length) (hnd : l.Nodup) :
    l.erase (l.getD k 0) = l.eraseIdx k := by
  apply List.erase_eq_eraseIdx_of_idxOf
  rw [List.getD_eq_getElem?_getD, List.getElem?_eq_getElem hk]
  exact hnd.idxOf_getElem k hk

theorem circular_shift_toI (l : List Nat) (step : Int) (k : Nat) (hpos : 0 < l.length)
    (hk : step % (l.length : Int) = (k : Int)) :
    Rings._circular_shift (toI l) step = some (toI (l.drop k ++ l.take k)) := by
  rw [circular_shift_pos _ _ (by rw [toI_length]; exact hpos), toI_length, hk, Int.toNat_natCast,
    toI_app, toI_drop, toI_take]

theorem perms_two (ls li rs ri : Nat) (hadm : RingsAdm ls li rs ri) (hli : 0 < li) (hri : 0 < ri)
    (step : Int) (s t : Nat) (hs : step % (rs : Int) = (s : Int)) (ht : step % (ls : Int) = (t : Int)) :
    Rings.hungarian_rings_permutations ls li rs ri step =
      some (toI (ringShift (ringsSize ls li rs ri) (leftRing ls) t),
            toI (ringShift (ringsSize ls li rs ri) (rightRing ls li rs ri) s)) := by
  have hlen := rightRing_length ls li rs ri hadm
  have hnd := rightRing_nodup ls li rs ri hadm
  have hn := ringsSize_two ls li rs ri hli
  have hcr := create_right_ring_adm ls li rs ri hadm
  obtain ⟨h1, h2, h3, h4, _⟩ := hadm
  unfold Rings.hungarian_rings_permutations
  have c1 : (decide ((li : Int) < 0) || decide ((ri : Int) < 0)) = false := by
    rw [Bool.or_eq_false_iff]; simp only [decide_eq_false_iff_not]; omega
  have c2 : (decide ((ls : Int) ≤ (li : Int)) || decide ((rs : Int) ≤ (ri : Int))) = false := by
    rw [Bool.or_eq_false_iff]; simp only [decide_eq_false_iff_not]; omega
  rw [c1, c2, get_intersections_two _ _ (by omega) (by omega)]
  simp only [Bool.false_eq_true, if_false, Option.bind_eq_bind, Option.bind_some, Option.pure_def]
  have hsr : s < rs := by
    have := Int.emod_lt_of_pos step (show (0 : Int) < (rs : Int) by omega)
    omega
  have htl : t < ls := by
    have := Int.emod_lt_of_pos step (show (0 : Int) < (ls : Int) by omega)
    omega
  have e : (ls : Int) + (rs : Int) - 2 = ((ringsSize ls li rs ri : Nat) : Int) := by rw [hn]; omega
  rw [e, hcr, pyRange_zero,
    circular_shift_toI (List.range ls) step t (by simpa using (by omega : 0 < ls)) (by simpa using ht)]
  simp only [Option.bind_some]
  rw [circular_shift_toI (rightRing ls li rs ri) step s (by omega) (by rw [hlen]; exact hs),
    rot_eq_cons _ _ (by omega)]
  simp only [Option.bind_some]
  rw [pyGet_zero_toI _ (by simp)]
  simp only [Option.bind_some, List.getD_cons_zero]
  rw [pyRemove_toI _ _ (List.mem_cons_self), List.erase_cons_head]
  simp only [Option.bind_some]
  have hT := shiftTail_length (rightRing ls li rs ri) s (by omega)
  have hTnd := shiftTail_nodup (rightRing ls li rs ri) s (by omega) hnd
  rw [if_pos (by decide), pyGet_neg_toI _ ri hri (by omega)]
  simp only [Option.bind_some]
  have hk : (shiftTail (rightRing ls li rs ri) s).length - ri = (rightRing ls li rs ri).length - 1 - ri := by omega
  rw [hk, pyRemove_toI _ _ (by
      rw [List.getD_eq_getElem?_getD, List.getElem?_eq_getElem (by omega)]
      exact List.getElem_mem _),
    erase_getD_nodup _ _ (by omega) hTnd]
  simp only [Option.bind_some, Option.isSome_some, if_true]
  have hX : ((shiftTail (rightRing ls li rs ri) s).eraseIdx ((rightRing ls li rs ri).length - 1 - ri)).length
      = rs - 2 := by
    rw [List.length_eraseIdx, if_pos (by omega)]; omega
  rw [← toI_app, pySet_zero_toI _ _ (by simp; omega)]
  simp only [Option.bind_some]
  rw [pySet_toI' _ li _ (by simp; omega)]
  simp only [Option.bind_some]
  rw [pyRange_nat, ← toI_app, left_eq ls _ t (by omega) (by omega)]
  have := rightGen2_eq ls li rs ri s ⟨h1, h2, h3, h4, Or.inr ⟨hli, hri⟩⟩ hli hri hsr
  unfold rightGen2 at this
  rw [this]

theorem perms_one (ls rs : Nat) (h1 : 1 < ls) (h2 : 1 < rs)
    (step : Int) (s t : Nat) (hs : step % (rs : Int) = (s : Int)) (ht : step % (ls : Int) = (t : Int)) :
    Rings.hungarian_rings_permutations ls (0 : Nat) rs (0 : Nat) step =
      some (toI (ringShift (ringsSize ls 0 rs 0) (leftRing ls) t),
            toI (ringShift (ringsSize ls 0 rs 0) (rightRing ls 0 rs 0) s)) := by
  have hadm : RingsAdm ls 0 rs 0 := ⟨h1, h2, by omega, by omega, Or.inl ⟨rfl, rfl⟩⟩
  have hlen := rightRing_length ls 0 rs 0 hadm
  have hn := ringsSize_one ls rs
  have hcr := create_right_ring_adm ls 0 rs 0 hadm
  unfold Rings.hungarian_rings_permutations
  have c1 : (decide (((0 : Nat) : Int) < 0) || decide (((0 : Nat) : Int) < 0)) = false := rfl
  have c2 : (decide ((ls : Int) ≤ ((0 : Nat) : Int)) || decide ((rs : Int) ≤ ((0 : Nat) : Int))) = false := by
    rw [Bool.or_eq_false_iff]; simp only [decide_eq_false_iff_not]; omega
  have c3 : Rings._get_intersections ((0 : Nat) : Int) ((0 : Nat) : Int) = some 1 := rfl
  rw [c1, c2, c3]
  simp only [Bool.false_eq_true, if_false, Option.bind_eq_bind, Option.bind_some, Option.pure_def]
  have hsr : s < rs := by
    have := Int.emod_lt_of_pos step (show (0 : Int) < (rs : Int) by omega)
    omega
  have htl : t < ls := by
    have := Int.emod_lt_of_pos step (show (0 : Int) < (ls : Int) by omega)
    omega
  have e : (ls : Int) + (rs : Int) - 1 = ((ringsSize ls 0 rs 0 : Nat) : Int) := by rw [hn]; omega
  rw [e, hcr, pyRange_zero,
    circular_shift_toI (List.range ls) step t (by simpa using (by omega : 0 < ls)) (by simpa using ht)]
  simp only [Option.bind_some]
  rw [circular_shift_toI (rightRing ls 0 rs 0) step s (by omega) (by rw [hlen]; exact hs),
    rot_eq_cons _ _ (by omega)]
  simp only [Option.bind_some]
  rw [pyGet_zero_toI _ (by simp)]
  simp only [Option.bind_some, List.getD_cons_zero]
  rw [pyRemove_toI _ _ (List.mem_cons_self), List.erase_cons_head]
  simp only [Option.bind_some]
  rw [if_neg (by decide)]
  simp only [Option.bind_some, Option.isSome_none, Bool.false_eq_true, if_false]
  rw [← toI_app, pySet_zero_toI _ _ (by simp; omega)]
  simp only [Option.bind_some]
  rw [pyRange_nat, ← toI_app, left_eq ls _ t (by omega) (by omega)]
  have := rightGen1_eq ls rs s h1 h2 hsr
  unfold rightGen1 at this
  rw [this]

/-- `hungarian_rings_permutations(ls, li, rs, ri, step)` for every `step`: both rings are shifted by `step` modulo
their lengths -/
theorem perms_adm (ls li rs ri : Nat) (hadm : RingsAdm ls li rs ri)
    (step : Int) (s t : Nat) (hs : step % (rs : Int) = (s : Int)) (ht : step % (ls : Int) = (t : Int)) :
    Rings.hungarian_rings_permutations ls li rs ri step =
      some (toI (ringShift (ringsSize ls li rs ri) (leftRing ls) t),
            toI (ringShift (ringsSize ls li rs ri) (rightRing ls li rs ri) s)) := by
  rcases hadm.2.2.2.2 with ⟨rfl, rfl⟩ | ⟨hli, hri⟩
  · exact perms_one ls rs hadm.1 hadm.2.1 step s t hs ht
  · exact perms_two ls li rs ri hadm hli hri step s t hs ht

theorem perms_forth_adm (ls li rs ri : Nat) (hadm : RingsAdm ls li rs ri) :
    Rings.hungarian_rings_permutations ls li rs ri 1 =
      some (toI (ringForth (ringsSize ls li rs ri) (leftRing ls)),
            toI (ringForth (ringsSize ls li rs ri) (rightRing ls li rs ri))) := by
  rw [ringForth_eq, ringForth_eq]
  obtain ⟨h1, h2, _⟩ := hadm
  exact perms_adm ls li rs ri ⟨h1, h2, ‹_›⟩ 1 1 1 (Int.emod_eq_of_lt (by omega) (by omega))
    (Int.emod_eq_of_lt (by omega) (by omega))

theorem perms_back_adm (ls li rs ri : Nat) (hadm : RingsAdm ls li rs ri) :
    Rings.hungarian_rings_permutations ls li rs ri (-1) =
      some (toI (ringBack (ringsSize ls li rs ri) (leftRing ls)),
            toI (ringBack (ringsSize ls li rs ri) (rightRing ls li rs ri))) := by
  rw [ringBack_eq, ringBack_eq, rightRing_length ls li rs ri hadm]
  have hl : (leftRing ls).length = ls := by simp [leftRing]
  rw [hl]
  obtain ⟨h1, h2, _⟩ := hadm
  refine perms_adm ls li rs ri ⟨h1, h2, ‹_›⟩ (-1) (rs - 1) (ls - 1) ?_ ?_
  · rw [Int.emod_def]
    have : (-1 : Int) / (rs : Int) = -1 := Int.ediv_eq_iff_of_pos (by omega) |>.2 ⟨by omega, by omega⟩
    rw [this]; omega
  · rw [Int.emod_def]
    have : (-1 : Int) / (ls : Int) = -1 := Int.ediv_eq_iff_of_pos (by omega) |>.2 ⟨by omega, by omega⟩
    rw [this]; omega

end Cv.PyG8
