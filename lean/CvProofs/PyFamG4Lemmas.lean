/-
  G4 — `inverse_permutation`, `rawToPermDef` on a valid definition, names, loop lemmas.  Core Lean only.
-/
import CvProofs.PyFamG4Base
import CvProofs.FamiliesMore
namespace Cv.PyG4
open Cv.Py Cv.PyGen Cv.Families
open Cv.GraphDef (PermDef)

/-! ### `inverse_permutation` -/

theorem inv_fold (p : List Nat) (l : List Nat) (hl : ∀ x ∈ l, x < p.length)
    (hp : ∀ i ∈ p, i < p.length) (A : List Nat) (hA : A.length = p.length) :
    List.foldlM (fun (st : List Int) (i : Int) => do
      let ans := st
      let t_1 ← pyGet (toI p) i
      let ans ← pySet ans t_1 i
      pure ans) (toI A) (toI l) =
    some (toI (l.foldl (fun ans i => ans.set (p.getD i 0) i) A)) := by
  induction l generalizing A with
  | nil => rfl
  | cons x t ih =>
    have hx : x < p.length := hl x List.mem_cons_self
    have hpx : p.getD x 0 < p.length := by
      apply hp
      rw [List.getD_eq_getElem?_getD, List.getElem?_eq_getElem hx]
      exact List.getElem_mem hx
    show List.foldlM _ (toI A) (Int.ofNat x :: toI t) = _
    rw [List.foldlM_cons]
    simp only [Int.ofNat_eq_natCast, pyGet_toI_lt p x hx, Option.bind_eq_bind, Option.bind_some,
      pySet_toI A _ _ (hA ▸ hpx), List.foldl_cons]
    exact ih (fun y hy => hl y (List.mem_cons_of_mem _ hy)) _ (by simpa using hA)

/-- the translated `inverse_permutation` on an in-range list of naturals is the model `Cv.Perm.inverse` -/
theorem inverse_gen (p : List Nat) (h : ∀ i ∈ p, i < p.length) :
    Perm.inverse_permutation (toI p) = some (toI (Cv.Perm.inverse p)) := by
  unfold Perm.inverse_permutation Cv.Perm.inverse
  simp only [pyLen, toI_length, pyRepeat, Int.toNat_natCast, Option.bind_eq_bind, Option.pure_def,
    Option.bind_fun_some]
  rw [pyRange_zero_nat]
  have e : List.replicate p.length (0 : Int) = toI (List.replicate p.length 0) := by simp [toI]
  rw [e]
  exact inv_fold p (List.range p.length) (fun x hx => List.mem_range.1 hx) h _ (by simp)

/-- inverse of a one-line permutation given with its inverse point function -/
theorem inverse_gen_oneLine {n : Nat} {f g : Nat → Nat} (h : InvPair n f g) :
    Perm.inverse_permutation (toI (oneLine n f)) = some (toI (oneLine n g)) := by
  rw [inverse_gen, h.inverse_eq]
  have := h.isPermOf
  intro i hi
  rw [this.length_eq]
  exact this.lt i hi

/-! ### `rawToPermDef` -/

theorem toN_toI (l : List Nat) : toN? (toI l) = some l := by
  unfold toN? toI
  induction l with
  | nil => rfl
  | cons a t ih =>
    simp only [List.map_cons, List.mapM_cons, Int.ofNat_eq_natCast]
    rw [ih]
    simp

theorem mapM_toN_toI (gs : List (List Nat)) : (gs.map toI).mapM toN? = some gs := by
  induction gs with
  | nil => rfl
  | cons a t ih =>
    simp only [List.map_cons, List.mapM_cons, toN_toI, ih]
    rfl

theorem create_valid (n : Nat) (d : PermDef) (hv : Valid n d) (hne : d.gens ≠ []) (hn : 0 < n) :
    PermDef.create d.gens (some d.names) (some d.central) d.name = some d := by
  obtain ⟨h1, h2, h3⟩ := hv
  cases hg : d.gens with
  | nil => exact absurd hg hne
  | cons g0 t =>
    have hg0 : g0.length = n := (h1 g0 (by rw [hg]; exact List.mem_cons_self)).length_eq
    unfold PermDef.create
    simp only [Option.getD_some]
    have a1 : ((g0 :: t).all fun p => p.mergeSort (fun a b => decide (a ≤ b)) == List.range g0.length) = true := by
      rw [List.all_eq_true]
      intro p hp
      rw [hg0]
      exact (Cv.Perm.sort_eq_range_iff n p).2 (h1 p (hg ▸ hp))
    have a2 : ((g0 :: t).all fun p => p.length == d.central.length) = true := by
      rw [List.all_eq_true]
      intro p hp
      rw [h2, List.length_range, (h1 p (hg ▸ hp)).length_eq]
      exact beq_self_eq_true _
    have a3 : d.central.isEmpty = false := by
      rw [h2]; cases n with
      | zero => omega
      | succ m => simp [List.range_succ]
    have a4 : (d.central.all (· < d.central.length)) = true := by
      rw [h2, List.all_eq_true]
      intro x hx
      simpa using hx
    rw [a1, a2, a3, a4]
    have a5 : ¬ d.names.length ≠ (g0 :: t).length := by rw [← hg]; omega
    simp only [Bool.not_true, Bool.false_eq_true, if_false, a5]
    cases d
    simp only at hg
    subst hg
    rfl

/-- `create` applied to the raw arguments of a valid definition returns it -/
theorem rawToPermDef_valid (n : Nat) (d : PermDef) (hv : Valid n d) (hne : d.gens ≠ []) (hn : 0 < n) :
    rawToPermDef (RawDef.mk (d.gens.map toI) (some (toI d.central)) (some d.names) (some d.name)) = some d := by
  unfold rawToPermDef
  simp only [mapM_toN_toI, toN_toI, Option.bind_eq_bind, Option.bind_some, Option.map_some,
    Option.getD_some]
  exact create_valid n d hv hne hn

/-! ### names -/

theorem pyStr_nat (n : Nat) : pyStr (n : Int) = showNat n := by
  unfold pyStr showNat
  rfl

theorem map_pyStr_toI (l : List Nat) : (toI l).map pyStr = l.map showNat := by
  unfold toI
  rw [List.map_map]
  apply List.map_congr_left
  intro a _
  exact pyStr_nat a

theorem tupleName_gen (sep : String) (l : List Nat) :
    "(" ++ pyJoin sep ((toI l).map pyStr) ++ ")" = tupleName sep l := by
  rw [map_pyStr_toI]; rfl

/-! ### loops that append one generator and one name per index -/

theorem foldlM_append_pair {γ : Type} (F : γ → Option (List Int)) (G : γ → List Int) (N N' : γ → String)
    (l : List γ) (hF : ∀ x ∈ l, F x = some (G x)) (hN : ∀ x ∈ l, N x = N' x)
    (g0 : List (List Int)) (n0 : List String) :
    List.foldlM (fun (st : (List (List Int)) × (List String)) (x : γ) =>
        (F x).bind fun t => some (st.1 ++ [t], st.2 ++ [N x])) (g0, n0) l =
      some (g0 ++ l.map G, n0 ++ l.map N') := by
  induction l generalizing g0 n0 with
  | nil => simp
  | cons x t ih =>
    rw [List.foldlM_cons, hF x List.mem_cons_self, hN x List.mem_cons_self]
    simp only [Option.bind_eq_bind, Option.bind_some]
    rw [ih (fun y hy => hF y (List.mem_cons_of_mem _ hy)) (fun y hy => hN y (List.mem_cons_of_mem _ hy))]
    simp

theorem foldlM_outer {γ : Type}
    (H : (List (List Int)) × (List String) → γ → Option ((List (List Int)) × (List String)))
    (A : γ → List (List Int)) (B : γ → List String) (l : List γ)
    (hH : ∀ x ∈ l, ∀ st, H st x = some (st.1 ++ A x, st.2 ++ B x))
    (g0 : List (List Int)) (n0 : List String) :
    List.foldlM H (g0, n0) l = some (g0 ++ l.flatMap A, n0 ++ l.flatMap B) := by
  induction l generalizing g0 n0 with
  | nil => simp
  | cons x t ih =>
    rw [List.foldlM_cons, hH x List.mem_cons_self]
    simp only [Option.bind_eq_bind, Option.bind_some]
    rw [ih (fun y hy => hH y (List.mem_cons_of_mem _ hy))]
    simp

end Cv.PyG4
