/-
  G7 — `cayleypy/puzzles/globe.py` regenerated (`CvGen/PyGlobe.lean`) = specification (`CvModel/Puzzles.lean`).
  Part 1: loops, `help_cyclic`, the row generators.  Core Lean only.
-/
import CvModel.PyPrelude
import CvModel.PyBridge
import CvModel.Puzzles
import CvGen.PyGlobe
import CvProofs.Puzzles
import CvProofs.PyPermG1b

namespace Cv.PyG7
open Cv.Py Cv.PyGen Cv.Puzzles

/-! ### prelude -/

theorem pyRange_nat (a b : Nat) : pyRange (a : Int) (b : Int) 1 = toI (List.range' a (b - a)) := by
  unfold pyRange
  rw [if_pos (by decide)]
  have : (((b : Int) - (a : Int) + 1 - 1) / 1).toNat = b - a := by rw [Int.ediv_one]; omega
  rw [this, toI, List.range'_eq_map_range, List.map_map]
  apply List.map_congr_left
  intro k _
  simp

theorem pyRange_of (x y : Int) (a b : Nat) (hx : x = a) (hy : y = b) :
    pyRange x y 1 = toI (List.range' a (b - a)) := by
  subst hx hy; exact pyRange_nat a b

theorem pyRange_zero_of (y : Int) (b : Nat) (hy : y = b) : pyRange 0 y 1 = toI (List.range b) := by
  rw [pyRange_of 0 y 0 b rfl hy, List.range_eq_range']; rfl

theorem range'_split (a m k : Nat) (h : k ≤ m) :
    List.range' a m = List.range' a k ++ List.range' (a + k) (m - k) := by
  rw [List.range'_append_1]; congr 1; omega

/-- a loop that appends one element per iteration -/
theorem foldlM_append {α ι : Type} (body : List α → ι → Option (List α)) (g : ι → α)
    (h : ∀ st i, body st i = some (st ++ [g i])) (l : List ι) (init : List α) :
    l.foldlM body init = some (init ++ l.map g) := by
  induction l generalizing init with
  | nil => simp
  | cons a t ih =>
    rw [List.foldlM_cons, h]
    simp only [Option.bind_eq_bind, Option.bind_some]
    rw [ih]; simp

/-- a loop whose body always succeeds -/
theorem foldlM_some {α γ : Type} (f : α → γ → Option α) (g : α → γ → α) (l : List γ)
    (h : ∀ a x, x ∈ l → f a x = some (g a x)) (a : α) : l.foldlM f a = some (l.foldl g a) := by
  induction l generalizing a with
  | nil => rfl
  | cons x t ih =>
    simp only [List.foldlM_cons, List.foldl_cons, h a x List.mem_cons_self]
    exact ih (fun a y hy => h a y (List.mem_cons_of_mem _ hy)) _

/-! ### `help_cyclic` -/

theorem foldlM_append_pure {α ι : Type} (g : ι → α) (l : List ι) (init : List α) :
    l.foldlM (fun st i => (pure (st ++ [g i]) : Option (List α))) init = some (init ++ l.map g) :=
  foldlM_append _ g (fun _ _ => rfl) l init

theorem help_cyclic_int (s f n : Int) :
    Globe.help_cyclic s f n = some (pyRange 0 s 1 ++
      (pyRange s (f + 1) 1).map (fun i => if i != f then i + 1 else s) ++ pyRange (f + 1) n 1) := by
  unfold Globe.help_cyclic
  dsimp only
  rw [foldlM_append_pure (fun i => i)]
  simp only [Option.bind_some, bind, List.nil_append, List.map_id']
  rw [foldlM_append_pure (fun i => if i != f then i + 1 else s)]
  simp only [Option.bind_some]
  rw [foldlM_append_pure (fun i => i)]
  simp [List.map_id']

theorem help_cyclic_gen (s f n : Nat) (h : s ≤ f + 1) (hf : f < n) :
    Globe.help_cyclic s f n = some (toI (ofFn n fun i =>
      if s ≤ i ∧ i < f then i + 1 else if i = f ∧ s ≤ f then s else i)) := by
  rw [help_cyclic_int, pyRange_zero_of _ s rfl, pyRange_of _ _ s (f + 1) rfl (by omega),
    pyRange_of _ _ (f + 1) n (by omega) rfl]
  congr 1
  have hr : List.range n = List.range' 0 s ++ List.range' s (f + 1 - s) ++ List.range' (f + 1) (n - (f + 1)) := by
    rw [List.range_eq_range', range'_split 0 n (f + 1) (by omega), range'_split 0 (f + 1) s h]
    simp only [Nat.zero_add]
  unfold ofFn toI
  rw [hr, List.range_eq_range']
  simp only [List.map_append, List.map_map]
  congr 1
  · congr 1
    · apply List.map_congr_left
      intro i hi
      have := (List.mem_range'_1.1 hi).2
      simp only [Function.comp]
      rw [if_neg (by omega), if_neg (by omega)]
    · apply List.map_congr_left
      intro i hi
      have := List.mem_range'_1.1 hi
      simp only [Function.comp]
      by_cases e : i = f
      · subst e; simp
        rw [if_pos (by omega)]
      · have : ((Int.ofNat i) != (f : Int)) = true := by simp; omega
        rw [this, if_pos rfl, if_pos (by omega)]
        rfl
  · apply List.map_congr_left
    intro i hi
    have := List.mem_range'_1.1 hi
    simp only [Function.comp]
    rw [if_neg (by omega), if_neg (by omega)]

end Cv.PyG7
