/-
  Beam search and random walks on the library's concrete permutation graphs (`CvModel/Instance.lean`): the abstract
  theorems of C06 / C07, instantiated through `CvProofs/Restrict.lean` (hypotheses only on the rows that encode a state)
  and transported to the MATHEMATICAL graph `permGraphNb perms` on decoded states.  Core Lean only.
-/
import CvProofs.Instance
import CvProofs.RestrictBeam
import CvProofs.GraphDef
import CvProofs.Mitm
import CvProofs.InstanceExample
namespace Cv.Instance
open Cv Cv.Codec

/-- the mathematical action of generator `i`: `new[j] = old[p_i[j]]` -/
def permAct (perms : List (List Nat)) (i : Nat) (s : List Nat) : List Nat :=
  (perms.getD i []).map fun j => s.getD j 0

/-- the inverted generator list (`with_inverted_generators`) -/
def invPerms (perms : List (List Nat)) : List (List Nat) := perms.map Cv.Perm.inverse

theorem invPerms_length (perms : List (List Nat)) : (invPerms perms).length = perms.length := by
  simp [invPerms]

theorem invPerms_getD (perms : List (List Nat)) (i : Nat) (hi : i < perms.length) :
    (invPerms perms).getD i [] = Cv.Perm.inverse (perms.getD i []) := by
  unfold invPerms
  rw [List.getD_eq_getElem?_getD, List.getD_eq_getElem?_getD, List.getElem?_map, List.getElem?_eq_getElem hi]
  rfl

theorem invPerms_perm (n : Nat) (perms : List (List Nat)) (hp : ∀ p ∈ perms, Cv.Perm.IsPermOf n p) :
    ∀ p ∈ invPerms perms, Cv.Perm.IsPermOf n p := by
  intro p hpm
  obtain ⟨q, hq, rfl⟩ := List.mem_map.1 hpm
  exact Cv.Perm.inverse_isPerm n q (hp q hq)

theorem permAct_mem_nb (perms : List (List Nat)) (i : Nat) (hi : i < perms.length) (s : List Nat) :
    permAct perms i s ∈ permGraphNb perms s :=
  List.mem_map.2 ⟨perms.getD i [], getD_mem perms [] i hi, rfl⟩

theorem mem_nb_permAct (perms : List (List Nat)) (s t : List Nat) (h : t ∈ permGraphNb perms s) :
    ∃ i, i < perms.length ∧ t = permAct perms i s := by
  obtain ⟨p, hp, rfl⟩ := List.mem_map.1 h
  obtain ⟨i, hi, rfl⟩ := List.getElem_of_mem hp
  refine ⟨i, hi, ?_⟩
  unfold permAct
  rw [getD_of_lt' perms i [] hi]

/-- the two compositions of generator `i` and inverted generator `i` are the identity on states of length `n` -/
theorem permAct_inv (n : Nat) (perms : List (List Nat)) (hp : ∀ p ∈ perms, Cv.Perm.IsPermOf n p) (i : Nat)
    (hi : i < perms.length) (s : List Nat) (hs : s.length = n) :
    permAct (invPerms perms) i (permAct perms i s) = s ∧ permAct perms i (permAct (invPerms perms) i s) = s := by
  unfold permAct
  rw [invPerms_getD perms i hi]
  exact Cv.Perm.apply_inverse_cancel n _ (hp _ (getD_mem perms [] i hi)) s hs

theorem permAct_length (n : Nat) (perms : List (List Nat)) (hp : ∀ p ∈ perms, Cv.Perm.IsPermOf n p) (i : Nat)
    (hi : i < perms.length) (s : List Nat) : (permAct perms i s).length = n := by
  unfold permAct
  rw [List.length_map]
  exact (hp _ (getD_mem perms [] i hi)).length_eq

/-- `return_all_hashes=True`: the per-layer hashes returned by the BFS model are a ball around the start states
(orbit-restricted hypotheses) -/
theorem hashes_isBallS {α : Type} {g : Graph α} {S : List α} (h : BfsHypO g S) (c : BfsCfg α)
    (hr : c.returnHashes = true) : IsBallS g S (bfs g c S).hashes ∧ (bfs g c S).hashes ≠ [] := by
  obtain ⟨K, -, -, hlen, hball, -⟩ := bfs_summary (bfsHyp_orbitGraph h) c hr
  rw [bfs_orbitGraph] at hlen hball
  constructor
  · intro i H hi
    obtain ⟨h1, L, h2, h3, h4⟩ := hball i H hi
    refine ⟨h1, L, h2, ?_, h4⟩
    intro x
    rw [h3, distLayer_orbitGraph]
  · intro hnil
    rw [hnil] at hlen
    simp at hlen

/-! ### transport along `encode` (mathematical graph → encoded graph) -/

section enc
variable (w n : Nat) (hw : 1 ≤ w) (hw' : w ≤ 64) (perms : List (List Nat))
  (hp : ∀ p ∈ perms, Cv.Perm.IsPermOf n p) (hash : List W → Int) (ic : Bool) (batch : Nat)
include hw hw' hp

theorem enc_hcommB (S : List (List Nat)) : ∀ s, InOrbit (permGraphNb perms) S s →
    (permGraphNb perms s).map (encode w n) = (encodedPermGraph w n perms hash ic batch).nb (encode w n s) :=
  fun s _ => (encoded_nb_encode w n hw hw' perms hp hash ic batch s).symm

omit hw hw' in
theorem encodable_of_inOrbit (S : List (List Nat)) (hS : ∀ s ∈ S, encodable w n s = true) :
    ∀ s, InOrbit (permGraphNb perms) S s → encodable w n s = true :=
  Transport.inOrbit_invariant _ _ (fun s => encodable w n s = true) hS
    (fun a b ha hb => encodable_of_mem_nb w n perms hp a b ha hb)

omit hp in
theorem enc_hinjB (S : List (List Nat)) (hS : ∀ s ∈ S, encodable w n s = true)
    (hp : ∀ p ∈ perms, Cv.Perm.IsPermOf n p) : ∀ s t, InOrbit (permGraphNb perms) S s →
    InOrbit (permGraphNb perms) S t → encode w n s = encode w n t → s = t :=
  fun s t hs ht h => encode_injective w n hw hw' s t (encodable_of_inOrbit w n perms hp S hS s hs)
    (encodable_of_inOrbit w n perms hp S hS t ht) h

/-- a walk in the encoded graph from an encoding ends in an encoding, and is a walk of the mathematical graph -/
theorem encoded_walk_lift (start : List Nat) (hs : encodable w n start = true) (k : Nat) (x : List W)
    (wk : Walk (encodedPermGraph w n perms hash ic batch).nb k (encode w n start) x) :
    ∃ s, encodable w n s = true ∧ x = encode w n s ∧ decode w n x = s ∧ Walk (permGraphNb perms) k start s := by
  have hS : ∀ s ∈ [start], encodable w n s = true := by simpa using hs
  have hr : Reach (encodedPermGraph w n perms hash ic batch).nb ([start].map (encode w n)) k x :=
    ⟨encode w n start, by simp, wk⟩
  obtain ⟨s, ⟨t, ht, ws⟩, rfl⟩ := Transport.reach_lift (permGraphNb perms) _ (encode w n) [start]
    (enc_hcommB w n hw hw' perms hp hash ic batch [start]) k x hr
  rw [List.mem_singleton] at ht
  subst ht
  have he := encodable_of_inOrbit w n perms hp [t] hS s ⟨k, t, by simp, ws⟩
  exact ⟨s, he, rfl, decode_encode w n hw hw' s he, ws⟩

/-- a walk of the mathematical graph from an encodable state is a walk of the encoded graph between the encodings -/
theorem encoded_walk_map (start : List Nat) (k : Nat) (s : List Nat) (wk : Walk (permGraphNb perms) k start s) :
    Walk (encodedPermGraph w n perms hash ic batch).nb k (encode w n start) (encode w n s) := by
  have hr : Reach (permGraphNb perms) [start] k s := ⟨start, by simp, wk⟩
  obtain ⟨t, ht, wt⟩ := Transport.reach_map (permGraphNb perms) _ (encode w n) [start]
    (enc_hcommB w n hw hw' perms hp hash ic batch [start]) k s hr
  rw [List.map_singleton, List.mem_singleton] at ht
  subst ht
  exact wt

theorem encoded_reach_iff (start : List Nat) (hs : encodable w n start = true) (k : Nat) (s : List Nat)
    (he : encodable w n s = true) :
    Reach (encodedPermGraph w n perms hash ic batch).nb [encode w n start] k (encode w n s) ↔
      Reach (permGraphNb perms) [start] k s := by
  constructor
  · rintro ⟨t, ht, wk⟩
    rw [List.mem_singleton] at ht
    subst ht
    obtain ⟨s', he', heq, -, ws⟩ := encoded_walk_lift w n hw hw' perms hp hash ic batch start hs k _ wk
    rw [encode_injective w n hw hw' s s' he he' heq]
    exact ⟨start, by simp, ws⟩
  · rintro ⟨t, ht, wk⟩
    rw [List.mem_singleton] at ht
    subst ht
    exact ⟨encode w n t, by simp, encoded_walk_map w n hw hw' perms hp hash ic batch t k s wk⟩

theorem encoded_distLayer_iff1 (start : List Nat) (hs : encodable w n start = true) (k : Nat) (s : List Nat)
    (he : encodable w n s = true) :
    DistLayer (encodedPermGraph w n perms hash ic batch).nb [encode w n start] k (encode w n s) ↔
      DistLayer (permGraphNb perms) [start] k s := by
  unfold DistLayer
  simp only [encoded_reach_iff w n hw hw' perms hp hash ic batch start hs _ s he]

/-- a duplicate-free list of rows reachable from an encoding decodes to a duplicate-free list of the same length -/
theorem decode_nodup_of_reach (start : List Nat) (hs : encodable w n start = true) (L : List (List W))
    (hnd : L.Nodup) (hL : ∀ x ∈ L, ∃ k, Reach (encodedPermGraph w n perms hash ic batch).nb [encode w n start] k x) :
    (L.map (decode w n)).Nodup := by
  have hval : ∀ x ∈ L, Valid w n x := by
    intro x hx
    obtain ⟨k, t, ht, wk⟩ := hL x hx
    rw [List.mem_singleton] at ht
    subst ht
    obtain ⟨s, he, heq, -, -⟩ := encoded_walk_lift w n hw hw' perms hp hash ic batch start hs k x wk
    exact ⟨s, he, heq⟩
  rw [List.nodup_iff_pairwise_ne, List.pairwise_map]
  exact List.Pairwise.imp_of_mem
    (fun {a b} ha hb hab hd => hab (decode_inj_valid w n hw hw' a b (hval a ha) (hval b hb) hd)) hnd

/-! ### the hypotheses of `CvProofs/Restrict.lean` for the encoded graph, `P = Valid w n` -/

theorem encoded_closedB : ∀ i, i < (encodedPermGraph w n perms hash ic batch).nGens → ∀ x, Valid w n x →
    Valid w n ((encodedPermGraph w n perms hash ic batch).act i x) := by
  intro i hi x hx
  apply valid_step w n hw hw' perms hp hash ic batch x _ hx
  simp only [Graph.nb, nbOf, List.mem_map, List.mem_range]
  exact ⟨i, hi, rfl⟩

theorem encoded_act_permAct (i : Nat) (hi : i < perms.length) (s : List Nat) :
    (encodedPermGraph w n perms hash ic batch).act i (encode w n s) = encode w n (permAct perms i s) :=
  encoded_act_encode w n hw hw' perms hp hash ic batch i hi s

theorem encoded_pathHypOnB (ici : Bool) (batchi : Nat)
    (hinj : ∀ x y, Valid w n x → Valid w n y → hash x = hash y → x = y) :
    PathHypOnB (encodedPermGraph w n perms hash ic batch) (encodedPermGraph w n (invPerms perms) hash ici batchi)
      (Valid w n) where
  hashEq := rfl
  nGens := invPerms_length perms
  closed := encoded_closedB w n hw hw' perms hp hash ic batch
  closedI := encoded_closedB w n hw hw' (invPerms perms) (invPerms_perm n perms hp) hash ici batchi
  inv := by
    intro i hi x hx
    have hi' : i < perms.length := hi
    have hii : i < (invPerms perms).length := by rw [invPerms_length]; exact hi'
    obtain ⟨s, hs, rfl⟩ := hx
    have hpi := invPerms_perm n perms hp
    have hc := permAct_inv n perms hp i hi' s (length_of_encodable hs)
    constructor
    · rw [encoded_act_permAct w n hw hw' perms hp hash ic batch i hi' s,
        encoded_act_permAct w n hw hw' (invPerms perms) hpi hash ici batchi i hii, hc.1]
    · rw [encoded_act_permAct w n hw hw' (invPerms perms) hpi hash ici batchi i hii s,
        encoded_act_permAct w n hw hw' perms hp hash ic batch i hi', hc.2]
  inj := hinj

omit hw hw' hp in
theorem valid_encodeB (s : List Nat) (hs : encodable w n s = true) : Valid w n (encode w n s) := ⟨s, hs, rfl⟩

/-- replaying a generator word on the encoding = encoding of the replay on the state -/
theorem encoded_applyPathB (s : List Nat) (p : List Nat) (hv : ∀ i ∈ p, i < perms.length) :
    applyPath (encodedPermGraph w n perms hash ic batch).act (encode w n s) p =
      encode w n (applyPath (permAct perms) s p) := by
  induction p generalizing s with
  | nil => rfl
  | cons i t ih =>
    rw [applyPath_cons, applyPath_cons, encoded_act_permAct w n hw hw' perms hp hash ic batch i (hv i (by simp)) s,
      ih _ (fun j hj => hv j (by simp [hj]))]

omit hw hw' in
theorem encodable_applyPathB (s : List Nat) (hs : encodable w n s = true) (p : List Nat)
    (hv : ∀ i ∈ p, i < perms.length) : encodable w n (applyPath (permAct perms) s p) = true := by
  induction p generalizing s with
  | nil => exact hs
  | cons i t ih =>
    rw [applyPath_cons]
    apply ih _ _ (fun j hj => hv j (by simp [hj]))
    exact encodable_of_mem_nb w n perms hp s _ hs (permAct_mem_nb perms i (hv i (by simp)) s)

/-! ### C07e: random walks on the encoded graph -/

/-- classic mode -/
theorem encoded_walksClassic (width length : Nat) (hl : 1 ≤ length) (start : List Nat)
    (hs : encodable w n start = true) (draws : List (List Nat))
    (hd : DrawsOk (encodedPermGraph w n perms hash ic batch) width draws (length - 1)) :
    let out := walksClassic (encodedPermGraph w n perms hash ic batch) width length (encode w n start) draws
    out.length = width * length ∧
    (∀ k, k < width → out[k]? = some (encode w n start, 0)) ∧
    (∀ k p, out[k]? = some p → p.2 = k / width) ∧
    (∀ k p q, out[k]? = some p → out[k + width]? = some q →
      ∃ i, i < perms.length ∧ decode w n q.1 = permAct perms i (decode w n p.1)) ∧
    (∀ p ∈ out, Walk (permGraphNb perms) p.2 start (decode w n p.1)) := by
  intro out
  obtain ⟨h1, h2, h3, h4, h5⟩ := BW.walksClassic_spec' (encodedPermGraph w n perms hash ic batch) width length hl
    (encode w n start) draws hd
  refine ⟨h1, h2, h3, ?_, ?_⟩
  · intro k p q hpk hqk
    obtain ⟨i, hi, hq⟩ := h4 k p q hpk hqk
    obtain ⟨s, he, heq, hdec, -⟩ := encoded_walk_lift w n hw hw' perms hp hash ic batch start hs p.2 p.1
      (h5 p (List.mem_of_getElem? hpk))
    refine ⟨i, hi, ?_⟩
    rw [hq, hdec, heq, encoded_act_permAct w n hw hw' perms hp hash ic batch i hi s]
    exact decode_encode w n hw hw' _
      (encodable_of_mem_nb w n perms hp s _ he (permAct_mem_nb perms i hi s))
  · intro p hpm
    obtain ⟨s, -, -, hdec, ws⟩ := encoded_walk_lift w n hw hw' perms hp hash ic batch start hs p.2 p.1 (h5 p hpm)
    rw [hdec]; exact ws

/-- nbt mode -/
theorem encoded_walksNbt (width length historyDepth : Nat) (hl : 1 ≤ length) (start : List Nat)
    (hs : encodable w n start = true) (rperms : List (List Nat)) :
    let out := walksNbt (encodedPermGraph w n perms hash ic batch) width length historyDepth (encode w n start)
      rperms
    (∀ k, k < width → out[k]? = some (encode w n start, 0)) ∧
    (∀ p ∈ out, Walk (permGraphNb perms) p.2 start (decode w n p.1)) := by
  intro out
  obtain ⟨h1, h2⟩ := BW.walksNbt_spec' (encodedPermGraph w n perms hash ic batch) width length historyDepth hl
    (encode w n start) rperms
  refine ⟨h1, ?_⟩
  intro p hpm
  obtain ⟨s, -, -, hdec, ws⟩ := encoded_walk_lift w n hw hw' perms hp hash ic batch start hs p.2 p.1 (h2 p hpm)
  rw [hdec]; exact ws

/-- BFS mode -/
theorem encoded_walksBfs (hinj : ∀ x y, Valid w n x → Valid w n y → hash x = hash y → x = y)
    (width length : Nat) (hwd : 1 ≤ width) (hl : 1 ≤ length) (start : List Nat)
    (hs : encodable w n start = true) (rperms : List (List Nat)) (hrp : ∀ p ∈ rperms, p.Nodup) :
    let out := walksBfs (encodedPermGraph w n perms hash ic batch) width length (encode w n start) rperms
    out.head? = some (encode w n start, 0) ∧
    (∀ p ∈ out, Walk (permGraphNb perms) p.2 start (decode w n p.1)) ∧
    (out.map fun p => decode w n p.1).Nodup := by
  intro out
  obtain ⟨h1, h2, h3⟩ := walksBfs_spec_on (encodedPermGraph w n perms hash ic batch) (Valid w n)
    (encoded_closedB w n hw hw' perms hp hash ic batch) hinj width length hwd hl (encode w n start)
    (valid_encodeB w n start hs) rperms hrp
  refine ⟨h1, ?_, ?_⟩
  · intro p hpm
    obtain ⟨s, -, -, hdec, ws⟩ := encoded_walk_lift w n hw hw' perms hp hash ic batch start hs p.2 p.1 (h2 p hpm)
    rw [hdec]; exact ws
  · have := decode_nodup_of_reach w n hw hw' perms hp hash ic batch start hs _ h3 (by
      intro x hx
      obtain ⟨p, hpm, rfl⟩ := List.mem_map.1 hx
      exact ⟨p.2, encode w n start, by simp, h2 p hpm⟩)
    rwa [List.map_map] at this

/-- BFS mode, wide and long enough: exactly all vertices with their true distances -/
theorem encoded_walksBfs_exact (hinj : ∀ x y, Valid w n x → Valid w n y → hash x = hash y → x = y)
    (width length : Nat) (start : List Nat) (hs : encodable w n start = true) (rperms : List (List Nat))
    (hwide : ∀ (k : Nat) (L : List (List Nat)), L.Nodup →
      (∀ s ∈ L, DistLayer (permGraphNb perms) [start] k s) → L.length ≤ width)
    (ecc : Nat) (hecc : ∀ s, ¬ DistLayer (permGraphNb perms) [start] (ecc + 1) s) (hlen : ecc < length)
    (s : List Nat) (k : Nat) :
    (s, k) ∈ (walksBfs (encodedPermGraph w n perms hash ic batch) width length (encode w n start) rperms).map
        (fun p => (decode w n p.1, p.2)) ↔ DistLayer (permGraphNb perms) [start] k s := by
  have hlift : ∀ k x, DistLayer (encodedPermGraph w n perms hash ic batch).nb [encode w n start] k x →
      ∃ t, encodable w n t = true ∧ x = encode w n t ∧ decode w n x = t ∧
        DistLayer (permGraphNb perms) [start] k t := by
    intro k x hx
    obtain ⟨t0, ht0, wk⟩ := hx.1
    rw [List.mem_singleton] at ht0
    subst ht0
    obtain ⟨t, he, heq, hdec, -⟩ := encoded_walk_lift w n hw hw' perms hp hash ic batch start hs k x wk
    refine ⟨t, he, heq, hdec, ?_⟩
    rw [heq] at hx
    exact (encoded_distLayer_iff1 w n hw hw' perms hp hash ic batch start hs k t he).1 hx
  have key := walksBfs_exact_on (encodedPermGraph w n perms hash ic batch) (Valid w n)
    (encoded_closedB w n hw hw' perms hp hash ic batch) hinj width length (encode w n start)
    (valid_encodeB w n start hs) rperms
    (by
      intro k L hnd hL
      have h1 := decode_nodup_of_reach w n hw hw' perms hp hash ic batch start hs L hnd
        (fun x hx => ⟨k, (hL x hx).1⟩)
      have h2 := hwide k (L.map (decode w n)) h1 (by
        intro t ht
        obtain ⟨x, hx, rfl⟩ := List.mem_map.1 ht
        obtain ⟨t, -, -, hdec, hd⟩ := hlift k x (hL x hx)
        rw [hdec]; exact hd)
      rwa [List.length_map] at h2)
    ecc (by
      intro x hx
      obtain ⟨t, -, -, -, hd⟩ := hlift _ x hx
      exact hecc t hd) hlen
  rw [List.mem_map]
  constructor
  · rintro ⟨⟨x, k'⟩, hm, heq⟩
    simp only [Prod.mk.injEq] at heq
    obtain ⟨rfl, rfl⟩ := heq
    obtain ⟨t, -, -, hdec, hd⟩ := hlift k' x ((key x k').1 hm)
    rw [hdec]; exact hd
  · intro hd
    have he : encodable w n s = true :=
      encodable_of_inOrbit w n perms hp [start] (by simpa using hs) s hd.inOrbit
    refine ⟨(encode w n s, k), (key _ k).2 ?_, ?_⟩
    · exact (encoded_distLayer_iff1 w n hw hw' perms hp hash ic batch start hs k s he).2 hd
    · simp only [decode_encode w n hw hw' s he]

/-! ### C06e: beam search on the encoded graph -/

section beam
variable (ici : Bool) (batchi : Nat) (hinj : ∀ x y, Valid w n x → Valid w n y → hash x = hash y → x = y)
include hinj

/-- the conclusion of the soundness theorems, on decoded states: a walk of the reported length in the mathematical
graph; a returned path has the reported length, uses valid generator indices and, replayed with
`new[j] = old[p[j]]` from the start state, ends at the central state -/
def BeamSound (perms : List (List Nat)) (start central : List Nat) (r : BeamRes) : Prop :=
  Walk (permGraphNb perms) r.length start central ∧
  ∀ p, r.path = some p → p.length = r.length ∧ (∀ i ∈ p, i < perms.length) ∧
    applyPath (permAct perms) start p = central

omit hinj in
/-- from the encoded graph to decoded states -/
theorem beamSound_of_encoded (start central : List Nat) (hs : encodable w n start = true)
    (hc : encodable w n central = true) (r : BeamRes)
    (h : Walk (encodedPermGraph w n perms hash ic batch).nb r.length (encode w n start) (encode w n central) ∧
      ∀ p, r.path = some p → p.length = r.length ∧
        (∀ i ∈ p, i < (encodedPermGraph w n perms hash ic batch).nGens) ∧
        applyPath (encodedPermGraph w n perms hash ic batch).act (encode w n start) p = encode w n central) :
    BeamSound perms start central r := by
  obtain ⟨h1, h2⟩ := h
  constructor
  · obtain ⟨s, he, heq, -, ws⟩ := encoded_walk_lift w n hw hw' perms hp hash ic batch start hs _ _ h1
    rw [encode_injective w n hw hw' central s hc he heq]
    exact ws
  · intro p hpp
    obtain ⟨a, b, e⟩ := h2 p hpp
    refine ⟨a, b, ?_⟩
    rw [encoded_applyPathB w n hw hw' perms hp hash ic batch start p b] at e
    exact encode_injective w n hw hw' _ _ (encodable_applyPathB w n perms hp start hs p b) hc e

/-- simple mode without a ball -/
theorem encoded_beamSimple_sound_noball (invMap : Option (List Nat)) (central start : List Nat)
    (hc : encodable w n central = true) (hs : encodable w n start = true) (c : SimpleCfg (List W))
    (hb : c.ball = none) (r : BeamRes)
    (hr : beamSimple (encodedPermGraph w n perms hash ic batch) (encodedPermGraph w n (invPerms perms) hash ici batchi)
      invMap (encode w n central) (encode w n start) c = some r) (hf : r.found = true) :
    BeamSound perms start central r :=
  beamSound_of_encoded w n hw hw' perms hp hash ic batch start central hs hc r
    (beamSimple_sound_noball_on _ _ (Valid w n)
      (encoded_pathHypOnB w n hw hw' perms hp hash ic batch ici batchi hinj) invMap _ _
      (valid_encodeB w n central hc) (valid_encodeB w n start hs) c hb r hr hf)

omit hw hw' hinj in
/-- the library's inverse map exists only for an inverse-closed generator list -/
theorem invClosed_of_inverseMap (m : List Nat) (hm : Cv.GraphDef.inverseMapPerm perms = some m) :
    ∀ p ∈ perms, Cv.Perm.inverse p ∈ perms := by
  intro p hpm
  obtain ⟨i, hi, rfl⟩ := List.getElem_of_mem hpm
  obtain ⟨j, -, hj, hjp, -⟩ := (Cv.GraphDef.inverseMapPerm_spec n perms hp m hm).2 i hi
  rw [getD_of_lt' perms i [] hi] at hjp
  rw [← hjp]
  exact getD_mem perms [] j hj

omit hinj in
theorem encoded_symmOnB (hinvc : ∀ p ∈ perms, Cv.Perm.inverse p ∈ perms) :
    SymmOnB (encodedPermGraph w n perms hash ic batch) (Valid w n) := by
  intro x y hx hy
  obtain ⟨s, hs, rfl⟩ := hx
  rw [encoded_nb_encode w n hw hw' perms hp hash ic batch s] at hy
  obtain ⟨t, ht, rfl⟩ := List.mem_map.1 hy
  rw [encoded_nb_encode w n hw hw' perms hp hash ic batch t]
  apply List.mem_map_of_mem
  exact symmOnOrbit_of_invClosed n perms hp hinvc [s] (by simpa using length_of_encodable hs) s t
    (Transport.inOrbit_of_mem (by simp)) ht

omit hinj in
theorem encoded_isInvMapOnB (m : List Nat) (hm : Cv.GraphDef.inverseMapPerm perms = some m) :
    IsInvMapOnB (encodedPermGraph w n perms hash ic batch) (Valid w n) m := by
  obtain ⟨hl, hall⟩ := Cv.GraphDef.inverseMapPerm_spec n perms hp m hm
  refine ⟨hl, ?_⟩
  intro i hi
  have hi' : i < perms.length := hi
  obtain ⟨j, hj1, hj2, hj3, -⟩ := hall i hi'
  refine ⟨j, hj1, hj2, ?_⟩
  intro x hx
  obtain ⟨s, hs, rfl⟩ := hx
  rw [encoded_act_permAct w n hw hw' perms hp hash ic batch i hi' s,
    encoded_act_permAct w n hw hw' perms hp hash ic batch j hj2]
  congr 1
  unfold permAct
  rw [hj3]
  exact (Cv.Perm.apply_inverse_cancel n _ (hp _ (getD_mem perms [] i hi')) s (length_of_encodable hs)).1

/-- simple mode with a ball (meet in the middle): `m` is the library's inverse map of the generator list -/
theorem encoded_beamSimple_sound_ball (m : List Nat) (hm : Cv.GraphDef.inverseMapPerm perms = some m)
    (central start : List Nat) (hc : encodable w n central = true) (hs : encodable w n start = true)
    (c : SimpleCfg (List W)) (ball : List (List Int)) (hb : c.ball = some ball)
    (hball : IsBall (encodedPermGraph w n perms hash ic batch) (encode w n central) ball) (hne : ball ≠ [])
    (r : BeamRes)
    (hr : beamSimple (encodedPermGraph w n perms hash ic batch) (encodedPermGraph w n (invPerms perms) hash ici batchi)
      (some m) (encode w n central) (encode w n start) c = some r) (hf : r.found = true) :
    BeamSound perms start central r :=
  beamSound_of_encoded w n hw hw' perms hp hash ic batch start central hs hc r
    (beamSimple_sound_ball_on _ _ (Valid w n)
      (encoded_pathHypOnB w n hw hw' perms hp hash ic batch ici batchi hinj)
      (encoded_symmOnB w n hw hw' perms hp hash ic batch (invClosed_of_inverseMap n perms hp m hm)) m
      (encoded_isInvMapOnB w n hw hw' perms hp hash ic batch m hm) _ _
      (valid_encodeB w n central hc) (valid_encodeB w n start hs) c ball hb hball hne r hr hf)

/-- the ball the library passes (`bfs_result_for_mitm.layers_hashes` of a BFS from the central state with
`return_all_hashes=True`) is a ball of the encoded graph -/
theorem encoded_bfs_hashes_isBall (central : List Nat) (hc : encodable w n central = true)
    (hic : ic = true → SymmOnOrbit perms [central]) (hb : 0 < batch) (cb : BfsCfg (List W))
    (hr : cb.returnHashes = true) :
    IsBall (encodedPermGraph w n perms hash ic batch) (encode w n central)
      (bfs (encodedPermGraph w n perms hash ic batch) cb [encode w n central]).hashes ∧
    (bfs (encodedPermGraph w n perms hash ic batch) cb [encode w n central]).hashes ≠ [] :=
  hashes_isBallS (encoded_bfsHypO w n hw hw' perms hp hash ic batch [central] (by simpa using hc) hinj hic hb) cb hr

/-- simple mode with the ball computed by the BFS model -/
theorem encoded_beamSimple_sound_ball_bfs (m : List Nat) (hm : Cv.GraphDef.inverseMapPerm perms = some m)
    (central start : List Nat) (hc : encodable w n central = true) (hs : encodable w n start = true)
    (hb0 : 0 < batch) (cb : BfsCfg (List W)) (hrh : cb.returnHashes = true)
    (c : SimpleCfg (List W))
    (hb : c.ball = some (bfs (encodedPermGraph w n perms hash ic batch) cb [encode w n central]).hashes)
    (r : BeamRes)
    (hr : beamSimple (encodedPermGraph w n perms hash ic batch) (encodedPermGraph w n (invPerms perms) hash ici batchi)
      (some m) (encode w n central) (encode w n start) c = some r) (hf : r.found = true) :
    BeamSound perms start central r := by
  have hinvc := invClosed_of_inverseMap n perms hp m hm
  obtain ⟨h1, h2⟩ := encoded_bfs_hashes_isBall w n hw hw' perms hp hash ic batch hinj central hc
    (fun _ => symmOnOrbit_of_invClosed n perms hp hinvc [central] (by simpa using length_of_encodable hc)) hb0 cb hrh
  exact encoded_beamSimple_sound_ball w n hw hw' perms hp hash ic batch ici batchi hinj m hm central start hc hs c _
    hb h1 h2 r hr hf

/-- advanced mode -/
theorem encoded_beamAdvanced_sound (start dest : List Nat) (hs : encodable w n start = true)
    (hd : encodable w n dest = true) (c : AdvCfg (List W)) (r : BeamRes)
    (hr : beamAdvanced (encodedPermGraph w n perms hash ic batch) (encode w n start) (encode w n dest) c = some r)
    (hf : r.found = true) : Walk (permGraphNb perms) r.length start dest := by
  have h1 := beamAdvanced_sound_on (encodedPermGraph w n perms hash ic batch) (Valid w n)
    (encoded_closedB w n hw hw' perms hp hash ic batch) hinj _ _ (valid_encodeB w n start hs)
    (valid_encodeB w n dest hd) c r hr hf
  obtain ⟨s, he, heq, -, ws⟩ := encoded_walk_lift w n hw hw' perms hp hash ic batch start hs _ _ h1
  rw [encode_injective w n hw hw' dest s hd he heq]
  exact ws

omit hinj in
/-- the `hwide` hypothesis of the exactness theorems, from the mathematical graph to the encoded graph -/
theorem encoded_hwide (start : List Nat) (hs : encodable w n start = true) (bound : Nat) (strict : Bool)
    (hwide : ∀ (k : Nat) (L : List (List Nat)), L.Nodup → (∀ s ∈ L, Reach (permGraphNb perms) [start] k s) →
      if strict then L.length < bound else L.length ≤ bound)
    (k : Nat) (L : List (List W)) (hnd : L.Nodup)
    (hL : ∀ x ∈ L, Reach (encodedPermGraph w n perms hash ic batch).nb [encode w n start] k x) :
    if strict then L.length < bound else L.length ≤ bound := by
  have h1 := decode_nodup_of_reach w n hw hw' perms hp hash ic batch start hs L hnd (fun x hx => ⟨k, hL x hx⟩)
  have h2 := hwide k (L.map (decode w n)) h1 (by
    intro t ht
    obtain ⟨x, hx, rfl⟩ := List.mem_map.1 ht
    obtain ⟨t0, ht0, wk⟩ := hL x hx
    rw [List.mem_singleton] at ht0
    subst ht0
    obtain ⟨t, -, -, hdec, ws⟩ := encoded_walk_lift w n hw hw' perms hp hash ic batch start hs k x wk
    rw [hdec]
    exact ⟨start, by simp, ws⟩)
  rwa [List.length_map] at h2

/-- exactness of the unpruned simple beam -/
theorem encoded_beamSimple_exact_unpruned (invMap : Option (List Nat)) (central start : List Nat)
    (hs : encodable w n start = true) (c : SimpleCfg (List W)) (hb : c.ball = none) (d : Nat)
    (hd : DistLayer (permGraphNb perms) [start] d central) (hsteps : d ≤ c.maxSteps)
    (hwide : ∀ (k : Nat) (L : List (List Nat)), L.Nodup → (∀ s ∈ L, Reach (permGraphNb perms) [start] k s) →
      L.length < c.beamWidth) :
    ∃ r, beamSimple (encodedPermGraph w n perms hash ic batch)
      (encodedPermGraph w n (invPerms perms) hash ici batchi) invMap (encode w n central) (encode w n start) c =
        some r ∧ r.found = true ∧ r.length = d := by
  have hc : encodable w n central = true :=
    encodable_of_inOrbit w n perms hp [start] (by simpa using hs) central hd.inOrbit
  apply beamSimple_exact_unpruned_on _ _ (Valid w n)
    (encoded_pathHypOnB w n hw hw' perms hp hash ic batch ici batchi hinj) invMap _ _
    (valid_encodeB w n central hc) (valid_encodeB w n start hs) c hb d
    ((encoded_distLayer_iff1 w n hw hw' perms hp hash ic batch start hs d central hc).2 hd) hsteps
  intro k L hnd hL
  simpa using encoded_hwide w n hw hw' perms hp hash ic batch start hs c.beamWidth true
    (by simpa using hwide) k L hnd hL

/-- exactness of the unpruned advanced beam, every history depth -/
theorem encoded_beamAdvanced_exact_unpruned (start dest : List Nat) (hs : encodable w n start = true)
    (c : AdvCfg (List W)) (d : Nat) (hd : DistLayer (permGraphNb perms) [start] d dest) (hsteps : d ≤ c.maxSteps)
    (hwide : ∀ (k : Nat) (L : List (List Nat)), L.Nodup → (∀ s ∈ L, Reach (permGraphNb perms) [start] k s) →
      L.length ≤ c.beamWidth) :
    ∃ r, beamAdvanced (encodedPermGraph w n perms hash ic batch) (encode w n start) (encode w n dest) c = some r ∧
      r.found = true ∧ r.length = d := by
  have hdd : encodable w n dest = true :=
    encodable_of_inOrbit w n perms hp [start] (by simpa using hs) dest hd.inOrbit
  apply beamAdvanced_exact_unpruned_on _ (Valid w n) (encoded_closedB w n hw hw' perms hp hash ic batch) hinj _ _
    (valid_encodeB w n start hs) (valid_encodeB w n dest hdd) c d
    ((encoded_distLayer_iff1 w n hw hw' perms hp hash ic batch start hs d dest hdd).2 hd) hsteps
  intro k L hnd hL
  simpa using encoded_hwide w n hw hw' perms hp hash ic batch start hs c.beamWidth false
    (by simpa using hwide) k L hnd hL

end beam

end enc

/-! ### the un-encoded graph (`bit_encoding_width=None`), `P = states of length n with entries below B` -/

/-- a state of length `n` with entries below `B` (the set on which the hash has to be injective) -/
def PlainOk (n B : Nat) (s : List Nat) : Prop := s.length = n ∧ ∀ a ∈ s, a < B

section plain
variable (n B : Nat) (perms : List (List Nat)) (hp : ∀ p ∈ perms, Cv.Perm.IsPermOf n p) (hash : List Nat → Int)
  (ic : Bool) (batch : Nat)

theorem plain_act : (plainPermGraph perms hash ic batch).act = permAct perms := rfl

include hp

theorem plainOk_permAct (i : Nat) (hi : i < perms.length) (s : List Nat) (hs : PlainOk n B s) :
    PlainOk n B (permAct perms i s) := by
  refine ⟨permAct_length n perms hp i hi s, ?_⟩
  intro a ha
  obtain ⟨j, hj, rfl⟩ := List.mem_map.1 ha
  have hjn : j < s.length := by rw [hs.1]; exact (hp _ (getD_mem perms [] i hi)).lt j hj
  rw [getD_of_lt' s j 0 hjn]
  exact hs.2 _ (List.getElem_mem hjn)

theorem plainOk_of_mem_nb (s t : List Nat) (hs : PlainOk n B s) (ht : t ∈ permGraphNb perms s) :
    PlainOk n B t := by
  obtain ⟨i, hi, rfl⟩ := mem_nb_permAct perms s t ht
  exact plainOk_permAct n B perms hp i hi s hs

theorem plain_closedB : ∀ i, i < (plainPermGraph perms hash ic batch).nGens → ∀ s : List Nat, PlainOk n B s →
    PlainOk n B ((plainPermGraph perms hash ic batch).act i s) :=
  fun i hi s hs => plainOk_permAct n B perms hp i hi s hs

theorem plain_pathHypOnB (ici : Bool) (batchi : Nat)
    (hinj : ∀ s t : List Nat, PlainOk n B s → PlainOk n B t → hash s = hash t → s = t) :
    PathHypOnB (plainPermGraph perms hash ic batch) (plainPermGraph (invPerms perms) hash ici batchi)
      (PlainOk n B) where
  hashEq := rfl
  nGens := invPerms_length perms
  closed := plain_closedB n B perms hp hash ic batch
  closedI := plain_closedB n B (invPerms perms) (invPerms_perm n perms hp) hash ici batchi
  inv := fun i hi s hs => permAct_inv n perms hp i hi s hs.1
  inj := hinj

omit hp in
/-- classic mode -/
theorem plain_walksClassic (width length : Nat) (hl : 1 ≤ length) (start : List Nat) (draws : List (List Nat))
    (hd : DrawsOk (plainPermGraph perms hash ic batch) width draws (length - 1)) :
    let out := walksClassic (plainPermGraph perms hash ic batch) width length start draws
    out.length = width * length ∧
    (∀ k, k < width → out[k]? = some (start, 0)) ∧
    (∀ k p, out[k]? = some p → p.2 = k / width) ∧
    (∀ k p q, out[k]? = some p → out[k + width]? = some q → ∃ i, i < perms.length ∧ q.1 = permAct perms i p.1) ∧
    (∀ p ∈ out, Walk (permGraphNb perms) p.2 start p.1) := by
  have := BW.walksClassic_spec' (plainPermGraph perms hash ic batch) width length hl start draws hd
  rw [plain_nb] at this
  exact this

omit hp in
/-- nbt mode -/
theorem plain_walksNbt (width length historyDepth : Nat) (hl : 1 ≤ length) (start : List Nat)
    (rperms : List (List Nat)) :
    let out := walksNbt (plainPermGraph perms hash ic batch) width length historyDepth start rperms
    (∀ k, k < width → out[k]? = some (start, 0)) ∧ (∀ p ∈ out, Walk (permGraphNb perms) p.2 start p.1) := by
  have := BW.walksNbt_spec' (plainPermGraph perms hash ic batch) width length historyDepth hl start rperms
  rw [plain_nb] at this
  exact this

/-- BFS mode -/
theorem plain_walksBfs (hinj : ∀ s t : List Nat, PlainOk n B s → PlainOk n B t → hash s = hash t → s = t)
    (width length : Nat) (hwd : 1 ≤ width) (hl : 1 ≤ length) (start : List Nat) (hs : PlainOk n B start)
    (rperms : List (List Nat)) (hrp : ∀ p ∈ rperms, p.Nodup) :
    let out := walksBfs (plainPermGraph perms hash ic batch) width length start rperms
    out.head? = some (start, 0) ∧ (∀ p ∈ out, Walk (permGraphNb perms) p.2 start p.1) ∧
      (out.map (·.1)).Nodup := by
  have := walksBfs_spec_on (plainPermGraph perms hash ic batch) (PlainOk n B)
    (plain_closedB n B perms hp hash ic batch) hinj width length hwd hl start hs rperms hrp
  rw [plain_nb] at this
  exact this

/-- BFS mode, wide and long enough -/
theorem plain_walksBfs_exact (hinj : ∀ s t : List Nat, PlainOk n B s → PlainOk n B t → hash s = hash t → s = t)
    (width length : Nat) (start : List Nat) (hs : PlainOk n B start) (rperms : List (List Nat))
    (hwide : ∀ (k : Nat) (L : List (List Nat)), L.Nodup →
      (∀ s ∈ L, DistLayer (permGraphNb perms) [start] k s) → L.length ≤ width)
    (ecc : Nat) (hecc : ∀ s, ¬ DistLayer (permGraphNb perms) [start] (ecc + 1) s) (hlen : ecc < length)
    (s : List Nat) (k : Nat) :
    (s, k) ∈ walksBfs (plainPermGraph perms hash ic batch) width length start rperms ↔
      DistLayer (permGraphNb perms) [start] k s := by
  have := walksBfs_exact_on (plainPermGraph perms hash ic batch) (PlainOk n B)
    (plain_closedB n B perms hp hash ic batch) hinj width length start hs rperms
  rw [plain_nb] at this
  exact this hwide ecc hecc hlen s k

section pbeam
variable (ici : Bool) (batchi : Nat)
  (hinj : ∀ s t : List Nat, PlainOk n B s → PlainOk n B t → hash s = hash t → s = t)
include hinj

/-- simple mode without a ball -/
theorem plain_beamSimple_sound_noball (invMap : Option (List Nat)) (central start : List Nat)
    (hc : PlainOk n B central) (hs : PlainOk n B start) (c : SimpleCfg (List Nat)) (hb : c.ball = none)
    (r : BeamRes)
    (hr : beamSimple (plainPermGraph perms hash ic batch) (plainPermGraph (invPerms perms) hash ici batchi)
      invMap central start c = some r) (hf : r.found = true) :
    BeamSound perms start central r := by
  have := beamSimple_sound_noball_on _ _ (PlainOk n B)
    (plain_pathHypOnB n B perms hp hash ic batch ici batchi hinj) invMap central start hc hs c hb r hr hf
  rw [plain_nb] at this
  exact this

omit hinj in
theorem plain_symmOnB (hinvc : ∀ p ∈ perms, Cv.Perm.inverse p ∈ perms) :
    SymmOnB (plainPermGraph perms hash ic batch) (PlainOk n B) := by
  intro s t hs ht
  rw [plain_nb] at ht ⊢
  exact symmOnOrbit_of_invClosed n perms hp hinvc [s] (by simpa using hs.1) s t
    (Transport.inOrbit_of_mem (by simp)) ht

omit hinj in
theorem plain_isInvMapOnB (m : List Nat) (hm : Cv.GraphDef.inverseMapPerm perms = some m) :
    IsInvMapOnB (plainPermGraph perms hash ic batch) (PlainOk n B) m := by
  obtain ⟨hl, hall⟩ := Cv.GraphDef.inverseMapPerm_spec n perms hp m hm
  refine ⟨hl, ?_⟩
  intro i hi
  have hi' : i < perms.length := hi
  obtain ⟨j, hj1, hj2, hj3, -⟩ := hall i hi'
  refine ⟨j, hj1, hj2, ?_⟩
  intro s hs
  show permAct perms j (permAct perms i s) = s
  unfold permAct
  rw [hj3]
  exact (Cv.Perm.apply_inverse_cancel n _ (hp _ (getD_mem perms [] i hi')) s hs.1).1

/-- simple mode with a ball -/
theorem plain_beamSimple_sound_ball (m : List Nat) (hm : Cv.GraphDef.inverseMapPerm perms = some m)
    (central start : List Nat) (hc : PlainOk n B central) (hs : PlainOk n B start)
    (c : SimpleCfg (List Nat)) (ball : List (List Int)) (hb : c.ball = some ball)
    (hball : IsBall (plainPermGraph perms hash ic batch) central ball) (hne : ball ≠ []) (r : BeamRes)
    (hr : beamSimple (plainPermGraph perms hash ic batch) (plainPermGraph (invPerms perms) hash ici batchi)
      (some m) central start c = some r) (hf : r.found = true) :
    BeamSound perms start central r := by
  have := beamSimple_sound_ball_on _ _ (PlainOk n B)
    (plain_pathHypOnB n B perms hp hash ic batch ici batchi hinj)
    (plain_symmOnB n B perms hp hash ic batch (invClosed_of_inverseMap n perms hp m hm)) m
    (plain_isInvMapOnB n B perms hp hash ic batch m hm) central start hc hs c ball hb hball hne r hr hf
  rw [plain_nb] at this
  exact this

/-- the ball computed by the BFS model is a ball -/
theorem plain_bfs_hashes_isBall (central : List Nat) (hc : PlainOk n B central)
    (hic : ic = true → SymmOnOrbit perms [central]) (hb : 0 < batch) (cb : BfsCfg (List Nat))
    (hr : cb.returnHashes = true) :
    IsBall (plainPermGraph perms hash ic batch) central (bfs (plainPermGraph perms hash ic batch) cb [central]).hashes ∧
    (bfs (plainPermGraph perms hash ic batch) cb [central]).hashes ≠ [] := by
  have hl : ∀ s, InOrbit (permGraphNb perms) [central] s → PlainOk n B s :=
    Transport.inOrbit_invariant _ _ (PlainOk n B) (by simpa using hc)
      (fun a b ha hb => plainOk_of_mem_nb n B perms hp a b ha hb)
  exact hashes_isBallS (plain_bfsHypO perms hash ic batch [central]
    (fun s t hs ht h => hinj s t (hl s hs) (hl t ht) h) hic hb) cb hr

/-- advanced mode -/
theorem plain_beamAdvanced_sound (start dest : List Nat) (hs : PlainOk n B start) (hd : PlainOk n B dest)
    (c : AdvCfg (List Nat)) (r : BeamRes)
    (hr : beamAdvanced (plainPermGraph perms hash ic batch) start dest c = some r) (hf : r.found = true) :
    Walk (permGraphNb perms) r.length start dest := by
  have := beamAdvanced_sound_on (plainPermGraph perms hash ic batch) (PlainOk n B)
    (plain_closedB n B perms hp hash ic batch) hinj start dest hs hd c r hr hf
  rw [plain_nb] at this
  exact this

omit hinj in
theorem plainOk_of_reach (start : List Nat) (hs : PlainOk n B start) (s : List Nat)
    (h : InOrbit (permGraphNb perms) [start] s) : PlainOk n B s :=
  Transport.inOrbit_invariant _ _ (PlainOk n B) (by simpa using hs)
    (fun a b ha hb => plainOk_of_mem_nb n B perms hp a b ha hb) s h

/-- exactness of the unpruned simple beam -/
theorem plain_beamSimple_exact_unpruned (invMap : Option (List Nat)) (central start : List Nat)
    (hs : PlainOk n B start) (c : SimpleCfg (List Nat)) (hb : c.ball = none) (d : Nat)
    (hd : DistLayer (permGraphNb perms) [start] d central) (hsteps : d ≤ c.maxSteps)
    (hwide : ∀ (k : Nat) (L : List (List Nat)), L.Nodup → (∀ s ∈ L, Reach (permGraphNb perms) [start] k s) →
      L.length < c.beamWidth) :
    ∃ r, beamSimple (plainPermGraph perms hash ic batch) (plainPermGraph (invPerms perms) hash ici batchi) invMap
      central start c = some r ∧ r.found = true ∧ r.length = d := by
  have hc : PlainOk n B central := plainOk_of_reach n B perms hp start hs central hd.inOrbit
  have := beamSimple_exact_unpruned_on _ _ (PlainOk n B)
    (plain_pathHypOnB n B perms hp hash ic batch ici batchi hinj) invMap central start hc hs c hb d
  rw [plain_nb] at this
  exact this hd hsteps hwide

/-- exactness of the unpruned advanced beam -/
theorem plain_beamAdvanced_exact_unpruned (start dest : List Nat) (hs : PlainOk n B start)
    (c : AdvCfg (List Nat)) (d : Nat) (hd : DistLayer (permGraphNb perms) [start] d dest) (hsteps : d ≤ c.maxSteps)
    (hwide : ∀ (k : Nat) (L : List (List Nat)), L.Nodup → (∀ s ∈ L, Reach (permGraphNb perms) [start] k s) →
      L.length ≤ c.beamWidth) :
    ∃ r, beamAdvanced (plainPermGraph perms hash ic batch) start dest c = some r ∧ r.found = true ∧
      r.length = d := by
  have hdd : PlainOk n B dest := plainOk_of_reach n B perms hp start hs dest hd.inOrbit
  have := beamAdvanced_exact_unpruned_on (plainPermGraph perms hash ic batch) (PlainOk n B)
    (plain_closedB n B perms hp hash ic batch) hinj start dest hs hdd c d
  rw [plain_nb] at this
  exact this hd hsteps hwide

end pbeam
end plain

/-- the base-4 reading is injective on states of length 4 with entries below 4 (for the non-vacuity examples) -/
theorem b4Hash_inj_plainOk : ∀ s t : List Nat, PlainOk 4 4 s → PlainOk 4 4 t →
    Cv.Instance.Example.b4Hash s = Cv.Instance.Example.b4Hash t → s = t := by
  intro s t hs ht h
  match s, t, hs, ht with
  | [a, b, c, d], [a', b', c', d'], hs, ht =>
    have h1 := hs.2; have h2 := ht.2
    simp only [List.mem_cons, List.not_mem_nil, or_false, forall_eq_or_imp, forall_eq] at h1 h2
    simp only [Cv.Instance.Example.b4Hash, List.foldl_cons, List.foldl_nil] at h
    have h' := Int.ofNat.inj h
    have : a = a' ∧ b = b' ∧ c = c' ∧ d = d' := by omega
    obtain ⟨rfl, rfl, rfl, rfl⟩ := this
    rfl

end Cv.Instance
