/-
  G10 part 3 — `CayleyGraphDef.make_inverse_closed` (permutation branch), REGENERATED from the source, followed by the
  model of `create`, equals the model `PermDef.makeInverseClosed`.  Core Lean only.
-/
import CvProofs.PyGraphDefG10Map

namespace Cv.PyG10
open Cv.Py Cv.PyGen Cv.GraphDef Cv.Perm

/-! ### `{tuple(g) for g in gens}` as the list of its elements -/

/-- loop bodies of the generated `make_inverse_closed` (abbreviations; the theorems below are about the generated
definition, which must be definitionally equal to the loops over these bodies) -/
def getBody (G : List (List Int)) : Int → Option (List Int) :=
  fun i => do let t_2 ← pyGet G i; pure t_2

def icBody (G S : List (List Int)) (names : List String) :
    (List (List Int)) × (List String) → Int → Option ((List (List Int)) × (List String)) :=
  fun (st : (List (List Int)) × (List String)) (i : Int) => do
          let new_generators_permutations := st.1
          let new_generator_names := st.2
          let t_3 ← pyGet G i
          let t_4 ← Cv.PyGen.Perm.inverse_permutation t_3
          let inv_perm : List Int := t_4
          let st : (List (List Int)) × (List String) ← (if ((!(List.contains S inv_perm))) then do
              let new_generators_permutations := new_generators_permutations ++ [inv_perm]
              let t_5 ← pyGet names i
              let new_generator_names := new_generator_names ++ [(t_5 ++ "'")]
              pure (new_generators_permutations, new_generator_names)
            else do
              pure (new_generators_permutations, new_generator_names)
            )
          let new_generators_permutations := st.1
          let new_generator_names := st.2
          pure (new_generators_permutations, new_generator_names)

theorem mapM_some_id {α : Type} (l : List α) : l.mapM (fun a => (some a : Option α)) = some l := by
  induction l with
  | nil => rfl
  | cons a t ih => simp [List.mapM_cons, ih]

theorem mapM_getBody (G : List (List Int)) :
    List.mapM (getBody G) (toI (List.range G.length)) = some G := by
  show List.mapM _ ((List.range G.length).map Int.ofNat) = _
  rw [PyG1.mapM_map_option]
  have e : (fun a : Nat => getBody G (Int.ofNat a)) = fun i => (G[i]?).bind some := by
    funext a
    unfold getBody
    simp only [Int.ofNat_eq_natCast, PyG1.pyGet_nat]
    cases G[a]? <;> rfl
  rw [e, PyG1.mapM_range_getElem?, mapM_some_id]

/-! ### the loop appending the missing inverses -/

/-- the model's choice for one (generator, name) pair -/
def icF (gens : List (List Nat)) : List Nat × String → Option (List Nat × String) :=
  fun (p, nm) =>
    let ip := Cv.Perm.inverse p
    if gens.contains ip then none else some (ip, nm ++ "'")

theorem icExtra_eq (d : PermDef) : icExtra d = (List.zip d.gens d.names).filterMap (icF d.gens) := rfl

theorem icBody_step (gens : List (List Nat)) (names : List String)
    (hv : ∀ p ∈ gens, ∀ i ∈ p, i < p.length) (x : Nat) (hx : x < gens.length) (hx' : x < names.length)
    (E : List (List Nat × String)) :
    icBody (gens.map toI) (gens.map toI) names ((E.map (·.1)).map toI, E.map (·.2)) (x : Int) =
      some (((E ++ (icF gens (gens[x], names[x])).toList).map (·.1)).map toI,
            (E ++ (icF gens (gens[x], names[x])).toList).map (·.2)) := by
  have hp : ∀ i ∈ gens[x], i < gens[x].length := hv _ (List.getElem_mem hx)
  have g1 : pyGet (gens.map toI) (x : Int) = some (toI gens[x]) := by
    rw [pyGet_map_toI, List.getElem?_eq_getElem hx]; rfl
  have g2 : pyGet names (x : Int) = some names[x] := by
    rw [PyG1.pyGet_nat, List.getElem?_eq_getElem hx']
  unfold icBody icF
  simp only [Option.pure_def, Option.bind_eq_bind, g1, g2, Option.bind_some,
    PyG1.inverse_permutation_gen _ hp, contains_map_toI]
  cases hc : gens.contains (Cv.Perm.inverse gens[x]) with
  | true => simp
  | false => simp

theorem zip_take_succ (gens : List (List Nat)) (names : List String) (k : Nat) (hk : k < gens.length)
    (hk' : k < names.length) :
    (List.zip gens names).take (k + 1) = (List.zip gens names).take k ++ [(gens[k], names[k])] := by
  rw [List.take_add_one]
  congr 1
  rw [List.getElem?_eq_getElem (by simp; omega), List.getElem_zip]
  rfl

theorem ic_loop (gens : List (List Nat)) (names : List String)
    (hv : ∀ p ∈ gens, ∀ i ∈ p, i < p.length) (hn : names.length = gens.length) (k : Nat) (hk : k ≤ gens.length) :
    List.foldlM (icBody (gens.map toI) (gens.map toI) names) ([], []) (toI (List.range k)) =
      some (((((List.zip gens names).take k).filterMap (icF gens)).map (·.1)).map toI,
            (((List.zip gens names).take k).filterMap (icF gens)).map (·.2)) := by
  induction k with
  | zero => rfl
  | succ k ih =>
    have h1 : k < gens.length := by omega
    have h2 : k < names.length := by omega
    rw [List.range_succ, show toI (List.range k ++ [k]) = toI (List.range k) ++ [(k : Int)] by simp [toI],
      List.foldlM_append, ih (by omega), Option.bind_eq_bind, Option.bind_some, List.foldlM_cons,
      icBody_step gens names hv k h1 h2, Option.bind_eq_bind, Option.bind_some, List.foldlM_nil,
      zip_take_succ gens names k h1 h2, List.filterMap_append]
    rfl

/-! ### `make_inverse_closed` -/

/-- the raw arguments handed to `create` when the definition is already inverse closed: `self` -/
theorem make_inverse_closed_raw_closed (G : List (List Int)) (names : List String) (c : List Int) (name : String) :
    GraphDef.make_inverse_closed G names c name true = some (RawDef.mk G (some c) (some names) (some name)) := rfl

/-- the raw arguments handed to `create` when the definition is not inverse closed -/
theorem make_inverse_closed_raw (d : PermDef) (hv : ∀ p ∈ d.gens, ∀ i ∈ p, i < p.length)
    (hn : d.names.length = d.gens.length) :
    GraphDef.make_inverse_closed (d.gens.map toI) d.names (toI d.central) d.name false =
      some (RawDef.mk ((d.gens ++ (icExtra d).map (·.1)).map toI) (some (toI d.central))
        (some (d.names ++ (icExtra d).map (·.2))) (some (if d.name != "" then d.name ++ "-ic" else d.name))) := by
  unfold GraphDef.make_inverse_closed
  have hlen : pyLen (d.gens.map toI) = (d.gens.length : Int) := by simp [pyLen]
  rw [hlen, PyG1.pyRange_zero_one_nat]
  show ((if (d.name != "") = true then pure (d.name ++ "-ic") else pure d.name : Option String) >>= fun st =>
      List.mapM (getBody (d.gens.map toI)) (toI (List.range d.gens.length)) >>= fun t_1 =>
      List.foldlM (icBody (d.gens.map toI) t_1 d.names) ([], []) (toI (List.range d.gens.length)) >>= fun st2 =>
      pure (RawDef.mk (d.gens.map toI ++ st2.1) (some (toI d.central)) (some (d.names ++ st2.2)) (some st))) = _
  have e1 : (if (d.name != "") = true then pure (d.name ++ "-ic") else pure d.name : Option String) =
      some (if d.name != "" then d.name ++ "-ic" else d.name) := by
    cases (d.name != "") <;> rfl
  have e2 := mapM_getBody (d.gens.map toI)
  rw [List.length_map] at e2
  rw [e1, e2]
  simp only [Option.bind_eq_bind, Option.bind_some, Option.pure_def]
  rw [ic_loop d.gens d.names hv hn d.gens.length (Nat.le_refl _), Option.bind_some]
  have e3 : (List.zip d.gens d.names).take d.gens.length = List.zip d.gens d.names := by
    apply List.take_of_length_le
    simp; omega
  rw [e3, ← icExtra_eq]
  simp [List.map_append]

theorem make_inverse_closed_gen (d : PermDef)
    (hd : PermDef.create d.gens (some d.names) (some d.central) d.name = some d) :
    (GraphDef.make_inverse_closed (d.gens.map toI) d.names (toI d.central) d.name d.inverseClosed).bind rawToPermDef =
      d.makeInverseClosed := by
  rw [makeIC_unfold]
  cases hic : d.inverseClosed with
  | true =>
    rw [make_inverse_closed_raw_closed, Option.bind_some, PyG5.rawToPermDef_mk, hd]
    rfl
  | false =>
    obtain ⟨_, h1, h2, _, _⟩ := (create_self_iff d).1 hd
    rw [make_inverse_closed_raw d (fun p hp i hi => by rw [(h1 p hp).length_eq]; exact (h1 p hp).lt i hi) h2,
      Option.bind_some, PyG5.rawToPermDef_mk]
    rfl

end Cv.PyG10
