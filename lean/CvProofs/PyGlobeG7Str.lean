import CvModel.PyPrelude
import CvModel.Puzzles
import Std.Data.String.ToNat
namespace Cv.PyG7
open Cv.Py

theorem rkey_toList (k : Nat) : ("r" ++ toString k).toList = 'r' :: (Nat.toDigits 10 k) := by
  rw [String.toList_append]
  show _ ++ (Nat.repr k).toList = _
  rw [Nat.toList_repr]; rfl

theorem fkey_toList (k : Nat) : ("f" ++ toString k).toList = 'f' :: (Nat.toDigits 10 k) := by
  rw [String.toList_append]
  show _ ++ (Nat.repr k).toList = _
  rw [Nat.toList_repr]; rfl

theorem contains_r (k : Nat) : pyStrContains ("r" ++ toString k) "r" = true := by
  unfold pyStrContains
  simp only [rkey_toList]
  rw [List.any_eq_true]
  exact ⟨0, by simp, by simp⟩

theorem take_one_mem {α : Type} {l : List α} {c : α} (h : l.take 1 = [c]) : c ∈ l := by
  have : c ∈ l.take 1 := by rw [h]; simp
  exact List.mem_of_mem_take this

theorem not_contains_f (c : Nat) : pyStrContains ("f" ++ toString c) "r" = false := by
  unfold pyStrContains
  simp only [fkey_toList]
  rw [List.any_eq_false]
  intro i _ hi
  have h1 : ((('f' :: Nat.toDigits 10 c).drop i).take 1) = ['r'] := by
    simpa using hi
  have h2 : 'r' ∈ 'f' :: Nat.toDigits 10 c := List.mem_of_mem_drop (take_one_mem h1)
  rcases List.mem_cons.1 h2 with h | h
  · exact absurd h (by decide)
  · have := Nat.isDigit_of_mem_toDigits (b := 10) (by decide) (by decide) h
    exact absurd this (by decide)

theorem rkey_inj {k k' : Nat} (h : "r" ++ toString k = "r" ++ toString k') : k = k' := by
  have := congrArg String.toList h
  rw [String.toList_append, String.toList_append, List.append_cancel_left_eq] at this
  exact Nat.repr_inj.1 (String.toList_injective this)

theorem fkey_inj {c c' : Nat} (h : "f" ++ toString c = "f" ++ toString c') : c = c' := by
  have := congrArg String.toList h
  rw [String.toList_append, String.toList_append, List.append_cancel_left_eq] at this
  exact Nat.repr_inj.1 (String.toList_injective this)

theorem rkey_ne_fkey (k c : Nat) : "r" ++ toString k ≠ "f" ++ toString c := by
  intro h
  have := congrArg String.toList h
  rw [rkey_toList, fkey_toList] at this
  injection this with h1 _
  exact absurd h1 (by decide)

theorem pyDictSet_new {β : Type} (d : List (String × β)) (k : String) (v : β)
    (h : ∀ p ∈ d, p.1 ≠ k) : pyDictSet d k v = d ++ [(k, v)] := by
  induction d with
  | nil => rfl
  | cons p t ih =>
    obtain ⟨k', v'⟩ := p
    rw [pyDictSet, if_neg (h (k', v') (by simp)), ih (fun q hq => h q (List.mem_cons_of_mem _ hq))]
    rfl

theorem globe_names_eq (a b : Nat) : (Cv.Puzzles.globe a b).names =
    ((List.range (a + 1)).flatMap fun k => ["r" ++ toString k, "r" ++ toString k ++ "_inv"]) ++
      (List.range (2 * b)).map fun c => "f" ++ toString c := by
  simp [Cv.Puzzles.globe]
  rfl

theorem globe_name_str (a b : Nat) :
    "globe_puzzle-" ++ pyStr (a : Int) ++ "-" ++ pyStr (b : Int) =
      "globe_puzzle-" ++ toString a ++ "-" ++ toString b := rfl

end Cv.PyG7
