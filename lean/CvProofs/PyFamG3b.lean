/-
  Worker g3, part 2: larx, generalized_stars, burnt_pancake, cubic_pancake.
-/
import CvProofs.PyFamG3
import CvProofs.FamiliesMore
namespace Cv.PyG3
open Cv.Py Cv.Families Cv.GraphDef Cv.Perm Cv.PyGen

/-! ### larx -/

theorem tupleName_eq (sep : String) (g : List Nat) :
    "(" ++ pyJoin sep (List.map pyStr (toI g)) ++ ")" = tupleName sep g := by
  unfold tupleName pyJoin toI
  rw [List.map_map]
  rfl

theorem gen_larx1 (n : Nat) (hn : 2 ≤ n) :
    [(1 : Int), (0 : Int)] ++ pyRange (2 : Int) (n : Int) (1 : Int) = toI (oneLine n (swapFn 0 1)) := by
  rw [pyRange_up_of 2 n 2 n rfl rfl]
  show toI [1, 0] ++ _ = _
  rw [← toI_append]
  congr 1
  apply List.ext_getElem
  · simp; omega
  · intro p h1 h2
    simp only [oneLine, swapFn, List.getElem_map, List.getElem_range]
    match p with
    | 0 => rfl
    | 1 => rfl
    | q + 2 => simp; omega

theorem gen_larx2 (n : Nat) (hn : 2 ≤ n) :
    ([(0 : Int)] ++ pyRange (2 : Int) (n : Int) (1 : Int)) ++ [(1 : Int)]
      = toI (oneLine n (subLongFn n)) := by
  rw [pyRange_up_of 2 n 2 n rfl rfl]
  show (toI [0] ++ _) ++ toI [1] = _
  rw [← toI_append, ← toI_append]
  congr 1
  apply List.ext_getElem
  · simp; omega
  · intro p h1 h2
    simp at h1
    simp only [oneLine, subLongFn, rangeCycleFn, List.getElem_map, List.getElem_range]
    match p with
    | 0 => simp; omega
    | q + 1 =>
      by_cases hq : q + 2 < n
      · rw [List.getElem_append_left (by simp; omega)]
        simp
        rw [if_pos (by omega)]; omega
      · rw [List.getElem_append_right (by simp; omega)]
        simp
        rw [if_neg (by omega), if_pos (by omega)]

theorem larx_gen (n : Nat) : (Fam.larx (n : Int)).bind rawToPermDef = Families.larx n := by
  by_cases hn : 2 ≤ n
  · have hspec := permFamily_larx n
    unfold Families.larx at hspec ⊢
    rw [if_pos hn] at hspec ⊢
    have hv := larx_valid n _ hspec
    have ha : decide ((n : Int) ≥ 2) = true := by simp; omega
    unfold Fam.larx
    rw [ha, identity_range, gen_larx1 n hn, gen_larx2 n hn]
    simp only [pyAssert_true, Option.bind_eq_bind, Option.bind_some, pure, tupleName_eq]
    exact rawToPermDef_of _ _ n rfl rfl rfl (by simp [pyStr_nat, showNat]) hv (by simp) (by omega)
  · have ha : decide ((n : Int) ≥ 2) = false := by simp; omega
    unfold Fam.larx Families.larx
    rw [ha, if_neg hn]
    rfl

theorem larx_gen_neg (n : Int) (h : n < 0) : Fam.larx n = none := by
  have ha : decide (n ≥ 2) = false := by simp; omega
  unfold Fam.larx
  rw [ha]; rfl

/-! ### generalized_stars -/

theorem generalized_stars_gen (n k : Nat) :
    (Fam.generalized_stars (n : Int) (k : Int)).bind rawToPermDef = Families.generalizedStars n k := by
  by_cases hn : 3 ≤ n ∧ 1 ≤ k ∧ k < n
  · have hspec := permFamily_generalizedStars n k
    unfold Families.generalizedStars at hspec ⊢
    rw [if_pos hn] at hspec ⊢
    have hv := generalized_stars_valid n k _ hspec
    have ha : decide ((n : Int) ≥ 3) = true := by simp; omega
    have hb : (decide ((1 : Int) ≤ (k : Int)) && decide ((k : Int) < (n : Int))) = true := by simp; omega
    unfold Fam.generalized_stars
    rw [ha, hb, identity_range, identity_range, pyRange_up_of k n k n rfl rfl]
    simp only [pyAssert_true, Option.bind_eq_bind, Option.bind_some]
    rw [foldlM_toI_acc2_flat _ _
      (fun i => (List.range' k (n - k)).map fun j => toI (oneLine n (swapFn i j)))
      (fun i => (List.range' k (n - k)).map fun j => "S" ++ toString i ++ "-" ++ toString j)]
    · simp only [Option.bind_some, pure]
      refine rawToPermDef_of _ _ n ?_ rfl ?_ (by simp [pyStr_nat, showNat, mk]) hv ?_ (by omega)
      · simp [mk, pairsSplit, List.map_flatMap, Function.comp_def]
      · simp only [mk, pairsSplit, List.map_flatMap, List.map_map, Function.comp_def, List.nil_append]
        rfl
      · have : (0, k) ∈ pairsSplit n k := (mem_pairsSplit n k 0 k).2 (by omega)
        intro e
        simp only [mk, List.map_eq_nil_iff] at e
        rw [e] at this
        simp at this
    · intro st i hi
      simp only [List.mem_range] at hi
      show Option.bind (List.foldlM _ (st.1, st.2) (toI (List.range' k (n - k)))) _ = _
      rw [foldlM_toI_acc2 _ _ (fun j => toI (oneLine n (swapFn i j)))
        (fun j => "S" ++ toString i ++ "-" ++ toString j)]
      · rfl
      · intro st' j hj
        simp only [List.mem_range'_1] at hj
        simp only [transposition_eq n i j (by omega) (by omega) (by omega), Option.bind_some, pure]
        rfl
  · unfold Families.generalizedStars
    rw [if_neg hn]
    unfold Fam.generalized_stars
    by_cases h3 : 3 ≤ n
    · have ha : decide ((n : Int) ≥ 3) = true := by simp; omega
      have hb : (decide ((1 : Int) ≤ (k : Int)) && decide ((k : Int) < (n : Int))) = false := by
        simp only [Bool.and_eq_false_imp, decide_eq_true_eq, decide_eq_false_iff_not]; omega
      rw [ha, hb]; rfl
    · have ha : decide ((n : Int) ≥ 3) = false := by simp; omega
      rw [ha]; rfl

theorem generalized_stars_gen_neg (n k : Int) (h : n < 0 ∨ k < 0) : Fam.generalized_stars n k = none := by
  unfold Fam.generalized_stars
  by_cases h3 : 3 ≤ n
  · have ha : decide (n ≥ 3) = true := by simp; omega
    have hb : (decide ((1 : Int) ≤ k) && decide (k < n)) = false := by
      simp only [Bool.and_eq_false_imp, decide_eq_true_eq, decide_eq_false_iff_not]; omega
    rw [ha, hb]; rfl
  · have ha : decide (n ≥ 3) = false := by simp; omega
    rw [ha]; rfl

/-! ### burnt_pancake -/

theorem gen_burnt (n t : Nat) (ht : t < n) :
    ((([] ++ pyRange ((n : Int) + (t : Int)) ((n : Int) - 1) (-(1 : Int)))
        ++ pyRange ((t : Int) + 1) (n : Int) (1 : Int))
        ++ pyRange (t : Int) (-(1 : Int)) (-(1 : Int)))
        ++ pyRange (((n : Int) + (t : Int)) + 1) ((2 : Int) * (n : Int)) (1 : Int)
      = toI (oneLine (2 * n) (signedRevFn n 0 t)) := by
  rw [pyRange_down_of ((n : Int) + (t : Int)) ((n : Int) - 1) (n + t + 1) n (by omega) (by omega),
    pyRange_up_of ((t : Int) + 1) n (t + 1) n (by omega) rfl,
    pyRange_down_of (t : Int) (-1) (t + 1) 0 (by omega) (by omega),
    pyRange_up_of (((n : Int) + (t : Int)) + 1) ((2 : Int) * (n : Int)) (n + t + 1) (2 * n) (by omega) (by omega),
    List.nil_append, ← toI_append, ← toI_append, ← toI_append]
  congr 1
  apply List.ext_getElem
  · simp; omega
  · intro p h1 h2
    simp only [oneLine, signedRevFn, List.getElem_map, List.getElem_range, List.getElem_append,
      List.getElem_reverse, List.getElem_range', List.length_append, List.length_reverse,
      List.length_range']
    repeat' split
    all_goals omega

theorem burnt_pancake_gen (n : Nat) :
    (Fam.burnt_pancake (n : Int)).bind rawToPermDef = Families.burntPancake n := by
  by_cases hn : 1 ≤ n
  · have hspec := permFamily_burntPancake n
    unfold Families.burntPancake at hspec ⊢
    rw [if_pos hn] at hspec ⊢
    have hv := burnt_pancake_valid n _ hspec
    have ha : decide ((n : Int) ≥ 1) = true := by simp; omega
    have hc : pyRange (0 : Int) ((2 : Int) * (n : Int)) (1 : Int) = toI (List.range (2 * n)) := by
      rw [pyRange_up_of 0 ((2 : Int) * (n : Int)) 0 (2 * n) rfl (by omega), Nat.sub_zero,
        List.range_eq_range']
    unfold Fam.burnt_pancake
    rw [ha, identity_range, hc]
    simp only [pyAssert_true, Option.bind_eq_bind, Option.bind_some]
    rw [foldlM_toI_acc2 _ _ (fun t => toI (oneLine (2 * n) (signedRevFn n 0 t)))
      (fun t => "R" ++ toString (t + 1))]
    · simp only [Option.bind_some, pure]
      refine rawToPermDef_of _ _ (2 * n) ?_ rfl ?_ (by simp [pyStr_nat, showNat, mk]) hv ?_ (by omega)
      · simp [mk, Function.comp_def]
      · simp [mk, showNat]
      · simp [mk]; omega
    · intro st t ht
      simp only [List.mem_range] at ht
      show some (st.1 ++ [_], st.2 ++ ["R" ++ pyStr ((t : Int) + 1)]) = _
      rw [gen_burnt n t ht, show (t : Int) + 1 = ((t + 1 : Nat) : Int) by omega, pyStr_nat]
  · have ha : decide ((n : Int) ≥ 1) = false := by simp; omega
    unfold Fam.burnt_pancake Families.burntPancake
    rw [ha, if_neg hn]
    rfl

theorem burnt_pancake_gen_neg (n : Int) (h : n < 0) : Fam.burnt_pancake n = none := by
  have ha : decide (n ≥ 1) = false := by simp; omega
  unfold Fam.burnt_pancake
  rw [ha]; rfl

end Cv.PyG3
