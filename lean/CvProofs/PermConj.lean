/-
  Cycle types and the conjugacy-class enumeration `permutations_with_cycle_lenghts`.  Core Lean only.
-/
import CvProofs.Perm
namespace Cv.Perm

/-! ### a structurally recursive sort equal to `mergeSort` (so that the kernel can evaluate) -/

def insertSorted (a : Nat) : List Nat → List Nat
  | [] => [a]
  | b :: t => if a ≤ b then a :: b :: t else b :: insertSorted a t

def isort : List Nat → List Nat
  | [] => []
  | a :: t => insertSorted a (isort t)

theorem insertSorted_perm (a : Nat) (l : List Nat) : (insertSorted a l).Perm (a :: l) := by
  induction l with
  | nil => exact List.Perm.refl _
  | cons b t ih =>
    simp only [insertSorted]
    split
    · exact List.Perm.refl _
    · exact (ih.cons b).trans (List.Perm.swap a b t)

theorem isort_perm (l : List Nat) : (isort l).Perm l := by
  induction l with
  | nil => exact List.Perm.refl _
  | cons a t ih => exact (insertSorted_perm a _).trans (ih.cons a)

theorem insertSorted_sorted (a : Nat) (l : List Nat) (h : l.Pairwise (· ≤ ·)) :
    (insertSorted a l).Pairwise (· ≤ ·) := by
  induction l with
  | nil => simp [insertSorted]
  | cons b t ih =>
    simp only [insertSorted]
    rw [List.pairwise_cons] at h
    split
    · rename_i hab
      refine List.pairwise_cons.2 ⟨?_, List.pairwise_cons.2 h⟩
      intro x hx
      rcases List.mem_cons.1 hx with rfl | hx
      · exact hab
      · exact Nat.le_trans hab (h.1 x hx)
    · rename_i hab
      refine List.pairwise_cons.2 ⟨?_, ih h.2⟩
      intro x hx
      rcases List.mem_cons.1 ((insertSorted_perm a t).subset hx) with rfl | hx
      · omega
      · exact h.1 x hx

theorem isort_sorted (l : List Nat) : (isort l).Pairwise (· ≤ ·) := by
  induction l with
  | nil => exact List.Pairwise.nil
  | cons a t ih => exact insertSorted_sorted a _ ih

theorem mergeSort_sorted (l : List Nat) : (l.mergeSort (fun a b => decide (a ≤ b))).Pairwise (· ≤ ·) := by
  have := List.pairwise_mergeSort (le := fun a b : Nat => decide (a ≤ b))
    (by intro a b c; simp; omega) (by intro a b; simp; omega) l
  simpa using this

theorem mergeSort_eq_isort (l : List Nat) : l.mergeSort (fun a b => decide (a ≤ b)) = isort l :=
  ((List.mergeSort_perm l _).trans (isort_perm l).symm).eq_of_pairwise
    (fun _ _ _ _ h1 h2 => Nat.le_antisymm h1 h2) (mergeSort_sorted l) (isort_sorted l)

/-- sorting is invariant under rearrangement -/
theorem mergeSort_eq_of_perm {l l' : List Nat} (h : l.Perm l') :
    l.mergeSort (fun a b => decide (a ≤ b)) = l'.mergeSort (fun a b => decide (a ≤ b)) :=
  ((List.mergeSort_perm l _).trans (h.trans (List.mergeSort_perm l' _).symm)).eq_of_pairwise
    (fun _ _ _ _ h1 h2 => Nat.le_antisymm h1 h2) (mergeSort_sorted l) (mergeSort_sorted l')

/-! ### kernel-evaluable mirrors of `counterOf`, `permutationsWithCycleLengths`, `cycleType` -/

def counterOf' (l : List Nat) : Counter :=
  let s := isort l
  s.eraseDups.map fun k => (k, s.count k)

theorem counterOf_eq (l : List Nat) : counterOf l = counterOf' l := by
  simp only [counterOf, counterOf', mergeSort_eq_isort]

def permutationsWithCycleLengths' (n : Nat) (cycleLengths : List Nat) : Option (List (List Nat)) :=
  if n < 1 ∨ cycleLengths.any (· < 1) ∨ cycleLengths.sum ≠ n then none
  else
    some ((backtrack (cycleLengths.length + 1) none (List.range n) (counterOf' cycleLengths)).map
      (cyclesToPerm n))

theorem permutationsWithCycleLengths_eq (n : Nat) (l : List Nat) :
    permutationsWithCycleLengths n l = permutationsWithCycleLengths' n l := by
  simp only [permutationsWithCycleLengths, permutationsWithCycleLengths', counterOf_eq]

/-- the unsorted list of cycle lengths found by `cycleType` -/
def cycleLens (p : List Nat) : List Nat :=
  ((List.range p.length).foldl (fun (acc : List Nat × List Nat) i =>
      if acc.1.contains i then acc
      else
        let c := cycleOf p i (p.length + 1)
        (acc.1 ++ c, acc.2 ++ [c.length])) ([], [])).2

theorem cycleType_eq (p : List Nat) :
    cycleType p = (cycleLens p).mergeSort (fun a b => decide (a ≤ b)) := rfl

theorem cycleType_eq_isort (p : List Nat) : cycleType p = isort (cycleLens p) := by
  rw [cycleType_eq, mergeSort_eq_isort]

/-- all results are permutations of `n` with cycle type `lens` (Bool, kernel-evaluable) -/
def checkClass (n : Nat) (lens : List Nat) (count : Nat) : Bool :=
  match permutationsWithCycleLengths' n lens with
  | none => false
  | some ps =>
    ps.length == count && decide ps.Nodup &&
      ps.all fun p => decide (IsPermOf n p) && isort (cycleLens p) == isort lens

/-- what a successful `checkClass` means for the model functions -/
theorem checkClass_sound (n : Nat) (lens : List Nat) (count : Nat) (h : checkClass n lens count = true) :
    ∃ ps, permutationsWithCycleLengths n lens = some ps ∧ ps.length = count ∧ ps.Nodup ∧
      ∀ p ∈ ps, IsPermOf n p ∧ cycleType p = lens.mergeSort (fun a b => decide (a ≤ b)) := by
  unfold checkClass at h
  split at h
  · simp at h
  · rename_i ps hps
    simp only [Bool.and_eq_true, beq_iff_eq, decide_eq_true_eq, List.all_eq_true] at h
    obtain ⟨⟨h1, h2⟩, h3⟩ := h
    refine ⟨ps, by rw [permutationsWithCycleLengths_eq, hps], h1, h2, ?_⟩
    intro p hp
    obtain ⟨g1, g2⟩ := h3 p hp
    exact ⟨g1, by rw [cycleType_eq_isort, mergeSort_eq_isort, g2]⟩


/-! ### `cycleOf` on a cycle -/

/-- `c` (as a cyclic sequence) is a cycle of `p` -/
structure CycleOn (p c : List Nat) : Prop where
  ne : c ≠ []
  nodup : c.Nodup
  step : ∀ i, i < c.length → p.getD (c.getD i 0) 0 = c.getD ((i + 1) % c.length) 0

/-- `c` rotated to start at index `j` -/
def rot (c : List Nat) (j : Nat) : List Nat :=
  (List.range c.length).map fun s => c.getD ((j + s) % c.length) 0

@[simp] theorem length_rot (c : List Nat) (j : Nat) : (rot c j).length = c.length := by simp [rot]

theorem add_mod_cases (j s L : Nat) (hj : j < L) (hs : s < L) :
    (j + s) % L = if j + s < L then j + s else j + s - L := by
  split
  · rename_i h; exact Nat.mod_eq_of_lt h
  · rename_i h
    rw [Nat.mod_eq_sub_mod (by omega)]
    exact Nat.mod_eq_of_lt (by omega)

theorem mem_rot (c : List Nat) (j : Nat) (hj : j < c.length) (x : Nat) : x ∈ rot c j ↔ x ∈ c := by
  simp only [rot, List.mem_map, List.mem_range]
  constructor
  · rintro ⟨s, hs, rfl⟩
    have : (j + s) % c.length < c.length := Nat.mod_lt _ (by omega)
    rw [getD_eq_getElem this]; exact List.getElem_mem _
  · intro hx
    obtain ⟨i, hi, rfl⟩ := List.getElem_of_mem hx
    by_cases hij : j ≤ i
    · refine ⟨i - j, by omega, ?_⟩
      rw [add_mod_cases j (i - j) _ hj (by omega), if_pos (by omega)]
      rw [getD_eq_getElem (by omega)]; congr 1; omega
    · refine ⟨i + c.length - j, by omega, ?_⟩
      rw [add_mod_cases j _ _ hj (by omega), if_neg (by omega)]
      rw [getD_eq_getElem (by omega)]; congr 1; omega

theorem go_unfold (p : List Nat) (start f cur : Nat) (acc : List Nat) :
    cycleOf.go p start (f+1) cur acc =
      if cur = start then acc.reverse else cycleOf.go p start f (p.getD cur 0) (cur :: acc) := rfl

theorem go_spec (p c : List Nat) (hc : CycleOn p c) (j : Nat) (hj : j < c.length) :
    ∀ (d t f : Nat) (acc : List Nat), t + d = c.length → 1 ≤ t → d + 1 ≤ f →
      cycleOf.go p (c.getD j 0) f (c.getD ((j + t) % c.length) 0) acc =
        acc.reverse ++ (List.range' t d).map (fun s => c.getD ((j + s) % c.length) 0) := by
  intro d
  induction d with
  | zero =>
    intro t f acc ht h1 hf
    obtain ⟨f', rfl⟩ : ∃ f', f = f' + 1 := ⟨f - 1, by omega⟩
    have : (j + t) % c.length = j := by
      have : t = c.length := by omega
      rw [this, Nat.add_mod_right, Nat.mod_eq_of_lt hj]
    rw [go_unfold, this, if_pos rfl]; simp
  | succ d ih =>
    intro t f acc ht h1 hf
    obtain ⟨f', rfl⟩ : ∃ f', f = f' + 1 := ⟨f - 1, by omega⟩
    have hlt : (j + t) % c.length < c.length := Nat.mod_lt _ (by omega)
    have hne : c.getD ((j + t) % c.length) 0 ≠ c.getD j 0 := by
      intro e
      have := (List.getD_inj (fallback := 0) hlt hj hc.nodup).1 e
      rw [add_mod_cases j t _ hj (by omega)] at this
      split at this <;> omega
    rw [go_unfold, if_neg hne, hc.step _ hlt, Nat.mod_add_mod, Nat.add_assoc]
    rw [ih (t + 1) f' _ (by omega) (by omega) (by omega)]
    rw [List.range'_succ]
    simp

theorem cycleOf_spec (p c : List Nat) (hc : CycleOn p c) (j : Nat) (hj : j < c.length) (f : Nat)
    (hf : c.length ≤ f) : cycleOf p (c.getD j 0) (f + 1) = rot c j := by
  rw [cycleOf.eq_2, hc.step j hj]
  rw [go_spec p c hc j hj (c.length - 1) 1 f [] (by omega) (by omega) (by omega)]
  obtain ⟨L', hL⟩ : ∃ L', c.length = L' + 1 := ⟨c.length - 1, by
    have := List.length_pos_iff.2 hc.ne; omega⟩
  simp only [rot, List.range_eq_range']
  rw [hL] at hj ⊢
  rw [List.range'_succ]
  simp [Nat.mod_eq_of_lt hj]


/-! ### `cycleType` of a permutation with a known cycle decomposition -/

theorem eq_of_mem_of_flatten_nodup {cs : List (List Nat)} (h : cs.flatten.Nodup) {c c' : List Nat}
    (hc : c ∈ cs) (hc' : c' ∈ cs) {x : Nat} (hx : x ∈ c) (hx' : x ∈ c') : c = c' := by
  induction cs with
  | nil => simp at hc
  | cons c0 t ih =>
    rw [List.flatten_cons, List.nodup_append] at h
    obtain ⟨_, h2, h3⟩ := h
    rcases List.mem_cons.1 hc with e1 | g1 <;> rcases List.mem_cons.1 hc' with e2 | g2
    · rw [e1, e2]
    · subst e1; exact absurd rfl (h3 x hx x (List.mem_flatten.2 ⟨c', g2, hx'⟩))
    · subst e2; exact absurd rfl (h3 x hx' x (List.mem_flatten.2 ⟨c, g1, hx⟩))
    · exact ih h2 g1 g2

theorem nodup_of_flatten_nodup {cs : List (List Nat)} (h : cs.flatten.Nodup)
    (hne : ∀ c ∈ cs, c ≠ []) : cs.Nodup := by
  induction cs with
  | nil => exact List.nodup_nil
  | cons c0 t ih =>
    rw [List.flatten_cons, List.nodup_append] at h
    obtain ⟨_, h2, h3⟩ := h
    rw [List.nodup_cons]
    refine ⟨?_, ih h2 (fun c hc => hne c (by simp [hc]))⟩
    intro hmem
    cases hc0 : c0 with
    | nil => exact hne c0 (by simp) hc0
    | cons x _ =>
      have hx : x ∈ c0 := by rw [hc0]; simp
      exact h3 x hx x (List.mem_flatten.2 ⟨c0, hmem, hx⟩) rfl

/-- `cs` is a decomposition of `p` into disjoint cycles covering `0..n-1` -/
structure IsCycleDecomp (p : List Nat) (cs : List (List Nat)) : Prop where
  nodup : cs.flatten.Nodup
  cover : ∀ k, k < p.length → k ∈ cs.flatten
  lt : ∀ k ∈ cs.flatten, k < p.length
  cyc : ∀ c ∈ cs, CycleOn p c

/-- the loop body of `cycleType` -/
def ctStep (p : List Nat) (acc : List Nat × List Nat) (i : Nat) : List Nat × List Nat :=
  if acc.1.contains i then acc
  else
    let c := cycleOf p i (p.length + 1)
    (acc.1 ++ c, acc.2 ++ [c.length])

theorem cycleLens_eq (p : List Nat) :
    cycleLens p = ((List.range p.length).foldl (ctStep p) ([], [])).2 := rfl

theorem IsCycleDecomp.length_le {p : List Nat} {cs : List (List Nat)} (h : IsCycleDecomp p cs)
    {c : List Nat} (hc : c ∈ cs) : c.length ≤ p.length := by
  have hsub : c ⊆ List.range p.length := by
    intro x hx
    exact List.mem_range.2 (h.lt x (List.mem_flatten.2 ⟨c, hc, hx⟩))
  simpa using (h.cyc c hc).nodup.length_le_of_subset hsub

theorem ct_inv (p : List Nat) (cs : List (List Nat)) (h : IsCycleDecomp p cs) (i : Nat)
    (hi : i ≤ p.length) :
    ∃ D : List (List Nat), D.Nodup ∧ (∀ c ∈ D, c ∈ cs) ∧
      (∀ x, x ∈ ((List.range i).foldl (ctStep p) ([], [])).1 ↔ ∃ c ∈ D, x ∈ c) ∧
      ((List.range i).foldl (ctStep p) ([], [])).2 = D.map List.length ∧
      (∀ k, k < i → k ∈ ((List.range i).foldl (ctStep p) ([], [])).1) := by
  induction i with
  | zero => exact ⟨[], List.nodup_nil, by simp, by simp, by simp, by simp⟩
  | succ i ih =>
    obtain ⟨D, hD1, hD2, hD3, hD4, hD5⟩ := ih (by omega)
    rw [List.range_succ, List.foldl_append, List.foldl_cons, List.foldl_nil]
    generalize (List.range i).foldl (ctStep p) ([], []) = st at hD3 hD4 hD5
    unfold ctStep
    by_cases hmem : i ∈ st.1
    · have : st.1.contains i = true := by simpa using hmem
      rw [if_pos this]
      refine ⟨D, hD1, hD2, hD3, hD4, ?_⟩
      intro k hk
      by_cases hki : k = i
      · subst hki; exact hmem
      · exact hD5 k (by omega)
    · have : ¬ (st.1.contains i = true) := by simpa using hmem
      rw [if_neg this]
      obtain ⟨c, hc, hic⟩ := List.mem_flatten.1 (h.cover i (by omega))
      obtain ⟨j, hj, hji⟩ := List.getElem_of_mem hic
      have hcD : c ∉ D := fun hcD => hmem ((hD3 i).2 ⟨c, hcD, hic⟩)
      have hcyc : cycleOf p i (p.length + 1) = rot c j := by
        have := cycleOf_spec p c (h.cyc c hc) j hj p.length (h.length_le hc)
        rwa [getD_eq_getElem hj, hji] at this
      simp only [hcyc, length_rot]
      refine ⟨D ++ [c], ?_, ?_, ?_, ?_, ?_⟩
      · rw [List.nodup_append]
        refine ⟨hD1, by simp, ?_⟩
        intro a ha b hb e
        simp only [List.mem_singleton] at hb
        subst hb; subst e; exact hcD ha
      · intro c' hc'
        rcases List.mem_append.1 hc' with hc' | hc'
        · exact hD2 c' hc'
        · simp only [List.mem_singleton] at hc'; subst hc'; exact hc
      · intro x
        simp only [List.mem_append, mem_rot c j hj, hD3, List.mem_singleton]
        constructor
        · rintro (⟨c', h1, h2⟩ | h1)
          · exact ⟨c', Or.inl h1, h2⟩
          · exact ⟨c, Or.inr rfl, h1⟩
        · rintro ⟨c', (h1 | h1), h2⟩
          · exact Or.inl ⟨c', h1, h2⟩
          · subst h1; exact Or.inr h2
      · simp [hD4]
      · intro k hk
        simp only [List.mem_append, mem_rot c j hj]
        by_cases hki : k = i
        · subst hki; exact Or.inr hic
        · exact Or.inl (hD5 k (by omega))

/-- the cycle lengths found by `cycleType` are the lengths of any cycle decomposition, up to order -/
theorem cycleLens_perm (p : List Nat) (cs : List (List Nat)) (h : IsCycleDecomp p cs) :
    (cycleLens p).Perm (cs.map List.length) := by
  obtain ⟨D, hD1, hD2, hD3, hD4, hD5⟩ := ct_inv p cs h p.length (Nat.le_refl _)
  rw [cycleLens_eq, hD4]
  apply List.Perm.map
  have hne : ∀ c ∈ cs, c ≠ [] := fun c hc => (h.cyc c hc).ne
  rw [List.perm_ext_iff_of_nodup hD1 (nodup_of_flatten_nodup h.nodup hne)]
  intro c
  constructor
  · exact hD2 c
  · intro hc
    cases hc0 : c with
    | nil => exact absurd hc0 (hne c hc)
    | cons x t =>
      have hx : x ∈ c := by rw [hc0]; simp
      have hxlt := h.lt x (List.mem_flatten.2 ⟨c, hc, hx⟩)
      obtain ⟨c', hc'D, hxc'⟩ := (hD3 x).1 (hD5 x hxlt)
      have := eq_of_mem_of_flatten_nodup h.nodup hc (hD2 c' hc'D) hx hxc'
      rw [← hc0, this]; exact hc'D

theorem cycleType_of_decomp (p : List Nat) (cs : List (List Nat)) (h : IsCycleDecomp p cs) :
    cycleType p = (cs.map List.length).mergeSort (fun a b => decide (a ≤ b)) := by
  rw [cycleType_eq]
  exact mergeSort_eq_of_perm (cycleLens_perm p cs h)


/-! ### writing a list of cycles (`cyclesToPerm`, `partitionToPermutation`) -/

/-- all assignments `arr[c[i]] = c[(i+1) % len]` for a list of cycles -/
def cyclesW (cs : List (List Nat)) : List (Nat × Nat) := cs.flatMap fun c => blockW c c.length

theorem cyclesW_map_fst (cs : List (List Nat)) : (cyclesW cs).map (·.1) = cs.flatten := by
  induction cs with
  | nil => rfl
  | cons c t ih =>
    simp only [cyclesW, List.flatMap_cons, List.map_append, List.flatten_cons] at ih ⊢
    rw [ih, blockW_map_fst]

theorem cyclesW_map_snd_perm (cs : List (List Nat)) : ((cyclesW cs).map (·.2)).Perm cs.flatten := by
  induction cs with
  | nil => exact List.Perm.refl _
  | cons c t ih =>
    simp only [cyclesW, List.flatMap_cons, List.map_append, List.flatten_cons] at ih ⊢
    exact (blockW_map_snd_perm c).append ih

theorem mem_cyclesW (cs : List (List Nat)) (c : List Nat) (hc : c ∈ cs) (i : Nat) (hi : i < c.length) :
    (c.getD i 0, c.getD ((i + 1) % c.length) 0) ∈ cyclesW cs := by
  simp only [cyclesW, List.mem_flatMap, blockW, List.mem_map, List.mem_range]
  exact ⟨c, hc, i, hi, rfl⟩

/-- generic: if the written positions and the written values are both arrangements of `0..n-1`,
the result is a permutation -/
theorem writeAll_isPerm (n : Nat) (W : List (Nat × Nat)) (P : List Nat) (hP : P.length = n)
    (hfst : (W.map (·.1)).Perm (List.range n)) (hsnd : (W.map (·.2)).Perm (List.range n)) :
    IsPermOf n (writeAll W P) := by
  apply isPermOf_of_surj (by simp [hP])
  intro k hk
  have hk2 : k ∈ W.map (·.2) := hsnd.symm.subset (List.mem_range.2 hk)
  obtain ⟨w, hw, rfl⟩ := List.mem_map.1 hk2
  have hlt : ∀ w' ∈ W, w'.1 < n := fun w' hw' =>
    List.mem_range.1 (hfst.subset (List.mem_map_of_mem (f := (·.1)) hw'))
  have := writeAll_getD_of_mem W P (hfst.nodup_iff.2 List.nodup_range)
    (by intro w' hw'; rw [hP]; exact hlt w' hw') w hw
  rw [← this, getD_eq_getElem (by simpa [hP] using hlt w hw)]
  exact List.getElem_mem _

theorem writeAll_cycles (n : Nat) (cs : List (List Nat)) (P : List Nat) (hP : P.length = n)
    (hperm : cs.flatten.Perm (List.range n)) (hne : ∀ c ∈ cs, c ≠ []) :
    IsPermOf n (writeAll (cyclesW cs) P) ∧ IsCycleDecomp (writeAll (cyclesW cs) P) cs := by
  have hnd : cs.flatten.Nodup := hperm.nodup_iff.2 List.nodup_range
  have hlt : ∀ k ∈ cs.flatten, k < n := fun k hk => List.mem_range.1 (hperm.subset hk)
  refine ⟨writeAll_isPerm n _ P hP (by rw [cyclesW_map_fst]; exact hperm)
    ((cyclesW_map_snd_perm cs).trans hperm), ?_⟩
  refine ⟨hnd, ?_, ?_, ?_⟩
  · intro k hk
    rw [length_writeAll, hP] at hk
    exact hperm.symm.subset (List.mem_range.2 hk)
  · intro k hk; rw [length_writeAll, hP]; exact hlt k hk
  · intro c hc
    have hcnd : c.Nodup := by
      have := List.sublist_flatten_of_mem hc
      exact this.nodup hnd
    refine ⟨hne c hc, hcnd, ?_⟩
    intro i hi
    exact writeAll_getD_of_mem (cyclesW cs) P (by rw [cyclesW_map_fst]; exact hnd)
      (by intro w hw
          rw [hP]; apply hlt
          rw [← cyclesW_map_fst]; exact List.mem_map_of_mem (f := (·.1)) hw)
      _ (mem_cyclesW cs c hc i hi)

/-- the blocks cut out of `els` by `partitionToPermutation` -/
def blocks (els : List Nat) : List Nat → Nat → List (List Nat)
  | [], _ => []
  | size :: t, off => (els.drop off).take size :: blocks els t (off + size)

theorem blocks_spec (els lens : List Nat) (off : Nat) (h : off + lens.sum ≤ els.length) :
    ptpWrites els lens off = cyclesW (blocks els lens off) ∧
    (blocks els lens off).map List.length = lens ∧
    (blocks els lens off).flatten = (els.drop off).take lens.sum := by
  induction lens generalizing off with
  | nil => simp [ptpWrites, blocks, cyclesW]
  | cons size t ih =>
    simp only [List.sum_cons] at h
    have hl : ((els.drop off).take size).length = size := by simp; omega
    obtain ⟨i1, i2, i3⟩ := ih (off + size) (by omega)
    refine ⟨?_, ?_, ?_⟩
    · simp only [ptpWrites, blocks, cyclesW, List.flatMap_cons, hl]
      rw [i1]; rfl
    · simp only [blocks, List.map_cons, hl, i2]
    · simp only [blocks, List.flatten_cons, i3, List.sum_cons]
      rw [List.take_add, List.drop_drop]

theorem partitionToPermutation_type (lens : List Nat) (hpos : ∀ k ∈ lens, 1 ≤ k) (els : List Nat)
    (hels : els.Perm (List.range lens.sum)) :
    IsPermOf lens.sum (partitionToPermutation lens els) ∧
    cycleType (partitionToPermutation lens els) = lens.mergeSort (fun a b => decide (a ≤ b)) := by
  refine ⟨partitionToPermutation_isPerm lens els hels, ?_⟩
  have hlen : els.length = lens.sum := by simpa using hels.length_eq
  obtain ⟨h1, h2, h3⟩ := blocks_spec els lens 0 (by omega)
  rw [partitionToPermutation_eq, ptp_foldl]
  simp only [List.drop_zero] at h3
  rw [← hlen, List.take_length] at h3
  simp only [h1]
  have hne : ∀ c ∈ blocks els lens 0, c ≠ [] := by
    intro c hc e
    have : c.length ∈ (blocks els lens 0).map List.length := List.mem_map_of_mem hc
    rw [h2] at this
    have := hpos _ this
    rw [e] at this; simp at this
  have := (writeAll_cycles lens.sum (blocks els lens 0) (List.replicate lens.sum 0) (by simp)
    (by rw [h3]; exact hels) hne).2
  rw [cycleType_of_decomp _ _ this, h2]


/-! ### `combinations`, `picks`, `permsOf` -/

theorem combinations_spec {β : Type} (l : List β) (k : Nat) (comb : List β)
    (h : comb ∈ combinations l k) : comb.Sublist l ∧ comb.length = k := by
  induction l generalizing k comb with
  | nil =>
    cases k with
    | zero => simp [combinations] at h; subst h; exact ⟨List.Sublist.refl _, rfl⟩
    | succ k => simp [combinations] at h
  | cons a t ih =>
    cases k with
    | zero => simp [combinations] at h; subst h; exact ⟨List.nil_sublist _, rfl⟩
    | succ k =>
      simp only [combinations, List.mem_append, List.mem_map] at h
      rcases h with ⟨c', hc', rfl⟩ | h
      · obtain ⟨h1, h2⟩ := ih k c' hc'
        exact ⟨h1.cons_cons a, by simp [h2]⟩
      · obtain ⟨h1, h2⟩ := ih (k+1) comb h
        exact ⟨h1.cons a, h2⟩

theorem picks_spec {β : Type} (l : List β) (a : β) (r : List β) (h : (a, r) ∈ picks l) :
    l.Perm (a :: r) := by
  induction l generalizing a r with
  | nil => simp [picks] at h
  | cons b t ih =>
    simp only [picks, List.mem_cons, List.mem_map] at h
    rcases h with h | ⟨⟨a', r'⟩, hp, e⟩
    · simp only [Prod.mk.injEq] at h
      obtain ⟨rfl, rfl⟩ := h
      exact List.Perm.refl _
    · simp only [Prod.mk.injEq] at e
      obtain ⟨rfl, rfl⟩ := e
      exact ((ih a' r' hp).cons b).trans (List.Perm.swap a' b r')

theorem permsOf_spec {β : Type} (fuel : Nat) (l order : List β) (hf : l.length ≤ fuel)
    (h : order ∈ permsOf fuel l) : order.Perm l := by
  induction fuel generalizing l order with
  | zero =>
    have : l = [] := by simpa using hf
    subst this
    simp [permsOf] at h; subst h; exact List.Perm.refl _
  | succ fuel ih =>
    simp only [permsOf] at h
    split at h
    · rename_i he
      have : l = [] := by simpa using he
      subst this
      simp at h; subst h; exact List.Perm.refl _
    · simp only [List.mem_flatMap, List.mem_map] at h
      obtain ⟨⟨a, r⟩, hp, o', ho', rfl⟩ := h
      have hperm := picks_spec l a r hp
      have hlen : r.length ≤ fuel := by
        have := hperm.length_eq; simp at this; omega
      exact ((ih r o' hlen ho').cons a).trans hperm.symm

/-! ### the multiset of remaining cycle lengths -/

/-- the multiset represented by a counter -/
def expand (c : Counter) : List Nat := c.flatMap fun p => List.replicate p.2 p.1

/-- keys are distinct and all counts are positive -/
def CounterOK (c : Counter) : Prop := (c.map (·.1)).Nodup ∧ ∀ p ∈ c, 1 ≤ p.2

theorem counterDec_cons (p : Nat × Nat) (t : Counter) (k : Nat) :
    counterDec (p :: t) k =
      if p.1 = k then (if p.2 ≤ 1 then counterDec t k else (k, p.2 - 1) :: counterDec t k)
      else p :: counterDec t k := by
  unfold counterDec
  rw [List.filterMap_cons]
  by_cases h1 : p.1 = k
  · by_cases h2 : p.2 ≤ 1 <;> simp [h1, h2]
  · simp [h1]

theorem counterDec_of_not_mem (t : Counter) (k : Nat) (h : ∀ q ∈ t, q.1 ≠ k) :
    counterDec t k = t := by
  induction t with
  | nil => rfl
  | cons p t ih =>
    rw [counterDec_cons, if_neg (h p (by simp)), ih (fun q hq => h q (by simp [hq]))]

theorem counterDec_keys (c : Counter) (k : Nat) (q : Nat × Nat) (hq : q ∈ counterDec c k) :
    q.1 ∈ c.map (·.1) := by
  induction c with
  | nil => simp [counterDec] at hq
  | cons p t ih =>
    rw [counterDec_cons] at hq
    simp only [List.map_cons, List.mem_cons]
    split at hq
    · rename_i h1
      split at hq
      · exact Or.inr (ih hq)
      · rcases List.mem_cons.1 hq with rfl | hq
        · exact Or.inl h1.symm
        · exact Or.inr (ih hq)
    · rcases List.mem_cons.1 hq with rfl | hq
      · exact Or.inl rfl
      · exact Or.inr (ih hq)

theorem expand_cons (p : Nat × Nat) (t : Counter) :
    expand (p :: t) = List.replicate p.2 p.1 ++ expand t := by
  simp [expand, List.flatMap_cons]

theorem counterDec_spec (c : Counter) (k m : Nat) (hok : CounterOK c) (hk : (k, m) ∈ c) :
    CounterOK (counterDec c k) ∧ (k :: expand (counterDec c k)).Perm (expand c) := by
  induction c with
  | nil => simp at hk
  | cons p t ih =>
    obtain ⟨hnd, hpos⟩ := hok
    rw [List.map_cons, List.nodup_cons] at hnd
    have hokt : CounterOK t := ⟨hnd.2, fun q hq => hpos q (by simp [hq])⟩
    rw [counterDec_cons, expand_cons]
    by_cases hpk : p.1 = k
    · -- the decremented entry is the head; the tail has no key `k`
      have htail : counterDec t k = t := by
        apply counterDec_of_not_mem
        intro q hq e
        exact hnd.1 (by rw [hpk, ← e]; exact List.mem_map_of_mem (f := (·.1)) hq)
      have hp1 := hpos p (by simp)
      rw [if_pos hpk, htail]
      by_cases hle : p.2 ≤ 1
      · rw [if_pos hle]
        refine ⟨hokt, ?_⟩
        have : p.2 = 1 := by omega
        simp [this, hpk]
      · rw [if_neg hle]
        refine ⟨⟨?_, ?_⟩, ?_⟩
        · rw [List.map_cons, List.nodup_cons]; rw [hpk] at hnd; exact hnd
        · intro q hq
          rcases List.mem_cons.1 hq with rfl | hq
          · simp only; omega
          · exact hpos q (by simp [hq])
        · rw [expand_cons, ← List.cons_append, ← List.replicate_succ, hpk]
          have : p.2 - 1 + 1 = p.2 := by omega
          rw [this]
    · have hkt : (k, m) ∈ t := by
        rcases List.mem_cons.1 hk with rfl | h
        · exact absurd rfl hpk
        · exact h
      obtain ⟨⟨i1, i2⟩, i3⟩ := ih hokt hkt
      rw [if_neg hpk]
      refine ⟨⟨?_, ?_⟩, ?_⟩
      · rw [List.map_cons, List.nodup_cons]
        refine ⟨?_, i1⟩
        intro hmem
        obtain ⟨q, hq, e⟩ := List.mem_map.1 hmem
        apply hnd.1
        rw [← e]; exact counterDec_keys t k q hq
      · intro q hq
        rcases List.mem_cons.1 hq with rfl | hq
        · exact hpos q (by simp)
        · exact i2 q hq
      · rw [expand_cons]
        have h1 : (k :: (List.replicate p.2 p.1 ++ expand (counterDec t k))).Perm
            (List.replicate p.2 p.1 ++ k :: expand (counterDec t k)) := List.perm_middle.symm
        exact h1.trans (List.Perm.append_left _ i3)


theorem nodup_eraseDups (l : List Nat) : l.eraseDups.Nodup := by
  generalize hn : l.length = n
  induction n using Nat.strongRecOn generalizing l with
  | _ n ih =>
    cases l with
    | nil => simp
    | cons a t =>
      rw [List.eraseDups_cons, List.nodup_cons]
      constructor
      · intro h
        rw [List.mem_eraseDups, List.mem_filter] at h
        simp at h
      · have hlen : (t.filter fun b => !b == a).length < n := by
          have := List.length_filter_le (fun b => !b == a) t
          simp at hn; omega
        exact ih _ hlen _ rfl

theorem count_flatMap_replicate (K : List Nat) (g : Nat → Nat) (hK : K.Nodup) (x : Nat) :
    List.count x (K.flatMap fun k => List.replicate (g k) k) = if x ∈ K then g x else 0 := by
  induction K with
  | nil => simp
  | cons k t ih =>
    rw [List.nodup_cons] at hK
    rw [List.flatMap_cons, List.count_append, ih hK.2, List.count_replicate]
    by_cases hxk : k = x
    · subst hxk
      simp [hK.1]
    · have : (k == x) = false := by simpa using hxk
      have hxk' : ¬ x = k := fun e => hxk e.symm
      simp [this, hxk']

theorem counterOf_spec (l : List Nat) : CounterOK (counterOf l) ∧ (expand (counterOf l)).Perm l := by
  have hs : (l.mergeSort (fun a b => decide (a ≤ b))).Perm l := List.mergeSort_perm l _
  unfold counterOf
  generalize l.mergeSort (fun a b => decide (a ≤ b)) = s at hs
  simp only
  refine ⟨⟨?_, ?_⟩, ?_⟩
  · rw [List.map_map]
    have : ((fun x : Nat × Nat => x.1) ∘ fun k => (k, List.count k s)) = id := by funext k; rfl
    rw [this, List.map_id]
    exact nodup_eraseDups s
  · intro p hp
    obtain ⟨k, hk, rfl⟩ := List.mem_map.1 hp
    rw [List.mem_eraseDups] at hk
    exact List.count_pos_iff.2 hk
  · refine List.Perm.trans ?_ hs
    rw [List.perm_iff_count]
    intro x
    have : expand (s.eraseDups.map fun k => (k, List.count k s)) =
        s.eraseDups.flatMap fun k => List.replicate (List.count k s) k := by
      simp [expand, List.flatMap_map]
    rw [this, count_flatMap_replicate _ _ (nodup_eraseDups s)]
    by_cases hx : x ∈ s
    · simp [hx]
    · simp [hx, List.count_eq_zero_of_not_mem hx]


/-! ### soundness of `backtrack` -/

theorem filter_not_mem_perm (available cycle : List Nat) (hnd : available.Nodup)
    (hcnd : cycle.Nodup) (hsub : cycle ⊆ available) :
    (cycle ++ available.filter fun x => !cycle.contains x).Perm available := by
  rw [List.perm_ext_iff_of_nodup _ hnd]
  · intro x
    simp only [List.mem_append, List.mem_filter, Bool.not_eq_true']
    constructor
    · rintro (h | ⟨h, _⟩)
      · exact hsub h
      · exact h
    · intro h
      by_cases hc : x ∈ cycle
      · exact Or.inl hc
      · exact Or.inr ⟨h, by simpa using hc⟩
  · rw [List.nodup_append]
    refine ⟨hcnd, hnd.filter _, ?_⟩
    intro a ha b hb e
    subst e
    simp only [List.mem_filter, Bool.not_eq_true'] at hb
    simp at hb
    exact hb.2 ha

theorem mem_of_mem_ite_nil {α : Type} {c : Prop} [Decidable c] {X : List α} {x : α}
    (h : x ∈ (if c then [] else X)) : x ∈ X := by
  split at h
  · simp at h
  · exact h

theorem backtrack_sound (fuel : Nat) (last : Option Nat) (available : List Nat) (lengths : Counter)
    (hok : CounterOK lengths) (hnd : available.Nodup) (cycles : List (List Nat))
    (h : cycles ∈ backtrack fuel last available lengths) :
    cycles.flatten.Perm available ∧ (∀ c ∈ cycles, c ≠ []) ∧
      (cycles.map List.length).Perm (expand lengths) := by
  induction fuel generalizing last available lengths cycles with
  | zero => simp [backtrack] at h
  | succ fuel ih =>
    rw [backtrack] at h
    split at h
    · rename_i hle
      have hl : lengths = [] := by simpa using hle
      split at h
      · rename_i hae
        have ha : available = [] := by simpa using hae
        simp only [List.mem_singleton] at h
        subst h ha hl
        simp [expand]
      · simp at h
    · simp only [List.mem_flatMap] at h
      obtain ⟨⟨k, m⟩, hkm, comb, hcomb, h⟩ := h
      simp only at hcomb h
      obtain ⟨hsub, hclen⟩ := combinations_spec available k comb hcomb
      cases comb with
      | nil => simp at h
      | cons m1 rest =>
        simp only at h
        have h := mem_of_mem_ite_nil h
        · simp only [List.mem_flatMap, List.mem_map] at h
          obtain ⟨order, horder, tail, htail, rfl⟩ := h
          have hperm : (m1 :: order).Perm (m1 :: rest) :=
            (permsOf_spec rest.length rest order (Nat.le_refl _) horder).cons m1
          have hcnd : (m1 :: order).Nodup := hperm.nodup_iff.2 (hsub.nodup hnd)
          have hcsub : (m1 :: order) ⊆ available := fun x hx => hsub.subset (hperm.subset hx)
          obtain ⟨hdok, hdperm⟩ := counterDec_spec lengths k m hok hkm
          obtain ⟨i1, i2, i3⟩ := ih (some m1) _ _ hdok (hnd.filter _) tail htail
          refine ⟨?_, ?_, ?_⟩
          · rw [List.flatten_cons]
            exact (List.Perm.append_left _ i1).trans (filter_not_mem_perm available _ hnd hcnd hcsub)
          · intro c hc
            rcases List.mem_cons.1 hc with rfl | hc
            · simp
            · exact i2 c hc
          · rw [List.map_cons]
            have : (m1 :: order).length = k := by rw [hperm.length_eq]; exact hclen
            rw [this]
            exact (i3.cons k).trans hdperm


theorem cyclesToPerm_eq (n : Nat) (cycles : List (List Nat)) :
    cyclesToPerm n cycles = writeAll (cyclesW cycles) (List.range n) := by
  unfold cyclesToPerm
  generalize List.range n = P
  induction cycles generalizing P with
  | nil => rfl
  | cons c t ih =>
    rw [List.foldl_cons, ih]
    simp only [cyclesW, List.flatMap_cons, writeAll_append]
    congr 1
    simp [writeAll, blockW, List.foldl_map]

theorem conj_sound (n : Nat) (lens : List Nat) (ps : List (List Nat))
    (h : permutationsWithCycleLengths n lens = some ps) :
    ∀ p ∈ ps, IsPermOf n p ∧ cycleType p = lens.mergeSort (fun a b => decide (a ≤ b)) := by
  unfold permutationsWithCycleLengths at h
  split at h
  · simp at h
  · simp only [Option.some.injEq] at h
    subst h
    intro p hp
    obtain ⟨cycles, hc, rfl⟩ := List.mem_map.1 hp
    obtain ⟨hok, hexp⟩ := counterOf_spec lens
    obtain ⟨h1, h2, h3⟩ := backtrack_sound _ none (List.range n) _ hok List.nodup_range cycles hc
    rw [cyclesToPerm_eq]
    obtain ⟨g1, g2⟩ := writeAll_cycles n cycles (List.range n) (by simp) h1 h2
    refine ⟨g1, ?_⟩
    rw [cycleType_of_decomp _ _ g2]
    exact mergeSort_eq_of_perm (h3.trans hexp)


/-! ### duplicate-freeness of the enumeration -/

theorem nodup_flatMap' {α β : Type} (l : List α) (f : α → List β) (h1 : ∀ a ∈ l, (f a).Nodup)
    (h2 : l.Pairwise (fun a b => ∀ x ∈ f a, x ∉ f b)) : (l.flatMap f).Nodup := by
  induction l with
  | nil => simp
  | cons a t ih =>
    rw [List.pairwise_cons] at h2
    rw [List.flatMap_cons, List.nodup_append]
    refine ⟨h1 a (by simp), ih (fun b hb => h1 b (by simp [hb])) h2.2, ?_⟩
    intro x hx y hy e
    subst e
    obtain ⟨b, hb, hxb⟩ := List.mem_flatMap.1 hy
    exact h2.1 b hb x hx hxb

theorem nodup_map_cons {β : Type} (a : β) (l : List (List β)) (h : l.Nodup) :
    (l.map (a :: ·)).Nodup := by
  induction l with
  | nil => simp
  | cons x t ih =>
    rw [List.nodup_cons] at h
    rw [List.map_cons, List.nodup_cons]
    refine ⟨?_, ih h.2⟩
    intro hm
    obtain ⟨y, hy, e⟩ := List.mem_map.1 hm
    simp only [List.cons.injEq, true_and] at e
    subst e; exact h.1 hy

theorem combinations_nodup {β : Type} (l : List β) (k : Nat) (h : l.Nodup) :
    (combinations l k).Nodup := by
  induction l generalizing k with
  | nil => cases k <;> simp [combinations]
  | cons a t ih =>
    rw [List.nodup_cons] at h
    cases k with
    | zero => simp [combinations]
    | succ k =>
      simp only [combinations]
      rw [List.nodup_append]
      refine ⟨nodup_map_cons a _ (ih k h.2), ih (k+1) h.2, ?_⟩
      intro x hx y hy e
      subst e
      obtain ⟨z, _, rfl⟩ := List.mem_map.1 hx
      have := (combinations_spec t (k+1) _ hy).1
      exact h.1 (this.subset (by simp))

theorem picks_map_fst {β : Type} (l : List β) : (picks l).map (·.1) = l := by
  induction l with
  | nil => rfl
  | cons a t ih =>
    simp only [picks, List.map_cons, List.map_map]
    congr 1

theorem permsOf_nodup {β : Type} (fuel : Nat) (l : List β) (h : l.Nodup) : (permsOf fuel l).Nodup := by
  induction fuel generalizing l with
  | zero => simp [permsOf]
  | succ fuel ih =>
    simp only [permsOf]
    split
    · simp
    · apply nodup_flatMap'
      · intro p hp
        apply nodup_map_cons
        apply ih
        have := picks_spec l p.1 p.2 hp
        exact (List.nodup_cons.1 (this.nodup_iff.1 h)).2
      · have hp : ((picks l).map (·.1)).Nodup := by rw [picks_map_fst]; exact h
        rw [List.nodup_iff_pairwise_ne, List.pairwise_map] at hp
        apply hp.imp
        intro a b hab x hx hx'
        obtain ⟨y, _, rfl⟩ := List.mem_map.1 hx
        obtain ⟨z, _, e⟩ := List.mem_map.1 hx'
        simp only [List.cons.injEq] at e
        exact hab e.1.symm


theorem mem_of_mem_ite_nil' {α : Type} {c : Prop} [Decidable c] {X : List α} {x : α}
    (h : x ∈ (if c then [] else X)) : ¬ c ∧ x ∈ X := by
  split at h
  · simp at h
  · rename_i hc; exact ⟨hc, h⟩

/-- the innermost part of `backtrack`: all results whose first cycle uses the element set `comb` -/
def btG (fuel : Nat) (last : Option Nat) (available : List Nat) (lengths : Counter) (k : Nat)
    (comb : List Nat) : List (List (List Nat)) :=
  match comb with
  | [] => []
  | m :: rest =>
    if (match last with | none => false | some l => decide (m ≤ l)) then []
    else
      (permsOf rest.length rest).flatMap fun order =>
        (backtrack fuel (some m) (available.filter fun x => !(m :: order).contains x)
          (counterDec lengths k)).map fun tail => (m :: order) :: tail

theorem backtrack_succ (fuel : Nat) (last : Option Nat) (available : List Nat) (lengths : Counter) :
    backtrack (fuel+1) last available lengths =
      if lengths.isEmpty then (if available.isEmpty then [[]] else [])
      else lengths.flatMap fun p =>
        (combinations available p.1).flatMap (btG fuel last available lengths p.1) := by
  rw [backtrack]
  split
  · rfl
  · congr 1

theorem mem_btG {fuel : Nat} {last : Option Nat} {available : List Nat} {lengths : Counter} {k : Nat}
    {comb : List Nat} {x : List (List Nat)} (h : x ∈ btG fuel last available lengths k comb) :
    ∃ m rest order tail, comb = m :: rest ∧ order ∈ permsOf rest.length rest ∧
      (match last with | none => True | some l => l < m) ∧
      tail ∈ backtrack fuel (some m) (available.filter fun x => !(m :: order).contains x)
        (counterDec lengths k) ∧ x = (m :: order) :: tail := by
  unfold btG at h
  cases comb with
  | nil => simp at h
  | cons m rest =>
    simp only at h
    cases last with
    | none =>
      simp only [Bool.false_eq_true, if_false, List.mem_flatMap, List.mem_map] at h
      obtain ⟨order, ho, tail, ht, rfl⟩ := h
      exact ⟨m, rest, order, tail, rfl, ho, trivial, ht, rfl⟩
    | some l =>
      simp only at h
      have h := mem_of_mem_ite_nil' h
      obtain ⟨hc, h⟩ := h
      simp only [List.mem_flatMap, List.mem_map] at h
      obtain ⟨order, ho, tail, ht, rfl⟩ := h
      refine ⟨m, rest, order, tail, rfl, ho, ?_, ht, rfl⟩
      simp only
      simpa using hc


theorem mem_btG_of {fuel : Nat} {last : Option Nat} {available : List Nat} {lengths : Counter} {k : Nat}
    {m : Nat} {rest order : List Nat} {tail : List (List Nat)}
    (ho : order ∈ permsOf rest.length rest)
    (hl : match last with | none => True | some l => l < m)
    (ht : tail ∈ backtrack fuel (some m) (available.filter fun x => !(m :: order).contains x)
        (counterDec lengths k)) :
    (m :: order) :: tail ∈ btG fuel last available lengths k (m :: rest) := by
  unfold btG
  simp only
  cases last with
  | none =>
    simp only [Bool.false_eq_true, if_false, List.mem_flatMap, List.mem_map]
    exact ⟨order, ho, tail, ht, rfl⟩
  | some l =>
    simp only at hl ⊢
    rw [if_neg (by simpa using hl)]
    simp only [List.mem_flatMap, List.mem_map]
    exact ⟨order, ho, tail, ht, rfl⟩

theorem nodup_ite_nil {α : Type} {c : Prop} [Decidable c] {X : List α} (h : X.Nodup) :
    (if c then [] else X).Nodup := by
  split
  · simp
  · exact h

theorem backtrack_nodup (fuel : Nat) (last : Option Nat) (available : List Nat) (lengths : Counter)
    (hok : CounterOK lengths) (hs : available.Pairwise (· < ·)) :
    (backtrack fuel last available lengths).Nodup := by
  induction fuel generalizing last available lengths with
  | zero => simp [backtrack]
  | succ fuel ih =>
    rw [backtrack_succ]
    have hnd : available.Nodup := hs.imp (fun h => Nat.ne_of_lt h)
    split
    · split <;> simp
    · apply nodup_flatMap'
      · intro p hp
        apply nodup_flatMap'
        · intro comb hcomb
          unfold btG
          cases comb with
          | nil => simp
          | cons m rest =>
            simp only
            apply nodup_ite_nil
            · have hrest : rest.Nodup := by
                have := (combinations_spec available p.1 _ hcomb).1.nodup hnd
                exact (List.nodup_cons.1 this).2
              apply nodup_flatMap'
              · intro order ho
                have := ih (some m) (available.filter fun x => !(m :: order).contains x)
                  (counterDec lengths p.1) (counterDec_spec lengths p.1 p.2 hok hp).1 (hs.filter _)
                rw [List.nodup_iff_pairwise_ne] at this ⊢
                rw [List.pairwise_map]
                exact this.imp (fun h e => h (by simpa using e))
              · have := permsOf_nodup rest.length rest hrest
                rw [List.nodup_iff_pairwise_ne] at this
                apply this.imp
                intro a b hab x hx hx'
                obtain ⟨y, _, rfl⟩ := List.mem_map.1 hx
                obtain ⟨z, _, e⟩ := List.mem_map.1 hx'
                simp only [List.cons.injEq] at e
                exact hab e.1.2.symm
        · have := combinations_nodup available p.1 hnd
          rw [List.nodup_iff_pairwise_ne] at this
          apply List.Pairwise.imp_of_mem ?_ this
          intro a b ha hb hab x hx hx'
          obtain ⟨m, rest, order, tail, rfl, ho, _, _, rfl⟩ := mem_btG hx
          obtain ⟨m', rest', order', tail', rfl, ho', _, _, e⟩ := mem_btG hx'
          simp only [List.cons.injEq] at e
          obtain ⟨⟨rfl, rfl⟩, _⟩ := e
          apply hab
          have h1 := (permsOf_spec _ _ _ (Nat.le_refl _) ho).symm.trans
            (permsOf_spec _ _ _ (Nat.le_refl _) ho')
          have s1 := List.Pairwise.sublist (combinations_spec available p.1 _ ha).1 hs
          have s2 := List.Pairwise.sublist (combinations_spec available p.1 _ hb).1 hs
          exact (h1.cons m).eq_of_pairwise (fun _ _ _ _ h1 h2 => Nat.le_antisymm h1 h2)
            (s1.imp Nat.le_of_lt) (s2.imp Nat.le_of_lt)
      · have := hok.1
        rw [List.nodup_iff_pairwise_ne, List.pairwise_map] at this
        apply this.imp
        intro a b hab x hx hx'
        obtain ⟨comb, hcomb, hx⟩ := List.mem_flatMap.1 hx
        obtain ⟨comb', hcomb', hx'⟩ := List.mem_flatMap.1 hx'
        obtain ⟨m, rest, order, tail, rfl, ho, _, _, rfl⟩ := mem_btG hx
        obtain ⟨m', rest', order', tail', rfl, ho', _, _, e⟩ := mem_btG hx'
        simp only [List.cons.injEq] at e
        obtain ⟨⟨rfl, rfl⟩, _⟩ := e
        apply hab
        have l1 := (combinations_spec available a.1 _ hcomb).2
        have l2 := (combinations_spec available b.1 _ hcomb').2
        have h1 := (permsOf_spec _ _ _ (Nat.le_refl _) ho).length_eq
        have h2 := (permsOf_spec _ _ _ (Nat.le_refl _) ho').length_eq
        simp only [List.length_cons] at l1 l2
        omega


/-- canonical list of cycles: every cycle starts with its minimum, the minima increase strictly and
are all above `last` -/
def Canon : Option Nat → List (List Nat) → Prop
  | _, [] => True
  | _, [] :: _ => False
  | last, (m :: order) :: t =>
    (match last with | none => True | some l => l < m) ∧ (∀ x ∈ order, m < x) ∧ Canon (some m) t

theorem backtrack_canon (fuel : Nat) (last : Option Nat) (available : List Nat) (lengths : Counter)
    (hs : available.Pairwise (· < ·)) (cycles : List (List Nat))
    (h : cycles ∈ backtrack fuel last available lengths) : Canon last cycles := by
  induction fuel generalizing last available lengths cycles with
  | zero => simp [backtrack] at h
  | succ fuel ih =>
    rw [backtrack_succ] at h
    split at h
    · split at h
      · simp only [List.mem_singleton] at h; subst h; trivial
      · simp at h
    · obtain ⟨p, _, h⟩ := List.mem_flatMap.1 h
      obtain ⟨comb, hcomb, h⟩ := List.mem_flatMap.1 h
      obtain ⟨m, rest, order, tail, rfl, ho, hl, ht, rfl⟩ := mem_btG h
      have s1 := List.Pairwise.sublist (combinations_spec available p.1 _ hcomb).1 hs
      rw [List.pairwise_cons] at s1
      have hperm := permsOf_spec _ _ _ (Nat.le_refl _) ho
      refine ⟨hl, fun x hx => s1.1 x (hperm.subset hx), ?_⟩
      exact ih (some m) _ _ (hs.filter _) tail ht

theorem canon_lower (l : Nat) (cs : List (List Nat)) (h : Canon (some l) cs) :
    ∀ c ∈ cs, ∀ x ∈ c, l < x := by
  induction cs generalizing l with
  | nil => simp
  | cons c t ih =>
    cases c with
    | nil => exact absurd h (by simp [Canon])
    | cons m order =>
      obtain ⟨h1, h2, h3⟩ := h
      simp only at h1
      intro c' hc' x hx
      rcases List.mem_cons.1 hc' with rfl | hc'
      · rcases List.mem_cons.1 hx with rfl | hx
        · exact h1
        · exact Nat.lt_trans h1 (h2 x hx)
      · exact Nat.lt_trans h1 (ih m h3 c' hc' x hx)

/-- two cycles of the same permutation with the same first entry are equal -/
theorem cycle_eq_of_head (p c c' : List Nat) (hc : CycleOn p c) (hc' : CycleOn p c')
    (h0 : c.getD 0 0 = c'.getD 0 0) : c = c' := by
  have hpos : 0 < c.length := List.length_pos_iff.2 hc.ne
  have hpos' : 0 < c'.length := List.length_pos_iff.2 hc'.ne
  have key : ∀ i, i < c.length → i < c'.length → c.getD i 0 = c'.getD i 0 := by
    intro i
    induction i with
    | zero => intro _ _; exact h0
    | succ i ih =>
      intro h1 h2
      have e1 := hc.step i (by omega)
      have e2 := hc'.step i (by omega)
      rw [Nat.mod_eq_of_lt h1] at e1
      rw [Nat.mod_eq_of_lt h2] at e2
      rw [← e1, ← e2, ih (by omega) (by omega)]
  have hlen : c.length = c'.length := by
    apply Classical.byContradiction
    intro hne
    rcases Nat.lt_or_gt_of_ne hne with hlt | hlt
    · -- c is shorter: c' revisits its head at index c.length
      have e1 := hc.step (c.length - 1) (by omega)
      have e2 := hc'.step (c.length - 1) (by omega)
      have h1 : (c.length - 1 + 1) % c.length = 0 := by
        rw [Nat.sub_add_cancel hpos]; exact Nat.mod_self _
      have h2 : (c.length - 1 + 1) % c'.length = c.length := by
        rw [Nat.sub_add_cancel hpos]; exact Nat.mod_eq_of_lt hlt
      rw [h1] at e1; rw [h2] at e2
      rw [key _ (by omega) (by omega), e2, h0] at e1
      have := (List.getD_inj (fallback := 0) hlt hpos' hc'.nodup).1 e1
      omega
    · have e1 := hc.step (c'.length - 1) (by omega)
      have e2 := hc'.step (c'.length - 1) (by omega)
      have h1 : (c'.length - 1 + 1) % c'.length = 0 := by
        rw [Nat.sub_add_cancel hpos']; exact Nat.mod_self _
      have h2 : (c'.length - 1 + 1) % c.length = c'.length := by
        rw [Nat.sub_add_cancel hpos']; exact Nat.mod_eq_of_lt hlt
      rw [h1] at e2; rw [h2] at e1
      rw [← key _ (by omega) (by omega), e1, ← h0] at e2
      have := (List.getD_inj (fallback := 0) hlt hpos hc.nodup).1 e2
      omega
  apply List.ext_getElem hlen
  intro i h1 h2
  have := key i h1 h2
  rwa [getD_eq_getElem h1, getD_eq_getElem h2] at this

/-- a canonical decomposition into cycles of `p` is determined by `p` and the set of entries -/
theorem canon_unique (p : List Nat) (last : Option Nat) (cs cs' : List (List Nat))
    (hc : Canon last cs) (hc' : Canon last cs')
    (hcyc : ∀ c ∈ cs, CycleOn p c) (hcyc' : ∀ c ∈ cs', CycleOn p c)
    (hperm : cs.flatten.Perm cs'.flatten) (hnd : cs.flatten.Nodup) : cs = cs' := by
  induction cs generalizing cs' last with
  | nil =>
    cases cs' with
    | nil => rfl
    | cons c' t' =>
      have hne := (hcyc' c' (by simp)).ne
      have : c' ++ t'.flatten = [] := by simpa using hperm.symm
      simp at this
      exact absurd this.1 hne
  | cons c t ih =>
    cases cs' with
    | nil =>
      have hne := (hcyc c (by simp)).ne
      have : c ++ t.flatten = [] := by simpa using hperm
      simp at this
      exact absurd this.1 hne
    | cons c' t' =>
      cases c with
      | nil => exact absurd hc (by simp [Canon])
      | cons m order =>
      cases c' with
      | nil => exact absurd hc' (by simp [Canon])
      | cons m' order' =>
        obtain ⟨_, h2, h3⟩ := hc
        obtain ⟨_, h2', h3'⟩ := hc'
        -- `m` and `m'` are both the least entry
        have hmin : ∀ x ∈ ((m :: order) :: t).flatten, m ≤ x := by
          intro x hx
          rw [List.flatten_cons, List.mem_append] at hx
          rcases hx with hx | hx
          · rcases List.mem_cons.1 hx with rfl | hx
            · exact Nat.le_refl _
            · exact Nat.le_of_lt (h2 x hx)
          · obtain ⟨c0, hc0, hx⟩ := List.mem_flatten.1 hx
            exact Nat.le_of_lt (canon_lower m t h3 c0 hc0 x hx)
        have hmin' : ∀ x ∈ ((m' :: order') :: t').flatten, m' ≤ x := by
          intro x hx
          rw [List.flatten_cons, List.mem_append] at hx
          rcases hx with hx | hx
          · rcases List.mem_cons.1 hx with rfl | hx
            · exact Nat.le_refl _
            · exact Nat.le_of_lt (h2' x hx)
          · obtain ⟨c0, hc0, hx⟩ := List.mem_flatten.1 hx
            exact Nat.le_of_lt (canon_lower m' t' h3' c0 hc0 x hx)
        have hm : m = m' := by
          have a1 := hmin m' (hperm.symm.subset (by simp))
          have a2 := hmin' m (hperm.subset (by simp))
          omega
        subst hm
        have hceq : m :: order = m :: order' :=
          cycle_eq_of_head p _ _ (hcyc _ (by simp)) (hcyc' _ (by simp)) (by simp)
        rw [hceq] at hperm hnd ⊢
        rw [List.flatten_cons, List.flatten_cons] at hperm
        rw [List.flatten_cons, List.nodup_append] at hnd
        have := ih (some m) t' h3 h3' (fun c hc => hcyc c (by simp [hc]))
          (fun c hc => hcyc' c (by simp [hc])) ((List.perm_append_left_iff _).1 hperm) hnd.2.1
        rw [this]


theorem nodup_map_of_inj_on {α β : Type} (f : α → β) (l : List α) (h : l.Nodup)
    (hinj : ∀ a ∈ l, ∀ b ∈ l, f a = f b → a = b) : (l.map f).Nodup := by
  rw [List.nodup_iff_pairwise_ne] at h ⊢
  rw [List.pairwise_map]
  exact List.Pairwise.imp_of_mem (fun ha hb hab e => hab (hinj _ ha _ hb e)) h

theorem range_sorted (n : Nat) : (List.range n).Pairwise (· < ·) := List.pairwise_lt_range

/-- STRETCH: the enumeration has no repetitions -/
theorem conj_nodup (n : Nat) (lens : List Nat) (ps : List (List Nat))
    (h : permutationsWithCycleLengths n lens = some ps) : ps.Nodup := by
  unfold permutationsWithCycleLengths at h
  split at h
  · simp at h
  · simp only [Option.some.injEq] at h
    subst h
    obtain ⟨hok, _⟩ := counterOf_spec lens
    apply nodup_map_of_inj_on _ _ (backtrack_nodup _ none _ _ hok (range_sorted n))
    intro cs hcs cs' hcs' e
    obtain ⟨h1, h2, _⟩ := backtrack_sound _ none (List.range n) _ hok List.nodup_range cs hcs
    obtain ⟨h1', h2', _⟩ := backtrack_sound _ none (List.range n) _ hok List.nodup_range cs' hcs'
    rw [cyclesToPerm_eq, cyclesToPerm_eq] at e
    have g := (writeAll_cycles n cs (List.range n) (by simp) h1 h2).2
    have g' := (writeAll_cycles n cs' (List.range n) (by simp) h1' h2').2
    rw [← e] at g'
    exact canon_unique _ none cs cs' (backtrack_canon _ none _ _ (range_sorted n) cs hcs)
      (backtrack_canon _ none _ _ (range_sorted n) cs' hcs') g.cyc g'.cyc (h1.trans h1'.symm) g.nodup


/-! ### completeness of `combinations`, `picks`, `permsOf` -/

theorem combinations_complete {β : Type} (l s : List β) (k : Nat) (hs : s.Sublist l)
    (hk : s.length = k) : s ∈ combinations l k := by
  induction hs generalizing k with
  | slnil => subst hk; simp [combinations]
  | cons a h ih =>
    rename_i s' l'
    cases k with
    | zero =>
      have : s' = [] := by simpa using hk
      subst this; simp [combinations]
    | succ k =>
      simp only [combinations, List.mem_append]
      exact Or.inr (ih (k+1) hk)
  | cons_cons a h ih =>
    rename_i s' l'
    cases k with
    | zero => simp at hk
    | succ k =>
      simp only [combinations, List.mem_append, List.mem_map]
      exact Or.inl ⟨s', ih k (by simpa using hk), rfl⟩

theorem picks_complete {β : Type} (l : List β) (a : β) (h : a ∈ l) : ∃ r, (a, r) ∈ picks l := by
  induction l with
  | nil => simp at h
  | cons b t ih =>
    rcases List.mem_cons.1 h with rfl | h
    · exact ⟨t, by simp [picks]⟩
    · obtain ⟨r, hr⟩ := ih h
      refine ⟨b :: r, ?_⟩
      simp only [picks, List.mem_cons, List.mem_map]
      exact Or.inr ⟨(a, r), hr, rfl⟩

theorem permsOf_complete {β : Type} (fuel : Nat) (l o : List β) (hf : l.length ≤ fuel)
    (h : o.Perm l) : o ∈ permsOf fuel l := by
  induction fuel generalizing l o with
  | zero =>
    have : l = [] := by simpa using hf
    subst this
    have : o = [] := by simpa using h
    subst this; simp [permsOf]
  | succ fuel ih =>
    simp only [permsOf]
    split
    · rename_i he
      have : l = [] := by simpa using he
      subst this
      have : o = [] := by simpa using h
      subst this; simp
    · rename_i he
      cases o with
      | nil =>
        have : l = [] := by simpa using h.symm
        simp [this] at he
      | cons a o' =>
        have ha : a ∈ l := h.subset (by simp)
        obtain ⟨r, hr⟩ := picks_complete l a ha
        have hp := picks_spec l a r hr
        have ho' : o'.Perm r := ((h.trans hp).cons_inv)
        have hlen : r.length ≤ fuel := by
          have := hp.length_eq; simp at this; omega
        simp only [List.mem_flatMap, List.mem_map]
        exact ⟨(a, r), hr, o', ih r o' hlen ho', rfl⟩

theorem expand_eq_nil (c : Counter) (hok : CounterOK c) (h : expand c = []) : c = [] := by
  cases c with
  | nil => rfl
  | cons p t =>
    have := hok.2 p (by simp)
    rw [expand_cons] at h
    have : List.replicate p.2 p.1 = [] := (List.append_eq_nil_iff.1 h).1
    simp at this; omega

theorem mem_expand (c : Counter) (k : Nat) (h : k ∈ expand c) : ∃ m, (k, m) ∈ c := by
  simp only [expand, List.mem_flatMap, List.mem_replicate] at h
  obtain ⟨p, hp, _, rfl⟩ := h
  exact ⟨p.2, hp⟩


/-! ### completeness of `backtrack` -/

theorem backtrack_complete (fuel : Nat) (last : Option Nat) (available : List Nat) (lengths : Counter)
    (cs : List (List Nat)) (hok : CounterOK lengths) (hs : available.Pairwise (· < ·))
    (hcanon : Canon last cs) (hflat : cs.flatten.Perm available)
    (hlens : (cs.map List.length).Perm (expand lengths)) (hfuel : cs.length < fuel) :
    cs ∈ backtrack fuel last available lengths := by
  induction fuel generalizing last available lengths cs with
  | zero => omega
  | succ fuel ih =>
    have hnd : available.Nodup := hs.imp (fun h => Nat.ne_of_lt h)
    rw [backtrack_succ]
    cases cs with
    | nil =>
      have ha : available = [] := by simpa using hflat.symm
      have hl : lengths = [] := expand_eq_nil lengths hok (by simpa using hlens.symm)
      subst ha hl
      simp
    | cons c t =>
      cases c with
      | nil => exact absurd hcanon (by simp [Canon])
      | cons m order =>
        obtain ⟨hl, hmin, hct⟩ := hcanon
        have hkmem : (m :: order).length ∈ expand lengths := hlens.subset (by simp)
        obtain ⟨cnt, hkc⟩ := mem_expand lengths _ hkmem
        have hne : ¬ lengths.isEmpty = true := by
          intro h; have : lengths = [] := by simpa using h
          rw [this] at hkc; simp at hkc
        rw [if_neg hne, List.mem_flatMap]
        refine ⟨((m :: order).length, cnt), hkc, ?_⟩
        simp only
        rw [List.mem_flatMap]
        -- the sorted arrangement of the first cycle's entries
        have hcsub : (m :: order) ⊆ available := fun x hx =>
          hflat.subset (by rw [List.flatten_cons]; exact List.mem_append_left _ hx)
        have hcnd : (m :: order).Nodup := by
          have : (m :: order).Sublist ((m :: order) :: t).flatten := by
            rw [List.flatten_cons]; exact List.sublist_append_left _ _
          exact this.nodup (hflat.nodup_iff.2 hnd)
        let comb := available.filter fun x => (m :: order).contains x
        have hcomb_sub : comb.Sublist available := List.filter_sublist
        have hcomb_sorted : comb.Pairwise (· < ·) := hs.filter _
        have hcomb_perm : comb.Perm (m :: order) := by
          rw [List.perm_ext_iff_of_nodup (hnd.filter _) hcnd]
          intro x
          simp only [List.mem_filter, List.contains_iff_mem]
          exact ⟨fun h => h.2, fun h => ⟨hcsub h, h⟩⟩
        -- its head is `m`
        have hcomb_head : ∃ rest, comb = m :: rest := by
          cases hcm : comb with
          | nil =>
            rw [hcm] at hcomb_perm
            simp at hcomb_perm
          | cons a rest =>
            rw [hcm] at hcomb_perm hcomb_sorted
            rw [List.pairwise_cons] at hcomb_sorted
            have ha : a ∈ m :: order := hcomb_perm.subset (by simp)
            have hm : m ∈ a :: rest := hcomb_perm.symm.subset (by simp)
            have : a = m := by
              rcases List.mem_cons.1 ha with rfl | ha
              · rfl
              · have h1 := hmin a ha
                rcases List.mem_cons.1 hm with rfl | hm
                · rfl
                · have h2 := hcomb_sorted.1 m hm
                  omega
            subst this
            exact ⟨rest, rfl⟩
        obtain ⟨rest, hrest⟩ := hcomb_head
        refine ⟨comb, combinations_complete available comb _ hcomb_sub hcomb_perm.length_eq, ?_⟩
        rw [hrest] at hcomb_perm ⊢
        have horder : order.Perm rest := hcomb_perm.cons_inv.symm
        apply mem_btG_of (permsOf_complete rest.length rest order (Nat.le_refl _) horder) hl
        obtain ⟨hdok, hdperm⟩ := counterDec_spec lengths _ cnt hok hkc
        apply ih (some m) _ _ t hdok (hs.filter _) hct
        · have h1 := filter_not_mem_perm available (m :: order) hnd hcnd hcsub
          rw [List.flatten_cons] at hflat
          exact (List.perm_append_left_iff _).1 (hflat.trans h1.symm)
        · rw [List.map_cons] at hlens
          exact (hlens.trans hdperm.symm).cons_inv
        · simp at hfuel; omega


/-! ### every permutation has a canonical cycle decomposition -/

/-- `iter p x i = p^i(x)` -/
def iter (p : List Nat) (x : Nat) : Nat → Nat
  | 0 => x
  | i+1 => p.getD (iter p x i) 0

theorem iter_lt {n : Nat} {p : List Nat} (hp : IsPermOf n p) {x : Nat} (hx : x < n) (i : Nat) :
    iter p x i < n := by
  induction i with
  | zero => exact hx
  | succ i ih => exact hp.getD_lt ih

theorem iter_shift {n : Nat} {p : List Nat} (hp : IsPermOf n p) {x : Nat} (hx : x < n) (i d : Nat)
    (h : iter p x i = iter p x (i + d)) : x = iter p x d := by
  induction i with
  | zero => simpa [iter] using h
  | succ i ih =>
    apply ih
    have e : i + 1 + d = (i + d) + 1 := by omega
    rw [e] at h
    simp only [iter] at h
    exact (List.getD_inj (fallback := 0) (by rw [hp.length_eq]; exact iter_lt hp hx i)
      (by rw [hp.length_eq]; exact iter_lt hp hx (i + d)) hp.nodup).1 h

theorem pigeonhole (n : Nat) (l : List Nat) (hlt : ∀ y ∈ l, y < n) (hlen : n < l.length) :
    ∃ i j, ∃ (hij : i < j) (hj : j < l.length), l[i]'(Nat.lt_trans hij hj) = l[j] := by
  apply Classical.byContradiction
  intro hno
  have hnd : l.Nodup := by
    rw [List.nodup_iff_pairwise_ne, List.pairwise_iff_getElem]
    intro i j hi hj hij e
    exact hno ⟨i, j, hij, hj, e⟩
  have hsub : l ⊆ List.range n := fun y hy => List.mem_range.2 (hlt y hy)
  have := hnd.length_le_of_subset hsub
  simp at this; omega

theorem exists_return {n : Nat} {p : List Nat} (hp : IsPermOf n p) {x : Nat} (hx : x < n) :
    ∃ L, 1 ≤ L ∧ L ≤ n ∧ iter p x L = x := by
  obtain ⟨i, j, hij, hj, e⟩ := pigeonhole n ((List.range (n+1)).map (iter p x))
    (by intro y hy; obtain ⟨k, _, rfl⟩ := List.mem_map.1 hy; exact iter_lt hp hx k) (by simp)
  simp only [List.length_map, List.length_range] at hj
  simp only [List.getElem_map, List.getElem_range] at e
  have : j = i + (j - i) := by omega
  rw [this] at e
  exact ⟨j - i, by omega, by omega, (iter_shift hp hx i (j - i) e).symm⟩

theorem exists_min_return {n : Nat} {p : List Nat} (hp : IsPermOf n p) {x : Nat} (hx : x < n) :
    ∃ L, 1 ≤ L ∧ L ≤ n ∧ iter p x L = x ∧ ∀ k, 1 ≤ k → k < L → iter p x k ≠ x := by
  obtain ⟨L, h1, h2, h3⟩ := exists_return hp hx
  induction L using Nat.strongRecOn with
  | _ L ih =>
    by_cases hmin : ∀ k, 1 ≤ k → k < L → iter p x k ≠ x
    · exact ⟨L, h1, h2, h3, hmin⟩
    · have : ∃ k, 1 ≤ k ∧ k < L ∧ iter p x k = x := by
        apply Classical.byContradiction
        intro hno
        apply hmin
        intro k hk1 hk2 e
        exact hno ⟨k, hk1, hk2, e⟩
      obtain ⟨k, hk1, hk2, hk3⟩ := this
      exact ih k hk2 hk1 (by omega) hk3

theorem iter_add (p : List Nat) (x a b : Nat) : iter p x (a + b) = iter p (iter p x a) b := by
  induction b with
  | zero => rfl
  | succ b ih => rw [← Nat.add_assoc]; simp only [iter, ih]

theorem getD_map_range (f : Nat → Nat) (L i : Nat) (hi : i < L) :
    ((List.range L).map f).getD i 0 = f i := by
  rw [getD_eq_getElem (by simpa using hi)]; simp

/-- the orbit of `x`, listed from `x` on, is a cycle of `p` -/
theorem orbit_cycle {n : Nat} {p : List Nat} (hp : IsPermOf n p) {x : Nat} (hx : x < n) :
    ∃ c, CycleOn p c ∧ c.getD 0 0 = x ∧ ∀ y ∈ c, ∃ i, y = iter p x i := by
  obtain ⟨L, h1, h2, h3, h4⟩ := exists_min_return hp hx
  refine ⟨(List.range L).map (iter p x), ⟨?_, ?_, ?_⟩, ?_, ?_⟩
  · intro e
    have := congrArg List.length e
    simp at this; omega
  · rw [List.nodup_iff_pairwise_ne, List.pairwise_iff_getElem]
    intro i j hi hj hij e
    simp only [List.length_map, List.length_range] at hi hj
    simp only [List.getElem_map, List.getElem_range] at e
    have : j = i + (j - i) := by omega
    rw [this] at e
    exact h4 (j - i) (by omega) (by omega) (iter_shift hp hx i (j - i) e).symm
  · intro i hi
    simp only [List.length_map, List.length_range] at hi ⊢
    have hm : (i + 1) % L < L := Nat.mod_lt _ (by omega)
    rw [getD_map_range _ _ _ hi, getD_map_range _ _ _ hm]
    by_cases hil : i + 1 < L
    · rw [Nat.mod_eq_of_lt hil]; rfl
    · have : i + 1 = L := by omega
      rw [this, Nat.mod_self]
      show iter p x (i + 1) = iter p x 0
      rw [this, h3]; rfl
  · rw [getD_map_range _ _ _ (by omega)]; rfl
  · intro y hy
    obtain ⟨i, _, rfl⟩ := List.mem_map.1 hy
    exact ⟨i, rfl⟩


/-- a cycle of a permutation is closed under taking preimages -/
theorem cycle_preimage {n : Nat} {p c : List Nat} (hp : IsPermOf n p) (hc : CycleOn p c)
    (hlt : ∀ y ∈ c, y < n) {x : Nat} (hx : x < n) (h : p.getD x 0 ∈ c) : x ∈ c := by
  obtain ⟨i, hi, e⟩ := List.getElem_of_mem h
  have hpos : 0 < c.length := by omega
  have hinj : ∀ j, j < c.length → p.getD x 0 = p.getD (c.getD j 0) 0 → x ∈ c := by
    intro j hj e'
    have hcj : c.getD j 0 ∈ c := by rw [getD_eq_getElem hj]; exact List.getElem_mem _
    have := (List.getD_inj (fallback := 0) (by rw [hp.length_eq]; exact hx)
      (by rw [hp.length_eq]; exact hlt _ hcj) hp.nodup).1 e'
    rw [this]; exact hcj
  by_cases hi0 : i = 0
  · subst hi0
    apply hinj (c.length - 1) (by omega)
    rw [hc.step (c.length - 1) (by omega), Nat.sub_add_cancel hpos, Nat.mod_self,
      getD_eq_getElem hpos, e]
  · apply hinj (i - 1) (by omega)
    rw [hc.step (i - 1) (by omega), Nat.sub_add_cancel (by omega), Nat.mod_eq_of_lt hi,
      getD_eq_getElem hi, e]

theorem canon_exists {n : Nat} {p : List Nat} (hp : IsPermOf n p) (sz : Nat) :
    ∀ (A : List Nat) (last : Option Nat), A.length ≤ sz → A.Pairwise (· < ·) → (∀ x ∈ A, x < n) →
      (∀ x ∈ A, p.getD x 0 ∈ A) → (match last with | none => True | some l => ∀ x ∈ A, l < x) →
      ∃ cs, Canon last cs ∧ cs.flatten.Perm A ∧ ∀ c ∈ cs, CycleOn p c := by
  induction sz with
  | zero =>
    intro A last hlen _ _ _ _
    have : A = [] := by simpa using hlen
    subst this
    exact ⟨[], trivial, List.Perm.refl _, by simp⟩
  | succ sz ih =>
    intro A last hlen hs hlt hclosed hlast
    cases A with
    | nil => exact ⟨[], trivial, List.Perm.refl _, by simp⟩
    | cons m A0 =>
      have hnd : (m :: A0).Nodup := hs.imp (fun h => Nat.ne_of_lt h)
      have hm : m < n := hlt m (by simp)
      obtain ⟨c, hc, hc0, hcmem⟩ := orbit_cycle hp hm
      have hiter : ∀ i, iter p m i ∈ m :: A0 := by
        intro i
        induction i with
        | zero => simp [iter]
        | succ i ih' => exact hclosed _ ih'
      have hcsub : c ⊆ m :: A0 := by
        intro y hy
        obtain ⟨i, rfl⟩ := hcmem y hy
        exact hiter i
      cases hcc : c with
      | nil => exact absurd hcc hc.ne
      | cons m' order =>
        have hm' : m' = m := by rw [hcc] at hc0; simpa using hc0
        subst hm'
        rw [hcc] at hc hcsub
        have hcnd := hc.nodup
        rw [List.pairwise_cons] at hs
        have hord : ∀ y ∈ order, m' < y := by
          intro y hy
          have hy' : y ∈ m' :: A0 := hcsub (by simp [hy])
          rcases List.mem_cons.1 hy' with rfl | hy'
          · exact absurd hy (List.nodup_cons.1 hcnd).1
          · exact hs.1 y hy'
        let A' := (m' :: A0).filter fun x => !(m' :: order).contains x
        have hA'mem : ∀ x, x ∈ A' ↔ x ∈ A0 ∧ x ∉ m' :: order := by
          intro x
          simp only [A', List.mem_filter, List.mem_cons, Bool.not_eq_true']
          constructor
          · rintro ⟨h1, h2⟩
            have h2' : x ∉ m' :: order := by simpa using h2
            refine ⟨?_, by simpa using h2'⟩
            rcases h1 with rfl | h1
            · exact absurd (List.mem_cons_self ..) h2'
            · exact h1
          · rintro ⟨h1, h2⟩
            exact ⟨Or.inr h1, by simpa using h2⟩
        have hA'len : A'.length ≤ sz := by
          have : A' = A0.filter fun x => !(m' :: order).contains x := by
            simp only [A']
            rw [List.filter_cons]
            simp
          rw [this]
          have := List.length_filter_le (fun x => !(m' :: order).contains x) A0
          simp at hlen; omega
        have hcl : ∀ y ∈ m' :: order, y < n := fun y hy => hlt y (hcsub hy)
        obtain ⟨t, ht1, ht2, ht3⟩ := ih A' (some m') hA'len
          (List.Pairwise.filter _ (List.pairwise_cons.2 hs))
          (fun x hx => hlt x (by simp [((hA'mem x).1 hx).1]))
          (by
            intro x hx
            obtain ⟨h1, h2⟩ := (hA'mem x).1 hx
            have hxA : x ∈ m' :: A0 := by simp [h1]
            have hpx := hclosed x hxA
            have hnot : p.getD x 0 ∉ m' :: order := fun hin =>
              h2 (cycle_preimage hp hc hcl (hlt x hxA) hin)
            rw [hA'mem]
            refine ⟨?_, hnot⟩
            rcases List.mem_cons.1 hpx with e | h
            · exact absurd (e ▸ List.mem_cons_self ..) hnot
            · exact h)
          (by
            intro x hx
            exact hs.1 x ((hA'mem x).1 hx).1)
        refine ⟨(m' :: order) :: t, ⟨?_, hord, ht1⟩, ?_, ?_⟩
        · cases last with
          | none => trivial
          | some l => exact hlast m' (by simp)
        · rw [List.flatten_cons]
          exact (List.Perm.append_left _ ht2).trans
            (filter_not_mem_perm (m' :: A0) (m' :: order) hnd hcnd hcsub)
        · intro c' hc'
          rcases List.mem_cons.1 hc' with rfl | hc'
          · exact hc
          · exact ht3 c' hc'


/-- a permutation is rebuilt from any of its cycle decompositions -/
theorem cyclesToPerm_of_decomp {n : Nat} {p : List Nat} {cs : List (List Nat)} (hp : p.length = n)
    (hperm : cs.flatten.Perm (List.range n)) (hcyc : ∀ c ∈ cs, CycleOn p c) :
    cyclesToPerm n cs = p := by
  rw [cyclesToPerm_eq]
  obtain ⟨_, g⟩ := writeAll_cycles n cs (List.range n) (by simp) hperm (fun c hc => (hcyc c hc).ne)
  apply List.ext_getElem (by simp [hp])
  intro k h1 h2
  have hk : k < n := by rw [← hp]; exact h2
  have hkm : k ∈ cs.flatten := hperm.symm.subset (List.mem_range.2 hk)
  obtain ⟨c, hc, hkc⟩ := List.mem_flatten.1 hkm
  obtain ⟨i, hi, e⟩ := List.getElem_of_mem hkc
  have e1 := (g.cyc c hc).step i hi
  have e2 := (hcyc c hc).step i hi
  rw [getD_eq_getElem hi, e] at e1 e2
  rw [getD_eq_getElem h1] at e1
  rw [getD_eq_getElem h2] at e2
  rw [e1, e2]

/-- STRETCH: every permutation of `n` with cycle type `lens` is enumerated -/
theorem conj_complete (n : Nat) (lens : List Nat) (ps : List (List Nat))
    (h : permutationsWithCycleLengths n lens = some ps) :
    ∀ p, IsPermOf n p → cycleType p = lens.mergeSort (fun a b => decide (a ≤ b)) → p ∈ ps := by
  unfold permutationsWithCycleLengths at h
  split at h
  · simp at h
  · simp only [Option.some.injEq] at h
    subst h
    intro p hp hct
    obtain ⟨cs, hcanon, hflat, hcyc⟩ := canon_exists hp n (List.range n) none (by simp)
      (range_sorted n) (fun x hx => List.mem_range.1 hx)
      (fun x hx => List.mem_range.2 (hp.getD_lt (List.mem_range.1 hx))) trivial
    have hdec : IsCycleDecomp p cs := by
      refine ⟨hflat.nodup_iff.2 List.nodup_range, ?_, ?_, hcyc⟩
      · intro k hk; rw [hp.length_eq] at hk; exact hflat.symm.subset (List.mem_range.2 hk)
      · intro k hk; rw [hp.length_eq]; exact List.mem_range.1 (hflat.subset hk)
    have hl1 := cycleLens_perm p cs hdec
    have hl2 : (cycleLens p).Perm lens := by
      have a := List.mergeSort_perm (cycleLens p) (fun a b => decide (a ≤ b))
      have b := List.mergeSort_perm lens (fun a b => decide (a ≤ b))
      rw [← cycleType_eq, hct] at a
      exact a.symm.trans b
    have hlens : (cs.map List.length).Perm lens := hl1.symm.trans hl2
    obtain ⟨hok, hexp⟩ := counterOf_spec lens
    have hmem := backtrack_complete (lens.length + 1) none (List.range n) (counterOf lens) cs hok
      (range_sorted n) hcanon hflat (hlens.trans hexp.symm)
      (by have := hlens.length_eq; simp at this; omega)
    exact List.mem_map.2 ⟨cs, hmem, cyclesToPerm_of_decomp hp.length_eq hflat hcyc⟩

end Cv.Perm
