/-
  Lemmas about the list-level models of the torch operations (`CvModel/Tensor.lean`).  Core Lean only.
-/
import CvModel.Tensor
namespace Cv

variable {α : Type}

/-! ### stable sort by key -/

theorem sortByKey_perm (key : α → Int) (xs : List α) : (sortByKey key xs).Perm xs :=
  List.mergeSort_perm xs _

theorem sortByKey_sorted (key : α → Int) (xs : List α) :
    (sortByKey key xs).Pairwise (fun a b => key a ≤ key b) := by
  have h := List.pairwise_mergeSort (le := fun a b => decide (key a ≤ key b))
    (by intro a b c; simp only [decide_eq_true_eq]; omega)
    (by intro a b; simp only [Bool.or_eq_true, decide_eq_true_eq]; omega) xs
  unfold sortByKey
  exact h.imp (by intro a b hab; simpa using hab)

theorem mem_sortByKey (key : α → Int) (xs : List α) (x : α) : x ∈ sortByKey key xs ↔ x ∈ xs :=
  (sortByKey_perm key xs).mem_iff

/-- stability: the rows with a given key keep their relative order -/
theorem sortByKey_filter (key : α → Int) (xs : List α) (p : α → Bool)
    (hp : ∀ a b, p a = true → p b = true → key a ≤ key b) :
    (sortByKey key xs).filter p = xs.filter p := by
  have hsub : (xs.filter p).Sublist (sortByKey key xs) := by
    unfold sortByKey
    apply List.sublist_mergeSort
      (by intro a b c; simp only [decide_eq_true_eq]; omega)
      (by intro a b; simp only [Bool.or_eq_true, decide_eq_true_eq]; omega)
    · rw [List.pairwise_iff_forall_sublist]
      intro a b hab
      have ha : a ∈ xs.filter p := hab.subset (by simp)
      have hb : b ∈ xs.filter p := hab.subset (by simp)
      simp only [List.mem_filter] at ha hb
      simpa using hp a b ha.2 hb.2
    · exact List.filter_sublist
  have hsub2 : (xs.filter p).Sublist ((sortByKey key xs).filter p) := by
    have := hsub.filter p
    simpa [List.filter_filter] using this
  have hlen : ((sortByKey key xs).filter p).length = (xs.filter p).length :=
    ((sortByKey_perm key xs).filter p).length_eq
  exact (hsub2.eq_of_length hlen.symm).symm

/-! ### first-occurrence mask -/

theorem dedupAdj_sublist (key : α → Int) (prev) (l : List α) : (dedupAdj key prev l).Sublist l := by
  induction l generalizing prev with
  | nil => simp [dedupAdj]
  | cons a t ih =>
    simp only [dedupAdj]
    split
    · exact (ih prev).cons a
    · exact (ih _).cons_cons a

theorem dedupAdj_mem_keys (key : α → Int) (prev : Option Int) (l : List α) (k : Int) :
    (k ∈ (dedupAdj key prev l).map key ∨ prev = some k) ↔ (k ∈ l.map key ∨ prev = some k) := by
  induction l generalizing prev with
  | nil => simp [dedupAdj]
  | cons a t ih =>
    simp only [dedupAdj]
    split
    · rename_i h
      rw [ih prev]
      simp only [List.map_cons, List.mem_cons]
      constructor
      · rintro (h1 | h1)
        · exact Or.inl (Or.inr h1)
        · exact Or.inr h1
      · rintro ((h1 | h1) | h1)
        · right; rw [h, h1]
        · exact Or.inl h1
        · exact Or.inr h1
    · simp only [List.map_cons, List.mem_cons]
      have := ih (some (key a))
      grind

theorem dedupAdj_sorted_strict (key : α → Int) (prev : Option Int) (l : List α)
    (hs : l.Pairwise (fun a b => key a ≤ key b))
    (hp : ∀ p, prev = some p → ∀ a ∈ l, p ≤ key a) :
    ((dedupAdj key prev l).map key).Pairwise (· < ·) ∧
    (∀ p, prev = some p → ∀ k ∈ (dedupAdj key prev l).map key, p < k) := by
  induction l generalizing prev with
  | nil => simp [dedupAdj]
  | cons a t ih =>
    simp only [List.pairwise_cons] at hs
    simp only [dedupAdj]
    split
    · rename_i h
      exact ih prev hs.2 (fun p hpp b hb => hp p hpp b (by simp [hb]))
    · rename_i h
      have ih' := ih (some (key a)) hs.2 (fun p hpp b hb => by cases hpp; exact hs.1 b hb)
      refine ⟨?_, ?_⟩
      · simp only [List.map_cons, List.pairwise_cons]
        exact ⟨fun k hk => ih'.2 (key a) rfl k hk, ih'.1⟩
      · intro p hpp k hk
        simp only [List.map_cons, List.mem_cons] at hk
        have hpa : p ≤ key a := hp p hpp a (by simp)
        have hne : p ≠ key a := by intro e; apply h; rw [hpp, e]
        rcases hk with hk | hk
        · omega
        · have := ih'.2 (key a) rfl k hk; omega

theorem dedupAdj_keys_strict (key : α → Int) (l : List α)
    (hs : l.Pairwise (fun a b => key a ≤ key b)) :
    ((dedupAdj key none l).map key).Pairwise (· < ·) :=
  (dedupAdj_sorted_strict key none l hs (by simp)).1

theorem dedupAdj_key_mem (key : α → Int) (l : List α) (k : Int) :
    k ∈ (dedupAdj key none l).map key ↔ k ∈ l.map key := by
  simpa using dedupAdj_mem_keys key none l k

/-- a kept row is the first row of the (sorted) input with its key -/
theorem dedupAdj_first (key : α → Int) (prev : Option Int) (l : List α)
    (hs : l.Pairwise (fun a b => key a ≤ key b))
    (hp : ∀ p, prev = some p → ∀ a ∈ l, p ≤ key a) (x : α) (hx : x ∈ dedupAdj key prev l) :
    prev ≠ some (key x) ∧ l.find? (fun y => key y == key x) = some x := by
  induction l generalizing prev with
  | nil => simp [dedupAdj] at hx
  | cons a t ih =>
    simp only [List.pairwise_cons] at hs
    simp only [dedupAdj] at hx
    split at hx
    · rename_i h
      have ih' := ih prev hs.2 (fun p hpp b hb => hp p hpp b (by simp [hb])) hx
      refine ⟨ih'.1, ?_⟩
      have hne : key a ≠ key x := by
        intro e; apply ih'.1; rw [h, e]
      simp [hne, ih'.2]
    · rename_i h
      simp only [List.mem_cons] at hx
      rcases hx with rfl | hx
      · exact ⟨h, by simp⟩
      · have ih' := ih (some (key a)) hs.2 (fun p hpp b hb => by cases hpp; exact hs.1 b hb) hx
        have hne : key a ≠ key x := by
          intro e; apply ih'.1; rw [e]
        have hax : key a ≤ key x := hs.1 x ((dedupAdj_sublist key _ t).subset hx)
        refine ⟨?_, ?_⟩
        · intro e
          have hpa : key x ≤ key a := hp (key x) e a (by simp)
          omega
        · simp [hne, ih'.2]

/-! ### get_unique_states -/

theorem uniqueStates_keys_strict (hash : α → Int) (xs : List α) :
    ((uniqueStates hash xs).map hash).Pairwise (· < ·) :=
  dedupAdj_keys_strict hash _ (sortByKey_sorted hash xs)

theorem uniqueStates_sublist_sort (hash : α → Int) (xs : List α) :
    (uniqueStates hash xs).Sublist (sortByKey hash xs) :=
  dedupAdj_sublist hash none _

theorem uniqueStates_subset (hash : α → Int) (xs : List α) : ∀ x ∈ uniqueStates hash xs, x ∈ xs := by
  intro x hx
  exact (mem_sortByKey hash xs x).1 ((uniqueStates_sublist_sort hash xs).subset hx)

theorem uniqueStates_key_mem (hash : α → Int) (xs : List α) (k : Int) :
    k ∈ (uniqueStates hash xs).map hash ↔ k ∈ xs.map hash := by
  unfold uniqueStates
  rw [dedupAdj_key_mem]
  exact ((sortByKey_perm hash xs).map hash).mem_iff

/-- with the hash injective on the batch: nothing lost, nothing kept twice -/
theorem uniqueStates_mem (hash : α → Int) (xs : List α)
    (hinj : ∀ x ∈ xs, ∀ y ∈ xs, hash x = hash y → x = y) (x : α) :
    x ∈ uniqueStates hash xs ↔ x ∈ xs := by
  constructor
  · exact uniqueStates_subset hash xs x
  · intro hx
    have : hash x ∈ (uniqueStates hash xs).map hash :=
      (uniqueStates_key_mem hash xs _).2 (List.mem_map_of_mem hx)
    obtain ⟨y, hy, hyx⟩ := List.mem_map.1 this
    have := hinj y (uniqueStates_subset hash xs y hy) x hx hyx
    rwa [← this]

theorem uniqueStates_nodup (hash : α → Int) (xs : List α) : (uniqueStates hash xs).Nodup := by
  have h := uniqueStates_keys_strict hash xs
  exact List.Pairwise.of_map hash (by intro a b hab e; rw [e] at hab; omega) h

/-- the representative kept for a hash value is the FIRST row of the batch with that hash (stability) -/
theorem uniqueStates_first (hash : α → Int) (xs : List α) (x : α) (hx : x ∈ uniqueStates hash xs) :
    xs.find? (fun y => hash y == hash x) = some x := by
  have h := (dedupAdj_first hash none (sortByKey hash xs) (sortByKey_sorted hash xs) (by simp) x hx).2
  rw [← List.head?_filter] at h ⊢
  rwa [sortByKey_filter] at h
  intro a b ha hb
  simp only [beq_iff_eq] at ha hb
  omega

/-! ### binary-search membership -/

theorem searchsorted_le_length (hay : List Int) (v : Int) : searchsorted hay v ≤ hay.length := by
  unfold searchsorted
  exact (List.takeWhile_sublist _).length_le

theorem drop_searchsorted (hay : List Int) (v : Int) :
    hay.drop (searchsorted hay v) = hay.dropWhile (fun a => decide (a < v)) := by
  unfold searchsorted
  induction hay with
  | nil => simp
  | cons a t ih =>
    simp only [List.takeWhile_cons, List.dropWhile_cons]
    split
    · simpa using ih
    · simp

theorem searchsorted_take_lt (hay : List Int) (v : Int) :
    ∀ a ∈ hay.take (searchsorted hay v), a < v := by
  unfold searchsorted
  induction hay with
  | nil => simp
  | cons a t ih =>
    simp only [List.takeWhile_cons]
    split
    · rename_i h
      simp only [List.length_cons, List.take_succ_cons, List.mem_cons]
      rintro b (rfl | hb)
      · simpa using h
      · exact ih b hb
    · simp

theorem searchsorted_drop_ge (hay : List Int) (hs : hay.Pairwise (· ≤ ·)) (v : Int) :
    ∀ a ∈ hay.drop (searchsorted hay v), v ≤ a := by
  unfold searchsorted
  induction hay with
  | nil => simp
  | cons a t ih =>
    simp only [List.pairwise_cons] at hs
    simp only [List.takeWhile_cons]
    split
    · simpa using ih hs.2
    · rename_i h
      simp only [decide_eq_true_eq, Int.not_lt] at h
      simp only [List.length_nil, List.drop_zero, List.mem_cons]
      rintro b (rfl | hb)
      · exact h
      · have := hs.1 b hb; omega

theorem isinSorted_iff (hay : List Int) (hs : hay.Pairwise (· ≤ ·)) (v : Int) :
    isinSorted hay v = true ↔ v ∈ hay := by
  cases hay with
  | nil => simp [isinSorted]
  | cons a0 t0 =>
    generalize hhay : a0 :: t0 = hay at *
    have hne : 0 < hay.length := by rw [← hhay]; simp
    have hlt := searchsorted_take_lt hay v
    have hge := searchsorted_drop_ge hay hs v
    have hle := searchsorted_le_length hay v
    have hmem : v ∈ hay ↔ v ∈ hay.drop (searchsorted hay v) := by
      constructor
      · intro h
        rw [← List.take_append_drop (searchsorted hay v) hay, List.mem_append] at h
        rcases h with h | h
        · have := hlt v h; omega
        · exact h
      · exact fun h => (List.drop_sublist _ _).subset h
    have hunf : isinSorted hay v =
        (match hay[if searchsorted hay v ≥ hay.length then hay.length - 1 else searchsorted hay v]? with
          | some a => a == v | none => false) := by
      rw [← hhay]; rfl
    rw [hunf, hmem]
    by_cases hc : searchsorted hay v ≥ hay.length
    · rw [if_pos hc]
      have h1 : hay.length - 1 < hay.length := by omega
      rw [List.getElem?_eq_getElem h1]
      have h2 : hay[hay.length - 1] ∈ hay.take (searchsorted hay v) := by
        rw [List.take_of_length_le hc]; exact List.getElem_mem h1
      have h3 := hlt _ h2
      rw [List.drop_eq_nil_of_le hc]
      simp only [beq_iff_eq, List.not_mem_nil, iff_false]
      omega
    · rw [if_neg hc]
      have h1 : searchsorted hay v < hay.length := by omega
      rw [List.getElem?_eq_getElem h1]
      have hd : hay.drop (searchsorted hay v) = hay[searchsorted hay v] :: hay.drop (searchsorted hay v + 1) :=
        List.drop_eq_getElem_cons h1
      have hsd : (hay.drop (searchsorted hay v)).Pairwise (· ≤ ·) := hs.sublist (List.drop_sublist _ _)
      rw [hd] at hsd hge ⊢
      simp only [List.pairwise_cons] at hsd
      simp only [beq_iff_eq, List.mem_cons]
      constructor
      · intro h; exact Or.inl h.symm
      · rintro (h | h)
        · exact h.symm
        · have := hsd.1 v h
          have := hge _ (List.mem_cons_self)
          omega

/-- the sortedness hypothesis is needed -/
example : isinSorted [3, 1, 2] 1 = false := by decide


/-! ### tensor_split -/

theorem flatten_splitBy (ns : List Nat) (xs : List α) (h : xs.length ≤ ns.sum) :
    (splitBy ns xs).flatten = xs := by
  induction ns generalizing xs with
  | nil =>
    simp only [List.sum_nil, Nat.le_zero_eq, List.length_eq_zero_iff] at h
    simp [splitBy, h]
  | cons n ns ih =>
    simp only [splitBy, List.flatten_cons]
    rw [ih]
    · exact List.take_append_drop n xs
    · simp only [List.sum_cons, List.length_drop] at h ⊢; omega

theorem length_splitBy (ns : List Nat) (xs : List α) : (splitBy ns xs).length = ns.length := by
  induction ns generalizing xs with
  | nil => simp [splitBy]
  | cons n ns ih => simp [splitBy, ih]

theorem sum_range_indicator (q m k : Nat) :
    ((List.range k).map fun i => q + (if i < m then 1 else 0)).sum = k * q + min k m := by
  induction k with
  | zero => simp
  | succ k ih =>
    rw [List.range_succ, List.map_append, List.sum_append, ih]
    simp only [List.map_cons, List.map_nil, List.sum_cons, List.sum_nil, Nat.add_zero]
    rw [Nat.succ_mul]
    split <;> omega

theorem sum_splitSizes (len k : Nat) (hk : 0 < k) : (splitSizes len k).sum = len := by
  unfold splitSizes
  rw [sum_range_indicator]
  have h1 : len % k < k := Nat.mod_lt _ hk
  have h2 := Nat.div_add_mod len k
  rw [Nat.min_eq_right (Nat.le_of_lt h1)]
  omega

theorem flatten_tensorSplit (k : Nat) (hk : 0 < k) (xs : List α) : (tensorSplit k xs).flatten = xs := by
  unfold tensorSplit
  apply flatten_splitBy
  rw [sum_splitSizes _ _ hk]
  exact Nat.le_refl _

theorem length_tensorSplit (k : Nat) (xs : List α) : (tensorSplit k xs).length = k := by
  unfold tensorSplit
  rw [length_splitBy]
  simp [splitSizes]

/-! ### sortInts / TorchHashSet -/

theorem sortInts_perm (l : List Int) : (sortInts l).Perm l := List.mergeSort_perm l _

theorem sortInts_sorted (l : List Int) : (sortInts l).Pairwise (· ≤ ·) := by
  have h := List.pairwise_mergeSort (le := fun (a b : Int) => decide (a ≤ b))
    (by intro a b c; simp only [decide_eq_true_eq]; omega)
    (by intro a b; simp only [Bool.or_eq_true, decide_eq_true_eq]; omega) l
  unfold sortInts
  exact h.imp (by intro a b hab; simpa using hab)

theorem mem_sortInts (l : List Int) (v : Int) : v ∈ sortInts l ↔ v ∈ l := (sortInts_perm l).mem_iff

theorem isSortedInts_iff (l : List Int) : isSortedInts l = true ↔ l.Pairwise (· ≤ ·) := by
  induction l with
  | nil => simp [isSortedInts]
  | cons a t ih =>
    cases t with
    | nil => simp [isSortedInts]
    | cons b t =>
      simp only [isSortedInts, Bool.and_eq_true, decide_eq_true_eq, ih]
      constructor
      · rintro ⟨hab, h⟩
        refine List.pairwise_cons.2 ⟨?_, h⟩
        intro c hc
        simp only [List.mem_cons] at hc
        rcases hc with rfl | hc
        · exact hab
        · have := (List.pairwise_cons.1 h).1 c hc; omega
      · intro h
        have h' := List.pairwise_cons.1 h
        exact ⟨h'.1 b (by simp), h'.2⟩

/-- TorchHashSet invariant: if every added tensor is sorted, every stored tensor is sorted and the set
    contains exactly the added numbers -/
theorem HashSetM.addSorted_inv (s : HashSetM) (h : List Int)
    (hs : ∀ d ∈ s.data, d.Pairwise (· ≤ ·)) (hh : h.Pairwise (· ≤ ·)) :
    (∀ d ∈ (s.addSorted h).data, d.Pairwise (· ≤ ·)) ∧
    (∀ v, (∃ d ∈ (s.addSorted h).data, v ∈ d) ↔ (v ∈ h ∨ ∃ d ∈ s.data, v ∈ d)) := by
  unfold HashSetM.addSorted
  simp only []
  split
  · refine ⟨?_, ?_⟩
    · intro d hd
      simp only [List.mem_singleton] at hd
      subst hd
      exact sortInts_sorted _
    · intro v
      simp only [List.mem_singleton, exists_eq_left, mem_sortInts, List.mem_flatten, List.mem_append]
      constructor
      · rintro ⟨d, hd | hd, hv⟩
        · exact Or.inr ⟨d, hd, hv⟩
        · subst hd; exact Or.inl hv
      · rintro (hv | ⟨d, hd, hv⟩)
        · exact ⟨h, Or.inr rfl, hv⟩
        · exact ⟨d, Or.inl hd, hv⟩
  · refine ⟨?_, ?_⟩
    · intro d hd
      simp only [List.mem_append, List.mem_singleton] at hd
      rcases hd with hd | rfl
      · exact hs d hd
      · exact hh
    · intro v
      simp only [List.mem_append, List.mem_singleton]
      constructor
      · rintro ⟨d, hd | hd, hv⟩
        · exact Or.inr ⟨d, hd, hv⟩
        · subst hd; exact Or.inl hv
      · rintro (hv | ⟨d, hd, hv⟩)
        · exact ⟨h, Or.inr rfl, hv⟩
        · exact ⟨d, Or.inl hd, hv⟩

theorem HashSetM.unseen_iff (s : HashSetM) (hs : ∀ d ∈ s.data, d.Pairwise (· ≤ ·)) (v : Int) :
    s.unseen v = true ↔ ¬ ∃ d ∈ s.data, v ∈ d := by
  unfold HashSetM.unseen
  simp only [List.all_eq_true, Bool.not_eq_true', not_exists, not_and]
  constructor
  · intro h d hd hv
    have := h d hd
    rw [← Bool.not_eq_true, isinSorted_iff d (hs d hd)] at this
    exact this hv
  · intro h d hd
    rw [← Bool.not_eq_true, isinSorted_iff d (hs d hd)]
    exact h d hd

end Cv
