/-
  Concrete small graphs for the non-vacuity examples of `CvProps/C04.lean`, `C05b.lean`, `C11i.lean`:
  the undirected 6-cycle and the directed 5-cycle on `Nat` (states outside the cycle are fixed points, so that
  every generator is a bijection of `Nat`).  `List.mergeSort` is defined by well-founded recursion, so the
  models are evaluated by `simp`, not `decide`.
-/
import CvProofs.Paths
namespace Cv
namespace PathsExample

/-- the 6-cycle `0 - 1 - … - 5 - 0` with generators `+1`, `+5 = -1` -/
def ex6 : Graph Nat :=
  { nGens := 2, act := fun i x => if x < 6 then (if i = 0 then (x + 1) % 6 else (x + 5) % 6) else x,
    hash := fun x => (x : Int), invClosed := true, batchSize := 1000 }

/-- its inverted copy: the two generators swapped -/
def ex6i : Graph Nat :=
  { ex6 with act := fun i x => if x < 6 then (if i = 0 then (x + 5) % 6 else (x + 1) % 6) else x }

/-- the directed 5-cycle `0 → 1 → … → 4 → 0` (one generator, not inverse-closed) -/
def ex5 : Graph Nat :=
  { nGens := 1, act := fun _ x => if x < 5 then (x + 1) % 5 else x,
    hash := fun x => (x : Int), invClosed := false, batchSize := 1000 }

def ex5i : Graph Nat :=
  { ex5 with act := fun _ x => if x < 5 then (x + 4) % 5 else x }

/-- the directed 3-cycle `0 → 1 → 2 → 0` wrongly flagged as inverse-closed (used to show that the flag is irrelevant
for `find_path_between`) -/
def ex3 : Graph Nat :=
  { nGens := 1, act := fun _ x => if x < 3 then (x + 1) % 3 else x,
    hash := fun x => (x : Int), invClosed := true, batchSize := 1000 }

def ex3i : Graph Nat :=
  { ex3 with act := fun _ x => if x < 3 then (x + 2) % 3 else x }

theorem ex3_hyp : PathHyp ex3 ex3i where
  hashEq := rfl
  nGens := rfl
  inv := by
    intro i hi x
    simp only [ex3, ex3i]
    constructor <;> (repeat' split) <;> omega
  inj := fun x y hxy => Int.ofNat.inj hxy

theorem ex6_hyp : PathHyp ex6 ex6i where
  hashEq := rfl
  nGens := rfl
  inv := by
    intro i hi x
    have hi' : i < 2 := hi
    simp only [ex6, ex6i]
    constructor <;> (repeat' split) <;> omega
  inj := fun x y hxy => Int.ofNat.inj hxy

theorem ex5_hyp : PathHyp ex5 ex5i where
  hashEq := rfl
  nGens := rfl
  inv := by
    intro i hi x
    simp only [ex5, ex5i]
    constructor <;> (repeat' split) <;> omega
  inj := fun x y hxy => Int.ofNat.inj hxy

theorem ex6_symm : Symm ex6.nb := by
  intro x y
  simp only [Graph.nb, nbOf, ex6, List.range_succ, List.range_zero, List.nil_append, List.map_cons,
    List.map_nil, List.cons_append, List.mem_cons, List.not_mem_nil, or_false]
  intro h
  split at h <;> split <;> simp at h ⊢ <;> omega

theorem ex6_ihyp : IHyp ex6 := ⟨ex6_hyp.inj, fun _ => ex6_symm⟩

theorem ex5_ihyp : IHyp ex5 := ⟨ex5_hyp.inj, fun e => by cases e⟩

/-- evaluates the interactive BFS / path models on concrete data -/
macro "paths_eval" : tactic => `(tactic|
  simp [findPathBetween, betweenLoop, IBfs.findOnLast, IBfs.iter, IBfs.init, IBfs.step, IBfs.notSeen,
    Graph.unique, Graph.neighbors, uniqueStates, sortByKey,
    dedupAdj, List.mergeSort, List.MergeSort.Internal.splitInTwo, isinSorted, searchsorted,
    findPathTo, findPathFrom, revertPathM, restorePath, applyPath,
    List.range_succ, List.findIdx?_cons, ex6, ex6i, ex5, ex5i, ex3, ex3i])

/-! ### the 6-cycle: ball of depth 2 around 0 -/

def ball6 : List (List Int) := [[0], [1, 5], [2, 4]]

theorem ex6_iter2 : (IBfs.iter ex6 (IBfs.init ex6 [0]) 2).hashes = ball6 := by
  unfold ball6; paths_eval

theorem ex6_iter3_cur : (IBfs.iter ex6 (IBfs.init ex6 [0]) 3).cur = [3] := by paths_eval

theorem ex6_iter2_cur : (IBfs.iter ex6 (IBfs.init ex6 [0]) 2).cur = [2, 4] := by paths_eval

theorem ex6_ball : IsBall ex6 0 ball6 := by
  have := (iinv_iter ex6_ihyp [0] 2).isBallS
  rwa [ex6_iter2] at this

theorem ex6_dist3 : DistLayer ex6.nb [0] 3 3 := by
  have := (iinv_iter ex6_ihyp [0] 3).cur 3
  rw [ex6_iter3_cur] at this
  exact this.1 (by simp)

theorem ex6_dist2 : DistLayer ex6.nb [0] 2 4 := by
  have := (iinv_iter ex6_ihyp [0] 2).cur 4
  rw [ex6_iter2_cur] at this
  exact this.1 (by simp)

theorem ex6_restore : restorePath ex6i ball6 3 = some [0, 0, 0] := by decide

theorem ex6_findTo_found : findPathTo ex6 ex6i ball6 4 = .found [1, 1] := by decide

theorem ex6_findTo_notFound : findPathTo ex6 ex6i ball6 3 = .notFound := by decide

theorem ex6_invMap : IsInvMap ex6 [1, 0] := by
  refine ⟨rfl, ?_⟩
  intro i hi
  have hi' : i < 2 := hi
  have : i = 0 ∨ i = 1 := by omega
  rcases this with rfl | rfl
  · refine ⟨1, rfl, by decide, ?_⟩
    intro x; simp only [ex6]
    have h1 : (x + 1) % 6 < 6 := Nat.mod_lt _ (by decide)
    by_cases hx : x < 6
    · simp [hx, h1]; omega
    · simp [hx]
  · refine ⟨0, rfl, by decide, ?_⟩
    intro x; simp only [ex6]
    have h1 : (x + 5) % 6 < 6 := Nat.mod_lt _ (by decide)
    by_cases hx : x < 6
    · simp [hx, h1]; omega
    · simp [hx]

theorem ex6_revert : revertPathM (some [1, 0]) [1, 1, 0] = some [1, 0, 0] := by decide

theorem ex6_findFrom_found : findPathFrom ex6 ex6i (some [1, 0]) ball6 4 = .found [0, 0] := by decide

theorem ex6_findFrom_notFound : findPathFrom ex6 ex6i (some [1, 0]) ball6 3 = .notFound := by decide

/-! ### interactive BFS from two start states -/

theorem ex6_two_starts :
    (IBfs.iter ex6 (IBfs.init ex6 [3, 0, 3]) 1).cur = [1, 2, 4, 5] ∧
    (IBfs.iter ex6 (IBfs.init ex6 [3, 0, 3]) 1).hashes = [[0, 3], [1, 2, 4, 5]] ∧
    (IBfs.iter ex6 (IBfs.init ex6 [3, 0, 3]) 2).cur = [] := by
  refine ⟨?_, ?_, ?_⟩ <;> paths_eval

theorem ex5_iter : (IBfs.iter ex5 (IBfs.init ex5 [0]) 5).hashes = [[0], [1], [2], [3], [4], []] := by paths_eval

/-! ### bidirectional search -/

/-- projection of the result to comparable data -/
def resData (r : Option (Option (BetweenRes Nat))) : Option (Option (Nat × List Nat)) :=
  r.map fun o => o.map fun b => (b.start, b.edges)

/-- directed 5-cycle: distance 3 from 0 to 3, found with `max_diameter = 2` (meeting on layer 2 / layer 1) -/
theorem ex5_between_found : resData (findPathBetween ex5 ex5i [0] [3] 2) = some (some (0, [0, 0, 0])) := by
  unfold resData; paths_eval

/-- … and not found with `max_diameter = 1` (3 > 2·1) -/
theorem ex5_between_none : resData (findPathBetween ex5 ex5i [0] [3] 1) = some none := by
  unfold resData; paths_eval

/-- 6-cycle, sets: the closest pair is (0, 4) at distance 2 -/
theorem ex6_between_found : resData (findPathBetween ex6 ex6i [0, 1] [3, 4] 3) = some (some (1, [0, 0])) := by
  unfold resData; paths_eval

theorem ex6_between_zero : resData (findPathBetween ex6 ex6i [0, 1] [5, 1] 3) = some (some (1, [])) := by
  unfold resData; paths_eval

theorem ex6_between_empty : resData (findPathBetween ex6 ex6i [] [3] 2) = some none := by
  unfold resData; paths_eval

/-- with the wrong flag the engine's layers are NOT the distance classes (state 0 re-enters as "layer 3") … -/
theorem ex3_iter : (IBfs.iter ex3 (IBfs.init ex3 [0]) 4).hashes = [[0], [1], [2], [0], [1]] := by paths_eval

theorem ex3_not_symm : ¬ Symm ex3.nb := by
  intro h
  have := h 0 1 (by decide)
  revert this
  decide

/-- … and still the bidirectional search answers correctly -/
theorem ex3_between_found : resData (findPathBetween ex3 ex3i [0] [2] 5) = some (some (0, [0, 0])) := by
  unfold resData; paths_eval

theorem ex3_between_none : resData (findPathBetween ex3 ex3i [0] [7] 4) = some none := by
  unfold resData; paths_eval

end PathsExample
end Cv
