/-
  Proofs about `CvModel/Bitmask.lean`, part 2: `_bit_count` (SWAR pop-count) counts the set bits.
  The word is split into 8 bytes; the three mask/shift stages act on every byte separately (no carries between
  bytes: bit-level lemma `shift_and_bytes` + linear arithmetic), the per-byte behaviour is checked on all 256 bytes by
  kernel evaluation, and the multiply-and-shift step sums 8 byte counts each ≤ 8.  Core Lean only.
-/
import CvProofs.Bitmask
namespace Cv.Bitmask

/-! ### bytes -/

/-- stage 1 on one byte -/
def g1 (b : Nat) : Nat := b - ((b >>> 1) &&& 0x55)
/-- stage 2 on one byte -/
def g2 (c : Nat) : Nat := (c &&& 0x33) + ((c >>> 2) &&& 0x33)
/-- number of set bits of a byte -/
def pop8 (b : Nat) : Nat := ((List.range 8).filter fun i => b.testBit i).length

def byteOk (b : Nat) : Bool :=
  decide (((b >>> 1) &&& 0x55) ≤ b) && decide (g1 b < 256) && decide (g2 (g1 b) < 256) &&
  decide (g2 (g1 b) % 16 ≤ 4) && decide (g2 (g1 b) / 16 ≤ 4) && decide (g2 (g1 b) % 16 + g2 (g1 b) / 16 = pop8 b)

theorem byte_all : (List.range 256).all byteOk = true := by decide +kernel

/-- the two nibbles of a byte after stages 1 and 2 hold the bit counts of the two halves -/
theorem byte_facts (b : Nat) (hb : b < 256) :
    ((b >>> 1) &&& 0x55) ≤ b ∧ g1 b < 256 ∧ g2 (g1 b) < 256 ∧ g2 (g1 b) % 16 ≤ 4 ∧ g2 (g1 b) / 16 ≤ 4 ∧
    g2 (g1 b) % 16 + g2 (g1 b) / 16 = pop8 b := by
  have := List.all_eq_true.1 byte_all b (List.mem_range.2 hb)
  simpa [byteOk, and_assoc] using this

/-- shift right by `s`, then mask every byte with `m < 2^(8-s)`: acts on every byte separately -/
theorem shift_and_bytes (bs : List Nat) (hbs : ∀ b ∈ bs, b < 2 ^ 8) (s m : Nat) (hs : s ≤ 8) (hm : m < 2 ^ (8 - s)) :
    (pack 8 bs >>> s) &&& pack 8 (List.replicate bs.length m) = pack 8 (bs.map fun b => (b >>> s) &&& m) := by
  have hm8 : m < 2 ^ 8 := Nat.lt_of_lt_of_le hm (Nat.pow_le_pow_right (by omega) (by omega))
  apply Nat.eq_of_testBit_eq
  intro j
  rw [Nat.testBit_and, Nat.testBit_shiftRight, testBit_pack 8 (by omega) bs hbs,
    testBit_pack 8 (by omega) _ (by intro v hv; rw [List.mem_replicate] at hv; rw [hv.2]; exact hm8),
    testBit_pack 8 (by omega) _ (by
      intro v hv
      rw [List.mem_map] at hv
      obtain ⟨b, _, rfl⟩ := hv
      exact Nat.lt_of_le_of_lt Nat.and_le_right hm8)]
  by_cases hj : j / 8 < bs.length
  · have e1 : (List.replicate bs.length m).getD (j / 8) 0 = m := by
      simp [List.getD_eq_getElem?_getD, hj]
    have e2 : (bs.map fun b => (b >>> s) &&& m).getD (j / 8) 0 = (bs.getD (j / 8) 0 >>> s) &&& m := by
      simp [List.getD_eq_getElem?_getD, List.getElem?_map, List.getElem?_eq_getElem hj]
    rw [e1, e2, Nat.testBit_and, Nat.testBit_shiftRight]
    by_cases hlow : j % 8 + s < 8
    · have h1 : (s + j) / 8 = j / 8 := by omega
      have h2 : (s + j) % 8 = s + j % 8 := by omega
      rw [h1, h2]
    · have : m.testBit (j % 8) = false := testBit_of_lt hm (by omega)
      simp [this]
  · have e1 : (List.replicate bs.length m).getD (j / 8) 0 = 0 := by
      simp [List.getD_eq_getElem?_getD, hj]
    have e2 : (bs.map fun b => (b >>> s) &&& m).getD (j / 8) 0 = 0 := by
      rw [List.getD_eq_getElem?_getD, List.getElem?_eq_none (by simp; omega)]; rfl
    rw [e1, e2]; simp

theorem and_bytes (bs : List Nat) (hbs : ∀ b ∈ bs, b < 2 ^ 8) (m : Nat) (hm : m < 2 ^ 8) :
    pack 8 bs &&& pack 8 (List.replicate bs.length m) = pack 8 (bs.map fun b => b &&& m) := by
  have := shift_and_bytes bs hbs 0 m (by omega) hm
  simpa using this

/-- every 64-bit number is 8 bytes -/
theorem exists_bytes (X : Nat) (hX : X < 2 ^ 64) :
    ∃ b0 b1 b2 b3 b4 b5 b6 b7 : Nat, b0 < 256 ∧ b1 < 256 ∧ b2 < 256 ∧ b3 < 256 ∧ b4 < 256 ∧ b5 < 256 ∧ b6 < 256 ∧
      b7 < 256 ∧ X = pack 8 [b0, b1, b2, b3, b4, b5, b6, b7] := by
  refine ⟨X % 256, X / 256 % 256, X / 65536 % 256, X / 16777216 % 256, X / 4294967296 % 256,
    X / 1099511627776 % 256, X / 281474976710656 % 256, X / 72057594037927936 % 256, ?_⟩
  simp only [pack]
  omega

/-! ### arithmetic on byte lists (no carries) -/

theorem pack_sub (bs : List Nat) (t : Nat → Nat) (ht : ∀ b ∈ bs, t b ≤ b) :
    pack 8 (bs.map t) ≤ pack 8 bs ∧ pack 8 bs - pack 8 (bs.map t) = pack 8 (bs.map fun b => b - t b) := by
  induction bs with
  | nil => simp [pack]
  | cons a l ih =>
    obtain ⟨ih1, ih2⟩ := ih fun b hb => ht b (List.mem_cons_of_mem _ hb)
    have ha := ht a List.mem_cons_self
    simp only [List.map_cons, pack]
    rw [← ih2]
    omega

theorem pack_add (bs : List Nat) (f g : Nat → Nat) :
    pack 8 (bs.map f) + pack 8 (bs.map g) = pack 8 (bs.map fun b => f b + g b) := by
  induction bs with
  | nil => simp [pack]
  | cons a l ih =>
    simp only [List.map_cons, pack]
    rw [← ih]
    omega

theorem m55 : (0x5555555555555555 : Nat) = pack 8 (List.replicate 8 0x55) := by decide
theorem m33 : (0x3333333333333333 : Nat) = pack 8 (List.replicate 8 0x33) := by decide
theorem m0F : (0xF0F0F0F0F0F0F0F : Nat) = pack 8 (List.replicate 8 0xF) := by decide

/-! ### the four stages on a 64-bit word -/

theorem stage1 (n : BitVec 64) (bs : List Nat) (hlen : bs.length = 8) (hbs : ∀ b ∈ bs, b < 256)
    (hn : n.toNat = pack 8 bs) :
    (n - ((n >>> 1) &&& 0x5555555555555555#64)).toNat = pack 8 (bs.map g1) := by
  have hbs' : ∀ b ∈ bs, b < 2 ^ 8 := hbs
  have hT : (n.toNat >>> 1) &&& 0x5555555555555555 = pack 8 (bs.map fun b => (b >>> 1) &&& 0x55) := by
    have := shift_and_bytes bs hbs' 1 0x55 (by omega) (by decide)
    rw [hlen] at this
    rw [hn, m55]; exact this
  obtain ⟨hle, hsub⟩ := pack_sub bs (fun b => (b >>> 1) &&& 0x55) fun b hb => (byte_facts b (hbs b hb)).1
  have hlt := n.isLt
  rw [BitVec.toNat_sub, BitVec.toNat_and, BitVec.toNat_ushiftRight]
  have hM : (0x5555555555555555#64).toNat = 0x5555555555555555 := rfl
  rw [hM, hT]
  have : pack 8 (bs.map g1) = pack 8 bs - pack 8 (bs.map fun b => (b >>> 1) &&& 0x55) := by
    rw [hsub]; rfl
  rw [this, ← hn]
  rw [← hn] at hle
  omega

theorem stage2 (n : BitVec 64) (cs : List Nat) (hlen : cs.length = 8) (hcs : ∀ c ∈ cs, c < 256)
    (hg : ∀ c ∈ cs, g2 c < 256) (hn : n.toNat = pack 8 cs) :
    ((n &&& 0x3333333333333333#64) + ((n >>> 2) &&& 0x3333333333333333#64)).toNat = pack 8 (cs.map g2) := by
  have hcs' : ∀ c ∈ cs, c < 2 ^ 8 := hcs
  have hA : n.toNat &&& 0x3333333333333333 = pack 8 (cs.map fun c => c &&& 0x33) := by
    have := and_bytes cs hcs' 0x33 (by decide)
    rw [hlen] at this
    rw [hn, m33]; exact this
  have hB : (n.toNat >>> 2) &&& 0x3333333333333333 = pack 8 (cs.map fun c => (c >>> 2) &&& 0x33) := by
    have := shift_and_bytes cs hcs' 2 0x33 (by omega) (by decide)
    rw [hlen] at this
    rw [hn, m33]; exact this
  have hM : (0x3333333333333333#64).toNat = 0x3333333333333333 := rfl
  rw [BitVec.toNat_add, BitVec.toNat_and, BitVec.toNat_and, BitVec.toNat_ushiftRight, hM, hA, hB, pack_add]
  have hlt : pack 8 (cs.map g2) < 2 ^ (8 * (cs.map g2).length) := by
    apply pack_lt
    intro v hv
    rw [List.mem_map] at hv
    obtain ⟨c, hc, rfl⟩ := hv
    exact hg c hc
  rw [List.length_map, hlen] at hlt
  exact Nat.mod_eq_of_lt hlt

theorem and15 (e : Nat) : e &&& 0xF = e % 16 := Nat.and_two_pow_sub_one_eq_mod e 4

theorem stage3 (n : BitVec 64) (d0 d1 d2 d3 d4 d5 d6 d7 : Nat)
    (h0 : d0 < 256 ∧ d0 % 16 ≤ 4 ∧ d0 / 16 ≤ 4) (h1 : d1 < 256 ∧ d1 % 16 ≤ 4 ∧ d1 / 16 ≤ 4)
    (h2 : d2 < 256 ∧ d2 % 16 ≤ 4 ∧ d2 / 16 ≤ 4) (h3 : d3 < 256 ∧ d3 % 16 ≤ 4 ∧ d3 / 16 ≤ 4)
    (h4 : d4 < 256 ∧ d4 % 16 ≤ 4 ∧ d4 / 16 ≤ 4) (h5 : d5 < 256 ∧ d5 % 16 ≤ 4 ∧ d5 / 16 ≤ 4)
    (h6 : d6 < 256 ∧ d6 % 16 ≤ 4 ∧ d6 / 16 ≤ 4) (h7 : d7 < 256 ∧ d7 % 16 ≤ 4 ∧ d7 / 16 ≤ 4)
    (hn : n.toNat = pack 8 [d0, d1, d2, d3, d4, d5, d6, d7]) :
    ((n + (n >>> 4)) &&& 0xF0F0F0F0F0F0F0F#64).toNat =
      pack 8 [d0 % 16 + d0 / 16, d1 % 16 + d1 / 16, d2 % 16 + d2 / 16, d3 % 16 + d3 / 16, d4 % 16 + d4 / 16,
        d5 % 16 + d5 / 16, d6 % 16 + d6 / 16, d7 % 16 + d7 / 16] := by
  have hsum : (n.toNat + n.toNat >>> 4) % 2 ^ 64 =
      pack 8 [d0 % 16 + d0 / 16 + 16 * (d0 / 16 + d1 % 16), d1 % 16 + d1 / 16 + 16 * (d1 / 16 + d2 % 16),
        d2 % 16 + d2 / 16 + 16 * (d2 / 16 + d3 % 16), d3 % 16 + d3 / 16 + 16 * (d3 / 16 + d4 % 16),
        d4 % 16 + d4 / 16 + 16 * (d4 / 16 + d5 % 16), d5 % 16 + d5 / 16 + 16 * (d5 / 16 + d6 % 16),
        d6 % 16 + d6 / 16 + 16 * (d6 / 16 + d7 % 16), d7 % 16 + d7 / 16 + 16 * (d7 / 16)] := by
    rw [hn, Nat.shiftRight_eq_div_pow]
    simp only [pack]
    omega
  have hM : (0xF0F0F0F0F0F0F0F#64).toNat = 0xF0F0F0F0F0F0F0F := rfl
  rw [BitVec.toNat_and, BitVec.toNat_add, BitVec.toNat_ushiftRight, hM, hsum, m0F]
  have := and_bytes [d0 % 16 + d0 / 16 + 16 * (d0 / 16 + d1 % 16), d1 % 16 + d1 / 16 + 16 * (d1 / 16 + d2 % 16),
        d2 % 16 + d2 / 16 + 16 * (d2 / 16 + d3 % 16), d3 % 16 + d3 / 16 + 16 * (d3 / 16 + d4 % 16),
        d4 % 16 + d4 / 16 + 16 * (d4 / 16 + d5 % 16), d5 % 16 + d5 / 16 + 16 * (d5 / 16 + d6 % 16),
        d6 % 16 + d6 / 16 + 16 * (d6 / 16 + d7 % 16), d7 % 16 + d7 / 16 + 16 * (d7 / 16)]
      (by
        intro b hb
        simp only [List.mem_cons, List.not_mem_nil, or_false] at hb
        rcases hb with rfl | rfl | rfl | rfl | rfl | rfl | rfl | rfl <;> omega) 0xF (by decide)
  simp only [List.length_cons, List.length_nil] at this
  rw [this]
  simp only [List.map_cons, List.map_nil, and15]
  congr 1
  simp only [List.cons.injEq, and_true]
  omega

theorem mul_shift_aux (L T H : Nat) (hL : L < 2 ^ 56) (hT : T < 256) :
    (L + 2 ^ 56 * T + 2 ^ 64 * H) % 2 ^ 64 / 2 ^ 56 = T := by
  omega

/-- the product with `0x0101010101010101`: low part, byte 7 = the total, a multiple of `2^64` -/
theorem prod_expand (s0 s1 s2 s3 s4 s5 s6 s7 : Nat) :
    (s0 + 2 ^ 8 * (s1 + 2 ^ 8 * (s2 + 2 ^ 8 * (s3 + 2 ^ 8 * (s4 + 2 ^ 8 * (s5 + 2 ^ 8 * (s6 + 2 ^ 8 * (s7 + 2 ^ 8 * 0)))))))) *
        0x101010101010101 =
      (s0 + 256 * (s0 + s1) + 65536 * (s0 + s1 + s2) + 16777216 * (s0 + s1 + s2 + s3) +
        4294967296 * (s0 + s1 + s2 + s3 + s4) + 1099511627776 * (s0 + s1 + s2 + s3 + s4 + s5) +
        281474976710656 * (s0 + s1 + s2 + s3 + s4 + s5 + s6)) +
      2 ^ 56 * (s0 + s1 + s2 + s3 + s4 + s5 + s6 + s7) +
      2 ^ 64 * ((s1 + s2 + s3 + s4 + s5 + s6 + s7) + 256 * (s2 + s3 + s4 + s5 + s6 + s7) +
        65536 * (s3 + s4 + s5 + s6 + s7) + 16777216 * (s4 + s5 + s6 + s7) + 4294967296 * (s5 + s6 + s7) +
        1099511627776 * (s6 + s7) + 281474976710656 * s7) := by
  omega

theorem low_bound (s0 s1 s2 s3 s4 s5 s6 : Nat)
    (h0 : s0 ≤ 8) (h1 : s1 ≤ 8) (h2 : s2 ≤ 8) (h3 : s3 ≤ 8) (h4 : s4 ≤ 8) (h5 : s5 ≤ 8) (h6 : s6 ≤ 8) :
    s0 + 256 * (s0 + s1) + 65536 * (s0 + s1 + s2) + 16777216 * (s0 + s1 + s2 + s3) +
        4294967296 * (s0 + s1 + s2 + s3 + s4) + 1099511627776 * (s0 + s1 + s2 + s3 + s4 + s5) +
        281474976710656 * (s0 + s1 + s2 + s3 + s4 + s5 + s6) < 2 ^ 56 := by
  omega

theorem stage4 (n : BitVec 64) (s0 s1 s2 s3 s4 s5 s6 s7 : Nat)
    (h0 : s0 ≤ 8) (h1 : s1 ≤ 8) (h2 : s2 ≤ 8) (h3 : s3 ≤ 8) (h4 : s4 ≤ 8) (h5 : s5 ≤ 8) (h6 : s6 ≤ 8) (h7 : s7 ≤ 8)
    (hn : n.toNat = pack 8 [s0, s1, s2, s3, s4, s5, s6, s7]) :
    ((n * 0x101010101010101#64) >>> 56).toNat = s0 + s1 + s2 + s3 + s4 + s5 + s6 + s7 := by
  have hM : (0x101010101010101#64).toNat = 0x101010101010101 := rfl
  rw [BitVec.toNat_ushiftRight, BitVec.toNat_mul, hM, hn, Nat.shiftRight_eq_div_pow]
  simp only [pack]
  rw [prod_expand]
  have hT : s0 + s1 + s2 + s3 + s4 + s5 + s6 + s7 < 256 := by
    clear hn hM; omega
  exact mul_shift_aux _ _ _ (low_bound s0 s1 s2 s3 s4 s5 s6 h0 h1 h2 h3 h4 h5 h6) hT

/-! ### assembling -/

theorem bitCount64_bytes (x : BitVec 64) (b0 b1 b2 b3 b4 b5 b6 b7 : Nat)
    (h0 : b0 < 256) (h1 : b1 < 256) (h2 : b2 < 256) (h3 : b3 < 256) (h4 : b4 < 256) (h5 : b5 < 256) (h6 : b6 < 256)
    (h7 : b7 < 256) (hx : x.toNat = pack 8 [b0, b1, b2, b3, b4, b5, b6, b7]) :
    bitCount64 x = pop8 b0 + pop8 b1 + pop8 b2 + pop8 b3 + pop8 b4 + pop8 b5 + pop8 b6 + pop8 b7 := by
  have hbs : ∀ b ∈ [b0, b1, b2, b3, b4, b5, b6, b7], b < 256 := by
    intro b hb
    simp only [List.mem_cons, List.not_mem_nil, or_false] at hb
    rcases hb with rfl | rfl | rfl | rfl | rfl | rfl | rfl | rfl <;> assumption
  have s1 := stage1 x _ rfl hbs hx
  have hcs : ∀ c ∈ [b0, b1, b2, b3, b4, b5, b6, b7].map g1, c < 256 ∧ g2 c < 256 := by
    intro c hc
    rw [List.mem_map] at hc
    obtain ⟨b, hb, rfl⟩ := hc
    have := byte_facts b (hbs b hb)
    exact ⟨this.2.1, this.2.2.1⟩
  have s2 := stage2 _ _ rfl (fun c hc => (hcs c hc).1) (fun c hc => (hcs c hc).2) s1
  simp only [List.map_cons, List.map_nil] at s2
  have f0 := byte_facts b0 h0
  have f1 := byte_facts b1 h1
  have f2 := byte_facts b2 h2
  have f3 := byte_facts b3 h3
  have f4 := byte_facts b4 h4
  have f5 := byte_facts b5 h5
  have f6 := byte_facts b6 h6
  have f7 := byte_facts b7 h7
  have s3 := stage3 _ _ _ _ _ _ _ _ _ ⟨f0.2.2.1, f0.2.2.2.1, f0.2.2.2.2.1⟩ ⟨f1.2.2.1, f1.2.2.2.1, f1.2.2.2.2.1⟩
    ⟨f2.2.2.1, f2.2.2.2.1, f2.2.2.2.2.1⟩ ⟨f3.2.2.1, f3.2.2.2.1, f3.2.2.2.2.1⟩ ⟨f4.2.2.1, f4.2.2.2.1, f4.2.2.2.2.1⟩
    ⟨f5.2.2.1, f5.2.2.2.1, f5.2.2.2.2.1⟩ ⟨f6.2.2.1, f6.2.2.2.1, f6.2.2.2.2.1⟩ ⟨f7.2.2.1, f7.2.2.2.1, f7.2.2.2.2.1⟩ s2
  rw [f0.2.2.2.2.2, f1.2.2.2.2.2, f2.2.2.2.2.2, f3.2.2.2.2.2, f4.2.2.2.2.2, f5.2.2.2.2.2, f6.2.2.2.2.2,
    f7.2.2.2.2.2] at s3
  have s4 := stage4 _ _ _ _ _ _ _ _ _ (by rw [← f0.2.2.2.2.2]; omega) (by rw [← f1.2.2.2.2.2]; omega)
    (by rw [← f2.2.2.2.2.2]; omega) (by rw [← f3.2.2.2.2.2]; omega) (by rw [← f4.2.2.2.2.2]; omega)
    (by rw [← f5.2.2.2.2.2]; omega) (by rw [← f6.2.2.2.2.2]; omega) (by rw [← f7.2.2.2.2.2]; omega) s3
  exact s4

/-- counting the set bits of `k` bytes -/
theorem count_bytes (bs : List Nat) (k : Nat) :
    ((List.range (8 * k)).filter fun i => (bs.getD (i / 8) 0).testBit (i % 8)).length =
      ((List.range k).map fun j => pop8 (bs.getD j 0)).sum := by
  induction k with
  | zero => simp
  | succ k ih =>
    have hr : List.range (k + 1) = List.range k ++ [k] := List.range_succ
    rw [Nat.mul_succ, List.range_add, List.filter_append, List.length_append, ih, hr, List.map_append,
      List.sum_append, List.filter_map, List.length_map]
    congr 1
    simp only [List.map_cons, List.map_nil, List.sum_cons, List.sum_nil, Nat.add_zero, pop8]
    congr 1
    apply List.filter_congr
    intro i hi
    have hi8 := List.mem_range.1 hi
    have e1 : (8 * k + i) / 8 = k := by omega
    have e2 : (8 * k + i) % 8 = i := by omega
    simp only [Function.comp, e1, e2]

theorem bitCount64_spec' (x : BitVec 64) :
    bitCount64 x = ((List.range 64).filter fun i => x.getLsbD i).length := by
  obtain ⟨b0, b1, b2, b3, b4, b5, b6, b7, h0, h1, h2, h3, h4, h5, h6, h7, hx⟩ := exists_bytes x.toNat x.isLt
  rw [bitCount64_bytes x b0 b1 b2 b3 b4 b5 b6 b7 h0 h1 h2 h3 h4 h5 h6 h7 hx]
  have hbs : ∀ b ∈ [b0, b1, b2, b3, b4, b5, b6, b7], b < 2 ^ 8 := by
    intro b hb
    simp only [List.mem_cons, List.not_mem_nil, or_false] at hb
    rcases hb with rfl | rfl | rfl | rfl | rfl | rfl | rfl | rfl <;> assumption
  have hbit : ∀ i, x.getLsbD i = ([b0, b1, b2, b3, b4, b5, b6, b7].getD (i / 8) 0).testBit (i % 8) := by
    intro i
    rw [← testBit_pack 8 (by omega) _ hbs i, ← hx]
    rfl
  have hc := count_bytes [b0, b1, b2, b3, b4, b5, b6, b7] 8
  simp only [hbit]
  rw [show (64 : Nat) = 8 * 8 from rfl, hc]
  simp [List.range_succ]
  omega

/-- the whole `_bit_count`: number of set bits in all words -/
theorem bitCount_eq (bits : Bits) :
    bitCount bits = (bits.toList.map fun w => ((List.range 64).filter fun i => w.getLsbD i).length).sum := by
  unfold bitCount
  rw [← Array.foldl_toList]
  have : ∀ (l : List (BitVec 64)) (init : Nat),
      l.foldl (fun ans w => ans + bitCount64 w) init =
        init + (l.map fun w => ((List.range 64).filter fun i => w.getLsbD i).length).sum := by
    intro l
    induction l with
    | nil => simp
    | cons a t ih =>
      intro init
      rw [List.foldl_cons, ih, List.map_cons, List.sum_cons, bitCount64_spec']
      omega
  rw [this]; omega

/-! ### the loop body as numba types it (arithmetic shifts after the first stage) -/

/-- an arithmetic shift followed by a mask that clears the bits shifted in is the logical shift -/
theorem sshift_and_mask (x m : BitVec 64) (s : Nat) (hm : ∀ i, i < 64 → 64 ≤ s + i → m.getLsbD i = false) :
    x.sshiftRight s &&& m = (x >>> s) &&& m := by
  apply BitVec.eq_of_getLsbD_eq
  intro i hi
  rw [BitVec.getLsbD_and, BitVec.getLsbD_and, BitVec.getLsbD_sshiftRight, BitVec.getLsbD_ushiftRight]
  by_cases h : s + i < 64
  · simp [h, Nat.not_le.2 hi]
  · rw [hm i hi (by omega)]; simp

theorem m33_top : ∀ i, i < 64 → 64 ≤ 2 + i → (0x3333333333333333#64).getLsbD i = false := by
  intro i hi h
  have : i = 62 ∨ i = 63 := by omega
  rcases this with rfl | rfl <;> rfl

theorem msb_false_of_lt (x : BitVec 64) (h : x.toNat < 2 ^ 63) : x.msb = false :=
  BitVec.msb_eq_false_iff_two_mul_lt.2 (by omega)

theorem mul_lt_aux (L T H : Nat) (hL : L < 2 ^ 56) (hT : T ≤ 64) :
    (L + 2 ^ 56 * T + 2 ^ 64 * H) % 2 ^ 64 < 2 ^ 63 := by
  omega

theorem stage4_msb (n : BitVec 64) (s0 s1 s2 s3 s4 s5 s6 s7 : Nat)
    (h0 : s0 ≤ 8) (h1 : s1 ≤ 8) (h2 : s2 ≤ 8) (h3 : s3 ≤ 8) (h4 : s4 ≤ 8) (h5 : s5 ≤ 8) (h6 : s6 ≤ 8) (h7 : s7 ≤ 8)
    (hn : n.toNat = pack 8 [s0, s1, s2, s3, s4, s5, s6, s7]) :
    (n * 0x101010101010101#64).msb = false := by
  apply msb_false_of_lt
  have hM : (0x101010101010101#64).toNat = 0x101010101010101 := rfl
  rw [BitVec.toNat_mul, hM, hn]
  simp only [pack]
  rw [prod_expand]
  have hT : s0 + s1 + s2 + s3 + s4 + s5 + s6 + s7 ≤ 64 := by
    clear hn hM; omega
  exact mul_lt_aux _ _ _ (low_bound s0 s1 s2 s3 s4 s5 s6 h0 h1 h2 h3 h4 h5 h6) hT

theorem pack8_lt_of_top (d0 d1 d2 d3 d4 d5 d6 d7 : Nat) (h0 : d0 < 256) (h1 : d1 < 256) (h2 : d2 < 256)
    (h3 : d3 < 256) (h4 : d4 < 256) (h5 : d5 < 256) (h6 : d6 < 256) (h7 : d7 < 128) :
    pack 8 [d0, d1, d2, d3, d4, d5, d6, d7] < 2 ^ 63 := by
  have e : [d0, d1, d2, d3, d4, d5, d6, d7] = [d0, d1, d2, d3, d4, d5, d6] ++ [d7] := rfl
  have hl := pack_lt 8 [d0, d1, d2, d3, d4, d5, d6] (by
    intro b hb
    simp only [List.mem_cons, List.not_mem_nil, or_false] at hb
    rcases hb with rfl | rfl | rfl | rfl | rfl | rfl | rfl <;> assumption)
  rw [e, pack_append]
  simp only [List.length_cons, List.length_nil] at hl ⊢
  generalize pack 8 [d0, d1, d2, d3, d4, d5, d6] = P at hl ⊢
  simp only [pack]
  omega

theorem bitCount64Numba_eq (x : BitVec 64) : bitCount64Numba x = bitCount64 x := by
  obtain ⟨b0, b1, b2, b3, b4, b5, b6, b7, h0, h1, h2, h3, h4, h5, h6, h7, hx⟩ := exists_bytes x.toNat x.isLt
  have hbs : ∀ b ∈ [b0, b1, b2, b3, b4, b5, b6, b7], b < 256 := by
    intro b hb
    simp only [List.mem_cons, List.not_mem_nil, or_false] at hb
    rcases hb with rfl | rfl | rfl | rfl | rfl | rfl | rfl | rfl <;> assumption
  have s1 := stage1 x _ rfl hbs hx
  have hcs : ∀ c ∈ [b0, b1, b2, b3, b4, b5, b6, b7].map g1, c < 256 ∧ g2 c < 256 := by
    intro c hc
    rw [List.mem_map] at hc
    obtain ⟨b, hb, rfl⟩ := hc
    have := byte_facts b (hbs b hb)
    exact ⟨this.2.1, this.2.2.1⟩
  have s2 := stage2 _ _ rfl (fun c hc => (hcs c hc).1) (fun c hc => (hcs c hc).2) s1
  simp only [List.map_cons, List.map_nil] at s2
  have f0 := byte_facts b0 h0
  have f1 := byte_facts b1 h1
  have f2 := byte_facts b2 h2
  have f3 := byte_facts b3 h3
  have f4 := byte_facts b4 h4
  have f5 := byte_facts b5 h5
  have f6 := byte_facts b6 h6
  have f7 := byte_facts b7 h7
  have s3 := stage3 _ _ _ _ _ _ _ _ _ ⟨f0.2.2.1, f0.2.2.2.1, f0.2.2.2.2.1⟩ ⟨f1.2.2.1, f1.2.2.2.1, f1.2.2.2.2.1⟩
    ⟨f2.2.2.1, f2.2.2.2.1, f2.2.2.2.2.1⟩ ⟨f3.2.2.1, f3.2.2.2.1, f3.2.2.2.2.1⟩ ⟨f4.2.2.1, f4.2.2.2.1, f4.2.2.2.2.1⟩
    ⟨f5.2.2.1, f5.2.2.2.1, f5.2.2.2.2.1⟩ ⟨f6.2.2.1, f6.2.2.2.1, f6.2.2.2.2.1⟩ ⟨f7.2.2.1, f7.2.2.2.1, f7.2.2.2.2.1⟩ s2
  have hd7 : g2 (g1 b7) < 128 := by have := f7.2.2.2.2.1; have := f7.2.2.1; omega
  have m2 := msb_false_of_lt _ (Nat.lt_of_le_of_lt (Nat.le_of_eq s2) (pack8_lt_of_top _ _ _ _ _ _ _ _ f0.2.2.1 f1.2.2.1 f2.2.2.1
    f3.2.2.1 f4.2.2.1 f5.2.2.1 f6.2.2.1 hd7))
  have m4 := stage4_msb _ _ _ _ _ _ _ _ _ (by have := f0.2.2.2.1; have := f0.2.2.2.2.1; omega)
    (by have := f1.2.2.2.1; have := f1.2.2.2.2.1; omega) (by have := f2.2.2.2.1; have := f2.2.2.2.2.1; omega)
    (by have := f3.2.2.2.1; have := f3.2.2.2.2.1; omega) (by have := f4.2.2.2.1; have := f4.2.2.2.2.1; omega)
    (by have := f5.2.2.2.1; have := f5.2.2.2.2.1; omega) (by have := f6.2.2.2.1; have := f6.2.2.2.2.1; omega)
    (by have := f7.2.2.2.1; have := f7.2.2.2.2.1; omega) s3
  simp only [bitCount64Numba, bitCount64]
  rw [sshift_and_mask _ _ 2 m33_top, BitVec.sshiftRight_eq_of_msb_false m2, BitVec.sshiftRight_eq_of_msb_false m4]

end Cv.Bitmask
