/-
  Proofs about `CvModel/Bitmask.lean` (model of `cayleypy/algo/bfs_bitmask.py`), part 1: packing of permutations
  (4 bits per element), routing key, chunk maps, rank / unrank inside a chunk.  Core Lean only.
-/
import CvModel.Bitmask
import CvProofs.Perm
import CvProofs.Engines
namespace Cv.Bitmask
open Cv.Perm

/-! ### canonical little-endian packing with `w` bits per field -/

/-- `pack w [a₀, a₁, …] = a₀ + 2^w * (a₁ + 2^w * …)` -/
def pack (w : Nat) : List Nat → Nat
  | [] => 0
  | a :: t => a + 2 ^ w * pack w t

theorem sum_map_mul (l : List Nat) (f : Nat → Nat) (c : Nat) :
    (l.map fun i => f i * c).sum = c * (l.map f).sum := by
  induction l with
  | nil => simp
  | cons a t ih => rw [List.map_cons, List.sum_cons, ih, List.map_cons, List.sum_cons, Nat.mul_add, Nat.mul_comm]

/-- the sum written in the source, for any list of field values -/
theorem sum_shift_eq_pack (w : Nat) (l : List Nat) :
    ((List.range l.length).map fun i => l.getD i 0 <<< (w * i)).sum = pack w l := by
  induction l with
  | nil => rfl
  | cons a t ih =>
    rw [List.length_cons, List.range_succ_eq_map, List.map_cons, List.sum_cons, List.map_map, pack, ← ih,
      ← sum_map_mul]
    have h0 : (a :: t).getD 0 0 <<< (w * 0) = a := by simp
    rw [h0]
    congr 2
    apply List.map_congr_left
    intro i _
    simp only [Function.comp, Nat.succ_eq_add_one, List.getD_cons_succ, Nat.shiftLeft_eq, Nat.mul_succ, Nat.pow_add]
    rw [Nat.mul_assoc]

theorem encodePerm_eq_pack (p : List Nat) : encodePerm p = pack 4 p := sum_shift_eq_pack 4 p

theorem pack_lt (w : Nat) (l : List Nat) (h : ∀ v ∈ l, v < 2 ^ w) : pack w l < 2 ^ (w * l.length) := by
  induction l with
  | nil => simp [pack]
  | cons a t ih =>
    have ha := h a List.mem_cons_self
    have ht := ih fun v hv => h v (List.mem_cons_of_mem _ hv)
    rw [pack, List.length_cons, Nat.mul_succ, Nat.pow_add, Nat.mul_comm (2 ^ (w * t.length))]
    have : 2 ^ w * (pack w t + 1) ≤ 2 ^ w * 2 ^ (w * t.length) := Nat.mul_le_mul_left _ ht
    rw [Nat.mul_add] at this
    omega

theorem pack_append (w : Nat) (l1 l2 : List Nat) :
    pack w (l1 ++ l2) = pack w l1 + 2 ^ (w * l1.length) * pack w l2 := by
  induction l1 with
  | nil => simp [pack]
  | cons a t ih =>
    rw [List.cons_append, pack, ih, pack, List.length_cons, Nat.mul_succ, Nat.pow_add, Nat.mul_add]
    rw [Nat.add_assoc, ← Nat.mul_assoc, Nat.mul_comm (2 ^ w) (2 ^ (w * t.length))]

/-- field `i` of a packed word -/
theorem pack_field (w : Nat) (l : List Nat) (h : ∀ v ∈ l, v < 2 ^ w) (i : Nat) :
    (pack w l >>> (w * i)) % 2 ^ w = l.getD i 0 := by
  induction l generalizing i with
  | nil => simp [pack]
  | cons a t ih =>
    have ha := h a List.mem_cons_self
    have ht := fun v hv => h v (List.mem_cons_of_mem _ hv)
    cases i with
    | zero =>
      simp only [Nat.mul_zero, Nat.shiftRight_zero, pack, List.getD_cons_zero]
      rw [Nat.add_mul_mod_self_left, Nat.mod_eq_of_lt ha]
    | succ i =>
      rw [List.getD_cons_succ, ← ih ht i, Nat.mul_succ, Nat.add_comm (w * i) w, Nat.shiftRight_add, pack]
      congr 2
      rw [Nat.shiftRight_eq_div_pow, Nat.add_comm, Nat.mul_add_div (Nat.pow_pos (by omega)),
        Nat.div_eq_of_lt ha, Nat.add_zero]

theorem pack_injective (w : Nat) (l1 l2 : List Nat) (h1 : ∀ v ∈ l1, v < 2 ^ w) (h2 : ∀ v ∈ l2, v < 2 ^ w)
    (hlen : l1.length = l2.length) (h : pack w l1 = pack w l2) : l1 = l2 := by
  apply List.ext_getElem hlen
  intro i hi1 hi2
  have e1 := pack_field w l1 h1 i
  have e2 := pack_field w l2 h2 i
  rw [h, e2] at e1
  rw [getD_eq_getElem hi1, getD_eq_getElem hi2] at e1
  exact e1.symm

/-- bits of a packed word -/
theorem testBit_pack (w : Nat) (hw : 0 < w) (l : List Nat) (h : ∀ v ∈ l, v < 2 ^ w) (j : Nat) :
    (pack w l).testBit j = (l.getD (j / w) 0).testBit (j % w) := by
  have hf := pack_field w l h (j / w)
  rw [← hf, Nat.testBit_mod_two_pow, Nat.testBit_shiftRight]
  have : w * (j / w) + j % w = j := Nat.div_add_mod j w
  simp [Nat.mod_lt _ hw, this]

/-- an OR-fold of fields placed at disjoint positions is the packed word -/
theorem testBit_foldl_or (l : List Nat) (g : Nat → Nat) (init : Nat) (j : Nat) :
    (l.foldl (fun e i => e ||| g i) init).testBit j = (init.testBit j || l.any fun i => (g i).testBit j) := by
  induction l generalizing init with
  | nil => simp
  | cons a t ih => rw [List.foldl_cons, ih, Nat.testBit_or, List.any_cons, Bool.or_assoc]

theorem foldl_or_eq_pack (w : Nat) (hw : 0 < w) (k : Nat) (f : Nat → Nat) (hf : ∀ i, i < k → f i < 2 ^ w) :
    (List.range k).foldl (fun e i => e ||| (f i <<< (w * i))) 0 = pack w ((List.range k).map f) := by
  apply Nat.eq_of_testBit_eq
  intro j
  rw [testBit_foldl_or (List.range k) (fun i => f i <<< (w * i)) 0 j, testBit_pack w hw]
  · simp only [Nat.zero_testBit, Bool.false_or, Nat.testBit_shiftLeft]
    by_cases hjk : j / w < k
    · have hget : ((List.range k).map f).getD (j / w) 0 = f (j / w) := by
        rw [List.getD_eq_getElem?_getD, List.getElem?_map, List.getElem?_range hjk]; rfl
      rw [hget]
      have hjw : w * (j / w) + j % w = j := Nat.div_add_mod j w
      apply Bool.eq_iff_iff.2
      rw [List.any_eq_true]
      constructor
      · rintro ⟨i, hi, hb⟩
        simp only [Bool.and_eq_true, decide_eq_true_eq] at hb
        obtain ⟨hle, hb⟩ := hb
        have hik := List.mem_range.1 hi
        have hlt : j - w * i < w := by
          apply Classical.byContradiction
          intro hnot
          have := Nat.testBit_lt_two_pow (Nat.lt_of_lt_of_le (hf i hik) (Nat.pow_le_pow_right (by omega) (Nat.not_lt.1 hnot)))
          rw [this] at hb; cases hb
        have hq : j / w = i := by
          have e : j = w * i + (j - w * i) := by omega
          rw [e, Nat.mul_add_div hw, Nat.div_eq_of_lt hlt, Nat.add_zero]
        subst hq
        have : j - w * (j / w) = j % w := by omega
        rw [← this]; exact hb
      · intro hb
        refine ⟨j / w, List.mem_range.2 hjk, ?_⟩
        simp only [Bool.and_eq_true, decide_eq_true_eq]
        refine ⟨by omega, ?_⟩
        have : j - w * (j / w) = j % w := by omega
        rw [this]; exact hb
    · have hget : ((List.range k).map f).getD (j / w) 0 = 0 := by
        rw [List.getD_eq_getElem?_getD, List.getElem?_eq_none (by simp; omega)]; rfl
      rw [hget, Nat.zero_testBit]
      apply Bool.eq_false_iff.2
      intro hany
      rw [List.any_eq_true] at hany
      obtain ⟨i, hi, hb⟩ := hany
      simp only [Bool.and_eq_true, decide_eq_true_eq] at hb
      obtain ⟨hle, hb⟩ := hb
      have hik := List.mem_range.1 hi
      have hlt : j - w * i < w := by
        apply Classical.byContradiction
        intro hnot
        have := Nat.testBit_lt_two_pow (Nat.lt_of_lt_of_le (hf i hik) (Nat.pow_le_pow_right (by omega) (Nat.not_lt.1 hnot)))
        rw [this] at hb; cases hb
      have hq : j / w = i := by
        have e : j = w * i + (j - w * i) := by omega
        rw [e, Nat.mul_add_div hw, Nat.div_eq_of_lt hlt, Nat.add_zero]
      omega
  · intro v hv
    rw [List.mem_map] at hv
    obtain ⟨i, hi, rfl⟩ := hv
    exact hf i (List.mem_range.1 hi)

/-! ### `decodePerm ∘ encodePerm` -/

theorem and_15 (x : Nat) : x &&& 15 = x % 2 ^ 4 := Nat.and_two_pow_sub_one_eq_mod x 4
theorem and_7 (x : Nat) : x &&& 7 = x % 2 ^ 3 := Nat.and_two_pow_sub_one_eq_mod x 3

theorem decodePerm_pack (p : List Nat) (hp : ∀ v ∈ p, v < 16) : decodePerm p.length (pack 4 p) = p := by
  apply List.ext_getElem
  · simp [decodePerm]
  · intro i h1 h2
    simp only [decodePerm, List.getElem_map, List.getElem_range, and_15]
    rw [pack_field 4 p hp i, getD_eq_getElem h2]

theorem decode_encodePerm' (p : List Nat) (hp : ∀ v ∈ p, v < 16) : decodePerm p.length (encodePerm p) = p := by
  rw [encodePerm_eq_pack]; exact decodePerm_pack p hp

/-! ### the routing key -/

theorem testBit_of_lt {x i j : Nat} (h : x < 2 ^ i) (hij : i ≤ j) : x.testBit j = false :=
  Nat.testBit_lt_two_pow (Nat.lt_of_lt_of_le h (Nat.pow_le_pow_right (by omega) hij))

/-- the mask keeps exactly the part above bit `4R` -/
theorem and_suffixMask (n R a b : Nat) (ha : a < 2 ^ (4 * R)) (hb : b < 2 ^ (4 * (n - R))) :
    (a + 2 ^ (4 * R) * b) &&& suffixMask n R = 2 ^ (4 * R) * b := by
  apply Nat.eq_of_testBit_eq
  intro j
  rw [Nat.testBit_and, Nat.add_comm, Nat.testBit_two_pow_mul_add b ha j, suffixMask, Nat.testBit_shiftLeft,
    Nat.testBit_two_pow_sub_one, Nat.testBit_two_pow_mul]
  by_cases hj : j < 4 * R
  · simp [hj, Nat.not_le.2 hj]
  · have hj' : j ≥ 4 * R := Nat.not_lt.1 hj
    simp only [hj, if_false, hj', decide_true, Bool.true_and]
    by_cases hk : j - 4 * R < 4 * (n - R)
    · simp [hk]
    · rw [testBit_of_lt hb (Nat.not_lt.1 hk)]; simp

theorem take_lt16 {p : List Nat} (hp : ∀ v ∈ p, v < 16) (k : Nat) : ∀ v ∈ p.take k, v < 2 ^ 4 :=
  fun v hv => hp v (List.mem_of_mem_take hv)
theorem drop_lt16 {p : List Nat} (hp : ∀ v ∈ p, v < 16) (k : Nat) : ∀ v ∈ p.drop k, v < 2 ^ 4 :=
  fun v hv => hp v (List.mem_of_mem_drop hv)

/-- a packed state splits into prefix and suffix -/
theorem pack_split (p : List Nat) (R : Nat) (hR : R ≤ p.length) :
    pack 4 p = pack 4 (p.take R) + 2 ^ (4 * R) * pack 4 (p.drop R) := by
  conv => lhs; rw [← List.take_append_drop R p]
  rw [pack_append, List.length_take, Nat.min_eq_left hR]

theorem chunkOf_pack (n R : Nat) (p : List Nat) (hlen : p.length = n) (hR : R ≤ n) (hp : ∀ v ∈ p, v < 16) :
    chunkOf n R (pack 4 p) = 2 ^ (4 * R) * pack 4 (p.drop R) := by
  unfold chunkOf
  rw [pack_split p R (by omega)]
  apply and_suffixMask
  · have := pack_lt 4 (p.take R) (take_lt16 hp R)
    rwa [List.length_take, Nat.min_eq_left (by omega)] at this
  · have := pack_lt 4 (p.drop R) (drop_lt16 hp R)
    rwa [List.length_drop, hlen] at this

theorem suffixMask_of_le (n R : Nat) (h : n ≤ R) : suffixMask n R = 0 := by
  have : n - R = 0 := by omega
  simp [suffixMask, this]

theorem chunkOf_eq_iff' (n R : Nat) (p q : List Nat) (hp : IsPermOf n p) (hq : IsPermOf n q) (hn : n ≤ 16) :
    chunkOf n R (encodePerm p) = chunkOf n R (encodePerm q) ↔ p.drop R = q.drop R := by
  have hp16 : ∀ v ∈ p, v < 16 := fun v hv => Nat.lt_of_lt_of_le (hp.lt v hv) hn
  have hq16 : ∀ v ∈ q, v < 16 := fun v hv => Nat.lt_of_lt_of_le (hq.lt v hv) hn
  by_cases hR : R ≤ n
  · rw [encodePerm_eq_pack, encodePerm_eq_pack, chunkOf_pack n R p hp.length_eq hR hp16,
      chunkOf_pack n R q hq.length_eq hR hq16]
    constructor
    · intro h
      have h' := Nat.eq_of_mul_eq_mul_left (Nat.pow_pos (by omega)) h
      exact pack_injective 4 _ _ (drop_lt16 hp16 R) (drop_lt16 hq16 R)
        (by rw [List.length_drop, List.length_drop, hp.length_eq, hq.length_eq]) h'
    · intro h; rw [h]
  · have h1 : p.drop R = [] := List.drop_eq_nil_of_le (by rw [hp.length_eq]; omega)
    have h2 : q.drop R = [] := List.drop_eq_nil_of_le (by rw [hq.length_eq]; omega)
    simp [chunkOf, suffixMask_of_le n R (by omega), h1, h2]

/-! ### the chunk maps `map1`, `map2` -/

theorem mkChunk_suffix (n R : Nat) (s : List Nat) : (mkChunk n R s).suffix = s := rfl
theorem mkChunk_map1 (n R : Nat) (s : List Nat) :
    (mkChunk n R s).map1 = (List.range n).filter fun i => !s.contains i := rfl
theorem mkChunk_map2 (n R : Nat) (s : List Nat) :
    (mkChunk n R s).map2 = (List.range R).foldl (fun m i => m.set ((mkChunk n R s).map1.getD i 0) i)
      (List.replicate n 0) := rfl
theorem mkChunk_encodedSuffix (n R : Nat) (s : List Nat) :
    (mkChunk n R s).encodedSuffix = ((List.range' R (n - R)).map fun i => s.getD (i - R) 0 <<< (4 * i)).sum := rfl

/-- `encoded_suffix` is the packed suffix moved above the prefix -/
theorem encodedSuffix_eq (n R : Nat) (s : List Nat) (hs : s.length = n - R) :
    (mkChunk n R s).encodedSuffix = 2 ^ (4 * R) * pack 4 s := by
  rw [mkChunk_encodedSuffix, List.range'_eq_map_range, List.map_map, ← sum_shift_eq_pack 4 s, ← sum_map_mul, hs]
  congr 1
  apply List.map_congr_left
  intro j _
  simp only [Function.comp, Nat.add_sub_cancel_left, Nat.shiftLeft_eq, Nat.mul_add, Nat.pow_add]
  rw [Nat.mul_assoc, Nat.mul_comm (2 ^ (4 * R))]

/-- `map1` lists the elements of the prefix (in increasing order) -/
theorem map1_perm {n : Nat} {p : List Nat} (hp : IsPermOf n p) (R : Nat) :
    (mkChunk n R (p.drop R)).map1.Perm (p.take R) := by
  rw [mkChunk_map1]
  have h1 : (List.range n).Perm p := ((isPermOf_iff_perm n p).1 hp).symm
  refine (h1.filter _).trans ?_
  have hnd : (p.take R ++ p.drop R).Nodup := by rw [List.take_append_drop]; exact hp.nodup
  obtain ⟨_, _, hdisj⟩ := List.nodup_append.1 hnd
  have e1 : (p.take R).filter (fun i => !(p.drop R).contains i) = p.take R := by
    rw [List.filter_eq_self]
    intro a ha
    simp only [Bool.not_eq_true', List.contains_eq_mem, decide_eq_false_iff_not]
    intro hb
    exact hdisj a ha a hb rfl
  have e2 : (p.drop R).filter (fun i => !(p.drop R).contains i) = [] := by
    rw [List.filter_eq_nil_iff]
    intro a ha
    simp [ha]
  have e0 : p.filter (fun i => !(p.drop R).contains i) =
      (p.take R ++ p.drop R).filter (fun i => !(p.drop R).contains i) := by rw [List.take_append_drop]
  rw [e0, List.filter_append, e1, e2, List.append_nil]

theorem map1_length {n : Nat} {p : List Nat} (hp : IsPermOf n p) (R : Nat) (hR : R ≤ n) :
    (mkChunk n R (p.drop R)).map1.length = R := by
  rw [(map1_perm hp R).length_eq, List.length_take, hp.length_eq, Nat.min_eq_left hR]

theorem map1_nodup {n : Nat} {p : List Nat} (hp : IsPermOf n p) (R : Nat) :
    (mkChunk n R (p.drop R)).map1.Nodup :=
  (map1_perm hp R).nodup_iff.2 (hp.nodup.sublist (List.take_sublist R p))

/-- the loop `for i in range(R): map2[map1[i]] = i` -/
theorem setFold_spec (m : List Nat) (n : Nat) (hnd : m.Nodup) (hlt : ∀ v ∈ m, v < n) (k : Nat) (hk : k ≤ m.length) :
    ((List.range k).foldl (fun acc i => acc.set (m.getD i 0) i) (List.replicate n 0)).length = n ∧
    ∀ i, i < k → ((List.range k).foldl (fun acc i => acc.set (m.getD i 0) i) (List.replicate n 0)).getD
      (m.getD i 0) 0 = i := by
  induction k with
  | zero => exact ⟨by simp, fun i hi => by omega⟩
  | succ k ih =>
    obtain ⟨ihl, ihv⟩ := ih (by omega)
    rw [List.range_succ, List.foldl_append]
    simp only [List.foldl_cons, List.foldl_nil]
    refine ⟨by rw [List.length_set, ihl], ?_⟩
    intro i hi
    by_cases hik : i = k
    · subst hik
      apply getD_set_eq'
      rw [ihl]
      apply hlt
      rw [getD_eq_getElem (by omega)]
      exact List.getElem_mem _
    · have hne : m.getD k 0 ≠ m.getD i 0 := by
        intro e
        have := (List.getD_inj (fallback := 0) (by omega) (by omega) hnd).1 e
        omega
      rw [getD_set_ne' _ _ _ _ hne]
      exact ihv i (by omega)

/-- `map2` inverts `map1` on the prefix elements -/
theorem map2_spec {n : Nat} {p : List Nat} (hp : IsPermOf n p) (R : Nat) (hR : R ≤ n) (v : Nat) (hv : v ∈ p.take R) :
    (mkChunk n R (p.drop R)).map2.getD v 0 < R ∧
    (mkChunk n R (p.drop R)).map1.getD ((mkChunk n R (p.drop R)).map2.getD v 0) 0 = v := by
  have hlen := map1_length hp R hR
  have hv1 : v ∈ (mkChunk n R (p.drop R)).map1 := (map1_perm hp R).mem_iff.2 hv
  obtain ⟨i, hi, e⟩ := List.getElem_of_mem hv1
  have hlt : ∀ u ∈ (mkChunk n R (p.drop R)).map1, u < n := by
    intro u hu
    exact hp.lt u (List.mem_of_mem_take ((map1_perm hp R).mem_iff.1 hu))
  have hs := (setFold_spec _ n (map1_nodup hp R) hlt R (by omega)).2 i (by omega)
  rw [← mkChunk_map2, getD_eq_getElem hi, e] at hs
  rw [hs]
  exact ⟨by omega, by rw [getD_eq_getElem hi, e]⟩

/-- the relabelled prefix `[map2[p[i]] for i in range(R)]` -/
def relPrefix (n R : Nat) (p : List Nat) : List Nat :=
  (p.take R).map fun v => (mkChunk n R (p.drop R)).map2.getD v 0

theorem relPrefix_length {n : Nat} {p : List Nat} (hp : IsPermOf n p) (R : Nat) (hR : R ≤ n) :
    (relPrefix n R p).length = R := by
  simp [relPrefix, hp.length_eq, Nat.min_eq_left hR]

/-- the relabelled prefix is a permutation of `range(R)` -/
theorem relPrefix_isPerm {n : Nat} {p : List Nat} (hp : IsPermOf n p) (R : Nat) (hR : R ≤ n) :
    IsPermOf R (relPrefix n R p) := by
  refine ⟨relPrefix_length hp R hR, ?_, ?_⟩
  · unfold relPrefix
    refine (List.pairwise_map).2 ((hp.nodup.sublist (List.take_sublist R p)).imp_of_mem ?_)
    intro a b ha hb hne hab
    apply hne
    rw [← (map2_spec hp R hR a ha).2, ← (map2_spec hp R hR b hb).2, hab]
  · intro i hi
    unfold relPrefix at hi
    rw [List.mem_map] at hi
    obtain ⟨v, hv, rfl⟩ := hi
    exact (map2_spec hp R hR v hv).1

/-! ### rank / unrank inside a chunk -/

theorem field4 (p : List Nat) (hp : ∀ v ∈ p, v < 16) (i : Nat) : (pack 4 p >>> (4 * i)) &&& 15 = p.getD i 0 := by
  rw [and_15, pack_field 4 p hp i]

theorem field3 (p : List Nat) (hp : ∀ v ∈ p, v < 8) (i : Nat) : (pack 3 p >>> (3 * i)) &&& 7 = p.getD i 0 := by
  rw [and_7, pack_field 3 p hp i]

theorem getD_take_of_lt (p : List Nat) (R i : Nat) (hi : i < R) : (p.take R).getD i 0 = p.getD i 0 := by
  simp [List.getD_eq_getElem?_getD, hi]

theorem take_getElem (p : List Nat) (R i : Nat) (h : i < (p.take R).length) : (p.take R)[i] = p.getD i 0 := by
  have hi : i < R := by rw [List.length_take] at h; omega
  rw [← getD_take_of_lt p R i hi]
  exact (getD_eq_getElem h).symm

theorem getD_mem_take {p : List Nat} {R i : Nat} (hi : i < R) (hR : R ≤ p.length) : p.getD i 0 ∈ p.take R := by
  rw [← getD_take_of_lt p R i hi, getD_eq_getElem (by rw [List.length_take]; omega)]
  exact List.getElem_mem _

/-- `PREFIX_MAP_2` on the code of a permutation of `range(R)` is its lexicographic rank -/
theorem prefixMap2_pack (R : Nat) (pre : List Nat) (hpre : IsPermOf R pre) (hR8 : R ≤ 8) :
    prefixMap2 R (pack 3 pre) = lexRank pre := by
  have h8 : ∀ v ∈ pre, v < 2 ^ 3 := fun v hv => Nat.lt_of_lt_of_le (hpre.lt v hv) hR8
  have hdec : ((List.range R).map fun i => (pack 3 pre >>> (3 * i)) &&& 7) = pre := by
    apply List.ext_getElem
    · simp [hpre.length_eq]
    · intro i h1 h2
      simp only [List.getElem_map, List.getElem_range]
      rw [field3 pre h8 i, getD_eq_getElem h2]
  have hlt : pack 3 pre < 2 ^ (3 * R) := by
    have := pack_lt 3 pre h8
    rwa [hpre.length_eq] at this
  have hperm : isPerm pre = true := by
    rw [isPerm_iff, hpre.length_eq]; exact hpre
  simp only [prefixMap2, hdec, hlt, hperm, decide_true, Bool.and_self, if_true]

/-- `PREFIX_MAP_1` at the rank of a permutation of `range(R)` is its code -/
theorem prefixMap1_lexRank (R : Nat) (pre : List Nat) (hpre : IsPermOf R pre) :
    prefixMap1 R (lexRank pre) = pack 3 pre := by
  have hun : lexUnrank R (List.range R) (lexRank pre) = pre := by
    have := lexUnrank_lexRank_gen pre hpre.nodup (List.range R) List.pairwise_lt_range
      ((isPermOf_iff_perm R pre).1 hpre).symm
    rwa [hpre.length_eq] at this
  unfold prefixMap1 prefixPerm
  rw [hun]
  have := sum_shift_eq_pack 3 pre
  rwa [hpre.length_eq] at this

section roundtrip
variable {n : Nat} {p : List Nat}

theorem permToRank_eq (hp : IsPermOf n p) (R : Nat) (hR : R ≤ n) (hn : n ≤ 16) (hR8 : R ≤ 8) :
    permToRank R (mkChunk n R (p.drop R)) (encodePerm p) = lexRank (relPrefix n R p) := by
  have hp16 : ∀ v ∈ p, v < 16 := fun v hv => Nat.lt_of_lt_of_le (hp.lt v hv) hn
  have hf : ∀ i, i < R →
      (mkChunk n R (p.drop R)).map2.getD ((pack 4 p >>> (4 * i)) &&& 15) 0 < 2 ^ 3 := by
    intro i hi
    rw [field4 p hp16 i]
    exact Nat.lt_of_lt_of_le (map2_spec hp R hR _ (getD_mem_take hi (by rw [hp.length_eq]; exact hR))).1 hR8
  unfold permToRank
  rw [encodePerm_eq_pack,
    foldl_or_eq_pack 3 (by omega) R (fun i => (mkChunk n R (p.drop R)).map2.getD ((pack 4 p >>> (4 * i)) &&& 15) 0) hf]
  have hlist : ((List.range R).map fun i => (mkChunk n R (p.drop R)).map2.getD ((pack 4 p >>> (4 * i)) &&& 15) 0) =
      relPrefix n R p := by
    apply List.ext_getElem
    · simp [relPrefix_length hp R hR]
    · intro i h1 h2
      have hi : i < R := by simpa using h1
      simp only [List.getElem_map, List.getElem_range, relPrefix]
      rw [field4 p hp16 i, take_getElem]
  rw [hlist]
  exact prefixMap2_pack R _ (relPrefix_isPerm hp R hR) hR8

theorem rankToPerm_eq (hp : IsPermOf n p) (R : Nat) (hR : R ≤ n) (hn : n ≤ 16) (hR8 : R ≤ 8) :
    rankToPerm R (mkChunk n R (p.drop R)) (lexRank (relPrefix n R p)) = encodePerm p := by
  have hp16 : ∀ v ∈ p, v < 16 := fun v hv => Nat.lt_of_lt_of_le (hp.lt v hv) hn
  have hpre := relPrefix_isPerm hp R hR
  have h8 : ∀ v ∈ relPrefix n R p, v < 8 := fun v hv => Nat.lt_of_lt_of_le (hpre.lt v hv) hR8
  have hval : ∀ i, i < R → (mkChunk n R (p.drop R)).map1.getD
      ((pack 3 (relPrefix n R p) >>> (3 * i)) &&& 7) 0 = p.getD i 0 := by
    intro i hi
    rw [field3 _ h8 i]
    have hmem := getD_mem_take (p := p) hi (by rw [hp.length_eq]; exact hR)
    have : (relPrefix n R p).getD i 0 = (mkChunk n R (p.drop R)).map2.getD (p.getD i 0) 0 := by
      have hlen : i < (relPrefix n R p).length := by rw [relPrefix_length hp R hR]; exact hi
      rw [getD_eq_getElem hlen]
      simp only [relPrefix, List.getElem_map]
      rw [take_getElem]
    rw [this]
    exact (map2_spec hp R hR _ hmem).2
  have hf : ∀ i, i < R → (mkChunk n R (p.drop R)).map1.getD
      ((pack 3 (relPrefix n R p) >>> (3 * i)) &&& 7) 0 < 2 ^ 4 := by
    intro i hi
    rw [hval i hi]
    exact hp16 _ (List.mem_of_mem_take (getD_mem_take hi (by rw [hp.length_eq]; exact hR)))
  unfold rankToPerm rankToPrefix
  rw [prefixMap1_lexRank R _ hpre]
  simp only []
  rw [foldl_or_eq_pack 4 (by omega) R
    (fun i => (mkChunk n R (p.drop R)).map1.getD ((pack 3 (relPrefix n R p) >>> (3 * i)) &&& 7) 0) hf]
  have hlist : ((List.range R).map fun i => (mkChunk n R (p.drop R)).map1.getD
      ((pack 3 (relPrefix n R p) >>> (3 * i)) &&& 7) 0) = p.take R := by
    apply List.ext_getElem
    · simp [hp.length_eq, Nat.min_eq_left hR]
    · intro i h1 h2
      have hi : i < R := by simpa using h1
      simp only [List.getElem_map, List.getElem_range]
      rw [hval i hi, take_getElem]
  rw [hlist, encodedSuffix_eq n R _ (by rw [List.length_drop, hp.length_eq]), encodePerm_eq_pack,
    pack_split p R (by rw [hp.length_eq]; exact hR), Nat.add_comm]
  have hlt : pack 4 (p.take R) < 2 ^ (4 * R) := by
    have := pack_lt 4 (p.take R) (take_lt16 hp16 R)
    rwa [List.length_take, hp.length_eq, Nat.min_eq_left hR] at this
  exact (Nat.two_pow_add_eq_or_of_lt hlt _).symm

theorem rank_roundtrip' (n R : Nat) (hR : R ≤ n) (hn : n ≤ 16) (hR8 : R ≤ 8) (p : List Nat) (hp : IsPermOf n p) :
    rankToPerm R (mkChunk n R (p.drop R)) (permToRank R (mkChunk n R (p.drop R)) (encodePerm p)) = encodePerm p ∧
    permToRank R (mkChunk n R (p.drop R)) (encodePerm p) < fact R := by
  rw [permToRank_eq hp R hR hn hR8]
  refine ⟨rankToPerm_eq hp R hR hn hR8, ?_⟩
  have := lexRank_lt (relPrefix n R p)
  rwa [relPrefix_length hp R hR] at this

end roundtrip

theorem encodePerm_injective (p q : List Nat) (hp : ∀ v ∈ p, v < 16) (hq : ∀ v ∈ q, v < 16)
    (hlen : p.length = q.length) (h : encodePerm p = encodePerm q) : p = q := by
  rw [encodePerm_eq_pack, encodePerm_eq_pack] at h
  exact pack_injective 4 p q hp hq hlen h

theorem rank_injective_in_chunk' (n R : Nat) (hR : R ≤ n) (hn : n ≤ 16) (hR8 : R ≤ 8) (p q : List Nat)
    (hp : IsPermOf n p) (hq : IsPermOf n q) (hs : p.drop R = q.drop R)
    (hr : permToRank R (mkChunk n R (p.drop R)) (encodePerm p) =
      permToRank R (mkChunk n R (q.drop R)) (encodePerm q)) : p = q := by
  have h1 := (rank_roundtrip' n R hR hn hR8 p hp).1
  have h2 := (rank_roundtrip' n R hR hn hR8 q hq).1
  rw [hr, hs, h2] at h1
  exact (encodePerm_injective p q (fun v hv => Nat.lt_of_lt_of_le (hp.lt v hv) hn)
    (fun v hv => Nat.lt_of_lt_of_le (hq.lt v hv) hn) (by rw [hp.length_eq, hq.length_eq]) h1.symm)

end Cv.Bitmask
